//go:build verif

package main

import (
	"math"
	"sort"
	"strconv"
	"strings"

	"github.com/sahilm/fuzzy"

	"github.com/Vedant9500/WTF/internal/database"
	"github.com/Vedant9500/WTF/internal/nlp"
)

// legacy2: correspondence of the legacy scorer and the legacy entry points of internal/database/search.go
// with Model/LegacyScore.lean + Model/LegacyEntry.lean (driver: Driver/Legacy.lean, ops below), and the
// clauses of C01 / C04 evaluated on their real answers.
//
//	mls <q> <boosts>            calculateScore of every entry (hook VerifLegacyScore) against the MODEL's value
//	parts <word>                the five summands of calculateWordScore and the category factor, per entry
//	pipe <q> <limit> <boosts> <pipelineOnly> <pipelineBoost>     SearchWithPipelineOptions (model scorer)
//	swo|swf <q> <11 option tokens>   SearchWithOptions / SearchWithFuzzy
//	pfz <q> <11 option tokens>       performFuzzySearch before truncation
//	swn <q> <11 option tokens> <shared>   SearchWithNLP on the loader-built database (shared=1) or on a
//	                                 database value without TF-IDF searcher (shared=0)
//	combine <exact> <fuzzy> <limit>  combineAndDeduplicateResults on given lists
//	sug <q> <max>                    GetSuggestions
//
// Oracle lines (host ri cmd lg pq ib tf fz ls) are those of the search / legacy domains, computed here on
// the RAW query (these entry points do not normalise it).
//
// Streams: default (random databases over a pool aimed at every branch of the scorer), `overflow`
// (hundreds of repetitions of a category word: the category product leaves the float range).
func init() {
	Register(&Domain{Name: "legacy2", Gen: legacy2Gen, Exec: legacy2Exec})
}

// ---- generators ------------------------------------------------------------------------------------

var legacy2CmdPool = []string{"tar", "tar czf backup.tgz dir", "zip", "zip -r out.zip dir", "gzip", "gzip -9 file", "bzip2 file",
	"gunzip x.gz", "unzip a.zip", "mkdir", "mkdir -p a/b", "mkdirs all", "cargo new proj", "conda create env", "find . -name x",
	"locate file", "grep -r x .", "wget url", "curl -O url", "git", "git commit -m x", "ls", "ls -la", "dir", "cd ..", "touch f",
	"make new", "cp a b", "rm -rf x", "apt install x", "ps aux", "ssh host", "vim f", "chmod +x f", "7z a x", "mytool archive",
	"xtar", "my zip tool", "a tar b", "TAR xzf A", "Zip It", "ÉCOLE tar", "tar\xff x", "", "compress", "archive it",
	"find | grep x", "tar czf - . | ssh h", "zip -r - . && echo ok", "pipeview", "Get-ChildItem", "new", "create dir", "get url",
	"download file", "search text", "folder view", "extract x", "İstanbul zip", "archive", "rg pattern", "nmap host", "sudo make"}

var legacy2Words = []string{"compress", "archive", "zip", "tar", "directory", "folder", "create", "new", "search", "find",
	"download", "get", "extract", "file", "git", "package", "process", "network", "edit", "permission", "mkdir", "gzip", "ls",
	"x", "a", "go", "files", "dir", "make", "url", "it", "tool", "view"}

var legacy2DescPool = []string{"archive files now", "make an archive", "an archive here", "archives", "create a new directory",
	"new", "the new folder", "compress", "compress and zip a folder", "search for text in files", "find files", "finder",
	"download a file from a url", "get url", "List Directory Contents", "ZIP archive TOOL", "", "x", "école française",
	"a\xffb broken", "extract it", "git it", "zip", "file", "process list", "edit text", "folder", "make directory dir"}

var legacy2KwPool = []string{"archive", "archiver", "zip", "zipper", "tar", "tarball", "compress", "compression", "directory",
	"create", "new", "news", "search", "find", "finder", "download", "get", "git", "file", "files", "Folder", "ÉCOLE", "x"}

func legacy2Command(r *Rng) database.Command {
	if r.Chance(1, 3) {
		return genCommand(r)
	}
	c := database.Command{Command: Pick(r, legacy2CmdPool), Description: Pick(r, legacy2DescPool)}
	if r.Chance(1, 6) {
		c.Command = strings.ToUpper(c.Command)
	}
	for i, n := 0, r.Intn(4); i < n; i++ {
		c.Keywords = append(c.Keywords, Pick(r, legacy2KwPool))
	}
	for i, n := 0, r.Intn(3); i < n; i++ {
		c.Tags = append(c.Tags, Pick(r, legacy2KwPool))
	}
	if r.Chance(1, 3) {
		c.Niche = Pick(r, []string{"archive", "Git", "network", "FILES", "zip", "École", "dev ops"})
	}
	c.Platform = append([]string(nil), Pick(r, platPool)...)
	c.Pipeline = r.Chance(1, 8)
	return c
}

func legacy2Database(r *Rng, tier string) []database.Command {
	maxN := 22
	if tier == "thorough" {
		maxN = 60
	}
	n := r.Range(Pick(r, []int{0, 1, 2, 4, 8, maxN})/2, Pick(r, []int{1, 3, 6, 12, maxN}))
	cmds := make([]database.Command, 0, n)
	for i := 0; i < n; i++ {
		if i > 0 && r.Chance(1, 7) {
			cmds = append(cmds, cmds[r.Intn(i)]) // same text twice: the de-duplication key is the text
			continue
		}
		cmds = append(cmds, legacy2Command(r))
	}
	return cmds
}

func legacy2Query(r *Rng, dbWords []string) string {
	w := func() string {
		if len(dbWords) > 0 && r.Chance(1, 3) {
			return Pick(r, dbWords)
		}
		return Pick(r, legacy2Words)
	}
	switch x := r.Intn(100); {
	case x < 25:
		return w()
	case x < 55:
		n := r.Range(2, 4)
		ws := make([]string, n)
		for i := range ws {
			ws[i] = w()
		}
		return strings.Join(ws, Pick(r, []string{" ", " ", "  ", "\t", " ", "\u0085", " \n"}))
	case x < 63:
		return strings.ToUpper(w() + " " + w())
	case x < 68:
		return " " + w() + "  "
	case x < 74:
		s := w()
		return s[:r.Range(1, len(s))]
	case x < 80:
		return Pick(r, []string{"", " ", "\t\n", "a", "x y", "É", "école", "ÉCOLE tar", "\xff", "tar\xff", "a\xffb", "İstanbul", "zip\x00", "日本 zip"})
	case x < 86:
		return strings.TrimSpace(strings.Repeat(w()+" ", r.Range(5, 30)))
	case x < 93:
		return misspell(r, w())
	default:
		return genQuery(r, dbWords)
	}
}

var legacy2BoostValues = []float64{1.5, 2, 3, 1.1, 0.5, 0, -1, 2.5, -5, -0.5, 1e6, 1}

func legacy2Options(r *Rng, n int, q string, cmds []database.Command) database.SearchOptions {
	o := database.SearchOptions{}
	o.Limit = Pick(r, []int{-1, 0, 1, 1, 2, 3, 5, 5, 50, n, n + 1, n / 2, 1<<62 + 1, math.MaxInt64, 1 << 62})
	switch r.Intn(5) {
	case 0:
		o.ContextBoosts = map[string]float64{}
	case 1, 2:
		o.ContextBoosts = map[string]float64{}
		ws := strings.Fields(strings.ToLower(q))
		for j, m := 0, r.Range(1, 3); j < m; j++ {
			k := Pick(r, legacy2Words)
			switch {
			case len(ws) > 0 && r.Chance(1, 2):
				k = Pick(r, ws)
			case len(cmds) > 0 && r.Chance(1, 2):
				k = strings.ToLower(Pick(r, cmds).Niche)
			}
			if k != "" {
				o.ContextBoosts[k] = Pick(r, legacy2BoostValues)
			}
		}
	}
	o.PipelineOnly = r.Chance(1, 4)
	o.PipelineBoost = Pick(r, []float64{0, 1.5, 2, 2, -1, 0.5})
	o.UseFuzzy = r.Chance(3, 5)
	o.FuzzyThreshold = Pick(r, []int{0, 0, -30, -100, -5, 1, 50})
	o.UseNLP = r.Chance(2, 3)
	o.AllPlatforms = r.Chance(1, 7)
	o.Platforms = append([]string(nil), Pick(r, [][]string{nil, nil, nil, {"windows"}, {"linux", "macos"}, {"darwin"}})...)
	o.NoCrossPlatform = r.Chance(1, 7)
	return o
}

// legacy2Header: host, rune facts of every text the model lower-cases / splits, the entries, the log table
func legacy2Header(db *database.Database, texts []string) []string {
	ops := []string{"host " + Hx(database.VerifCurrentPlatform())}
	all := []string{"Kİſ"}
	for i := range db.Commands {
		c := &db.Commands[i]
		all = append(all, c.Command, c.Description, c.Niche)
		all = append(all, c.Keywords...)
		all = append(all, c.Tags...)
		all = append(all, c.Platform...)
	}
	all = append(all, texts...)
	ops = append(ops, runeInfoLines(all)...)
	for i := range db.Commands {
		ops = append(ops, cmdLine(&db.Commands[i]))
	}
	return append(ops, tfidfLogLines(len(db.Commands))...)
}

func legacy2FzLine(pattern string, targets []string) string {
	fz := "-"
	func() {
		defer func() {
			if recover() != nil {
				fz = "-"
			}
		}()
		ms := fuzzy.Find(pattern, targets)
		if len(ms) > 0 {
			ps := make([]string, len(ms))
			for i, m := range ms {
				ps[i] = Itoa(m.Index) + "=" + Itoa(m.Score)
			}
			fz = strings.Join(ps, ",")
		}
	}()
	return "fz " + fz
}

// legacy2NlpLines: what ProcessQuery / calculateIntentBoost compute for the RAW query
func legacy2NlpLines(db *database.Database, q string) (lines []string, enhanced string) {
	pq := nlp.NewQueryProcessor().ProcessQuery(q)
	enh := pq.GetEnhancedKeywords()
	lines = []string{"pq " + hxList(pq.Actions) + " " + hxList(pq.Targets) + " " + hxList(pq.Keywords) + " " + hxList(enh)}
	ib := make([]string, len(db.Commands))
	for i := range db.Commands {
		ib[i] = F(database.VerifIntentBoost(&db.Commands[i], pq))
	}
	if len(ib) == 0 {
		lines = append(lines, "ib -")
	} else {
		lines = append(lines, "ib "+strings.Join(ib, ","))
	}
	return lines, strings.Join(enh, " ")
}

// legacy2SuggestWords: the candidate list GetSuggestions hands to the fuzzy matcher (needed only to ask
// the library for its tie order; a wrong list shows up as a `sug` mismatch)
func legacy2SuggestWords(db *database.Database) []string {
	set := map[string]bool{}
	for _, c := range db.Commands {
		for _, w := range strings.Fields(c.Command) {
			if cw := strings.ToLower(strings.Trim(w, "-_.[]{}()")); len(cw) > 2 {
				set[cw] = true
			}
		}
		for _, w := range strings.Fields(c.Description) {
			if cw := strings.ToLower(strings.Trim(w, ".,!?;:()[]{}\"'")); len(cw) > 2 && !database.VerifLegacy2IsCommonWord(cw) {
				set[cw] = true
			}
		}
	}
	ws := make([]string, 0, len(set))
	for w := range set {
		ws = append(ws, w)
	}
	sort.Strings(ws)
	for i := range ws {
		if strings.Contains(ws[i], " ") {
			legacy2SpaceInWord = ws[i]
		}
		ws[i] = strings.ReplaceAll(ws[i], "\x00", " ")
	}
	return ws
}

// legacy2SpaceInWord: a candidate word containing a space BEFORE the NUL replacement (never expected:
// strings.Fields / Trim / ToLower cannot produce one); hypothesis `SpaceFree` of suggestion_words_deterministic.
var legacy2SpaceInWord string

func legacy2PairList(idx []int, sc []float64) string {
	if len(idx) == 0 {
		return "-"
	}
	ps := make([]string, len(idx))
	for i := range idx {
		ps[i] = Itoa(idx[i]) + "=" + F(sc[i])
	}
	return strings.Join(ps, ",")
}

func legacy2Gen(r *Rng, tier string, idx int, args map[string]string) []string {
	if args["stream"] == "overflow" {
		return legacy2GenOverflow(r, tier, idx)
	}
	cmds := legacy2Database(r, tier)
	db := buildDB(cmds, nil)
	var dbWords []string
	for i := range db.Commands {
		dbWords = append(dbWords, strings.Fields(db.Commands[i].Command+" "+db.Commands[i].Description)...)
	}
	type req struct {
		q string
		o database.SearchOptions
	}
	var reqs []req
	texts := []string{}
	for i, n := 0, r.Range(2, 4); i < n; i++ {
		q := legacy2Query(r, dbWords)
		o := legacy2Options(r, len(cmds), q, cmds)
		reqs = append(reqs, req{q, o})
		texts = append(texts, q)
		for k := range o.ContextBoosts {
			texts = append(texts, k)
		}
		_, enh := legacy2NlpLines(db, q)
		texts = append(texts, enh)
	}
	sugQ := []string{}
	for i, n := 0, r.Range(1, 2); i < n; i++ {
		var q string
		switch {
		case len(dbWords) > 0 && r.Chance(2, 3):
			q = misspell(r, strings.ToLower(Pick(r, dbWords)))
		case r.Chance(1, 2):
			q = misspell(r, Pick(r, legacy2Words))
		default:
			q = Pick(r, []string{"", "a", "arc", "fil", "dir", "ZIP", "é", "\xff", "x\x00"})
		}
		// every so often a long word one edit away from itself: the library's `int` score wraps after about forty adjacent
		// matched characters (the adjacency bonus triples each time) and the model wraps with it (Model/Fuzzy.lean `wrap64`)
		if len(dbWords) > 0 && r.Chance(1, 6) {
			w := strings.ToLower(Pick(r, dbWords))
			for len(w) < 48 {
				w += "-" + strings.ToLower(Pick(r, dbWords))
			}
			q = misspell(r, w)
		}
		sugQ = append(sugQ, q)
		texts = append(texts, q)
	}
	ops := legacy2Header(db, texts)
	targets := fuzzyTargets(db)
	for _, rq := range reqs {
		bo := boostsToken(rq.o.ContextBoosts)
		ops = append(ops, legacyScoreLine(db, rq.q, rq.o.ContextBoosts))
		ops = append(ops, "mls "+Hx(rq.q)+" "+bo)
		ws := strings.Fields(strings.ToLower(rq.q))
		seen := map[string]bool{}
		for _, w := range ws {
			if !seen[w] && len(seen) < 3 {
				seen[w] = true
				ops = append(ops, "parts "+Hx(w))
			}
		}
		ot := optsTokens(rq.o)
		ops = append(ops, strings.Join([]string{"pipe", Hx(rq.q), Itoa(rq.o.Limit), bo, B(rq.o.PipelineOnly), F(rq.o.PipelineBoost)}, " "))
		ops = append(ops, "swo "+Hx(rq.q)+" "+ot)
		ops = append(ops, legacy2FzLine(rq.q, targets))
		ops = append(ops, "pfz "+Hx(rq.q)+" "+ot)
		ops = append(ops, "swf "+Hx(rq.q)+" "+ot)
		nl, enh := legacy2NlpLines(db, rq.q)
		ops = append(ops, nl...)
		ops = append(ops, "swn "+Hx(rq.q)+" "+ot+" 1")
		if rq.o.UseNLP {
			ops = append(ops, legacy2FzLine(enh, targets))
		}
		ops = append(ops, "swn "+Hx(rq.q)+" "+ot+" 0")
	}
	// combineAndDeduplicateResults on its own: arbitrary lists, same entry in both, same text at two positions
	if n := len(db.Commands); n > 0 {
		for k := 0; k < 2; k++ {
			mk := func(m int) ([]int, []float64) {
				var ix []int
				var sc []float64
				for i := 0; i < m; i++ {
					ix = append(ix, r.Intn(n))
					sc = append(sc, Pick(r, []float64{0, 0.25, 0.5, 0.625, 0.8, 1, 1.25, 3.6, 30, 0.5}))
				}
				return ix, sc
			}
			ei, es := mk(r.Range(0, 5))
			fi, fs := mk(r.Range(0, 5))
			ops = append(ops, "combine "+legacy2PairList(ei, es)+" "+legacy2PairList(fi, fs)+" "+Itoa(Pick(r, []int{0, 1, 2, 3, 10})))
		}
	}
	words := legacy2SuggestWords(db)
	for _, q := range sugQ {
		ops = append(ops, legacy2FzLine(q, words))
		ops = append(ops, "sug "+Hx(q)+" "+Itoa(Pick(r, []int{-1, 0, 1, 2, 3, 5, 5, 100})))
	}
	return ops
}

// legacy2GenOverflow: the category product of getCategoryRelevanceBoost has one factor per query word;
// a few hundred repetitions of "zip"/"tar" (factor 3) against a matching command exceed the float range.
func legacy2GenOverflow(r *Rng, tier string, idx int) []string {
	cmds := []database.Command{
		{Command: "zip -r - . | ssh host 'cat > x.zip'", Description: "zip a tree to a remote host"},
		{Command: "tar", Description: "tape archiver"},
		{Command: "tar czf - . | ssh host tar xzf -", Description: "copy a tree", Pipeline: true},
		{Command: "zip", Description: "package files", Platform: []string{"windows"}},
		{Command: "gzip -9 f", Description: "bzip gzip penalty for zip queries"},
		{Command: "mkdir -p x && cd x", Description: "new directory"},
	}
	for i, n := 0, r.Range(0, 4); i < n; i++ {
		cmds = append(cmds, legacy2Command(r))
	}
	db := buildDB(cmds, nil)
	w := Pick(r, []string{"zip", "tar", "zip", "new", "create", "directory"})
	n := Pick(r, []int{400, 640, 650, 700, 800, 1200})
	if w != "zip" && w != "tar" {
		n *= 2
	}
	q := strings.TrimSpace(strings.Repeat(w+" ", n))
	if r.Chance(1, 3) {
		q += " " + strings.TrimSpace(strings.Repeat("archive ", 300))
	}
	o := database.SearchOptions{Limit: Pick(r, []int{0, 3, 10}), PipelineOnly: r.Bool(), PipelineBoost: Pick(r, []float64{2, 2, 0, 0.5, 1e6})}
	if r.Chance(1, 2) {
		o.ContextBoosts = map[string]float64{w: Pick(r, []float64{2, 0, -1, 1e6, 0.5})}
	}
	ops := legacy2Header(db, []string{q})
	bo := boostsToken(o.ContextBoosts)
	ops = append(ops, legacyScoreLine(db, q, o.ContextBoosts), "mls "+Hx(q)+" "+bo)
	ops = append(ops, strings.Join([]string{"pipe", Hx(q), Itoa(o.Limit), bo, B(o.PipelineOnly), F(o.PipelineBoost)}, " "))
	ops = append(ops, "swo "+Hx(q)+" "+optsTokens(o))
	return ops
}

// ---- execution on the real code, monitors ------------------------------------------------------------

func legacy2Tagf(v float64) string { return strconv.FormatFloat(v, 'g', -1, 64) }

// legacy2Check: the clauses of C01 on one real answer.  dupTag != "": a duplicate is counted under that tag
// instead of being reported (entry point outside the property's scope on that branch).
func legacy2Check(mon *Mon, entry string, db *database.Database, q string, reqLimit, limit int, rs []database.SearchResult, finite bool, dupTag string) {
	det := func(extra string) map[string]interface{} {
		qq := q
		if len(qq) > 200 {
			qq = qq[:200] + "…(" + Itoa(len(q)) + " bytes)"
		}
		return map[string]interface{}{"entry": entry, "query": qq, "limit": reqLimit, "n": len(rs), "what": extra}
	}
	if len(rs) > limit {
		mon.Hit("C01", "more-than-limit", det(Itoa(len(rs))+" results for limit in force "+Itoa(limit)))
	}
	seen := map[int]bool{}
	for i, r := range rs {
		id := -1
		if r.Command != nil {
			id = db.VerifIndexOf(r.Command)
		}
		if id < 0 {
			mon.Hit("C01", "foreign-command", det("result "+Itoa(i)+" is not an entry of the searched database"))
			continue
		}
		if seen[id] {
			if dupTag != "" {
				mon.Tag(dupTag)
			} else {
				mon.Hit("C01", "duplicate-result", det("entry "+Itoa(id)+" appears twice"))
			}
		}
		seen[id] = true
		if math.IsInf(r.Score, 0) && finite {
			mon.Hit("C01", "score-not-finite:category-product-overflow", det("score "+F(r.Score)+" of entry "+Itoa(id)))
		} else if finite && (math.IsNaN(r.Score) || r.Score < 0) {
			mon.Hit("C01", "score-not-finite-nonnegative", det("score "+F(r.Score)+" of entry "+Itoa(id)))
		}
		if r.Score == math.MaxFloat64 {
			mon.Tag("legacy2.score-saturated")
		}
		if i > 0 && rs[i-1].Score < r.Score {
			mon.Hit("C01", "not-sorted", det("score rises at position "+Itoa(i)))
		}
	}
	mon.Tag("c01." + entry)
	if len(rs) > 0 {
		mon.Tag("c01." + entry + ".nonempty")
		mon.Tag("nonempty")
	}
	if len(rs) == limit {
		mon.Tag("c01." + entry + ".at-limit")
	}
}

// legacy2HostOK: the platform clause of C04 for the host with no platform request (what SearchWithOptions
// implements); written with the property's own predicate (mon_c04.go), not the engine's gate.
func legacy2HostOK(c *database.Command) bool {
	ok, _ := c04Allowed(c, c04Host(), database.SearchOptions{})
	return ok
}

func legacy2Platform(mon *Mon, entry string, q string, o database.SearchOptions, rs []database.SearchResult, fuzzyToo bool) {
	for i, r := range rs {
		okHost := legacy2HostOK(r.Command)
		okOpts, _ := c04Allowed(r.Command, c04Host(), o)
		if !(okHost || (fuzzyToo && okOpts)) {
			mon.Hit("C04", "platform-filter-violated", map[string]interface{}{"entry": entry, "query": q, "result_index": i,
				"command": r.Command.Command, "platform": r.Command.Platform, "host": c04Host()})
		}
		if !okOpts || (o.PipelineOnly && !c04IsPipeline(r.Command)) {
			mon.Tag("out-of-scope:" + entry + "-ignores-filter-options")
		}
	}
}

func legacy2Guard(mon *Mon, entry, q string, f func() string) (line string) {
	defer func() {
		if r := recover(); r != nil {
			line = "panic:" + panicClass(r)
			mon.Hit("C10", "search-panic", map[string]interface{}{"entry": entry, "query": q, "panic": strings.ReplaceAll(toStr(r), "\n", " ")})
		}
	}()
	return f()
}

func legacy2ParsePairs(t string) (idx []int, sc []float64) {
	if t == "-" {
		return nil, nil
	}
	for _, p := range strings.Split(t, ",") {
		kv := strings.SplitN(p, "=", 2)
		idx = append(idx, Atoi(kv[0]))
		sc = append(sc, unF(kv[1]))
	}
	return
}

func legacy2Exec(ops []string, mon *Mon) []string {
	out := make([]string, 0, len(ops))
	var cmds []database.Command
	var db, bare *database.Database
	getDB := func() *database.Database {
		if db == nil {
			db = buildDB(cmds, mon)
		}
		return db
	}
	getBare := func() *database.Database { // a database value built without the loader: no shared TF-IDF searcher
		if bare == nil {
			cp := make([]database.Command, len(cmds))
			copy(cp, cmds)
			database.VerifPopulateCache(cp)
			bare = &database.Database{Commands: cp}
		}
		return bare
	}
	finite := func(o database.SearchOptions) bool { return c01Finite(o) }
	for _, o := range ops {
		f := strings.Split(o, " ")
		switch f[0] {
		case "cmd":
			cmds = append(cmds, parseCmdLine(f))
			out = append(out, "ok")
		case "host", "ri", "idf", "nq", "pq", "ib", "cb", "tf", "fz", "ls", "lg":
			out = append(out, "ok")
		case "mls":
			d := getDB()
			q := UnHx(f[1])
			boosts := parseOpts([]string{"0", f[2], "0", "f:0", "0", "0", "0", "0", "0", "-", "0"}).ContextBoosts
			words := strings.Fields(strings.ToLower(q))
			vs := make([]string, len(d.Commands))
			for i := range d.Commands {
				c := &d.Commands[i]
				v := database.VerifLegacyScore(c, words, boosts)
				vs[i] = F(v)
				if math.IsNaN(v) { // 0·Inf: the sign bit of a NaN is not observable on the model side (Float.toBits canonicalises)
					vs[i] = "f:7ff8000000000000"
				}
				// branch distribution of calculateScore
				matched, maxW := 0, 0.0
				for _, w := range words {
					if len(w) < 2 {
						mon.Tag("legacy2.word-too-short")
						continue
					}
					ws := database.VerifLegacy2WordScore(c, w)
					if ws > 0 {
						matched++
					}
					maxW = math.Max(maxW, ws)
					if b, ok := boosts[w]; ok {
						switch {
						case b < 0:
							mon.Tag("legacy2.word-boost-negative")
						case b == 0:
							mon.Tag("legacy2.word-boost-zero")
						default:
							mon.Tag("legacy2.word-boost-positive")
						}
					} else {
						mon.Tag("legacy2.word-boost-absent")
					}
				}
				if len(words) > 1 && matched > 1 {
					mon.Tag("legacy2.completeness-bonus")
				}
				switch {
				case maxW >= 15:
					mon.Tag("legacy2.bonus-direct")
				case maxW >= 10:
					mon.Tag("legacy2.bonus-command")
				default:
					mon.Tag("legacy2.bonus-none")
				}
				if c.Niche != "" {
					if b, ok := boosts[strings.ToLower(c.Niche)]; ok {
						if b < 0 {
							mon.Tag("legacy2.niche-boost-negative")
						} else {
							mon.Tag("legacy2.niche-boost-present")
						}
					} else {
						mon.Tag("legacy2.niche-boost-absent")
					}
				}
				switch {
				case v < 0:
					mon.Tag("legacy2.score-negative")
				case v > 0:
					mon.Tag("legacy2.score-positive")
				case math.IsNaN(v):
					mon.Tag("legacy2.score-nan")
				default:
					mon.Tag("legacy2.score-zero")
				}
			}
			if len(vs) == 0 {
				out = append(out, "mls -")
			} else {
				out = append(out, "mls "+strings.Join(vs, ","))
			}
			if len(words) == 0 {
				mon.Tag("legacy2.query-no-words")
			}
			if q != strings.ToLower(q) {
				mon.Tag("legacy2.query-upper-case")
			}
			if !legacy2IsASCII(q) {
				mon.Tag("legacy2.query-non-ascii")
			}
			if strings.ToValidUTF8(q, "") != q {
				mon.Tag("legacy2.query-invalid-utf8")
			}
		case "parts":
			d := getDB()
			w := UnHx(f[1])
			rows := make([]string, len(d.Commands))
			names := []string{"cmd", "domain", "keyword", "desc", "tag", "category"}
			for i := range d.Commands {
				p := database.VerifLegacy2Parts(&d.Commands[i], w)
				cells := make([]string, 6)
				for k, v := range p {
					cells[k] = F(v)
					mon.Tag("legacy2." + names[k] + ":" + legacy2Tagf(v))
				}
				rows[i] = strings.Join(cells, ",")
			}
			if len(rows) == 0 {
				out = append(out, "parts -")
			} else {
				out = append(out, "parts "+strings.Join(rows, ";"))
			}
		case "pipe":
			d := getDB()
			q := UnHx(f[1])
			op := database.SearchOptions{Limit: Atoi(f[2]), PipelineOnly: f[4] == "1", PipelineBoost: unF(f[5])}
			op.ContextBoosts = parseOpts([]string{"0", f[3], "0", "f:0", "0", "0", "0", "0", "0", "-", "0"}).ContextBoosts
			out = append(out, legacy2Guard(mon, "SearchWithPipelineOptions", q, func() string {
				rs := d.SearchWithPipelineOptions(q, op)
				legacy2Check(mon, "SearchWithPipelineOptions", d, q, op.Limit, effLimit(op.Limit, legacyDefaultLimit), rs, finite(op), "")
				for i, r := range rs {
					if op.PipelineOnly && !c04IsPipeline(r.Command) {
						mon.Hit("C04", "pipeline-filter-violated", map[string]interface{}{"entry": "SearchWithPipelineOptions", "query": q, "result_index": i, "command": r.Command.Command})
					}
				}
				if op.PipelineOnly {
					mon.Tag("c04.legacy2.pipeline-only")
				}
				return fmtResults(d, rs)
			}))
		case "swo", "swf", "pfz", "swn":
			q := UnHx(f[1])
			op := parseOpts(f[2:13])
			d := getDB()
			entry := map[string]string{"swo": "SearchWithOptions", "swf": "SearchWithFuzzy", "pfz": "performFuzzySearch", "swn": "SearchWithNLP"}[f[0]]
			if f[0] == "swn" && f[13] == "0" {
				d = getBare()
				entry = "SearchWithNLP-no-searcher"
			}
			lim := effLimit(op.Limit, legacyDefaultLimit)
			out = append(out, legacy2Guard(mon, entry, q, func() string {
				var rs []database.SearchResult
				switch f[0] {
				case "swo":
					rs = d.SearchWithOptions(q, op)
					legacy2Check(mon, entry, d, q, op.Limit, lim, rs, finite(op), "")
					legacy2Platform(mon, entry, q, op, rs, false)
					for i := range d.Commands {
						c := &d.Commands[i]
						switch ok, why := c04Allowed(c, c04Host(), database.SearchOptions{}); {
						case !ok:
							mon.Tag("legacy2.platform-excluded")
						default:
							mon.Tag("legacy2.platform-" + why)
						}
					}
				case "swf":
					rs = d.SearchWithFuzzy(q, op)
					legacy2Check(mon, entry, d, q, op.Limit, lim, rs, finite(op), "")
					legacy2Platform(mon, entry, q, op, rs, true)
					eo := op
					eo.Limit = lim * 2
					if eo.Limit < lim {
						eo.Limit = lim
					}
					ex := d.SearchWithOptions(q, eo)
					switch {
					case len(ex) >= lim && ex[0].Score > 0.5:
						mon.Tag("legacy2.swf-good-exact")
					case op.UseFuzzy:
						mon.Tag("legacy2.swf-combined")
						inExact := map[*database.Command]bool{}
						for _, r := range ex {
							inExact[r.Command] = true
						}
						for _, r := range rs {
							if !inExact[r.Command] {
								mon.Tag("legacy2.swf-typo-result-returned")
								break
							}
						}
					default:
						mon.Tag("legacy2.swf-exact-only")
					}
				case "pfz":
					o2 := op
					o2.Limit = lim
					rs = d.VerifLegacy2FuzzyRaw(q, o2)
					if len(rs) > 0 {
						mon.Tag("legacy2.pfz-nonempty")
					}
					// the model is asked with the limit in force as well
				case "swn":
					rs = d.SearchWithNLP(q, op)
					dupTag := ""
					switch {
					case !op.UseNLP:
						mon.Tag("legacy2.swn-nlp-off")
					case d.VerifLegacy2HasSearcher():
						mon.Tag("legacy2.swn-shared-searcher")
					default:
						mon.Tag("legacy2.swn-temporary-searcher")
						dupTag = "out-of-scope:SearchWithNLP-no-searcher-duplicate"
					}
					legacy2Check(mon, entry, d, q, op.Limit, lim, rs, finite(op), dupTag)
				}
				return fmtResults(d, rs)
			}))
		case "combine":
			d := getDB()
			ei, es := legacy2ParsePairs(f[1])
			fi, fs := legacy2ParsePairs(f[2])
			lim := Atoi(f[3])
			out = append(out, legacy2Guard(mon, "combineAndDeduplicateResults", "", func() string {
				rs := d.VerifLegacy2Combine(ei, es, fi, fs, lim)
				seen := map[int]bool{}
				for i, r := range rs {
					id := d.VerifIndexOf(r.Command)
					if seen[id] {
						mon.Hit("C01", "duplicate-result", map[string]interface{}{"entry": "combineAndDeduplicateResults", "what": "entry " + Itoa(id) + " appears twice"})
					}
					seen[id] = true
					if i > 0 && rs[i-1].Score < r.Score {
						mon.Hit("C01", "not-sorted", map[string]interface{}{"entry": "combineAndDeduplicateResults", "what": "score rises at position " + Itoa(i)})
					}
				}
				if len(rs) > lim {
					mon.Hit("C01", "more-than-limit", map[string]interface{}{"entry": "combineAndDeduplicateResults", "n": len(rs), "limit": lim})
				}
				if len(rs) < len(ei)+len(fi) && len(rs) < lim {
					mon.Tag("legacy2.combine-dropped-duplicates")
				}
				mon.Tag("legacy2.combine")
				return fmtResults(d, rs)
			}))
		case "sug":
			d := getDB()
			q := UnHx(f[1])
			m := Atoi(f[2])
			out = append(out, legacy2Guard(mon, "GetSuggestions", q, func() string {
				ss := d.GetSuggestions(q, m)
				legacy2SpaceInWord = ""
				if legacy2SuggestWords(d); legacy2SpaceInWord != "" {
					mon.Hit("C01", "oracle-suggestion-word-with-space", map[string]interface{}{"word": legacy2SpaceInWord})
				}
				eff := effLimit(m, legacyDefaultLimit) // constants.DefaultMaxResults has the same value; the model uses the regenerated one
				if len(ss) > eff {
					mon.Hit("C01", "suggestions-more-than-max", map[string]interface{}{"entry": "GetSuggestions", "query": q, "max": m, "n": len(ss)})
				}
				seen := map[string]bool{}
				var sb strings.Builder
				sb.WriteString("sug " + Itoa(len(ss)))
				for _, s := range ss {
					if seen[s] {
						mon.Hit("C01", "suggestions-duplicate", map[string]interface{}{"entry": "GetSuggestions", "query": q, "word": s})
					}
					seen[s] = true
					sb.WriteString(" " + Hx(s))
				}
				mon.Tag("legacy2.sug")
				if len(ss) > 0 {
					mon.Tag("legacy2.sug-nonempty")
					mon.Tag("nonempty")
				}
				if len(ss) == eff {
					mon.Tag("legacy2.sug-at-max")
				}
				return sb.String()
			}))
		default:
			out = append(out, "bad-op")
		}
	}
	return out
}

func legacy2IsASCII(s string) bool {
	for i := 0; i < len(s); i++ {
		if s[i] >= 0x80 {
			return false
		}
	}
	return true
}
