//go:build verif

package main

import (
	"sort"
	"strings"

	"github.com/Vedant9500/WTF/internal/cache"
)

// linearize (C11): a case is one recorded call/return history of raw LRU operations
//
//	new <cap> real|synthetic
//	op <tid> <inv> <res> <name> [args] = <observed output tokens>
//	check
//
// `inv`/`res` are stamps of one global sequence counter taken immediately before the call and
// immediately after the return.  TTL is 0 (no expiry), so time plays no role.
//
// Exec decides linearizability with the REAL cache.LRUCache run sequentially as the specification
// (is there an order of the operations, consistent with real time, in which a single-threaded run of
// the real code returns exactly the observed outputs?).  The Lean driver decides the same question
// with `Wtf.Lru.step` as the specification.  The two answers are diffed (correspondence), and a
// history recorded from the real concurrent cache (`real`) that is not linearizable is a monitor hit.
func init() {
	Register(&Domain{Name: "linearize", Gen: genLinearize, Exec: execLinearize})
}

type linOp struct {
	tid      int
	inv, res int64
	name     string
	key      string
	val      int
	out      string
}

func (o linOp) line() string {
	s := "op " + Itoa(o.tid) + " " + Itoa64(o.inv) + " " + Itoa64(o.res) + " " + o.name
	switch o.name {
	case "get", "del":
		s += " " + o.key
	case "put":
		s += " " + o.key + " " + Itoa(o.val)
	}
	return s + " = " + o.out
}

// lruApply runs one operation on a cache and renders its result in protocol form.
func lruApply(c *cache.LRUCache, name, key string, val int) string {
	switch name {
	case "get":
		v, ok := c.Get(key)
		if !ok {
			return "none"
		}
		if i, isInt := v.(int); isInt {
			return "some " + Itoa(i)
		}
		return "some ?"
	case "put":
		c.Put(key, val)
		return "ok"
	case "del":
		return B(c.Delete(key))
	case "size":
		return Itoa(c.Size())
	case "stats":
		s := c.Stats()
		return Itoa64(s.Hits) + " " + Itoa64(s.Misses) + " " + Itoa64(s.Evictions) + " " + Itoa(s.Size) + " " + Itoa(s.Capacity)
	case "keys":
		ks := c.Keys()
		sort.Strings(ks)
		return strings.Join(ks, ",") + ";"
	case "cleanup":
		return Itoa(c.CleanupExpired())
	case "clear":
		c.Clear()
		return "ok"
	}
	return "bad-op"
}

func linRandomOp(r *Rng, nkeys int) (name, key string, val int) {
	key = "k" + Itoa(r.Intn(nkeys))
	switch x := r.Intn(100); {
	case x < 34:
		return "put", key, r.Intn(90) + 10
	case x < 64:
		return "get", key, 0
	case x < 74:
		return "del", key, 0
	case x < 82:
		return "size", "", 0
	case x < 90:
		return "stats", "", 0
	case x < 95:
		return "keys", "", 0
	case x < 98:
		return "cleanup", "", 0
	default:
		return "clear", "", 0
	}
}

// genLinearize: synthetic histories.  A random interleaving of invoke / apply / respond events of 2-4
// virtual threads is executed on a real cache (so the history is linearizable by construction); with
// probability ~1/3 one observed output or one stamp is then corrupted, which usually (not always)
// makes it non-linearizable.  Both checkers have to agree either way.
func genLinearize(r *Rng, tier string, idx int, args map[string]string) []string {
	capv := Pick(r, []int{1, 1, 2, 2, 3})
	nkeys := r.Range(1, 3)
	nthreads := r.Range(2, 4)
	total := r.Range(2, 8)
	if tier == "thorough" && r.Chance(1, 4) {
		total = r.Range(6, 9)
	}
	c := cache.NewLRUCache(capv, 0)
	type st struct {
		phase int // 0 idle, 1 invoked, 2 applied
		cur   int
		left  int
	}
	ths := make([]st, nthreads)
	for i := 0; i < total; i++ {
		ths[r.Intn(nthreads)].left++
	}
	var ops []linOp
	var clk int64
	for {
		var cand []int
		for t := range ths {
			if ths[t].phase != 0 || ths[t].left > 0 {
				cand = append(cand, t)
			}
		}
		if len(cand) == 0 {
			break
		}
		t := Pick(r, cand)
		th := &ths[t]
		switch th.phase {
		case 0:
			name, key, val := linRandomOp(r, nkeys)
			ops = append(ops, linOp{tid: t, inv: clk, name: name, key: key, val: val})
			th.cur = len(ops) - 1
			th.left--
			th.phase = 1
			clk++
		case 1:
			o := &ops[th.cur]
			o.out = lruApply(c, o.name, o.key, o.val)
			th.phase = 2
		case 2:
			ops[th.cur].res = clk
			clk++
			th.phase = 0
		}
	}
	if r.Chance(1, 3) && len(ops) > 0 {
		o := &ops[r.Intn(len(ops))]
		switch o.name {
		case "get":
			if o.out == "none" {
				o.out = "some " + Itoa(r.Intn(90)+10)
			} else if r.Bool() {
				o.out = "none"
			} else {
				o.out = "some " + Itoa(r.Intn(90)+10)
			}
		case "del":
			if o.out == "1" {
				o.out = "0"
			} else {
				o.out = "1"
			}
		case "size":
			o.out = Itoa(Atoi(o.out) + 1)
		case "keys":
			o.out = "k0,k9;"
		default:
			// shift the operation in time: it now starts after everything else has finished
			o.inv, o.res = clk+1, clk+2
		}
	}
	out := []string{"new " + Itoa(capv) + " synthetic"}
	for _, o := range ops {
		out = append(out, o.line())
	}
	return append(out, "check")
}

func parseLinOp(l string) (linOp, bool) {
	parts := strings.SplitN(l, " = ", 2)
	if len(parts) != 2 {
		return linOp{}, false
	}
	f := strings.Fields(parts[0])
	if len(f) < 5 || f[0] != "op" {
		return linOp{}, false
	}
	o := linOp{tid: Atoi(f[1]), inv: Atoi64(f[2]), res: Atoi64(f[3]), name: f[4], out: parts[1]}
	switch o.name {
	case "get", "del":
		if len(f) != 6 {
			return o, false
		}
		o.key = f[5]
	case "put":
		if len(f) != 7 {
			return o, false
		}
		o.key, o.val = f[5], Atoi(f[6])
	case "size", "stats", "keys", "cleanup", "clear":
		if len(f) != 5 {
			return o, false
		}
	default:
		return o, false
	}
	return o, true
}

// linSearch: depth-first search for a linearization with the real cache as sequential specification.
// The cache cannot be copied, so a candidate prefix is replayed from scratch (histories are short).
func linSearch(capv int, ops []linOp) ([]int, int) {
	n := len(ops)
	used := make([]bool, n)
	order := make([]int, 0, n)
	nodes := 0
	var rec func() bool
	rec = func() bool {
		if len(order) == n {
			return true
		}
		for i := 0; i < n; i++ {
			if used[i] {
				continue
			}
			minimal := true
			for j := 0; j < n; j++ {
				if j != i && !used[j] && ops[j].res < ops[i].inv {
					minimal = false
					break
				}
			}
			if !minimal {
				continue
			}
			nodes++
			c := cache.NewLRUCache(capv, 0)
			for _, k := range order {
				lruApply(c, ops[k].name, ops[k].key, ops[k].val)
			}
			if lruApply(c, ops[i].name, ops[i].key, ops[i].val) != ops[i].out {
				continue
			}
			used[i] = true
			order = append(order, i)
			if rec() {
				return true
			}
			order = order[:len(order)-1]
			used[i] = false
		}
		return false
	}
	if rec() {
		return order, nodes
	}
	return nil, nodes
}

func execLinearize(lines []string, mon *Mon) []string {
	out := make([]string, 0, len(lines))
	capv, kind := 0, ""
	var ops []linOp
	okAll := true
	for _, l := range lines {
		f := strings.Fields(l)
		switch {
		case len(f) == 3 && f[0] == "new":
			capv, kind = Atoi(f[1]), f[2]
			ops, okAll = nil, true
			out = append(out, "ok "+Itoa(cache.NewLRUCache(capv, 0).Capacity()))
		case len(f) > 0 && f[0] == "op":
			o, ok := parseLinOp(l)
			if !ok {
				okAll = false
				out = append(out, "bad-op")
				continue
			}
			ops = append(ops, o)
			out = append(out, "ok")
		case len(f) == 1 && f[0] == "check":
			if !okAll || len(ops) > 12 {
				out = append(out, "bad-history")
				continue
			}
			order, _ := linSearch(capv, ops)
			overlap := false
			for i := range ops {
				for j := range ops {
					if i < j && ops[i].inv < ops[j].res && ops[j].inv < ops[i].res {
						overlap = true
					}
				}
			}
			if overlap {
				mon.Tag("overlap")
			}
			mon.Tag("ops" + Itoa(len(ops)))
			mon.Tag(kind)
			if order != nil {
				mon.Tag("linearizable")
				out = append(out, "linearizable")
			} else {
				mon.Tag("not-linearizable")
				out = append(out, "not-linearizable")
				if kind == "real" {
					mon.Hit("C11", "lru-history-not-linearizable", map[string]interface{}{"capacity": capv, "history": lines})
				}
			}
		default:
			out = append(out, "bad-op")
		}
	}
	return out
}
