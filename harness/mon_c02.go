//go:build verif

package main

import (
	"math"
	"os"
	"path/filepath"
	"strconv"
	"strings"

	"github.com/Vedant9500/WTF/internal/database"
	"gopkg.in/yaml.v3"
)

// C02 monitor: the same request must give the same ranked answer (ids and score bits) on repeated
// calls and on an independently re-loaded copy of the same commands.  Go re-randomises map iteration
// on every loop, so repetition does exercise iteration orders.  Enabled with VERIF_REPEAT=<R> (>1).
func repeatCount() int {
	n, _ := strconv.Atoi(os.Getenv("VERIF_REPEAT"))
	return n
}

func sameAnswer(db1 *database.Database, a []database.SearchResult, db2 *database.Database, b []database.SearchResult) bool {
	if len(a) != len(b) {
		return false
	}
	for i := range a {
		if db1.VerifIndexOf(a[i].Command) != db2.VerifIndexOf(b[i].Command) ||
			math.Float64bits(a[i].Score) != math.Float64bits(b[i].Score) {
			return false
		}
	}
	return true
}

func answerIDs(db *database.Database, rs []database.SearchResult) []int {
	out := make([]int, len(rs))
	for i, r := range rs {
		out[i] = db.VerifIndexOf(r.Command)
	}
	return out
}

var c02PersonalDone = map[*database.Database]bool{}

func init() {
	searchMonitors = append(searchMonitors, func(mon *Mon, cur *SearchRecord, prev []*SearchRecord) {
		R := repeatCount()
		if R <= 1 || cur.Panic != "" {
			return
		}
		ties := false
		for i := 1; i < len(cur.Results); i++ {
			if cur.Results[i].Score == cur.Results[i-1].Score {
				ties = true
			}
		}
		if ties {
			mon.Tag("answer-with-ties")
		}
		for k := 0; k < R; k++ {
			rs := cur.DB.SearchUniversal(cur.Query, cur.Opts)
			if !sameAnswer(cur.DB, cur.Results, cur.DB, rs) {
				mon.Hit("C02", "nondeterministic-ranking", map[string]interface{}{"query": cur.Query, "first": answerIDs(cur.DB, cur.Results), "again": answerIDs(cur.DB, rs), "repetition": k})
				return
			}
		}
		// the TF-IDF re-ranker on its own (its similarities feed the NLP ranking; an ulp of difference
		// there can be absorbed by large BM25F scores, so it is compared directly as well)
		if cur.Opts.UseNLP {
			nq := strings.ToLower(strings.TrimSpace(cur.Query))
			first, ok := cur.DB.VerifTFIDF(nq)
			if ok {
				if len(first) > 1 {
					mon.Tag("tfidf-ranked")
				}
				for k := 0; k < R; k++ {
					again, _ := cur.DB.VerifTFIDF(nq)
					same := len(first) == len(again)
					for i := 0; same && i < len(first); i++ {
						same = first[i].CommandIndex == again[i].CommandIndex &&
							math.Float64bits(first[i].Similarity) == math.Float64bits(again[i].Similarity)
					}
					if !same {
						mon.Hit("C02", "nondeterministic-tfidf-ranking", map[string]interface{}{"query": cur.Query, "repetition": k, "n": len(first)})
						return
					}
				}
			}
			a := cur.DB.SearchWithNLP(cur.Query, cur.Opts)
			for k := 0; k < R; k++ {
				if b := cur.DB.SearchWithNLP(cur.Query, cur.Opts); !sameAnswer(cur.DB, a, cur.DB, b) {
					mon.Hit("C02", "nondeterministic-ranking", map[string]interface{}{"entry": "SearchWithNLP", "query": cur.Query, "repetition": k})
					return
				}
			}
		}
		// an independently built database of the same commands
		cp := make([]database.Command, len(cur.DB.Commands))
		copy(cp, cur.DB.Commands)
		for i := range cp { // drop the cache fields: the loader must repopulate them
			cp[i].CommandLower, cp[i].DescriptionLower, cp[i].KeywordsLower, cp[i].TagsLower = "", "", nil, nil
		}
		db2 := buildDB(cp, nil)
		rs2 := db2.SearchUniversal(cur.Query, cur.Opts)
		if !sameAnswer(cur.DB, cur.Results, db2, rs2) {
			mon.Hit("C02", "reload-changes-answer", map[string]interface{}{"query": cur.Query, "first": answerIDs(cur.DB, cur.Results), "reloaded": answerIDs(db2, rs2)})
		}
		// the same commands split into a main file and a personal notebook, loaded several times through
		// LoadDatabaseWithPersonal: the merged order (the tie-break of every ranking) and the answer must not
		// depend on the load (once per database)
		if n := len(cp); n >= 3 && !c02PersonalDone[cur.DB] {
			c02PersonalDone[cur.DB] = true
			k := n / 3
			dir, err := os.MkdirTemp("", "wtfverif-c02")
			if err != nil {
				return
			}
			defer os.RemoveAll(dir)
			mp, pp := filepath.Join(dir, "main.yml"), filepath.Join(dir, "personal.yml")
			dm, e1 := yaml.Marshal(cp[:k])
			dp, e2 := yaml.Marshal(cp[k:])
			if e1 != nil || e2 != nil || os.WriteFile(mp, dm, 0o644) != nil || os.WriteFile(pp, dp, 0o644) != nil {
				return
			}
			var firstDB *database.Database
			var firstRS []database.SearchResult
			for l := 0; l < 4; l++ {
				// the two files as they are on disk (whatever YAML made of the texts), through the real loader
				d, e := database.LoadDatabaseWithPersonal(mp, pp)
				if e != nil || d == nil {
					break
				}
				rs := d.SearchUniversal(cur.Query, cur.Opts)
				if l == 0 {
					firstDB, firstRS = d, rs
					mon.Tag("reloaded-with-personal-via-loader")
					continue
				}
				same := len(d.Commands) == len(firstDB.Commands)
				for i := 0; same && i < len(d.Commands); i++ {
					same = d.Commands[i].Command == firstDB.Commands[i].Command && d.Commands[i].Description == firstDB.Commands[i].Description
				}
				if !same {
					mon.Hit("C02", "reload-changes-order", map[string]interface{}{"main": k, "personal": n - k, "load": l, "what": "LoadDatabaseWithPersonal merged the same two files into a different command order"})
					break
				}
				if !sameAnswer(firstDB, firstRS, d, rs) {
					mon.Hit("C02", "reload-changes-answer", map[string]interface{}{"query": cur.Query, "entry": "LoadDatabaseWithPersonal", "first": answerIDs(firstDB, firstRS), "reloaded": answerIDs(d, rs)})
					break
				}
			}
			mon.Tag("reloaded-with-personal")
		}
		// history independence: an instance that has already answered searches and then receives the same content again through
		// UpdateDatabase (same size, other order) must answer like an instance built from that content directly - whatever it
		// keeps between searches (an index, match targets for the typo fallback, per-command flags) must follow the content
		if len(prev)%3 == 0 && len(cp) >= 2 {
			func() {
				defer func() { recover() }()
				hist := database.NewCachedDatabase(&database.Database{Commands: c03Clone(cur.DB.Commands)})
				hist.Database.SearchUniversal(cur.Query, cur.Opts)
				fz := cur.Opts
				fz.UseFuzzy = true
				hist.Database.SearchUniversal(misspellFirst(cur.Query), fz)
				rev := c03Clone(cur.DB.Commands)
				for i, j := 0, len(rev)-1; i < j; i, j = i+1, j-1 {
					rev[i], rev[j] = rev[j], rev[i]
				}
				hist.UpdateDatabase(c03Clone(rev))
				direct := &database.Database{Commands: c03Clone(rev)}
				for _, rq := range [][2]interface{}{{cur.Query, cur.Opts}, {misspellFirst(cur.Query), fz}} {
					q, o := rq[0].(string), rq[1].(database.SearchOptions)
					a, b := hist.Database.SearchUniversal(q, o), direct.SearchUniversal(q, o)
					if !sameAnswer(hist.Database, a, direct, b) {
						mon.Hit("C02", "reload-changes-answer", map[string]interface{}{"query": q, "entry": "UpdateDatabase with the same commands in reverse order, compared with a database built from that list",
							"after_update": answerIDs(hist.Database, a), "built_directly": answerIDs(direct, b)})
						return
					}
				}
				mon.Tag("same-content-after-update")
			}()
		}
		mon.Tag("repeated")
	})

	// tie-heavy stream: k identical entries (k >= limit+1), near-duplicates, TF-IDF-decisive queries
	searchStreams["c02"] = func(r *Rng, tier string, idx int, args map[string]string) []string {
		base := r.Range(1, 4)
		var cmds []database.Command
		for b := 0; b < base; b++ {
			c := genCommand(r)
			k := r.Range(2, 14)
			for i := 0; i < k; i++ {
				d := c
				if r.Chance(1, 4) { // near duplicate: same scores on most paths
					d.Niche = Pick(r, wordPool)
				}
				cmds = append(cmds, d)
			}
		}
		for i, n := 0, r.Intn(6); i < n; i++ {
			cmds = append(cmds, genCommand(r))
		}
		// shuffle
		for i := len(cmds) - 1; i > 0; i-- {
			j := r.Intn(i + 1)
			cmds[i], cmds[j] = cmds[j], cmds[i]
		}
		var words []string
		for _, c := range cmds {
			for _, w := range splitWords(c.Command + " " + c.Description) {
				words = append(words, w)
			}
		}
		var reqs []SearchReq
		for i, n := 0, r.Range(3, 6); i < n; i++ {
			o := genOptions(r)
			o.Limit = Pick(r, []int{1, 2, 3, 5, 0})
			o.AllPlatforms = true
			o.UseNLP = r.Chance(2, 3)
			q := genQuery(r, words)
			if r.Chance(1, 3) && len(cmds) > 0 { // long query covering a whole (short) entry plus extra words
				c := Pick(r, cmds)
				q = c.Command + " " + c.Description
				for j := 0; j < 3 && len(words) > 0; j++ {
					q += " " + Pick(r, words)
				}
				o.UseNLP = true
			}
			if qw := strings.Fields(q); len(qw) > 0 && r.Chance(1, 3) {
				// several boost keys that share a word of the query (an npm script name, a Makefile target, another spelling)
				// with different factors: whatever the engine makes of such keys must not depend on map order
				w := strings.ToLower(Pick(r, qw))
				o.ContextBoosts = map[string]float64{w: 2.0, w + "-build": 1.3, "lint:" + w: 0.7, strings.ToUpper(w): 3.5, w + " " + w: 1.1, Pick(r, wordPool): 1.5}
			}
			reqs = append(reqs, SearchReq{Query: q, Opts: o})
		}
		extra := []string{}
		for i := 0; i < 2; i++ {
			extra = append(extra, "suggest "+Hx(misspell(r, Pick(r, append(words, "list")))+" 5"))
		}
		_ = extra
		return SearchCaseOps(cmds, reqs, nil)
	}
}

func splitWords(s string) []string {
	var out []string
	cur := ""
	for _, r := range s {
		if r == ' ' {
			if len(cur) >= 3 {
				out = append(out, cur)
			}
			cur = ""
		} else {
			cur += string(r)
		}
	}
	if len(cur) >= 3 {
		out = append(out, cur)
	}
	return out
}

// c02suggest: `did you mean` suggestions must be reproducible (repeated calls, re-built database).
func init() {
	RegisterTool("c02suggest", func(args []string) int {
		seed, n := uint64(1), 200
		if len(args) > 0 {
			v, _ := strconv.ParseUint(args[0], 10, 64)
			seed = v
		}
		if len(args) > 1 {
			n, _ = strconv.Atoi(args[1])
		}
		bad, nontrivial := 0, 0
		for i := 0; i < n; i++ {
			r := NewRng(seed, uint64(i), "c02suggest")
			var cmds []database.Command
			for j, k := 0, r.Range(3, 40); j < k; j++ {
				cmds = append(cmds, genCommand(r))
			}
			db := buildDB(cmds, nil)
			var words []string
			for _, c := range cmds {
				words = append(words, splitWords(c.Command+" "+c.Description)...)
			}
			for j := 0; j < 4; j++ {
				w := Pick(r, append(words, "list"))
				q := misspell(r, w)
				if r.Chance(2, 3) && len(w) > 3 { // prefixes / the word itself: many good matches, ties
					q = w[:r.Range(3, len(w))]
				}
				first := db.GetSuggestions(q, 5)
				if len(first) > 1 {
					nontrivial++
				}
				for k := 0; k < 6; k++ {
					again := db.GetSuggestions(q, 5)
					if k == 3 {
						again = buildDB(cmds, nil).GetSuggestions(q, 5)
					}
					if !eqStrings(first, again) {
						bad++
						os.Stdout.WriteString("MISMATCH query=" + strconv.Quote(q) + " first=" + strconv.Quote(joinS(first)) + " again=" + strconv.Quote(joinS(again)) + "\n")
						k = 6
					}
				}
			}
		}
		// one very large vocabulary (more distinct words than any plausible internal bound on the candidate list): a bound applied
		// while ranging over the word set would keep a random subset
		{
			big := make([]database.Command, 0, 40000)
			for j := 0; j < 40000; j++ {
				big = append(big, database.Command{Command: "tool" + strconv.Itoa(j) + " run", Description: "word" + strconv.Itoa(j) + "x handles item" + strconv.Itoa(j)})
			}
			bdb := &database.Database{Commands: big}
			for _, q := range []string{"word1234", "tool39999", "item777x", "wrd20000x", "tol5"} {
				first := bdb.GetSuggestions(q, 5)
				if len(first) > 0 {
					nontrivial++
				}
				for k := 0; k < 3; k++ {
					if again := bdb.GetSuggestions(q, 5); !eqStrings(first, again) {
						bad++
						os.Stdout.WriteString("MISMATCH (40000-command database) query=" + strconv.Quote(q) + " first=" + strconv.Quote(joinS(first)) + " again=" + strconv.Quote(joinS(again)) + "\n")
						break
					}
				}
			}
		}
		os.Stdout.WriteString("c02suggest cases=" + strconv.Itoa(n*4+5) + " nontrivial=" + strconv.Itoa(nontrivial) + " mismatches=" + strconv.Itoa(bad) + "\n")
		if bad > 0 {
			return 1
		}
		return 0
	})
}

// c02big: a database the size of the shipped one (thousands of entries) with groups of entries that tie exactly in every
// score, searched repeatedly with NLP on: anything that is done differently for large corpora (batched or concurrent scoring,
// early cut-offs) must still give one answer for one request.  Usage: tool c02big <seed> [entries]
func init() {
	RegisterTool("c02big", func(args []string) int {
		seed, n := uint64(1), 5000
		if len(args) > 0 {
			v, _ := strconv.ParseUint(args[0], 10, 64)
			seed = v
		}
		if len(args) > 1 {
			n, _ = strconv.Atoi(args[1])
		}
		r := NewRng(seed, 0, "c02big")
		cmds := make([]database.Command, 0, n)
		twins := []database.Command{
			{Command: "rsync -av src/ dest/", Description: "synchronise two directories keeping permissions", Keywords: []string{"sync", "copy", "mirror"}},
			{Command: "du -sh * | sort -h", Description: "show disk usage of every entry sorted by size", Keywords: []string{"disk", "usage", "size"}},
			{Command: "journalctl -u unit --since today", Description: "show the log of one service since midnight", Keywords: []string{"log", "service"}},
		}
		for i := 0; i < n; i++ {
			if i%97 == 5 || i%113 == 7 {
				c := twins[(i/7)%len(twins)]
				c.Niche = "copy" + strconv.Itoa(i) // differs only in a field no score reads
				cmds = append(cmds, c)
				continue
			}
			cmds = append(cmds, database.Command{Command: "tool" + strconv.Itoa(i) + " --" + Pick(r, wordPool), Description: rphrase(r, 3, 8) + " item" + strconv.Itoa(i),
				Keywords: []string{Pick(r, wordPool), "k" + strconv.Itoa(i%50)}})
		}
		dir, err := os.MkdirTemp("", "wtfverif-c02big")
		if err != nil {
			return 2
		}
		defer os.RemoveAll(dir)
		data, _ := yaml.Marshal(cmds)
		p := filepath.Join(dir, "db.yml")
		if os.WriteFile(p, data, 0o644) != nil {
			return 2
		}
		db, err := database.LoadDatabase(p)
		if err != nil {
			os.Stdout.WriteString("c02big: load failed: " + err.Error() + "\n")
			return 2
		}
		queries := []string{"synchronise two directories", "show disk usage sorted by size", "show the log of one service", "copy mirror sync", "disk usage", "service log since midnight"}
		bad, ties := 0, 0
		for qi, q := range queries {
			for _, lim := range []int{3, 10} {
				o := database.SearchOptions{Limit: lim, UseNLP: true, AllPlatforms: true}
				first := db.SearchUniversal(q, o)
				firstN := db.SearchWithNLP(q, o)
				for i := 1; i < len(first); i++ {
					if first[i].Score == first[i-1].Score {
						ties++
					}
				}
				for k := 0; k < 6; k++ {
					d2 := db
					if k == 5 && qi == 0 { // a freshly loaded copy of the same file
						if x, e := database.LoadDatabase(p); e == nil {
							d2 = x
						}
					}
					if again := d2.SearchUniversal(q, o); !sameAnswer(db, first, d2, again) {
						bad++
						os.Stdout.WriteString("MISMATCH SearchUniversal query=" + strconv.Quote(q) + " limit=" + strconv.Itoa(lim) + " first=" + joinInts(answerIDs(db, first)) + " again=" + joinInts(answerIDs(d2, again)) + "\n")
						break
					}
					if again := d2.SearchWithNLP(q, o); !sameAnswer(db, firstN, d2, again) {
						bad++
						os.Stdout.WriteString("MISMATCH SearchWithNLP query=" + strconv.Quote(q) + " limit=" + strconv.Itoa(lim) + " first=" + joinInts(answerIDs(db, firstN)) + " again=" + joinInts(answerIDs(d2, again)) + "\n")
						break
					}
				}
			}
		}
		os.Stdout.WriteString("c02big entries=" + strconv.Itoa(len(db.Commands)) + " requests=" + strconv.Itoa(len(queries)*2) + " tied-neighbours=" + strconv.Itoa(ties) + " mismatches=" + strconv.Itoa(bad) + "\n")
		if bad > 0 {
			return 1
		}
		return 0
	})
}

func joinInts(xs []int) string {
	out := make([]string, len(xs))
	for i, x := range xs {
		out[i] = strconv.Itoa(x)
	}
	return "[" + strings.Join(out, " ") + "]"
}

// misspellFirst drops the second letter of the first word (a typo that no index term matches but the fallback does)
func misspellFirst(q string) string {
	w := strings.Fields(q)
	if len(w) == 0 || len(w[0]) < 4 {
		return q + "x"
	}
	return w[0][:1] + w[0][2:]
}

func eqStrings(a, b []string) bool {
	if len(a) != len(b) {
		return false
	}
	for i := range a {
		if a[i] != b[i] {
			return false
		}
	}
	return true
}

func joinS(a []string) string {
	s := ""
	for i, x := range a {
		if i > 0 {
			s += ","
		}
		s += x
	}
	return s
}
