#!/usr/bin/env python3
"""tools/seed_prompt.py <prop> <worktree> : print the prompt for an independent mutation agent (property text only,
plus one line per change already collected for that property so that new ones use a different mechanism)."""
import json, sys, glob, os
prop, wt = sys.argv[1], sys.argv[2]
V = os.path.join(os.path.dirname(os.path.abspath(__file__)), "..")
p = [json.loads(l) for l in open(os.path.join(V, "properties.jsonl")) if l.strip()]
p = [x for x in p if x["id"] == prop][0]
text = "Property %s: %s\n\n%s\n\nQuantified over: %s\n" % (p["id"], p.get("title", ""), p.get("statement", p.get("text", "")), (lambda q: q.get("text", "") if isinstance(q, dict) else q)(p.get("quantified_over", p.get("quantifier", ""))))
earlier = []
for d in sorted(glob.glob(os.path.join(V, "seeded", prop + "-*"))):
    m = json.load(open(os.path.join(d, "meta.json")))
    earlier.append("  * " + m["summary"].replace("\n", " ")[:300])
tmpl = open("/tmp/seed/PROMPT.txt").read() if os.path.exists("/tmp/seed/PROMPT.txt") else open(os.path.join(V, "tools", "SEED_PROMPT.txt")).read()
s = tmpl.replace("{WT}", wt).replace("{PROP}", text)
if earlier:
    s += "\n\nOther reviewers have already produced the following changes for this property; yours must use DIFFERENT mechanisms and preferably different files / code paths from these:\n" + "\n".join(earlier) + "\n"
print(s)
