#!/bin/sh
# tools/keep_seed.sh <seed_dir> <name>   : copy a confirmed seeded change into /verif/seeded/<name>/
set -e
src="$1"; name="$2"; dst=/verif/seeded/$name
mkdir -p "$dst"
cp "$src"/patch.diff "$src"/meta.json "$dst"/
for f in "$src"/*.go "$src"/*.sh "$src"/*.py; do [ -f "$f" ] && cp "$f" "$dst"/$(basename "$f").txt; done
[ -f "$src"/result.json ] && cp "$src"/result.json "$dst"/result.json
echo kept $dst
