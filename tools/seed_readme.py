#!/usr/bin/env python3
"""tools/seed_readme.py : regenerate seeded/README.md from seeded/*/meta.json, result.json and seeded/HISTORY.json
(HISTORY.json: seed -> {first, strengthening}: what the first run of the check did and how the check was strengthened)."""
import json, os, glob
root = os.path.join(os.path.dirname(os.path.abspath(__file__)), "..", "seeded")
hist = json.load(open(os.path.join(root, "HISTORY.json")))
rows = []
for d in sorted(glob.glob(os.path.join(root, "C*"))):
    name = os.path.basename(d)
    meta = json.load(open(os.path.join(d, "meta.json")))
    res = json.load(open(os.path.join(d, "result.json"))) if os.path.exists(os.path.join(d, "result.json")) else {}
    h = hist.get(name, {})
    now = "?"
    for p, c in (res.get("checks") or {}).items():
        if c.get("exit") == 1:
            what = (c.get("replay") or {}).get("what", "")
            kind = (c.get("replay") or {}).get("kind", "")
            now = ("caught: `%s`" % what[:70].replace("|", "/").replace("\n", " ")) if kind == "impl-counterexample" else "reported, no failing input (%s)" % ", ".join((c.get("replay") or {}).get("broken", [])[:2])
        else:
            now = "MISSED"
    needs = meta.get("needs", "").replace("|", "/").replace("\n", " ")[:160]
    rows.append("| %s | %s | %s | %s | %s | %s |" % (name, meta["property"], needs, h.get("first", "caught with a failing input"), h.get("strengthening", "—"), now))
head = open(os.path.join(root, "README.md")).read().split("| seed |")[0]
open(os.path.join(root, "README.md"), "w").write(head + "| seed | property | needs | first run | strengthening | now |\n|---|---|---|---|---|---|\n" + "\n".join(rows) + "\n")
print(len(rows), "rows")
