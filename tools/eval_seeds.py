#!/usr/bin/env python3
"""tools/eval_seeds.py [--props C01,C05] [--tier quick] <seed_dir>... : evaluate seeded changes in parallel on the evaluation
clones /tmp/ve/<k> (tools/evalpool.sh); one summary line per seed, details in <seed_dir>/result.json."""
import sys, os, json, glob, subprocess, queue, threading
args = sys.argv[1:]
extra = []
while args and args[0].startswith("--"):
    extra += args[:2]; args = args[2:]
pool = [d for d in sorted(glob.glob("/tmp/ve/[0-9]*")) if os.path.isdir(d)]
q = queue.Queue()
for s in args: q.put(s)
lock = threading.Lock()
def work(clone):
    while True:
        try: sd = q.get_nowait()
        except queue.Empty: return
        pr = subprocess.run(["python3", os.path.join(clone, "tools", "try_seed.py"), sd] + extra, capture_output=True, text=True)
        try:
            d = json.load(open(os.path.join(sd, "result.json")))
            with lock:
                print("== %s demo_fails=%s demo_ok_without=%s suite=%s applies=%s caught=%s" % (sd, d.get("demo_with_patch_fails"), d.get("demo_without_patch_passes"), d.get("suite_passes_with_patch"), d.get("patch_applies"), d.get("caught")))
                for p, v in (d.get("checks") or {}).items():
                    r = v.get("replay") or {}
                    print("   %s exit=%s %s | %s | broken=%s" % (p, v["exit"], r.get("kind"), (r.get("what") or "")[:260], (r.get("broken") or [])[:4]))
                if not d.get("demo_with_patch_fails") or not d.get("suite_passes_with_patch"):
                    print("   demo_tail:", (d.get("demo_tail") or "")[-300:], "| suite_tail:", (d.get("suite_tail") or "")[-300:])
                sys.stdout.flush()
        except Exception as e:
            with lock: print("== %s ERROR %s\n%s" % (sd, e, (pr.stdout + pr.stderr)[-800:]))
ts = [threading.Thread(target=work, args=(c,)) for c in pool]
[t.start() for t in ts]; [t.join() for t in ts]
