#!/usr/bin/env python3
"""Re-introduce each repaired defect (reverse patch of its `fix:` commit, ported to HEAD where needed) in a scratch
worktree and run the check of the property the fix is recorded under: every one must report a VIOLATION.
Writes regress/RESULTS.json."""
import json, os, subprocess, sys, glob, time
V = "/verif"
k = json.load(open(V + "/known_findings.json"))["findings"]
only = set(sys.argv[1:])
res = {}
for f in k:
    if f["status"] != "fixed":
        continue
    if only and f["id"] not in only and f["property"] not in only:
        continue
    short = f["commit"][:8]
    cands = glob.glob("%s/regress/F*-%s.head.diff" % (V, short)) or glob.glob("%s/regress/F*-%s.diff" % (V, short))
    if not cands:
        res[f["id"]] = dict(property=f["property"], error="no patch"); continue
    patch = cands[0]
    wt = "/tmp/rg-%s" % f["id"]
    subprocess.run(["git", "-C", "/repo", "worktree", "remove", "--force", wt], capture_output=True)
    subprocess.run(["git", "-C", "/repo", "worktree", "add", "-q", "--detach", wt, "HEAD"], check=True)
    try:
        a = subprocess.run(["git", "-C", wt, "apply", patch], capture_output=True, text=True)
        if a.returncode != 0:
            res[f["id"]] = dict(property=f["property"], patch=os.path.basename(patch), error="patch does not apply: " + a.stderr[-200:]); continue
        t0 = time.time()
        p = subprocess.run([V + "/check", f["property"]], cwd=V, env=dict(os.environ, WTF_REPO=wt), capture_output=True, text=True, timeout=3600)
        lines = [l for l in p.stdout.split("\n") if l.startswith(("VIOLATION", "OK ", "KNOWN"))]
        what = None
        for l in lines:
            if "replay=" in l:
                rp = l.split("replay=")[1].split()[0]
                if os.path.exists(rp):
                    r = json.load(open(rp)); what = dict(kind=r.get("kind"), what=str(r.get("what"))[:240])
        res[f["id"]] = dict(property=f["property"], patch=os.path.basename(patch), exit=p.returncode, lines=lines, replay=what, wall_s=round(time.time() - t0, 1),
                            caught=p.returncode == 1, with_input=bool(what and what["kind"] == "impl-counterexample"))
        print(f["id"], f["property"], "CAUGHT" if p.returncode == 1 else "MISSED", (what or {}).get("what", "")[:140], flush=True)
    finally:
        subprocess.run(["git", "-C", "/repo", "worktree", "remove", "--force", wt], capture_output=True)
out = V + "/regress/RESULTS.json"
old = json.load(open(out)) if os.path.exists(out) else {}
old.update(res)
json.dump(old, open(out, "w"), indent=1)
