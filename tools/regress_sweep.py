#!/usr/bin/env python3
"""Re-introduce each repaired defect (reverse patch of its `fix:` commit, ported to HEAD where needed) in a scratch
worktree and run the check of the property the fix is recorded under: every one must report a VIOLATION.
Writes regress/RESULTS.json."""
import json, os, subprocess, sys, glob, time
V = "/verif"
k = json.load(open(V + "/known_findings.json"))["findings"]
only = set(sys.argv[1:])
res = {}
import glob as _glob, threading, queue
pool = [d for d in sorted(_glob.glob("/tmp/ve/[0-9]*")) if os.path.isdir(d)] or [V]
jobs = queue.Queue()
for f in k:
    if f["status"] != "fixed":
        continue
    if only and f["id"] not in only and f["property"] not in only:
        continue
    jobs.put(f)
lock = threading.Lock()


def one(f, clone):
    short = f["commit"][:8]
    cands = glob.glob("%s/regress/F*-%s.head.diff" % (V, short)) or glob.glob("%s/regress/F*-%s.diff" % (V, short))
    if not cands:
        return dict(property=f["property"], error="no patch")
    patch = cands[0]
    wt = "/tmp/rg-%s" % f["id"]
    subprocess.run(["git", "-C", "/repo", "worktree", "remove", "--force", wt], capture_output=True)
    for a in range(10):
        if subprocess.run(["git", "-C", "/repo", "worktree", "add", "-q", "--detach", wt, "HEAD"], capture_output=True).returncode == 0:
            break
        time.sleep(1 + a)
    try:
        a = subprocess.run(["git", "-C", wt, "apply", patch], capture_output=True, text=True)
        if a.returncode != 0:
            return dict(property=f["property"], patch=os.path.basename(patch), error="patch does not apply: " + a.stderr[-200:])
        t0 = time.time()
        p = subprocess.run([clone + "/check", f["property"]], cwd=clone, env=dict(os.environ, WTF_REPO=wt), capture_output=True, text=True, timeout=3600)
        lines = [l for l in p.stdout.split("\n") if l.startswith(("VIOLATION", "OK ", "KNOWN"))]
        what = None
        for l in lines:
            if "replay=" in l:
                rp = l.split("replay=")[1].split()[0]
                if os.path.exists(rp):
                    r = json.load(open(rp)); what = dict(kind=r.get("kind"), what=str(r.get("what"))[:240])
        with lock:
            print(f["id"], f["property"], "CAUGHT" if p.returncode == 1 else "MISSED", (what or {}).get("kind"), (what or {}).get("what", "")[:120], flush=True)
        return dict(property=f["property"], patch=os.path.basename(patch), exit=p.returncode, lines=[l.replace(clone, V) for l in lines], replay=what, wall_s=round(time.time() - t0, 1),
                    caught=p.returncode == 1, with_input=bool(what and what["kind"] == "impl-counterexample"))
    finally:
        subprocess.run(["git", "-C", "/repo", "worktree", "remove", "--force", wt], capture_output=True)


def work(clone):
    while True:
        try:
            f = jobs.get_nowait()
        except queue.Empty:
            return
        r = one(f, clone)
        with lock:
            res[f["id"]] = r


ts = [threading.Thread(target=work, args=(c,)) for c in pool]
[t.start() for t in ts]; [t.join() for t in ts]
out = V + "/regress/RESULTS.json"
old = json.load(open(out)) if os.path.exists(out) else {}
old.update(res)
json.dump(old, open(out, "w"), indent=1)
