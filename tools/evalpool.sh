#!/bin/sh
# tools/evalpool.sh <n> : create n evaluation clones of the committed /verif under /tmp/ve/<k> (git worktrees with the
# build caches copied), so that seeded changes can be evaluated in parallel (each clone has its own Gen/, .build, .lake).
# tools/evalpool.sh rm  : remove them.
cd "$(dirname "$0")/.."
if [ "$1" = rm ]; then
  for d in /tmp/ve/*; do [ -d "$d" ] && git worktree remove --force "$d"; done; git worktree prune; rm -rf /tmp/ve; exit 0
fi
mkdir -p /tmp/ve
for k in $(seq 1 "$1"); do
  d=/tmp/ve/$k
  if [ -d "$d" ]; then git -C "$d" checkout -q -f --detach "$(git rev-parse HEAD)"; else git worktree add -q --detach "$d" HEAD; fi
  mkdir -p "$d/lean"; rsync -a --delete .build/ "$d/.build/" --exclude run --exclude evidence-scratch; rsync -a --delete lean/.lake/ "$d/lean/.lake/"
  rsync -a lean/WtfModel/Gen/ "$d/lean/WtfModel/Gen/"
done
ls /tmp/ve
