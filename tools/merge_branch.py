#!/usr/bin/env python3
"""Merge a builder branch into the current branch, auto-resolving the two shared registries
(lean/Driver/Dispatch.lean: union of imports and match arms; known_findings.json: union by id)."""
import json, subprocess, sys

def sh(*a, check=False):
    return subprocess.run(a, capture_output=True, text=True, check=check)

def show(stage, path):
    return sh("git", "show", ":%d:%s" % (stage, path)).stdout

def resolve_dispatch(path="lean/Driver/Dispatch.lean"):
    ours, theirs = show(2, path), show(3, path)
    lines = ours.split("\n")
    imports = [l for l in theirs.split("\n") if l.startswith("import ") and l not in lines]
    arms = [l for l in theirs.split("\n") if l.strip().startswith('| "') and l not in lines]
    out = []
    last_import = max(i for i, l in enumerate(lines) if l.startswith("import "))
    for i, l in enumerate(lines):
        if l.strip().startswith("| _ =>"):
            out.extend(arms)
        out.append(l)
        if i == last_import:
            out.extend(imports)
    open(path, "w").write("\n".join(out))
    sh("git", "add", path)

def resolve_findings(path="known_findings.json"):
    ours, theirs = json.loads(show(2, path)), json.loads(show(3, path))
    ids = {f["id"] for f in ours["findings"]}
    for f in theirs["findings"]:
        if f["id"] not in ids:
            ours["findings"].append(f)
    json.dump(ours, open(path, "w"), indent=1)
    sh("git", "add", path)

def main():
    br = sys.argv[1]
    r = sh("git", "merge", "--no-edit", br)
    print(r.stdout[-800:], r.stderr[-400:])
    st = sh("git", "diff", "--name-only", "--diff-filter=U").stdout.split()
    for p in st:
        if p == "lean/Driver/Dispatch.lean":
            resolve_dispatch()
        elif p == "known_findings.json":
            resolve_findings()
        elif p.startswith("evidence/") or p == "MANIFEST.json":
            sh("git", "checkout", "--theirs" if p.startswith("evidence/") else "--ours", p); sh("git", "add", p)
        else:
            print("UNRESOLVED:", p)
    left = sh("git", "diff", "--name-only", "--diff-filter=U").stdout.split()
    if left:
        print("conflicts left:", left); sys.exit(1)
    if st:
        sh("git", "commit", "--no-edit", "-m", "Merge branch '%s'" % br)
    print("merged", br)

if __name__ == "__main__":
    main()
