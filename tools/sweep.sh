#!/bin/sh
# tools/sweep.sh <tier> <seed>... : run every check on the unchanged tree for the given seeds; one line per run.
tier=$1; shift
./setup.sh >/dev/null 2>&1 || { echo "SETUP FAILED"; exit 1; }
for s in "$@"; do
  for p in $(./check --list); do
    out=$(VERIF_SEED=$s ./check $p --tier $tier 2>/dev/null | grep -E '^(OK|VIOLATION|KNOWN)' | tr '\n' ' ')
    echo "seed=$s $out"
  done
done
