#!/bin/sh
# tools/seed_wave.sh <suffix> <prop>... : scratch worktrees /tmp/seed/<prop><suffix> of /repo HEAD + prompt files for independent
# mutation agents (tools/seed_prompt.py), with the house rules appended.
suf=$1; shift
cd "$(dirname "$0")/.."
mkdir -p /tmp/seed
cp tools/SEED_PROMPT.txt /tmp/seed/PROMPT.txt
for P in "$@"; do
  wt=/tmp/seed/${P}${suf}
  git -C /repo worktree add -q --detach $wt HEAD
  python3 tools/seed_prompt.py $P $wt > $wt.prompt.txt
  cat >> $wt.prompt.txt <<EOT

Additional rules: never use \`git stash\` (the stash is shared between all worktrees of this repository and other people are working in sibling worktrees): to compare with/without your change use \`git diff > $wt/seed_out/X/patch.diff\` then \`git apply -R\` / \`git apply\`. Create seed_out/go.mod containing \`module seedout\` so that saved demo copies are not picked up by \`go test ./...\`. The demo_cmd in meta.json must copy the saved demo into place itself and must NOT apply the patch (the evaluator runs it both with and without the patch).
EOT
done
ls /tmp/seed | grep "${suf}.prompt" | tr '\n' ' '
