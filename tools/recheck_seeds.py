#!/usr/bin/env python3
"""tools/recheck_seeds.py [name-prefix...] : re-run, on the current framework, the check of every kept seeded change
(seeded/<name>/patch.diff applied to a scratch worktree of /repo HEAD; demo and suite are not re-run - they were confirmed when
the seed was kept).  Parallel over the evaluation clones /tmp/ve/<k>.  Writes seeded/RECHECK.json and prints one line per seed."""
import sys, os, json, glob, subprocess, queue, threading, time
V = os.path.join(os.path.dirname(os.path.abspath(__file__)), "..")
pref = sys.argv[1:]
pool = [d for d in sorted(glob.glob("/tmp/ve/[0-9]*")) if os.path.isdir(d)]
jobs = queue.Queue()
for d in sorted(glob.glob(os.path.join(V, "seeded", "C*"))):
    n = os.path.basename(d)
    if not pref or any(n.startswith(p) for p in pref):
        jobs.put(d)
res, lock = {}, threading.Lock()
def sh(cmd, **kw):
    p = subprocess.run(cmd, capture_output=True, text=True, **kw); return p.returncode, p.stdout + p.stderr
def work(clone):
    while True:
        try: d = jobs.get_nowait()
        except queue.Empty: return
        name = os.path.basename(d)
        prop = json.load(open(os.path.join(d, "meta.json")))["property"]
        wt = "/tmp/rs-" + name
        sh(["git", "-C", "/repo", "worktree", "remove", "--force", wt])
        for a in range(10):
            if sh(["git", "-C", "/repo", "worktree", "add", "-q", "--detach", wt, "HEAD"])[0] == 0: break
            time.sleep(1 + a)
        r = dict(property=prop)
        try:
            rc, out = sh(["git", "-C", wt, "apply", os.path.join(d, "patch.diff")])
            if rc != 0:
                rc, out = sh(["git", "-C", wt, "apply", "--3way", os.path.join(d, "patch.diff")])
            if rc != 0:
                r["error"] = "patch does not apply to the current HEAD: " + out[-160:]
            else:
                rc, out = sh(["go", "build", "./..."], cwd=wt, env=dict(os.environ, GOFLAGS="-mod=mod", GOPROXY="off"))
                if rc != 0:
                    r["error"] = "patched tree does not build: " + out[-160:]
                else:
                    t0 = time.time()
                    rc, out = sh([os.path.join(clone, "check"), prop], cwd=clone, env=dict(os.environ, WTF_REPO=wt), timeout=3600)
                    what = None
                    for l in out.split("\n"):
                        if l.startswith("VIOLATION") and "replay=" in l:
                            rp = l.split("replay=")[1].split()[0]
                            if os.path.exists(rp):
                                j = json.load(open(rp)); what = dict(kind=j.get("kind"), what=str(j.get("what"))[:200])
                    r.update(exit=rc, caught=rc == 1, with_input=bool(what and what["kind"] == "impl-counterexample"), replay=what, wall_s=round(time.time() - t0, 1))
        finally:
            sh(["git", "-C", "/repo", "worktree", "remove", "--force", wt])
        with lock:
            res[name] = r
            print(name, r.get("error") or ("CAUGHT" + (" with input" if r.get("with_input") else " (no input)") if r.get("caught") else "MISSED"), ((r.get("replay") or {}).get("what") or "")[:100], flush=True)
ts = [threading.Thread(target=work, args=(c,)) for c in pool]
[t.start() for t in ts]; [t.join() for t in ts]
out = os.path.join(V, "seeded", "RECHECK.json")
old = json.load(open(out)) if os.path.exists(out) else {}
old.update(res)
json.dump(old, open(out, "w"), indent=1, sort_keys=True)
n = len(res); c = sum(1 for r in res.values() if r.get("caught")); w = sum(1 for r in res.values() if r.get("with_input")); e = sum(1 for r in res.values() if r.get("error"))
print("rechecked %d: caught %d (with input %d), not applicable %d, missed %d" % (n, c, w, e, n - c - e))
