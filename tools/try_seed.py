#!/usr/bin/env python3
"""tools/try_seed.py <seed_dir> [--props C12,C05] : evaluate one seeded change.
seed_dir holds patch.diff, meta.json and the demo (a *_test.go or main program + demo_cmd in meta.json).
Steps (all in a scratch worktree of /repo, removed afterwards):
  1. patch applies; go build + full test suite pass with the patch;
  2. the demo fails with the patch and passes without it;
  3. the named checks run with WTF_REPO=<worktree>: expect VIOLATION.
Prints a JSON summary and writes it to <seed_dir>/result.json."""
import json, os, shutil, subprocess, sys, tempfile, time

def sh(cmd, cwd=None, env=None, timeout=3600):
    p = subprocess.run(cmd, cwd=cwd, env=env, shell=isinstance(cmd, str), capture_output=True, text=True, errors="replace", timeout=timeout)
    return p.returncode, (p.stdout + p.stderr)

def main():
    sd = os.path.abspath(sys.argv[1])
    meta = json.load(open(os.path.join(sd, "meta.json")))
    props = [meta["property"]]
    if "--props" in sys.argv:
        props = sys.argv[sys.argv.index("--props") + 1].split(",")
    tier = "quick"
    if "--tier" in sys.argv:
        tier = sys.argv[sys.argv.index("--tier") + 1]
    env = dict(os.environ, GOFLAGS="-mod=mod", GOPROXY="off")
    wt = tempfile.mkdtemp(prefix="seedwt-", dir="/tmp")
    os.rmdir(wt)
    res = dict(seed=sd, props=props)
    try:
        for attempt in range(10):   # concurrent evaluations contend for /repo's worktree lock
            rc, out = sh(["git", "-C", "/repo", "worktree", "add", "-q", "--detach", wt, "HEAD"])
            if rc == 0:
                break
            time.sleep(1 + attempt)
        assert rc == 0, out
        # the demo command was written for the author's own worktree: re-root it on the scratch worktree
        import re
        m = re.search(r"/tmp/seed/[A-Za-z0-9_-]+", meta["demo_cmd"])
        orig_root = m.group(0) if m else None
        demo_cmd = meta["demo_cmd"].replace(orig_root, wt) if orig_root else meta["demo_cmd"]
        # some authors put the application of their patch into the demo command: the tool applies it itself
        demo_cmd = re.sub(r"git\s+(-C\s+\S+\s+)?apply\s+[^&;|]*(&&|;)", "", demo_cmd)
        so_src = os.path.dirname(sd) if os.path.basename(os.path.dirname(sd)) == "seed_out" else sd
        def with_seed_out(f):
            shutil.copytree(so_src, os.path.join(wt, "seed_out"), dirs_exist_ok=True)
            # authors who leave the placing of the demo to the reader name its place in meta.demo_location
            loc = str(meta.get("demo_location", "")).split()
            if loc and loc[0].endswith("_test.go") and " cp " not in " " + meta["demo_cmd"]:
                for cand in sorted(os.listdir(sd)):
                    if cand.endswith("_test.go"):
                        os.makedirs(os.path.dirname(os.path.join(wt, loc[0])), exist_ok=True)
                        shutil.copyfile(os.path.join(sd, cand), os.path.join(wt, loc[0]))
                        break
            try:
                return f()
            finally:
                sh(["git", "clean", "-fdq"], cwd=wt)   # removes seed_out/ and the copied demo files
        rc0, out0 = with_seed_out(lambda: sh(demo_cmd, cwd=wt, env=env))
        res["demo_without_patch_passes"] = rc0 == 0
        if rc0 != 0:
            res["demo_without_tail"] = out0[-400:]
        rc, out = sh(["git", "apply", os.path.join(sd, "patch.diff")], cwd=wt)
        res["patch_applies"] = rc == 0
        if rc != 0:
            res["error"] = out[-500:]
            return res
        rc1, out1 = with_seed_out(lambda: sh(demo_cmd, cwd=wt, env=env))
        res["demo_with_patch_fails"] = rc1 != 0
        res["demo_tail"] = out1[-400:]
        rc, out = sh("go build ./... && go test -vet=off -count=1 ./...", cwd=wt, env=env)
        res["suite_passes_with_patch"] = rc == 0
        if rc != 0:
            res["suite_tail"] = out[-600:]
        checks = {}
        for p in props:
            t0 = time.time()
            e2 = dict(os.environ, WTF_REPO=wt, VERIF_TIER=tier)
            V = os.path.dirname(os.path.dirname(os.path.abspath(__file__)))   # the /verif tree this tool lives in (an evaluation clone when run from one)
            rc, out = sh([os.path.join(V, "check"), p, "--tier", tier], cwd=V, env=e2, timeout=7200)
            lines = [l for l in out.split("\n") if l.startswith("VIOLATION") or l.startswith("OK ") or l.startswith("KNOWN-FINDING")]
            rp = None
            for l in lines:
                if "replay=" in l:
                    rp = l.split("replay=")[1].split()[0]
            what = None
            if rp and os.path.exists(rp):
                r = json.load(open(rp))
                what = dict(kind=r.get("kind"), what=str(r.get("what"))[:300], broken=[o["name"] for o in r.get("broken_obligations", [])][:8])
            checks[p] = dict(exit=rc, lines=lines, replay=what, wall_s=round(time.time() - t0, 1))
        res["checks"] = checks
        res["caught"] = any(c["exit"] == 1 and any(l.startswith("VIOLATION") for l in c["lines"]) for c in checks.values())
        return res
    finally:
        sh(["git", "-C", "/repo", "worktree", "remove", "--force", wt])
        shutil.rmtree(wt, ignore_errors=True)
        json.dump(res, open(os.path.join(sd, "result.json"), "w"), indent=1)
        print(json.dumps(res, indent=1))

if __name__ == "__main__":
    main()
