#!/usr/bin/env python3
"""tools/eval_refactors.py <dir-with-R*/patch.diff> : false-alarm measurement.  Each behaviour-preserving refactor is applied
in a scratch worktree of /repo and the checks of the properties anchored in the touched code are run on it (evaluation
clones /tmp/ve/<k>).  A VIOLATION here is, by the brief's rule, either `no-failing-input-found` (a proof obligation /
translator fact / correspondence no longer checks: expected for refactors the recognisers do not know) or - with an input -
a FALSE ALARM that must be fixed.  Writes <dir>/REFACTOR_RESULTS.json."""
import sys, os, json, glob, subprocess, queue, threading, time
root = os.path.abspath(sys.argv[1])
PROPS = {  # by path fragment of the touched files
 "database/search_universal.go": ["C01", "C03", "C04", "C06", "C07", "C13", "C20", "C02", "C10"],
 "database/search.go": ["C01", "C07", "C13", "C04", "C10", "C02"],
 "database/cascading_boost.go": ["C01", "C13", "C02"],
 "cache/lru_cache.go": ["C12", "C11", "C05"],
 "cache/search_cache.go": ["C05", "C12"],
 "database/search_cached.go": ["C05", "C01", "C04", "C03"],
 "database/search_monitored.go": ["C05", "C18"],
 "nlp/": ["C06", "C02"],
 "validation/": ["C14", "C17"],
 "history/": ["C16", "C09", "C17"],
 "recovery/": ["C15", "C01"],
 "utils/": ["C09", "C08"],
 "cli/save.go": ["C08", "C09"],
 "cli/search.go": ["C17", "C01", "C04", "C20"],
 "metrics/": ["C18", "C11"],
 "database/loader.go": ["C03", "C08", "C15", "C02"],
 "embedding/": ["C19"],
 "context/": ["C13"],
 "cache/cache.go": ["C05", "C12", "C11"],
 "config/": ["C17", "C01", "C08"],
 "errors/": ["C15", "C14", "C17"],
 "cli/history.go": ["C16", "C17"],
 "cli/alias.go": ["C17"],
 "cli/root.go": ["C17", "C08"],
 "cli/pipeline.go": ["C08", "C17", "C20"],
 "cli/setup.go": ["C17"],
 "cli/wizard": ["C17"],
 "constants/": ["C01", "C05", "C12", "C14", "C15", "C17"],
 "database/models.go": ["C03", "C01", "C08"],
 "database/search_helpers.go": ["C01", "C13", "C19"],
 "database/embedding_loader.go": ["C19"],
}
only = sys.argv[2].split(",") if len(sys.argv) > 2 else None
jobs = queue.Queue()
for d in sorted(glob.glob(os.path.join(root, "[RT]*"))):
    if os.path.exists(os.path.join(d, "patch.diff")) and (not only or os.path.basename(d) in only):
        jobs.put(d)
pool = [d for d in sorted(glob.glob("/tmp/ve/[0-9]*")) if os.path.isdir(d)]
res, lock = {}, threading.Lock()
def sh(cmd, **kw):
    p = subprocess.run(cmd, capture_output=True, text=True, **kw); return p.returncode, p.stdout + p.stderr
def work(clone):
    while True:
        try: d = jobs.get_nowait()
        except queue.Empty: return
        name = os.path.basename(d)
        meta = json.load(open(os.path.join(d, "meta.json")))
        wt = "/tmp/rf-" + name + "-" + os.path.basename(clone)
        sh(["git", "-C", "/repo", "worktree", "remove", "--force", wt])
        for a in range(10):
            rc, out = sh(["git", "-C", "/repo", "worktree", "add", "-q", "--detach", wt, "HEAD"])
            if rc == 0: break
            time.sleep(1 + a)
        r = dict(files=meta.get("files"), summary=meta.get("summary", "")[:200], checks={})
        try:
            rc, out = sh(["git", "-C", wt, "apply", os.path.join(d, "patch.diff")])
            if rc != 0:
                r["error"] = "patch does not apply: " + out[-200:]
            else:
                props = []
                for f in meta.get("files", []):
                    for frag, ps in PROPS.items():
                        if frag in f:
                            props += [p for p in ps if p not in props]
                props += [p for p in meta.get("closest_properties", []) if p not in props]
                for p in props:
                    t0 = time.time()
                    rc, out = sh([os.path.join(clone, "check"), p], cwd=clone, env=dict(os.environ, WTF_REPO=wt), timeout=3600)
                    lines = [l for l in out.split("\n") if l.startswith(("VIOLATION", "OK ", "KNOWN"))]
                    what = None
                    for l in lines:
                        if "replay=" in l:
                            rp = l.split("replay=")[1].split()[0]
                            if os.path.exists(rp):
                                j = json.load(open(rp)); what = dict(kind=j.get("kind"), what=str(j.get("what"))[:300], broken=[o["name"] for o in j.get("broken_obligations", [])][:8])
                    r["checks"][p] = dict(exit=rc, verdict=("ok" if rc == 0 else ("FALSE-ALARM-with-input" if what and what["kind"] == "impl-counterexample" else "no-failing-input-found")), replay=what, wall_s=round(time.time() - t0, 1))
        finally:
            sh(["git", "-C", "/repo", "worktree", "remove", "--force", wt])
        with lock:
            res[name] = r
            print("==", name, r.get("error", ""), {p: c["verdict"] for p, c in r["checks"].items()}, flush=True)
            for p, c in r["checks"].items():
                if c["exit"] != 0:
                    print("    ", p, (c["replay"] or {}).get("broken"), ((c["replay"] or {}).get("what") or "")[:200], flush=True)
ts = [threading.Thread(target=work, args=(c,)) for c in pool]
[t.start() for t in ts]; [t.join() for t in ts]
out = os.path.join(root, "REFACTOR_RESULTS.json")
if only and os.path.exists(out):   # a partial re-run updates the entries it ran and keeps the others
    prev = json.load(open(out)); prev.update(res); res = prev
json.dump(res, open(out, "w"), indent=1, sort_keys=True)
