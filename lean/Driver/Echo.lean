import WtfModel.Basic.Bytes
namespace Driver.Echo
open Wtf
/-- Protocol self-test: `hex <h>` answers the byte length and the re-encoded string. -/
def step (l : String) : String :=
  match l.splitOn " " with
  | ["hex", h] => match Bytes.ofHex h with
      | some b => s!"{b.length} {Bytes.toHex b}"
      | none => "bad-op"
  | _ => "bad-op"
def runCase (ops : Array String) : Array String := ops.map step
end Driver.Echo
