namespace Driver

def words (l : String) : List String := (l.splitOn " ").filter (· ≠ "")

def intOf? (s : String) : Option Int := s.toInt?

def natOf? (s : String) : Option Nat := s.toNat?

/-- insertion sort on strings, for canonical output of anything that came out of a Go map -/
def sortStrings (xs : List String) : List String :=
  xs.foldl (fun acc x =>
    let (a, b) := acc.span (fun y => y < x || y == x)
    a ++ x :: b) []

end Driver
