import WtfModel.Basic.Bytes
namespace Driver

def words (l : String) : List String := (l.splitOn " ").filter (· ≠ "")

def intOf? (s : String) : Option Int := s.toInt?

def natOf? (s : String) : Option Nat := s.toNat?

/-- insertion sort on strings, for canonical output of anything that came out of a Go map -/
def sortStrings (xs : List String) : List String :=
  xs.foldl (fun acc x =>
    let (a, b) := acc.span (fun y => y < x || y == x)
    a ++ x :: b) []

end Driver

namespace Driver
open Wtf

/-- list token: `-` = empty list, elements comma-separated, `_` = empty string element -/
def bytesList? (s : String) : Option (List Bytes) :=
  if s == "-" then some [] else
  (s.splitOn ",").mapM (fun e => if e == "_" then some [] else Bytes.ofHex e)

def hexDigitVal (c : Char) : Nat :=
  if '0' ≤ c ∧ c ≤ '9' then c.toNat - 48
  else if 'a' ≤ c ∧ c ≤ 'f' then c.toNat - 87
  else if 'A' ≤ c ∧ c ≤ 'F' then c.toNat - 55 else 0

/-- `f:<hex bits>` → Float -/
def floatOf? (s : String) : Option Float :=
  if s.startsWith "f:" then
    let n := (s.drop 2).toString.toList.foldl (fun acc c => acc * 16 + hexDigitVal c) 0
    some (Float.ofBits (UInt64.ofNat n))
  else none

def hexOfNat (n : Nat) : String :=
  if n == 0 then "0" else
  let rec go (fuel n : Nat) (acc : List Char) : List Char :=
    match fuel with
    | 0 => acc
    | fuel + 1 => if n == 0 then acc else go fuel (n / 16) (Bytes.hexDigit (n % 16) :: acc)
  String.ofList (go 20 n [])

def fmtFloat (x : Float) : String := "f:" ++ hexOfNat x.toBits.toNat

def boolOf (s : String) : Bool := s == "1"

end Driver
