import WtfModel.Model.Search
import WtfModel.Model.Modelled
import WtfModel.Model.NormQ
import WtfModel.Model.Legacy0
import WtfModel.Model.Tfidf
import WtfModel.Model.Boosts
import WtfModel.Model.GoSort
import WtfModel.Gen.Constants
import WtfModel.Gen.LegacyScore
import Driver.Util

/-!
  Driver domain `search`: the model of SearchUniversal run with `S := Float`, fed the parameter values
  (`Tuning`) the real code computed for this case.  Lines:
    host <hex> | ri <cp> <lower> <foldrep> <flags> | cmd <11 fields> | idf <df> <f:>
    nq <hex> | pq <actions> <targets> <keywords> <enhanced> | ib <f:,..|-> | cb <f:,..|-> | tf none|-|<doc>:<f:>,..
       (pq / ib / cb: values of the real NLP code; answered `ok` iff the model's NLP layer yields the same values)
    fz -|<idx>=<score>,..
       (fz: the matches as `fuzzy.Find` returned them, i.e. after the library's `sort.Stable`; answered `ok` iff the model of that
        sort, `GoSort.fuzzyStable`, puts the same matches — taken in index order, as FindFromNoSort produces them — in the same order)
    search <q> <limit> <boosts> <pipelineOnly> <pipelineBoost> <useFuzzy> <thr> <useNLP> <cap> <allPlat> <platforms> <noCross>
    tokens <hex> | passes <doc> <allPlat> <platforms> <noCross> <pipelineOnly>
  domain `boosts` (same state, harness/dom_boosts.go): the MODEL's NLP layer (Model/Boosts.lean, Model/Nlp.lean)
    mpq <hex q> → pq <actions> <targets> <keywords> <enhanced> <intent>
    mctx <hex q> → ctx <actionTerms> <targetTerms> <keywordTerms> <hints> <contexts> <intent>
    mib <hex q> → ib <f:,..|->        mcb <hex q> → cb <f:,..|->       (one value per document)
-/
namespace Driver.Search
open Wtf Wtf.Search Wtf.Index

/-- the model's NLP layer for one normalised query, tabulated per document (pure memoisation of `Boosts.nlpOut`) -/
structure NlpCache where
  nq : Bytes
  out : NlpOut Float
  ib : List Float
  cb : List Float

structure DS where
  host : Bytes := []
  ri : RuneInfo := {}
  db : Array Cmd := #[]
  idf : List (Nat × Float) := []
  nq : Bytes := []
  actions : List Bytes := []
  targets : List Bytes := []
  keywords : List Bytes := []
  enhanced : List Bytes := []
  ib : Array Float := #[]
  cb : Array Float := #[]
  tf : Option (List (Nat × Float)) := none
  fz : List (Nat × Int) := []
  lg : List (Nat × Float) := []    -- math.Log(N/dc) table for the TF-IDF model
  tfIdx : Option (Tfidf.Index Float) := none   -- model TF-IDF index, built once per case
  nlpDb : Option (List Cmd) := none            -- database the NLP factors are computed for, if not `db` (domain c03)
  nqSeen : Bool := false                       -- an `nq` line was read: `pq` / `ib` / `cb` lines describe the normalised query `nq`
  cache : Option NlpCache := none              -- memo of the model's NLP layer for `nq` (reset whenever db / ri / nq change)

/-- the commands the per-document NLP factors refer to -/
def DS.nlpCmds (d : DS) : List Cmd := d.nlpDb.getD d.db.toList

/-- `Boosts.nlpOut` for the current `nq`, with both per-document factors evaluated once for every document -/
def mkCache (d : DS) : NlpCache :=
  let n : NlpOut Float := Boosts.nlpOut d.ri d.nlpCmds d.nq
  let k := d.nlpCmds.length
  let ib := ((List.range k).map n.intentBoost).toArray
  let cb := ((List.range k).map n.cascade).toArray
  { nq := d.nq, ib := ib.toList, cb := cb.toList,
    -- outside the database both factors are `one`, as in `Boosts.nlpOutWith`
    out := { n with intentBoost := fun i => ib.getD i 1.0, cascade := fun i => cb.getD i 1.0 } }

def withCache (d : DS) : DS × NlpCache :=
  match d.cache with
  | some c => if c.nq == d.nq then (d, c) else let c := mkCache d; ({ d with cache := some c }, c)
  | none => let c := mkCache d; ({ d with cache := some c }, c)

def floatList? (s : String) : Option (List Float) :=
  if s == "-" then some [] else (s.splitOn ",").mapM floatOf?

def pairList? {α β} (s : String) (fa : String → Option α) (fb : String → Option β) : Option (List (α × β)) :=
  if s == "-" then some [] else
  (s.splitOn ",").mapM (fun e =>
    match e.splitOn "=" with
    | [a, b] => do let x ← fa a; let y ← fb b; pure (x, y)
    | _ => none)

/-- the matches of an `fz` line in index order: the order in which `FindFromNoSort` appends them (one match per target index) -/
def byIndex (l : List (Nat × Int)) : List (Nat × Int) :=
  l.foldl (fun acc x => let (a, b) := acc.span (fun y => y.1 ≤ x.1); a ++ x :: b) []

def fmtMatches (l : List (Nat × Int)) : String :=
  if l.isEmpty then "-" else ",".intercalate (l.map (fun (i, s) => s!"{i}={s}"))

/-- the parameter set of the end-to-end theorem (`Wtf.Search.modelledTuning`, Model/Modelled.lean), with the oracle tables
    for what stays external (idf values, the normalised query) and a per-query memo of the modelled NLP layer (a pure cache:
    `c.out = Boosts.nlpOut d.ri d.nlpCmds c.nq`).  The order of the fuzzy matches is the MODEL's (`GoSort.fuzzyStable`, the
    transliteration of `sort.Stable` with the library's `Less`; `Wtf.C01.universal_modelled_sorted` is about exactly this
    parameter set); Go's order (`fz` line) is only compared with it. -/
def tuning (d : DS) : Tuning Float :=
  let fz := Wtf.GoSort.fuzzyStable
  -- the re-ranker is the MODEL's TF-IDF (Model/Tfidf.lean) whenever the real database has a searcher;
  -- the oracle `tf` line only says whether one exists (and is compared separately by the `tfidf` op)
  let base := modelledTuning (fun _ df => ((d.idf.find? (·.1 == df)).map (·.2)).getD 0.0) d.host d.ri (fun _ => d.nq) fz
    Float.sqrt (Wtf.ScoreOps.ofQ Wtf.Gen.LegacyScore.tfidfMinSim) (if d.tf.isSome then d.tfIdx else none) d.nlpCmds
  { base with
    nlp := fun nq => match d.cache with
      | some c => if c.nq == nq then c.out else base.nlp nq
      | none => base.nlp nq
    -- `Tfidf.search … d.nlpCmds.length`: the limit is the number of commands; the case "searcher exists but the model index
    -- was not built" arises only for searches without NLP, which never consult the re-ranker
    tfidf := match d.tf, d.tfIdx with
      | some _, some idx => some (fun nq => Tfidf.search d.ri Float.sqrt (Wtf.ScoreOps.ofQ Wtf.Gen.LegacyScore.tfidfMinSim) idx nq d.db.size)
      | some l, none => some (fun _ => l)
      | none, _ => none }

def fmtBytesList (l : List Bytes) : String :=
  if l.isEmpty then "-" else ",".intercalate (l.map (fun b => if b.isEmpty then "_" else Bytes.toHex b))

def fmtFloatList (l : List Float) : String :=
  if l.isEmpty then "-" else ",".intercalate (l.map fmtFloat)

/-- an oracle line agrees with the model iff the values are identical (floats: same bits) -/
def oracleCheck (what : String) (same : Bool) (model : String) : String :=
  if same then "ok" else s!"oracle-differs-from-model {what} model={model}"

/- Oracle lines are compared with the model only when they describe SearchUniversal's normalised query (an `nq` line
   precedes them: domains search, c03, legacy).  Domain legacy2 feeds `pq` / `ib` of the *raw* query to the legacy
   SearchWithNLP model without an `nq` line: there they stay inputs (`DS.nqSeen`). -/

def sameBits (a b : List Float) : Bool := a.length == b.length && (a.zip b).all (fun (x, y) => x.toBits == y.toBits)

def fmtResults (r : Except Fuzzy.Panic (List (Nat × Float))) : String :=
  match r with
  | .error _ => "panic:index-out-of-range"
  | .ok l => l.foldl (fun acc (d, s) => acc ++ s!" {d} {fmtFloat s}") s!"res {l.length}"

def logOf (d : DS) : Nat → Nat → Float := fun _ dc => ((d.lg.find? (·.1 == dc)).map (·.2)).getD 0.0

def ensureIdx (d : DS) : DS :=
  match d.tfIdx with
  | some _ => d
  | none => { d with tfIdx := some (Tfidf.build (S := Float) d.ri (logOf d) Float.sqrt d.db.toList) }

def step (d : DS) (l : String) : DS × String :=
  match words l with
  | ["host", h] => match Bytes.ofHex h with
    | some b => ({ d with host := b, cache := none }, "ok")
    | none => (d, "bad-op")
  | ["ri", cp, lo, fr, fl] =>
    match natOf? cp, natOf? lo, natOf? fr, natOf? fl with
    | some cp, some lo, some fr, some fl =>
      let f : RuneFacts := { cp := cp, lower := lo, foldRep := fr, isLower := fl % 2 == 1, isUpper := (fl / 2) % 2 == 1,
                             isSpace := (fl / 4) % 2 == 1, isLetNum := (fl / 8) % 2 == 1 }
      ({ d with ri := { table := f :: d.ri.table }, cache := none }, "ok")
    | _, _, _, _ => (d, "bad-op")
  | ["cmd", c, de, kw, tg, ni, pl, pi, cl, dl, kl, tl] =>
    match Bytes.ofHex c, Bytes.ofHex de, bytesList? kw, bytesList? tg, Bytes.ofHex ni, bytesList? pl,
          Bytes.ofHex cl, Bytes.ofHex dl, bytesList? kl, bytesList? tl with
    | some c, some de, some kw, some tg, some ni, some pl, some cl, some dl, some kl, some tl =>
      ({ d with db := d.db.push { command := c, description := de, keywords := kw, tags := tg, niche := ni, platform := pl,
                                   pipeline := boolOf pi, commandLower := cl, descriptionLower := dl,
                                   keywordsLower := kl, tagsLower := tl }, cache := none }, "ok")
    | _, _, _, _, _, _, _, _, _, _ => (d, "bad-op")
  | ["idf", df, v] =>
    match natOf? df, floatOf? v with
    | some df, some v => ({ d with idf := (df, v) :: d.idf }, "ok")
    | _, _ => (d, "bad-op")
  | ["nq", h] => match Bytes.ofHex h with
    | some b => ({ d with nq := b, nqSeen := true, cache := none }, "ok")
    | none => (d, "bad-op")
  | ["pq", a, t, k, e] =>
    match bytesList? a, bytesList? t, bytesList? k, bytesList? e with
    | some a, some t, some k, some e =>
      if !d.nqSeen then ({ d with actions := a, targets := t, keywords := k, enhanced := e }, "ok") else
      let (d, c) := withCache d
      let n := c.out
      ({ d with actions := a, targets := t, keywords := k, enhanced := e },
       oracleCheck "pq" (n.actions == a && n.targets == t && n.keywords == k && n.enhanced == e)
         s!"{fmtBytesList n.actions} {fmtBytesList n.targets} {fmtBytesList n.keywords} {fmtBytesList n.enhanced}")
    | _, _, _, _ => (d, "bad-op")
  | ["ib", v] => match floatList? v with
    | some l =>
      if !d.nqSeen then ({ d with ib := l.toArray }, "ok") else
      let (d, c) := withCache d
      ({ d with ib := l.toArray }, oracleCheck "ib" (sameBits c.ib l) (fmtFloatList c.ib))
    | none => (d, "bad-op")
  | ["cb", v] => match floatList? v with
    | some l =>
      if !d.nqSeen then ({ d with cb := l.toArray }, "ok") else
      let (d, c) := withCache d
      ({ d with cb := l.toArray }, oracleCheck "cb" (sameBits c.cb l) (fmtFloatList c.cb))
    | none => (d, "bad-op")
  | ["tf", v] =>
    if v == "none" then ({ d with tf := none }, "ok") else
    match pairList? v natOf? floatOf? with
    | some l => ({ d with tf := some l }, "ok")
    | none => (d, "bad-op")
  | ["fz", v] =>
    match pairList? v natOf? intOf? with
    | some l =>
      let m := Wtf.GoSort.fuzzyStable (byIndex l)
      ({ d with fz := l }, oracleCheck "fz" (m == l) (fmtMatches m))
    | none => (d, "bad-op")
  | ["search", q, lim, bo, po, pb, uf, thr, un, cap, ap, pls, nc] =>
    match Bytes.ofHex q, intOf? lim, pairList? bo Bytes.ofHex floatOf?, floatOf? pb, intOf? thr, intOf? cap, bytesList? pls with
    | some q, some lim, some bo, some pb, some thr, some cap, some pls =>
      let o : Opts Float := { limit := lim, boosts := bo, pipelineOnly := boolOf po, pipelineBoost := pb, useFuzzy := boolOf uf,
                              fuzzyThreshold := thr, useNLP := boolOf un, topTermsCap := cap, allPlatforms := boolOf ap,
                              platforms := pls, noCross := boolOf nc }
      let d := if o.useNLP then (withCache (ensureIdx d)).1 else d
      (d, fmtResults (search (tuning d) d.db.toList q o))
    | _, _, _, _, _, _, _ => (d, "bad-op")
  | ["lg", dc, v] =>
    match natOf? dc, floatOf? v with
    | some dc, some v => ({ d with lg := (dc, v) :: d.lg }, "ok")
    | _, _ => (d, "bad-op")
  | ["tfidf", h] =>
    -- the model's own TF-IDF ranking (Model/Tfidf.lean) for a query, all commands
    match Bytes.ofHex h with
    | some q =>
      let d := ensureIdx d
      let r := match d.tfIdx with
        | some idx => Tfidf.search d.ri Float.sqrt (Wtf.ScoreOps.ofQ Wtf.Gen.LegacyScore.tfidfMinSim) idx q d.db.size
        | none => []
      (d, r.foldl (fun acc (i, s) => acc ++ s!" {i} {fmtFloat s}") s!"tf {r.length}")
    | none => (d, "bad-op")
  | ["mpq", h] =>
    match Bytes.ofHex h with
    | some q =>
      let n : NlpOut Float := Boosts.nlpOut d.ri d.db.toList q
      let a := (Nlp.analyse d.ri q).1
      (d, s!"pq {fmtBytesList n.actions} {fmtBytesList n.targets} {fmtBytesList n.keywords} {fmtBytesList n.enhanced} {Bytes.toHex a.intent}")
    | none => (d, "bad-op")
  | ["mctx", h] =>
    match Bytes.ofHex h with
    | some q =>
      let an := Nlp.analyse d.ri q
      let x := Boosts.buildCtx Boosts.genSpec d.ri an.1 an.2
      (d, s!"ctx {fmtBytesList x.actionTerms} {fmtBytesList x.targetTerms} {fmtBytesList x.keywordTerms} {fmtBytesList x.hints} {fmtBytesList x.contexts} {Bytes.toHex x.intent}")
    | none => (d, "bad-op")
  | ["mib", h] =>
    match Bytes.ofHex h with
    | some q =>
      let n : NlpOut Float := Boosts.nlpOut d.ri d.db.toList q
      (d, "ib " ++ fmtFloatList ((List.range d.db.size).map n.intentBoost))
    | none => (d, "bad-op")
  | ["mcb", h] =>
    match Bytes.ofHex h with
    | some q =>
      let n : NlpOut Float := Boosts.nlpOut d.ri d.db.toList q
      (d, "cb " ++ fmtFloatList ((List.range d.db.size).map n.cascade))
    | none => (d, "bad-op")
  | ["bufcap", t, l] =>
    match intOf? t, intOf? l with
    | some t, some l => (d, toString (Legacy.resultsBufferCap Gen.Constants.ResultsBufferMultiplier t l))
    | _, _ => (d, "bad-op")
  | ["normq", h] => match Bytes.ofHex h with
    | some b => (d, "nq " ++ Bytes.toHex (NormQ.normQ d.ri b))
    | none => (d, "bad-op")
  | ["tokens", h] => match Bytes.ofHex h with
    | some b => (d, (Text.tokenize b).foldl (fun acc t => acc ++ " " ++ Bytes.toHex t) "tok")
    | none => (d, "bad-op")
  | ["passes", doc, ap, pls, nc, po] =>
    match natOf? doc, bytesList? pls with
    | some i, some pls =>
      match d.db[i]? with
      | some c => (d, if Filters.passes d.ri d.host { allPlatforms := boolOf ap, platforms := pls, noCross := boolOf nc,
                                                       pipelineOnly := boolOf po } c then "1" else "0")
      | none => (d, "bad-op")
    | _, _ => (d, "bad-op")
  | _ => (d, "bad-op")

def runCase (ops : Array String) : Array String := Id.run do
  let mut d : DS := {}
  let mut out := #[]
  for l in ops do
    let r := step d l
    d := r.1
    out := out.push r.2
  return out

end Driver.Search
