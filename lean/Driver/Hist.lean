import WtfModel.Model.History
import WtfModel.Model.HistoryJson
import WtfModel.Gen.History
import Driver.Util

/-!
  Driver domain `hist` (C16): one SearchHistory over one simulated file.
  Queries / contexts / file contents are hex tokens; timestamps never appear in the output.
  The model clock starts in the year 3000 (later than any timestamp a generated file carries) and
  advances by one unit per `add`.
-/
namespace Driver.Hist
open Wtf Wtf.History

def P : Params :=
  { newDefault := Wtf.Gen.History.newDefault, loadGuard := Wtf.Gen.History.loadGuard,
    loadFallback := Wtf.Gen.History.loadFallback }

def C : Codec Bytes := Json.goCodec

structure DS where
  live : Bool
  h : State
  file : Option Bytes
  clock : Int

def hx (b : Bytes) : String := Bytes.toHex b

def listOut (xs : List String) : String := ",".intercalate xs ++ ";"

def floatTok (x : Float) : String := "f:" ++ String.ofList (Nat.toDigits 16 x.toBits.toNat)

/-- split a list sorted by `key` into runs of equal keys -/
def runs {α β : Type} [BEq β] (key : α → β) : List α → List (List α)
  | [] => []
  | x :: xs =>
    match runs key xs with
    | (y :: ys) :: rest => if key x == key y then (x :: y :: ys) :: rest else [x] :: (y :: ys) :: rest
    | rest => [x] :: rest

/-- canonical rendering of a top-N answer: runs of equal (count, lastUsed) are printed sorted by query;
    a run cut by the limit is replaced by `~` (its members are not determined by the property) -/
def canonTop (full : List QF) (n : Nat) : String :=
  let got := full.take n
  let cut : Bool :=
    match got.getLast?, full.drop n with
    | some a, b :: _ => a.count == b.count && a.lastUsed == b.lastUsed
    | _, _ => false
  let rs := runs (fun (q : QF) => (q.count, q.lastUsed)) got
  let rs' := if cut then rs.dropLast else rs
  let toks := rs'.flatMap (fun r => sortStrings (r.map (fun q => s!"{hx q.query}:{q.count}")))
  listOut (if cut then toks ++ ["~"] else toks)

def loadOut (r : State × Option LoadErr) : String :=
  let cls := match r.2 with
    | none => "ok"
    | some .parse => "parse"
  s!"{cls} {r.1.entries.length} {r.1.maxSize}"

def step (d : DS) (l : String) : DS × String :=
  match words l with
  | ["new", m] =>
    match intOf? m with
    | some m => let h := new P m; ({ d with live := true, h := h }, s!"ok {h.maxSize}")
    | none => (d, "bad-op")
  | cmd :: args =>
    if !d.live then (d, "bad-op") else
    match cmd, args with
    | "add", [q, r, c, du] =>
      match Bytes.ofHex q, intOf? r, Bytes.ofHex c, intOf? du with
      | some q, some r, some c, some du =>
        let now := d.clock + 1
        match add d.h ⟨q, now, r, c, du⟩ with
        | .ok h' => ({ d with h := h', clock := now }, s!"ok {h'.entries.length}")
        | .error (.sliceBounds _ _) => ({ d with clock := now }, "panic:slice-bounds")
      | _, _, _, _ => (d, "bad-op")
    | "save", [] => ({ d with file := some (saveBytes C d.h) }, "ok")
    | "load", [] =>
      let r := load C P d.h d.file
      ({ d with h := r.1 }, loadOut r)
    | "loadraw", [hexs] =>
      match Bytes.ofHex hexs with
      | some data =>
        let r := load C P d.h (some data)
        ({ d with h := r.1, file := some data }, loadOut r)
      | none => (d, "bad-op")
    | "rmfile", [] => ({ d with file := none }, "ok")
    | "clear", [] => ({ d with h := clear d.h, file := some (saveBytes C (clear d.h)) }, "ok")
    | "recent", [n] =>
      match intOf? n with
      | some n => (d, listOut ((recent d.h n).map hx))
      | none => (d, "bad-op")
    | "top", [n] =>
      match intOf? n with
      | some n => (d, canonTop (sortBy qfBefore (freqTable d.h.entries)) (effLimitTop n))
      | none => (d, "bad-op")
    | "stats", [] =>
      let st := stats d.h
      let avgR : Float := if st.total == 0 then 0 else Float.ofInt st.sumResults / Float.ofNat st.total
      let avgD : Float := if st.total == 0 || st.sumDuration ≤ 0 then 0 else Float.ofInt st.sumDuration / Float.ofNat st.total
      (d, s!"{st.total} {st.unique} {floatTok avgR} {floatTok avgD}")
    | "entries", [] =>
      (d, listOut (d.h.entries.map (fun e => s!"{hx e.query}:{e.results}:{hx e.context}:{e.duration}")))
    | "pattern", [p] =>
      match Bytes.ofHex p with
      | some p =>
        -- runs of equal timestamps are printed sorted (the real sort is unstable)
        let rs := runs (fun (e : Entry) => e.ts) (byPattern d.h p)
        (d, listOut (rs.flatMap (fun r => sortStrings (r.map (fun e => s!"{hx e.query}:{e.results}")))))
      | none => (d, "bad-op")
    | "chrono", [] =>
      let ts := d.h.entries.map (·.ts)
      let ok := (ts.zip (ts.drop 1)).all (fun p => decide (p.1 ≤ p.2))
      (d, if ok then "1" else "0")
    | "max", [] => (d, toString d.h.maxSize)
    | _, _ => (d, "bad-op")
  | _ => (d, "bad-op")

def runCase (ops : Array String) : Array String := Id.run do
  let mut d : DS := { live := false, h := new P 0, file := none, clock := Json.yearKey 3000 }
  let mut out := #[]
  for l in ops do
    let r := step d l
    d := r.1
    out := out.push r.2
  return out

end Driver.Hist
