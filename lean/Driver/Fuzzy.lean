import WtfModel.Model.Fuzzy
import Driver.Util

/-!
  Driver domain `fuzzy`: `Fuzzy.matchOne` (the transliteration of sahilm/fuzzy v0.1.1 for one target)
  against the real `fuzzy.Find(pattern, []string{target})`, including scores and matched indexes.  Lines:
    ri <cp> <lower> <foldrep> <flags>              Unicode facts (as in the `search` domain)
    fz1 <pattern hex> <target hex>   ->  none | m <score> <idx,…> | panic
-/
namespace Driver.Fuzzy
open Wtf

def fmtIdx (l : List Nat) : String :=
  if l.isEmpty then "-" else ",".intercalate (l.map toString)

def step (ri : RuneInfo) (l : String) : RuneInfo × String :=
  match words l with
  | ["ri", cp, lo, fr, fl] =>
    match natOf? cp, natOf? lo, natOf? fr, natOf? fl with
    | some cp, some lo, some fr, some fl =>
      let f : RuneFacts := { cp := cp, lower := lo, foldRep := fr, isLower := fl % 2 == 1, isUpper := (fl / 2) % 2 == 1,
                             isSpace := (fl / 4) % 2 == 1, isLetNum := (fl / 8) % 2 == 1 }
      ({ table := f :: ri.table }, "ok")
    | _, _, _, _ => (ri, "bad-op")
  | ["fz1", p, t] =>
    match Bytes.ofHex p, Bytes.ofHex t with
    | some p, some t =>
      -- `Find` returns nothing for an empty pattern before looking at any target
      if p.isEmpty then (ri, "none") else
      match Wtf.Fuzzy.matchOne ri p t with
      | .error _ => (ri, "panic")
      | .ok none => (ri, "none")
      | .ok (some (sc, idx)) => (ri, s!"m {sc} {fmtIdx idx}")
    | _, _ => (ri, "bad-op")
  | _ => (ri, "bad-op")

def runCase (ops : Array String) : Array String := Id.run do
  let mut ri : RuneInfo := {}
  let mut out := #[]
  for l in ops do
    let r := step ri l
    ri := r.1
    out := out.push r.2
  return out

end Driver.Fuzzy
