import WtfModel.Model.Nlp
import Driver.Util

/-!
  Driver domain `nlp`: the model of nlp.ProcessQuery + GetEnhancedKeywords with the regenerated tables.
    ri <cp> <lower> <foldrep> <flags>      Unicode facts for the non-ASCII runes of the case (strings.ToLower)
    pq <hex query>                         → pq <cleaned> <actions> <targets> <keywords> <enhanced> <intent>
-/
namespace Driver.Nlp
open Wtf Wtf.Nlp

def fmtList (l : List Bytes) : String :=
  if l.isEmpty then "-" else ",".intercalate (l.map (fun b => if b.isEmpty then "_" else Bytes.toHex b))

def step (ri : RuneInfo) (l : String) : RuneInfo × String :=
  match words l with
  | ["ri", cp, lo, fr, fl] =>
    match natOf? cp, natOf? lo, natOf? fr, natOf? fl with
    | some cp, some lo, some fr, some fl =>
      let f : RuneFacts := { cp := cp, lower := lo, foldRep := fr, isLower := fl % 2 == 1, isUpper := (fl / 2) % 2 == 1,
                             isSpace := (fl / 4) % 2 == 1, isLetNum := (fl / 8) % 2 == 1 }
      ({ table := f :: ri.table }, "ok")
    | _, _, _, _ => (ri, "bad-op")
  | ["pq", h] =>
    match Bytes.ofHex h with
    | some q =>
      let (a, enh) := analyse ri q
      (ri, s!"pq {Bytes.toHex a.cleaned} {fmtList a.actions} {fmtList a.targets} {fmtList a.keywords} {fmtList enh} {Bytes.toHex a.intent}")
    | none => (ri, "bad-op")
  | _ => (ri, "bad-op")

def runCase (ops : Array String) : Array String := Id.run do
  let mut ri : RuneInfo := {}
  let mut out := #[]
  for l in ops do
    let r := step ri l
    ri := r.1
    out := out.push r.2
  return out

end Driver.Nlp
