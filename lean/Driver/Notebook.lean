import WtfModel.Model.Notebook
import WtfModel.Gen.SaveCmds
import Driver.Util

/-!
  Driver domain `notebook` (C08).

    ent main|nb <cmd> <desc> <kws> <tags> <niche> <plats> <pipe>   -> ok
    nb none|empty|corrupt|list                                     -> ok
    save <rt> <cmd> <desc> <kws> <niche> <plats> <pipe>            -> ok <state> | fail <state>
    savep <rt> <name> <cmd> <kws> <niche> <plats> <descflag>       -> ok <state> | fail <state>      (save-pipeline entry rule)
    load                                                           -> merged <state> | load-error
    find <cmd> <marker>                                            -> idx <n> | absent | load-error
  <state> = missing | corrupt | [] | entry|entry|...   entry = cmd;desc;kws;tags;niche;plats;pipe   list = . | hex,hex,...
-/
namespace Driver.Notebook
open Wtf Wtf.Notebook

def listOf (t : String) : Option (List Bytes) :=
  if t == "." then some [] else (t.splitOn ",").mapM Bytes.ofHex

def showList (xs : List Bytes) : String :=
  if xs.isEmpty then "." else ",".intercalate (xs.map Bytes.toHex)

def showCmd (c : Cmd) : String :=
  ";".intercalate [Bytes.toHex c.command, Bytes.toHex c.description, showList c.keywords, showList c.tags, Bytes.toHex c.niche,
    showList c.platform, if c.pipeline then "1" else "0"]

def showCmds (cs : List Cmd) : String := if cs.isEmpty then "[]" else "|".intercalate (cs.map showCmd)

def showNb : Nb → String
  | .missing => "missing"
  | .corrupt => "corrupt"
  | .list xs => showCmds xs

def bytesOf (s : String) : Bytes := s.toUTF8.toList

def tables : PipelineTables :=
  { base := Wtf.Gen.SaveCmds.pipelineBaseKeywords.map bytesOf,
    rules := Wtf.Gen.SaveCmds.pipelineRules.map (fun r => (r.1.map bytesOf, r.2.map bytesOf)),
    sep := (bytesOf Wtf.Gen.SaveCmds.pipelineStepSeparator).headD 124,
    descMid := bytesOf Wtf.Gen.SaveCmds.descMid,
    descEnd := bytesOf Wtf.Gen.SaveCmds.descEnd }

structure DS where
  main : List Cmd := []
  initial : List Cmd := []
  nb : Nb := .missing

def doSave (d : DS) (rt : String) (e : Cmd) : DS × String :=
  let r := stepNb (rt == "1") d.nb e
  ({ d with nb := r.1 }, (if r.2 then "ok " else "fail ") ++ showNb r.1)

def step (d : DS) (l : String) : DS × String :=
  match words l with
  | ["ent", w, c, ds, k, t, n, p, pl] =>
    match Bytes.ofHex c, Bytes.ofHex ds, listOf k, listOf t, Bytes.ofHex n, listOf p with
    | some c, some ds, some k, some t, some n, some p =>
      let e : Cmd := ⟨c, ds, k, t, n, p, pl == "1"⟩
      if w == "main" then ({ d with main := d.main ++ [e] }, "ok") else ({ d with initial := d.initial ++ [e] }, "ok")
    | _, _, _, _, _, _ => (d, "bad-op")
  | ["nb", k] =>
    match k with
    | "none" => ({ d with nb := .missing }, "ok")
    | "empty" => ({ d with nb := .list [] }, "ok")
    | "corrupt" => ({ d with nb := .corrupt }, "ok")
    | "list" => ({ d with nb := .list d.initial }, "ok")
    | _ => (d, "bad-op")
  | ["save", rt, c, ds, k, n, p, pl] =>
    match Bytes.ofHex c, Bytes.ofHex ds, listOf k, Bytes.ofHex n, listOf p with
    | some c, some ds, some k, some n, some p => doSave d rt (entryOfSave c ds k n p (pl == "1"))
    | _, _, _, _, _ => (d, "bad-op")
  | ["savep", rt, nm, c, k, n, p, df] =>
    match Bytes.ofHex nm, Bytes.ofHex c, listOf k, Bytes.ofHex n, listOf p, Bytes.ofHex df with
    | some nm, some c, some k, some n, some p, some df => doSave d rt (entryOfSavePipeline tables nm c k n p df)
    | _, _, _, _, _, _ => (d, "bad-op")
  | ["load"] =>
    match mergedNb d.main d.nb with
    | some xs => (d, "merged " ++ showCmds xs)
    | none => (d, "load-error")
  | ["find", c, _] =>
    match Bytes.ofHex c, d.nb.entries with
    | some c, some xs =>
      if present c xs then (d, s!"idx {d.main.length + indexOf c xs}") else (d, "absent")
    | some _, none => (d, "load-error")
    | _, _ => (d, "bad-op")
  | _ => (d, "bad-op")

def runCase (ops : Array String) : Array String := Id.run do
  let mut d : DS := {}
  let mut out := #[]
  for l in ops do
    let r := step d l
    d := r.1
    out := out.push r.2
  return out

end Driver.Notebook
