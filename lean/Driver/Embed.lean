import WtfModel.Model.Embedding
import WtfModel.Gen.Embedding
import WtfModel.Gen.Constants
import Driver.Util

/-! Driver domain `embed` (see harness/dom_embed.go for the protocol). Scores are `Float`, the
    components of embedding vectors `Float32` (`EmbedQuery` sums and divides in float32). -/
namespace Driver.Embed
open Wtf Wtf.Embedding

def hexNat (n : Nat) : String := String.ofList (Nat.toDigits 16 n)

def fTok (x : Float) : String := "f:" ++ hexNat x.toBits.toNat

def hexDigitVal (c : Char) : Option Nat := Wtf.Bytes.hexVal c

def parseHexNat (s : String) : Option Nat :=
  s.toList.foldl (fun acc c => match acc, hexDigitVal c with
    | some a, some d => some (a * 16 + d)
    | _, _ => none) (some 0)

def parseFTok (t : String) : Option Float :=
  if t.startsWith "f:" then (parseHexNat (t.drop 2).toString).map (fun n => Float.ofBits (UInt64.ofNat n)) else none

def vecOfTok (t : String) : Option (List F32) := (Wtf.Bytes.ofHex t).map f32sOfBytes

def le32 (v : UInt32) : Bytes :=
  [v.toUInt8, (v >>> 8).toUInt8, (v >>> 16).toUInt8, (v >>> 24).toUInt8]

def toF32 (b : F32) : Float32 := Float32.ofBits b
def widen (x : Float32) : Float := x.toFloat

/-- canonical NaN so that payload propagation rules of the two compilers cannot matter -/
def bitsCanon (x : Float32) : F32 := if x != x then 0x7fc00000 else x.toBits

def vecTok (v : List Float32) : String :=
  Wtf.Bytes.toHex ((v.map (fun x => le32 (bitsCanon x))).flatten)

/-! checksums (FNV-1a 64) -/
def fnvInit : UInt64 := 14695981039346656037
def fnvByte (h : UInt64) (b : UInt8) : UInt64 := (h ^^^ b.toUInt64) * 1099511628211
def fnvBytes (h : UInt64) (bs : Bytes) : UInt64 := bs.foldl fnvByte h
def fnvVec (h : UInt64) (v : List F32) : UInt64 := v.foldl (fun h x => fnvBytes h (le32 x)) h

def bytesLe : Bytes → Bytes → Bool
  | [], _ => true
  | _ :: _, [] => false
  | a :: as, b :: bs => if a < b then true else if b < a then false else bytesLe as bs

def errClass : Err → String
  | .short p i e =>
    let ps := match p with
      | .vocabSize => "vocabSize" | .wordLen => "wordLen" | .word => "word" | .vector => "vector"
      | .numCommands => "numCommands" | .dimension => "dimension" | .embedding => "embedding"
    let es := match e with | .eof => "eof" | .unexpected => "ueof"
    s!"short:{ps}:{i}:{es}"
  | .tooShort n => s!"tooshort:{n}"
  | .dimMismatch w g => s!"dim:{w}:{g}"

def loadWV (file : Bytes) : String :=
  match (parseWordVectors Wtf.Gen.Embedding.wvDimension file).res with
  | .error e => "err " ++ errClass e
  | .ok recs =>
    let keys := (vocab recs).mergeSort bytesLe
    let h := keys.foldl (fun h k =>
      let h := fnvByte (fnvByte h (UInt8.ofNat (k.length % 256))) (UInt8.ofNat (k.length / 256 % 256))
      let h := fnvBytes h k
      fnvVec h ((lookupWord recs k).getD [])) fnvInit
    s!"ok {keys.length} {hexNat h.toNat}"

def loadCE (dim : Nat) (file : Bytes) : String :=
  let r := parseCmdEmbeddings dim file
  match r.err, r.table with
  | some e, none => "err " ++ errClass e ++ " untouched"
  | some e, some t => "err " ++ errClass e ++ s!" partial:{t.length}"
  | none, some t => s!"ok {t.length} {hexNat (t.foldl fnvVec fnvInit).toNat}"
  | none, none => "ok-but-untouched"

structure St where
  hasIdx : Bool := false
  idx : Index Float32 := ⟨0, [], []⟩
  dbSize : Option Nat := none
  attached : Bool := false

def alphaF : Float := EScoreOps.ofQ Wtf.Gen.Constants.SemanticAlpha
def floorF : Float := EScoreOps.ofQ Wtf.Gen.Constants.SemanticMinScore

def parseResults : List String → Option (List (Nat × Float))
  | [] => some []
  | id :: sc :: rest =>
    match natOf? id, parseFTok sc, parseResults rest with
    | some i, some s, some r => some ((i, s) :: r)
    | _, _, _ => none
  | _ => none

def step (st : St) (l : String) : St × String :=
  match words l with
  | ["cos", a, b] =>
    match vecOfTok a, vecOfTok b with
    | some va, some vb =>
      (st, fTok (cosine (va.map (fun x => widen (toF32 x))) (vb.map (fun x => widen (toF32 x)))))
    | _, _ => (st, "bad-op")
  | ["loadwv", f] =>
    match Wtf.Bytes.ofHex f with
    | some file => (st, loadWV file)
    | none => (st, "bad-op")
  | ["loadce", d, f] =>
    match natOf? d, Wtf.Bytes.ofHex f with
    | some dim, some file => (st, loadCE dim file)
    | _, _ => (st, "bad-op")
  | ["loademb", g, c] =>
    let file? (t : String) : Option (Option Bytes) := if t == "none" then some none else (Wtf.Bytes.ofHex t).map some
    match file? g, file? c with
    | some gf, some cf =>
      match loadEmbeddings Wtf.Gen.Embedding.wvDimension gf cf with
      | none => (st, "has=0 words=-1 cmds=-1")
      | some idx => (st, s!"has=1 words={(vocab idx.words).length} cmds={idx.cmds.length}")
    | _, _ => (st, "bad-op")
  | ["idx", d] =>
    match natOf? d with
    | some dim => ({ hasIdx := true, idx := ⟨dim, [], []⟩ }, "ok")
    | none => (st, "bad-op")
  | ["word", w, v] =>
    match st.hasIdx, Wtf.Bytes.ofHex w, vecOfTok v with
    | true, some wb, some vb =>
      ({ st with idx := { st.idx with words := st.idx.words ++ [(wb, vb.map toF32)] } }, "ok")
    | _, _, _ => (st, "bad-op")
  | ["cmdemb", v] =>
    if !st.hasIdx then (st, "bad-op")
    else if v == "nil" then ({ st with idx := { st.idx with cmds := st.idx.cmds ++ [[]] } }, "ok")
    else match vecOfTok v with
      | some vb => ({ st with idx := { st.idx with cmds := st.idx.cmds ++ [vb.map toF32] } }, "ok")
      | none => (st, "bad-op")
  | "reloadce" :: vs =>
    -- LoadCommandEmbeddings of a well-formed file into the same index: the command embeddings are replaced
    if !st.hasIdx || vs.isEmpty then (st, "bad-op")
    else match vs.mapM vecOfTok with
      | some vecs => ({ st with idx := { st.idx with cmds := vecs.map (·.map toF32) } }, "ok")
      | none => (st, "bad-op")
  | ["db", n, _built] =>
    match natOf? n with
    | some k => ({ st with dbSize := some k, attached := false }, "ok")
    | none => (st, "bad-op")
  | ["attach", a] =>
    match st.dbSize with
    | some _ => ({ st with attached := a == "1" && st.hasIdx }, "ok")
    | none => (st, "bad-op")
  | ["embedq", q] =>
    match st.hasIdx, Wtf.Bytes.ofHex q with
    | true, some qb =>
      if !isAscii qb then (st, "nonascii")
      else match embedTokens st.idx.dim (lookupWord st.idx.words) (tokenizeAscii qb) with
        | .error _ => (st, "panic:index")
        | .ok none => (st, "nil")
        | .ok (some v) => (st, if v.isEmpty then "empty" else vecTok v)
    | _, _ => (st, "bad-op")
  | "sem" :: q :: rest =>
    match st.dbSize, Wtf.Bytes.ofHex q, parseResults rest with
    | some n, some qb, some rs =>
      if !isAscii qb then (st, "nonascii")
      else
        let emb := if st.attached then some st.idx else none
        match postSemantic alphaF floorF widen emb n (tokenizeAscii qb) rs with
        | .error _ => (st, "panic:index")
        | .ok out =>
          if out.isEmpty then (st, "-")
          else (st, " ".intercalate (out.map (fun r => s!"{r.1} {fTok r.2}")))
    | _, _, _ => (st, "bad-op")
  | ["search", _q, _nlp] =>
    match st.dbSize with
    | some _ => (st, "ok")
    | none => (st, "bad-op")
  | _ => (st, "bad-op")

def runCase (ops : Array String) : Array String := Id.run do
  let mut st : St := {}
  let mut out := #[]
  for l in ops do
    let r := step st l
    st := r.1
    out := out.push r.2
  return out

end Driver.Embed
