import WtfModel.Model.GoSort
import WtfModel.Model.Fuzzy
import Driver.Util

/-!
  Driver domain `gosort` (harness/dom_gosort.go): `GoSort.fuzzyStable` — the transliteration of Go's `sort.Stable`
  run with the fuzzy library's `Less` — against the real `sort.Stable` on a `fuzzy.Matches` value.  Lines:
    sort <s0,s1,..|->                     ->  ord <i0,i1,..|->        (indexes of the matches in sorted order)
    find <pattern hex> <t0,t1,..|->       ->  ms <idx=score,..|-> | panic
       (`fuzzy.Find`: the modelled matcher `Fuzzy.findNoSort`, then `fuzzyStable`; ASCII targets, empty rune table)
-/
namespace Driver.GoSort
open Wtf

def fmtNats (l : List Nat) : String :=
  if l.isEmpty then "-" else ",".intercalate (l.map toString)

def intList? (s : String) : Option (List Int) :=
  if s == "-" then some [] else (s.splitOn ",").mapM intOf?

def step (l : String) : String :=
  match words l with
  | ["sort", v] =>
    match intList? v with
    | some ss =>
      let ms : List (Nat × Int) := (List.range ss.length).zip ss
      "ord " ++ fmtNats ((Wtf.GoSort.fuzzyStable ms).map (·.1))
    | none => "bad-op"
  | ["find", p, ts] =>
    match Bytes.ofHex p, bytesList? ts with
    | some p, some ts =>
      match Wtf.Fuzzy.findNoSort {} p ts with
      | .error _ => "panic"
      | .ok ms =>
        let r := Wtf.GoSort.fuzzyStable ms
        if r.isEmpty then "ms -" else "ms " ++ ",".intercalate (r.map (fun (i, s) => s!"{i}={s}"))
    | _, _ => "bad-op"
  | _ => "bad-op"

def runCase (ops : Array String) : Array String := ops.map step

end Driver.GoSort
