import WtfModel.Model.Retry
import WtfModel.Basic.Bytes
import Driver.Util

/-! Driver domain `retry` (C15): executes Model/Retry.lean on the op lines of harness/dom_retry.go.
    The delay model is executed over exact rationals (the same definition the theorems are about);
    the float64 factor is converted exactly from its IEEE bits. -/
namespace Driver.Retry
open Wtf Wtf.Retry

def hexNat? (s : String) : Option Nat :=
  s.toList.foldl (fun acc c => match acc, Bytes.hexVal c with
    | some a, some v => some (a * 16 + v)
    | _, _ => none) (if s.isEmpty then none else some 0)

/-- exact value of a float64 given by its bits -/
def factorOfBits (b : Nat) : RawFactor :=
  let neg : Bool := b / 2 ^ 63 % 2 == 1
  let e : Nat := b / 2 ^ 52 % 2048
  let m : Nat := b % 2 ^ 52
  if e == 2047 then (if m != 0 then .nan else if neg then .negInf else .posInf) else
  let mag : Rat :=
    if e == 0 then (m : Rat) * (2 : Rat) ^ (-1074 : Int)
    else (((2 ^ 52 + m : Nat) : Int) : Rat) * (2 : Rat) ^ ((e : Int) - 1075)
  .fin (if neg then -mag else mag)

structure Spec where
  kind : FileState        -- state (for flaky files: during the first `flaky` attempts)
  k : Nat
  flaky : Option Nat
deriving Repr

def names (pfx : String) (k : Nat) : List Cmd := (List.range k).map (fun i => s!"{pfx}{i + 1}")

def basicKind? : String → Option FileState
  | "missing" => some .missing
  | "denied" => some .denied
  | "dir" => some .directory
  | "bad" => some .malformed
  | "mistyped" => some .malformed
  | "loop" => some .other
  -- other spellings of the same states (harness/dom_retry.go): the empty path and a path through a missing directory are
  -- missing files; a file named with a trailing slash is ENOTDIR
  | "unset" => some .missing
  | "dotdot" => some .missing
  | "slash" => some .other
  | _ => none

def parseSpec (pfx s : String) : Option Spec :=
  match s.splitOn ":" with
  | [k] => (basicKind? k).map (fun f => { kind := f, k := 0, flaky := none })
  | ["good", k] => k.toNat?.map (fun n => { kind := .good (names pfx n), k := n, flaky := none })
  | ["flaky", j, kind, k] =>
    match j.toNat?, basicKind? kind, k.toNat? with
    | some j, some f, some k => some { kind := f, k := k, flaky := some j }
    | _, _, _ => none
  | _ => none

def Spec.at (pfx : String) (s : Spec) (attempt : Nat) : FileState :=
  match s.flaky with
  | none => s.kind
  | some j => if attempt ≤ j then s.kind else .good (names pfx s.k)

def hexOfNames (ns : List Cmd) : String := Bytes.toHex (Bytes.ofString (",".intercalate ns))

def b01 (b : Bool) : String := if b then "1" else "0"

def clsName : Class → String
  | .real => "real" | .embedded => "embedded" | .backup => "backup" | .minimal => "minimal"
  | .nildb => "nildb" | .failed => "failed"

def errTypeName : Option Err → String
  | none => "nil"
  | some (.app t _) => t
  | some _ => "other"

/-- text of the innermost error -/
def rootMessage : Err → String
  | .os c => c.message
  | .app _ .nil => "?"
  | .app _ c => rootMessage c
  | .dbError c => rootMessage c
  | .plain => "backup database not found at P"
  | .nil => "?"

/-- os:<..> | app:<type>:<chain> | db:<chain> | plain | nil ; returns the rest of the tokens -/
def parseErr : Nat → List String → Option (Err × List String)
  | 0, _ => none
  | _ + 1, "nil" :: r => some (.nil, r)
  | _ + 1, "plain" :: r => some (.plain, r)
  | _ + 1, "os" :: "ne" :: r => some (.os .notExist, r)
  | _ + 1, "os" :: "perm" :: r => some (.os .permission, r)
  | _ + 1, "os" :: "isdir" :: r => some (.os .isDirectory, r)
  | _ + 1, "os" :: "loop" :: r => some (.os .other, r)
  | _ + 1, "os" :: "parse" :: r => some (.os .parse, r)
  | _ + 1, "os" :: "text" :: h :: r =>
    match Bytes.ofHex h with
    | some b => some (.os (.text (String.fromUTF8! ⟨b.toArray⟩)), r)
    | none => none
  | fuel + 1, "app" :: t :: r => (parseErr fuel r).map (fun (e, r') => (.app t e, r'))
  | fuel + 1, "db" :: r => (parseErr fuel r).map (fun (e, r') => (.dbError e, r'))
  | _, _ => none

def step (cfg : Cfg) (l : String) : Cfg × String :=
  -- the delays NewDatabaseRecovery(raw).calculateDelay(1..6) returns
  let showCfg (c : Cfg) : String :=
    "cfg" ++ String.join ((List.range 6).map (fun i => s!" d:{delayNs c (i + 1)}"))
  match words l with
  | ["cfg", "default"] => (defaultCfg, showCfg defaultCfg)
  | ["cfg", a, b, m, f] =>
    match intOf? a, intOf? b, intOf? m, (if f.startsWith "f:" then hexNat? (f.drop 2).toString else none) with
    | some a, some b, some m, some bits =>
      let c := sanitize { maxAttempts := a, base := b, max := m, factor := factorOfBits bits }
      (c, showCfg c)
    | _, _, _, _ => (cfg, "bad-op")
  | ["load", ms, ps, bs] =>
    match parseSpec "m" ms, parseSpec "p" ps, parseSpec "b" bs with
    | some m, some p, some b =>
      if b.flaky.isSome then (cfg, "bad-op") else
      let r := loadWithFallback cfg (dynamic (m.at "m") (p.at "p")) b.kind
      let ns := r.db.getD []
      (cfg, s!"{clsName r.cls} n={ns.length} cmds={hexOfNames ns} attempts={r.attempts} err={errTypeName r.err} warn={b01 r.warned}")
    | _, _, _ => (cfg, "bad-op")
  | ["lwp", ms, ps] =>
    match parseSpec "m" ms, parseSpec "p" ps with
    | some m, some p =>
      if m.flaky.isSome || p.flaky.isSome then (cfg, "bad-op") else
      match loadWithPersonal m.kind p.kind with
      | .ok ns => (cfg, s!"ok n={ns.length} cmds={hexOfNames ns}")
      | .error e =>
        (cfg, s!"err type={errTypeName (some e)} cause={Bytes.toHex (Bytes.ofString (rootMessage e))} osne={b01 (osIs "notExist" e)} isne={b01 (errorsIs "notExist" e)} isperm={b01 (errorsIs "permission" e)} retry={b01 (shouldRetry e)}")
    | _, _ => (cfg, "bad-op")
  | ["sr", spec] =>
    match parseErr 64 (spec.splitOn ":") with
    | some (e, []) =>
      if e == .nil then (cfg, "bad-op") else
      (cfg, s!"retry={b01 (shouldRetry e)} osne={b01 (osIs "notExist" e)} osperm={b01 (osIs "permission" e)} isne={b01 (errorsIs "notExist" e)} isperm={b01 (errorsIs "permission" e)}")
    | _ => (cfg, "bad-op")
  | ["cls", "nil"] =>
    match classifyLoadError none with
    | .app t c => (cfg, s!"type={t} cause={b01 (c != .nil)}")
    | _ => (cfg, "not-an-AppError")
  | ["cls", h] =>
    match Bytes.ofHex h with
    | some b =>
      match classifyLoadError (some (.text (String.fromUTF8! ⟨b.toArray⟩))) with
      | .app t c => (cfg, s!"type={t} cause={b01 (c != .nil)}")
      | _ => (cfg, "not-an-AppError")
    | none => (cfg, "bad-op")
  | _ => (cfg, "bad-op")

def runCase (ops : Array String) : Array String := Id.run do
  let mut cfg : Cfg := { maxAttempts := 1, base := 0, max := 0, factor := .fin 1 }
  let mut out := #[]
  for l in ops do
    let r := step cfg l
    cfg := r.1
    out := out.push r.2
  return out

end Driver.Retry
