import WtfModel.Model.Cli
import WtfModel.Model.JsonText
import Driver.Util

/-!
  Driver domain `cli` (C17): `Wtf.Cli.cliSearch` on what the real `wtf` binary was given.

  Op lines of one case (all text as hex tokens, `-` = empty):
      doc <id> <command> <description> <niche> <keywords> <platforms> <j-command> <j-description> <j-niche> <j-keywords> <j-platforms>
            the text of one database entry and encoding/json's rendering of each string.  The renderings are NOT inputs
            of the model any more: strings are rendered by `Wtf.JsonText.jsonStrModel` (Model/KeyJson.lean's encoder, the
            one `Wtf.C17.json_wellformed` is about); each real rendering is compared with the model's
                                                                                   -> ok | oracle-differs-from-model jsonStr …
      hist <max_size> <q1:n1,q2:n2,...>  the history as loaded (query:results_count, oldest first)       -> ok
      search <limit> <verbose> <format> <no-color flag> <NO_COLOR set> <validated query | !> <load ok> <context description>
             <engine answer: id:bits:f1:json,...> <recovery answer: ! | id:bits:f1:json:pass,...>
            -> <stage> <printed ids> <format> <uses escapes> <history queries:counts after> <result block>
  `f1` / `json` are strconv's `%.1f` and encoding/json's renderings of the score (oracle values; the float formatter is not
  modelled).  For a printed JSON block the driver also checks what the theorem assumes and concludes: every score token it
  wrote is a number token (`isNumTok`, hypothesis `NumOK`), and the block parses, with `Wtf.JsonText.parseText`, to
  `expectedJson` of the items; otherwise the answer is `numok-violated …` / `model-block-not-json …`.
  Stages are reported as the outside world can see them: `rejected` (nothing printed, history untouched),
  `nothing` (no result block, history updated), `printed`.
-/
namespace Driver.Cli
open Wtf Wtf.Cli

structure DS where
  docs : List (Nat × Doc) := []
  hist : History.State := { entries := [], maxSize := Wtf.Gen.Cli.historyMax }

def hx (b : Bytes) : String := Bytes.toHex b

structure Hit where
  id : Nat
  score : Float
  f1 : Bytes
  js : Bytes
  pass : Bool

def parseHit (s : String) : Option Hit :=
  match s.splitOn ":" with
  | [i, b, f, j] =>
    match natOf? i, floatOf? ("f:" ++ b), Bytes.ofHex f, Bytes.ofHex j with
    | some i, some x, some f, some j => some ⟨i, x, f, j, true⟩
    | _, _, _, _ => none
  | [i, b, f, j, p] =>
    match natOf? i, floatOf? ("f:" ++ b), Bytes.ofHex f, Bytes.ofHex j with
    | some i, some x, some f, some j => some ⟨i, x, f, j, boolOf p⟩
    | _, _, _, _ => none
  | _ => none

def parseHits (s : String) : Option (List Hit) :=
  if s == "-" then some [] else (s.splitOn ",").mapM parseHit

def lookupBy {α β : Type} [BEq α] (k : α) : List (α × β) → Option β
  | [] => none
  | (a, b) :: rest => if a == k then some b else lookupBy k rest

def fmtOf (hits : List Hit) : Fmt Float :=
  { fmtFloat := fun p s =>
      if p == 1 then (match hits.find? (fun h => h.score.toBits == s.toBits) with | some h => h.f1 | none => bs "?f1?") else bs "?prec?",
    jsonStr := JsonText.jsonStrModel,
    jsonNum := fun s => match hits.find? (fun h => h.score.toBits == s.toBits) with | some h => h.js | none => bs "?num?" }

def stageTok : Stage → String
  | .queryRejected | .limitRejected | .loadFailed => "rejected"
  | .nothingFound => "nothing"
  | .printed => "printed"

def fmtTok : Format → String
  | .list => "list" | .table => "table" | .json => "json"

def listTok (xs : List String) : String := if xs.isEmpty then "-" else ",".intercalate xs

def step (d : DS) (l : String) : DS × String :=
  match words l with
  | ["doc", i, c, de, n, ks, ps, jc, jd, jn, jks, jps] =>
    match natOf? i, Bytes.ofHex c, Bytes.ofHex de, Bytes.ofHex n, bytesList? ks, bytesList? ps with
    | some i, some c, some de, some n, some ks, some ps =>
      match Bytes.ofHex jc, Bytes.ofHex jd, Bytes.ofHex jn, bytesList? jks, bytesList? jps with
      | some jc, some jd, some jn, some jks, some jps =>
        let doc : Doc := { command := c, description := de, niche := n, keywords := ks, platform := ps }
        let pairs := (c, jc) :: (de, jd) :: (n, jn) :: (ks.zip jks ++ ps.zip jps)
        let verdict :=
          if ks.length != jks.length || ps.length != jps.length then "oracle-differs-from-model jsonStr list-lengths"
          else match pairs.find? (fun p => JsonText.jsonStrModel p.1 != p.2) with
            | none => "ok"
            | some p => s!"oracle-differs-from-model jsonStr text={hx p.1} model={hx (JsonText.jsonStrModel p.1)} oracle={hx p.2}"
        ({ d with docs := (i, doc) :: d.docs }, verdict)
      | _, _, _, _, _ => (d, "bad-op")
    | _, _, _, _, _, _ => (d, "bad-op")
  | ["hist", m, qs] =>
    let ents : Option (List History.Entry) :=
      if qs == "-" then some [] else
      (qs.splitOn ",").mapM (fun t =>
        match t.splitOn ":" with
        | [q, n] => match Bytes.ofHex q, intOf? n with
          | some q, some n => some (⟨q, 0, n, [], 0⟩ : History.Entry)
          | _, _ => none
        | _ => none)
    match intOf? m, ents with
    | some m, some es => ({ d with hist := { entries := es, maxSize := m } }, "ok")
    | _, _ => (d, "bad-op")
  | ["search", lim, v, f, nc, envnc, vq, ld, ctx, eng, rcv] =>
    match intOf? lim, Bytes.ofHex f, Bytes.ofHex ctx, parseHits eng with
    | some lim, some f, some ctx, some eng =>
      let rec? : Option (Option (List Hit)) := if rcv == "!" then some none else (parseHits rcv).map some
      let vq? : Option (Except Unit Bytes) := if vq == "!" then some (.error ()) else (Bytes.ofHex vq).map .ok
      match rec?, vq? with
      | some rcvHits, some vquery =>
        let allHits := eng ++ (rcvHits.getD [])
        let fl : Flags := { limit := lim, verbose := boolOf v, format := f, noColor := boolOf nc }
        let w : World Float :=
          { vquery := vquery, loadOk := boolOf ld,
            engine := fun _ => eng.map (fun h => (h.id, h.score)),
            recovery := rcvHits.map (fun hs => hs.map (fun h => (h.id, h.score))),
            gate := fun _ i => match allHits.find? (fun h => h.id == i) with | some h => h.pass | none => false,
            ctxDesc := ctx, hist := d.hist, now := 1,
            docs := fun i => (lookupBy i d.docs).getD {},
            envNoColor := boolOf envnc, F := fmtOf allHits }
        let o := cliSearch fl w
        let entTok := fun (e : History.Entry) => s!"{hx e.query}:{e.results}"
        let histTok := match o.histAfter with
          | some (.ok h) => listTok (h.entries.map entTok)
          | some (.error _) => "panic"
          | none => listTok (d.hist.entries.map entTok)
        -- what `json_wellformed` assumes of the number formatter and concludes of the block, on this run
        let isJson := o.stage == .printed && o.format == .json
        let badNum := if isJson && fl.verbose then
            (o.results.filter (fun r => !isZeroScore r.2)).find? (fun r => !JsonText.isNumTok (w.F.jsonNum r.2))
          else none
        let parsesBack := !isJson ||
          (match JsonText.parseText o.block with
           | some v => JsonText.JVal.beq v (JsonText.expectedJson w.F o.jsonItems)
           | none => false)
        match badNum with
        | some r => (d, s!"numok-violated {hx (w.F.jsonNum r.2)}")
        | none =>
        if !parsesBack then (d, s!"model-block-not-json {hx o.block}") else
        (d, s!"{stageTok o.stage} {listTok (o.results.map (fun r => toString r.1))} {fmtTok o.format} {if o.usesEscapes then 1 else 0} {histTok} {hx o.block}")
      | _, _ => (d, "bad-op")
    | _, _, _, _ => (d, "bad-op")
  | _ => (d, "bad-op")

def runCase (ops : Array String) : Array String := Id.run do
  let mut d : DS := {}
  let mut out := #[]
  for l in ops do
    let r := step d l
    d := r.1
    out := out.push r.2
  return out

end Driver.Cli
