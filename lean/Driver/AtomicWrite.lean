import WtfModel.Model.AtomicWrite
import WtfModel.Gen.AtomicWrite
import Driver.Util

/-!
  Driver domain `atomicwrite` (C09).  Paths are natural numbers.

    file <p> <hex|none>            set / remove a file of the initial file system          -> ok
    op <kind> <args..>             append a call to the observed sequence                  -> ok
         createTemp p | openTrunc p | write p <hex> | chmod p | fsync p | close p | rename a b | unlink p
    analyze <target> <new hex>     every crash state of the observed sequence (kill before/after any call,
                                   inside any write at any byte): is the target always old or new?
                                   -> safe states=<n> final=<old|new|other>
                                   -> unsafe states=<n> bad=<m> first=<call index>:<bytes written> content=<hex|none> final=..
    kinds                          the observed sequence as kinds                           -> kinds: createTemp write ...
    genshape                       the regenerated shape of utils.WriteFileAtomic          -> kinds: createTemp write ...
    matches <tmp> <target> <new>   observed sequence = instantiate Gen shape?               -> 1 | 0
    reset                          forget files and calls                                   -> ok
    plan <old hex|none> <new hex> <i> <k>
                                   run the regenerated program with call i failing after k bytes (i = -1: no fault)
                                   -> <success|error|killed> <target hex|none> temp=<hex|none>
    hsave <n> <limit>              history.Save with the write failing after <limit> bytes (-1: no fault)
                                   -> <success new|error old> temp=none
-/
namespace Driver.AtomicWrite
open Wtf Wtf.AtomicWrite

structure DS where
  fs : Fs Nat := []
  ops : List (SysOp Nat) := []

def hexOpt (s : String) : Option (Option Bytes) :=
  if s == "none" then some none else (Bytes.ofHex s).map some

def showOpt : Option Bytes → String
  | none => "none"
  | some b => Bytes.toHex b

def kindOf : SysOp Nat → String
  | .createTemp _ => "createTemp" | .openTrunc _ => "openTrunc" | .write _ _ => "write" | .chmod _ => "chmod"
  | .fsync _ => "fsync" | .close _ => "close" | .rename _ _ => "rename" | .unlink _ => "unlink"

def parseOp : List String → Option (SysOp Nat)
  | ["createTemp", p] => p.toNat?.map .createTemp
  | ["openTrunc", p] => p.toNat?.map .openTrunc
  | ["write", p, h] => do let q ← p.toNat?; let b ← Bytes.ofHex h; pure (.write q b)
  | ["chmod", p] => p.toNat?.map .chmod
  | ["fsync", p] => p.toNat?.map .fsync
  | ["close", p] => p.toNat?.map .close
  | ["rename", a, b] => do let x ← a.toNat?; let y ← b.toNat?; pure (.rename x y)
  | ["unlink", p] => p.toNat?.map .unlink
  | _ => none

def classify (old : Option Bytes) (new : Bytes) (c : Option Bytes) : String :=
  if c == some new then "new" else if c == old then "old" else "other"

def analyze (d : DS) (target : Nat) (new : Bytes) : String :=
  let old := read d.fs target
  let pts := crashPoints d.fs 0 d.ops
  let bad := pts.filter (fun pt => let c := read pt.2.2 target; !(c == old || c == some new))
  let final := classify old new (read (runAll d.fs d.ops) target)
  match bad with
  | [] => s!"safe states={pts.length} final={final}"
  | (i, k, f) :: _ => s!"unsafe states={pts.length} bad={bad.length} first={i}:{k} content={showOpt (read f target)} final={final}"

def outName : Outcome → String
  | .success => "success" | .reportedError => "error" | .killed => "killed"

def step (d : DS) (l : String) : DS × String :=
  match words l with
  | ["reset"] => ({}, "ok")
  | ["file", p, h] =>
    match p.toNat?, hexOpt h with
    | some q, some (some b) => ({ d with fs := put d.fs q b }, "ok")
    | some q, some none => ({ d with fs := remove d.fs q }, "ok")
    | _, _ => (d, "bad-op")
  | "op" :: rest =>
    match parseOp rest with
    | some o => ({ d with ops := d.ops ++ [o] }, "ok")
    | none => (d, "bad-op")
  | ["analyze", t, h] =>
    match t.toNat?, Bytes.ofHex h with
    | some q, some new => (d, analyze d q new)
    | _, _ => (d, "bad-op")
  | ["kinds"] => (d, "kinds: " ++ " ".intercalate (d.ops.map kindOf))
  | ["genshape"] => (d, "kinds: " ++ " ".intercalate (Wtf.Gen.AtomicWrite.writeFileAtomic.map (·.kind.name)))
  | ["matches", t, p, h] =>
    match t.toNat?, p.toNat?, Bytes.ofHex h with
    | some t, some p, some new =>
      (d, if d.ops == (instantiate Wtf.Gen.AtomicWrite.writeFileAtomic t p new).map (·.op) then "1" else "0")
    | _, _, _ => (d, "bad-op")
  | ["plan", o, n, i, k] | ["plan", o, n, i, k, _] =>
    match hexOpt o, Bytes.ofHex n, i.toInt?, k.toNat? with
    | some old, some new, some i, some k =>
      let fs : Fs Nat := match old with | some b => [(0, b)] | none => []
      let prog := instantiate Wtf.Gen.AtomicWrite.writeFileAtomic 1 0 new
      let r := runPlan fs false prog (if i < 0 then none else some (i.toNat, k))
      (d, s!"{outName r.out} {showOpt (read r.fs 0)} temp={showOpt (read r.fs 1)}")
    | _, _, _, _ => (d, "bad-op")
  | ["hsave", _, lim] | ["hsave", _, lim, _] =>
    match lim.toInt? with
    | some l =>
      -- the history writer is WriteFileAtomic on a non-empty JSON document: a limit below its size fails the write
      let prog := instantiate Wtf.Gen.AtomicWrite.writeFileAtomic 1 0 [110, 101, 119]
      let fs : Fs Nat := [(0, [111, 108, 100])]
      let r := runPlan fs false prog (if l < 0 then none else some (1, 0))
      let c := classify (some [111, 108, 100]) [110, 101, 119] (read r.fs 0)
      (d, s!"{outName r.out} {c} temp={showOpt (read r.fs 1)}")
    | none => (d, "bad-op")
  | _ => (d, "bad-op")

def runCase (ops : Array String) : Array String := Id.run do
  let mut d : DS := {}
  let mut out := #[]
  for l in ops do
    let r := step d l
    d := r.1
    out := out.push r.2
  return out

end Driver.AtomicWrite
