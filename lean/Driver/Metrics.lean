import WtfModel.Model.Metrics
import WtfModel.Gen.Metrics
import Driver.Util

/-!
  Driver domain `metrics` (C18): one fresh `Collector`, one fresh `PerformanceMonitor` and a table of
  stand-alone custom-bucket histograms per case.  Numbers are `Float` here (`Rat` in the proofs).
  See harness/dom_metrics.go for the op grammar; every op answers exactly one line.
-/
namespace Driver.Metrics
open Wtf Wtf.Metrics

/-- Go's `int64(x)` for a float64 on amd64: truncation toward zero; NaN and out-of-range values give
    the "integer indefinite" value -2^63. -/
def goInt64 (x : Float) : Int :=
  if x.isNaN || x >= 9223372036854775808.0 || x < -9223372036854775808.0 then -(2 ^ 63 : Int)
  else x.toInt64.toInt

instance : Num Float where
  zero := 0.0
  add := (· + ·)
  le := fun a b => decide (a ≤ b)
  target := fun n p => goInt64 (Float.ofNat n * p / 100.0)

def cfg : Cfg Float :=
  { sorts := Wtf.Gen.Metrics.keyLoopSortsTags
    sp := ⟨asc Wtf.Gen.Metrics.tagSep, asc Wtf.Gen.Metrics.kvSep⟩
    defaultBuckets := Wtf.Gen.Metrics.defaultBuckets.map Q.toFloat }

/-! ### tokens -/

def hexNat? (cs : List Char) : Option Nat :=
  if cs.isEmpty then none else
  cs.foldl (fun acc c => match acc, Bytes.hexVal c with
    | some n, some d => some (n * 16 + d)
    | _, _ => none) (some 0)

def floatOf? (t : String) : Option Float :=
  match t.toList with
  | 'f' :: ':' :: rest => (hexNat? rest).map (fun n => Float.ofBits n.toUInt64)
  | _ => none

def fTok (x : Float) : String := "f:" ++ String.ofList (Nat.toDigits 16 x.toBits.toNat)

def optF : Option Float → String
  | some x => fTok x
  | none => "panic"

/-- `<name> <ntags> (<k> <v>)*` → identity and the remaining tokens -/
def takeIdent : List String → Option (Bytes × Tags × List String)
  | name :: nt :: rest =>
    match Bytes.ofHex name, nt.toNat? with
    | some n, some k =>
      let rec go : Nat → List String → Tags → Option (Tags × List String)
        | 0, ts, acc => some (acc.reverse, ts)
        | i + 1, a :: b :: ts, acc =>
          match Bytes.ofHex a, Bytes.ofHex b with
          | some x, some y => go i ts ((x, y) :: acc)
          | _, _ => none
        | _, _, _ => none
      (go k rest []).map (fun r => (n, r.1, r.2))
    | _, _ => none
  | _ => none

/-! ### state -/

structure DS where
  c : Collector Float
  m : Monitor Float
  xs : List (Nat × Hist Float)
  m2 : Monitor Float        -- the monitor inside database.MonitoredDatabase

def DS.init : DS := { c := Collector.empty, m := Monitor.new, xs := [], m2 := Monitor.new }

def keyOf (name : Bytes) (tags : Tags) : Bytes := metricKey cfg.sorts cfg.sp name tags (tagNames tags)

def freshHist : Hist Float := Hist.new cfg.defaultBuckets

def histOf (c : Collector Float) (key : Bytes) : Hist Float := (valueOf? c.hists key).getD freshHist

/-! ### canonical dump (mirrors GetAllMetrics + the timers hook) -/

def tagsSorted (t : Tags) : Tags := sortBy (fun a b => bytesLe a.1 b.1) t

def identStr (name : Bytes) (tags : Tags) : String :=
  let ts := tagsSorted tags
  Bytes.toHex name ++ " " ++ toString ts.length ++
    String.join (ts.map (fun kv => " " ++ Bytes.toHex kv.1 ++ " " ++ Bytes.toHex kv.2))

def mean (h : Hist Float) : Float := if h.count = 0 then 0.0 else h.sum / Float.ofNat h.count

def histEntries (s : Series (Hist Float)) : List String :=
  let h := s.val
  let mk (suffix : String) (v : String) := "H " ++ identStr (s.name ++ asc suffix) s.tags ++ " " ++ v
  [mk "_count" (fTok (Float.ofNat h.count)), mk "_sum" (fTok h.sum), mk "_mean" (fTok (mean h))] ++
  [(50.0, "_p50"), (90.0, "_p90"), (95.0, "_p95"), (99.0, "_p99")].map (fun ps => mk ps.2 (optF (h.percentile ps.1)))

def dumpCollector (c : Collector Float) (withTimers : Bool) : String :=
  let cs := c.counters.map (fun s => "C " ++ identStr s.name s.tags ++ " " ++ fTok (Float.ofInt s.val))
  let gs := c.gauges.map (fun s => "G " ++ identStr s.name s.tags ++ " " ++ fTok (Float.ofInt s.val / 1000.0))
  let hs := (c.hists.map histEntries).flatten
  let ts := if withTimers then
      c.timers.map (fun s => "T " ++ identStr s.name s.tags ++ " " ++ toString s.val.count ++ " " ++ fTok s.val.sum)
    else []
  let all := Driver.sortStrings (cs ++ gs ++ hs ++ ts)
  toString all.length ++ String.join (all.map (fun e => " ; " ++ e))

/-- percentiles reported by the `grid` ops -/
def gridPs : List Float := [0.0, 25.0, 50.0, 75.0, 90.0, 95.0, 99.0, 100.0]

def gridLine (h : Hist Float) : String :=
  " ".intercalate (gridPs.map (fun p => optF (h.percentile p)))

/-! ### ops -/

def counterOpOf? : List String → Option (Option CounterOp)   -- inner none = `value`
  | ["inc"] => some (some .inc)
  | ["add", n] => n.toInt?.map (fun v => some (.add v))
  | ["reset"] => some (some .reset)
  | ["value"] => some none
  | _ => none

def findX (xs : List (Nat × Hist Float)) (id : Nat) : Option (Hist Float) :=
  (xs.find? (·.1 == id)).map (·.2)

def setX (xs : List (Nat × Hist Float)) (id : Nat) (h : Hist Float) : List (Nat × Hist Float) :=
  (id, h) :: xs.filter (·.1 != id)

def step (d : DS) (l : String) : DS × String :=
  match words l with
  | "ctr" :: rest =>
    match takeIdent rest with
    | some (name, tags, opToks) =>
      match counterOpOf? opToks with
      | some op =>
        let key := keyOf name tags
        let f : Int → Int := match op with | some o => (counterStep · o) | none => id
        let r := touch d.c.counters key name tags 0 f
        ({ d with c := { d.c with counters := r } }, s!"{(valueOf? r key).getD 0} {r.length}")
      | none => (d, "bad-op")
    | none => (d, "bad-op")
  | "lookup" :: kind :: _k :: rest =>
    match takeIdent rest with
    | some (name, tags, []) =>
      let key := keyOf name tags
      match kind with
      | "counter" => let r := touch d.c.counters key name tags 0 id
                     ({ d with c := { d.c with counters := r } }, s!"1 {r.length}")
      | "gauge" => let r := touch d.c.gauges key name tags 0 id
                   ({ d with c := { d.c with gauges := r } }, s!"1 {r.length}")
      | "hist" => let r := touch d.c.hists key name tags freshHist id
                  ({ d with c := { d.c with hists := r } }, s!"1 {r.length}")
      | "timer" => let r := touch d.c.timers key name tags freshHist id
                   ({ d with c := { d.c with timers := r } }, s!"1 {r.length}")
      | _ => (d, "bad-op")
    | _ => (d, "bad-op")
  | "key" :: rest =>
    match takeIdent rest with
    | some (name, tags, []) => (d, Bytes.toHex (keyOf name tags))
    | _ => (d, "bad-op")
  | "hobs" :: rest =>
    match takeIdent rest with
    | some (name, tags, [v]) =>
      match floatOf? v with
      | some x =>
        let c := d.c.observe cfg name tags (tagNames tags) x
        let h := histOf c (keyOf name tags)
        ({ d with c := c }, s!"{h.count} {fTok h.sum}")
      | none => (d, "bad-op")
    | _ => (d, "bad-op")
  | "hpct" :: rest =>
    match takeIdent rest with
    | some (name, tags, [p]) =>
      match floatOf? p with
      | some x =>
        let key := keyOf name tags
        let r := touch d.c.hists key name tags freshHist id
        let c := { d.c with hists := r }
        ({ d with c := c }, optF ((histOf c key).percentile x))
      | none => (d, "bad-op")
    | _ => (d, "bad-op")
  | "hgrid" :: rest =>
    match takeIdent rest with
    | some (name, tags, []) =>
      let key := keyOf name tags
      let r := touch d.c.hists key name tags freshHist id
      let c := { d.c with hists := r }
      ({ d with c := c }, gridLine (histOf c key))
    | _ => (d, "bad-op")
  | "xnew" :: id :: _nb :: bs =>
    match id.toNat?, bs.mapM floatOf? with
    | some i, some buckets => ({ d with xs := setX d.xs i (Hist.new buckets) }, "ok")
    | _, _ => (d, "bad-op")
  | ["xobs", id, v] =>
    match id.toNat?, floatOf? v with
    | some i, some x =>
      match findX d.xs i with
      | some h => let h' := h.observe x
                  ({ d with xs := setX d.xs i h' }, s!"{h'.count} {fTok h'.sum}")
      | none => (d, "bad-op")
    | _, _ => (d, "bad-op")
  | ["xpct", id, p] =>
    match id.toNat?, floatOf? p with
    | some i, some x =>
      match findX d.xs i with
      | some h => (d, optF (h.percentile x))
      | none => (d, "bad-op")
    | _, _ => (d, "bad-op")
  | ["xgrid", id] =>
    match id.toNat? with
    | some i =>
      match findX d.xs i with
      | some h => (d, gridLine h)
      | none => (d, "bad-op")
    | none => (d, "bad-op")
  | ["recsearch", dur, rc, hit, qlen] =>
    match dur.toInt?, rc.toInt?, qlen.toInt? with
    | some ns, some r, some q =>
      ({ d with m := d.m.recordSearch cfg (Float.ofInt ns / 1000000.0) r (hit == "1") (Float.ofInt q) }, "ok")
    | _, _, _ => (d, "bad-op")
  | ["recdb", op, dur, succ] =>
    match Bytes.ofHex op, dur.toInt? with
    | some o, some ns =>
      let σ := [tOperation, tSuccess]
      ({ d with m := d.m.recordDb cfg o (Float.ofInt ns / 1000000.0) (succ == "1") σ σ }, "ok")
    | _, _ => (d, "bad-op")
  | ["enable", b] => ({ d with m := { d.m with enabled := b == "1" } }, "ok")
  | ["totals"] => (d, dumpCollector d.m.c true)
  | ["dump"] => (d, dumpCollector d.c false)
  | ["mdbload", _n] =>
    -- LoadDatabaseWithMonitoring: RecordDatabaseOperation("load", d, true), once
    let σ := [tOperation, tSuccess]
    ({ d with m2 := d.m2.recordDb cfg (asc "load") 0.0 true σ σ }, "ok")
  | ["mdbsearch", q, _limit, _withOpts] =>
    -- Search*WithMonitoring: RecordSearchOperation once; the cache-hit flag is C05's business, the
    -- totals printed below do not depend on it
    match Bytes.ofHex q with
    | some qb => ({ d with m2 := d.m2.recordSearch cfg 0.0 0 false (Float.ofNat qb.length) }, "ok")
    | none => (d, "bad-op")
  | ["mdbenable", b] => ({ d with m2 := { d.m2 with enabled := b == "1" } }, "ok")
  | ["mdbtotals"] =>
    let cv (k : Bytes) : Int := (valueOf? d.m2.c.counters k).getD 0
    let st := cv (keyOf nSearchesTotal (searchTags true)) + cv (keyOf nSearchesTotal (searchTags false))
    let hm := cv nCacheHits + cv nCacheMisses
    let ql := ((valueOf? d.m2.c.hists nQueryLength).getD freshHist).count
    let ld := cv (keyOf nDbTotal (dbTags (asc "load") true))
    let all := sumByName d.m2.c.counters nDbTotal
    (d, s!"{st} {hm} {ql} {ld} {all}")
  | _ => (d, "bad-op")

def runCase (ops : Array String) : Array String := Id.run do
  let mut d := DS.init
  let mut out := #[]
  for l in ops do
    let r := step d l
    d := r.1
    out := out.push r.2
  return out

end Driver.Metrics
