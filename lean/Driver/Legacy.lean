import WtfModel.Model.Legacy
import WtfModel.Gen.SearchParams
import Driver.Search

/-!
  Driver domain `legacy`: Model/Legacy.lean run with `S := Float`.  Database / oracle lines are those of
  the `search` domain (delegated to `Driver.Search.step`); additional lines:
    ls -|<f:,..>                                  calculateScore of every document for the next `pipe`
    pipe <q> <limit> <boosts> <pipelineOnly> <pipelineBoost>
    recover <q>
    cli <q> <limit flag>                          the `wtf search` step: engine, else recovery cut to the limit
-/
namespace Driver.Legacy
open Wtf Wtf.Search Wtf.Legacy

structure LS where
  d : Driver.Search.DS := {}
  ls : Array Float := #[]

def fmtList (l : List (Nat × Float)) : String :=
  l.foldl (fun acc (d, s) => acc ++ s!" {d} {fmtFloat s}") s!"res {l.length}"

def step (st : LS) (l : String) : LS × String :=
  match words l with
  | ["ls", v] =>
    match Driver.Search.floatList? v with
    | some fs => ({ st with ls := fs.toArray }, "ok")
    | none => (st, "bad-op")
  | ["pipe", _q, lim, _bo, po, pb] =>
    match intOf? lim, floatOf? pb with
    | some lim, some pb =>
      let o : Opts Float := { limit := lim, pipelineOnly := boolOf po, pipelineBoost := pb }
      (st, fmtList (searchLegacyPipeline st.d.ri (fun i => st.ls.getD i 0.0) st.d.db.toList o))
    | _, _ => (st, "bad-op")
  | ["recover", q] =>
    match Bytes.ofHex q with
    | some q => (st, fmtList (recover (S := Float) st.d.ri st.d.db.toList q))
    | none => (st, "bad-op")
  | ["cli", q, flag] =>
    match Bytes.ofHex q, intOf? flag with
    | some q, some flag =>
      match cliLimit Gen.SearchParams.configMaxResults flag with
      | none => (st, "cli-rejected")
      | some lim =>
        let o : Opts Float := { limit := lim, pipelineBoost := 0.0, useFuzzy := true, fuzzyThreshold := -30, useNLP := true }
        match cliResults (Driver.Search.tuning st.d) st.d.db.toList q o with
        | .ok r => (st, fmtList r)
        | .error (.fuzzy _) => (st, "panic:index-out-of-range")
        | .error .sliceBounds => (st, "panic:slice-bounds")
    | _, _ => (st, "bad-op")
  | _ =>
    let r := Driver.Search.step st.d l
    ({ st with d := r.1 }, r.2)

def runCase (ops : Array String) : Array String := Id.run do
  let mut st : LS := {}
  let mut out := #[]
  for l in ops do
    let r := step st l
    st := r.1
    out := out.push r.2
  return out

end Driver.Legacy
