import WtfModel.Model.Legacy
import WtfModel.Model.LegacyEntry
import WtfModel.Gen.SearchParams
import Driver.Search

/-!
  Driver domain `legacy`: Model/Legacy.lean run with `S := Float`.  Database / oracle lines are those of
  the `search` domain (delegated to `Driver.Search.step`); additional lines:
    ls -|<f:,..>                                  calculateScore of every document for the next `pipe`
    pipe <q> <limit> <boosts> <pipelineOnly> <pipelineBoost>
    recover <q>
    cli <q> <limit flag>                          the `wtf search` step: engine, else recovery cut to the limit
  Domain `legacy2` (same state; Model/LegacyScore.lean + Model/LegacyEntry.lean, nothing uninterpreted but the
  `Tuning` parameters of the search domain):
    mls <q> <boosts>                              the MODEL's calculateScore of every document
    parts <word>                                  per document: the five summands of calculateWordScore and the category factor
    swo|swf <q> <12 option tokens of `search`>    SearchWithOptions / SearchWithFuzzy
    swn <q> <12 option tokens> <shared 0|1>       SearchWithNLP (shared: the database has a TF-IDF searcher)
    pfz <q> <12 option tokens>                    performFuzzySearch (untruncated)
    combine <exact> <fuzzy> <limit>               combineAndDeduplicateResults on given (position=score) lists
    sug <q> <max>                                 GetSuggestions
  `pipe` uses the model's calculateScore too; the `ls` line (real values) is still parsed and compared by `mls`.
-/
namespace Driver.Legacy
open Wtf Wtf.Search Wtf.Legacy Wtf.LegacyScore Wtf.LegacyEntry

structure LS where
  d : Driver.Search.DS := {}
  ls : Array Float := #[]

def fmtList (l : List (Nat × Float)) : String :=
  l.foldl (fun acc (d, s) => acc ++ s!" {d} {fmtFloat s}") s!"res {l.length}"

/-- finiteScore on IEEE doubles: +Inf becomes math.MaxFloat64 -/
def finF (x : Float) : Float := if x.isInf && x > 0.0 then Float.ofBits 0x7FEFFFFFFFFFFFFF else x

def fmtFloats (l : List Float) : String := ",".intercalate (l.map fmtFloat)

/-- the 11 option tokens of the `search` op (after the query) -/
def opts? (f : List String) : Option (Opts Float) :=
  match f with
  | [lim, bo, po, pb, uf, thr, un, cap, ap, pls, nc] =>
    match intOf? lim, Driver.Search.pairList? bo Bytes.ofHex floatOf?, floatOf? pb, intOf? thr, intOf? cap, bytesList? pls with
    | some lim, some bo, some pb, some thr, some cap, some pls =>
      some { limit := lim, boosts := bo, pipelineOnly := boolOf po, pipelineBoost := pb, useFuzzy := boolOf uf,
             fuzzyThreshold := thr, useNLP := boolOf un, topTermsCap := cap, allPlatforms := boolOf ap,
             platforms := pls, noCross := boolOf nc }
    | _, _, _, _, _, _ => none
  | _ => none

def fmtExcept (r : Except Fuzzy.Panic (List (Nat × Float))) : String :=
  match r with
  | .ok l => fmtList l
  | .error _ => "panic:index-out-of-range"

/-- the model's own TF-IDF ranking (what a searcher built from the commands returns) -/
def modelRank (d : Driver.Search.DS) : Bytes → List (Nat × Float) :=
  match d.tfIdx with
  | some idx => fun q => Tfidf.search d.ri Float.sqrt (Wtf.ScoreOps.ofQ Wtf.Gen.LegacyScore.tfidfMinSim) idx q d.db.size
  | none => fun _ => []

def step2 (st : LS) (l : String) : Option (LS × String) :=
  match words l with
  | ["mls", q, bo] =>
    match Bytes.ofHex q, Driver.Search.pairList? bo Bytes.ofHex floatOf? with
    | some q, some bo =>
      let ws := queryWords st.d.ri q
      some (st, "mls " ++ (if st.d.db.isEmpty then "-" else
        fmtFloats (st.d.db.toList.map (fun c => calculateScore finF st.d.ri bo c ws))))
    | _, _ => some (st, "bad-op")
  | ["parts", w] =>
    match Bytes.ofHex w with
    | some w =>
      let one (c : Cmd) : String := fmtFloats
        [commandScore w c.commandLower, domainScore st.d.ri w c, keywordScore w c.keywordsLower,
         descriptionScore w c.descriptionLower, tagScore w c.tagsLower, categoryBoost st.d.ri c [w]]
      some (st, "parts " ++ (if st.d.db.isEmpty then "-" else ";".intercalate (st.d.db.toList.map one)))
    | none => some (st, "bad-op")
  | "swo" :: q :: rest =>
    match Bytes.ofHex q, opts? rest with
    | some q, some o => some (st, fmtList (searchWithOptions finF st.d.ri st.d.host st.d.db.toList q o.limit o.boosts))
    | _, _ => some (st, "bad-op")
  | "swf" :: q :: rest =>
    match Bytes.ofHex q, opts? rest with
    | some q, some o => some (st, fmtExcept (searchWithFuzzy finF (Driver.Search.tuning st.d) st.d.db.toList q o))
    | _, _ => some (st, "bad-op")
  | "pfz" :: q :: rest =>
    match Bytes.ofHex q, opts? rest with
    | some q, some o => some (st, fmtExcept (performFuzzy (Driver.Search.tuning st.d) st.d.db.toList q { o with limit := fuzzyLimit o.limit } (fuzzyLimit o.limit)))
    | _, _ => some (st, "bad-op")
  | ["swn", q, lim, bo, po, pb, uf, thr, un, cap, ap, pls, nc, shared] =>
    match Bytes.ofHex q, opts? [lim, bo, po, pb, uf, thr, un, cap, ap, pls, nc] with
    | some q, some o =>
      let d := Driver.Search.ensureIdx st.d
      let T0 := Driver.Search.tuning d
      let T : Tuning Float := { T0 with tfidf := if boolOf shared then some (modelRank d) else none }
      some ({ st with d := d }, fmtExcept (searchWithNLP finF T (modelRank d) d.db.toList q o))
    | _, _ => some (st, "bad-op")
  | ["combine", ex, fz, lim] =>
    match Driver.Search.pairList? ex natOf? floatOf?, Driver.Search.pairList? fz natOf? floatOf?, natOf? lim with
    | some ex, some fz, some lim => some (st, fmtList (combine st.d.db.toList ex fz lim))
    | _, _, _ => some (st, "bad-op")
  | ["sug", q, m] =>
    match Bytes.ofHex q, intOf? m with
    | some q, some m =>
      match getSuggestions (Driver.Search.tuning st.d) st.d.db.toList q m with
      | .ok ws => some (st, ws.foldl (fun acc w => acc ++ " " ++ Bytes.toHex w) s!"sug {ws.length}")
      | .error _ => some (st, "panic:index-out-of-range")
    | _, _ => some (st, "bad-op")
  | ["words"] =>
    let ws := suggestionWords st.d.ri st.d.db.toList
    some (st, ws.foldl (fun acc w => acc ++ " " ++ Bytes.toHex w) s!"words {ws.length}")
  | _ => none

def step (st : LS) (l : String) : LS × String :=
  match step2 st l with
  | some r => r
  | none =>
  match words l with
  | ["ls", v] =>
    match Driver.Search.floatList? v with
    | some fs => ({ st with ls := fs.toArray }, "ok")
    | none => (st, "bad-op")
  | ["pipe", q, lim, bo, po, pb] =>
    -- the scorer is the MODEL's calculateScore (the `ls` line above is parsed but no longer consulted)
    match Bytes.ofHex q, intOf? lim, Driver.Search.pairList? bo Bytes.ofHex floatOf?, floatOf? pb with
    | some q, some lim, some bo, some pb =>
      let o : Opts Float := { limit := lim, boosts := bo, pipelineOnly := boolOf po, pipelineBoost := pb }
      (st, fmtList (searchPipeline finF st.d.ri st.d.db.toList q o))
    | _, _, _, _ => (st, "bad-op")
  | ["recover", q] =>
    match Bytes.ofHex q with
    | some q => (st, fmtList (recover (S := Float) st.d.ri st.d.db.toList q))
    | none => (st, "bad-op")
  | ["cli", q, flag] =>
    match Bytes.ofHex q, intOf? flag with
    | some q, some flag =>
      match cliLimit Gen.SearchParams.configMaxResults flag with
      | none => (st, "cli-rejected")
      | some lim =>
        let o : Opts Float := { limit := lim, pipelineBoost := 0.0, useFuzzy := true, fuzzyThreshold := -30, useNLP := true }
        match cliResults (Driver.Search.tuning st.d) st.d.db.toList q o with
        | .ok r => (st, fmtList r)
        | .error (.fuzzy _) => (st, "panic:index-out-of-range")
        | .error .sliceBounds => (st, "panic:slice-bounds")
    | _, _ => (st, "bad-op")
  | _ =>
    let r := Driver.Search.step st.d l
    ({ st with d := r.1 }, r.2)

def runCase (ops : Array String) : Array String := Id.run do
  let mut st : LS := {}
  let mut out := #[]
  for l in ops do
    let r := step st l
    st := r.1
    out := out.push r.2
  return out

end Driver.Legacy
