import WtfModel.Model.Context
import Driver.Util

/-!
  Driver domain `context`: the model of the project-context analyzer (Model/Context.lean).  Lines:
    ri <cp> <lower> <foldrep> <flags>                       Unicode facts for strings.TrimSpace
    dir <names> <scripts> <Makefile> <makefile>             names: hex list (any order; the model sorts like os.ReadDir)
                                                            scripts: none | - | hex list   (what encoding/json produced)
                                                            Makefile/makefile: none | x<hex content> | x- (empty file)
    pkg <hex>                                               content of package.json (ignored: JSON parsing is a parameter)
    missing                                                 AnalyzeDirectory on a directory that cannot be read
  Output: ctx <types> <boosts sorted by word> <scripts sorted> <targets in order> <names in processing order>
-/
namespace Driver.Context
open Wtf Wtf.Context

structure DS where
  ri : RuneInfo := {}

def hexList (l : List Bytes) : String :=
  if l.isEmpty then "-" else ",".intercalate (l.map (fun b => if b.isEmpty then "_" else Bytes.toHex b))

def fmtCtx (c : Ctx) (order : List Bytes) : String :=
  let types := if c.types.isEmpty then "-" else ",".intercalate (c.types.map (fun t => Bytes.toHex (Bytes.ofString t)))
  let boosts := contextBoosts c
  let keys := sortNames (boosts.map (·.1))
  let bs := keys.map (fun k => (if k.isEmpty then "_" else Bytes.toHex k) ++ "=" ++
    fmtFloat (((boosts.find? (·.1 == k)).map (·.2.toFloat)).getD 0.0))
  let btok := if bs.isEmpty then "-" else ",".intercalate bs
  s!"ctx {types} {btok} {hexList (sortNames c.scripts)} {hexList c.targets} {hexList order}"

/-- entry names: hex list, a trailing `/` marks a directory (immaterial to the model) -/
def namesList? (s : String) : Option (List Bytes) :=
  if s == "-" then some [] else
  (s.splitOn ",").mapM (fun e =>
    let e := if e.endsWith "/" then (e.dropEnd 1).toString else e
    if e == "_" then some [] else Bytes.ofHex e)

def content? (s : String) : Option (Option Bytes) :=
  if s == "none" then some none
  else if s.startsWith "x" then (Bytes.ofHex (s.drop 1).toString).map some
  else none

def step (d : DS) (l : String) : DS × String :=
  match words l with
  | ["ri", cp, lo, fr, fl] =>
    match natOf? cp, natOf? lo, natOf? fr, natOf? fl with
    | some cp, some lo, some fr, some fl =>
      let f : RuneFacts := { cp := cp, lower := lo, foldRep := fr, isLower := fl % 2 == 1, isUpper := (fl / 2) % 2 == 1,
                             isSpace := (fl / 4) % 2 == 1, isLetNum := (fl / 8) % 2 == 1 }
      ({ d with ri := { table := f :: d.ri.table } }, "ok")
    | _, _, _, _ => (d, "bad-op")
  | ["dir", names, scripts, mk1, mk2] =>
    let pkg : Option (Option (List Bytes)) := if scripts == "none" then some none else (bytesList? scripts).map some
    match namesList? names, pkg, content? mk1, content? mk2 with
    | some names, some pkg, some m1, some m2 =>
      let mkText : Bytes → Option Bytes := fun n =>
        if n == Bytes.ofString "Makefile" then m1 else if n == Bytes.ofString "makefile" then m2 else none
      let order := sortNames names
      (d, fmtCtx (analyze d.ri order pkg mkText) order)
    | _, _, _, _ => (d, "bad-op")
  | ["pkg", _] => (d, "ok")
  | ["missing"] => (d, fmtCtx analyzeUnreadable [])
  | _ => (d, "bad-op")

def runCase (ops : Array String) : Array String := Id.run do
  let mut d : DS := {}
  let mut out := #[]
  for l in ops do
    let r := step d l
    d := r.1
    out := out.push r.2
  return out

end Driver.Context
