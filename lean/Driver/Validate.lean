import WtfModel.Model.Validate
import Driver.Util

/-! Driver domain `validate` (C14).
    `q <hex>`   → `ok <hex>` | `err empty|toolong|badchars`
    `qq <hex>`  → result of `q`, followed (when accepted) by the result of validating the output again
    `lim <int>` → `ok <n>` | `err <n>`          (n = the integer returned next to the error)
    `dec <hex>` → the runes Go's `range` yields: `c<hex code point>` / `b<hex invalid byte>`, comma separated
    `witness`   → hex of `Wtf.Validate.idemWitness`, the input of `Wtf.C14.idem_old_witness` (driver only)
    `tbl space|control` → the model's table as hex ranges over all code points 0..0x10FFFF -/
namespace Driver.Validate
open Wtf Wtf.Validate

def hexNat (n : Nat) : String := String.ofList (Nat.toDigits 16 n)

def showRes : Except Err Bytes → String
  | .ok r => "ok " ++ Bytes.toHex r
  | .error .empty => "err empty"
  | .error .toolong => "err toolong"
  | .error .badchars => "err badchars"

def showRune : Rune → String
  | .cp c => "c" ++ hexNat c
  | .bad b => "b" ++ hexNat b

/-- maximal ranges of code points satisfying `p`, over 0..0x10FFFF -/
def rangesOf (p : Nat → Bool) : String := Id.run do
  let mut out : Array String := #[]
  let mut start : Option Nat := none
  for c in [0:0x110000] do
    if p c then
      if start.isNone then start := some c
    else
      match start with
      | some s => out := out.push (hexNat s ++ "-" ++ hexNat (c - 1)); start := none
      | none => pure ()
  match start with
  | some s => out := out.push (hexNat s ++ "-" ++ hexNat 0x10FFFF)
  | none => pure ()
  return if out.isEmpty then "-" else ",".intercalate out.toList

def step (l : String) : String :=
  match words l with
  | ["q", h] =>
    match Bytes.ofHex h with
    | some b => showRes (validate b)
    | none => "bad-op"
  | ["qq", h] =>
    match Bytes.ofHex h with
    | some b =>
      match validate b with
      | .ok r => showRes (.ok r) ++ " " ++ showRes (validate r)
      | e => showRes e
    | none => "bad-op"
  | ["lim", n] =>
    match intOf? n with
    | some i => (match validateLimit i with | .ok m => s!"ok {m}" | .error m => s!"err {m}")
    | none => "bad-op"
  | ["dec", h] =>
    match Bytes.ofHex h with
    | some b =>
      let rs := decodeGo b
      if rs.isEmpty then "-" else ",".intercalate (rs.map showRune)
    | none => "bad-op"
  | ["witness"] => Bytes.toHex idemWitness
  | ["tbl", "space"] => rangesOf isSpace
  | ["tbl", "control"] => rangesOf isControl
  | _ => "bad-op"

def runCase (ops : Array String) : Array String := ops.map step

end Driver.Validate
