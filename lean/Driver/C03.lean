import WtfModel.Model.DbState
import Driver.Search

/-!
  Driver domain `c03`: index snapshots (`build db`, Model/Index.lean) and histories over the state
  machine of Model/DbState.lean, run with `S := Float`.  Parameter / oracle lines are those of the
  `search` domain (parsed by `Driver.Search.step`); `cmd` lines accumulate a pending list that the next
  `snapshot | load | loadp <k> <present> | update | grow` consumes.
    hsearch <q> <limit> <boosts> <pipelineOnly> <pipelineBoost> <useFuzzy> <thr> <useNLP> <cap> <allPlat> <platforms> <noCross>
  The TF-IDF ranking is an oracle computed by the real code on a database freshly built from the
  current commands: `mk _ := that ranking` (the model's theorem `C03.search_fresh` says the re-ranker in
  force is always built from the current commands; a stale real re-ranker therefore shows up as a mismatch).
-/
namespace Driver.C03
open Wtf Wtf.Search Wtf.Index

def lensStr (ls : List DocLens) : String :=
  if ls.isEmpty then "-" else
  ",".intercalate (ls.map (fun l => s!"{l.cmd}/{l.desc}/{l.keys}/{l.tags}"))

def snapshot (db : Db) : String :=
  let idx := build db
  let tot := sumLens idx.lens
  let avg : String :=
    if idx.n == 0 then "avg - - - -" else
    let f (t : Nat) : String := fmtFloat (avgOf (S := Float) t idx.n)
    s!"avg {f tot.cmd} {f tot.desc} {f tot.keys} {f tot.tags}"
  let dfs := sortStrings (idx.df.map (fun (t, n) => s!"{Bytes.toHex t}={n}"))
  let posts := sortStrings (idx.postings.map (fun (t, ps) =>
    Bytes.toHex t ++ ":" ++ "+".intercalate (ps.map (fun p => s!"{p.doc}/{p.tf.cmd}/{p.tf.desc}/{p.tf.keys}/{p.tf.tags}"))))
  let j (xs : List String) : String := if xs.isEmpty then "-" else ",".intercalate xs
  s!"idx n={idx.n} lens={lensStr idx.lens} {avg} df={j dfs} post={j posts}"

structure St where
  ds : Driver.Search.DS := {}
  s : DbState := DbState.init

def parseOpts (ws : List String) : Option (Opts Float) :=
  match ws with
  | [lim, bo, po, pb, uf, thr, un, cap, ap, pls, nc] =>
    match intOf? lim, Driver.Search.pairList? bo Bytes.ofHex floatOf?, floatOf? pb, intOf? thr, intOf? cap, bytesList? pls with
    | some lim, some bo, some pb, some thr, some cap, some pls =>
      some { limit := lim, boosts := bo, pipelineOnly := boolOf po, pipelineBoost := pb, useFuzzy := boolOf uf,
             fuzzyThreshold := thr, useNLP := boolOf un, topTermsCap := cap, allPlatforms := boolOf ap,
             platforms := pls, noCross := boolOf nc }
    | _, _, _, _, _, _ => none
  | _ => none

def stLine (s : DbState) : String := s!"st {s.cmds.length}"

def step (st : St) (l : String) : St × String :=
  let pending : List Cmd := st.ds.db.toList
  let clear (s : DbState) : St := { ds := { st.ds with db := #[], cache := none }, s := s }
  let ri := st.ds.ri
  match words l with
  | ["snapshot"] => (clear st.s, snapshot pending)
  -- the non-ASCII code points Go lower-cases to ASCII (hypothesis of C03.tokenize_toLower): U+0130, U+212A
  | ["foldscan"] => (st, "fold 304 8490")
  | ["load"] => let s := DbState.step (S := Float) ri st.s (.load pending); (clear s, stLine s)
  | ["loadp", k, present] =>
    match natOf? k with
    | some k =>
      let s := DbState.step (S := Float) ri st.s
        (.loadWithPersonal (pending.take k) (if boolOf present then some (pending.drop k) else none))
      (clear s, stLine s)
    | none => (st, "bad-op")
  | ["update"] | ["update", _] => let s := DbState.step (S := Float) ri st.s (.update pending); (clear s, stLine s)
  | ["grow"] => let s := DbState.step (S := Float) ri st.s (.growDirect pending); (clear s, stLine s)
  | ["replace"] => let s := DbState.step (S := Float) ri st.s (.replaceDirect pending); (clear s, stLine s)
  | "hsearch" :: q :: rest =>
    match Bytes.ofHex q, parseOpts rest with
    | some q, some o =>
      let T := Driver.Search.tuning { st.ds with nlpDb := some st.s.cmds }
      let mk : List Cmd → Bytes → List (Nat × Float) := fun _ _ => st.ds.tf.getD []
      let r := DbState.answer T mk st.s q o
      ({ st with s := DbState.step ri st.s (.search q o) }, Driver.Search.fmtResults r)
    | _, _ => (st, "bad-op")
  | _ =>
    -- oracle lines (`pq` / `ib` / `cb`) are compared with the model's NLP layer on the commands of the current state
    let (d, out) := Driver.Search.step { st.ds with nlpDb := some st.s.cmds } l
    ({ st with ds := { d with nlpDb := none } }, out)

def runCase (ops : Array String) : Array String := Id.run do
  let mut st : St := {}
  let mut out := #[]
  for l in ops do
    let r := step st l
    st := r.1
    out := out.push r.2
  return out

end Driver.C03
