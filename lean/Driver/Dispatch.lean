import Driver.Echo
import Driver.Lru
import Driver.Search
import Driver.Fuzzy

namespace Driver

/-- One entry per domain.  A domain is a pure function from the op lines of a case to output lines
    (exactly one per op). -/
def dispatch (dom : String) (ops : Array String) : Array String :=
  match dom with
  | "echo" => Echo.runCase ops
  | "lru" => Lru.runCase ops
  | "search" => Search.runCase ops
  | "fuzzy" => Fuzzy.runCase ops
  | _ => ops.map (fun _ => "unknown-domain")

end Driver
