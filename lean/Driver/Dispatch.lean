import Driver.Echo
import Driver.Lru
import Driver.Search
import Driver.Validate
import Driver.Metrics
import Driver.Retry
import Driver.Embed
import Driver.Linearize
import Driver.Context
import Driver.Hist
import Driver.Legacy
import Driver.Nlp
import Driver.C03
import Driver.AtomicWrite
import Driver.Notebook
import Driver.CacheLayer
import Driver.Fuzzy
import Driver.Cli
import Driver.GoSort

namespace Driver

/-- One entry per domain.  A domain is a pure function from the op lines of a case to output lines
    (exactly one per op). -/
def dispatch (dom : String) (ops : Array String) : Array String :=
  match dom with
  | "echo" => Echo.runCase ops
  | "lru" => Lru.runCase ops
  | "search" => Search.runCase ops
  | "validate" => Validate.runCase ops
  | "metrics" => Metrics.runCase ops
  | "retry" => Retry.runCase ops
  | "embed" => Embed.runCase ops
  | "linearize" => Linearize.runCase ops
  | "context" => Context.runCase ops
  | "hist" => Hist.runCase ops
  | "legacy" => Legacy.runCase ops
  | "legacy2" => Legacy.runCase ops
  | "nlp" => Nlp.runCase ops
  | "c03" => C03.runCase ops
  | "atomicwrite" => AtomicWrite.runCase ops
  | "notebook" => Notebook.runCase ops
  | "cachelayer" => CacheLayer.runCase ops
  | "keyjson" => CacheLayer.runCase ops
  | "fuzzy" => Fuzzy.runCase ops
  | "cli" => Cli.runCase ops
  | "boosts" => Search.runCase ops
  | "gosort" => GoSort.runCase ops
  | _ => ops.map (fun _ => "unknown-domain")

end Driver
