import Driver.Echo
import Driver.Lru
import Driver.CacheLayer

namespace Driver

/-- One entry per domain.  A domain is a pure function from the op lines of a case to output lines
    (exactly one per op). -/
def dispatch (dom : String) (ops : Array String) : Array String :=
  match dom with
  | "echo" => Echo.runCase ops
  | "lru" => Lru.runCase ops
  | "cachelayer" => CacheLayer.runCase ops
  | _ => ops.map (fun _ => "unknown-domain")

end Driver
