import WtfModel.Model.CacheLayer
import WtfModel.Model.KeyJson
import WtfModel.Gen.KeyJson
import WtfModel.Gen.CacheKey
import WtfModel.Gen.Constants
import WtfModel.Gen.Lru
import Driver.Util

/-!
  Driver domain `cachelayer` (property C05): runs `Wtf.CacheLayer` on the op lines of a case.

  The engine's answer is an ORACLE: every search line carries the id of the answer a fresh uncached
  SearchUniversal gives for that request on the database then in force ("-" = empty list), so the layer model
  is validated independently of any engine model.  Keys are the model's own `KeyData` (enc = id); the query
  normaliser and the JSON string coercion are the concrete functions below (UTF-8 aware for the code points
  the generator draws from).
-/
namespace Driver.CacheLayer
open Wtf Wtf.CacheLayer

/-! ### UTF-8 (Go's utf8.DecodeRune: an invalid byte is one "rune error" of width 1) -/

inductive Rn where
  | ok (cp : Nat) (raw : List UInt8)
  | bad (b : UInt8)

def cont (b : UInt8) : Bool := 0x80 ≤ b && b ≤ 0xBF

def decode1 : List UInt8 → Option (Rn × List UInt8)
  | [] => none
  | b0 :: rest =>
    if b0 < 0x80 then some (.ok b0.toNat [b0], rest)
    else if 0xC2 ≤ b0 && b0 ≤ 0xDF then
      match rest with
      | b1 :: r => if cont b1 then some (.ok ((b0.toNat % 32) * 64 + b1.toNat % 64) [b0, b1], r) else some (.bad b0, rest)
      | _ => some (.bad b0, rest)
    else if 0xE0 ≤ b0 && b0 ≤ 0xEF then
      match rest with
      | b1 :: b2 :: r =>
        let lo : UInt8 := if b0 == 0xE0 then 0xA0 else 0x80
        let hi : UInt8 := if b0 == 0xED then 0x9F else 0xBF
        if lo ≤ b1 && b1 ≤ hi && cont b2 then
          some (.ok ((b0.toNat % 16) * 4096 + (b1.toNat % 64) * 64 + b2.toNat % 64) [b0, b1, b2], r)
        else some (.bad b0, rest)
      | _ => some (.bad b0, rest)
    else if 0xF0 ≤ b0 && b0 ≤ 0xF4 then
      match rest with
      | b1 :: b2 :: b3 :: r =>
        let lo : UInt8 := if b0 == 0xF0 then 0x90 else 0x80
        let hi : UInt8 := if b0 == 0xF4 then 0x8F else 0xBF
        if lo ≤ b1 && b1 ≤ hi && cont b2 && cont b3 then
          some (.ok ((b0.toNat % 8) * 262144 + (b1.toNat % 64) * 4096 + (b2.toNat % 64) * 64 + b3.toNat % 64) [b0, b1, b2, b3], r)
        else some (.bad b0, rest)
      | _ => some (.bad b0, rest)
    else some (.bad b0, rest)

def decodeAll (fuel : Nat) (bs : List UInt8) (acc : List Rn) : List Rn :=
  match fuel with
  | 0 => acc.reverse
  | fuel + 1 =>
    match decode1 bs with
    | none => acc.reverse
    | some (r, rest) => decodeAll fuel rest (r :: acc)

def runes (bs : Bytes) : List Rn := decodeAll (bs.length + 1) bs []

def encodeCp (c : Nat) : List UInt8 :=
  if c < 0x80 then [UInt8.ofNat c]
  else if c < 0x800 then [UInt8.ofNat (0xC0 + c / 64), UInt8.ofNat (0x80 + c % 64)]
  else if c < 0x10000 then [UInt8.ofNat (0xE0 + c / 4096), UInt8.ofNat (0x80 + (c / 64) % 64), UInt8.ofNat (0x80 + c % 64)]
  else [UInt8.ofNat (0xF0 + c / 262144), UInt8.ofNat (0x80 + (c / 4096) % 64), UInt8.ofNat (0x80 + (c / 64) % 64), UInt8.ofNat (0x80 + c % 64)]

def replacement : List UInt8 := [0xEF, 0xBF, 0xBD]

/-- unicode.IsSpace -/
def isSpaceCp (c : Nat) : Bool :=
  (9 ≤ c && c ≤ 13) || c == 32 || c == 0x85 || c == 0xA0 || c == 0x1680 || (0x2000 ≤ c && c ≤ 0x200A) ||
  c == 0x2028 || c == 0x2029 || c == 0x202F || c == 0x205F || c == 0x3000

def isSpaceRn : Rn → Bool
  | .ok c _ => isSpaceCp c
  | .bad _ => false

/-- unicode.ToLower on the code points the generator uses (ASCII, Latin-1, Greek, Cyrillic capitals,
    U+0130, U+212A, U+212B); everything else there is lower-case or caseless. -/
def lowerCp (c : Nat) : Nat :=
  if 65 ≤ c && c ≤ 90 then c + 32
  else if 0xC0 ≤ c && c ≤ 0xDE && c != 0xD7 then c + 32
  else if 0x391 ≤ c && c ≤ 0x3A9 && c != 0x3A2 then c + 32
  else if 0x410 ≤ c && c ≤ 0x42F then c + 32
  else if c == 0x130 then 0x69
  else if c == 0x212A then 0x6B
  else if c == 0x212B then 0xE5
  else c

def rnBytes : Rn → List UInt8
  | .ok _ raw => raw
  | .bad b => [b]

/-- strings.TrimSpace -/
def trimSpace (bs : Bytes) : Bytes :=
  let rs := (runes bs).dropWhile isSpaceRn
  let rs := (rs.reverse.dropWhile isSpaceRn).reverse
  (rs.map rnBytes).flatten

/-- strings.ToLower: pure-ASCII strings are mapped bytewise; otherwise rune by rune, and an invalid byte
    becomes U+FFFD. -/
def toLower (bs : Bytes) : Bytes :=
  ((runes bs).map (fun r => match r with
    | .ok c _ => encodeCp (lowerCp c)
    | .bad _ => replacement)).flatten

def normQ (q : Bytes) : Bytes := toLower (trimSpace q)

/-- encoding/json string coercion: every invalid byte is written as the six-character escape `\ufffd`
    (a genuine U+FFFD is written raw, so the two stay distinct in the JSON text).  Representative of the
    escape here: the single byte 0xFF, which occurs in no valid UTF-8 text. -/
def jsonUtf8 (bs : Bytes) : Bytes :=
  ((runes bs).map (fun r => match r with
    | .ok _ raw => raw
    | .bad _ => [0xFF])).flatten

/-! ### Option parsing: `Field=value` tokens on top of the zero record -/

def hexNat (s : String) : Option Nat :=
  s.toList.foldl (fun acc c => match acc, Bytes.hexVal c with
    | some n, some d => some (n * 16 + d)
    | _, _ => none) (some 0)

def parseFloat (s : String) : Option Nat :=
  if s.startsWith "f:" then hexNat (s.drop 2).toString else none

def parseStrs (s : String) : Option Val :=
  if s == "nil" then some (.strs none)
  else if s == "[]" then some (.strs (some []))
  else if s.startsWith "[" && s.endsWith "]" then
    let inner := ((s.drop 1).dropEnd 1).toString
    let parts := inner.splitOn ","
    let bs := parts.map Bytes.ofHex
    if bs.all Option.isSome then some (.strs (some (bs.filterMap id))) else none
  else none

def parseBoosts (s : String) : Option Val :=
  if s == "nil" then some (.boosts none)
  else if s == "{}" then some (.boosts (some []))
  else if s.startsWith "{" && s.endsWith "}" then
    let inner := ((s.drop 1).dropEnd 1).toString
    let parts := inner.splitOn ","
    let kvs := parts.map (fun p => match p.splitOn ":" with
      | [k, v] => match Bytes.ofHex k, hexNat v with
        | some kb, some n => some (kb, n)
        | _, _ => none
      | _ => none)
    if kvs.all Option.isSome then some (.boosts (some (kvs.filterMap id))) else none
  else none

def parseVal (goType : String) (s : String) : Option Val :=
  if goType == "int" then (s.toInt?).map .int
  else if goType == "bool" then (if s == "1" then some (.bool true) else if s == "0" then some (.bool false) else none)
  else if goType == "float64" then (parseFloat s).map .float
  else if goType == "string" then (Bytes.ofHex s).map .str
  else if goType == "[]string" then parseStrs s
  else if goType == "map[string]float64" then parseBoosts s
  else none

def parseOpts (toks : List String) : Option Opts :=
  toks.foldl (fun acc t => match acc with
    | none => none
    | some o =>
      match t.splitOn "=" with
      | [f, v] =>
        match Gen.CacheKey.optionFields.lookup f with
        | some ty => (parseVal ty v).map (fun x => o.set f x)
        | none => none
      | _ => none) (some (zeroOpts Gen.CacheKey.optionFields))

/-! ### The run -/

abbrev St := State KeyData Nat String

def shC : Shape := ⟨Gen.CacheKey.keyFields, Gen.CacheKey.convCached⟩
def shM : Shape := ⟨Gen.CacheKey.keyFields, Gen.CacheKey.convMonitored⟩

def env (oracle : String) : Env Nat String KeyData :=
  { answer := fun _ _ _ => oracle, isEmpty := fun a => a == "-", normQ := normQ, utf8 := jsonUtf8, enc := id }

def init0 : St :=
  init Gen.Lru.defaultCapacity Gen.Constants.DefaultCacheCapacity Gen.Constants.DefaultCacheTTL 0

structure DS where
  s : St
  live : Bool
  reg : List (KeyData × Nat)     -- key ↦ index of the op that first stored it
  n : Nat                         -- op counter

/-- only the most recently used entry can be new after a search -/
def register (d : DS) (s : St) : List (KeyData × Nat) :=
  match s.lru.entries with
  | [] => d.reg
  | e :: _ => if (d.reg.lookup e.key).isSome then d.reg else (e.key, d.n) :: d.reg

def searchLine (d : DS) (monitored : Bool) (q : String) (oracle : String) (o : Option Opts) : DS × String :=
  match Bytes.ofHex q, o with
  | some qb, some o =>
    let E := env oracle
    let op : Op Nat := if monitored then .monitoredSearch qb o else .search qb o
    let r := step E shC shM d.s op
    let s' := r.1
    let a := match r.2 with | .ans a => a | _ => "?"
    let dh := s'.lru.hits - d.s.lru.hits
    let dm := s'.lru.misses - d.s.lru.misses
    ({ d with s := s', reg := register d s' },
      s!"{a} {dh} {dm} {s'.lru.entries.length} {s'.lru.hits} {s'.lru.misses} {s'.lru.evictions}")
  | _, _ => (d, "bad-op")

/-! ### The text of the key (domain `keyjson`): `Wtf.KeyJson.keyText` on a request given at the level of
  cache.SearchOptions (what generateCacheKey receives).

    keytext <query hex> F=<bits>:<text hex>,... <Field=value ...>     F=- when the request has no float
    coerce <hex>

  The float formatter is an ORACLE: the F token lists, for every float of the request, the text encoding/json prints for
  it.  Map entries come in any order; `sortEntries` puts them in the order of their raw keys.  Output of keytext: the text
  in hex, or `fallback` when json.Marshal fails (NaN / ±Inf: the `%#v` text, not modelled), followed by ` 1` (on the Go side:
  "prefix ++ hex (sha256 text) is the key generateCacheKey returns"). -/

def keyFieldTypes : List (String × String) := Gen.CacheKey.keyFields.map (fun kf => (kf.1, kf.2.1))

/-- generateCacheKey itself: every key field is read from the like-named field of its argument -/
def shK : Shape := ⟨Gen.CacheKey.keyFields, Gen.CacheKey.keyFields.map (fun kf => (kf.1, kf.1))⟩

def parseKeyOpts (toks : List String) : Option Opts :=
  toks.foldl (fun acc t => match acc with
    | none => none
    | some o =>
      match t.splitOn "=" with
      | [f, v] =>
        match keyFieldTypes.lookup f with
        | some ty => (parseVal ty v).map (fun x =>
            match x with
            | .boosts (some m) => o.set f (.boosts (some (KeyJson.sortEntries m)))
            | x => o.set f x)
        | none => none
      | _ => none) (some (zeroOpts keyFieldTypes))

def parseFloatOracle (t : String) : Option (List (Nat × Bytes)) :=
  if t == "F=-" then some []
  else if t.startsWith "F=" then
    ((t.drop 2).toString.splitOn ",").mapM (fun p => match p.splitOn ":" with
      | [b, x] => match hexNat b, Bytes.ofHex x with
        | some n, some bs => some (n, bs)
        | _, _ => none
      | _ => none)
  else none

def keyTextLine (q : String) (f : String) (opts : List String) : String :=
  match Bytes.ofHex q, parseFloatOracle f, parseKeyOpts opts with
  | some qb, some tbl, some o =>
    let E : Env Nat String KeyData :=
      { answer := fun _ _ _ => "-", isEmpty := fun _ => true, normQ := normQ, utf8 := KeyJson.coerce, enc := id }
    let fmt : Nat → Bytes := fun b => (tbl.lookup b).getD []
    match keyOf E shK qb o with
    | .hashed nq ko =>
      Bytes.toHex (KeyJson.keyText fmt (fun _ _ => []) Gen.KeyJson.queryName Gen.KeyJson.optionsName (.hashed nq ko)) ++ " 1"
    | _ => "fallback 1"
  | _, _, _ => "bad-op"

def stepLine (d0 : DS) (l : String) : DS × String :=
  let d := { d0 with n := d0.n + 1 }
  let E := env "-"
  match words l with
  | "cmd" :: _ => (d, "ok")
  | ["new", _] => ({ d with s := init0, live := true, reg := [] }, "ok")
  | "keytext" :: q :: f :: opts => (d, keyTextLine q f opts)
  | ["coerce", h] =>
    match Bytes.ofHex h with
    | some b => (d, Bytes.toHex (KeyJson.coerce b) ++ (if jsonUtf8 b == KeyJson.coerce b then " 1" else " 0"))
    | none => (d, "bad-op")
  | toks =>
    if !d.live then (d, "bad-op") else
    match toks with
    | "search" :: q :: oracle :: opts => searchLine d false q oracle (parseOpts opts)
    | "msearch" :: q :: oracle :: opts => searchLine d true q oracle (parseOpts opts)
    | ["searchl", q, oracle, lim] => searchLine d false q oracle (parseOpts ["Limit=" ++ lim])
    | ["msearchl", q, oracle, lim] => searchLine d true q oracle (parseOpts ["Limit=" ++ lim])
    | ["inval"] => ({ d with s := (step E shC shM d.s .invalidate).1 }, "ok")
    | ["enable", b] => ({ d with s := (step E shC shM d.s (.enable (b == "1"))).1 }, "ok")
    | ["cleanup"] =>
      let r := step E shC shM d.s .cleanup
      ({ d with s := r.1 }, match r.2 with | .swept n => toString n | _ => "?")
    | ["update"] => ({ d with s := (step E shC shM d.s (.update (d.s.db + 1))).1 }, "ok")
    | ["adv", dt] =>
      match natOf? dt with
      | some t => ({ d with s := (step E shC shM d.s (.advance t)).1 }, "ok")
      | none => (d, "bad-op")
    | ["stats"] =>
      let s := d.s
      (d, s!"{s.lru.hits} {s.lru.misses} {s.lru.evictions} {s.lru.entries.length} {s.lru.cap} {if s.mgrEnabled then 1 else 0}")
    | ["order"] =>
      (d, ",".intercalate (d.s.lru.entries.map (fun e => match d.reg.lookup e.key with
        | some i => toString i | none => "?")) ++ ";")
    | _ => (d, "bad-op")

def runCase (ops : Array String) : Array String := Id.run do
  let mut d : DS := { s := init0, live := false, reg := [], n := 0 }
  let mut out := #[]
  for l in ops do
    let r := stepLine d l
    d := r.1
    out := out.push r.2
  return out

end Driver.CacheLayer
