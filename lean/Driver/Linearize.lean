import WtfModel.Model.ConcLru
import WtfModel.Gen.Lru
import Driver.Util

/-! Driver domain `linearize` (C11): decides whether a recorded call/return history of raw LRU
    operations is linearizable with respect to the sequential model `Wtf.Lru.step`
    (`Wtf.Conc.linearizable?`, proved sound and complete in Proofs/Conc.lean, `C11.checker_correct`; TTL 0, so the clock is irrelevant).
    `keys` outputs are compared as sorted lists (Go map order). -/
namespace Driver.Linearize
open Wtf.Lru Wtf.Conc Wtf.ConcLru

abbrev R := Rec (Int × Op String Nat) (Out String Nat)

def canon : Out String Nat → Out String Nat
  | .keys ks => .keys (sortStrings ks)
  | o => o

/-- the sequential specification with canonical outputs -/
def stepC (s : State String Nat) (p : Int × Op String Nat) : State String Nat × Out String Nat :=
  let r := Wtf.Lru.step s p.1 p.2
  (r.1, canon r.2)

def parseKeys (t : String) : Option (List String) :=
  if t.endsWith ";" then
    let body := (t.dropEnd 1).toString
    some (if body == "" then [] else body.splitOn ",")
  else none

def parseOp (ws : List String) : Option (Op String Nat × Out String Nat) :=
  match ws with
  | ["get", k, "=", "none"] => some (.get k, .val none)
  | ["get", k, "=", "some", v] => v.toNat?.map (fun n => (.get k, .val (some n)))
  | ["put", k, v, "=", "ok"] => v.toNat?.map (fun n => (.put k n, .unit))
  | ["del", k, "=", b] => if b == "1" then some (.delete k, .bool true) else if b == "0" then some (.delete k, .bool false) else none
  | ["size", "=", n] => n.toNat?.map (fun n => (.size, .nat n))
  | ["cleanup", "=", n] => n.toNat?.map (fun n => (.cleanup, .nat n))
  | ["clear", "=", "ok"] => some (.clear, .unit)
  | ["stats", "=", h, m, e, sz, c] =>
    match h.toNat?, m.toNat?, e.toNat?, sz.toNat?, c.toNat? with
    | some h, some m, some e, some sz, some c => some (.stats, .stats h m e sz c)
    | _, _, _, _, _ => none
  | ["keys", "=", ks] => (parseKeys ks).map (fun l => (.keys, .keys (sortStrings l)))
  | _ => none

structure DS where
  cap : Int
  recs : List R
  ok : Bool

def step (d : DS) (l : String) : DS × String :=
  match words l with
  | ["new", cap, _] =>
    match intOf? cap with
    | some c =>
      let s : State String Nat := init Wtf.Gen.Lru.defaultCapacity c 0
      ({ cap := c, recs := [], ok := true }, s!"ok {s.cap}")
    | none => (d, "bad-op")
  | "op" :: tid :: inv :: res :: rest =>
    match natOf? tid, natOf? inv, natOf? res, parseOp rest with
    | some t, some i, some r, some (op, out) => ({ d with recs := d.recs ++ [⟨t, (0, op), out, i, r⟩] }, "ok")
    | _, _, _, _ => ({ d with ok := false }, "bad-op")
  | ["check"] =>
    if !d.ok || d.recs.length > 12 then (d, "bad-history")
    else
      let s0 : State String Nat := init Wtf.Gen.Lru.defaultCapacity d.cap 0
      (d, if linearizable? stepC s0 d.recs then "linearizable" else "not-linearizable")
  | _ => (d, "bad-op")

def runCase (ops : Array String) : Array String := Id.run do
  let mut d : DS := { cap := 0, recs := [], ok := true }
  let mut out := #[]
  for l in ops do
    let r := step d l
    d := r.1
    out := out.push r.2
  return out

end Driver.Linearize
