import WtfModel.Model.Lru
import WtfModel.Gen.Lru
import Driver.Util

/-! Driver domain `lru`: keys are tokens, values naturals, clock advanced by `adv`. -/
namespace Driver.Lru
open Wtf.Lru

structure DS where
  s : State String Nat
  now : Int

def step (d : DS) (l : String) : DS × String :=
  match words l with
  | ["new", cap, ttl] =>
    match intOf? cap, intOf? ttl with
    | some c, some t =>
      let s : State String Nat := init Wtf.Gen.Lru.defaultCapacity c t
      ({ s := s, now := 0 }, s!"ok {s.cap}")
    | _, _ => (d, "bad-op")
  | ["adv", dt] =>
    match intOf? dt with
    | some t => ({ d with now := d.now + t }, "ok")
    | none => (d, "bad-op")
  | ["put", k, v] =>
    match natOf? v with
    | some n => ({ d with s := put d.s d.now k n }, "ok")
    | none => (d, "bad-op")
  | ["get", k] =>
    let r := get d.s d.now k
    ({ d with s := r.1 }, match r.2 with | some v => s!"some {v}" | none => "none")
  | ["del", k] =>
    let r := delete d.s k
    ({ d with s := r.1 }, if r.2 then "1" else "0")
  | ["clear"] => ({ d with s := clear d.s }, "ok")
  | ["cleanup"] =>
    let r := cleanup d.s d.now
    ({ d with s := r.1 }, toString r.2)
  | ["size"] => (d, toString d.s.entries.length)
  | ["stats"] => (d, s!"{d.s.hits} {d.s.misses} {d.s.evictions} {d.s.entries.length} {d.s.cap}")
  | ["keys"] => (d, ",".intercalate (sortStrings (d.s.entries.map (·.key))) ++ ";")
  | ["order"] => (d, ",".intercalate (d.s.entries.map (·.key)) ++ ";")
  | _ => (d, "bad-op")

def runCase (ops : Array String) : Array String := Id.run do
  let mut d : DS := { s := init Wtf.Gen.Lru.defaultCapacity 0 0, now := 0 }
  let mut out := #[]
  for l in ops do
    let r := step d l
    d := r.1
    out := out.push r.2
  return out

end Driver.Lru
