import WtfModel.Basic.Bytes
