import WtfModel.Basic.Utf8
import WtfModel.Model.Text
/-
  Go `strings` functions on byte strings, over an explicit table of Unicode facts (`RuneInfo`).
  ASCII behaviour is built in; facts about non-ASCII code points come from the table, which the
  harness dumps from the repo toolchain's `unicode` package for every code point that occurs in a case
  (and which is validated exhaustively against Go elsewhere).  Core Lean only.
-/
namespace Wtf

/-- facts about one non-ASCII code point -/
structure RuneFacts where
  cp : Nat
  lower : Nat          -- unicode.ToLower
  foldRep : Nat        -- least element of the unicode.SimpleFold orbit
  isLower : Bool
  isUpper : Bool
  isSpace : Bool
  isLetNum : Bool      -- unicode.IsLetter || unicode.IsNumber
deriving Repr, Inhabited

structure RuneInfo where
  table : List RuneFacts := []
deriving Repr, Inhabited

namespace RuneInfo
open Text

def find (ri : RuneInfo) (r : Nat) : Option RuneFacts := ri.table.find? (·.cp == r)

def lower (ri : RuneInfo) (r : Nat) : Nat :=
  if r < 0x80 then (if 0x41 ≤ r && r ≤ 0x5A then r + 0x20 else r)
  else match ri.find r with | some f => f.lower | none => r

def foldRep (ri : RuneInfo) (r : Nat) : Nat :=
  if r < 0x80 then (if 0x61 ≤ r && r ≤ 0x7A then r - 0x20 else r)
  else match ri.find r with | some f => f.foldRep | none => r

def isLower (ri : RuneInfo) (r : Nat) : Bool :=
  if r < 0x80 then (0x61 ≤ r && r ≤ 0x7A) else match ri.find r with | some f => f.isLower | none => false

def isUpper (ri : RuneInfo) (r : Nat) : Bool :=
  if r < 0x80 then (0x41 ≤ r && r ≤ 0x5A) else match ri.find r with | some f => f.isUpper | none => false

def isSpace (ri : RuneInfo) (r : Nat) : Bool :=
  if r < 0x80 then (r == 0x20 || (0x09 ≤ r && r ≤ 0x0D))
  else match ri.find r with | some f => f.isSpace | none => false

/-- fuzzy's / strings' simple-fold equality of two runes -/
def eqFold (ri : RuneInfo) (a b : Nat) : Bool := a == b || ri.foldRep a == ri.foldRep b

end RuneInfo

namespace GoStr
open Text Utf8

def isAsciiStr (s : Bytes) : Bool := s.all (· < 0x80)

/-- strings.ToLower -/
def toLower (ri : RuneInfo) (s : Bytes) : Bytes :=
  if isAsciiStr s then lowerAscii s
  else ((decode s).map (fun (r, _, _) => encodeRune (ri.lower r))).flatten

/-- strings.EqualFold -/
def equalFold (ri : RuneInfo) (s t : Bytes) : Bool :=
  let rs := runes s
  let rt := runes t
  rs.length == rt.length && (rs.zip rt).all (fun (a, b) => ri.eqFold a b)

/-- strings.TrimSpace -/
def trimLeftRunes (ri : RuneInfo) : List (Nat × Nat × Nat) → List (Nat × Nat × Nat)
  | [] => []
  | (r, o, w) :: rest =>
    -- an invalid byte decodes to U+FFFD (width 1), which is not a space
    if ri.isSpace r && !(r == runeError && w == 1) then trimLeftRunes ri rest else (r, o, w) :: rest

def trimSpace (ri : RuneInfo) (s : Bytes) : Bytes :=
  let d := decode s
  let l := trimLeftRunes ri d
  let r := (trimLeftRunes ri l.reverse).reverse
  match r with
  | [] => []
  | (_, o, _) :: _ =>
    let last := r.getLast!
    (s.drop o).take (last.2.1 + last.2.2 - o)

/-- strings.Fields -/
def fieldsAux (ri : RuneInfo) (s : Bytes) : List (Nat × Nat × Nat) → Option Nat → List Bytes
  | [], none => []
  | [], some st => [s.drop st]
  | (r, o, w) :: rest, cur =>
    let sp := ri.isSpace r && !(r == runeError && w == 1)
    match cur, sp with
    | none, true => fieldsAux ri s rest none
    | none, false => fieldsAux ri s rest (some o)
    | some st, true => ((s.drop st).take (o - st)) :: fieldsAux ri s rest none
    | some st, false => fieldsAux ri s rest (some st)

def fields (ri : RuneInfo) (s : Bytes) : List Bytes := fieldsAux ri s (decode s) none

end GoStr
end Wtf
