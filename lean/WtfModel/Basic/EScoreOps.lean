-- (C19) the embedding arithmetic uses its own operation class `EScoreOps` (adds sqrt / le / eq and a Float32 instance to the search model's `ScoreOps`)
import WtfModel.Basic.Q

/-!
  `EScoreOps S` — the arithmetic a scoring function of the engine may use (core Lean only).

  Model functions that compute scores are written once over this class.
  * The driver instantiates `S := Float` (IEEE-754 binary64, the same correctly rounded
    `+ − × ÷ √` as Go's float64 on amd64) and, for the float32 accumulation of
    `embedding.EmbedQuery`, `S := Float32`.
  * Proof modules instantiate it from a Mathlib ordered field (`WtfModel/Proofs/ScoreField.lean`).

  The class carries *operations only*, no laws: a theorem that needs a law of the arithmetic
  either lives over an ordered field or names the law as an explicit hypothesis (so that nothing
  false for floats is used silently).

  `eq` is IEEE `==` on floats (false when either side is NaN), so `isNaN x := !(eq x x)` is the
  model of Go's `math.IsNaN` and is constantly `false` over a field.
-/
namespace Wtf

class EScoreOps (S : Type) where
  zero : S
  one : S
  add : S → S → S
  sub : S → S → S
  mul : S → S → S
  div : S → S → S
  sqrt : S → S
  /-- `a <= b` of Go -/
  le : S → S → Bool
  /-- `a < b` of Go -/
  lt : S → S → Bool
  /-- `a == b` of Go (IEEE: NaN is not equal to itself) -/
  eq : S → S → Bool
  /-- `float64(n)` -/
  ofNat : Nat → S
  /-- an exact rational constant of the source, rounded once (as the Go compiler does) -/
  ofQ : Q → S

namespace EScoreOps

/-- Go's `math.IsNaN` -/
@[inline] def isNaN {S : Type} [EScoreOps S] (x : S) : Bool := !(eq x x)

/-- `a >= b` of Go -/
@[inline] def ge {S : Type} [EScoreOps S] (a b : S) : Bool := le b a

/-- `a > b` of Go -/
@[inline] def gt {S : Type} [EScoreOps S] (a b : S) : Bool := lt b a

end EScoreOps

instance : EScoreOps Float where
  zero := 0
  one := 1
  add := (· + ·)
  sub := (· - ·)
  mul := (· * ·)
  div := (· / ·)
  sqrt := Float.sqrt
  le a b := a ≤ b
  lt a b := a < b
  eq a b := a == b
  ofNat := Float.ofNat
  ofQ := Q.toFloat

instance : EScoreOps Float32 where
  zero := 0
  one := 1
  add := (· + ·)
  sub := (· - ·)
  mul := (· * ·)
  div := (· / ·)
  sqrt := Float32.sqrt
  le a b := a ≤ b
  lt a b := a < b
  eq a b := a == b
  ofNat := Float32.ofNat
  ofQ q := Float32.ofInt q.num / Float32.ofNat q.den

end Wtf
