/-
  The shape of hints.go (package nlp) as data: every `hints = append(hints, lits…)` statement of
  getCommandHints and its helpers, with the conditions that guard it.  The translator's recogniser
  (xlate/x_nlp.go) produces `Gen/Hints.lean` in this vocabulary; `Model/Nlp.lean` interprets it.  Core only.
-/
namespace Wtf.Nlp

/-- cond ::= hasAction(lit) | hasTarget(lits…) | hasKeyword(lits…) | pq.Intent == C | !c | c && c | c || c -/
inductive Cond where
  | hasAction (s : String)
  | hasTarget (ss : List String)
  | hasKeyword (ss : List String)
  | intentIs (i : String)
  | not (c : Cond)
  | and (a b : Cond)
  | or (a b : Cond)
deriving Repr, Inhabited

/-- one append statement: executed iff every guard holds (enclosing `if`s, negated `else` / early-return conditions) -/
structure HintRule where
  guards : List Cond
  lits : List String
deriving Repr, Inhabited

end Wtf.Nlp
