import WtfModel.Basic.Q
/-
  The shape of the per-document NLP boost functions of package database as data (core Lean only):

    search.go           boost*Intent, applyActionBoosts, applyTargetBoosts   (a tiny statement language)
    cascading_boost.go  the `boost += …` lines of calculateBoostForCommand   (a list of terms)

  The translator (xlate/x_boosts.go) produces `Gen/Boosts.lean` in this vocabulary on every run;
  `Model/Boosts.lean` interprets it.  Every literal (substring, factor) and every operator of those functions
  is therefore data regenerated from the source.
-/
namespace Wtf.Boost

/-- the string a condition inspects: `strings.ToLower(cmd.Command)` or `strings.ToLower(cmd.Description)` -/
inductive Subj where
  | cmd
  | desc
deriving Repr, DecidableEq, Inhabited

/-- the slice a `for _, v := range …` walks: `pq.Actions` or `pq.Targets` -/
inductive Src where
  | actions
  | targets
deriving Repr, DecidableEq, Inhabited

/-- cond ::= containsAny(x, []string{lits}) | strings.Contains(x, "lit") | strings.Contains(x, v) | v == "lit"
           | !c | c && c | c || c          (x a subject, v the loop variable) -/
inductive BCond where
  | containsAny (s : Subj) (lits : List String)
  | contains (s : Subj) (lit : String)
  | containsVar (s : Subj)
  | varEq (lit : String)
  | not (c : BCond)
  | and (a b : BCond)
  | or (a b : BCond)
deriving Repr, Inhabited

/-- stmt ::= return lit | return boost | boost := lit | boost *= lit | if c {…} else {…}
           | for _, v := range src {…} | s; s | (nothing) -/
inductive Stmt where
  | skip
  | ret (q : Q)
  | retBoost
  | set (q : Q)
  | mul (q : Q)
  | ite (c : BCond) (t e : Stmt)
  | loop (src : Src) (body : Stmt)
  | seq (a b : Stmt)
deriving Repr, Inhabited

/-- a block `{ s₁; …; sₙ }` -/
def Stmt.block : List Stmt → Stmt
  | [] => .skip
  | [s] => s
  | s :: rest => .seq s (Stmt.block rest)

/-- which expanded term list of the boost context a `calcTermBoost` line consults -/
inductive TermList where
  | actionTerms
  | targetTerms
  | keywordTerms
deriving Repr, DecidableEq, Inhabited

/-- one `boost += …` line of calculateBoostForCommand -/
inductive CTerm where
  | hint (q : Q)                      -- calcHintBoost(cmd.Command, ctx.commandHints, q)
  | term (l : TermList) (q : Q)       -- calcTermBoost(searchText, ctx.<l>, q)
  | context (q : Q)                   -- calcContextBoost(cmd.Command, searchText, ctx.contexts, q)
  | intent                            -- getIntentBoost(ctx.intent, searchText)
deriving Repr, Inhabited

end Wtf.Boost
