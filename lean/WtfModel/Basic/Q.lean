/-
  Exact rational literals for generated constants (core Lean only).
  Proof modules cast them into an ordered field; the driver turns them into `Float`.
-/
namespace Wtf

structure Q where
  num : Int
  den : Nat
deriving Repr, DecidableEq, Inhabited

namespace Q
def toFloat (q : Q) : Float := Float.ofInt q.num / Float.ofNat q.den
end Q
end Wtf
