/-
  Basic byte-string utilities shared by all model modules (core Lean only).
  Go strings are arbitrary byte sequences, so the model's string type is `List UInt8`.
-/
namespace Wtf

abbrev Bytes := List UInt8

namespace Bytes

def hexDigit (n : Nat) : Char :=
  if n < 10 then Char.ofNat (48 + n) else Char.ofNat (87 + n)

def toHex (b : Bytes) : String :=
  if b.isEmpty then "-" else
  String.ofList (b.foldr (fun x acc => hexDigit (x.toNat / 16) :: hexDigit (x.toNat % 16) :: acc) [])

def hexVal (c : Char) : Option Nat :=
  if '0' ≤ c ∧ c ≤ '9' then some (c.toNat - 48)
  else if 'a' ≤ c ∧ c ≤ 'f' then some (c.toNat - 87)
  else if 'A' ≤ c ∧ c ≤ 'F' then some (c.toNat - 55)
  else none

def ofHexChars : List Char → Option Bytes
  | [] => some []
  | [_] => none
  | a :: b :: rest =>
    match hexVal a, hexVal b, ofHexChars rest with
    | some x, some y, some r => some (UInt8.ofNat (x * 16 + y) :: r)
    | _, _, _ => none

/-- `-` encodes the empty string (so every field is a non-empty token). -/
def ofHex (s : String) : Option Bytes :=
  if s == "-" then some [] else ofHexChars s.toList

def ofString (s : String) : Bytes := s.toUTF8.toList

end Bytes
end Wtf
