import WtfModel.Basic.Q
/-
  Scores are generic (DESIGN.md §4): model functions that compute scores are written once over
  `ScoreOps S`.  The driver instantiates `S := Float`; proof modules instantiate it from an ordered field.
  Core Lean only.
-/
namespace Wtf

class ScoreOps (S : Type) where
  zero : S
  one : S
  add : S → S → S
  sub : S → S → S
  mul : S → S → S
  div : S → S → S
  /-- strict "less than" as a Boolean test (Go's `<` on float64) -/
  lt : S → S → Bool
  ofNat : Nat → S
  ofQ : Q → S

namespace ScoreOps
variable {S : Type} [ScoreOps S]
def le (a b : S) : Bool := !(lt b a)
def gt (a b : S) : Bool := lt b a
end ScoreOps

instance : ScoreOps Float where
  zero := 0.0
  one := 1.0
  add := (· + ·)
  sub := (· - ·)
  mul := (· * ·)
  div := (· / ·)
  lt a b := a < b
  ofNat n := Float.ofNat n
  ofQ q := q.toFloat

end Wtf
