import WtfModel.Basic.Bytes
/-
  Go's UTF-8 decoding (`utf8.DecodeRuneInString`, `range` over a string, `[]rune(s)`):
  an invalid or truncated sequence yields U+FFFD with width 1.  Core Lean only.
-/
namespace Wtf.Utf8

def runeError : Nat := 0xFFFD

def isCont (b : UInt8) : Bool := 0x80 ≤ b && b ≤ 0xBF

/-- (rune, width); width 0 only for the empty input -/
def decodeRune : Bytes → Nat × Nat
  | [] => (runeError, 0)
  | b0 :: rest =>
    if b0 < 0x80 then (b0.toNat, 1)
    else if b0 < 0xC2 then (runeError, 1)
    else if b0 < 0xE0 then
      match rest with
      | b1 :: _ => if isCont b1 then ((b0.toNat % 32) * 64 + (b1.toNat % 64), 2) else (runeError, 1)
      | _ => (runeError, 1)
    else if b0 < 0xF0 then
      match rest with
      | b1 :: b2 :: _ =>
        let lo : UInt8 := if b0 == 0xE0 then 0xA0 else 0x80
        let hi : UInt8 := if b0 == 0xED then 0x9F else 0xBF
        if lo ≤ b1 && b1 ≤ hi && isCont b2 then
          ((b0.toNat % 16) * 4096 + (b1.toNat % 64) * 64 + (b2.toNat % 64), 3)
        else (runeError, 1)
      | _ => (runeError, 1)
    else if b0 < 0xF5 then
      match rest with
      | b1 :: b2 :: b3 :: _ =>
        let lo : UInt8 := if b0 == 0xF0 then 0x90 else 0x80
        let hi : UInt8 := if b0 == 0xF4 then 0x8F else 0xBF
        if lo ≤ b1 && b1 ≤ hi && isCont b2 && isCont b3 then
          ((b0.toNat % 8) * 262144 + (b1.toNat % 64) * 4096 + (b2.toNat % 64) * 64 + (b3.toNat % 64), 4)
        else (runeError, 1)
      | _ => (runeError, 1)
    else (runeError, 1)

/-- decode with fuel = length; returns (rune, byte offset, width) triples -/
def decodeAux : Nat → Nat → Bytes → List (Nat × Nat × Nat)
  | 0, _, _ => []
  | _, _, [] => []
  | fuel + 1, off, bs =>
    let (r, w) := decodeRune bs
    let w' := if w == 0 then 1 else w
    (r, off, w') :: decodeAux fuel (off + w') (bs.drop w')

/-- `for i, r := range s` -/
def decode (bs : Bytes) : List (Nat × Nat × Nat) := decodeAux bs.length 0 bs

/-- `[]rune(s)` -/
def runes (bs : Bytes) : List Nat := (decode bs).map (·.1)

/-- utf8.AppendRune for valid scalar values (surrogates / out of range encode U+FFFD) -/
def encodeRune (r : Nat) : Bytes :=
  let r := if (0xD800 ≤ r && r ≤ 0xDFFF) || r > 0x10FFFF then runeError else r
  if r < 0x80 then [UInt8.ofNat r]
  else if r < 0x800 then [UInt8.ofNat (0xC0 + r / 64), UInt8.ofNat (0x80 + r % 64)]
  else if r < 0x10000 then
    [UInt8.ofNat (0xE0 + r / 4096), UInt8.ofNat (0x80 + (r / 64) % 64), UInt8.ofNat (0x80 + r % 64)]
  else
    [UInt8.ofNat (0xF0 + r / 262144), UInt8.ofNat (0x80 + (r / 4096) % 64),
     UInt8.ofNat (0x80 + (r / 64) % 64), UInt8.ofNat (0x80 + r % 64)]

end Wtf.Utf8
