/-
  Shape of the marker-file rules of the context analyzer (internal/context/analyzer.go check*),
  as regenerated into Gen/Context.lean.  Core Lean only.
-/
namespace Wtf

/-- a condition over one file name -/
inductive NameCond where
  | eq (lit : String)            -- filename == lit
  | suffix (lit : String)        -- strings.HasSuffix(filename, lit)
  | contains (lit : String)      -- strings.Contains(filename, lit)
  | or (a b : NameCond)
  | and (a b : NameCond)
deriving Repr, Inhabited

/-- one branch of an `if … else if …` chain or one `case` of a `switch filename`: appends exactly one
    project type; may read package.json / the Makefile named by the file -/
structure MarkerBranch where
  cond : NameCond
  ptype : String
  readsPkg : Bool := false
  readsMake : Bool := false
deriving Repr, Inhabited

/-- one statement: the first branch whose condition holds fires (none may) -/
abbrev MarkerRule := List MarkerBranch

end Wtf
