import WtfModel.Proofs.C07
import WtfModel.Proofs.ExampleScore

/-!
  C07 — typo fallback runs only when nothing matches and returns genuine matches.

  Property theorems only (helpers: Proofs/FuzzyAccept.lean, Proofs/Utf8Nul.lean, Proofs/C07.lean,
  Proofs/SearchPaths.lean).  `search` is the model of `SearchUniversal`, `Fuzzy.matchOne` the full
  transliteration (scores, matched indexes, the never-reset `matchedIndex`, the index expression that can
  panic) of github.com/sahilm/fuzzy v0.1.1 for one target — both validated against the real code by the
  `search` and `fuzzy` correspondence domains.

  "The query's characters": since the fix that normalises the query on entry, the matcher sees
  `T.normQ q` = `strings.ToLower(strings.TrimSpace(q))`; all statements are about `normQ q`.  (For every
  code point except U+0130 lower-casing stays inside the rune's simple-fold orbit — checked for all code
  points by `wtfverif tool c07unicode` — so matching `normQ q` under simple folding is matching `q`'s
  characters ignoring case.)

  Hypotheses, and what discharges them:
   * `FoldOK T.ri` — no entry of the Unicode fact table folds to 0 (only U+0000 is in U+0000's fold orbit):
     validated on every dumped table and for all 1,114,112 code points (`c07unicode`);
   * `SortOK T` — the library's final `sort.Stable` returns a permutation ordered by score, best first:
     contract of `sort.Stable` (trusted base), checked on every generated case by the driver and the monitor.
  Everything else (idf, NLP analysis, TF-IDF ranking, host, …) is universally quantified.
-/
namespace Wtf.C07
open Wtf.Filters Wtf.Search Wtf.Fuzzy Wtf.Utf8

variable {S : Type} [ScoreOps S]

/-- **Enabling typo tolerance never changes an answer that exists.**  For every database, query and option
    record (NLP on or off, any threshold): if the search without typo tolerance returns a non-empty list, the
    search with it returns the identical list. -/
theorem no_override (T : Tuning S) (db : Db) (q : Bytes) (o : Opts S) (r : List (Nat × S))
    (hoff : search T db q { o with useFuzzy := false } = .ok r) (hne : r ≠ []) :
    search T db q { o with useFuzzy := true } = .ok r := by
  rw [search_eq, lexical_useFuzzy] at hoff ⊢
  cases hl : lexical T db q o with
  | some r' => rw [hl] at hoff; exact hoff
  | none =>
    rw [hl] at hoff
    simp only [orElse, fallback] at hoff
    injection hoff with hoff
    exact absurd hoff.symm hne

/-- The fallback is consulted only when nothing matches lexically, and then it *is* the answer. -/
theorem fallback_only_when_nothing (T : Tuning S) (db : Db) (q : Bytes) (o : Opts S)
    (hoff : search T db q { o with useFuzzy := false } = .ok []) :
    search T db q { o with useFuzzy := true } =
      fuzzySearch T db (T.normQ q) { o with useFuzzy := true } (effLimit o) :=
  on_of_lexical_none T db q o ((off_empty_iff T db q o).mp hoff)

/-- **What the matcher accepts.**  For a non-empty pattern and a target without the rune 0, the library
    (scored loop included) does not panic and reports a match exactly when the pattern's runes occur in the
    target's runes in order under simple case folding — greedy test `subseqFold`, equivalently (`Occurs`)
    some sub-list of the target matches the pattern rune by rune. -/
theorem accepts_iff_subseq (ri : RuneInfo) (hf : FoldOK ri) (p t : Bytes) (hp : p ≠ []) (ht : ∀ c ∈ runes t, c ≠ 0) :
    (∃ r, matchOne ri p t = .ok r) ∧
    ((∃ m, matchOne ri p t = .ok (some m)) ↔ subseqFold ri.eqFold (runes p) (runes t) = true) ∧
    (subseqFold ri.eqFold (runes p) (runes t) = true ↔ Occurs ri.eqFold (runes p) (runes t)) := by
  obtain ⟨r, hr, hsome⟩ := matchOne_spec ri hf p t hp ht
  refine ⟨⟨r, hr⟩, ?_, subseqFold_iff _ _ _⟩
  rw [← hsome, hr]
  cases r with
  | none => simp
  | some m => simp

/-- the scored loop decides accept / reject / panic exactly as its acceptance skeleton `arun`
    (remaining pattern + the sticky `matchedIndex > -1` flag) — for every input, NUL or not -/
theorem refinement (ri : RuneInfo) (p t : Bytes) :
    (∀ rem sn, arun ri.eqFold (runes p) false (runes t) = .ok (rem, sn) →
      ∃ r, matchOne ri p t = .ok r ∧ r.isSome = rem.isEmpty) ∧
    (∀ e, arun ri.eqFold (runes p) false (runes t) = .error e → matchOne ri p t = .error .indexOutOfRange) := by
  obtain ⟨hok, herr⟩ := loop_abs ri (runes p).toArray (decode t) {} inv_init (Nat.zero_le _)
  have e1 : List.drop ({} : St).patternIndex (runes p).toArray.toList = runes p := by simp
  have e2 : decide (({} : St).matchedIndex > -1) = false := by decide
  have e3 : (decode t).map (·.1) = runes t := rfl
  rw [e1, e2, e3] at hok herr
  constructor
  · intro rem sn h
    obtain ⟨s', hloop, hinv, hle, hdrop, _⟩ := hok rem sn h
    unfold matchOne
    simp only [hloop]
    have hle' : s'.patternIndex ≤ (runes p).length := by simpa using hle
    have hlen : (s'.matched.length == (runes p).toArray.size) = rem.isEmpty := by
      rw [hinv.len, ← hdrop]
      by_cases hpi : s'.patternIndex = (runes p).length
      · simp [hpi]
      · have h1 : (s'.patternIndex == (runes p).toArray.size) = false := by simpa using hpi
        have h2 : List.drop s'.patternIndex (runes p) ≠ [] := by
          intro h0; rw [List.drop_eq_nil_iff] at h0; omega
        rw [h1]
        cases hd : List.drop s'.patternIndex (runes p) with
        | nil => exact absurd hd h2
        | cons _ _ => rfl
    rw [hlen]
    cases rem.isEmpty with
    | true => exact ⟨_, rfl, rfl⟩
    | false => exact ⟨_, rfl, rfl⟩
  · intro e h
    unfold matchOne
    simp only [herr e h]

/-- the targets handed to the matcher are NUL-free by construction (performFuzzySearch's `ReplaceAll`) -/
theorem target_nul_free (c : Cmd) : (∀ b ∈ fuzzyTarget c, b ≠ 0) ∧ (∀ r ∈ runes (fuzzyTarget c), r ≠ 0) :=
  ⟨fuzzyTarget_bytes_ne_zero c, fuzzyTarget_runes_ne_zero c⟩

/-- the rune equality of the matcher satisfies what `accepts_iff_subseq` needs, from the table condition -/
theorem eqFold_laws (ri : RuneInfo) (hf : FoldOK ri) :
    (∀ a b, ri.eqFold a b = ri.eqFold b a) ∧ (∀ c, ri.eqFold 0 c = true ↔ c = 0) := by
  refine ⟨eqFold_symm ri, fun c => ?_⟩
  constructor
  · intro h
    by_cases hc : c = 0
    · exact hc
    · rw [eqFold_zero ri hf c hc] at h; cases h
  · rintro rfl; simp [RuneInfo.eqFold]

/-- **Never a panic**: for every database (NUL bytes included), query and option record the model of
    SearchUniversal returns a list (this is also what C10 needs from the fallback). -/
theorem no_panic (T : Tuning S) (hf : FoldOK T.ri) (db : Db) (q : Bytes) (o : Opts S) :
    ∃ r, search T db q o = .ok r := by
  rw [search_eq]
  cases lexical T db q o with
  | some r => exact ⟨r, rfl⟩
  | none =>
    simp only [orElse, fallback]
    split
    · exact fuzzySearch_ok T hf db _ o _
    · exact ⟨[], rfl⟩

/-- **Every fallback result is a genuine match.**  When nothing matches lexically and typo tolerance answers,
    each returned entry is a command of the database whose text (`command ++ " " ++ description`, NUL → space)
    contains the characters of `normQ q` in order ignoring case, whose library score `sc` (the score
    `fuzzy.Find` computes for that text) is at least the threshold when one is set (≠ 0), whose reported
    score is the normalisation of `sc`, and which passes the platform / pipeline gate (C04). -/
theorem genuine (T : Tuning S) (hf : FoldOK T.ri) (hs : SortOK T) (db : Db) (q : Bytes) (o : Opts S)
    (r : List (Nat × S))
    (hoff : search T db q { o with useFuzzy := false } = .ok [])
    (hon : search T db q { o with useFuzzy := true } = .ok r) :
    ∀ x ∈ r, ∃ c sc idxs, db[x.1]? = some c ∧
      matchOne T.ri (T.normQ q) (fuzzyTarget c) = .ok (some (sc, idxs)) ∧
      Occurs T.ri.eqFold (runes (T.normQ q)) (runes (fuzzyTarget c)) ∧
      (o.fuzzyThreshold ≠ 0 → o.fuzzyThreshold ≤ sc) ∧
      x.2 = normalizeFuzzy sc ∧
      passes T.ri T.host o.filter c = true := by
  rw [fallback_only_when_nothing T db q o hoff] at hon
  intro x hx
  obtain ⟨c, sc, idxs, hc, _, hm, hsub, hthr, hnorm, hp⟩ :=
    fuzzySearch_genuine T hf hs db (T.normQ q) { o with useFuzzy := true } (effLimit o) hon x hx
  exact ⟨c, sc, idxs, hc, hm, (subseqFold_iff _ _ _).mp hsub, hthr, hnorm, hp⟩

/-- **Best match first.**  The fallback's answer lists its entries by non-increasing library score: it is
    the image, under the score normalisation, of a list of (command, library score) pairs sorted best first. -/
theorem best_first (T : Tuning S) (hs : SortOK T) (db : Db) (q : Bytes) (o : Opts S) (r : List (Nat × S))
    (hoff : search T db q { o with useFuzzy := false } = .ok [])
    (hon : search T db q { o with useFuzzy := true } = .ok r) :
    ∃ ms : List (Nat × Int), r = ms.map (fun m => (m.1, normalizeFuzzy m.2)) ∧
      ms.Pairwise (fun a b => a.2 ≥ b.2) := by
  rw [fallback_only_when_nothing T db q o hoff] at hon
  obtain ⟨ms, h1, h2, _⟩ := fuzzySearch_sorted T hs db (T.normQ q) { o with useFuzzy := true } (effLimit o) hon
  exact ⟨ms, h1, h2⟩

/-- the score normalisation `(sc + 100) / 100` clamped to [0, 1] is monotone.  This is arithmetic of the
    score type only; it is proved for every `ScoreLaws S` as `Wtf.Search.normalizeFuzzy_mono`
    (Proofs/C01Fuzzy.lean, built with C01), and kept as a named premise here so that this module does not
    depend on C01's. -/
def NormMono (S : Type) [ScoreOps S] : Prop :=
  ∀ a b : Int, a ≥ b → ScoreOps.lt (normalizeFuzzy a : S) (normalizeFuzzy b) = false

/-- … hence by non-increasing reported (normalised) score -/
theorem best_first_normalised (T : Tuning S) (hs : SortOK T) (hn : NormMono S) (db : Db) (q : Bytes) (o : Opts S)
    (r : List (Nat × S))
    (hoff : search T db q { o with useFuzzy := false } = .ok [])
    (hon : search T db q { o with useFuzzy := true } = .ok r) :
    r.Pairwise (fun a b => ScoreOps.lt a.2 b.2 = false) := by
  obtain ⟨ms, h1, h2⟩ := best_first T hs db q o r hoff hon
  subst h1
  rw [List.pairwise_map]
  exact h2.imp (fun {a b} hab => hn a.2 b.2 hab)

/-- **Completeness without a threshold.**  If no threshold is set, nothing matches lexically, and some
    command that passes the gate has the characters of the (non-empty) `normQ q` in order in its text, the
    search with typo tolerance does not come back empty. -/
theorem complete (T : Tuning S) (hf : FoldOK T.ri) (hs : SortOK T) (db : Db) (q : Bytes) (o : Opts S)
    (h0 : o.fuzzyThreshold = 0) (hq : T.normQ q ≠ [])
    (hoff : search T db q { o with useFuzzy := false } = .ok [])
    (hd : ∃ (i : Nat) (c : Cmd), db[i]? = some c ∧ passes T.ri T.host o.filter c = true ∧
      Occurs T.ri.eqFold (runes (T.normQ q)) (runes (fuzzyTarget c))) :
    ∃ r, search T db q { o with useFuzzy := true } = .ok r ∧ r ≠ [] := by
  rw [fallback_only_when_nothing T db q o hoff]
  obtain ⟨i, c, hc, hp, hocc⟩ := hd
  exact fuzzySearch_complete T hf hs db (T.normQ q) { o with useFuzzy := true } (effLimit o) (effLimit_pos o) h0 hq
    ⟨i, c, hc, hp, (subseqFold_iff _ _ _).mpr hocc⟩

/-- an empty (after normalisation) query has no fallback results — why `complete` needs `normQ q ≠ []` -/
theorem empty_query_no_fallback (T : Tuning S) (hs : SortOK T) (db : Db) (o : Opts S) (limit : Nat) :
    fuzzySearch T db [] o limit = .ok [] := by
  have : T.fuzzySort [] = [] := List.perm_nil.mp (hs []).1
  simp [fuzzySearch, findNoSort, this, fuzzyCollect]

/-! ### non-vacuity and witnesses -/
section examples
open Example

/-- why the NUL guard exists: on a target that contains the rune 0 the library indexes past the pattern -/
example : outcome (matchOne {} (bs "a") [0x61, 0x00, 0x62]) = none := by decide +kernel
/-- … and the guarded target is fine -/
example : outcome (matchOne {} (bs "a") (nulToSpace [0x61, 0x00, 0x62])) = some (some (8, [0])) := by decide +kernel
/-- scores and matched indexes of the transliteration ("tk" in "The Black Knight": the second k is taken) -/
example : outcome (matchOne {} (bs "tk") (bs "The Black Knight")) = some (some (16, [0, 10])) := by decide +kernel
example : outcome (matchOne {} (bs "lst") (bs "ls -l lists")) = some (some (7, [0, 1, 9])) := by decide +kernel
example : outcome (matchOne {} (bs "xyz") (bs "ls -l lists")) = some none := by decide +kernel
/-- case folding both ways -/
example : subseqFold ({} : RuneInfo).eqFold (runes (bs "gst")) (runes (bs "Git STatus")) = true := by decide +kernel

def exDb : Db := [mk "git status" "show working tree status" [], mk "ls -l" "list files" [],
  mk "dir" "list directory" ["windows"]]

/-- an answer that exists is not touched: "status" matches lexically, with and without typo tolerance -/
example : ids (search (tuning) exDb (bs "status") opts) = some [0] ∧
    ids (search (tuning) exDb (bs "status") { opts with useFuzzy := true }) = some [0] := by decide +kernel
/-- nothing matches "sttus" lexically; the fallback finds the command whose text has s,t,t,u,s in order -/
example : ids (search (tuning) exDb (bs "sttus") opts) = some [] ∧
    ids (search (tuning) exDb (bs "  STTUS ") { opts with useFuzzy := true }) = some [0] := by decide +kernel
/-- thresholds: "lt" is a poor match of "ls -l list files" (score −9; "dir list directory": −11); −5 drops it, −30 keeps it -/
example : ids (search (tuning) exDb (bs "lt") { opts with useFuzzy := true, fuzzyThreshold := -5 }) = some [] ∧
    ids (search (tuning) exDb (bs "lt") { opts with useFuzzy := true, fuzzyThreshold := -30 }) = some [1] ∧
    ids (search (tuning) exDb (bs "lt") { opts with useFuzzy := true, allPlatforms := true }) = some [1, 2] := by
  decide +kernel
/-- the hypotheses are satisfiable: the example parameters have a good fold table and a sorting `fuzzySort` -/
example : FoldOK (tuning).ri := by intro f hf; cases hf

end examples

end Wtf.C07
