import WtfModel.Props.C07
import WtfModel.Proofs.C01Fuzzy

/-!
  C07, continued: the premise `NormMono` of `C07.best_first_normalised` (monotonicity of the score
  normalisation) is discharged from the score laws (lemma `normalizeFuzzy_mono`, proved for C01), giving the
  "ordered best match first" clause for the *reported* scores with no premise beyond the sort contract.
-/
namespace Wtf.C07
open Wtf.Search

theorem normMono {S : Type} [ScoreOps S] [ScoreLaws S] : NormMono S :=
  fun _ _ h => normalizeFuzzy_mono h

/-- fallback answers are ordered by non-increasing reported score -/
theorem best_first_reported {S : Type} [ScoreOps S] [ScoreLaws S] (T : Tuning S) (hs : SortOK T) (db : Db)
    (q : Bytes) (o : Opts S) (r : List (Nat × S))
    (hoff : search T db q { o with useFuzzy := false } = .ok [])
    (hon : search T db q { o with useFuzzy := true } = .ok r) :
    r.Pairwise (fun a b => ScoreOps.lt a.2 b.2 = false) :=
  best_first_normalised T hs normMono db q o r hoff hon

end Wtf.C07
