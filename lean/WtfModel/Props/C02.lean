import WtfModel.Gen.Sites
import WtfModel.Proofs.SearchBasic

/-!
  C02 — same database, query and options always give the same ranked answer.

  In a Go function that starts no goroutine and touches no clock, random source or channel, the only
  source of run-to-run variation is the iteration order of maps (`sort.Slice` is unstable but
  deterministic).  The translator re-derives on every run the table of map-range / sort sites reachable
  from the search, suggestion, load and metric-key entry points (`Gen.Sites`), with a conservative
  classification.  This file proves (a) that table is clean, and (b) the fact that makes a "repaired" site
  harmless: sorting an enumeration of a map's keys by a total antisymmetric order gives the same list
  whatever order the enumeration came in — which is why the model (`Model/Search.lean`) walks score
  maps, vocabularies and suggestion words in canonical order and takes no schedule argument.
-/
namespace Wtf.C02
open Wtf.Gen.Sites Wtf.Search

/-- no map range on the search / suggestion / load / metric-key paths depends on iteration order -/
theorem sites_clean : sites.all (fun s => s.cls != Class.sensitive) = true := by decide

/-- no goroutine, channel operation, clock or random source on those paths -/
theorem no_other_nondeterminism : otherNondet = [] := by decide

/-- every sort on those paths is stable (so ties keep the deterministic input order, as in the model) -/
theorem sorts_stable : sites.all (fun s => s.cls != Class.unstable) = true := by decide

/-- Sorting removes the dependence on enumeration order: two enumerations of the same key set
    (permutations of each other), sorted by a total, transitive, antisymmetric order, coincide. -/
theorem sorted_enumeration_unique {α : Type} (le : α → α → Bool)
    (trans : ∀ a b c, le a b → le b c → le a c) (total : ∀ a b, le a b || le b a)
    (antisymm : ∀ a b, le a b → le b a → a = b) (l₁ l₂ : List α) (h : l₁.Perm l₂) :
    l₁.mergeSort le = l₂.mergeSort le := by
  apply List.Perm.eq_of_pairwise (le := fun a b => le a b = true)
  · intro a b _ _ hab hba; exact antisymm a b hab hba
  · exact List.pairwise_mergeSort trans total l₁
  · exact List.pairwise_mergeSort trans total l₂
  · exact ((List.mergeSort_perm l₁ le).trans h).trans (List.mergeSort_perm l₂ le).symm

/-- document ids / term indices (`sort.Ints`) -/
theorem sort_ints_sched_indep (ks₁ ks₂ : List Nat) (h : ks₁.Perm ks₂) :
    ks₁.mergeSort (fun a b => decide (a ≤ b)) = ks₂.mergeSort (fun a b => decide (a ≤ b)) :=
  sorted_enumeration_unique _ (by intro a b c; simp; omega) (by intro a b; simp; omega)
    (by intro a b; simp; omega) ks₁ ks₂ h

/-- collectResults: whatever order the runtime enumerates the score map in, the sorted id list is the
    model's canonical key list (the score map's keys, strictly increasing). -/
theorem collect_sched_indep {S : Type} (m : List (Nat × S)) (hm : KeysSorted m) (σ : List Nat)
    (hσ : σ.Perm (m.map (·.1))) : σ.mergeSort (fun a b => decide (a ≤ b)) = m.map (·.1) := by
  rw [sort_ints_sched_indep σ _ hσ]
  apply List.Perm.eq_of_pairwise (le := fun a b => a ≤ b)
  · intro a b _ _ hab hba; omega
  · have := List.pairwise_mergeSort (le := fun a b => decide (a ≤ b)) (by intro a b c; simp; omega)
      (by intro a b; simp; omega) (m.map (·.1))
    exact this.imp (by intro a b h; simpa using h)
  · exact hm.imp (fun h => Nat.le_of_lt h)
  · exact List.mergeSort_perm _ _

/-- The model's search is a function: same tuning, database, query and options ⇒ same answer
    (there is no schedule argument to vary; `sites_clean` is what licenses that modelling decision). -/
theorem search_function {S : Type} [ScoreOps S] (T : Tuning S) (db db' : Db) (q q' : Bytes) (o : Opts S)
    (hdb : db = db') (hq : q = q') : search T db q o = search T db' q' o := by subst hdb hq; rfl

/-! Non-vacuity: two different enumerations of a three-key map sort to the same list. -/
example : [3, 1, 2].mergeSort (fun a b => decide (a ≤ b)) = [2, 3, 1].mergeSort (fun a b => decide (a ≤ b)) :=
  sort_ints_sched_indep _ _ (by decide)
/-- why the sort matters: without it the two enumerations are different lists -/
example : ([3, 1, 2] : List Nat) ≠ [2, 3, 1] := by decide

end Wtf.C02
