import WtfModel.Proofs.LruHist
import WtfModel.Gen.Lru

/-!
  C12 — the result cache is a correct bounded LRU with a staleness limit.
  Property theorems only (helper lemmas live in Proofs/Lru*.lean).  All statements quantify over
  every key/value type, every requested capacity (incl. non-positive), every lifetime and every
  history of operations; `Gen.Lru.defaultCapacity` is regenerated from the source on every run.
-/
namespace Wtf.C12
open Wtf.Lru

variable {κ ν : Type} [DecidableEq κ]

abbrev D := Wtf.Gen.Lru.defaultCapacity

/-- the regenerated default capacity is usable -/
theorem default_capacity_pos : 0 < D := by decide

/-- Every reachable state: the capacity is the requested one (or the default for a non-positive
    request), never more entries than that, no key twice. -/
theorem bounded (cap ttl : Int) (hist : List (Int × Op κ ν)) :
    let s := final (init D cap ttl : State κ ν) hist
    s.cap = effCap D cap ∧ 0 < s.cap ∧ s.entries.length ≤ s.cap ∧ (s.entries.map (·.key)).Nodup := by
  have hi := run_inv (init_inv D default_capacity_pos cap ttl (κ := κ) (ν := ν)) hist
  have hc := run_cap (init D cap ttl : State κ ν) hist
  exact ⟨hc.1, hi.capPos, hi.bounded, hi.nodup⟩

theorem effCap_spec (cap : Int) : (cap ≤ 0 → effCap D cap = D) ∧ (0 < cap → (effCap D cap : Int) = cap) := by
  unfold effCap
  constructor
  · intro h; simp [h]
  · intro h
    have : ¬ cap ≤ 0 := by omega
    simp only [this, ↓reduceIte]
    omega

/-- Every reachable state satisfies the structural invariant used below (in particular: the list is
    strictly ordered by recency of use, most recent first). -/
theorem reachable_inv (cap ttl : Int) (hist : List (Int × Op κ ν)) :
    Inv (final (init D cap ttl : State κ ν) hist) :=
  run_inv (init_inv D default_capacity_pos cap ttl) hist

/-- Inserting a new key into a full cache discards exactly one entry: the one used (read or written)
    longest ago; everything else is kept, in order, behind the new entry. -/
theorem victim {s : State κ ν} (hinv : Inv s) (now : Int) (k : κ) (v : ν)
    (habs : find? k s.entries = none) (hfull : s.entries.length = s.cap) :
    ∃ keep vic, s.entries = keep ++ [vic] ∧
      (put s now k v).entries = { key := k, val := v, created := now, stored := now, used := s.tick } :: keep ∧
      (∀ e ∈ s.entries, vic.used ≤ e.used) ∧
      (put s now k v).evictions = s.evictions + 1 := by
  have hne : s.entries ≠ [] := by
    intro h; have := hinv.capPos; rw [h] at hfull; simp at hfull; omega
  refine ⟨s.entries.dropLast, s.entries.getLast hne, (List.dropLast_concat_getLast hne).symm, ?_, ?_, ?_⟩
  · unfold put
    simp only [habs, List.length_cons, hfull, Nat.lt_succ_self, ↓reduceIte]
    exact List.dropLast_cons_of_ne_nil hne
  · intro e he
    have hpw := hinv.recency
    rw [← List.dropLast_concat_getLast hne, List.map_append, List.pairwise_append] at hpw
    rw [← List.dropLast_concat_getLast hne, List.mem_append] at he
    cases he with
    | inl he =>
      have := hpw.2.2 e.used (List.mem_map_of_mem he) (s.entries.getLast hne).used (by simp)
      omega
    | inr he => simp at he; subst he; exact Nat.le_refl _
  · unfold put
    simp only [habs, List.length_cons, hfull, Nat.lt_succ_self, ↓reduceIte]

/-- With room left nothing is discarded; updating an existing key discards nothing either. -/
theorem no_eviction_unless_full {s : State κ ν} (now : Int) (k : κ) (v : ν) :
    (find? k s.entries = none → s.entries.length < s.cap →
      (put s now k v).entries = { key := k, val := v, created := now, stored := now, used := s.tick } :: s.entries ∧
      (put s now k v).evictions = s.evictions) ∧
    (∀ e, find? k s.entries = some e →
      (put s now k v).entries = { e with val := v, stored := now, used := s.tick } :: remove k s.entries ∧
      (put s now k v).evictions = s.evictions) := by
  constructor
  · intro habs hlt
    unfold put
    have : ¬ s.cap < s.entries.length + 1 := by omega
    simp only [habs, List.length_cons, this, ↓reduceIte, and_self]
  · intro e he
    unfold put
    simp only [he, and_self]

/-- A lookup that succeeds returns the value most recently stored under that key (and not deleted or
    cleared since), and — when a lifetime is configured and the clock is monotone — that value was
    stored no longer ago than the lifetime. -/
theorem latest_and_fresh (cap ttl : Int) (hist : List (Int × Op κ ν)) (t0 : Int) (hm : Mono t0 hist)
    (now : Int) (k : κ) (v : ν)
    (hget : (get (final (init D cap ttl : State κ ν) hist) now k).2 = some v) :
    ∃ t, latest hist (fun _ => none) k = some (v, t) ∧ (0 < ttl → now - t ≤ ttl) := by
  have hag : Agree (init D cap ttl : State κ ν) (fun _ => none) t0 := by
    intro e he; simp [init] at he
  have h := run_agree hag hist hm
  obtain ⟨e, hmem, hk, hv, hexp⟩ := get_some hget
  obtain ⟨a, b, _⟩ := h e hmem
  refine ⟨e.stored, by rw [← hk, ← hv]; exact a, ?_⟩
  intro hpos
  have httl : (final (init D cap ttl : State κ ν) hist).ttl = ttl := (run_cap _ hist).2
  rw [httl] at hexp
  simp only [expired, hpos, decide_true, Bool.true_and, decide_eq_false_iff_not] at hexp
  omega

/-- A sweep removes only expired entries (a suffix of the recency list), reports how many it removed
    and touches nothing else. -/
theorem sweep_only_expired (s : State κ ν) (now : Int) :
    ∃ removed, s.entries = (cleanup s now).1.entries ++ removed ∧
      (cleanup s now).2 = removed.length ∧
      (∀ e ∈ removed, 0 < s.ttl ∧ s.ttl < now - e.created) ∧
      (cleanup s now).1.hits = s.hits ∧ (cleanup s now).1.misses = s.misses ∧
      (cleanup s now).1.evictions = s.evictions := by
  obtain ⟨r, h1, h2, h3, _, h5, h6, h7, _⟩ := cleanup_spec s now
  refine ⟨r, h1, h2, ?_, h5, h6, h7⟩
  intro e he
  have := h3 e he
  simpa [expired] using this

/-- Hit / miss counters equal what the visible trace says happened since the last clear. -/
theorem stats_hits_misses (cap ttl : Int) (hist : List (Int × Op κ ν)) :
    let r := run (init D cap ttl : State κ ν) hist
    (r.1.hits, r.1.misses) = tally (0, 0) hist r.2 :=
  run_tally (init D cap ttl) hist

/-- The eviction counter grows by one exactly on an insertion of a new key into a full cache and is
    reset only by clear; the size statistic is the number of entries. -/
theorem stats_evictions_size {s : State κ ν} (h : Inv s) (now : Int) (op : Op κ ν) :
    (step s now op).1.evictions = (match op with | .clear => 0 | _ => s.evictions + evDelta s op) ∧
    (step s now .stats).2 = .stats s.hits s.misses s.evictions s.entries.length s.cap ∧
    (step s now .size).2 = .nat s.entries.length :=
  ⟨step_evictions h now op, rfl, rfl⟩

/-! Non-vacuity: concrete reachable states meeting the hypotheses above. -/

private def demo : State Nat Nat := final (init D 2 10) [(0, .put 1 10), (1, .put 2 20), (2, .get 1)]

example : find? 3 demo.entries = none ∧ demo.entries.length = demo.cap := by decide
example : (put demo 3 3 30).entries.map (·.key) = [3, 1] := by decide   -- key 2 (used longest ago) is the victim
example : (get (final (init D 2 10 : State Nat Nat) [(0, .put 1 10), (5, .put 1 11)]) 9 1).2 = some 11 := by decide
example : (get (final (init D 2 10 : State Nat Nat) [(0, .put 1 10)]) 11 1).2 = none := by decide
example : Mono 0 ([(0, .put 1 10), (5, .put 1 11)] : List (Int × Op Nat Nat)) := by simp [Mono]

end Wtf.C12
