import WtfModel.Props.C04
import WtfModel.Proofs.LegacyGate

/-!
  C04, continued — the legacy entry points with their own gates, on the correspondence-validated models of
  Model/LegacyEntry.lean (domain `legacy2`):

  * `legacy_pipeline_modelled` — SearchWithPipelineOptions (`wtf pipeline`): in a pipeline-only search every
    result is a pipeline command.  (The base module proves this on a local transliteration of the loop;
    here it is the model that is compared bit for bit with the real function, scorer included.)
  * `search_with_options_platform` — SearchWithOptions has a platform gate of its own, `(db).calculateCommandScore`:
    a command that declares platforms is scored only if one of them is the 'cross-platform' tag or the host,
    or if it is a recognised cross-platform tool.  Every result therefore satisfies the property's clause
    `Allowed` for the HOST with no platform request (`hostOnly`).
  * `search_with_fuzzy_platform` — SearchWithFuzzy: each result comes from the exact half (host gate as
    above) or from the typo half, which applies `passesFilters` with the caller's options.

  Not claimed (out of the property's scope: these exported functions are called by nothing outside
  search.go, and the lead's decision is to document rather than repair): SearchWithOptions and the exact half
  of SearchWithFuzzy never read `Platforms`, `NoCrossPlatform`, `AllPlatforms` or `PipelineOnly`; a request
  `{Platforms: [windows], NoCrossPlatform: true}` on a linux host still returns linux-only entries.  The
  harness counts such answers under `out-of-scope:<entry>-ignores-filter-options`.
-/
namespace Wtf.C04
open Wtf.Filters Wtf.Search Wtf.Legacy Wtf.LegacyScore Wtf.LegacyEntry ScoreOps

variable {S : Type} [ScoreOps S]

/-- the switches SearchWithOptions implements are those of a default request -/
theorem hostOnly_is_default : hostOnly = ({ limit := 0, pipelineBoost := (zero : S) } : Opts S).filter := rfl

/-- Pipeline clause for the modelled SearchWithPipelineOptions (scorer included). -/
theorem legacy_pipeline_modelled (fin : S → S) (ri : RuneInfo) (db : Db) (q : Bytes) (o : Opts S) (hp : o.pipelineOnly = true) :
    ∀ x ∈ searchPipeline fin ri db q o, ∃ c, db[x.1]? = some c ∧ isPipeline ri c = true :=
  searchPipeline_gate fin ri db q o hp

/-- Platform clause for SearchWithOptions: every result is a command of the database that the property
    allows on the host when no platform is requested. -/
theorem search_with_options_platform (fin : S → S) (ri : RuneInfo) (host : Bytes) (db : Db) (q : Bytes) (limit : Int)
    (boosts : List (Bytes × S)) :
    ∀ x ∈ searchWithOptions fin ri host db q limit boosts, ∃ c, db[x.1]? = some c ∧ Allowed ri host hostOnly c := by
  intro x hx
  obtain ⟨c, hc, hp⟩ := searchWithOptions_platform fin ri host db q limit boosts x hx
  refine ⟨c, hc, ((passes_iff ri host hostOnly c).mp ?_).1⟩
  unfold passes
  rw [hp]; rfl

/-- SearchWithFuzzy: every result is allowed on the host (exact half) or allowed under — and, in pipeline-only
    requests, a pipeline command as demanded by — the caller's options (typo half). -/
theorem search_with_fuzzy_platform (fin : S → S) (T : Tuning S) (db : Db) (q : Bytes) (o : Opts S) (r : List (Nat × S))
    (h : searchWithFuzzy fin T db q o = .ok r) :
    ∀ x ∈ r, ∃ c, db[x.1]? = some c ∧
      (Allowed T.ri T.host hostOnly c ∨
       (Allowed T.ri T.host o.filter c ∧ (o.pipelineOnly = true → isPipeline T.ri c = true))) := by
  have hex : ∀ x ∈ searchWithOptions fin T.ri T.host db q (exactLimit (fuzzyLimit o.limit)) o.boosts,
      ∃ c, db[x.1]? = some c ∧ Allowed T.ri T.host hostOnly c :=
    search_with_options_platform fin T.ri T.host db q _ o.boosts
  unfold searchWithFuzzy at h
  simp only at h
  split at h
  · simp only [Except.ok.injEq] at h; subst h
    intro x hx
    obtain ⟨c, hc, ha⟩ := hex x (List.mem_of_mem_take hx)
    exact ⟨c, hc, .inl ha⟩
  · split at h
    · split at h
      · cases h
      · rename_i fz hfz
        simp only [Except.ok.injEq] at h
        subst h
        intro x hx
        have hx' : x ∈ combinedList db _ fz := (mem_sortDesc _).mp (List.mem_of_mem_take hx)
        rw [combinedList_eq, List.mem_append] at hx'
        cases hx' with
        | inl hx' =>
          obtain ⟨c, hc, ha⟩ := hex x (exactPart_sub db _ x hx')
          exact ⟨c, hc, .inl ha⟩
        | inr hx' =>
          obtain ⟨y, hy, rfl⟩ := typoPart_sub db _ fz x hx'
          obtain ⟨c, hc, hp⟩ := performFuzzy_eligible T db q _ _ fz hfz y hy
          exact ⟨c, hc, .inr ((passes_iff _ _ _ _).mp hp)⟩
    · simp only [Except.ok.injEq] at h; subst h
      intro x hx
      obtain ⟨c, hc, ha⟩ := hex x (List.mem_of_mem_take hx)
      exact ⟨c, hc, .inl ha⟩

end Wtf.C04
