import WtfModel.Props.C07b
import WtfModel.Model.Modelled
import WtfModel.Proofs.GoSort
import WtfModel.Proofs.GoSortLex

/-!
  C07, continued — the premise `SortOK` (the fuzzy library's final `sort.Stable` yields a score-sorted permutation) is
  discharged for every parameter set whose `fuzzySort` is `GoSort.fuzzyStable`, the transliteration of Go's `sort.Stable`
  run with the library's non-strict `Less` (`Model/GoSort.lean`; proofs `Proofs/GoSort.lean`; tie: correspondence domain
  `gosort`, and the `fz` line of every search-family case).  `Wtf.Search.modelledTuning … GoSort.fuzzyStable …` — the
  parameter set the search driver runs against the real code — is such a parameter set by definition
  (`sortOK_modelledTuning`).

  The theorems below are the C07 theorems that assumed `SortOK`, with `T.fuzzySort = GoSort.fuzzyStable` in its place;
  `FoldOK` (no Unicode table entry folds to 0) stays where it was.
-/
namespace Wtf.C07
open Wtf.Filters Wtf.Search Wtf.Fuzzy Wtf.Utf8

variable {S : Type} [ScoreOps S]

omit [ScoreOps S] in
/-- the modelled `sort.Stable` satisfies the sort contract -/
theorem sortOK_of_goStable (T : Tuning S) (h : T.fuzzySort = GoSort.fuzzyStable) : SortOK T := by
  intro ms
  rw [h]
  exact ⟨GoSort.fuzzyStable_perm ms, GoSort.fuzzyStable_sorted ms⟩

/-- … in particular the parameter set of the end-to-end theorem and of the search driver -/
theorem sortOK_modelledTuning (idf : Nat → Nat → S) (host : Bytes) (ri : RuneInfo) (normQ : Bytes → Bytes) (sqrt : S → S)
    (minSim : S) (idx? : Option (Tfidf.Index S)) (db : Db) :
    SortOK (modelledTuning idf host ri normQ GoSort.fuzzyStable sqrt minSim idx? db) :=
  sortOK_of_goStable _ rfl

/-- **Every fallback result is a genuine match** (`genuine` without the sort premise) -/
theorem genuine_sorted (T : Tuning S) (hf : FoldOK T.ri) (hs : T.fuzzySort = GoSort.fuzzyStable) (db : Db) (q : Bytes)
    (o : Opts S) (r : List (Nat × S))
    (hoff : search T db q { o with useFuzzy := false } = .ok [])
    (hon : search T db q { o with useFuzzy := true } = .ok r) :
    ∀ x ∈ r, ∃ c sc idxs, db[x.1]? = some c ∧
      matchOne T.ri (T.normQ q) (fuzzyTarget c) = .ok (some (sc, idxs)) ∧
      Occurs T.ri.eqFold (runes (T.normQ q)) (runes (fuzzyTarget c)) ∧
      (o.fuzzyThreshold ≠ 0 → o.fuzzyThreshold ≤ sc) ∧
      x.2 = normalizeFuzzy sc ∧
      passes T.ri T.host o.filter c = true :=
  genuine T hf (sortOK_of_goStable T hs) db q o r hoff hon

/-- **Best match first** (`best_first` without the sort premise): the fallback's answer is the image, under the score
    normalisation, of a list of (command, library score) pairs with non-increasing library score -/
theorem best_first_sorted (T : Tuning S) (hs : T.fuzzySort = GoSort.fuzzyStable) (db : Db) (q : Bytes) (o : Opts S)
    (r : List (Nat × S))
    (hoff : search T db q { o with useFuzzy := false } = .ok [])
    (hon : search T db q { o with useFuzzy := true } = .ok r) :
    ∃ ms : List (Nat × Int), r = ms.map (fun m => (m.1, normalizeFuzzy m.2)) ∧
      ms.Pairwise (fun a b => a.2 ≥ b.2) :=
  best_first T (sortOK_of_goStable T hs) db q o r hoff hon

/-- … hence by non-increasing reported score, with no premise at all besides the score laws
    (`best_first_reported` without the sort premise) -/
theorem best_first_reported_sorted [ScoreLaws S] (T : Tuning S) (hs : T.fuzzySort = GoSort.fuzzyStable) (db : Db)
    (q : Bytes) (o : Opts S) (r : List (Nat × S))
    (hoff : search T db q { o with useFuzzy := false } = .ok [])
    (hon : search T db q { o with useFuzzy := true } = .ok r) :
    r.Pairwise (fun a b => ScoreOps.lt a.2 b.2 = false) :=
  best_first_reported T (sortOK_of_goStable T hs) db q o r hoff hon

/-- **Completeness without a threshold** (`complete` without the sort premise) -/
theorem complete_sorted (T : Tuning S) (hf : FoldOK T.ri) (hs : T.fuzzySort = GoSort.fuzzyStable) (db : Db) (q : Bytes)
    (o : Opts S) (h0 : o.fuzzyThreshold = 0) (hq : T.normQ q ≠ [])
    (hoff : search T db q { o with useFuzzy := false } = .ok [])
    (hd : ∃ (i : Nat) (c : Cmd), db[i]? = some c ∧ passes T.ri T.host o.filter c = true ∧
      Occurs T.ri.eqFold (runes (T.normQ q)) (runes (fuzzyTarget c))) :
    ∃ r, search T db q { o with useFuzzy := true } = .ok r ∧ r ≠ [] :=
  complete T hf (sortOK_of_goStable T hs) db q o h0 hq hoff hd

/-- **The order of the fallback's answer is fixed by a rule**: best library score first, and commands with EQUAL library
    score in reverse database order (the later command first).  That is what Go's `sort.Stable` does with the library's
    non-strict `Less` on matches that arrive in database order (`GoSort.fuzzyStable_lex`); the answer is an in-order
    sub-list of that (the eligible, above-threshold matches, cut at the limit). -/
theorem fallback_tie_order (T : Tuning S) (hs : T.fuzzySort = GoSort.fuzzyStable) (db : Db) (q : Bytes) (o : Opts S)
    (r : List (Nat × S))
    (hoff : search T db q { o with useFuzzy := false } = .ok [])
    (hon : search T db q { o with useFuzzy := true } = .ok r) :
    ∃ ms : List (Nat × Int), r = ms.map (fun m => (m.1, normalizeFuzzy m.2)) ∧
      ms.Pairwise (fun a b => a.2 > b.2 ∨ (a.2 = b.2 ∧ a.1 > b.1)) := by
  rw [fallback_only_when_nothing T db q o hoff] at hon
  obtain ⟨ms, hfind, hr, _⟩ := fuzzySearch_entries T db (T.normQ q) { o with useFuzzy := true } (effLimit o) hon
  obtain ⟨sub, hsub, _, hcol⟩ :=
    fuzzyCollect_sublist T db { o with useFuzzy := true } (effLimit o * fuzzyMult) (T.fuzzySort ms) []
  refine ⟨sub.take (effLimit o), ?_, ?_⟩
  · rw [hr, hcol]; simp [List.map_take]
  · rw [hs] at hsub
    exact ((GoSort.fuzzyStable_lex ms (Wtf.Search.findNoSort_spec _ _ _ _ hfind).1).sublist hsub).sublist (List.take_sublist _ _)

omit [ScoreOps S] in
/-- the library's sort in closed form, as a statement of its own: on matches in index order, the unique permutation
    ordered by score (best first) and, within a score, by index (highest first) — whatever the block size or merge
    strategy of the toolchain's `sort.Stable` -/
theorem fuzzy_sort_closed_form (ms : List (Nat × Int)) (h : (ms.map (·.1)).Pairwise (· < ·)) :
    (GoSort.fuzzyStable ms).Perm ms ∧
    (GoSort.fuzzyStable ms).Pairwise (fun a b => a.2 > b.2 ∨ (a.2 = b.2 ∧ a.1 > b.1)) ∧
    ∀ l : List (Nat × Int), l.Perm ms → l.Pairwise (fun a b => a.2 > b.2 ∨ (a.2 = b.2 ∧ a.1 > b.1)) →
      l = GoSort.fuzzyStable ms :=
  ⟨GoSort.fuzzyStable_perm ms, GoSort.fuzzyStable_lex ms h, GoSort.fuzzyStable_unique ms h⟩

/-! ### non-vacuity -/
section examples
open Example

private def TS : Tuning Q := { (tuning) with fuzzySort := GoSort.fuzzyStable }
private def dbS : Db := [mk "ls -la" "list files" [], mk "tar czf x" "compress directory" [], mk "zip" "zip things" [],
  mk "ls -la" "list files" [], mk "lint" "lint the tree" []]

/-- the premise is satisfiable … -/
example : TS.fuzzySort = GoSort.fuzzyStable := rfl
example : FoldOK TS.ri := by intro f hf; cases hf
/-- … and the theorems speak about a fallback that answers: "lt" matches nothing lexically; with typo tolerance the
    matching commands come best score first (`lint …`: 14, the two `ls -la list files`: −10 each — in reverse database
    order, the tie order of the non-strict `Less`) -/
example : ids (search TS dbS (bs "lt") opts) = some [] ∧
    ids (search TS dbS (bs "lt") { opts with useFuzzy := true }) = some [4, 3, 0] := by decide +kernel

end examples

end Wtf.C07
