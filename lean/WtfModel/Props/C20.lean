import WtfModel.Model.Search
import WtfModel.Proofs.NormQ

/-!
  C20 — letter case and spare white space in the query never change the answer.

  At /repo HEAD `SearchUniversal` first replaces the query by `strings.ToLower(strings.TrimSpace(query))`
  (the translator asserts this shape: fact `engineNormalisesQuery`, C05) and every later stage — tokeniser,
  NLP analysis, TF-IDF re-ranker, typo fallback — receives only that normal form.  The model mirrors it
  (`Tuning.normQ`), so the theorems below hold on every path (lexical, NLP, fuzzy) and for all options.
  "Differ only in the case of their letters" is formalised as `CaseVariant`: the same number of runes, and
  corresponding runes have the same lower-case form (e.g. k / K / U+212A KELVIN SIGN; not U+0130, whose
  lower-case form `i` it shares with nothing that folds to it).
-/
namespace Wtf.C20
open Wtf.Search Wtf.GoStr Wtf.NormQ Wtf.Utf8

/-- The engine sees a query only through its normal form: equal normal forms ⇒ identical answers,
    on every path and for all options (scores included). -/
theorem search_normal_form {S : Type} [ScoreOps S] (T : Tuning S) (db : Db) (q q' : Bytes) (o : Opts S)
    (h : T.normQ q = T.normQ q') : search T db q o = search T db q' o := by
  unfold search
  rw [h]

/-- `q'` re-spells `q`: rune for rune, the same lower-case form (invalid bytes stand for themselves) -/
def CaseVariant (ri : RuneInfo) (q q' : Bytes) : Prop :=
  (runes q).map ri.lower = (runes q').map ri.lower

/-- strings.ToLower identifies case variants -/
theorem toLower_caseVariant (ri : RuneInfo) (q q' : Bytes) (h : CaseVariant ri q q') :
    toLower ri q = toLower ri q' := by
  rw [toLower_eq_gen, toLower_eq_gen, toLowerGen_runes, toLowerGen_runes, h]

/-- Case variants of the (already trimmed) query get the same answer. -/
theorem case_insensitive {S : Type} [ScoreOps S] (T : Tuning S) (ri : RuneInfo) (db : Db) (q q' : Bytes)
    (o : Opts S) (hT : T.normQ = normQ ri) (htrim : CaseVariant ri (trimSpace ri q) (trimSpace ri q')) :
    search T db q o = search T db q' o := by
  apply search_normal_form
  rw [hT]
  exact toLower_caseVariant ri _ _ htrim

/-- Outer white space never matters: queries with the same trimmed form get the same answer. -/
theorem padding_insensitive {S : Type} [ScoreOps S] (T : Tuning S) (ri : RuneInfo) (db : Db) (q q' : Bytes)
    (o : Opts S) (hT : T.normQ = normQ ri) (h : trimSpace ri q = trimSpace ri q') :
    search T db q o = search T db q' o := by
  apply search_normal_form
  rw [hT, normQ, normQ, h]

/-- The cache key's query component is the same normal form, so case variants share an entry safely
    (C05 proves that sharing is sound; this is the "same key" half). -/
theorem same_key_component (ri : RuneInfo) (q q' : Bytes)
    (h : CaseVariant ri (trimSpace ri q) (trimSpace ri q')) : normQ ri q = normQ ri q' :=
  toLower_caseVariant ri _ _ h

/-! Non-vacuity -/
private def kelvin : RuneFacts :=
  { cp := 0x212A, lower := 0x6B, foldRep := 0x4B, isLower := false, isUpper := true, isSpace := false, isLetNum := true }
private def dotI : RuneFacts :=
  { cp := 0x130, lower := 0x69, foldRep := 0x130, isLower := false, isUpper := true, isSpace := false, isLetNum := true }
private def ri0 : RuneInfo := { table := [kelvin, dotI] }

/-- "looK" written with KELVIN SIGN is a case variant of "look" … -/
example : CaseVariant ri0 [0x6C, 0x6F, 0x6F, 0x6B] [0x6C, 0x6F, 0x6F, 0xE2, 0x84, 0xAA] := by
  unfold CaseVariant; decide
/-- … and "LOOK" of "look" -/
example : CaseVariant ri0 [0x4C, 0x4F, 0x4F, 0x4B] [0x6C, 0x6F, 0x6F, 0x6B] := by unfold CaseVariant; decide
/-- U+0130 lower-cases to `i` although it does not fold to it: the documented exception of the property -/
example : (runes [0xC4, 0xB0]).map ri0.lower = [0x69] ∧ ri0.eqFold 0x130 0x69 = false := by decide

end Wtf.C20
