import Mathlib.Algebra.Order.Ring.Cast
import WtfModel.Proofs.Embedding
import WtfModel.Proofs.EmbeddingScore
import WtfModel.Proofs.ScoreReal
import WtfModel.Gen.Embedding
import WtfModel.Gen.Constants

/-!
  C19 — semantic embeddings are strictly optional and their files cannot hurt.

  Property theorems only (helper lemmas: `Proofs/Embedding.lean`, `Proofs/EmbeddingScore.lean`).
  Quantifiers: every byte string as a word-vector / command-embedding file, every vector, every
  result list, every index.  `Gen.Embedding.*` and `Gen.Constants.Semantic*` are regenerated from
  the source on every run; the theorems are stated over them.

  What is *not* here (see `level_note` of lib/props/c19.py):
  * floats: the order theorems are over linearly ordered fields (`ℝ` is an instance); for the
    float function the range is guaranteed by the clamp (`clamp_range`, any linear order, any
    non-NaN input) and checked on the real floats by the monitor;
  * actual memory: `alloc_bound` bounds the sizes the loaders *request*; resident memory of the
    real process is measured by the check in a capped child process;
  * `search … (emb := none) = searchNoSemantic …` for the whole of `SearchUniversal`: `absent` is
    stated on the model of the last step of `applyPostScoringBoosts`, the only place the index is
    consulted (fact `semanticGatedByIndex`, re-extracted from the source on every run).
-/
namespace Wtf.C19
open Wtf Wtf.Embedding

/-- the literal `Dimension: 100` of `LoadWordVectors`, regenerated -/
abbrev D : Nat := Gen.Embedding.wvDimension
abbrev alphaQ : Q := Gen.Constants.SemanticAlpha
abbrev floorQ : Q := Gen.Constants.SemanticMinScore

/-! ## The regenerated facts satisfy what the model and the theorems assume -/

/-- The constants of the two size checks are the ones the model uses (header 4 / 8 bytes, 2 bytes of
    word length, 4 bytes per component), the checks precede every allocation sized from a header, the
    allocation sites are the ones the allocation log records, the cosine has its guards and clamp, the
    semantic stage is gated by the index and has the modelled formula and a stable re-sort; the
    dimension is large enough for the constant `3` of `alloc_bound`; `0 ≤ α`, `0 ≤ floor`. -/
theorem gen_facts :
    Gen.Embedding.wvHeaderBytes = 4 ∧ Gen.Embedding.wvRecordFixedBytes = 2 ∧ Gen.Embedding.wvF32Bytes = 4 ∧
    Gen.Embedding.ceHeaderBytes = 8 ∧ Gen.Embedding.ceF32Bytes = 4 ∧
    Gen.Embedding.wvSizeCheckBeforeAlloc = true ∧ Gen.Embedding.wvAllocSites = true ∧
    Gen.Embedding.ceSizeCheckBeforeAlloc = true ∧ Gen.Embedding.ceAllocSites = true ∧
    Gen.Embedding.remainingBytesShape = true ∧ Gen.Embedding.cosineGuardsAndClamp = true ∧
    Gen.Embedding.semanticGatedByIndex = true ∧ Gen.Embedding.boostFormulaAndStableSort = true ∧
    mapEntryCost ≤ 2 + 4 * D ∧
    0 ≤ alphaQ.num ∧ 0 < alphaQ.den ∧ 0 ≤ floorQ.num ∧ 0 < floorQ.den := by decide

/-! ## Clause 1 — without embedding files the feature does not exist -/

/-- With no index attached the semantic step of `applyPostScoringBoosts` is the identity, for every
    result list, query and arithmetic; and it is the only place that consults the index. -/
theorem absent {S V : Type} [EScoreOps S] [EScoreOps V] (α floor : S) (widen : V → S) (dbSize : Nat)
    (tokens : List Bytes) (results : List (Nat × S)) :
    Gen.Embedding.semanticGatedByIndex = true ∧
    postSemantic α floor widen (none : Option (Index V)) dbSize tokens results = .ok results :=
  ⟨by decide, rfl⟩

/-- `LoadEmbeddings`: no word-vector file, or one that does not load, leaves the database without an
    index (whatever the command-embedding file holds); a word-vector file that loads gives an index
    even if the command-embedding file is absent or damaged. -/
theorem absent_files (dim : Nat) (cmdFile : Option Bytes) :
    loadEmbeddings dim none cmdFile = none ∧
    (∀ g e, (parseWordVectors dim g).res = .error e → loadEmbeddings dim (some g) cmdFile = none) ∧
    (∀ g recs, (parseWordVectors dim g).res = .ok recs →
      ∃ cmds, loadEmbeddings dim (some g) cmdFile = some ⟨dim, recs, cmds⟩) := by
  refine ⟨rfl, ?_, ?_⟩
  · intro g e h; simp [loadEmbeddings, h]
  · intro g recs h; simp [loadEmbeddings, h]

/-! ## Clause 2 — the semantic stage only raises scores, by a bounded factor, and keeps order -/

section Stage
variable {S : Type} [Field S] [LinearOrder S] [IsStrictOrderedRing S] [HasSqrt S]

/-- the regenerated `SemanticAlpha` / `SemanticMinScore` in the score type -/
def alpha : S := EScoreOps.ofQ alphaQ
def floor : S := EScoreOps.ofQ floorQ

theorem alpha_nonneg : (0 : S) ≤ alpha := by
  have h := gen_facts.2.2.2.2.2.2.2.2.2.2.2.2.2.2
  rw [alpha, ops_ofQ]
  exact div_nonneg (Int.cast_nonneg h.1) (Nat.cast_nonneg _)

theorem floor_nonneg : (0 : S) ≤ floor := by
  have h := gen_facts.2.2.2.2.2.2.2.2.2.2.2.2.2.2
  rw [floor, ops_ofQ]
  exact div_nonneg (Int.cast_nonneg h.2.2.1) (Nat.cast_nonneg _)

/-- For every result list with non-negative scores and every similarity table with values `≤ 1`
    (`cos_range` gives that for the real table): the output of the stage is a permutation of the
    boosted list — same commands —, it is in descending score order, each score `s` became `s'`
    with `s ≤ s' ≤ (1+α)·s`, and a result whose similarity is unknown or below the floor is
    unchanged.  Ties keep their previous relative order (stable). -/
theorem raises_bounded (sim : Nat → Option S) (hsim : ∀ id x, sim id = some x → x ≤ 1)
    (rs : List (Nat × S)) (hs : ∀ r ∈ rs, 0 ≤ r.2) :
    let out := semanticStage (alpha : S) floor sim rs
    out.Perm (rs.map (boostOne alpha floor sim)) ∧
    (out.map (·.1)).Perm (rs.map (·.1)) ∧
    out.Pairwise (fun x y => y.2 ≤ x.2) ∧
    (∀ r ∈ rs, (boostOne (alpha : S) floor sim r).1 = r.1 ∧
        r.2 ≤ (boostOne (alpha : S) floor sim r).2 ∧
        (boostOne (alpha : S) floor sim r).2 ≤ (1 + alpha) * r.2 ∧
        ((∀ x, sim r.1 = some x → x < floor) → boostOne (alpha : S) floor sim r = r)) ∧
    (∀ x y, y.2 ≤ x.2 → [x, y].Sublist (rs.map (boostOne alpha floor sim)) → [x, y].Sublist out) := by
  intro out
  have hspec : ∀ r ∈ rs, _ := fun r hr =>
    boostOne_spec (alpha : S) floor alpha_nonneg floor_nonneg sim hsim r (hs r hr)
  have hperm : out.Perm (rs.map (boostOne alpha floor sim)) := sortDesc_perm _
  refine ⟨hperm, ?_, sortDesc_sorted _, hspec, fun x y hxy h => sortDesc_stable _ x y hxy h⟩
  have h1 := hperm.map (·.1)
  rw [List.map_map] at h1
  have h2 : (rs.map ((·.1) ∘ boostOne (alpha : S) floor sim)) = rs.map (·.1) :=
    List.map_congr_left (fun r hr => (hspec r hr).1)
  rw [h2] at h1
  exact h1

/-- The whole of `applySemanticBoost`, for every index, token list and result list: either the list is
    returned untouched (no known token, or no command embeddings), or it went through the stage with a
    similarity table all of whose entries are cosines, hence in `[-1, 1]` — so `raises_bounded`
    applies to it. -/
theorem boost_is_stage [SqrtLaws S] {V : Type} [EScoreOps V] (widen : V → S) (idx : Index V) (dbSize : Nat)
    (tokens : List Bytes) (rs out : List (Nat × S))
    (h : applySemanticBoost (alpha : S) floor widen idx dbSize tokens rs = .ok out) :
    out = rs ∨ ∃ sim : Nat → Option S, (∀ id x, sim id = some x → -1 ≤ x ∧ x ≤ 1) ∧
      out = semanticStage alpha floor sim rs := by
  unfold applySemanticBoost at h
  split at h
  · cases h
  · rename_i q hq
    split at h
    · cases h; exact Or.inl rfl
    · rename_i qv
      split at h
      · cases h; exact Or.inl rfl
      · rename_i sims hsims
        cases h
        refine Or.inr ⟨_, ?_, rfl⟩
        intro id x hx
        simp only [semanticScores] at hsims
        split at hsims
        · cases hsims
        · cases hsims
          split at hx
          · have hmem := List.mem_of_getElem? hx
            simp only [List.mem_map] at hmem
            obtain ⟨c, _, rfl⟩ := hmem
            exact cosine_range _ _
          · cases hx

/-- "keeps the result list ordered": whatever path `postSemantic` takes (no index, empty list, no
    known token, no command embeddings, or the stage) a list in descending score order stays in
    descending score order; after the stage it is in that order even if it was not before. -/
theorem keeps_ordered [SqrtLaws S] {V : Type} [EScoreOps V] (widen : V → S) (emb : Option (Index V)) (dbSize : Nat)
    (tokens : List Bytes) (rs out : List (Nat × S)) (hsorted : rs.Pairwise (fun x y => y.2 ≤ x.2))
    (h : postSemantic (alpha : S) floor widen emb dbSize tokens rs = .ok out) :
    out.Pairwise (fun x y => y.2 ≤ x.2) := by
  unfold postSemantic at h
  split at h
  · cases h; exact hsorted
  · split at h
    · cases h; exact hsorted
    · rcases boost_is_stage widen _ dbSize tokens rs out h with rfl | ⟨sim, _, rfl⟩
      · exact hsorted
      · exact sortDesc_sorted _

end Stage

/-! ## Clause 3 — cosine similarity -/

/-- Symmetry needs nothing but a commutative product — in particular no associativity and no
    exactness, so the statement is also the one the float function is tested against bit for bit. -/
theorem cos_symm {S : Type} [EScoreOps S] (hmul : ∀ x y : S, EScoreOps.mul x y = EScoreOps.mul y x)
    (a b : List S) : cosine a b = cosine b a := cosine_symm hmul a b

/-- symmetry over every ordered field -/
theorem cos_symm_field {S : Type} [Field S] [LinearOrder S] [HasSqrt S] (a b : List S) :
    cosine a b = cosine b a := cosine_symm (fun x y => mul_comm x y) a b

/-- Range (Cauchy–Schwarz, proved on the accumulation loop itself) over every linearly ordered field
    with a square root; there the clamp is inert: the function equals the plain quotient. -/
theorem cos_range {S : Type} [Field S] [LinearOrder S] [IsStrictOrderedRing S] [HasSqrt S] [SqrtLaws S]
    (a b : List S) : (-1 ≤ cosine a b ∧ cosine a b ≤ 1) ∧ cosine a b = cosineRaw a b :=
  ⟨cosine_range a b, cosine_eq_raw a b⟩

/-- the hypotheses of `cos_range` are dischargeable: the reals -/
theorem cos_range_real (a b : List ℝ) : -1 ≤ cosine a b ∧ cosine a b ≤ 1 := cosine_range a b

/-- The clamp itself: for *any* arithmetic whose `<` is that of a linear order (non-NaN floats are
    one), every non-NaN input lands in `[-1, 1]`, and NaN becomes `0`.  This is what makes the range
    hold for the float function by construction, rounding or not. -/
theorem clamp_range {S : Type} [EScoreOps S] [LinearOrder S]
    (hlt : ∀ a b : S, EScoreOps.lt a b = true ↔ a < b) (h11 : (negOne : S) ≤ EScoreOps.one) (x : S) :
    (EScoreOps.isNaN x = false → negOne ≤ clampCos x ∧ clampCos x ≤ EScoreOps.one) ∧
    (EScoreOps.isNaN x = true → clampCos x = EScoreOps.zero) := by
  constructor
  · intro hx
    unfold clampCos
    simp only [hx, Bool.false_eq_true, ↓reduceIte]
    by_cases h1 : EScoreOps.lt EScoreOps.one x = true
    · simp only [h1, ↓reduceIte]; exact ⟨h11, le_refl _⟩
    · simp only [h1]
      have hx1 : x ≤ EScoreOps.one := not_lt.mp (fun h => h1 ((hlt _ _).mpr h))
      by_cases h2 : EScoreOps.lt x negOne = true
      · simp only [h2, ↓reduceIte]; exact ⟨le_refl _, h11⟩
      · simp only [h2]
        exact ⟨not_lt.mp (fun h => h2 ((hlt _ _).mpr h)), hx1⟩
  · intro hx
    unfold clampCos
    simp [hx]

/-- `0` for empty, mismatched or all-zero vectors -/
theorem cos_zero {S : Type} [Field S] [LinearOrder S] [IsStrictOrderedRing S] [HasSqrt S] (a b : List S)
    (h : a = [] ∨ b = [] ∨ a.length ≠ b.length ∨ (∀ x ∈ a, x = 0) ∨ (∀ x ∈ b, x = 0)) : cosine a b = 0 := by
  rcases h with h | h | h | h | h
  · exact cosine_zero a b (Or.inl h)
  · subst h
    by_cases ha : a = []
    · exact cosine_zero a [] (Or.inl ha)
    · refine cosine_zero a [] (Or.inr (Or.inl ?_))
      simpa using ha
  · exact cosine_zero a b (Or.inr (Or.inl h))
  · exact cosine_zero a b (Or.inr (Or.inr (Or.inl h)))
  · exact cosine_zero a b (Or.inr (Or.inr (Or.inr h)))

/-! ## Clause 4 — loading a file of any content returns vectors or an error -/

/-- Both loaders are total functions of the file's bytes (Lean's termination check: every loop is
    bounded by the header count and every record read consumes input).
    Word vectors: either an error and no index, or exactly the `count` records of the header, each with
    a `D`-component vector and a word shorter than 2¹⁶, all of which the file really held.
    Command embeddings: either no error and a table of exactly `count` vectors of the index's
    dimension, all of which the file held — or an error *and the table untouched*: with the size check a
    half-filled table (nil slots) cannot arise. -/
theorem parse_total (file : Bytes) (dim : Nat) :
    ((∃ e, (parseWordVectors D file).res = .error e) ∨
      (∃ recs, (parseWordVectors D file).res = .ok recs ∧ recs.length = leNat (file.take 4) ∧
        4 + wvSize D recs ≤ file.length ∧ ∀ r ∈ recs, r.2.length = D ∧ r.1.length < 65536)) ∧
    ((∃ e, (parseCmdEmbeddings dim file).err = some e ∧ (parseCmdEmbeddings dim file).table = none) ∨
      (∃ t, (parseCmdEmbeddings dim file).err = none ∧ (parseCmdEmbeddings dim file).table = some t ∧
        t.length = leNat (file.take 4) ∧ 8 + t.length * (4 * dim) ≤ file.length ∧ ∀ v ∈ t, v.length = dim)) := by
  constructor
  · unfold parseWordVectors parseWordVectorsWith
    split
    · exact Or.inl ⟨_, rfl⟩
    · rename_i hb rest hh
      have hlen := readFull_len hh
      have hhb : hb = file.take 4 := by
        have ⟨h1, h2⟩ := readFull_ok hh
        rw [h1, List.take_left' h2]
      dsimp only
      split
      · exact Or.inl ⟨_, rfl⟩
      · cases hr : (wvRecords D (leNat hb) 0 rest).res with
        | error e => exact Or.inl ⟨e, rfl⟩
        | ok recs =>
          have := wvRecords_ok D _ _ _ _ hr
          refine Or.inr ⟨recs, rfl, by rw [this.1, hhb], by omega, this.2.2⟩
  · unfold parseCmdEmbeddings parseCmdEmbeddingsWith
    split
    · exact Or.inl ⟨_, rfl, rfl⟩
    · rename_i nb rest h1
      have hl1 := readFull_len h1
      have hnb : nb = file.take 4 := by
        have ⟨h1', h2⟩ := readFull_ok h1
        rw [h1', List.take_left' h2]
      split
      · exact Or.inl ⟨_, rfl, rfl⟩
      · rename_i db rest2 h2
        have hl2 := readFull_len h2
        dsimp only
        split
        · exact Or.inl ⟨_, rfl, rfl⟩
        · rename_i hd
          have hd' : leNat db = dim := by simpa using hd
          split
          · exact Or.inl ⟨_, rfl, rfl⟩
          · rename_i hchk
            simp only [Bool.true_and, Bool.and_eq_true, Bool.or_eq_true, decide_eq_true_eq, not_and, not_or,
              Nat.not_lt] at hchk
            -- the records fit
            have hfit : leNat nb * (4 * leNat db) ≤ rest2.length := by
              by_cases hn : leNat nb > 0
              · have := hchk hn
                have hpos : 0 < 4 * leNat db := Nat.pos_of_ne_zero this.1
                have := Nat.mul_le_of_le_div _ _ _ this.2
                omega
              · have : leNat nb = 0 := by omega
                simp [this]
            have hnone := ceRecords_fits (leNat db) (leNat nb) 0 rest2 hfit
            have htab := ceRecords_table (leNat db) (leNat nb) 0 rest2
            refine Or.inr ⟨_, hnone, rfl, by rw [htab.1, hnb], ?_, ?_⟩
            · rw [htab.1, ← hd']; omega
            · rw [← hd']; exact htab.2 hnone

/-! ## Clause 5 — memory in proportion to the file -/

/-- Sum of all allocation requests of a load (table hints, per-record buffers, decode scratch, the
    bufio buffer — on success and on every error path) with explicit constants:
    word vectors `≤ 3·|file| + 70437`, command embeddings `≤ 8·|file| + 4104` for every dimension.
    (Byte sizes: 4 per float32, 24 per slice header, `mapEntryCost` = 96 per hinted map entry.) -/
theorem alloc_bound (file : Bytes) (dim : Nat) :
    allocTotal (parseWordVectors D file).allocs ≤ 3 * file.length + 70437 ∧
    allocTotal (parseCmdEmbeddings dim file).allocs ≤ 8 * file.length + 4104 := by
  constructor
  · have hD := gen_facts.2.2.2.2.2.2.2.2.2.2.2.2.2.1
    unfold parseWordVectors parseWordVectorsWith
    split
    · simp [Alloc.cost, bufioSize]
    · rename_i hb rest hh
      have hlen := readFull_len hh
      dsimp only
      split
      · simp [Alloc.cost, bufioSize]
      · rename_i hchk
        simp only [Bool.true_and, decide_eq_true_eq, Nat.not_lt] at hchk
        have h1 := wvRecords_alloc D (leNat hb) 0 rest
        have h2 : leNat hb * (2 + 4 * D) ≤ file.length - 4 := Nat.mul_le_of_le_div _ _ _ hchk
        have h3 : mapEntryCost * leNat hb ≤ leNat hb * (2 + 4 * D) := by
          rw [Nat.mul_comm]; exact Nat.mul_le_mul_left _ hD
        have hDv : D = 100 := by decide
        simp only [allocTotal_append, allocTotal_cons, allocTotal_nil, Alloc.cost, bufioSize]
        omega
  · unfold parseCmdEmbeddings parseCmdEmbeddingsWith
    split
    · simp [Alloc.cost, bufioSize]
    · rename_i nb rest h1
      have hl1 := readFull_len h1
      split
      · simp [Alloc.cost, bufioSize]
      · rename_i db rest2 h2
        have hl2 := readFull_len h2
        dsimp only
        split
        · simp [Alloc.cost, bufioSize]
        · split
          · simp [Alloc.cost, bufioSize]
          · rename_i hchk
            simp only [Bool.true_and, Bool.and_eq_true, Bool.or_eq_true, decide_eq_true_eq, not_and, not_or,
              Nat.not_lt] at hchk
            have ha := ceRecords_alloc (leNat db) (leNat nb) 0 rest2
            simp only [allocTotal_append, allocTotal_cons, allocTotal_nil, Alloc.cost, bufioSize]
            by_cases hn : leNat nb > 0
            · have := hchk hn
              have hpos : 0 < 4 * leNat db := Nat.pos_of_ne_zero this.1
              have hm := Nat.mul_le_of_le_div _ _ _ this.2
              -- n·4·d ≤ |file| − 8, d ≥ 1
              have hd1 : 1 ≤ leNat db := by omega
              have hn4 : leNat nb * 4 ≤ leNat nb * (4 * leNat db) := by
                rw [← Nat.mul_assoc]; exact Nat.le_mul_of_pos_right _ hd1
              have he : 8 * leNat db * leNat nb = 2 * (leNat nb * (4 * leNat db)) := by
                rw [Nat.mul_comm (leNat nb)]; simp only [Nat.mul_assoc]; omega
              omega
            · have hz : leNat nb = 0 := by omega
              simp only [hz, Nat.mul_zero] at ha ⊢
              omega

/-- the header count never exceeds what the file can hold: number of vectors returned
    `≤ (|file| − header) / record size`; the vocabulary is no larger than the record count -/
theorem count_bound (file : Bytes) (dim : Nat) :
    (∀ recs, (parseWordVectors D file).res = .ok recs →
      recs.length ≤ (file.length - 4) / (2 + 4 * D) ∧ (vocab recs).length ≤ recs.length) ∧
    (∀ t, (parseCmdEmbeddings dim file).table = some t → t.length * (4 * dim) ≤ file.length - 8) := by
  constructor
  · intro recs h
    rcases (parse_total file dim).1 with ⟨e, he⟩ | ⟨recs', hr, _, hsz, _⟩
    · rw [he] at h; cases h
    · rw [hr] at h; cases h
      refine ⟨?_, ?_⟩
      · rw [Nat.le_div_iff_mul_le (by omega)]
        have := wvSize_ge D recs
        omega
      · exact vocab_length_le recs
  · intro t h
    rcases (parse_total file dim).2 with ⟨e, _, hn⟩ | ⟨t', _, ht, _, hsz, _⟩
    · rw [hn] at h; cases h
    · rw [ht] at h; cases h; omega

/-- an index that came out of the loaders never makes `EmbedQuery` index out of range -/
theorem embed_no_panic {V : Type} [EScoreOps V] (conv : F32 → V) (file : Bytes) (cmdFile : Option Bytes)
    (idx : Index F32) (h : loadEmbeddings D (some file) cmdFile = some idx) (tokens : List Bytes) :
    ∃ r, embedTokens (idx.map conv).dim (lookupWord (idx.map conv).words) tokens = .ok r := by
  apply embedTokens_no_panic
  intro t vec hv
  obtain ⟨r, hr, rfl⟩ := lookupWord_mem _ _ _ hv
  unfold loadEmbeddings at h
  dsimp only at h
  split at h
  · cases h
  · rename_i recs hrecs
    cases h
    simp only [Index.map, List.mem_map] at hr
    obtain ⟨r0, hr0, rfl⟩ := hr
    rcases (parse_total file 0).1 with ⟨e, he⟩ | ⟨recs', hr', _, _, hshape⟩
    · unfold parseWordVectors at he hrecs; rw [he] at hrecs; cases hrecs
    · unfold parseWordVectors at hr' hrecs; rw [hr'] at hrecs; cases hrecs
      simp [Index.map, (hshape r0 hr0).1]

/-! ## Necessity of the size checks, and non-vacuity -/

/-- 7 bytes: header count 2³²−1, three stray bytes -/
def file7 : Bytes := [0xff, 0xff, 0xff, 0xff, 0, 0, 0]

/-- WITHOUT the size check (`check := false`, the code before 4457add) the bound of `alloc_bound`
    fails on a 7-byte file: the map alone is hinted with 2³²−1 entries. -/
example : 3 * file7.length + 70437 < allocTotal (parseWordVectorsWith false D file7).allocs := by
  have h := wv_unchecked_alloc D file7 [0xff, 0xff, 0xff, 0xff] [0, 0, 0] (by decide)
  have h2 : leNat [0xff, 0xff, 0xff, 0xff] = 4294967295 := by decide
  rw [h2] at h
  have h3 : file7.length = 7 := by decide
  have h4 : mapEntryCost = 96 := rfl
  omega

/-- with the check the same file is refused before anything is sized from the header -/
example : (parseWordVectors D file7).res = .error (.tooShort 4294967295) ∧
    allocTotal (parseWordVectors D file7).allocs = 4100 := by decide

/-- WITHOUT the check `LoadCommandEmbeddings` can leave a half-filled table behind an error
    (count 2, dimension 1, one record present): the second slot is nil. -/
example : (parseCmdEmbeddingsWith false 1 [2, 0, 0, 0, 1, 0, 0, 0, 0, 0, 128, 63]).table = some [[0x3f800000], []] ∧
    (parseCmdEmbeddingsWith false 1 [2, 0, 0, 0, 1, 0, 0, 0, 0, 0, 128, 63]).err = some (.short .embedding 1 .eof) := by
  decide

/-- the loaders do return vectors: two records (dimension 1), the later duplicate wins in the map -/
example : (parseWordVectors 1 [2, 0, 0, 0, 1, 0, 97, 0, 0, 128, 63, 1, 0, 97, 0, 0, 0, 64]).res =
      .ok [([97], [0x3f800000]), ([97], [0x40000000])] ∧
    lookupWord [(([97] : Bytes), [(0x3f800000 : F32)]), ([97], [0x40000000])] [97] = some [0x40000000] ∧
    vocab [(([97] : Bytes), [(0x3f800000 : F32)]), ([97], [0x40000000])] = [[97]] := by decide

/-- truncation inside a record is an error naming the field and the record -/
example : (parseWordVectors 1 [2, 0, 0, 0, 1, 0, 97, 0, 0, 128, 63, 1, 0, 97, 0, 0]).res =
    .error (.short .vector 1 .unexpected) := by decide

example : (parseCmdEmbeddings 1 [2, 0, 0, 0, 1, 0, 0, 0, 0, 0, 128, 63, 0, 0, 0, 64]).table =
    some [[0x3f800000], [0x40000000]] := by decide

/-- wrong dimension -/
example : (parseCmdEmbeddings 100 [1, 0, 0, 0, 3, 0, 0, 0]).err = some (.dimMismatch 100 3) := by decide

section
/-- the rationals with a (lawless) square root are enough to *run* the stage -/
local instance : HasSqrt ℚ := ⟨fun x => x⟩

/-- the boost really raises, and only above the floor (shown for α = 3/10, floor = 1/10, the values at
    the time of writing; the theorems above are over the regenerated constants whatever they are):
    score 2 with similarity 1 becomes 2·(1 + 3/10) = 13/5; similarity 1/20 is under the floor -/
example : boostOne (3 / 10 : ℚ) (1 / 10) (fun _ => some 1) (0, 2) = (0, 13 / 5) ∧
    boostOne (3 / 10 : ℚ) (1 / 10) (fun _ => some (1 / 20)) (0, 2) = (0, 2) := by
  constructor <;> (simp only [boostOne, ops_ge, ops_mul, ops_add, ops_one]; norm_num)

/-- the hypotheses of `raises_bounded` are satisfiable with the regenerated constants: the all-ones
    similarity table and a one-element list -/
example : (semanticStage (alpha : ℚ) floor (fun _ => some 1) [(0, 2)]).Pairwise (fun x y => y.2 ≤ x.2) :=
  (raises_bounded (S := ℚ) (fun _ => some 1) (by intro _ x h; cases h; exact le_refl _) [(0, 2)]
    (by intro r hr; simp at hr; subst hr; norm_num)).2.2.1
end

/-- cosine is not constantly 0: identical non-zero vectors have similarity 1 over the reals -/
example : cosine ([2] : List ℝ) [2] = 1 := by
  have h := (cos_range ([2] : List ℝ) [2]).2
  rw [h]
  simp only [cosineRaw, cosAcc, List.length_cons, List.length_nil, ops_zero, ops_add, ops_mul, ops_eq, ops_div, ops_sqrt]
  norm_num
  show (4 : ℝ) / (Real.sqrt 4 * Real.sqrt 4) = 1
  rw [Real.mul_self_sqrt (by norm_num)]
  norm_num

end Wtf.C19
