import WtfModel.Proofs.HistoryRun
import WtfModel.Proofs.HistoryViews
import WtfModel.Gen.History

/-!
  C16 — search history is a bounded, ordered, faithfully persisted log.
  Property theorems only (helper lemmas live in Proofs/History*.lean).

  Quantifiers: every requested maximum `m : Int` (incl. zero / negative), every start time, every
  query / context byte string, every history of `add / save / load / clear` (`Op`, with the clock
  advancing by an arbitrary `dt ≥ 0` per add), and — for the no-crash clause — every history that in
  addition lets the environment put ARBITRARY content into the file (`Op.setFile`), over ANY codec.
  `P` is regenerated from the source on every run (`Gen/History.lean`).

  The save/load theorems here are over an abstract codec satisfying `Codec.LawsOn` (the parser reads back
  what `Save` writes; strings in `valid`, instants in `okT` survive).  `Props/C16b.lean` proves those
  laws for the executable codec the driver runs against encoding/json, so nothing about the codec is assumed there.
-/
namespace Wtf.C16
open Wtf.History

/-- the facts about the current source -/
def P : Params :=
  { newDefault := Wtf.Gen.History.newDefault, loadGuard := Wtf.Gen.History.loadGuard,
    loadFallback := Wtf.Gen.History.loadFallback }

/-- The regenerated facts are usable: the constructor default is positive and `Load` can never install
    a non-positive `max_size` (it takes the file's value only when positive, and/or falls back to a
    positive constant).  Breaks — and with it every theorem below that needs `ParamsOk` — as soon as
    the source loses that protection. -/
theorem gen_params_ok : ParamsOk P := paramsOk_of_check (by decide)

/-- every maximum the CLI asks for is positive and is used as is -/
theorem cli_max_positive : ∀ m ∈ Wtf.Gen.History.cliMaxSizes, 0 < m ∧ (new P m).maxSize = m := by decide

section
variable {F : Type} (C : Codec F)

/-- **Bounded, ordered, the most recent searches.**  After any sequence of adds, saves, loads, clears and
    new processes on the same file (`restart m'`, any requested size) starting from
    `NewSearchHistory(path, m)`: no add panicked; the limit in force is positive; never more entries than
    the limit; timestamps are non-decreasing; and the entries are exactly the last `max` elements of the
    unbounded reference log (`specRun`: an immediately repeated query replaces its predecessor, `load`
    returns to the log as it was at the last `save`, `clear` empties it, a new process starts empty). -/
theorem bounded_ordered {valid : Bytes → Prop} {okT : Int → Prop} (L : Codec.LawsOn C valid okT (fun _ => True)) (m t0 : Int) (ops : List (Op F))
    (htool : ∀ op ∈ ops, op.isTool = true) (hvalid : OpsValid valid okT (fun _ => True) t0 ops) :
    ∃ y, run C P (init P m t0) ops = .ok y ∧
      0 < y.h.maxSize ∧
      (y.h.entries.length : Int) ≤ y.h.maxSize ∧
      y.h.entries.Pairwise (fun a b => a.ts ≤ b.ts) ∧
      y.h.entries.map Entry.core = lastN y.h.maxSize.toNat (specRun ⟨[], none, t0⟩ ops).log := by
  have hpos := new_maxSize_pos gen_params_ok m
  obtain ⟨y, hy, hi⟩ := run_inv C L P (Q := fun k => 0 < k) (fun _ h => h) (fun _ _ => trivial) ops
    (init_inv C P m t0 hpos hpos) (fun op ho => Op.ok_of_isTool gen_params_ok op (htool op ho)) hvalid
  exact ⟨y, hy, hi.max, hi.bounded, hi.chrono.1, hi.refines⟩

/-- The limit in force is the requested one (or the default for a non-positive request) as long as every
    process on the file asks for the same effective size — which is what the CLI does (`cli_max_positive`). -/
theorem limit_is_requested {valid : Bytes → Prop} {okT : Int → Prop} (L : Codec.LawsOn C valid okT (fun _ => True)) (m t0 : Int) (ops : List (Op F))
    (hsame : ∀ op ∈ ops, op.Ok P (fun k => k = (if m ≤ 0 then Wtf.Gen.History.newDefault else m)))
    (hvalid : OpsValid valid okT (fun _ => True) t0 ops) :
    ∃ y, run C P (init P m t0) ops = .ok y ∧
      y.h.maxSize = (if m ≤ 0 then Wtf.Gen.History.newDefault else m) := by
  have hpos := new_maxSize_pos gen_params_ok m
  obtain ⟨y, hy, hi⟩ := run_inv C L P (Q := fun k => k = (if m ≤ 0 then Wtf.Gen.History.newDefault else m))
    (fun k hk => by rw [hk]; exact hpos) (fun _ _ => trivial) ops (init_inv C P m t0 rfl hpos) hsame hvalid
  exact ⟨y, hy, hi.max⟩

/-- **Immediate duplicate.**  Adding the query of the last entry again replaces that entry (new
    timestamp, results, context, duration) and adds nothing — whatever the limit is. -/
theorem immediate_dup (s : State) (l e : Entry) (hl : s.entries.getLast? = some l) (hq : l.query = e.query) :
    ∃ s', add s e = .ok s' ∧ s'.entries = s.entries.dropLast ++ [e] ∧
      s'.entries.length = s.entries.length ∧ s'.maxSize = s.maxSize := by
  refine ⟨{ s with entries := s.entries.dropLast ++ [e] }, by simp [add, hl, hq], rfl, ?_, rfl⟩
  have hne : s.entries ≠ [] := by intro h; rw [h] at hl; simp at hl
  have := List.length_pos_iff.mpr hne
  simp; omega

/-- Any other add appends the entry and keeps the last `max` entries, oldest dropped first. -/
theorem add_new_appends (s : State) (hm : 0 < s.maxSize) (e : Entry)
    (hnd : ∀ l, s.entries.getLast? = some l → l.query ≠ e.query) :
    ∃ s', add s e = .ok s' ∧ s'.entries = lastN s.maxSize.toNat (s.entries ++ [e]) ∧
      s'.entries.length = min s.maxSize.toNat (s.entries.length + 1) ∧
      s'.entries.getLast? = some e ∧ s'.maxSize = s.maxSize := by
  have h := add_eq hm e
  have hae : addEntries s.maxSize.toNat s.entries e = lastN s.maxSize.toNat (s.entries ++ [e]) := by
    unfold addEntries
    cases hl : s.entries.getLast? with
    | none => rfl
    | some l => simp [hnd l hl]
  refine ⟨_, h, hae, ?_, ?_, rfl⟩
  · simp only [hae, lastN_length, List.length_append, List.length_singleton]
  · simp only [hae]; rw [lastN_getLast? (by omega)]; simp

/-- **Save then load gives back the same entries** (and the same limit): loading the bytes `Save` wrote
    for `s` yields exactly `s` and no error — for ANY receiver state `r` (a fresh `NewSearchHistory` of any
    size, or a live history holding other entries). -/
theorem roundtrip {valid : Bytes → Prop} {okT : Int → Prop} (L : Codec.LawsOn C valid okT (fun _ => True)) (r s : State) (hm : 0 < s.maxSize)
    (hv : ∀ e ∈ s.entries, valid e.query ∧ valid e.context ∧ okT e.ts) :
    load C P r (some (saveBytes C s)) = (s, none) :=
  load_saveBytes C L P r s hm trivial (fun e he => ⟨(hv e he).1, (hv e he).2.1, (hv e he).2.2, trivial, trivial⟩)

/-- The same inside histories: in every state reachable by adds/saves/loads/clears, `save` followed by `load`
    changes nothing, and a new process (any requested size `m'`) that loads the saved file holds exactly the
    same entries under the same limit (histories may themselves contain such restarts). -/
theorem roundtrip_history {valid : Bytes → Prop} {okT : Int → Prop} (L : Codec.LawsOn C valid okT (fun _ => True)) (m t0 : Int) (ops : List (Op F))
    (htool : ∀ op ∈ ops, op.isTool = true) (hvalid : OpsValid valid okT (fun _ => True) t0 ops) :
    ∃ y y', run C P (init P m t0) ops = .ok y ∧ run C P (init P m t0) (ops ++ [.save, .load]) = .ok y' ∧
      y'.h = y.h ∧ ∀ m' : Int, (load C P (new P m') (some (saveBytes C y.h))) = (y.h, none) := by
  have hpos := new_maxSize_pos gen_params_ok m
  obtain ⟨y, hy, hi⟩ := run_inv C L P (Q := fun k => 0 < k) (fun _ h => h) (fun _ _ => trivial) ops
    (init_inv C P m t0 hpos hpos) (fun op ho => Op.ok_of_isTool gen_params_ok op (htool op ho)) hvalid
  have hrt : ∀ r : State, load C P r (some (saveBytes C y.h)) = (y.h, none) :=
    fun r => load_saveBytes C L P r y.h hi.max trivial hi.validE
  have happ : ∀ (ops1 ops2 : List (Op F)) (a b : Sys F), run C P a ops1 = .ok b →
      run C P a (ops1 ++ ops2) = run C P b ops2 := by
    intro ops1
    induction ops1 with
    | nil => intro ops2 a b h; simp only [run, Except.ok.injEq] at h; subst h; rfl
    | cons o os ih =>
      intro ops2 a b h
      simp only [run, List.cons_append] at h ⊢
      cases hs : step C P a o with
      | error p => rw [hs] at h; simp at h
      | ok a' => rw [hs] at h; simp only [] at h ⊢; exact ih ops2 a' b h
  refine ⟨y, { y with h := y.h, file := some (saveBytes C y.h) }, hy, ?_, rfl, fun m' => hrt _⟩
  rw [happ ops _ _ y hy]
  simp only [run, step, hrt y.h]

end

/-- **Recent queries** are the first sightings, newest first, cut at the limit (10 for a non-positive
    request): distinct, a sub-list of the newest-first listing of the entries' queries, every one of
    them a query of some entry, at most `limit` of them — and all distinct queries when the limit allows. -/
theorem recent (s : State) (n : Int) :
    let newestFirst := s.entries.reverse.map (·.query)
    let lim := if n ≤ 0 then 10 else n.toNat
    History.recent s n = (dedupFirst newestFirst).take lim ∧
    (History.recent s n).Nodup ∧ (History.recent s n).Sublist newestFirst ∧
    (∀ q ∈ History.recent s n, ∃ e ∈ s.entries, e.query = q) ∧
    (History.recent s n).length ≤ lim ∧
    ((dedupFirst newestFirst).length ≤ lim → ∀ e ∈ s.entries, e.query ∈ History.recent s n) := by
  intro newestFirst lim
  have he : History.recent s n = (dedupFirst newestFirst).take lim := recent_eq s n
  have hsub : (History.recent s n).Sublist newestFirst := by
    rw [he]; exact (List.take_sublist _ _).trans (dedupFirst_sublist _)
  refine ⟨he, ?_, hsub, ?_, ?_, ?_⟩
  · rw [he]; exact List.Nodup.sublist (List.take_sublist _ _) (dedupFirst_nodup _)
  · intro q hq
    have := hsub.subset hq
    simp only [newestFirst, List.mem_map, List.mem_reverse] at this
    exact this
  · rw [he, List.length_take]; omega
  · intro hle e hm
    rw [he, List.take_of_length_le hle, mem_dedupFirst]
    simp only [newestFirst, List.mem_map, List.mem_reverse]
    exact ⟨e, hm, rfl⟩

/-- the newest entry's query comes first -/
theorem recent_head (s : State) (n : Int) (e : Entry) (h : s.entries.getLast? = some e) :
    (History.recent s n).head? = some e.query := by
  rw [recent_eq]
  have h1 := effLimit_pos n
  have : (dedupFirst (s.entries.reverse.map (·.query))).head? = some e.query := by
    rw [dedupFirst_head?, List.head?_map, List.head?_reverse, h]; rfl
  cases hd : dedupFirst (s.entries.reverse.map (·.query)) with
  | nil => rw [hd] at this; simp at this
  | cons a as =>
    rw [hd] at this
    obtain ⟨k, hk⟩ : ∃ k, effLimit n = k + 1 := ⟨effLimit n - 1, by omega⟩
    rw [hk]; simpa using this

/-- **Top queries** (the executable model, stable sort): each count is the true frequency of its query,
    queries are listed once, sorted by frequency; nothing left out is more frequent than anything listed;
    and when the limit covers all distinct queries the counts add up to the number of entries. -/
theorem top_sum (s : State) (n : Int) :
    (∀ qf ∈ top s n, qf.count = countOf qf.query s.entries ∧ 0 < qf.count ∧ ∃ e ∈ s.entries, e.query = qf.query) ∧
    ((top s n).map (·.query)).Nodup ∧
    (top s n).Pairwise (fun a b => b.count ≤ a.count) ∧
    (top s n).length = min (effLimitTop n) (distinctQueries s.entries).length ∧
    (∀ e ∈ s.entries, e.query ∉ (top s n).map (·.query) → ∀ qf ∈ top s n, countOf e.query s.entries ≤ qf.count) ∧
    ((distinctQueries s.entries).length ≤ effLimitTop n →
      ((top s n).map (·.count)).sum = s.entries.length ∧ ∀ e ∈ s.entries, e.query ∈ (top s n).map (·.query)) :=
  topSpec_props (top_topSpec s n)

/-- The same for EVERY answer the real `GetTopQueries` can give: it builds the table by ranging over a Go
    map and sorts with the unstable `sort.Slice`, so its answer is the first `lim` rows of *some*
    arrangement of the frequency table sorted by (frequency, recency) — `TopSpec`.  All clauses hold
    for every such answer. -/
theorem top_any_schedule (es : List Entry) (lim : Nat) (r : List QF) (h : TopSpec es lim r) :
    (∀ qf ∈ r, qf.count = countOf qf.query es ∧ 0 < qf.count ∧ ∃ e ∈ es, e.query = qf.query) ∧
    (r.map (·.query)).Nodup ∧
    r.Pairwise (fun a b => b.count ≤ a.count) ∧
    r.length = min lim (distinctQueries es).length ∧
    (∀ e ∈ es, e.query ∉ r.map (·.query) → ∀ qf ∈ r, countOf e.query es ≤ qf.count) ∧
    ((distinctQueries es).length ≤ lim →
      (r.map (·.count)).sum = es.length ∧ ∀ e ∈ es, e.query ∈ r.map (·.query)) :=
  topSpec_props h

/-- **Statistics**: total = number of entries; unique = number of distinct queries (the length of a
    duplicate-free list with exactly the entries' queries); oldest / newest = first / last entry. -/
theorem stats (s : State) :
    (History.stats s).total = s.entries.length ∧
    (History.stats s).unique = (distinctQueries s.entries).length ∧
    (distinctQueries s.entries).Nodup ∧ (∀ q, q ∈ distinctQueries s.entries ↔ ∃ e ∈ s.entries, e.query = q) ∧
    (∀ a b, s.entries.head? = some a → s.entries.getLast? = some b →
      (History.stats s).oldest = a.ts ∧ (History.stats s).newest = b.ts) :=
  ⟨(stats_total_unique s).1, (stats_total_unique s).2, dedupFirst_nodup _, fun _ => mem_distinctQueries,
   fun a b ha hb => stats_oldest_newest s a b ha hb⟩

/-- **No file content can make recording a search crash** (the CLI's sequence): a new history of any
    requested size, `Load` over ANY file — absent, empty, damaged, with any max_size; `C` is an arbitrary
    codec, nothing is assumed about it — then `AddEntry`: no panic, the limit in force is positive, the
    search is recorded as the last entry. -/
theorem add_no_panic {F : Type} (C : Codec F) (m : Int) (file : Option F) (e : Entry) :
    ∃ s', add (load C P (new P m) file).1 e = .ok s' ∧ 0 < s'.maxSize ∧ s'.entries.getLast? = some e := by
  have hp := load_maxSize_pos C gen_params_ok (new P m) (new_maxSize_pos gen_params_ok m) file
  refine ⟨_, add_eq hp e, hp, ?_⟩
  exact addEntries_getLast? _ (by omega) _ _

/-- The same over whole histories: adds, saves, loads, clears interleaved with the environment replacing
    the file by arbitrary content (`setFile`), any codec: no step ever panics and the limit stays positive. -/
theorem add_no_panic_after_any_file {F : Type} (C : Codec F) (m t0 : Int) (ops : List (Op F)) :
    ∃ y, run C P (init P m t0) ops = .ok y ∧ 0 < y.h.maxSize :=
  run_pos C P gen_params_ok ops (new_maxSize_pos gen_params_ok m)

/-! Why the protection in `Load` is needed: witnesses on raw states. -/

/-- With a negative limit in force, every add that is not an immediate repeat panics
    (`slice bounds out of range [len+1-max : len+1]`; for `max_size = -3` on an empty history: `[4:1]`). -/
theorem raw_negative_max_panics (s : State) (e : Entry) (hneg : s.maxSize < 0)
    (hnd : ∀ l, s.entries.getLast? = some l → l.query ≠ e.query) :
    add s e = .error (.sliceBounds ((s.entries.length : Int) + 1 - s.maxSize) (s.entries.length + 1)) := by
  have hnew : addNew s e = .error (.sliceBounds ((s.entries.length : Int) + 1 - s.maxSize) (s.entries.length + 1)) := by
    unfold addNew sliceFrom
    have h1 : ((s.entries ++ [e]).length : Int) > s.maxSize := by simp; omega
    have h2 : ¬ (0 ≤ ((s.entries ++ [e]).length : Int) - s.maxSize ∧
        ((s.entries ++ [e]).length : Int) - s.maxSize ≤ ((s.entries ++ [e]).length : Int)) := by omega
    simp only [h1, ↓reduceIte, h2]
    simp
  unfold add
  cases hl : s.entries.getLast? with
  | none => exact hnew
  | some l => simp only [hnd l hl, ↓reduceIte]; exact hnew

/-- With a zero limit in force nothing panics, but every new entry is dropped at once. -/
theorem raw_zero_max_drops (s : State) (e : Entry) (hz : s.maxSize = 0)
    (hnd : ∀ l, s.entries.getLast? = some l → l.query ≠ e.query) :
    add s e = .ok { s with entries := [] } := by
  have hnew : addNew s e = .ok { s with entries := [] } := by
    unfold addNew sliceFrom
    have h1 : ((s.entries ++ [e]).length : Int) > s.maxSize := by simp; omega
    have h2 : (0 ≤ ((s.entries ++ [e]).length : Int) - s.maxSize ∧
        ((s.entries ++ [e]).length : Int) - s.maxSize ≤ ((s.entries ++ [e]).length : Int)) := by omega
    simp only [h1, ↓reduceIte, h2, and_self]
    have : (((s.entries ++ [e]).length : Int) - s.maxSize).toNat = (s.entries ++ [e]).length := by omega
    rw [this]; simp
  unfold add
  cases hl : s.entries.getLast? with
  | none => exact hnew
  | some l => simp only [hnd l hl, ↓reduceIte]; exact hnew

/-- a codec whose files are documents (used for witnesses and non-vacuity only) -/
def docCodec : Codec JVal :=
  { parse := some, print := id, isEmpty := fun _ => false, unquote := id, quote := id,
    parseTime := fun b => match b with
      | [] => none
      | sgn :: r => some (if sgn = 1 then - (r.length : Int) else (r.length : Int)),
    fmtTime := fun t => (if t < 0 then 1 else 0) :: List.replicate t.natAbs 0 }

/-- If `Load` took the file's max_size unconditionally and had no fallback (the code before the fix), a
    file saying `max_size: -3` would make the very next recorded search panic. -/
theorem unguarded_load_lets_file_break_add :
    ∃ (file : JVal) (e : Entry) (p : Panic),
      add (load docCodec ⟨100, false, none⟩ (new ⟨100, false, none⟩ 100) (some file)).1 e = .error p :=
  ⟨.obj [(kMaxSize, .int (-3))], ⟨[97], 1, 0, [], 0⟩, .sliceBounds 4 1, by rfl⟩

/-! ### Non-vacuity -/

/-- the codec laws are satisfiable -/
example : docCodec.Laws (fun _ => True) :=
  { parse_print := fun _ => rfl, print_nonempty := fun _ => rfl, unquote_quote := fun _ _ => rfl,
    parseTime_fmtTime := by
      intro t
      simp only [docCodec, List.length_replicate]
      by_cases h : t < 0
      · simp [h]; omega
      · simp [h]; omega }

/-- fixed parameters for the examples (they illustrate the model; they must not depend on what is regenerated) -/
private def Pex : Params := ⟨100, true, some 100⟩
private def q (c : UInt8) : Bytes := [c]
private def demoOps : List (Op JVal) :=
  [.add (q 97) 1 [] 0 1, .add (q 98) 2 [103, 111] 5 1, .add (q 98) 3 [] 0 0, .save, .add (q 99) 4 [] 0 2, .add (q 97) 5 [] 0 1,
   .restart 7, .load, .add (q 100) 6 [] 0 1]

-- limit 2: b was added twice in a row (collapsed); c and a were added after the save and are gone in the new
-- process (which asked for 7 but takes the file's limit 2)
example : (match run docCodec Pex (init Pex 2 1000) demoOps with
    | .ok y => y.h.entries.map (fun e => (e.query, e.results, e.context))
    | .error _ => []) = [(q 98, 3, []), (q 100, 6, [])] := by decide
example : (match run docCodec Pex (init Pex 2 1000) demoOps with
    | .ok y => y.h.maxSize
    | .error _ => 0) = 2 := by decide
example : (specRun (F := JVal) ⟨[], none, 1000⟩ demoOps).log.map (·.1) = [q 97, q 98, q 100] := by decide
example : ∀ op ∈ demoOps, op.isTool = true := by decide
-- hostile file: max_size -3 is not taken over, the entries are; then a search is recorded
example : (match run docCodec Pex (init Pex 3 0)
      [.setFile (some (.obj [(kMaxSize, .int (-3)), (kEntries, .arr [.obj [(kQuery, .str (q 120))]])])), .load, .add (q 121) 1 [] 0 1] with
    | .ok y => (y.h.maxSize, y.h.entries.map (·.query))
    | .error _ => (0, [])) = (3, [q 120, q 121]) := by decide
-- a type error anywhere in the document leaves the receiver untouched
example : (load docCodec Pex (new Pex 3) (some (.obj [(kEntries, .arr [.obj [(kQuery, .int 5)]]), (kMaxSize, .int 7)]))) = (new Pex 3, some .parse) := by decide
-- views
private def demoState : State :=
  { entries := [⟨q 97, 1, 1, [], 0⟩, ⟨q 98, 2, 1, [], 0⟩, ⟨q 97, 3, 1, [], 0⟩, ⟨q 99, 4, 1, [], 0⟩, ⟨q 97, 5, 1, [], 0⟩], maxSize := 5 }
example : History.recent demoState 2 = [q 97, q 99] := by decide
example : (top demoState 0).map (fun r => (r.query, r.count)) = [(q 97, 3), (q 99, 1), (q 98, 1)] := by decide
example : ((History.stats demoState).total, (History.stats demoState).unique) = (5, 3) := by decide
example : add ⟨[], -3⟩ ⟨q 97, 1, 0, [], 0⟩ = .error (.sliceBounds 4 1) := by rfl

end Wtf.C16
