import WtfModel.Proofs.C06Nlp
import WtfModel.Proofs.C06Search

/-!
  C06 — NLP enhancement never drops what the user typed.
  Property theorems only (helper lemmas: Proofs/C06Nlp.lean, Proofs/C06Search.lean).

  Quantification: every database, every query byte string, every option record, every value of the `Tuning`
  parameters (idf, Unicode facts, TF-IDF ranking, per-document NLP factors), every score type (no law of
  arithmetic is used), every `Nlp.Tables` value (so in particular the tables regenerated from the source) and
  every hint function.  `T.nlp` — what the engine receives from package nlp — stays abstract wherever the clause
  does not depend on its content; `NlpAgrees` links it to the executable model `Nlp.processQuery` where it does.
-/
namespace Wtf.C06
open Wtf.Nlp Wtf.Search Wtf.Text Wtf.Index

/-! ## The expanded term list (GetEnhancedKeywords) -/

/-- The expanded list begins with the keywords extracted from the user's text, in the order ProcessQuery
    produced them, ahead of every hint, action, target and intent term — for ANY hint function. -/
theorem enhanced_prefix (Tb : Tables) (hints : Analysis → List Bytes) (ri : RuneInfo) (q : Bytes) :
    (processQuery Tb ri q).keywords <+: enhancedKeywords Tb hints (processQuery Tb ri q) :=
  keywords_prefix_enhanced Tb hints _ (processQuery_keywords_nodup Tb ri q)

/-- … and contains no duplicates (for any analysis value, any hint function). -/
theorem enhanced_nodup (Tb : Tables) (hints : Analysis → List Bytes) (a : Analysis) :
    (enhancedKeywords Tb hints a).Nodup := nodup_dedup _

theorem keywords_nodup (Tb : Tables) (ri : RuneInfo) (q : Bytes) : (processQuery Tb ri q).keywords.Nodup :=
  processQuery_keywords_nodup Tb ri q

/-- Keywords come from the user's own text: each one is a word of the cleaned, lower-cased query that is neither a
    stop word nor an action word, or the first synonym of such a word that is not a target word either. -/
theorem keywords_from_text (Tb : Tables) (ri : RuneInfo) (q : Bytes) {k : Bytes}
    (hk : k ∈ (processQuery Tb ri q).keywords) :
    ∃ w ∈ words q, isStop Tb w = false ∧ assoc Tb.actions w = none ∧
      (k = w ∨ (assoc Tb.targets w = none ∧ ∃ rest, assoc Tb.synonyms w = some (k :: rest))) := by
  rw [processQuery_keywords, mem_dedup] at hk
  obtain ⟨w, hw, hkw⟩ := List.mem_flatMap.mp hk
  exact ⟨w, hw, mem_wordKeywords hkw⟩

/-- The order, precisely: the keyword list is the list of first occurrences in the sequence
    `w₁, syn(w₁)?, w₂, syn(w₂)?, …` over the words of the query in the user's order (each kept word immediately
    followed by its first synonym when it has one and is not a target word); so it is a subsequence of that
    sequence. -/
theorem keywords_order (Tb : Tables) (ri : RuneInfo) (q : Bytes) :
    (processQuery Tb ri q).keywords = dedup ((words q).flatMap (wordKeywords Tb)) ∧
    ((processQuery Tb ri q).keywords).Sublist ((words q).flatMap (wordKeywords Tb)) :=
  ⟨rfl, dedup_sublist _⟩

/-- Every content word the user typed (not a stop word, not an action word) is a keyword. -/
theorem user_words_kept (Tb : Tables) (ri : RuneInfo) (q : Bytes) {w : Bytes} (hw : w ∈ userKeywordWords Tb q) :
    w ∈ (processQuery Tb ri q).keywords := by
  rw [processQuery_keywords, mem_dedup]
  obtain ⟨hw1, hw2⟩ := List.mem_filter.mp hw
  simp only [Bool.and_eq_true, Bool.not_eq_true', Option.isNone_iff_eq_none] at hw2
  exact List.mem_flatMap.mpr ⟨w, hw1, self_mem_wordKeywords hw2.1 hw2.2⟩

/-- When no synonym is injected (every kept word is a target word or has no synonym entry) the keywords are exactly
    the user's content words, in the user's order, first occurrences. -/
theorem keywords_user_order (Tb : Tables) (ri : RuneInfo) (q : Bytes)
    (h : ∀ w ∈ userKeywordWords Tb q, assoc Tb.targets w ≠ none ∨ firstSynonym Tb w = []) :
    (processQuery Tb ri q).keywords = dedup (userKeywordWords Tb q) := by
  rw [processQuery_keywords]
  unfold rawKeywords userKeywordWords
  congr 1
  apply flatMap_eq_filter
  intro w hw
  unfold wordKeywords
  by_cases hs : isStop Tb w = true
  · simp [hs]
  · have hs' : isStop Tb w = false := by simpa using hs
    cases ha : assoc Tb.actions w with
    | some _ => simp [hs']
    | none =>
      have hmem : w ∈ userKeywordWords Tb q := by
        unfold userKeywordWords
        exact List.mem_filter.mpr ⟨hw, by simp [hs', ha]⟩
      simp only [hs', Bool.false_eq_true, ↓reduceIte, Bool.not_false, Option.isNone_none, Bool.and_self]
      cases ht : assoc Tb.targets w with
      | some _ => rfl
      | none =>
        cases h w hmem with
        | inl h1 => exact absurd ht h1
        | inr h2 => simp [h2]

/-! ## Analysing the same text twice gives the same analysis -/

/-- The analysis is a function of (tables, Unicode facts, text): nothing else enters the model … -/
theorem analysis_function (Tb : Tables) (hints : Analysis → List Bytes) (ri : RuneInfo) {q₁ q₂ : Bytes}
    (h : q₁ = q₂) :
    processQuery Tb ri q₁ = processQuery Tb ri q₂ ∧
    enhancedKeywords Tb hints (processQuery Tb ri q₁) = enhancedKeywords Tb hints (processQuery Tb ri q₂) := by
  subst h; exact ⟨rfl, rfl⟩

/-- … and nothing else enters the code: the regenerated facts say that no function reachable from
    NewQueryProcessor / ProcessQuery / GetEnhancedKeywords inside package nlp ranges over a map, starts a goroutine,
    selects, or touches a package-level variable (Go's map iteration order is the only nondeterminism source
    there). -/
theorem no_hidden_order :
    Gen.NlpTables.orderSensitiveSites = [] ∧ Gen.NlpTables.packageVariables = [] := by decide

/-- Code-shape facts the model hard-codes, re-checked against the regenerated values: the order in which
    GetEnhancedKeywords builds the list, cleanQuery's two patterns, the closures of getCommandHints. -/
theorem source_shape :
    Gen.NlpTables.enhancedOrder = ["keywords", "hints", "ipconfig", "actions", "targets", "intent", "dedup"] ∧
    Gen.NlpTables.cleanPattern = "[^\\w\\s\\-.]" ∧ Gen.NlpTables.spacePattern = "\\s+" ∧
    Gen.Hints.hasActionFields.all (["Actions", "Targets", "Keywords"].contains ·) = true ∧
    Gen.Hints.hasTargetFields.all (["Actions", "Targets", "Keywords"].contains ·) = true ∧
    Gen.Hints.hasKeywordFields.all (["Actions", "Targets", "Keywords"].contains ·) = true := by decide

/-! ## The search terms (enhanceQueryWithNLP, selectTopTerms) -/

section terms
variable {S : Type} [ScoreOps S]

/-- If the merged term list fits under the cap, every user token is searched with (selection is the identity
    there, and the merge only appends). -/
theorem terms_superset (T : Tuning S) (idx : Index) (terms0 : List Token) (enh : List Bytes) (cap : Nat)
    (h : (enhanceTerms terms0 enh).length ≤ cap) :
    terms0 ⊆ selectTopTerms T idx (enhanceTerms terms0 enh) cap := by
  rw [selectTopTerms_of_le T idx h]
  exact subset_enhanceTerms terms0 enh

omit [ScoreOps S] in
/-- With the default cap (`TopTermsCap ≤ 0`) a query of at most ten content words always fits: the merge stops
    at `appendCap` = 8 terms, so the merged length is at most max(length, 8) ≤ 10. -/
theorem default_cap (o : Opts S) (terms0 : List Token) (enh : List Bytes)
    (hlen : terms0.length ≤ defaultTermCap) (hcap : o.topTermsCap ≤ 0) :
    (enhanceTerms terms0 enh).length ≤ effCap o := by
  have h := length_enhanceTerms_le terms0 enh
  have h8 : appendCap ≤ defaultTermCap := by decide
  unfold effCap
  simp only [hcap, ↓reduceIte]
  omega

/-- Each of the first four content words is retained, however long the query is and whatever the cap:
    selectTopTerms keeps every distinct term among the first `preserveCount` = 4 positions unconditionally
    (`isOriginal`), even beyond `maxTerms`.  No side condition is forced by the proof. -/
theorem first_four (T : Tuning S) (idx : Index) (terms0 : List Token) (enh : List Bytes) (cap : Nat) :
    ∀ t ∈ terms0.take preserveCount, t ∈ selectTopTerms T idx (enhanceTerms terms0 enh) cap := by
  intro t ht
  apply first_four_mem_selectTopTerms
  exact take_subset_take_of_prefix (enhanceTerms_prefix terms0 enh) preserveCount ht

/-- the same two facts at the level of SearchUniversal's own term list -/
theorem user_terms_searched (T : Tuning S) (db : Db) (q : Bytes) (o : Opts S)
    (hlen : (tokenize (T.normQ q)).length ≤ defaultTermCap) (hcap : o.topTermsCap ≤ 0) :
    tokenize (T.normQ q) ⊆ searchTerms T db q o := by
  unfold searchTerms
  cases hn : o.useNLP
  · simp only [Bool.false_eq_true, ↓reduceIte]
    have : (tokenize (T.normQ q)).length ≤ effCap o := by
      unfold effCap; simp only [hcap, ↓reduceIte]; exact hlen
    rw [selectTopTerms_of_le T _ this]
    exact fun _ h => h
  · simp only [↓reduceIte]
    exact terms_superset T _ _ _ _ (default_cap o _ _ hlen hcap)

theorem first_four_searched (T : Tuning S) (db : Db) (q : Bytes) (o : Opts S) :
    ∀ t ∈ (tokenize (T.normQ q)).take preserveCount, t ∈ searchTerms T db q o := by
  intro t ht
  unfold searchTerms
  cases hn : o.useNLP
  · simp only [Bool.false_eq_true, ↓reduceIte]
    exact first_four_mem_selectTopTerms T _ _ _ ht
  · simp only [↓reduceIte]
    exact first_four T _ _ _ _ t ht

/-! ## Candidates (result sets with enhancement off versus on) -/

/-- Turning enhancement on never loses a lexical match: for a query of at most ten content words, the default term
    cap, the typo fallback off and a limit of at least the database size, every command returned with `useNLP`
    off is returned with `useNLP` on.  `T.nlp` is arbitrary here. -/
theorem candidates_superset (T : Tuning S) (db : Db) (q : Bytes) (o : Opts S)
    (hlim : db.length ≤ effLimit o)
    (hlen : (tokenize (T.normQ q)).length ≤ defaultTermCap) (hcap : o.topTermsCap ≤ 0) :
    ∀ d ∈ ids (search T db q { o with useNLP := false, useFuzzy := false }),
      d ∈ ids (search T db q { o with useNLP := true, useFuzzy := false }) := by
  intro d hd
  rw [mem_ids_search T db q { o with useNLP := false, useFuzzy := false } rfl hlim] at hd
  rw [mem_ids_search T db q { o with useNLP := true, useFuzzy := false } rfl hlim]
  obtain ⟨t, ht, ps, h1, h2, p, hp, hdoc, c, hc, hpass⟩ := hd
  refine ⟨t, ?_, ps, h1, h2, p, hp, hdoc, c, hc, hpass⟩
  -- off: the searched terms are the user tokens; on: they contain the user tokens
  have hoff : searchTerms T db q { o with useNLP := false, useFuzzy := false } = tokenize (T.normQ q) := by
    unfold searchTerms
    simp only [Bool.false_eq_true, ↓reduceIte]
    apply selectTopTerms_of_le
    unfold effCap; simp only [hcap, ↓reduceIte]; exact hlen
  rw [hoff] at ht
  exact user_terms_searched T db q { o with useNLP := true, useFuzzy := false } hlen hcap ht

/-- Each of the first four content words still finds its documents with enhancement on (or off), for every query
    length and every term cap: with the typo fallback off and a limit of at least the database size, every
    gate-passing document that has a posting of one of those words (`Hits`) is in the answer. -/
theorem first_four_results (T : Tuning S) (db : Db) (q : Bytes) (o : Opts S) (hf : o.useFuzzy = false)
    (hlim : db.length ≤ effLimit o) :
    ∀ t ∈ (tokenize (T.normQ q)).take preserveCount, ∀ d, Hits T db (build db) o t d → d ∈ ids (search T db q o) := by
  intro t ht d hd
  rw [mem_ids_search T db q o hf hlim]
  exact ⟨t, first_four_searched T db q o t ht, hd⟩

/-! ## Link between the engine's NLP parameter and the analysis model -/

/-- the four list fields the engine reads, as computed by the model -/
def nlpOfModel (Tb : Tables) (ri : RuneInfo) (hints : Analysis → List Bytes) (nq : Bytes) :
    List Bytes × List Bytes × List Bytes × List Bytes :=
  let a := processQuery Tb ri nq
  (a.actions, a.targets, a.keywords, enhancedKeywords Tb hints a)

/-- The values the engine receives from package nlp (`T.nlp`, fed from the real code as oracle lines in the
    correspondence runs) are the model's.  Discharged by: the `nlp` correspondence domain (model = real
    ProcessQuery / GetEnhancedKeywords on generated sentences, exhaustively on all 1- and 2-word table queries in
    the thorough tier) and, on every case of the `search` stream of this property, by re-running the model on the
    very text of each oracle line (lib/props/c06.py). -/
def NlpAgrees (T : Tuning S) (Tb : Tables) (ri : RuneInfo) (hints : Analysis → List Bytes) : Prop :=
  ∀ nq, ((T.nlp nq).actions, (T.nlp nq).targets, (T.nlp nq).keywords, (T.nlp nq).enhanced) = nlpOfModel Tb ri hints nq

omit [ScoreOps S] in
/-- What the engine merges into the query begins with the user's keywords and has no duplicates. -/
theorem engine_enhanced_begins_with_keywords (T : Tuning S) (Tb : Tables) (ri : RuneInfo)
    (hints : Analysis → List Bytes) (h : NlpAgrees T Tb ri hints) (nq : Bytes) :
    (T.nlp nq).keywords <+: (T.nlp nq).enhanced ∧ (T.nlp nq).enhanced.Nodup ∧ (T.nlp nq).keywords.Nodup := by
  have := h nq
  simp only [nlpOfModel, Prod.mk.injEq] at this
  obtain ⟨_, _, hk, he⟩ := this
  rw [hk, he]
  exact ⟨enhanced_prefix Tb hints ri nq, enhanced_nodup Tb hints _, keywords_nodup Tb ri nq⟩

end terms


/-! ## Sharpness: the configuration the property does not speak about

  `terms_superset` needs the merged list to fit under the cap.  With a caller-supplied cap below 8 it need not:
  seven user words and cap 7 — one appended term makes eight, selection keeps the first four and the three
  rarest of the rest, and a fifth-or-later user word *that has postings* is displaced by the appended term.
  (The check runs such requests on the real engine and counts the lost matches as `excluded-config-lost-match`.) -/
section sharpness

/-- a toy score type for the witness below (selection only compares idf values) -/
local instance natScore : ScoreOps Nat :=
  { zero := 0, one := 1, add := (· + ·), sub := (· - ·), mul := (· * ·), div := (· / ·), lt := fun a b => decide (a < b),
    ofNat := id, ofQ := fun q => q.num.toNat / q.den }

def T0 : Tuning Nat :=
  { params := ⟨0, 0, 0, 0, 0, 0, 0, 0, 0, 0⟩, idf := fun n df => n - df, host := [], ri := {}, normQ := id,
    nlp := fun _ => { intentBoost := fun _ => 1, cascade := fun _ => 1 }, tfidf := none, fuzzySort := id }
def tk (n : Nat) : Bytes := [UInt8.ofNat n]
def idx0 : Index :=
  { postings := [], df := [(tk 1, 1), (tk 2, 1), (tk 3, 1), (tk 4, 1), (tk 5, 1), (tk 6, 1), (tk 7, 6), (tk 8, 1)], lens := [], n := 10 }
def user7 : List Bytes := [tk 1, tk 2, tk 3, tk 4, tk 5, tk 6, tk 7]

set_option linter.unusedSimpArgs false in
/-- seven user words, cap 7, one appended term: the seventh user word (document frequency 6) is not searched -/
theorem cap_seven_displaces_user_word :
    user7.length = 7 ∧ enhanceTerms user7 [tk 8] = user7 ++ [tk 8] ∧ look idx0.df (tk 7) = some 6 ∧
    tk 7 ∉ selectTopTerms T0 idx0 (enhanceTerms user7 [tk 8]) 7 ∧
    tk 7 ∈ selectTopTerms T0 idx0 user7 7 := by
  refine ⟨by decide, by decide, by decide, ?_, ?_⟩
  · have h : enhanceTerms user7 [tk 8] = user7 ++ [tk 8] := by decide
    rw [h]
    simp [selectTopTerms, scoreTermsAux, sortDesc, user7, tk, idx0, T0, look, preserveCount, Gen.SearchParams.preserveCount, List.mergeSort,
      List.MergeSort.Internal.splitInTwo, List.merge, ScoreOps.lt]
  · simp [selectTopTerms, user7]

end sharpness

/-! ## Non-vacuity -/

section examples

/-- the constants the statements mention -/
example : defaultTermCap = 10 ∧ preserveCount = 4 := by decide  -- the two numbers the property itself names ("up to ten", "first four")

/-- one action word, one target word, one word with a synonym, a stop word, with the regenerated tables -/
def q1 : Bytes := ofStr "Compress the folders, print file!"

example : words q1 = [ofStr "compress", ofStr "the", ofStr "folders", ofStr "print", ofStr "file"] := by decide

example : (processQuery genTables {} q1).actions = [ofStr "compress", ofStr "archive", ofStr "zip", ofStr "tar"] := by decide
example : (processQuery genTables {} q1).targets = [ofStr "file", ofStr "document"] := by decide
example : (processQuery genTables {} q1).keywords =
    [ofStr "folders", ofStr "directories", ofStr "print", ofStr "cat", ofStr "file"] := by decide

/-- the expanded list of that query with the regenerated hint rules: the five keywords first, then hints
    (`tar zip gzip` from the compress rule), actions and targets -/
example : enhancedKeywords genTables genHints (processQuery genTables {} q1) =
    (processQuery genTables {} q1).keywords ++
      [ofStr "tar", ofStr "zip", ofStr "gzip", ofStr "compress", ofStr "archive", ofStr "document"] := by decide

/-- a 12-word query: outside `default_cap`'s hypothesis, yet its first four words are always searched with -/
def long12 : List Bytes := (List.range 12).map (fun i => [UInt8.ofNat (97 + i), 0x7A])

example : long12.length = 12 ∧ ¬ long12.length ≤ defaultTermCap := by decide

example {S : Type} [ScoreOps S] (T : Tuning S) (idx : Index) (enh : List Bytes) (cap : Nat) :
    [0x64, 0x7A] ∈ selectTopTerms T idx (enhanceTerms long12 enh) cap :=
  first_four T idx long12 enh cap _ (by decide)

/-- a 10-word query under the default cap: every word is searched with, whatever is appended -/
example {S : Type} [ScoreOps S] (T : Tuning S) (idx : Index) (enh : List Bytes) (o : Opts S) (h : o.topTermsCap ≤ 0) :
    long12.take 10 ⊆ selectTopTerms T idx (enhanceTerms (long12.take 10) enh) (effCap o) :=
  terms_superset T idx _ enh _ (default_cap o _ enh (by decide) h)

end examples

end Wtf.C06
