import WtfModel.Props.C01c
/-
  C01 — `universal_modelled_sorted` with the similarity floor of the source.

  `Gen.LegacyScore.tfidfMinSim` is the literal in `if similarity > <floor>` of `TFIDFSearcher.Search`, regenerated on every run
  (it used to be a `0.01` typed into the driver: a re-tuned floor then broke the correspondence although nothing depends on the
  value, tunings2/T03).  The driver runs with `ofQ tfidfMinSim`; the theorem below is `universal_modelled_sorted` at that value,
  its `minSim ≥ 0` hypothesis discharged by evaluating the sign of the regenerated literal.  Left: `idf n df ≥ 0` for `df ≤ n`
  (Props/C01d: holds for the source's formula over the reals).
-/
namespace Wtf.C01
open Wtf.Search Wtf.Legacy ScoreOps ScoreLaws

variable {S : Type} [ScoreOps S] [ScoreLaws S]

/-- the regenerated similarity floor is not negative -/
theorem source_floor_nonneg : Nonneg (ofQ Gen.LegacyScore.tfidfMinSim : S) :=
  ofQ_nonneg _ (by decide) (by decide)

/-- **C01, SearchUniversal over every modelled layer, at the source's similarity floor**: one hypothesis left -/
theorem universal_modelled_source_floor (idf : Nat → Nat → S) (host : Bytes) (ri : RuneInfo) (normQ : Bytes → Bytes)
    (sqrt : S → S) (idx? : Option (Tfidf.Index S)) (db : Db)
    (hidf : ∀ n df, df ≤ n → lt (idf n df) (zero : S) = false)
    (q : Bytes) (o : Opts S) (r : List (Nat × S))
    (h : search (modelledTuning idf host ri normQ GoSort.fuzzyStable sqrt (ofQ Gen.LegacyScore.tfidfMinSim) idx? db) db q o = .ok r) :
    r.length ≤ effLimit o ∧ (∀ x ∈ r, x.1 < db.length) ∧ (r.map (·.1)).Nodup ∧
    r.Pairwise (fun a b => lt a.2 b.2 = false) ∧ (∀ x ∈ r, Nonneg x.2) :=
  universal_modelled_sorted idf host ri normQ sqrt _ idx? db hidf source_floor_nonneg q o r h

end Wtf.C01
