import WtfModel.Proofs.MetricsMonitor
import WtfModel.Gen.Metrics

/-!
  C18 — metrics are keyed by identity and account for every event.
  Property theorems only (helper lemmas: Proofs/Metrics*.lean).  `Gen.Metrics.*` is regenerated from
  /repo/internal/metrics on every run: `keyLoopSortsTags` (shape of `metricKey`), the two separator
  literals, `counterOpsAtomic`, `histObserveLocked`, `defaultBuckets`.

  Reading guide: a tag map is a duplicate-free association list `tags`; `σ` is the order in which one
  `range tags` loop delivers the names (`ValidSched tags σ`: any permutation); a "metric" returned by the
  collector is a position in a registry (the model's stand-in for the Go pointer).
-/
namespace Wtf.C18
open Wtf.Metrics

/-- the separators found in the source -/
def seps : Seps := ⟨asc Wtf.Gen.Metrics.tagSep, asc Wtf.Gen.Metrics.kvSep⟩

/-- `Collector.metricKey` of the code as it is now -/
def key (name : Bytes) (tags : Tags) (σ : List Bytes) : Bytes :=
  metricKey Wtf.Gen.Metrics.keyLoopSortsTags seps name tags σ

/-- model configuration taken from the source, for any number type -/
def cfgOf {α : Type} (buckets : List α) : Cfg α := ⟨Wtf.Gen.Metrics.keyLoopSortsTags, seps, buckets⟩

/-- the default bucket table as rationals -/
def defaultBuckets : List Rat := Wtf.Gen.Metrics.defaultBuckets.map qToRat

/-! ### same name + same tags ⇒ same key, whatever order the tags are held in -/

/-- The key does not depend on the order in which the map delivers the tag names.  Premise (checked by
    `decide` against the regenerated fact): the concatenating loop of `metricKey` walks a sorted slice
    of the names and not the map. -/
theorem key_sched_indep (name : Bytes) (tags : Tags) {σ₁ σ₂ : List Bytes}
    (h₁ : ValidSched tags σ₁) (h₂ : ValidSched tags σ₂) : key name tags σ₁ = key name tags σ₂ := by
  have hs : Wtf.Gen.Metrics.keyLoopSortsTags = true := by decide
  unfold key
  rw [hs]
  exact metricKey_sorted_indep _ _ _ (h₁.trans h₂.symm)

/-- … nor on the order in which the caller inserted the tags into the map. -/
theorem key_tags_perm (name : Bytes) {t₁ t₂ : Tags} (ht : t₁.Perm t₂) (hn : (tagNames t₁).Nodup)
    {σ₁ σ₂ : List Bytes} (h₁ : ValidSched t₁ σ₁) (h₂ : ValidSched t₂ σ₂) : key name t₁ σ₁ = key name t₂ σ₂ := by
  have hs : Wtf.Gen.Metrics.keyLoopSortsTags = true := by decide
  unfold key
  rw [hs]
  exact metricKey_perm _ _ ht hn h₁ h₂

/-- Asking twice for the same name and tag set (tags arranged and iterated in any two orders) yields the
    same metric — the same position — and the second call creates nothing: the registry is unchanged.
    The series found there is filed under that identity's key, and keys stay unique. -/
theorem same_series {β : Type} (r : Registry β) (name : Bytes) {t₁ t₂ : Tags} (ht : t₁.Perm t₂)
    (hn : (tagNames t₁).Nodup) {σ₁ σ₂ : List Bytes} (h₁ : ValidSched t₁ σ₁) (h₂ : ValidSched t₂ σ₂)
    (fresh fresh' : β) :
    let g₁ := getOrCreate r (key name t₁ σ₁) name t₁ fresh
    let g₂ := getOrCreate g₁.1 (key name t₂ σ₂) name t₂ fresh'
    g₂.2 = g₁.2 ∧ g₂.1 = g₁.1 ∧
    (∃ s, g₁.1[g₁.2]? = some s ∧ s.key = key name t₁ σ₁) ∧
    ((keysOf r).Nodup → (keysOf g₂.1).Nodup) := by
  intro g₁ g₂
  have hk : key name t₂ σ₂ = key name t₁ σ₁ := (key_tags_perm name ht hn h₁ h₂).symm
  have hg : g₂ = g₁ := by
    show getOrCreate (getOrCreate r _ name t₁ fresh).1 (key name t₂ σ₂) name t₂ fresh' = _
    rw [hk]; exact getOrCreate_again r _ name name t₁ t₂ fresh fresh'
  refine ⟨by rw [hg], by rw [hg], getOrCreate_fst_snd r _ name t₁ fresh, ?_⟩
  intro hnd
  rw [hg]
  exact getOrCreate_nodup r _ name t₁ fresh hnd

/-- **Every event recorded for one series lands in one series.**  After any sequence of recorded events
    (each a get-or-create followed by an update of the metric obtained; any interleaving of such
    lock-protected steps is such a sequence) starting from an empty registry: no key has two series,
    every series was asked for, and what is filed under a key is the result of applying, in order,
    exactly the events of that key — all events of one identity among them, by `key_sched_indep`. -/
theorem events_land_in_one_series {β : Type} (fresh : β) (es : List (Ev β)) :
    (keysOf (applyEvs fresh [] es)).Nodup ∧
    (∀ k ∈ keysOf (applyEvs fresh [] es), k ∈ es.map (·.key)) ∧
    (∀ K, valD (applyEvs fresh [] es) K fresh =
      (es.filter (fun e => decide (e.key = K))).foldl (fun v e => e.f v) fresh) := by
  refine ⟨applyEvs_nodup fresh es [] List.nodup_nil, ?_, fun K => valD_applyEvs fresh es K []⟩
  intro k hk
  rcases applyEvs_keys_sub fresh es [] k hk with h | h
  · simp [keysOf] at h
  · exact h

/-! ### counter -/

/-- what the property promises for a counter: number of `Inc` plus the sum of `Add` arguments since the
    last `Reset` (unbounded integers) -/
def expected (ops : List CounterOp) : Int := (incs (sinceReset ops) : Int) + adds (sinceReset ops)

/-- The value after any sequence of operations is that number, as an int64 (wraps exactly when the
    number does not fit), hence equal to it whenever it fits. -/
theorem counter (ops : List CounterOp) :
    counterRun 0 ops = wrap64 (expected ops) ∧
    (-(2 ^ 63) ≤ expected ops → expected ops < 2 ^ 63 → counterRun 0 ops = expected ops) := by
  have h : counterRun 0 ops = wrap64 (expected ops) := by
    rw [counterRun_eq ops 0 (by decide)]
    congr 1
    unfold expected
    by_cases hr : ops.contains .reset = true
    · exact tally_sinceReset ops 0 hr
    · have hr' : ops.contains .reset = false := by simpa using hr
      have hsr : ∀ l : List CounterOp, l.contains .reset = false → sinceReset l = l := by
        intro l
        induction l with
        | nil => intro _; rfl
        | cons a as _ =>
          intro hl
          simp only [List.contains_cons, Bool.or_eq_false_iff, beq_eq_false_iff_ne, ne_eq] at hl
          have ha : ¬ a = CounterOp.reset := fun e => hl.1 e.symm
          simp only [sinceReset, hl.2, Bool.false_eq_true, ↓reduceIte, ha]
      rw [hsr ops hr', tally_no_reset ops 0 hr']; omega
  exact ⟨h, fun h1 h2 => by rw [h, wrap64_of_range h1 h2]⟩

/-! ### histogram -/

/-- After observing `vs` (in that order) a histogram reports `vs.length` observations and their sum
    accumulated left to right; every observation sits in exactly one of the `len(buckets)+1` cells. -/
theorem hist_count_sum {α : Type} [Num α] (buckets : List α) (vs : List α) :
    let h := (Hist.new buckets).observeAll vs
    h.count = vs.length ∧ h.sum = vs.foldl Num.add Num.zero ∧
    h.counts.sum = vs.length ∧ h.counts.length = buckets.length + 1 ∧ h.buckets = buckets := by
  intro h
  have s := Hist.observeAll_spec vs (Hist.new buckets)
  have w := Hist.observeAll_wf vs (Hist.new_wf buckets)
  have hc : h.count = vs.length := by
    show ((Hist.new buckets).observeAll vs).count = _
    rw [s.1]; simp [Hist.new]
  refine ⟨hc, s.2.1, ?_, ?_, s.2.2⟩
  · rw [w.total]; exact hc
  · have := w.cells; rw [s.2.2] at this; exact this

/-- the regenerated default bucket table is strictly increasing (and not empty) -/
theorem buckets_sorted : defaultBuckets.Pairwise (· < ·) ∧ defaultBuckets ≠ [] :=
  ⟨qSorted_pairwise _ (by decide), by
    intro h
    have : Wtf.Gen.Metrics.defaultBuckets.length ≠ 0 := by decide
    exact this (by simpa [defaultBuckets] using congrArg List.length h)⟩

/-- Percentiles never decrease as the percentile grows.  Over the rationals, the conversion
    `int64(float64(count)*p/100.0)` being truncation toward zero (= floor, as `0 ≤ p`).
    Domain hypotheses: the bucket list is sorted and not empty (an empty custom list makes Go panic),
    `0 ≤ p ≤ p' ≤ 100`. -/
theorem percentile_mono (buckets : List Rat) (hs : buckets.Pairwise (· ≤ ·)) (hne : buckets ≠ [])
    (vs : List Rat) {p p' : Rat} (h0 : 0 ≤ p) (hpp : p ≤ p') (h100 : p' ≤ 100) :
    ∃ x y, ((Hist.new buckets).observeAll vs).percentile p = some x ∧
           ((Hist.new buckets).observeAll vs).percentile p' = some y ∧ x ≤ y := by
  have w := Hist.observeAll_wf vs (Hist.new_wf buckets)
  have hb := (Hist.observeAll_spec vs (Hist.new buckets)).2.2
  have hb' : ((Hist.new buckets).observeAll vs).buckets = buckets := by simpa [Hist.new] using hb
  exact percentileAt_mono w (by rw [hb']; exact hs) (by rw [hb']; exact hne)
    (target_mono _ h0 hpp) (target_le_count _ (Rat.le_trans h0 hpp) h100)

/-- … in particular for every histogram the collector creates (default buckets). -/
theorem percentile_mono_default (vs : List Rat) {p p' : Rat} (h0 : 0 ≤ p) (hpp : p ≤ p') (h100 : p' ≤ 100) :
    ∃ x y, ((Hist.new defaultBuckets).observeAll vs).percentile p = some x ∧
           ((Hist.new defaultBuckets).observeAll vs).percentile p' = some y ∧ x ≤ y :=
  percentile_mono defaultBuckets (buckets_sorted.1.imp Rat.le_of_lt) buckets_sorted.2 vs h0 hpp h100

/-! ### the monitor's totals -/

/-- After any history of monitor calls (with arbitrary map orders in every database call) starting from
    `NewPerformanceMonitor()`, counting only calls made while the monitor is enabled:
    * `searches_total{cache_hit=b}` = number of searches with that flag; `cache_hits_total` /
      `cache_misses_total` likewise; `query_length` and `search_duration{cache_hit=b}` have that many observations;
    * `database_operations_total{operation=o,success=s}` = number of database calls with exactly that
      operation and outcome, and `database_operation_duration{…}` has that many observations;
    * no key holds two counter series.
    Counter values are int64 (`wrap64`); see `searches_total_sum` for the plain reading. -/
theorem monitor_totals {α : Type} [Num α] (buckets : List α) (ops : List (MonOp α)) (hv : ∀ op ∈ ops, ValidOp op) :
    let m := (Monitor.new : Monitor α).run (cfgOf buckets) ops
    let fresh := Hist.new buckets
    (∀ b, valD m.c.counters (key nSearchesTotal (searchTags b) [tCacheHit]) 0 = wrap64 (countOps (isSearch b) true ops)) ∧
    valD m.c.counters nCacheHits 0 = wrap64 (countOps (isSearch true) true ops) ∧
    valD m.c.counters nCacheMisses 0 = wrap64 (countOps (isSearch false) true ops) ∧
    (valD m.c.hists nQueryLength fresh).count = countOps isAnySearch true ops ∧
    (∀ b, (valD m.c.timers (key nSearchDuration (searchTags b) [tCacheHit]) fresh).count = countOps (isSearch b) true ops) ∧
    (∀ o s σ, ValidSched (dbTags o s) σ →
      valD m.c.counters (key nDbTotal (dbTags o s) σ) 0 = wrap64 (countOps (isDb o s) true ops) ∧
      (valD m.c.timers (key nDbDuration (dbTags o s) σ) fresh).count = countOps (isDb o s) true ops) ∧
    (keysOf m.c.counters).Nodup := by
  intro m fresh
  have hs : (cfgOf buckets).sorts = true := (by decide : Wtf.Gen.Metrics.keyLoopSortsTags = true)
  have hT : ∀ op ∈ ops, True := fun _ _ => trivial
  refine ⟨?_, ?_, ?_, ?_, ?_, ?_, ?_⟩
  · intro b
    show valD ((Monitor.new : Monitor α).run (cfgOf buckets) ops).c.counters _ 0 = _
    rw [run_counter_value]
    congr 2
    exact evsOf_filter_length _ _ (isSearch b) (fun _ => True) (fun op _ => filter_len_search (cfgOf buckets) b op) ops true hT
  · show valD ((Monitor.new : Monitor α).run (cfgOf buckets) ops).c.counters _ 0 = _
    rw [run_counter_value]
    congr 2
    exact evsOf_filter_length _ _ (isSearch true) (fun _ => True) (fun op _ => filter_len_hits (cfgOf buckets) op) ops true hT
  · show valD ((Monitor.new : Monitor α).run (cfgOf buckets) ops).c.counters _ 0 = _
    rw [run_counter_value]
    congr 2
    exact evsOf_filter_length _ _ (isSearch false) (fun _ => True) (fun op _ => filter_len_misses (cfgOf buckets) op) ops true hT
  · show (valD ((Monitor.new : Monitor α).run (cfgOf buckets) ops).c.hists _ (Hist.new (cfgOf buckets).defaultBuckets)).count = _
    rw [run_hist_count]
    exact evsOf_filter_length _ _ isAnySearch (fun _ => True) (fun op _ => filter_len_qlen (cfgOf buckets) op) ops true hT
  · intro b
    show (valD ((Monitor.new : Monitor α).run (cfgOf buckets) ops).c.timers _ (Hist.new (cfgOf buckets).defaultBuckets)).count = _
    rw [run_timer_count]
    exact evsOf_filter_length _ _ (isSearch b) (fun _ => True) (fun op _ => filter_len_search_timer (cfgOf buckets) b op) ops true hT
  · intro o s σ hσ
    constructor
    · show valD ((Monitor.new : Monitor α).run (cfgOf buckets) ops).c.counters _ 0 = _
      rw [run_counter_value]
      congr 2
      exact evsOf_filter_length _ _ (isDb o s) ValidOp (fun op h => filter_len_db (cfgOf buckets) hs o s hσ op h) ops true hv
    · show (valD ((Monitor.new : Monitor α).run (cfgOf buckets) ops).c.timers _ (Hist.new (cfgOf buckets).defaultBuckets)).count = _
      rw [run_timer_count]
      exact evsOf_filter_length _ _ (isDb o s) ValidOp (fun op h => filter_len_db_timer (cfgOf buckets) hs o s hσ op h) ops true hv
  · show (keysOf ((Monitor.new : Monitor α).run (cfgOf buckets) ops).c.counters).Nodup
    rw [run_counters]
    exact applyEvs_nodup _ _ _ List.nodup_nil

/-- Σ over the series of `searches_total` = number of searches recorded while enabled
    (as long as that number fits an int64). -/
theorem searches_total_sum {α : Type} [Num α] (buckets : List α) (ops : List (MonOp α)) (hv : ∀ op ∈ ops, ValidOp op)
    (hfit : (countOps isAnySearch true ops : Int) < 2 ^ 63) :
    let m := (Monitor.new : Monitor α).run (cfgOf buckets) ops
    valD m.c.counters (key nSearchesTotal (searchTags true) [tCacheHit]) 0 +
      valD m.c.counters (key nSearchesTotal (searchTags false) [tCacheHit]) 0 = countOps isAnySearch true ops := by
  intro m
  have h := (monitor_totals buckets ops hv).1
  have hsplit := countOps_search_split ops true
  rw [h true, h false, wrap64_of_range (by omega) (by omega), wrap64_of_range (by omega) (by omega)]
  omega

/-! ### concurrent goroutines -/

/-- `N` goroutines each perform `ks[i]` increments of one counter.  Premise (regenerated, `decide`): `Inc`
    is a single `atomic.AddInt64`.  Then for **every** schedule of the atomic steps, at every moment
    value + increments still to be executed = total, so once all goroutines are done the value equals
    the number of increments. -/
theorem counter_total_concurrent (ks : List Nat) (sched : List Nat) :
    let s := (Sys.init Wtf.Gen.Metrics.counterOpsAtomic ks).run sched
    s.shared + remaining s.threads = ks.sum ∧ (s.done = true → s.shared = ks.sum) := by
  have ha : Wtf.Gen.Metrics.counterOpsAtomic = true := by decide
  rw [ha]
  intro s
  have hi := init_atomic ks
  have hr := run_atomic sched (Sys.init true ks) hi.1
  have h1 : s.shared + remaining s.threads = ks.sum := by
    have h2 := hr.2
    rw [hi.2] at h2
    exact h2.trans (by simp [Sys.init])
  refine ⟨h1, fun hd => ?_⟩
  have := remaining_of_done s.threads hd
  rw [this] at h1; simpa using h1

/-- `Histogram.Observe` runs under the histogram's exclusive lock, so concurrent observations are
    applied one after the other and `hist_count_sum` speaks about the order in which they took the lock. -/
theorem observe_serialised : Wtf.Gen.Metrics.histObserveLocked = true := by decide

/-! ### non-vacuity and why the premises are needed -/

private def a : Bytes := asc "a"
private def b : Bytes := asc "b"
private def twoTags : Tags := [(a, asc "1"), (b, asc "2")]

/-- with the loop ranging over the map (flag = false) the two iteration orders of a two-tag map give two
    different keys: the premise of `key_sched_indep` is needed -/
example : ValidSched twoTags [a, b] ∧ ValidSched twoTags [b, a] ∧
    metricKey false seps (asc "m") twoTags [a, b] ≠ metricKey false seps (asc "m") twoTags [b, a] :=
  ⟨List.Perm.refl _, List.Perm.swap _ _ _, by decide⟩

/-- … and two lookups of one identity then create two series -/
example : (getOrCreate (getOrCreate ([] : Registry Nat) (metricKey false seps (asc "m") twoTags [a, b]) (asc "m") twoTags 0).1
    (metricKey false seps (asc "m") twoTags [b, a]) (asc "m") twoTags 0).1.length = 2 := by decide

/-- whereas the code as it is gives one key, and it is the expected string -/
example : key (asc "m") twoTags [b, a] = asc "m" ++ seps.tag ++ a ++ seps.kv ++ asc "1" ++ seps.tag ++ b ++ seps.kv ++ asc "2" ∧
    key (asc "m") twoTags [a, b] = key (asc "m") twoTags [b, a] := by decide

/-- distinct tag sets may share a key (the property does not forbid this direction) -/
example : key (asc "m") [(a, asc "1" ++ seps.tag ++ b ++ seps.kv ++ asc "2")] [a] = key (asc "m") twoTags [a, b] := by decide

example : counterRun 0 [.inc, .add 5, .reset, .inc, .inc, .add 3] = 5 := by decide
example : expected [.inc, .add 5, .reset, .inc, .inc, .add 3] = 5 := by decide
/-- int64 wrap-around is part of the model -/
example : counterRun 0 [.add (2 ^ 63 - 1), .inc] = -(2 ^ 63) := by decide

/-- the percentile loop: cells `[1,0,2,1]`, target 2 is reached in cell 2; a target above the number of
    observations (p > 100, outside the domain) is never reached and `Percentile` then answers 0, which is
    why monotonicity is claimed on [0,100] only -/
example : pctIdx [1, 0, 2, 1] 0 2 0 = some 2 ∧ pctIdx [1, 0, 2, 1] 0 4 0 = some 3 ∧ pctIdx [1, 0, 2, 1] 0 5 0 = none := by decide

/-- an empty custom bucket list makes `Percentile` panic (index -1) -/
example : bucketAt ([] : List Rat) 0 = none := by decide

/-- two searches (one hit, one miss), one ignored while disabled, two loads with different map orders -/
private def demoOps : List (MonOp Nat) :=
  [.search 1 3 true 4, .enable false, .search 1 3 true 4, .enable true, .search 2 0 false 7,
   .db (asc "load") 5 true [tOperation, tSuccess] [tSuccess, tOperation],
   .db (asc "load") 6 true [tSuccess, tOperation] [tOperation, tSuccess]]

private instance : Num Nat := ⟨0, (· + ·), fun x y => decide (x ≤ y), fun n p => n * p / 100⟩

example : ∀ op ∈ demoOps, ValidOp op := by
  intro op h
  simp only [demoOps, List.mem_cons, List.not_mem_nil, or_false] at h
  rcases h with rfl | rfl | rfl | rfl | rfl | rfl | rfl <;>
    first | trivial | exact ⟨List.Perm.refl _, List.Perm.swap _ _ _⟩ | exact ⟨List.Perm.swap _ _ _, List.Perm.refl _⟩

example : countOps (isSearch true) true demoOps = 1 ∧ countOps isAnySearch true demoOps = 2 ∧
    countOps (isDb (asc "load") true) true demoOps = 2 := by decide

/-- the model run itself: one series for the two loads (flag as in the source) … -/
example : (((Monitor.new : Monitor Nat).run (cfgOf [10, 20]) demoOps).c.counters.map (fun s => (s.key, s.val))) =
    [(key nSearchesTotal (searchTags true) [tCacheHit], 1), (nCacheHits, 1),
     (key nSearchesTotal (searchTags false) [tCacheHit], 1), (nCacheMisses, 1),
     (key nDbTotal (dbTags (asc "load") true) [tSuccess, tOperation], 2)] := by decide

/-- … two series (the original defect) when the key follows the map order -/
example : (((Monitor.new : Monitor Nat).run ⟨false, seps, [10, 20]⟩ demoOps).c.counters.map (fun s => s.val)) =
    [1, 1, 1, 1, 1, 1] := by decide

/-- interleavings: 2 goroutines × 1 increment.  Atomic: every complete schedule gives 2. -/
example : ((Sys.init true [1, 1]).run [1, 0]).done = true ∧ ((Sys.init true [1, 1]).run [1, 0]).shared = 2 := by decide

/-- Non-atomic read-modify-write (`c.value++`): the schedule load₀ load₁ store₀ store₁ completes both
    goroutines and loses an increment — the premise of `counter_total_concurrent` is needed. -/
example : ((Sys.init false [1, 1]).run [0, 1, 0, 1]).done = true ∧ ((Sys.init false [1, 1]).run [0, 1, 0, 1]).shared = 1 := by decide

end Wtf.C18
