import WtfModel.Gen.Bm25F
import WtfModel.Proofs.C01Idf
/-
  C01 — the `idf ≥ 0` hypothesis of the ranking theorems, for the formula that is in the source.

  `Gen.Bm25F.idfArg` is the argument of `math.Log` in `bm25IDF`, translated from the source on every run (xlate/x_bm25f.go).
  It is shown ≥ 1 over the reals in the region the index asks for (`df ≤ N`), hence its logarithm is ≥ 0.  `math.Log` itself is
  a parameter of the model (its real values are fed to the driver and monitored): dropping the `+ 1` of the formula, or
  swapping `N − df` for `df − N`, breaks this file; re-tuning the ½ to another positive constant does not.
-/
namespace Wtf.C01
open Wtf Wtf.ScoreOps

/-- `bm25IDF` over the reals, with the argument of the logarithm as written in the source -/
noncomputable def sourceIdf (n df : Nat) : ℝ :=
  Real.log (@Gen.Bm25F.idfArg ℝ (fieldScoreOps ℝ) (n : ℝ) (df : ℝ))

/-- the argument of `math.Log` in the source is at least 1 whenever `df ≤ N` … -/
theorem idf_source_arg_ge_one (n df : Nat) (h : df ≤ n) :
    1 ≤ @Gen.Bm25F.idfArg ℝ (fieldScoreOps ℝ) (n : ℝ) (df : ℝ) := by
  unfold Gen.Bm25F.idfArg
  simp only [ScoreOps.add, ScoreOps.sub, ScoreOps.div, ScoreOps.one, ScoreOps.ofQ]
  have h1 : (0 : ℝ) ≤ (n : ℝ) - (df : ℝ) := sub_nonneg.mpr (Nat.cast_le.mpr h)
  have h0 : (0 : ℝ) ≤ (df : ℝ) := Nat.cast_nonneg df
  -- shape: 1 ≤ <quotient> + 1 with a quotient of two sums that are ≥ 0 (whatever the positive constants are)
  apply le_add_of_nonneg_left
  apply div_nonneg
  · exact add_nonneg h1 (by norm_num)
  · exact add_nonneg h0 (by norm_num)

/-- … so the idf of the source formula is never negative there (the `idf` field of `TuningWF`) -/
theorem idf_source_nonneg (n df : Nat) (h : df ≤ n) : 0 ≤ sourceIdf n df :=
  Real.log_nonneg (idf_source_arg_ge_one n df h)

/-- the model's idf hypothesis is met by the source formula over the reals, whatever the other parameters are -/
theorem idfNonneg_source (T : @Search.Tuning ℝ) (h : T.idf = sourceIdf) : @Search.IdfNonneg ℝ (fieldScoreOps ℝ) T := by
  intro n df hle
  rw [h]
  have := idf_source_nonneg n df hle
  show decide (sourceIdf n df < 0) = false
  simpa using this

/-- reading check that does not pin the constants: among 10 documents a term found in none of the others weighs more than
    one found in all of them -/
example : @Gen.Bm25F.idfArg ℝ (fieldScoreOps ℝ) (10 : ℝ) (10 : ℝ) < @Gen.Bm25F.idfArg ℝ (fieldScoreOps ℝ) (10 : ℝ) (0 : ℝ) := by
  unfold Gen.Bm25F.idfArg
  simp only [ScoreOps.add, ScoreOps.sub, ScoreOps.div, ScoreOps.one, ScoreOps.ofQ]
  norm_num

end Wtf.C01
