import WtfModel.Props.C05
import WtfModel.Proofs.KeyJson
import WtfModel.Proofs.KeyJsonLayer
import WtfModel.Proofs.KeyJsonNorm
import WtfModel.Gen.KeyJson

/-!
  C05, continued: the hypothesis "`E.enc` is injective" of Props/C05.lean, reduced.

  The real key string is  keyPrefix ++ hex (SHA-256 text)  where `text` is json.Marshal of the key struct or, when that
  fails (NaN / ±Inf), its `%#v` text.  Here `E.enc = hash ∘ keyText`, with
    `hash`      an arbitrary function Bytes → κ                          ASSUMED injective (SHA-256 collision-freedom)   (a)
    `keyText`   Model/KeyJson.lean: the JSON text, modelled byte for byte (json names, order, omitempty and kinds
                regenerated from the source; validated against the real json.Marshal by the `keyjson` correspondence),
                with the float formatter as a parameter `fmt`             ASSUMED `FloatFmtOK fmt`                          (b)
                (number alphabet; injective on finite 64-bit patterns);
                the `%#v` text is a parameter `goText`                     ASSUMED `GoTextOK goText` -- needed only by the  (c)
                theorems that admit NaN / ±Inf options (`*_keyed`), not by the `*_keyed_finite` ones.
  PROVED: the JSON text determines the key view (`key_text_injective`), so `hash ∘ keyText` separates the key pre-images of
  all well-typed requests (`enc_separates`); the theorems of Props/C05.lean that took `Injective E.enc` follow
  (`transparent_keyed`, `no_sharing_keyed`, and their `_finite` forms).

  Two facts that were hidden in "`enc` injective on `KeyData`" surface as explicit hypotheses:
    `NormValid E`    the normalised query is valid UTF-8 (encoding/json would write \ufffd for an invalid byte whichever it
                     was).  True of strings.ToLower: PROVED for the model's normaliser `Wtf.NormQ.normQ` over every table of
                     Unicode facts (`norm_valid_model`); monitored on the real one (class norm-query-invalid-utf8).
    `WellTyped o`    the request is a well-typed Go value: each option field holds a value of the kind of its Go type, float
                     patterns are 64-bit (the model's `Opts` are untyped; the text of the int 5 and of the float 5.0 is `5`).
  Unchanged: `EngineReadsOnly`, `EngineNormalises` (see Props/C05.lean).
-/
namespace Wtf.C05
open Wtf Wtf.CacheLayer Wtf.KeyJson

variable {Db Ans κ : Type} [DecidableEq κ]

/-- the bytes generateCacheKey hashes for a key pre-image -/
def keyTextOf (fmt : Nat → Bytes) (goText : Query → List (String × Val) → Bytes) : KeyData → Bytes :=
  keyText fmt goText Gen.KeyJson.queryName Gen.KeyJson.optionsName

/-- `E` builds its keys as the code does: pass 1 of the string encoder on every option string, and
    key = hash (text of the key struct). -/
structure KeyedAsCode (E : Env Db Ans κ) (hash : Bytes → κ) (fmt : Nat → Bytes)
    (goText : Query → List (String × Val) → Bytes) : Prop where
  utf8 : E.utf8 = coerce
  enc : ∀ kd, E.enc kd = hash (keyTextOf fmt goText kd)

/-- The request is a well-typed Go value of type database.SearchOptions. -/
def WellTyped (o : Opts) : Prop :=
  ∀ f ty, (f, ty) ∈ Gen.CacheKey.optionFields → kindOfGo ty = some (kindOf (o f)) ∧ bitsOK (o f) = true

/-- every search of the history is about a well-typed request -/
def HistTyped (hist : List (Op Db)) : Prop := ∀ op ∈ hist, OpOn WellTyped op

/-- ... and about one json.Marshal accepts -/
def HistFinite (hist : List (Op Db)) : Prop := ∀ op ∈ hist, OpOn (fun o => WellTyped o ∧ FiniteOpts o) op

/-- a conversion literal copies like-typed fields, and every key field has a modelled kind -/
def siteTyped (sh : Shape) : Bool :=
  sh.keyFields.all (fun kf => (kindOfGo kf.2.1).isSome &&
    match sh.site.lookup kf.1 with
    | some f => Gen.CacheKey.optionFields.contains (f, kf.2.1)
    | none => true)

/-- The json names of the key struct and of cache.SearchOptions are pairwise distinct byte strings without `"`;
    every key field has one of the six modelled kinds and receives a like-typed option field, at both conversion sites.
    (regenerated facts; fails to build when a json name is reused or a field changes its type) -/
theorem key_names_ok :
    NamesOK (jsonNames shC) ∧ NamesOK [Gen.KeyJson.queryName, Gen.KeyJson.optionsName] ∧
    Gen.KeyJson.keyStruct.map (·.2.1) = ["string", "SearchOptions"] ∧
    Gen.KeyJson.keyStruct.map (·.2.2.2) = [false, false] ∧
    siteTyped shC = true ∧ siteTyped shM = true := by
  refine ⟨?_, ?_, by decide, by decide, by decide, by decide⟩ <;> (unfold NamesOK; decide)

private theorem zero_typed {t : String} (h : (kindOfGo t).isSome = true) :
    kindOfGo t = some (kindOf (zeroOf t)) ∧ bitsOK (zeroOf t) = true := by
  unfold kindOfGo at h ⊢
  split
  · rename_i e; rw [beq_iff_eq] at e; subst e; exact ⟨rfl, rfl⟩
  split
  · rename_i e; rw [beq_iff_eq] at e; subst e; exact ⟨rfl, rfl⟩
  split
  · rename_i e; rw [beq_iff_eq] at e; subst e; exact ⟨rfl, rfl⟩
  split
  · rename_i e; rw [beq_iff_eq] at e; subst e; exact ⟨rfl, rfl⟩
  split
  · rename_i e; rw [beq_iff_eq] at e; subst e; exact ⟨rfl, rfl⟩
  split
  · rename_i e; rw [beq_iff_eq] at e; subst e; exact ⟨rfl, rfl⟩
  · rename_i h1 h2 h3 h4 h5 h6; simp [h1, h2, h3, h4, h5, h6] at h

private theorem typed_of_site {sh : Shape} (hs : siteTyped sh = true) {o : Opts} (h : WellTyped o) : Typed sh o := by
  intro kf hkf
  unfold siteTyped at hs
  rw [List.all_eq_true] at hs
  have := hs kf hkf
  rw [Bool.and_eq_true] at this
  obtain ⟨h1, h2⟩ := this
  unfold fieldVal
  split at h2
  · rename_i f hf
    rw [hf]
    exact h f kf.2.1 (by simpa using h2)
  · rename_i hf
    rw [hf]
    exact zero_typed h1

theorem typed_both {o : Opts} (h : WellTyped o) : Typed shC o ∧ Typed shM o :=
  ⟨typed_of_site key_names_ok.2.2.2.2.1 h, typed_of_site key_names_ok.2.2.2.2.2 h⟩

/-- THE JSON TEXT IS INJECTIVE ON THE KEY VIEW.  For well-typed requests that json.Marshal accepts: if the views
    (query after pass 1 of the string encoder, `proj` of the options -- for any coercion `utf8`, in particular `coerce`)
    differ, the texts differ.  Only assumption: `FloatFmtOK fmt`. -/
theorem key_text_injective {fmt : Nat → Bytes} (hf : FloatFmtOK fmt) (utf8 : Bytes → Bytes)
    (q q' : Query) (o o' : Opts) (ht : WellTyped o) (ht' : WellTyped o') (hm : FiniteOpts o) (hm' : FiniteOpts o')
    (hdiff : coerce q ≠ coerce q' ∨ proj utf8 shC o ≠ proj utf8 shC o') :
    jsonText fmt Gen.KeyJson.queryName Gen.KeyJson.optionsName q (proj utf8 shC o) ≠
    jsonText fmt Gen.KeyJson.queryName Gen.KeyJson.optionsName q' (proj utf8 shC o') := by
  intro h
  obtain ⟨e1, e2⟩ := jsonText_proj_inj hf utf8 key_names_ok.1 _ _ (typed_both ht).1 (typed_both ht').1
    (finite_marshalOK o hm).1 (finite_marshalOK o' hm').1 h
  cases hdiff with
  | inl hd => exact hd e1
  | inr hd => exact hd e2

/-- A `%#v` text is never a JSON text (the first begins with `s`, the second with `{`): the two key families are
    disjoint before hashing. -/
theorem key_families_disjoint {goText : Query → List (String × Val) → Bytes} (hg : GoTextOK goText) (fmt : Nat → Bytes)
    (q q' : Query) (ko : KeyOpts) (vals : List (String × Val)) :
    keyTextOf fmt goText (.hashed q ko) ≠ keyTextOf fmt goText (.goSyntax q' vals) :=
  families_disjoint hg fmt _ _ q q' ko vals

omit [DecidableEq κ] in
/-- `hash ∘ keyText` separates the key pre-images of well-typed requests, at either conversion site. -/
theorem enc_separates {E : Env Db Ans κ} {hash : Bytes → κ} {fmt : Nat → Bytes}
    {goText : Query → List (String × Val) → Bytes} (hk : KeyedAsCode E hash fmt goText)
    (hh : ∀ a b, hash a = hash b → a = b) (hf : FloatFmtOK fmt) (hg : GoTextOK goText) (hv : NormValid E) :
    InjOn E shC WellTyped ∧ InjOn E shM WellTyped := by
  constructor
  · intro q o q' o' ht ht' h
    rw [hk.enc, hk.enc] at h
    exact keyText_keyOf_inj hf hg E hv key_names_ok.1 _ _ (typed_both ht).1 (typed_both ht').1 (hh _ _ h)
  · intro q o q' o' ht ht' h
    rw [hk.enc, hk.enc] at h
    exact keyText_keyOf_inj hf hg E hv key_names_ok.1 _ _ (typed_both ht).2 (typed_both ht').2 (hh _ _ h)

omit [DecidableEq κ] in
/-- ... and without any assumption on the `%#v` text when json.Marshal accepts the requests. -/
theorem enc_separates_finite {E : Env Db Ans κ} {hash : Bytes → κ} {fmt : Nat → Bytes}
    {goText : Query → List (String × Val) → Bytes} (hk : KeyedAsCode E hash fmt goText)
    (hh : ∀ a b, hash a = hash b → a = b) (hf : FloatFmtOK fmt) (hv : NormValid E) :
    InjOn E shC (fun o => WellTyped o ∧ FiniteOpts o) := by
  intro q o q' o' ht ht' h
  rw [hk.enc, hk.enc] at h
  have h := hh _ _ h
  have m := (finite_marshalOK o ht.2).1
  have m' := (finite_marshalOK o' ht'.2).1
  unfold keyOf at h ⊢
  rw [if_pos m, if_pos m'] at h ⊢
  obtain ⟨e1, e2⟩ := jsonText_proj_inj hf E.utf8 key_names_ok.1 _ _ (typed_both ht.1).1 (typed_both ht'.1).1 m m' h
  rw [hv, hv] at e1
  rw [e1, e2]

omit [DecidableEq κ] in
/-- `NormValid` holds whenever the environment normalises with the model of strings.ToLower ∘ strings.TrimSpace
    (Model/NormQ.lean, property C20), for every table of Unicode facts: ToLower copies ASCII-only strings bytewise and
    rebuilds any other string from utf8.AppendRune outputs, which utf8.DecodeRune accepts. -/
theorem norm_valid_model (E : Env Db Ans κ) (ri : RuneInfo) (h : E.normQ = NormQ.normQ ri) : NormValid E := by
  intro q
  rw [h]
  exact coerce_normQ ri q

private theorem transparent_on {P : Opts → Prop} (E : Env Db Ans κ) (hinj : InjOn E shC P)
    (hr : EngineReadsOnly E reads) (hn : EngineNormalises E)
    (db0 : Db) (hist : List (Op Db)) (hh : ∀ op ∈ hist, OpOn P op) (i : Nat) (q : Query) (o : Opts)
    (hop : hist[i]? = some (.search q o) ∨ hist[i]? = some (.monitoredSearch q o)) :
    (run E shC shM (init0 db0 : State κ Db Ans) hist).2[i]? =
      some (.ans (E.answer (dbAfter db0 (hist.take i)) q o)) := by
  have hi : InvOn P E shC (final E shC shM (init0 db0 : State κ Db Ans) (hist.take i)) :=
    run_invOn (init_invOn P E shC _ _ _ db0) _ (fun op hm => hh op (List.mem_of_mem_take hm))
  have hdb := final_db E shC shM (init0 db0 : State κ Db Ans) (hist.take i)
  have cov : covers shC reads = true := by decide
  cases hop with
  | inl hop =>
    have hp : P o := hh _ (List.mem_of_getElem? hop)
    rw [run_out E shC shM _ hist i _ hop]
    simp only [step]
    rw [search_specOn hinj cov hr hn hi q o hp, hdb]
    rfl
  | inr hop =>
    have hp : P o := hh _ (List.mem_of_getElem? hop)
    rw [run_out E shC shM _ hist i _ hop]
    simp only [step]
    rw [monitoredSearch_specOn hinj cov hr hn hi q o hp, hdb]
    rfl

/-- `transparent` (Props/C05.lean) with the key function spelled out: in any history of well-typed requests -- NaN and
    ±Inf included -- every search output is the engine's answer on the database in force.
    Hypotheses: (a) `hash` injective, (b) `FloatFmtOK fmt`, (c) `GoTextOK goText`, `NormValid`, the two engine hypotheses. -/
theorem transparent_keyed (E : Env Db Ans κ) {hash : Bytes → κ} {fmt : Nat → Bytes}
    {goText : Query → List (String × Val) → Bytes} (hk : KeyedAsCode E hash fmt goText)
    (hh : ∀ a b, hash a = hash b → a = b) (hf : FloatFmtOK fmt) (hg : GoTextOK goText) (hv : NormValid E)
    (hr : EngineReadsOnly E reads) (hn : EngineNormalises E)
    (db0 : Db) (hist : List (Op Db)) (ht : HistTyped hist) (i : Nat) (q : Query) (o : Opts)
    (hop : hist[i]? = some (.search q o) ∨ hist[i]? = some (.monitoredSearch q o)) :
    (run E shC shM (init0 db0 : State κ Db Ans) hist).2[i]? =
      some (.ans (E.answer (dbAfter db0 (hist.take i)) q o)) :=
  transparent_on E (enc_separates hk hh hf hg hv).1 hr hn db0 hist ht i q o hop

/-- The same for histories whose requests json.Marshal accepts (no NaN / ±Inf), with NO assumption about the `%#v` text:
    hypotheses (a) `hash` injective, (b) `FloatFmtOK fmt`, `NormValid`, the two engine hypotheses. -/
theorem transparent_keyed_finite (E : Env Db Ans κ) {hash : Bytes → κ} {fmt : Nat → Bytes}
    {goText : Query → List (String × Val) → Bytes} (hk : KeyedAsCode E hash fmt goText)
    (hh : ∀ a b, hash a = hash b → a = b) (hf : FloatFmtOK fmt) (hv : NormValid E)
    (hr : EngineReadsOnly E reads) (hn : EngineNormalises E)
    (db0 : Db) (hist : List (Op Db)) (ht : HistFinite hist) (i : Nat) (q : Query) (o : Opts)
    (hop : hist[i]? = some (.search q o) ∨ hist[i]? = some (.monitoredSearch q o)) :
    (run E shC shM (init0 db0 : State κ Db Ans) hist).2[i]? =
      some (.ans (E.answer (dbAfter db0 (hist.take i)) q o)) :=
  transparent_on E (enc_separates_finite hk hh hf hv) hr hn db0 hist ht i q o hop

/-- `no_sharing` with the key function spelled out: well-typed requests with different answers (on any database) have
    different real key strings. -/
theorem no_sharing_keyed (E : Env Db Ans κ) {hash : Bytes → κ} {fmt : Nat → Bytes}
    {goText : Query → List (String × Val) → Bytes} (hk : KeyedAsCode E hash fmt goText)
    (hh : ∀ a b, hash a = hash b → a = b) (hf : FloatFmtOK fmt) (hg : GoTextOK goText) (hv : NormValid E)
    (hr : EngineReadsOnly E reads) (hn : EngineNormalises E)
    (db : Db) (q q' : Query) (o o' : Opts) (ht : WellTyped o) (ht' : WellTyped o')
    (hdiff : E.answer db q o ≠ E.answer db q' o') :
    hash (keyTextOf fmt goText (keyOf E shC q o)) ≠ hash (keyTextOf fmt goText (keyOf E shC q' o')) := by
  intro h
  rw [← hk.enc, ← hk.enc] at h
  have cov : covers shC reads = true := by decide
  exact hdiff (key_sound cov hr hn ((enc_separates hk hh hf hg hv).1 _ _ _ _ ht ht' h) db)

theorem no_sharing_keyed_finite (E : Env Db Ans κ) {hash : Bytes → κ} {fmt : Nat → Bytes}
    {goText : Query → List (String × Val) → Bytes} (hk : KeyedAsCode E hash fmt goText)
    (hh : ∀ a b, hash a = hash b → a = b) (hf : FloatFmtOK fmt) (hv : NormValid E)
    (hr : EngineReadsOnly E reads) (hn : EngineNormalises E)
    (db : Db) (q q' : Query) (o o' : Opts) (ht : WellTyped o) (ht' : WellTyped o') (hm : FiniteOpts o) (hm' : FiniteOpts o')
    (hdiff : E.answer db q o ≠ E.answer db q' o') :
    hash (keyTextOf fmt goText (keyOf E shC q o)) ≠ hash (keyTextOf fmt goText (keyOf E shC q' o')) := by
  intro h
  rw [← hk.enc, ← hk.enc] at h
  have cov : covers shC reads = true := by decide
  exact hdiff (key_sound cov hr hn (enc_separates_finite hk hh hf hv _ _ _ _ ⟨ht, hm⟩ ⟨ht', hm'⟩ h) db)

/-! ### Non-vacuity -/

/-- `FloatFmtOK` is satisfiable (decimal digits of the bit pattern) -/
example : FloatFmtOK natDigits :=
  ⟨fun b _ _ c hc => by have := natDigits_digit b c hc; simp [numChar, this.1, this.2],
   fun _ _ _ _ _ _ h => natDigits_inj h⟩

/-- the zero record is a well-typed request that json.Marshal accepts (whatever the regenerated field list is) -/
example : WellTyped (zeroOpts Gen.CacheKey.optionFields) ∧ FiniteOpts (zeroOpts Gen.CacheKey.optionFields) := by
  constructor
  · have h : ∀ p ∈ Gen.CacheKey.optionFields, kindOfGo p.2 = some (kindOf (zeroOpts Gen.CacheKey.optionFields p.1)) ∧
        bitsOK (zeroOpts Gen.CacheKey.optionFields p.1) = true := by decide
    exact fun f ty hm => h (f, ty) hm
  · intro f
    unfold zeroOpts
    split
    · unfold zeroOf; repeat (first | rfl | split)
    · rfl

/-- the model on a literal field table (independent of the source): the text of
    ("a<", {Limit: 5, UseFuzzy: true, Platforms: nil, Boosts: nil}) is
    {"query":"a\u003c","options":{"limit":5,"use_fuzzy":true,"boosts":null}} -/
example :
    let sh : Shape := ⟨[("Limit", "int", "limit", false), ("UseFuzzy", "bool", "use_fuzzy", true),
        ("Platforms", "[]string", "platforms", true), ("Boosts", "map[string]float64", "boosts", false)],
      [("Limit", "Limit"), ("UseFuzzy", "UseFuzzy"), ("Platforms", "Platforms"), ("Boosts", "Boosts")]⟩
    let o : Opts := fun f => if f == "Limit" then .int 5 else if f == "UseFuzzy" then .bool true
      else if f == "Platforms" then .strs none else .boosts none
    jsonText natDigits "query" "options" [0x61, 0x3C] (proj coerce sh o) =
      lit "{\"query\":\"a\\u003c\",\"options\":{\"limit\":5,\"use_fuzzy\":true,\"boosts\":null}}" := by
  have h5 : intText 5 = [0x35] := by
    unfold intText
    rw [if_neg (by decide), natDigits, if_pos (by decide)]
    rfl
  simp [jsonText, goString, coerce, coerceAux, Utf8.decodeRune, Utf8.runeError, quote, quoteBody, escByte, jname, lit, objText,
    proj, fieldVal, jsonView, List.lookup, Val.isEmpty, Val.json, encField, encVal, h5, trueText, nullText, joinClose,
    joinTail, hexDigit]

end Wtf.C05
