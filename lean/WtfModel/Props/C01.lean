import WtfModel.Proofs.C01Search
import WtfModel.Proofs.C01Legacy
import WtfModel.Proofs.C01Idf
import WtfModel.Proofs.ScoreField
import WtfModel.Gen.SearchParams
import WtfModel.Proofs.Boosts

/-!
  C01 — search returns a bounded, ranked, duplicate-free list of real entries.
  Property theorems only (helper lemmas live in Proofs/C01*.lean, Proofs/SearchBasic.lean).

  Every theorem quantifies over every score type satisfying `ScoreLaws` (every linearly ordered field:
  `fieldScoreLaws`), every database, query and option record (limits ≤ 0, 1..N, > N; every combination
  of the NLP / fuzzy / threshold / pipeline / platform / context-boost options — including negative,
  zero and huge boosts) and every value of the model's parameters (`Tuning`) satisfying `TuningWF`.
  Results are lists of (position in the database, score).

  "Finite": in an ordered field every element is finite, so that clause has no content here; on the
  real float64s it can only fail through overflow of a caller-supplied boost, and the monitor checks
  `IsInf`/`IsNaN` on every answer of every entry point for finite options (harness/mon_c01.go).

  The cached path (`CachedDatabase.SearchWithOptionsAndCache`) returns what `SearchUniversal` returned
  for an equivalent request: that is C05's theorem (`Wtf.C05.transparent`), under which the clauses below
  carry over verbatim; the cached entry point is also part of the monitor stream here.
-/
namespace Wtf.C01
open Wtf.Search Wtf.Legacy ScoreOps ScoreLaws

/-! ### the model's inline constants are the ones in the source (regenerated on every run)

  Since DESIGN 13.5d the definitions in `Model/Search.lean` ARE the regenerated values, so the first conjuncts hold by
  unfolding; they stay as the place where the correspondence between the two name spaces is written down.  The legacy /
  recovery literals and the code-shape flags are still compared. -/

theorem params_match :
    Search.defaultLimit = Gen.SearchParams.defaultLimit ∧
    Search.defaultTermCap = Gen.SearchParams.defaultTermCap ∧
    Search.appendCap = Gen.SearchParams.appendCap ∧
    Search.preserveCount = Gen.SearchParams.preserveCount ∧
    Search.rerankMult = Gen.SearchParams.rerankMult ∧
    Search.rerankMin = Gen.SearchParams.rerankMin ∧
    Search.fuzzyMult = Gen.SearchParams.fuzzyMult ∧
    Search.fuzzyBase = (Gen.SearchParams.fuzzyBase : Int) ∧
    Gen.Constants.FuzzyNormalizationBase = ⟨(Gen.SearchParams.fuzzyBase : Int), 1⟩ ∧
    Search.actionEmphasis = Gen.SearchParams.actionEmphasis ∧
    Search.targetEmphasis = Gen.SearchParams.targetEmphasis ∧
    Search.coocFactor = Gen.SearchParams.coocFactor ∧
    Search.rerankAlpha = Gen.SearchParams.rerankAlpha ∧
    Search.rerankScale = Gen.SearchParams.rerankScale ∧
    Legacy.basicScore = Gen.SearchParams.recoveryBasicScore ∧
    Legacy.singleWordScore = Gen.SearchParams.recoverySingleWordScore ∧
    Legacy.partialScore = Gen.SearchParams.recoveryPartialScore ∧
    Legacy.cliMaxLimit = (Gen.SearchParams.cliMaxLimit : Int) ∧
    -- code shapes the model follows: final truncation, truncated typo fallback, clamp to [0,1],
    -- legacy default limit = constants.DefaultSearchLimit, stable sort + truncation, strategy order,
    -- recovered results cut to the limit in force
    (Gen.SearchParams.finalTruncation && Gen.SearchParams.fuzzyFallbackTruncated &&
     Gen.SearchParams.limitResultsTruncates && Gen.SearchParams.fuzzyClamped &&
     Gen.SearchParams.legacyDefaultIsConstant && Gen.SearchParams.legacySortsAndLimits &&
     Gen.SearchParams.sortAndLimitShape && Gen.SearchParams.recoveryOrder &&
     Gen.SearchParams.cliRecoveryTruncated && Gen.SearchParams.cliRecoveryFiltered &&
     Gen.SearchParams.filterResultsShape) = true := by
  decide

/-- the default limits are usable: `SearchUniversal` substitutes a positive number for a non-positive
    request, so do the legacy search and the CLI configuration -/
theorem default_limits_pos :
    0 < Gen.SearchParams.defaultLimit ∧ 0 < Gen.Constants.DefaultSearchLimit ∧
    0 < (Gen.SearchParams.configMaxResults : Int) := by decide

/-! ### SearchUniversal (lexical, NLP-enhanced, typo-fallback paths) -/

variable {S : Type} [ScoreOps S] [ScoreLaws S]

/-- **C01, SearchUniversal.**  Whatever path answers: at most the limit in force, only positions of
    the searched database, no position twice, scores in non-increasing order, all scores ≥ 0. -/
theorem universal (T : Tuning S) (hT : TuningWF T) (db : Db) (q : Bytes) (o : Opts S) (r : List (Nat × S))
    (h : search T db q o = .ok r) :
    r.length ≤ effLimit o ∧ (∀ x ∈ r, x.1 < db.length) ∧ (r.map (·.1)).Nodup ∧
    r.Pairwise (fun a b => lt a.2 b.2 = false) ∧ (∀ x ∈ r, Nonneg x.2) :=
  let p := search_post T hT db q o r h
  ⟨p.bounded, p.real, p.nodup, p.sorted, p.nonneg⟩

omit [ScoreOps S] [ScoreLaws S] in
/-- the limit in force: the requested one, or the default (10) when none / a non-positive one is given -/
theorem limit_in_force (o : Opts S) :
    (o.limit ≤ 0 → effLimit o = Gen.SearchParams.defaultLimit) ∧ (0 < o.limit → (effLimit o : Int) = o.limit) :=
  effLimit_spec o

/-- the BM25F parameters written in the source satisfy the `params` part of `TuningWF` -/
theorem source_params_sane : ParamsWF (Index.genParams : Index.Params S) := genParams_wf

/-- the `idf` part of `TuningWF` holds for the formula of `bm25IDF` over the reals (`math.Log` of a
    number ≥ 1), in the only region the index asks for (`df ≤ N`: `dfLeN_build`) -/
theorem idf_formula_nonneg (n df : Nat) (h : df ≤ n) :
    0 ≤ Real.log (((n : ℝ) - (df : ℝ) + 1 / 2) / ((df : ℝ) + 1 / 2) + 1) :=
  bm25_idf_real_nonneg n df h

/-- answers of the typo fallback additionally have scores ≤ 1 -/
theorem fuzzy_scores_unit_interval (T : Tuning S) (db : Db) (nq : Bytes) (o : Opts S) (limit : Nat)
    (r : List (Nat × S)) (h : fuzzySearch T db nq o limit = .ok r) :
    ∀ x ∈ r, Nonneg x.2 ∧ lt (one : S) x.2 = false := by
  intro x hx
  refine ⟨?_, fuzzySearch_le_one T db nq o limit r h x hx⟩
  unfold fuzzySearch at h
  split at h
  · cases h
  · simp only [Except.ok.injEq] at h
    obtain ⟨sub, _, _, heq, _⟩ := fuzzyCollect_spec T db o (limit * fuzzyMult) (T.fuzzySort _) []
    simp only [List.reverse_nil, List.nil_append] at heq
    rw [heq] at h
    subst h
    have hx := List.mem_of_mem_take hx
    rw [List.mem_map] at hx
    obtain ⟨y, _, rfl⟩ := hx
    exact normalizeFuzzy_nonneg _

omit [ScoreLaws S] in
/-- The only way the model of SearchUniversal fails (Go: panics) is inside the typo matcher; the
    strings it is given never contain NUL.  That the matcher cannot fail on such strings is C10. -/
theorem error_only_in_typo_matcher (T : Tuning S) (db : Db) (q : Bytes) (o : Opts S) (e : Fuzzy.Panic)
    (h : search T db q o = .error e) :
    o.useFuzzy = true ∧ Fuzzy.findNoSort T.ri (T.normQ q) (db.map fuzzyTarget) = .error e ∧
    ∀ t ∈ db.map fuzzyTarget, (0 : UInt8) ∉ t := by
  obtain ⟨h1, h2⟩ := search_error_only_fuzzy T db q o e h
  refine ⟨h1, h2, ?_⟩
  intro t ht
  rw [List.mem_map] at ht
  obtain ⟨c, _, rfl⟩ := ht
  exact fuzzyTarget_nul_free c

omit [ScoreLaws S] in
/-- non-triviality: whenever some document scored, the answer is not empty -/
theorem nonempty_of_match (T : Tuning S) (db : Db) (q : Bytes) (o : Opts S) (r : List (Nat × S))
    (h : search T db q o = .ok r) (hterms : (termsOf T q o).isEmpty = false)
    (hsc : (scoresOf T db q o).isEmpty = false) : r ≠ [] :=
  search_ne_nil_of_scored T db q o r h hterms hsc

/-- The one stage of `applyPostScoringBoosts` that is not in the model — the embedding ("semantic") boost,
    active only when an embeddings file is loaded (none is shipped; C19) — has the shape "multiply every score
    by a per-document factor, re-sort stably, before the final truncation", which is the shape of the cascade
    stage.  Any stage of that shape with non-negative factors (`1 + α·sim`, applied only for `sim ≥ 0.1`)
    preserves all five clauses: -/
theorem factor_stage_preserves (n limit : Nat) (f : NlpOut S) (hf : f.FactorsNonneg) (r : List (Nat × S))
    (hids : (r.map (·.1)).Nodup ∧ ∀ x ∈ r, x.1 < n) (hnn : ∀ x ∈ r, Nonneg x.2) :
    let r' := (cascadeStage f r).take limit
    r'.length ≤ limit ∧ (∀ x ∈ r', x.1 < n) ∧ (r'.map (·.1)).Nodup ∧
    r'.Pairwise (fun a b => lt a.2 b.2 = false) ∧ (∀ x ∈ r', Nonneg x.2) := by
  have i1 : IdsOK n (cascadeStage f r) := idsOK_cascade f hids
  have i2 := idsOK_take i1 limit
  have n1 : AllNonneg (cascadeStage f r) := cascade_nonneg f hf r hnn
  by_cases he : r = []
  · subst he; simp [cascadeStage]
  · have hs : (cascadeStage f r).Pairwise (fun a b => lt a.2 b.2 = false) := by
      unfold cascadeStage
      have : r.isEmpty = false := by cases r <;> simp_all
      simp only [this, Bool.false_eq_true, ↓reduceIte]
      exact sortDesc_sorted (S := S) (fun x : Nat × S => x.2) _
    exact ⟨List.length_take_le _ _, i2.2, i2.1, hs.sublist (List.take_sublist _ _), allNonneg_take n1 limit⟩

/-! ### legacy pipeline search (`wtf pipeline` → SearchWithPipelineOptions) -/

/-- **C01, SearchWithPipelineOptions**, for every legacy scorer `score` (uninterpreted), no hypotheses. -/
theorem legacy_pipeline (ri : RuneInfo) (score : Nat → S) (db : Db) (o : Opts S) :
    let r := searchLegacyPipeline ri score db o
    r.length ≤ legacyLimit o.limit ∧ (∀ x ∈ r, x.1 < db.length) ∧ (r.map (·.1)).Nodup ∧
    r.Pairwise (fun a b => lt a.2 b.2 = false) ∧ (∀ x ∈ r, Nonneg x.2) :=
  let p := searchLegacyPipeline_post ri score db o
  ⟨p.bounded, p.real, p.nodup, p.sorted, p.nonneg⟩

theorem legacy_limit_in_force (limit : Int) :
    (limit ≤ 0 → legacyLimit limit = Gen.Constants.DefaultSearchLimit.toNat) ∧
    (0 < limit → (legacyLimit limit : Int) = limit) := by
  unfold legacyLimit
  constructor
  · intro h; simp [h]
  · intro h
    have : ¬ limit ≤ 0 := by omega
    simp only [this, ↓reduceIte]
    omega

/-! ### the CLI's answer: engine, else last-resort recovery search cut to the limit in force -/

/-- **C01, `wtf [search]`.**  `0 < o.limit` is what the CLI always passes (`cli_limit_pos`). -/
theorem cli (T : Tuning S) (hT : TuningWF T) (db : Db) (q : Bytes) (o : Opts S) (hl : 0 < o.limit)
    (r : List (Nat × S)) (h : cliResults T db q o = .ok r) :
    r.length ≤ effLimit o ∧ (∀ x ∈ r, x.1 < db.length) ∧ (r.map (·.1)).Nodup ∧
    r.Pairwise (fun a b => lt a.2 b.2 = false) ∧ (∀ x ∈ r, Nonneg x.2) :=
  let p := cliResults_post T hT db q o hl r h
  ⟨p.bounded, p.real, p.nodup, p.sorted, p.nonneg⟩

omit [ScoreLaws S] in
/-- every limit the CLI can put into `searchOptions.Limit` is positive, and cutting the recovered
    list never panics for it -/
theorem cli_limit_pos (flag l : Int) (h : cliLimit Gen.SearchParams.configMaxResults flag = some l) :
    0 < l ∧ ∀ (T : Tuning S) (db : Db) (q : Bytes) (o : Opts S), o.limit = l → cliResults T db q o ≠ .error .sliceBounds := by
  have hl := cliLimit_pos _ flag l (by decide) h
  exact ⟨hl, fun T db q o ho => cliResults_no_slice_panic T db q o (by omega)⟩

/-- the raw recovery answer (before the CLI cuts it): valid, duplicate-free, in database order, one
    constant non-negative score — but *unbounded*, which is why the CLI step must cut it -/
theorem recovery_raw (ri : RuneInfo) (db : Db) (q : Bytes) :
    let r := recover (S := S) ri db q
    (∀ x ∈ r, x.1 < db.length) ∧ (r.map (·.1)).Pairwise (· < ·) ∧
    r.Pairwise (fun a b => lt a.2 b.2 = false) ∧ (∀ x ∈ r, Nonneg x.2) := by
  have h := recover_scanLike (S := S) ri db q
  have p := scanLike_post h (recover (S := S) ri db q).length
  rw [List.take_length] at p
  exact ⟨p.real, h.1.1, p.sorted, p.nonneg⟩

/-! ### Non-vacuity: the hypotheses are satisfiable and answers are not always empty (S := ℚ) -/
section examples

local instance : ScoreOps ℚ := fieldScoreOps ℚ
local instance : ScoreLaws ℚ := fieldScoreLaws ℚ

private def bs (s : String) : Bytes := Bytes.ofString s

private def mk (cmd desc : String) (pipe : Bool := false) : Cmd :=
  { command := bs cmd, description := bs desc, keywords := [], tags := [], niche := [], platform := [],
    pipeline := pipe, commandLower := bs cmd, descriptionLower := bs desc, keywordsLower := [], tagsLower := [] }

private def db0 : Db := [mk "ls -la" "list files", mk "tar czf x" "compress directory", mk "cat x | grep y" "search text" true]

/-- a concrete parameter set: source BM25F parameters, a rational stand-in for idf, neutral NLP
    factors, no TF-IDF ranking, a real stable sort for the fuzzy library's order -/
private def T0 : Tuning ℚ :=
  { params := Index.genParams
    idf := fun n df => if df ≤ n then ((n - df : Nat) + 1 : ℚ) / ((df : ℚ) + 1) else 0
    host := bs "linux"
    ri := {}
    normQ := fun q => q
    nlp := fun _ => { intentBoost := fun _ => 1, cascade := fun _ => 1 }
    tfidf := some (fun _ => [])
    fuzzySort := fun ms => ms.mergeSort (fun a b => decide (a.2 ≥ b.2)) }

private theorem T0_wf : TuningWF T0 where
  params := genParams_wf
  idf := by
    intro n df h
    show decide (T0.idf n df < 0) = false
    simp only [T0, h, ↓reduceIte, decide_eq_false_iff_not, not_lt]
    positivity
  nlp := by
    intro q d
    constructor <;> (show decide ((1 : ℚ) < 0) = false; simp)
  tfidf := by
    intro rank hr q x hx
    simp only [T0, Option.some.injEq] at hr
    subst hr; cases hx
  fuzzySort := by
    intro ms
    refine ⟨List.mergeSort_perm _ _, ?_⟩
    have := List.pairwise_mergeSort (le := fun (a b : Nat × Int) => decide (a.2 ≥ b.2))
      (by intro a b c h1 h2; simp only [decide_eq_true_eq] at *; omega)
      (by intro a b; simp only [Bool.or_eq_true, decide_eq_true_eq]; omega) ms
    exact this.imp (by intro a b h; simpa using h)

private def o0 : Opts ℚ := { limit := 0, pipelineBoost := 0 }

-- lexical path: "compress" matches exactly one entry, which is returned with a positive score
example : (match search T0 db0 (bs "compress") o0 with
    | .ok [(i, s)] => i == 1 && decide (0 < s)
    | _ => false) = true := by decide +kernel
-- … and the theorem applies to it
example : ∀ r, search T0 db0 (bs "compress") o0 = .ok r → r.length ≤ 10 ∧ (r.map (·.1)).Nodup :=
  fun r h => let p := universal T0 T0_wf db0 (bs "compress") o0 r h; ⟨p.1, p.2.2.1⟩
-- NLP on, limit 1
example : (search T0 db0 (bs "list files") { o0 with useNLP := true, limit := 1 }).toOption.map (·.map (·.1)) = some [0] := by
  decide +kernel
-- typo fallback: no token matches, the fuzzy matcher finds the entry
example : (search T0 db0 (bs "cmprss") { o0 with useFuzzy := true }).toOption.map (·.map (·.1)) = some [1] := by
  decide +kernel
-- legacy pipeline search with pipeline boost 2 and a scorer that likes entries 0 and 2: only the pipeline survives
example : searchLegacyPipeline (S := ℚ) {} (fun i => if i == 1 then 0 else 3) db0 { o0 with pipelineOnly := true, pipelineBoost := 2 } = [(2, 6)] := by
  decide +kernel
-- CLI: the engine finds nothing for "x" (no token, fuzzy off); the recovery search finds two commands, cut to limit 1
example : cliResults T0 db0 (bs "x") { o0 with limit := 1 } = .ok [(1, 1)] := by
  decide +kernel
example : (recover (S := ℚ) {} db0 (bs "x")).length = 2 := by decide +kernel
-- a negative limit would make the CLI's slice expression panic; the CLI never passes one (`cli_limit_pos`)
example : cliResults T0 db0 (bs "x") { o0 with limit := -1 } = .error .sliceBounds := by decide +kernel
example : cliLimit Gen.SearchParams.configMaxResults 0 = some 5 ∧ cliLimit Gen.SearchParams.configMaxResults 7 = some 7 ∧
    cliLimit Gen.SearchParams.configMaxResults (-1) = none := by decide

end examples

end Wtf.C01

/-! ### The NLP layer is modelled: no hypothesis about the NLP factors is left

  `Boosts.nlpOut ri db nq` (Model/Boosts.lean over Model/Nlp.lean) is the model of what `SearchUniversal` obtains from
  package nlp and from `calculateIntentBoost` / `calculateBoostForCommand` for the normalised query `nq` on database `db`,
  with every table, literal and factor regenerated from the source on every run (`Gen/Boosts.lean`, `Gen/NlpTables.lean`,
  `Gen/Hints.lean`) and validated bit for bit against the real functions (correspondence domain `boosts`; the `search`
  driver runs with this NLP layer and compares it with the real values of every case).  For it the `nlp` field of
  `TuningWF` is a theorem (`Boosts.nlpOut_factorsNonneg`: intent boost > 0, cascading boost ≥ 1, proved from a decidable
  check of the regenerated factors), so the C01 clauses hold with the remaining four hypotheses only. -/
namespace Wtf.C01
open Wtf.Search Wtf.Legacy ScoreOps ScoreLaws

variable {S : Type} [ScoreOps S] [ScoreLaws S]

/-- `TuningWF` without its `nlp` field: BM25F parameters sane (proved for the source: `source_params_sane`), idf ≥ 0
    (`idf_formula_nonneg`), TF-IDF similarities ≥ 0, the fuzzy library's sort is a sorted permutation -/
structure TuningWFRest (T : Tuning S) : Prop where
  params : ParamsWF T.params
  idf : IdfNonneg T
  tfidf : TfidfNonneg T
  fuzzySort : FuzzySortOK T

/-- the regenerated boost rules are well formed: every multiplicative literal of the intent-boost functions is > 0, the
    cascading boost starts at a value ≥ 1 and adds literals ≥ 0 (re-evaluated by `decide` on every regeneration) -/
theorem boost_rules_wf : Boosts.genSpec.WF = true := Boosts.genSpec_wf

/-- for every database, query text, document and rune table: the modelled `calculateIntentBoost` is positive and the
    modelled `calculateBoostForCommand` is at least 1 -/
theorem modelled_factors (ri : RuneInfo) (db : Db) (nq : Bytes) (d : Nat) :
    Pos ((Boosts.nlpOut (S := S) ri db nq).intentBoost d) ∧ ge ((Boosts.nlpOut (S := S) ri db nq).cascade d) one :=
  ⟨Boosts.nlpOut_intentBoost_pos ri db nq d, Boosts.nlpOut_cascade_ge_one ri db nq d⟩

/-- a parameter set whose NLP layer is the modelled one for the searched database is well formed as soon as its other
    fields are -/
theorem tuningWF_of_modelled_nlp (T : Tuning S) (db : Db) (hnlp : T.nlp = Boosts.nlpOut T.ri db) (hR : TuningWFRest T) :
    TuningWF T where
  params := hR.params
  idf := hR.idf
  nlp := by intro q; rw [hnlp]; exact Boosts.nlpOut_factorsNonneg T.ri db q
  tfidf := hR.tfidf
  fuzzySort := hR.fuzzySort

/-- **C01, SearchUniversal, with the modelled NLP layer**: the five clauses, no hypothesis about NLP factors -/
theorem universal_modelled_nlp (T : Tuning S) (db : Db) (hnlp : T.nlp = Boosts.nlpOut T.ri db) (hR : TuningWFRest T)
    (q : Bytes) (o : Opts S) (r : List (Nat × S)) (h : search T db q o = .ok r) :
    r.length ≤ effLimit o ∧ (∀ x ∈ r, x.1 < db.length) ∧ (r.map (·.1)).Nodup ∧
    r.Pairwise (fun a b => lt a.2 b.2 = false) ∧ (∀ x ∈ r, Nonneg x.2) :=
  universal T (tuningWF_of_modelled_nlp T db hnlp hR) db q o r h

/-- **C01, `wtf [search]`, with the modelled NLP layer** -/
theorem cli_modelled_nlp (T : Tuning S) (db : Db) (hnlp : T.nlp = Boosts.nlpOut T.ri db) (hR : TuningWFRest T)
    (q : Bytes) (o : Opts S) (hl : 0 < o.limit) (r : List (Nat × S)) (h : cliResults T db q o = .ok r) :
    r.length ≤ effLimit o ∧ (∀ x ∈ r, x.1 < db.length) ∧ (r.map (·.1)).Nodup ∧
    r.Pairwise (fun a b => lt a.2 b.2 = false) ∧ (∀ x ∈ r, Nonneg x.2) :=
  cli T (tuningWF_of_modelled_nlp T db hnlp hR) db q o hl r h

/-! non-vacuity (S := ℚ).  The examples evaluate the *interpreter* on a small hand-written rule set and a hand-written
    analysis, so that they do not depend on the regenerated literals (a harmless change of a literal in the source must not
    break this file); that the regenerated rule set computes what the real functions compute is the `boosts` correspondence. -/
section examples_modelled

local instance : ScoreOps ℚ := fieldScoreOps ℚ
local instance : ScoreLaws ℚ := fieldScoreLaws ℚ

/-- the example parameter set with the modelled NLP layer for `db0`: the hypotheses of `universal_modelled_nlp` are satisfiable -/
private def T1 : Tuning ℚ := { T0 with nlp := Boosts.nlpOut T0.ri db0 }

private theorem T1_rest : TuningWFRest T1 := ⟨T0_wf.params, T0_wf.idf, T0_wf.tfidf, T0_wf.fuzzySort⟩

example : ∀ q o r, search T1 db0 q o = .ok r → r.length ≤ effLimit o ∧ ∀ x ∈ r, Nonneg x.2 :=
  fun q o r h => let p := universal_modelled_nlp T1 db0 rfl T1_rest q o r h; ⟨p.1, p.2.2.2.2⟩

open Wtf.Boost in
/-- a small rule set in the vocabulary of `Basic/BoostRule.lean` (shapes as in search.go / cascading_boost.go) -/
private def exSpec : Boosts.Spec :=
  { intentInit := ⟨1, 1⟩
    intentSwitch := [
      ("find", .block [.ite (.containsAny .cmd ["ls", "grep"]) (.ret ⟨2, 1⟩) .skip, .ret ⟨1, 1⟩]),
      ("create", .block [.ite (.containsAny .cmd ["make"])
          (.block [.set ⟨2, 1⟩, .ite (.and (.contains .cmd "makepkg") (.not (.contains .desc "package"))) (.mul ⟨3, 10⟩) .skip, .retBoost]) .skip,
        .ret ⟨1, 1⟩])]
    intentDefault := ⟨1, 1⟩
    actionBoosts := .block [.set ⟨1, 1⟩,
      .loop .actions (.block [
        .ite (.containsVar .cmd) (.mul ⟨3, 2⟩) (.ite (.containsVar .desc) (.mul ⟨13, 10⟩) .skip),
        .ite (.varEq "compress") (.ite (.containsAny .cmd ["tar"]) (.mul ⟨5, 2⟩) .skip) .skip]),
      .retBoost]
    targetBoosts := .block [.set ⟨1, 1⟩, .loop .targets (.ite (.containsVar .cmd) (.mul ⟨7, 5⟩) (.ite (.containsVar .desc) (.mul ⟨6, 5⟩) .skip)), .retBoost]
    cascadeInit := ⟨1, 1⟩
    cascadeTerms := [.hint ⟨6, 1⟩, .term .actionTerms ⟨3, 1⟩, .context ⟨5, 2⟩, .term .targetTerms ⟨2, 1⟩, .intent]
    hintMiss := ⟨0, 1⟩, termMiss := ⟨0, 1⟩, contextMiss := ⟨0, 1⟩
    intentNoEntry := ⟨0, 1⟩, intentHit := ⟨3, 2⟩, intentMiss := ⟨0, 1⟩
    intentKeywords := [("create", ["make", "new"])]
    knownContexts := ["git", "tar"]
    synonyms := [(bs "compress", [bs "zip", bs "archive"])] }

example : exSpec.WF = true := by decide

/-- a hand-written analysis: "list files" -/
private def exA : Nlp.Analysis := { actions := [bs "list"], targets := [bs "files"], keywords := [bs "files"], intent := bs "find" }
/-- … and "compress with tar" -/
private def exB : Nlp.Analysis := { actions := [bs "compress"], targets := [], keywords := [bs "tar"], intent := bs "general" }

-- intent find + command contains "ls": 2; action only in the description: 1.3; target only in the description: 1.2
example : Boosts.intentBoostWith (S := ℚ) exSpec {} (mk "ls -la" "list files") exA = 78 / 25 := by decide +kernel
-- nothing matches: exactly 1
example : Boosts.intentBoostWith (S := ℚ) exSpec {} (mk "tar czf x" "compress directory") exA = 1 := by decide +kernel
-- action in the command (1.5) and the compression special case (2.5)
example : Boosts.intentBoostWith (S := ℚ) exSpec {} (mk "tar czf x compress" "pack") exB = 15 / 4 := by decide +kernel
-- the makepkg penalty: 2 · 0.3, still positive
example : Boosts.intentBoostWith (S := ℚ) exSpec {} (mk "makepkg -s" "build it") { exA with intent := bs "create" } = 3 / 5 := by
  decide +kernel
-- cascading boost: hint `tar` via the first field (+6), synonym `archive` of the action in the text (+3), context `tar` (+2.5)
example : Boosts.cascadeBoostWith (S := ℚ) exSpec {} (mk "TAR czf x" "archive a folder")
    (Boosts.buildCtx exSpec {} exB [bs "tar", bs "zip"]) = 25 / 2 := by decide +kernel
-- … and exactly 1 when nothing matches
example : Boosts.cascadeBoostWith (S := ℚ) exSpec {} (mk "ls -la" "list files") (Boosts.buildCtx exSpec {} exB [bs "tar"]) = 1 := by
  decide +kernel
-- the general theorems apply to it
example : Pos (Boosts.intentBoostWith (S := ℚ) exSpec {} (mk "makepkg -s" "build it") exA) :=
  Boosts.intentBoostWith_pos exSpec (by decide) _ _ _

end examples_modelled

end Wtf.C01
