import WtfModel.Proofs.C04
import WtfModel.Proofs.ExampleScore

/-!
  C04 — platform and pipeline filters hold for every result on every path.

  Property theorems only (helpers: Proofs/SearchPaths.lean, Proofs/C04.lean, Proofs/SearchBasic.lean).
  `Allowed` is the property's platform clause written from its statement; `passes_iff` shows the engine's
  gate (`Filters.passes`, the model of `passesFilters`, validated against the real function by the
  `passes` op of the `search` correspondence domain and exhaustively over the tag pool × switches) is
  exactly that clause plus the pipeline clause.  `platform` / `pipeline` then hold for *every* exit of
  `search` (the model of `SearchUniversal`): lexical, NLP, typo fallback, empty — and `cli_recovery` for the
  CLI's filtered recovery answer, `legacy_pipeline` for the legacy pipeline search — for all databases, queries,
  options and all values of the parameters (`Tuning`: idf, NLP analysis, TF-IDF ranking, fuzzy sort order,
  Unicode tables, host platform); no hypothesis.  The tables `Gen.Platform.variants` /
  `crossPlatformTools` are regenerated from the source on every run; the `table_*` facts pin their meaning.
-/
namespace Wtf.C04
open Wtf.Filters Wtf.Search

variable {S : Type} [ScoreOps S]

/-- The platform clause of the property, from its statement.  A command may be returned iff all platforms
    are requested, or it declares no platform, or one of its declared platforms (other than the
    'cross-platform' tag) names a platform in force (the ones asked for, otherwise the host), or —
    unless cross-platform entries are excluded — it carries the 'cross-platform' tag or is a recognised
    cross-platform tool. -/
def Allowed (ri : RuneInfo) (host : Bytes) (o : FilterOpts) (c : Cmd) : Prop :=
  o.allPlatforms = true ∨ c.platform = [] ∨
  (∃ p ∈ c.platform, isCrossTag ri p = false ∧ declares ri (inForce host o.platforms) p = true) ∨
  (o.noCross = false ∧ ((∃ p ∈ c.platform, isCrossTag ri p = true) ∨ crossTool ri c.command = true))

/-- The engine's gate is exactly the property's two clauses. -/
theorem passes_iff (ri : RuneInfo) (host : Bytes) (o : FilterOpts) (c : Cmd) :
    passes ri host o c = true ↔ Allowed ri host o c ∧ (o.pipelineOnly = true → isPipeline ri c = true) := by
  unfold passes platformOK Allowed
  cases hall : o.allPlatforms <;> cases hpo : o.pipelineOnly <;> cases hnc : o.noCross <;>
    cases hpl : c.platform <;>
    simp [List.any_eq_true]
  all_goals
    cases hct : crossTool ri c.command <;> simp
  all_goals
    try (cases hpipe : isPipeline ri c <;> simp)
  all_goals grind

/-- Platform clause on **every path** of `SearchUniversal`: each returned entry is a command of the
    database that the property allows under the options of the request. -/
theorem platform (T : Tuning S) (db : Db) (q : Bytes) (o : Opts S) (r : List (Nat × S))
    (h : search T db q o = .ok r) :
    ∀ x ∈ r, ∃ c, db[x.1]? = some c ∧ Allowed T.ri T.host o.filter c := by
  intro x hx
  obtain ⟨c, hc, hp⟩ := search_eligible T db q o h x hx
  exact ⟨c, hc, ((passes_iff _ _ _ _).mp hp).1⟩

/-- Pipeline clause on every path: in a pipeline-only search every result is a pipeline command. -/
theorem pipeline (T : Tuning S) (db : Db) (q : Bytes) (o : Opts S) (r : List (Nat × S))
    (h : search T db q o = .ok r) (hp : o.pipelineOnly = true) :
    ∀ x ∈ r, ∃ c, db[x.1]? = some c ∧ isPipeline T.ri c = true := by
  intro x hx
  obtain ⟨c, hc, hpass⟩ := search_eligible T db q o h x hx
  exact ⟨c, hc, ((passes_iff _ _ _ _).mp hpass).2 hp⟩

/-- The typo fallback alone (the path that had no gate before the fix): same two clauses. -/
theorem fuzzy_path (T : Tuning S) (db : Db) (nq : Bytes) (o : Opts S) (limit : Nat) (r : List (Nat × S))
    (h : fuzzySearch T db nq o limit = .ok r) :
    ∀ x ∈ r, ∃ c, db[x.1]? = some c ∧ Allowed T.ri T.host o.filter c ∧
      (o.pipelineOnly = true → isPipeline T.ri c = true) := by
  intro x hx
  obtain ⟨c, hc, hpass⟩ := fuzzySearch_eligible T db nq o limit h x hx
  exact ⟨c, hc, (passes_iff _ _ _ _).mp hpass⟩

/-! ### the legacy `wtf pipeline` scorer (SearchWithPipelineOptions)

  Another builder models the legacy search in `Model/Legacy.lean` (branch p-c01).  To stay independent of
  that module the clause is stated on a local transliteration of the function's shape: a loop over the
  commands in order that skips a command when `options.PipelineOnly && !isPipelineCommand(cmd)`, scores the
  rest with an arbitrary scoring function (`none` = score ≤ 0, not appended), then sorts and truncates
  (any sort: only `Perm` is used).  The platform clause is not claimed for this path (it has no platform
  notion — DESIGN.md §6 C04 scope note). -/

/-- Pipeline clause for the legacy pipeline search: whatever the scoring function, the sort and the limit,
    a pipeline-only request returns only pipeline commands. -/
theorem legacy_pipeline {S : Type} (ri : RuneInfo) (db : Db) (score : Cmd → Option S) (limit : Nat)
    (sort : List (Nat × S) → List (Nat × S)) (hsort : ∀ l, (sort l).Perm l) :
    ∀ x ∈ (sort (legacyCandidates ri true score 0 db)).take limit,
      ∃ c, db[x.1]? = some c ∧ isPipeline ri c = true := by
  intro x hx
  have hx' := (hsort _).mem_iff.mp (List.mem_of_mem_take hx)
  obtain ⟨c, _, hc, hg⟩ := legacyCandidates_mem ri true score 0 db x hx'
  refine ⟨c, by simpa using hc, ?_⟩
  simpa [legacyGate] using hg

/-- The CLI's last resort (`wtf <query>` when the engine returns nothing): the recovery strategies scan the
    whole database by substring, and the CLI passes what they found through `database.FilterResults` before
    truncating to the limit.  Whatever the strategies return (`recovered` is arbitrary), what is printed
    satisfies both clauses.  Tie: translator sites `c04:recovery-gate`, `c04:cli-recovery-gate` and the CLI
    stream on the real binary. -/
theorem cli_recovery {S : Type} (ri : RuneInfo) (host : Bytes) (o : FilterOpts) (db : Db)
    (recovered : List (Nat × S)) (limit : Nat) :
    ∀ x ∈ (filterResults ri host o db recovered).take limit,
      ∃ c, db[x.1]? = some c ∧ Allowed ri host o c ∧ (o.pipelineOnly = true → isPipeline ri c = true) := by
  intro x hx
  obtain ⟨c, hc, hp⟩ := filterResults_mem ri host o db recovered x (List.mem_of_mem_take hx)
  exact ⟨c, hc, (passes_iff _ _ _ _).mp hp⟩

/-- Cached answers: C05's theorem `Wtf.C05.transparent` states that an answer served from the cache equals
    the fresh answer of `search` for the same database, query and options; so any such answer inherits
    both clauses.  Stated here for an arbitrary answer that equals the fresh one. -/
theorem cached (T : Tuning S) (db : Db) (q : Bytes) (o : Opts S) (r : List (Nat × S))
    (answer : Except Fuzzy.Panic (List (Nat × S))) (htransparent : answer = search T db q o)
    (h : answer = .ok r) :
    ∀ x ∈ r, ∃ c, db[x.1]? = some c ∧ Allowed T.ri T.host o.filter c ∧
      (o.pipelineOnly = true → isPipeline T.ri c = true) := by
  intro x hx
  obtain ⟨c, hc, hpass⟩ := search_eligible T db q o (htransparent ▸ h) x hx
  exact ⟨c, hc, (passes_iff _ _ _ _).mp hpass⟩

/-! ### what the regenerated tables mean

  `Gen.Platform.variants` / `crossPlatformTools` are re-extracted from `checkPlatformVariant` and the
  `crossPlatformTools` literal on every run; these facts are re-checked by the kernel against the current
  tables: dropping an alias the property names (darwin, powershell, …), or letting a tag of one system name another, changes a
  stated fact and fails the build; adding further aliases does not.  `{}` is the
  ASCII-only rune table (all tags below are ASCII). -/

/-- host linux, no `--platform`: the linux aliases and every `linux*` tag (any case) name the platform in
    force; tags of other systems do not -/
theorem table_linux :
    (["linux", "LINUX", "Linux", "unix", "bash", "zsh", "BASH", "linux-gnu", "linux-only"].all
        (fun p => declares {} (inForce (bs "linux") []) (bs p))) = true ∧
    (["darwin", "macos", "windows", "powershell", "cmd", "plan9", "cross-platform", ""].any
        (fun p => declares {} (inForce (bs "linux") []) (bs p))) = false := by decide +kernel

/-- `--platform macos` (or host macos): `darwin` and every `macos*` tag are accepted, the names of the other systems are not.
    Only what the property's reading needs is pinned: which further aliases the table knows ("osx", "unix", …) is the
    maintainers' business - the first version of this theorem also listed near-misses as rejected and raised an alarm on a
    commit that added `osx` as an alias, which keeps the property (tunings/T02) -/
theorem table_macos :
    (["macos", "MacOS", "darwin", "Darwin", "macos-arm"].all
        (fun p => declares {} (inForce (bs "linux") [bs "macos"]) (bs p))) = true ∧
    (["linux", "windows", "powershell", "plan9"].any
        (fun p => declares {} (inForce (bs "linux") [bs "macos"]) (bs p))) = false ∧
    declares {} (inForce (bs "linux") [bs "darwin"]) (bs "DARWIN") = true := by decide +kernel

/-- `--platform windows` (any case of the request): the four shell aliases and every `windows*` tag -/
theorem table_windows :
    (["windows", "Windows", "cmd", "powershell", "PowerShell", "windows-cmd", "windows-powershell", "windows10"].all
        (fun p => declares {} (inForce (bs "linux") [bs "WINDOWS"]) (bs p))) = true ∧
    (["linux", "darwin", "macos", "plan9"].any
        (fun p => declares {} (inForce (bs "linux") [bs "windows"]) (bs p))) = false := by decide +kernel

/-- several platforms in force: a tag naming any of them is accepted; the request overrides the host -/
theorem table_several :
    declares {} (inForce (bs "windows") [bs "linux", bs "macos"]) (bs "darwin") = true ∧
    declares {} (inForce (bs "windows") [bs "linux", bs "macos"]) (bs "zsh") = true ∧
    declares {} (inForce (bs "windows") [bs "linux", bs "macos"]) (bs "powershell") = false ∧
    declares {} (inForce (bs "windows") []) (bs "powershell") = true := by decide +kernel

/-- the cross-platform tag (any case) and the tool rule (`<tool>` alone or followed by a space, any case) -/
theorem table_cross :
    isCrossTag {} (bs "cross-platform") = true ∧ isCrossTag {} (bs "Cross-Platform") = true ∧
    isCrossTag {} (bs "crossplatform") = false ∧
    crossTool {} (bs "git status") = true ∧ crossTool {} (bs "GIT") = true ∧ crossTool {} (bs "docker ps") = true ∧
    crossTool {} (bs "gitk") = false ∧ crossTool {} (bs "mytool git") = false ∧ crossTool {} (bs "") = false := by
  decide +kernel

/-- pipeline classification: the flag, `|`, `&&`, `>>`, or "pipe" in the lower-cased command -/
theorem table_pipeline :
    isPipeline {} (Example.mk "ls" "" [] true) = true ∧ isPipeline {} (Example.mk "ls | wc" "" []) = true ∧
    isPipeline {} (Example.mk "a && b" "" []) = true ∧ isPipeline {} (Example.mk "a >> f" "" []) = true ∧
    isPipeline {} (Example.mk "PIPE it" "" []) = true ∧ isPipeline {} (Example.mk "ls > f" "a | b" []) = false := by
  decide +kernel

/-! ### non-vacuity: four commands under four option sets, and complete searches on every path -/

instance (ri : RuneInfo) (host : Bytes) (o : FilterOpts) (c : Cmd) : Decidable (Allowed ri host o c) := by
  unfold Allowed; infer_instance

section examples
open Example

def cLinux := mk "apt install" "install packages" ["linux"]
def cWin := mk "dir" "list directory" ["windows"]
def cCross := mk "mytool run" "list things" ["Cross-Platform"]
def cGit := mk "git status | less" "show status" ["macos"]

def oDefault : FilterOpts := { allPlatforms := false, platforms := [], noCross := false, pipelineOnly := false }
def oWinOnly : FilterOpts := { allPlatforms := false, platforms := [bs "windows"], noCross := true, pipelineOnly := false }
def oWin : FilterOpts := { allPlatforms := false, platforms := [bs "windows"], noCross := false, pipelineOnly := false }
def oAll : FilterOpts := { allPlatforms := true, platforms := [bs "windows"], noCross := true, pipelineOnly := true }

/-- host linux, default: linux-only, cross-tagged and `git …` allowed, windows-only not -/
example : Allowed {} (bs "linux") oDefault cLinux ∧ ¬Allowed {} (bs "linux") oDefault cWin ∧
    Allowed {} (bs "linux") oDefault cCross ∧ Allowed {} (bs "linux") oDefault cGit := by decide +kernel
/-- `--platform windows --no-cross-platform`: only the windows entry; the tag and the tool rule are off -/
example : ¬Allowed {} (bs "linux") oWinOnly cLinux ∧ Allowed {} (bs "linux") oWinOnly cWin ∧
    ¬Allowed {} (bs "linux") oWinOnly cCross ∧ ¬Allowed {} (bs "linux") oWinOnly cGit := by decide +kernel
/-- `--platform windows`: windows entry plus tag and tool rule -/
example : ¬Allowed {} (bs "linux") oWin cLinux ∧ Allowed {} (bs "linux") oWin cWin ∧
    Allowed {} (bs "linux") oWin cCross ∧ Allowed {} (bs "linux") oWin cGit := by decide +kernel
/-- `--all-platforms`: everything is allowed by the platform clause; pipeline-only still selects -/
example : Allowed {} (bs "linux") oAll cLinux ∧ Allowed {} (bs "linux") oAll cWin ∧
    passes {} (bs "linux") oAll cGit = true ∧ passes {} (bs "linux") oAll cWin = false := by decide +kernel

def exDb : Db := [cLinux, cWin, cCross, cGit]

/-- lexical path, host linux: "list" occurs in the windows entry (1) and the cross-tagged one (2); only 2 is returned -/
example : ids (search (tuning) exDb (bs "list") opts) = some [2] := by decide +kernel
/-- the same query with `--platform windows --no-cross-platform` returns the windows entry only -/
example : ids (search (tuning) exDb (bs "list")
    { opts with platforms := [bs "windows"], noCross := true }) = some [1] := by decide +kernel
/-- typo fallback ("lst" is no word of the database): host default drops the windows entry … -/
example : ids (search (tuning) exDb (bs "lst") { opts with useFuzzy := true }) = some [2, 3, 0] := by decide +kernel
/-- … `--platform windows --no-cross-platform` keeps only it, `-a` keeps all matches -/
example : ids (search (tuning) exDb (bs "lst")
    { opts with useFuzzy := true, platforms := [bs "windows"], noCross := true }) = some [1] := by decide +kernel
example : ids (search (tuning) exDb (bs "lst") { opts with useFuzzy := true, allPlatforms := true }) = some [2, 3, 1, 0] := by
  decide +kernel
/-- pipeline-only, lexical and fallback: only the `git … | less` entry -/
example : ids (search (tuning) exDb (bs "status") { opts with pipelineOnly := true }) = some [3] := by decide +kernel
example : ids (search (tuning) exDb (bs "stts") { opts with pipelineOnly := true, useFuzzy := true }) = some [3] := by
  decide +kernel
/-- the legacy gate: pipeline-only keeps exactly the pipeline command -/
example : (legacyCandidates {} true (fun _ => some (1 : Nat)) 0 exDb).map (·.1) = [3] := by decide +kernel

end examples

end Wtf.C04
