import WtfModel.Proofs.Notebook
import WtfModel.Model.Flags
import WtfModel.Gen.SaveCmds

/-!
  C08 — a saved command is stored faithfully, keeps its neighbours, is searchable.

  Property theorems only.  Quantification: every notebook (list of entries, any bytes in any field, also with
  repeated command strings), every new entry, every sequence of saves, every encoder/decoder pair.

  YAML (gopkg.in/yaml.v3) is the uninterpreted pair `enc`/`dec`.  Nothing is assumed about it for the safety
  clauses: HEAD's `writePersonalDatabase` decodes what it encoded and refuses to replace the file unless the
  entries come back (`saveFile`), so "success ⇒ the reloaded notebook is exactly `save xs e`" is a theorem.
  The contract `RoundTrips` appears only as the hypothesis under which a save is guaranteed to succeed.
  Not modelled: pflag's parsing (the "given" keywords are what pflag hands to the handler), yaml.v3 itself.
-/
namespace Wtf.C08
open Wtf.Notebook

variable (enc : List Cmd → Bytes) (dec : Bytes → Option (List Cmd))

/-! ### the entry the handlers build (tables regenerated from pipeline.go) -/

/-- UTF-8 bytes of a table string (kernel-reducible form of `String.toUTF8`) -/
def bytesOf (s : String) : Bytes := s.toList.flatMap String.utf8EncodeChar

/-- the literal tables of `save-pipeline`, from `Gen.SaveCmds` -/
def pipelineTables : PipelineTables :=
  { base := Wtf.Gen.SaveCmds.pipelineBaseKeywords.map bytesOf,
    rules := Wtf.Gen.SaveCmds.pipelineRules.map (fun r => (r.1.map bytesOf, r.2.map bytesOf)),
    sep := (bytesOf Wtf.Gen.SaveCmds.pipelineStepSeparator).headD 124,
    descMid := bytesOf Wtf.Gen.SaveCmds.descMid,
    descEnd := bytesOf Wtf.Gen.SaveCmds.descEnd }

/-- The handlers put every given value into the field of the same meaning (regenerated wiring), fetch their
    flags under the names they are registered with, and print the success line only after
    `saveToPersonalDatabase` returned nil. -/
theorem wiring :
    Wtf.Gen.SaveCmds.saveWiring =
      [("Command", "arg:0"), ("Description", "arg:1"), ("Keywords", "flag:keywords"), ("Niche", "flag:category"),
       ("Platform", "flag:platforms"), ("Pipeline", "flag:pipeline")] ∧
    Wtf.Gen.SaveCmds.savePipelineWiring =
      [("Command", "arg:1"), ("Description", "rule:description"), ("Keywords", "rule:keywords"), ("Niche", "flag:category"),
       ("Platform", "flag:platforms"), ("Pipeline", "true")] ∧
    Wtf.Gen.SaveCmds.descriptionFlag = "description" ∧
    Wtf.Gen.SaveCmds.successOnlyAfterSave = true := by decide

/-- `wtf save`: the entry carries exactly the given values. -/
theorem entry_of_save (c d : Bytes) (k : List Bytes) (n : Bytes) (p : List Bytes) (pl : Bool) :
    let e := entryOfSave c d k n p pl
    e.command = c ∧ e.description = d ∧ e.keywords = k ∧ e.niche = n ∧ e.platform = p ∧ e.pipeline = pl ∧ e.tags = [] := by
  simp [entryOfSave]

/-- `wtf save-pipeline`: command, category and platforms as given, pipeline flag set, the user's keywords after
    the automatic ones, the description flag (when non-empty) verbatim. -/
theorem entry_of_save_pipeline (name c : Bytes) (k : List Bytes) (n : Bytes) (p : List Bytes) (d : Bytes) :
    let e := entryOfSavePipeline pipelineTables name c k n p d
    e.command = c ∧ e.niche = n ∧ e.platform = p ∧ e.pipeline = true ∧
    e.keywords = autoKeywords pipelineTables c ++ k ∧ (d ≠ [] → e.description = d) := by
  refine ⟨rfl, rfl, rfl, rfl, rfl, ?_⟩
  intro hd
  cases d with
  | nil => exact absurd rfl hd
  | cons a t => simp [entryOfSavePipeline]

/-! ### faithful -/

/-- **Faithful.**  If the save reports success, decoding the new file yields exactly `save xs e` where `xs` is
    what the old file decoded to (nothing for a missing file); the entry is in it, byte for byte, at the
    position of the first entry with its command string, else at the end. -/
theorem faithful {file : Option Bytes} {e : Cmd} {b : Bytes} (h : saveFile enc dec file e = .ok b) :
    ∃ xs, loadFile dec file = some xs ∧ dec b = some (save xs e) ∧ e ∈ save xs e ∧
      (save xs e)[indexOf e.command xs]? = some e := by
  obtain ⟨xs, hx, _, hd⟩ := saveFile_ok enc dec h
  exact ⟨xs, hx, hd, save_mem xs e, save_getElem_index xs e⟩

/-- A save that reports an error leaves the file as it was. -/
theorem failed_unchanged {file : Option Bytes} {e : Cmd} {err : SaveErr} (h : saveFile enc dec file e = .error err) :
    stepFile enc dec file e = file := by
  simp [stepFile, h]

/-- Under the YAML contract for the resulting list, the save succeeds. -/
theorem succeeds_of_roundtrip {file : Option Bytes} {e : Cmd} {xs : List Cmd} (hx : loadFile dec file = some xs)
    (hrt : RoundTrips enc dec (save xs e)) : saveFile enc dec file e = .ok (enc (save xs e)) :=
  saveFile_of_roundtrip enc dec hx hrt

/-! ### neighbours -/

/-- **Neighbours.**  Every position other than the one the entry went to holds what it held before; in
    particular every earlier entry with a different command string is still there, unchanged, in place. -/
theorem neighbours (xs : List Cmd) (e : Cmd) :
    (∀ i, i < xs.length → i ≠ indexOf e.command xs → (save xs e)[i]? = xs[i]?) ∧
    (∀ (i : Nat) (x : Cmd), xs[i]? = some x → x.command ≠ e.command → (save xs e)[i]? = some x) := by
  refine ⟨fun i hi hne => save_getElem_other xs e i hi hne, ?_⟩
  intro i x hx hc
  have hi : i < xs.length := by
    rcases Nat.lt_or_ge i xs.length with h | h
    · exact h
    · rw [List.getElem?_eq_none h] at hx; cases hx
  have hne : i ≠ indexOf e.command xs := by
    intro heq; rw [heq] at hx
    exact hc (getElem_indexOf e.command xs x hx)
  rw [save_getElem_other xs e i hi hne, hx]

/-! ### no duplicates -/

/-- **Replace, never duplicate.**  Distinct command strings stay distinct; the list grows by one entry when the
    command string is new and not at all when it is present. -/
theorem no_dup (xs : List Cmd) (e : Cmd) :
    ((xs.map (·.command)).Nodup → ((save xs e).map (·.command)).Nodup) ∧
    (present e.command xs = true → (save xs e).length = xs.length) ∧
    (present e.command xs = false → (save xs e).length = xs.length + 1) ∧
    ((save xs e).length = xs.length ↔ present e.command xs = true) := by
  refine ⟨save_nodup xs e, ?_, ?_, ?_⟩
  · intro h; simp [save_length, h]
  · intro h; simp [save_length, h]
  · rw [save_length]; cases present e.command xs <;> simp

/-! ### histories -/

/-- **Histories.**  After any sequence of save commands the notebook decodes to the fold of `save` over the
    saves that succeeded, starting from what the initial file decoded to; a failed save is a no-op. -/
theorem history (file : Option Bytes) (xs : List Cmd) (es : List Cmd) (hx : loadFile dec file = some xs) :
    loadFile dec (runFile enc dec file es) = some ((succeeded enc dec file es).foldl save xs) :=
  runFile_load enc dec es file xs hx

/-- With the YAML contract for every list, every save succeeds and the notebook is `foldl save xs es`. -/
theorem history_contract (hrt : ∀ ys, RoundTrips enc dec ys) (file : Option Bytes) (xs : List Cmd) (es : List Cmd)
    (hx : loadFile dec file = some xs) :
    loadFile dec (runFile enc dec file es) = some (es.foldl save xs) := by
  rw [history enc dec file xs es hx, succeeded_all enc dec hrt es file xs hx]

/-! ### the database searched -/

/-- **Merged order.**  The database used for searching is the main entries followed by the notebook entries
    (only the main entries when there is no notebook). -/
theorem merged_order (main : List Cmd) :
    loadWithPersonal dec main none = some main ∧
    (∀ b xs, dec b = some xs → loadWithPersonal dec main (some b) = some (main ++ xs)) ∧
    (∀ b, dec b = none → loadWithPersonal dec main (some b) = none) := by
  refine ⟨rfl, ?_, ?_⟩
  · intro b xs h; simp [loadWithPersonal, h]
  · intro b h; simp [loadWithPersonal, h]

/-- **Searchable (membership part).**  After a successful save the entry is in the list the search runs on,
    at index `|main| + (its notebook position)`.
    Dependency: that a member with a content word is *returned* by the search for that word is C03's index
    theorem (inverted index ≡ exhaustive scan) together with C01's "no eligible entry is dropped below the
    limit"; it is not proved here.  The C08 monitor checks it on the real code for every generated save. -/
theorem searchable {file : Option Bytes} {e : Cmd} {b : Bytes} (main : List Cmd)
    (h : saveFile enc dec file e = .ok b) :
    ∃ xs, loadFile dec file = some xs ∧ loadWithPersonal dec main (some b) = some (main ++ save xs e) ∧
      (main ++ save xs e)[main.length + indexOf e.command xs]? = some e := by
  obtain ⟨xs, hx, hd, _, hi⟩ := faithful enc dec h
  refine ⟨xs, hx, by simp [loadWithPersonal, hd], ?_⟩
  rw [List.getElem?_append_right (by omega)]
  simpa using hi

/-! ### the commands start (regenerated cobra flag table) -/

/-- **Starts.**  For every command of the regenerated table, registering its flags and merging the inherited
    persistent flags and `--help` succeeds (pflag's AddFlag / AddFlagSet rules): cobra does not panic before
    the handler runs. -/
theorem starts : ∀ c ∈ Wtf.Gen.Flags.commands, Wtf.Flags.noShorthandClash Wtf.Gen.Flags.commands c = true := by decide

/-- the clause read directly: no local flag shares its shorthand with a differently named inherited flag -/
theorem shorthands_disjoint :
    ∀ c ∈ Wtf.Gen.Flags.commands, Wtf.Flags.shorthandsDisjoint Wtf.Gen.Flags.commands c = true := by decide

/-- every flag a handler fetches is registered (locally or inherited) with the kind it is fetched as -/
theorem reads_registered :
    ∀ c ∈ Wtf.Gen.Flags.commands, Wtf.Flags.readsRegistered Wtf.Gen.Flags.commands c = true := by decide

/-! ### Non-vacuity -/

private def c1 : Cmd := ⟨[97], [1], [], [], [], [], false⟩
private def c2 : Cmd := ⟨[98], [2], [], [], [], [], false⟩
private def c1' : Cmd := ⟨[97], [3], [[120]], [], [9], [], true⟩

/-- replace in place, keep the neighbour -/
example : save [c1, c2] c1' = [c1', c2] := by decide
/-- append when new -/
example : save [c2] c1 = [c2, c1] := by decide
/-- only the first of two equal command strings is replaced (hand-edited notebooks) -/
example : save [c1, c2, c1] c1' = [c1', c2, c1] := by decide
/-- the pflag rule rejects the pre-fix table: a local `-p` next to the inherited `-p` -/
example : Wtf.Flags.noShorthandClash
    [ { var := "rootCmd", use := "wtf", parent := "", localFlags := [], persistentFlags := [⟨"platform", "p", "stringSlice"⟩], reads := [], hasRun := true },
      { var := "saveCmd", use := "save", parent := "rootCmd", localFlags := [⟨"platforms", "p", "stringSlice"⟩], persistentFlags := [], reads := [], hasRun := true } ]
    { var := "saveCmd", use := "save", parent := "rootCmd", localFlags := [⟨"platforms", "p", "stringSlice"⟩], persistentFlags := [], reads := [], hasRun := true } = false := by decide
/-- a same-named local flag shadows the inherited one (history's `--limit`, shorthand `l`): no clash -/
example : ∃ c ∈ Wtf.Gen.Flags.commands, c.var = "historyCmd" ∧ c.localFlags.any (fun f => f.name == "limit" && f.short == "l") = true := by decide
/-- the save-pipeline rules fire: `cat f | grep x | sort` gets pipeline, workflow, search, filter, sort, order -/
example : autoKeywords pipelineTables (bytesOf "cat f | grep x | sort") =
    ["pipeline", "workflow", "search", "filter", "sort", "order"].map bytesOf := by decide
example : (entryOfSavePipeline pipelineTables (bytesOf "n") (bytesOf "a|b|c") [] [] [] []).description = bytesOf "n - 3-step pipeline" := by decide
/-- a decoder that loses information makes the save fail instead of succeed (HEAD's read-back check) -/
example : (match saveFile (fun _ => []) (fun _ => some []) none c1 with | .error .unfaithful => true | _ => false) = true := by decide
example : (match saveFile (fun xs => xs.flatMap (·.command)) (fun b => some (b.map (fun x => ⟨[x], [], [], [], [], [], false⟩))) none
    ⟨[97], [], [], [], [], [], false⟩ with | .ok [97] => true | _ => false) = true := by decide

end Wtf.C08
