import WtfModel.Props.C01b
import WtfModel.Proofs.GoSort

/-!
  C01, continued — the hypothesis "the fuzzy library's sort returns a score-sorted permutation" (`FuzzySortOK`, `hfz` of
  `universal_modelled`) is discharged.

  `github.com/sahilm/fuzzy` ends `Find` with `sort.Stable(matches)` where `Less(i, j) = Score[i] >= Score[j]` — not a
  strict order, so the documented contract of `sort.Stable` does not apply and the result is whatever the algorithm does.
  `Model/GoSort.lean` transliterates the algorithm (`stable`: insertion sort on blocks of 20, then `symMerge` passes with
  `rotate` / `swapRange`), `GoSort.fuzzyStable` is that algorithm with the library's `Less`, and `Proofs/GoSort.lean` proves
  that it permutes its input (for every `Less`) and that its output is ordered by non-increasing score (for every `Less`
  that is the non-strict version of a total preorder).  Tie: the `gosort` correspondence domain compares `fuzzyStable` with
  the real `sort.Stable` on `fuzzy.Matches` values and with `fuzzy.Find`; the search driver runs with `fuzzyStable` and
  compares every `fz` oracle line (Go's order of the matches of that case) with it.

  Still assumed by `universal_modelled_sorted`: `idf n df ≥ 0` for `df ≤ n` (math.Log of a number ≥ 1) and a non-negative
  similarity threshold (the code's is 0.01).
-/
namespace Wtf.C01
open Wtf.Search Wtf.Legacy Wtf.LegacyScore Wtf.LegacyEntry ScoreOps ScoreLaws

variable {S : Type} [ScoreOps S]

omit [ScoreOps S] in
/-- the sort contract holds for every parameter set whose `fuzzySort` is the modelled `sort.Stable` -/
theorem fuzzySortOK_of_goStable (T : Tuning S) (h : T.fuzzySort = GoSort.fuzzyStable) : FuzzySortOK T := by
  intro ms
  rw [h]
  exact ⟨GoSort.fuzzyStable_perm ms, GoSort.fuzzyStable_sorted ms⟩

variable [ScoreLaws S]

/-- **C01, SearchUniversal, end to end over the modelled layers, the library's sort included**: `universal_modelled` with
    `fuzzySort := GoSort.fuzzyStable` (the model of `sort.Stable(matches)`, which is what the driver runs against the real
    code) and without the hypothesis about the sort.  Left: (1) `idf n df ≥ 0` for `df ≤ n`; (2) similarity threshold ≥ 0. -/
theorem universal_modelled_sorted (idf : Nat → Nat → S) (host : Bytes) (ri : RuneInfo) (normQ : Bytes → Bytes)
    (sqrt : S → S) (minSim : S) (idx? : Option (Tfidf.Index S)) (db : Db)
    (hidf : ∀ n df, df ≤ n → lt (idf n df) (zero : S) = false)
    (hmin : Nonneg minSim)
    (q : Bytes) (o : Opts S) (r : List (Nat × S))
    (h : search (modelledTuning idf host ri normQ GoSort.fuzzyStable sqrt minSim idx? db) db q o = .ok r) :
    r.length ≤ effLimit o ∧ (∀ x ∈ r, x.1 < db.length) ∧ (r.map (·.1)).Nodup ∧
    r.Pairwise (fun a b => lt a.2 b.2 = false) ∧ (∀ x ∈ r, Nonneg x.2) :=
  universal_modelled idf host ri normQ GoSort.fuzzyStable sqrt minSim idx? db hidf
    (fun ms => ⟨GoSort.fuzzyStable_perm ms, GoSort.fuzzyStable_sorted ms⟩) hmin q o r h

omit [ScoreOps S] [ScoreLaws S] in
/-- **GetSuggestions** with the modelled sort: no suggestion twice when the candidate list has no word twice -/
theorem suggestions_sorted (T : Tuning S) (hs : T.fuzzySort = GoSort.fuzzyStable) (db : Db) (q : Bytes) (m : Int)
    (r : List Bytes) (h : getSuggestions T db q m = .ok r) :
    r.length ≤ (suggestMax m).toNat ∧ (∀ w ∈ r, w ∈ suggestionWords T.ri db) ∧
    ((suggestionWords T.ri db).Nodup → r.Nodup) :=
  let p := suggestions T db q m r h
  ⟨p.1, p.2.1, p.2.2 (fuzzySortOK_of_goStable T hs)⟩

/-- the sort the theorems above speak about, as a statement of its own: for every list of matches, a permutation,
    ordered by non-increasing score -/
theorem fuzzy_sort_contract (ms : List (Nat × Int)) :
    (GoSort.fuzzyStable ms).Perm ms ∧ (GoSort.fuzzyStable ms).Pairwise (fun a b => a.2 ≥ b.2) :=
  ⟨GoSort.fuzzyStable_perm ms, GoSort.fuzzyStable_sorted ms⟩

/-! ### non-vacuity and witnesses -/
section examples

/-- the tie order is the algorithm's, not a stable sort's: with the non-strict `Less` the insertion phase moves an element
    past its equals, so equal scores come out in REVERSE index order (a stable sort would give `[1, 3, 0, 2]`) -/
example : (GoSort.fuzzyStable [(0, 1), (1, 5), (2, 1), (3, 5)]).map (·.1) = [3, 1, 2, 0] := by decide

/-- … also beyond one block (45 matches: three insertion-sorted blocks, two `symMerge` passes with rotations) -/
example : (GoSort.fuzzyStable ((List.range 45).map (fun i => (i, ((i / 7 : Nat) : Int) % 2)))).map (·.1) =
    [41, 40, 39, 38, 37, 36, 35, 27, 26, 25, 24, 23, 22, 21, 13, 12, 11, 10, 9, 8, 7,
     44, 43, 42, 34, 33, 32, 31, 30, 29, 28, 20, 19, 18, 17, 16, 15, 14, 6, 5, 4, 3, 2, 1, 0] := by decide +kernel

end examples

/-! non-vacuity of `universal_modelled_sorted` (S := ℚ): same parameters as the example of `universal_modelled`, with the
    modelled sort; the search it speaks about returns something through the typo fallback -/
section examples_sorted_end_to_end

local instance : ScoreOps ℚ := fieldScoreOps ℚ
local instance : ScoreLaws ℚ := fieldScoreLaws ℚ

private def dbE : Db := [Example.mk "ls -la" "list files" [], Example.mk "tar czf x" "compress directory" [],
  Example.mk "cat x | grep y" "search text" [] true]
private def idfE : Nat → Nat → ℚ := fun n df => if df ≤ n then ((n - df : Nat) + 1 : ℚ) / ((df : ℚ) + 1) else 0
private def idxE : Tfidf.Index ℚ := Tfidf.build {} (fun _ _ => 1) (fun x => x) dbE
private def TE : Tuning ℚ :=
  modelledTuning idfE (Filters.bs "linux") {} (fun q => q) GoSort.fuzzyStable (fun x => x) (1 / 100) (some idxE) dbE

private theorem hidfE : ∀ n df, df ≤ n → ScoreOps.lt (idfE n df) (ScoreOps.zero : ℚ) = false := by
  intro n df h
  show decide (idfE n df < 0) = false
  simp only [idfE, h, ↓reduceIte, decide_eq_false_iff_not, not_lt]
  positivity

example : ∀ q o r, search TE dbE q o = .ok r →
    r.length ≤ effLimit o ∧ (∀ x ∈ r, x.1 < dbE.length) ∧ (r.map (·.1)).Nodup ∧ (∀ x ∈ r, Nonneg x.2) :=
  fun q o r h =>
    let p := universal_modelled_sorted idfE (Filters.bs "linux") {} (fun q => q) (fun x => x) (1 / 100) (some idxE) dbE hidfE
      (by show decide ((1 / 100 : ℚ) < 0) = false; simp) q o r h
    ⟨p.1, p.2.1, p.2.2.1, p.2.2.2.2⟩

end examples_sorted_end_to_end

section examples_fallback
open Example

private def TS : Tuning Q := { (tuning) with fuzzySort := GoSort.fuzzyStable }
private def dbS : Db := [mk "ls -la" "list files" [], mk "tar czf x" "compress directory" [], mk "zip" "zip things" [],
  mk "ls -la" "list files" []]

/-- the typo fallback over the modelled sort answers (kernel-evaluated on the core-only fraction type `Q`): "lt" matches
    nothing lexically; the fallback lists the matching commands best score first, and the two equal entries (same text,
    same score) in reverse database order -/
example : ids (search TS dbS (Filters.bs "lt") opts) = some [] ∧
    ids (search TS dbS (Filters.bs "lt") { opts with useFuzzy := true }) = some [3, 0] := by decide +kernel

end examples_fallback

end Wtf.C01
