import WtfModel.Proofs.CacheLayer
import WtfModel.Gen.CacheKey
import WtfModel.Gen.Constants
import WtfModel.Gen.Lru

/-!
  C05 — the result cache is invisible: cached answers equal fresh answers.
  Property theorems only (helper lemmas: Proofs/CacheLayer.lean, Proofs/Lru*.lean).

  All statements are over the layer model `Wtf.CacheLayer` instantiated with the code-shape facts regenerated
  from the source on every run (`Gen.CacheKey`: key fields and json tags, the two conversion literals, the
  option fields the engine reads, the fallback key's fields) and the regenerated cache capacity / lifetime.
  They quantify over every engine `answer`, every database type, every answer type, every query normaliser,
  every history of search / monitoredSearch / invalidate / enable / cleanup / update / advance operations.

  Hypotheses, each an explicit predicate:
    `Injective E.enc`        real key string determines (normalised query, JSON view of the options):
                             SHA-256 collision-freedom + injectivity of the JSON text on that view
                             (float64 shortest round-trip formatting, sorted map keys, distinct json names)
                             + "a fallback key is never 64 hex digits".  ASSUMED, not proved.
    `EngineReadsOnly E reads`  the answer depends on the options only through the fields the engine selects,
                             up to the `omitempty` identification `≈` (Proofs.CacheLayer.Equiv).  Justified by the
                             regenerated, syntactic reads analysis (`Gen.CacheKey.engineReads`) and tested by the
                             monitor (nil vs empty, 0.0 vs -0.0, invalid UTF-8 vs U+FFFD); ASSUMED in Lean.
    `EngineNormalises E`     the engine replaces the query by normQ(query) before any use.  Justified by the
                             regenerated fact `engineNormalisesQuery` (theorem `code_shape`); ASSUMED in Lean.
  No finiteness hypothesis: a request with NaN / ±Inf floats (json.Marshal fails) is keyed by the Go-syntax
  text of the same struct, which carries every field; `EngineReadsOnly` then also says that the engine treats
  all NaNs alike (`b > 0` is false for each of them).  The Marshal-error branch used to keep only query and
  limit: `old_fallback_breaks_transparency` shows what that did.

  Continued in Props/C05b.lean: there `E.enc = hash ∘ (modelled text of the key struct)` and `Injective E.enc` is replaced
  by `hash` injective + `FloatFmtOK` (+ `GoTextOK` for NaN / ±Inf requests), the injectivity of the JSON text on the key
  view being a theorem (`key_text_injective`, `enc_separates`, `transparent_keyed`, `no_sharing_keyed`).
-/
namespace Wtf.C05
open Wtf Wtf.CacheLayer

/-- the conversion literal of SearchWithOptionsAndCache / of convertToCacheOptions, with the key struct -/
def shC : Shape := ⟨Gen.CacheKey.keyFields, Gen.CacheKey.convCached⟩
def shM : Shape := ⟨Gen.CacheKey.keyFields, Gen.CacheKey.convMonitored⟩
abbrev reads : List String := Gen.CacheKey.engineReads

/-- NewCachedDatabase(db) / NewMonitoredDatabase(db) -/
def init0 {κ Db Ans : Type} (db : Db) : State κ Db Ans :=
  init Gen.Lru.defaultCapacity Gen.Constants.DefaultCacheCapacity Gen.Constants.DefaultCacheTTL db

/-- all floats of the request are finite (json.Marshal succeeds) -/
def FiniteOpts (o : Opts) : Prop := ∀ f, (o f).marshalOK = true

variable {Db Ans κ : Type} [DecidableEq κ]

/-- Every option field the engine reads is copied into the key, at both conversion sites.
    (regenerated facts; fails to build as soon as a read field is not keyed) -/
theorem key_covers_reads :
    ∀ f ∈ Gen.CacheKey.engineReads,
      (∃ kf ∈ Gen.CacheKey.keyFields, Gen.CacheKey.convCached.lookup kf.1 = some f) ∧
      (∃ kf ∈ Gen.CacheKey.keyFields, Gen.CacheKey.convMonitored.lookup kf.1 = some f) := by
  decide

private theorem coversC : covers shC reads = true := by decide
private theorem coversM : covers shM reads = true := by decide

/-- The code-shape facts the model's control flow mirrors (regenerated): the engine and the key normalise
    the query with the same expression; UpdateDatabase clears the LRU after replacing the commands; Put uses
    the very (query, cacheOptions) of the Get and stores the engine's answer for the request's own
    (query, options), only when non-empty; the monitored search is one extra Get plus the cached search;
    on a Marshal error the whole key struct is hashed in Go syntax. -/
theorem code_shape :
    Gen.CacheKey.engineNormalisesQuery = true ∧ Gen.CacheKey.keyNormalisesQuery = true ∧
    Gen.CacheKey.updateInvalidates = true ∧ Gen.CacheKey.putMatchesGet = true ∧
    Gen.CacheKey.putOnlyNonEmpty = true ∧ Gen.CacheKey.monitoredDelegates = true ∧
    Gen.CacheKey.fallbackMode = "gosyntax-all-fields" := by
  decide

omit [DecidableEq κ] in
/-- Options with the same key projection have the same answer (either conversion site). -/
theorem proj_sound (E : Env Db Ans κ) (hr : EngineReadsOnly E reads) (db : Db) (q : Query) (o o' : Opts)
    (h : proj E.utf8 shC o = proj E.utf8 shC o' ∨ proj E.utf8 shM o = proj E.utf8 shM o') :
    E.answer db q o = E.answer db q o' := by
  cases h with
  | inl h => exact hr db q o o' (CacheLayer.proj_sound coversC h)
  | inr h => exact hr db q o o' (CacheLayer.proj_sound coversM h)

omit [DecidableEq κ] in
/-- Queries with the same normal form have the same answer. -/
theorem query_norm_sound (E : Env Db Ans κ) (hn : EngineNormalises E) (db : Db) (q q' : Query) (o : Opts)
    (h : E.normQ q = E.normQ q') : E.answer db q o = E.answer db q' o := by
  rw [hn db q o, h, ← hn db q' o]

/-- A request with finite floats is keyed by the JSON text at both sites. -/
theorem finite_marshalOK (o : Opts) (h : FiniteOpts o) : marshalOK shC o = true ∧ marshalOK shM o = true := by
  have z : ∀ t, (zeroOf t).marshalOK = true := by
    intro t; unfold zeroOf
    repeat (first | rfl | split)
  constructor <;>
  · unfold marshalOK
    rw [List.all_eq_true]
    intro kf _
    unfold fieldVal
    split
    · exact h _
    · exact z _

/-- "Requests that differ in anything that can change the answer never share a cached entry":
    different answers (on any database) ⇒ different real key strings. -/
theorem no_sharing (E : Env Db Ans κ) (hinj : ∀ a b, E.enc a = E.enc b → a = b)
    (hr : EngineReadsOnly E reads) (hn : EngineNormalises E)
    (db : Db) (q q' : Query) (o o' : Opts)
    (hdiff : E.answer db q o ≠ E.answer db q' o') :
    E.enc (keyOf E shC q o) ≠ E.enc (keyOf E shC q' o') := by
  intro hk
  exact hdiff (key_sound coversC hr hn (hinj _ _ hk) db)

/-- Invariant of every reachable state: each cached pair is (key of some request, the engine's answer to
    that request on the database now in force). -/
theorem inv (E : Env Db Ans κ) (db0 : Db) (hist : List (Op Db)) :
    let s := final E shC shM (init0 db0 : State κ Db Ans) hist
    ∀ e ∈ s.lru.entries, ∃ q o, e.key = E.enc (keyOf E shC q o) ∧ e.val = E.answer (dbAfter db0 hist) q o := by
  intro s e he
  have hi : Inv E shC s := run_inv (init_inv E shC _ _ _ db0) hist
  obtain ⟨q, o, h1, h2⟩ := hi e he
  refine ⟨q, o, h1, ?_⟩
  rw [h2]
  show E.answer (final E shC shM (init0 db0 : State κ Db Ans) hist).db q o = _
  rw [final_db]
  rfl

/-- MAIN THEOREM.  In any history, the i-th operation being a search or a monitored search for (q, o) -- any
    options, NaN and ±Inf included -- its output is exactly the engine's answer to (q, o) on the database in force at that
    moment (the initial one, or the argument of the latest `update` among the first i operations) --
    whatever was searched, invalidated, switched, swept, replaced or how much time passed before. -/
theorem transparent (E : Env Db Ans κ) (hinj : ∀ a b, E.enc a = E.enc b → a = b)
    (hr : EngineReadsOnly E reads) (hn : EngineNormalises E)
    (db0 : Db) (hist : List (Op Db)) (i : Nat) (q : Query) (o : Opts)
    (hop : hist[i]? = some (.search q o) ∨ hist[i]? = some (.monitoredSearch q o)) :
    (run E shC shM (init0 db0 : State κ Db Ans) hist).2[i]? =
      some (.ans (E.answer (dbAfter db0 (hist.take i)) q o)) := by
  have hi : Inv E shC (final E shC shM (init0 db0 : State κ Db Ans) (hist.take i)) :=
    run_inv (init_inv E shC _ _ _ db0) _
  have hdb := final_db E shC shM (init0 db0 : State κ Db Ans) (hist.take i)
  cases hop with
  | inl hop =>
    rw [run_out E shC shM _ hist i _ hop]
    simp only [step]
    rw [search_spec hinj coversC hr hn hi q o, hdb]
    rfl
  | inr hop =>
    rw [run_out E shC shM _ hist i _ hop]
    simp only [step]
    rw [monitoredSearch_spec hinj coversC hr hn hi q o, hdb]
    rfl

/-- A database replacement empties the cache, whatever the switches say; the new commands are in force. -/
theorem update_clears (E : Env Db Ans κ) (s : State κ Db Ans) (cmds : Db) :
    (step E shC shM s (.update cmds)).1.lru.entries = [] ∧ (step E shC shM s (.update cmds)).1.db = cmds :=
  ⟨rfl, rfl⟩

/-- With the cache switched off a search is the engine's answer and leaves the state untouched
    (for the monitored search too: in reachable states both switches agree, `switches_agree`). -/
theorem disabled_bypasses (E : Env Db Ans κ) (s : State κ Db Ans) (q : Query) (o : Opts)
    (hm : s.mgrEnabled = false) :
    search E shC s q o = (s, E.answer s.db q o) ∧
    (s.cacheEnabled = false → monitoredSearch E shC shM s q o = (s, E.answer s.db q o)) := by
  have h1 : search E shC s q o = (s, E.answer s.db q o) := by simp [search, searchK, hm]
  refine ⟨h1, ?_⟩
  intro hc
  simp [monitoredSearch, scGet, hc, h1]

theorem switches_agree (E : Env Db Ans κ) (db0 : Db) (hist : List (Op Db)) :
    (final E shC shM (init0 db0 : State κ Db Ans) hist).mgrEnabled =
    (final E shC shM (init0 db0 : State κ Db Ans) hist).cacheEnabled :=
  final_flags E shC shM _ hist rfl

/-! ### The Marshal-error branch before its repair (kept so that the reason for the repair stays checkable).

  A NaN (or ±Inf) among the floats makes json.Marshal fail; generateCacheKey used to return
  "search:" ++ query ++ ":" ++ limit then (`keyOfOldFallback … ["Limit"]`), dropping every other option.
  Witness (engine: "1 if PipelineOnly else 2", which satisfies both engine hypotheses; keys injective): the
  requests (q, {ContextBoosts:{x:NaN}, PipelineOnly:true}) and (q, {ContextBoosts:{x:NaN}}) have different
  answers but got the same old key, so the second was served the first one's answer; under the present
  `keyOf` their keys differ and the same two-step history is answered correctly. -/

private def wE : Env Unit Nat KeyData :=
  { answer := fun _ _ o => if (o "PipelineOnly").isEmpty then 2 else 1,
    isEmpty := fun _ => false, normQ := id, utf8 := id, enc := id }
private def nanBits : Nat := 0x7ff8000000000001
private def oNaN : Opts := (zeroOpts Gen.CacheKey.optionFields).set "ContextBoosts" (.boosts (some [([120], nanBits)]))
private def oNaNPipe : Opts := oNaN.set "PipelineOnly" (.bool true)

theorem old_fallback_breaks_transparency :
    ∃ (E : Env Unit Nat KeyData) (q : Query) (o₁ o₂ : Opts),
      (∀ a b, E.enc a = E.enc b → a = b) ∧ EngineReadsOnly E reads ∧ EngineNormalises E ∧
      -- different answers, one old key ...
      E.answer () q o₁ ≠ E.answer () q o₂ ∧
      keyOfOldFallback E shC ["Limit"] q o₁ = keyOfOldFallback E shC ["Limit"] q o₂ ∧
      -- ... so the cached search keyed that way returned the wrong answer in a two-step history ...
      (searchK E (searchK E (init0 ()) (E.enc (keyOfOldFallback E shC ["Limit"] q o₁)) q o₁).1
          (E.enc (keyOfOldFallback E shC ["Limit"] q o₂)) q o₂).2 ≠ E.answer () q o₂ ∧
      -- ... whereas the present key separates the two requests
      keyOf E shC q o₁ ≠ keyOf E shC q o₂ := by
  refine ⟨wE, [100], oNaNPipe, oNaN, fun _ _ h => h, ?_, fun _ _ _ => rfl, by decide, by decide, by decide, by decide⟩
  intro db q o o' h
  have hp : Equiv id (o "PipelineOnly") (o' "PipelineOnly") := h "PipelineOnly" (by decide)
  have he : (o "PipelineOnly").isEmpty = (o' "PipelineOnly").isEmpty := by
    rcases hp with hj | hb | hg
    · rw [Val.json_id, Val.json_id] at hj; rw [hj]
    · rw [hb.1, hb.2]
    · exact isEmpty_of_goView hg
  simp [wE, he]

/-! ### Non-vacuity: hypotheses are satisfiable, and hits really happen. -/

private def o5 : Opts := (zeroOpts Gen.CacheKey.optionFields).set "Limit" (.int 5)
-- the same request again (an example over a literal request: it must not depend on which fields carry `omitempty`
-- in the regenerated key shape, or a harmless tag edit in the source would break this file)
private def o5' : Opts := o5

-- a concrete 2-step history whose second search is served from the cache (1 hit, 1 miss, 1 entry) ...
example : let r := run wE shC shM (init0 ()) [.search [100] o5, .search [100] o5']
    r.2 = [.ans 2, .ans 2] ∧ r.1.lru.hits = 1 ∧ r.1.lru.misses = 1 ∧ r.1.lru.entries.length = 1 := by decide
-- ... a different option value is a different entry ...
example : (run wE shC shM (init0 ()) [.search [100] o5, .search [100] (o5.set "PipelineOnly" (.bool true))]).1.lru.entries.length = 2 := by
  decide
-- ... an update empties the cache, disabling bypasses it, and the entry expires after the lifetime
example : (run wE shC shM (init0 ()) [.search [100] o5, .update (), .search [100] o5]).1.lru.hits = 0 := by decide
example : (run wE shC shM (init0 ()) [.search [100] o5, .enable false, .search [100] o5, .monitoredSearch [100] o5]).1.lru.hits = 0 := by decide
example : (run wE shC shM (init0 ()) [.search [100] o5, .advance 300000000001, .search [100] o5]).1.lru.hits = 0 := by decide
example : (run wE shC shM (init0 ()) [.search [100] o5, .advance 300000000000, .monitoredSearch [100] o5]).1.lru.hits = 2 := by decide
-- NaN requests: repeats hit, a differing option is a different entry, NaN payloads are merged
example : let r := run wE shC shM (init0 ()) [.search [100] oNaNPipe, .search [100] oNaN, .search [100] oNaN,
      .search [100] (oNaN.set "ContextBoosts" (.boosts (some [([120], 0xfff8000000000002)])))]
    r.2 = [.ans 1, .ans 2, .ans 2, .ans 2] ∧ r.1.lru.hits = 2 ∧ r.1.lru.entries.length = 2 := by decide
example : FiniteOpts o5 := by
  intro f; unfold o5 Opts.set zeroOpts
  split
  · rfl
  · split
    · unfold zeroOf; repeat (first | rfl | split)
    · rfl
example : ¬ FiniteOpts oNaN := fun h => by have := h "ContextBoosts"; revert this; decide

end Wtf.C05
