import WtfModel.Proofs.Cli
/-
  C17 — every CLI command runs, and search output matches the engine's answer.

  Property (properties.jsonl): "Every documented sub-command starts and finishes without crashing for any arguments. For any
  accepted query and flag combination, `wtf [search]` prints exactly the engine's results in rank order and never more than
  the limit in force; with --format json the result block is a well-formed JSON array with one object per result; with
  --no-color or NO_COLOR the output contains no terminal escape sequences; and each search leaves exactly one corresponding
  newest entry in the history."

  The theorems are about `Wtf.Cli.cliSearch` (Model/Cli.lean): the handler of `wtf [search]` as a function of everything the
  rest of the program hands it (`World`), for ALL flags and ALL worlds.  The rendering branches and the constants are the
  regenerated `Gen.Cli`; the command tree is the regenerated `Gen.Flags`.  What is NOT covered by a theorem (process start-up,
  cobra's parsing, the terminal, encoding/json, the handlers of the other sub-commands) is exercised on the real binary by
  lib/props/c17.py and stated as partial in the manifest.
-/
namespace Wtf.C17
open Wtf.Cli Wtf.ScoreOps

variable {S : Type} [ScoreOps S]

/-! ## every command starts -/

/-- No command of the cobra tree can panic while its flag sets are registered and merged with the persistent flags of its
    ancestors and the implicit `-h`, `--help`: no repeated name or shorthand inside one flag set, and no flag that is merged in
    under a new name re-uses a shorthand already taken.  (This is what made `save` / `save-pipeline` panic before the fix:
    local `--platforms -p` against the root's persistent `--platform -p`.)  Evaluated on the regenerated flag table. -/
theorem starts : ∀ c ∈ Gen.Flags.commands, noShorthandClash Gen.Flags.commands c = true := by decide

/-- every expression of the regenerated rendering steps has a meaning in the model's interpreter -/
theorem spec_recognised : (Gen.Cli.listSteps ++ Gen.Cli.tableSteps ++ Gen.Cli.jsonSteps).all stepKnown = true := by decide

/-! ## the limit -/

/-- the limit handed to the engine is positive whatever `--limit` was (0 ⇒ default) -/
theorem limit_in_force_pos (valid : Int) : 0 < limitInForce valid := limitInForce_pos valid

/-- `--limit` below 0 or above the maximum: an error message and nothing else (no results, no result block, no history) -/
theorem rejects_bad_limit (fl : Flags) (w : World S) (h : fl.limit < 0 ∨ fl.limit > Validate.maxLimit) :
    ((cliSearch fl w).stage = .queryRejected ∨ (cliSearch fl w).stage = .limitRejected) ∧
    (cliSearch fl w).results = [] ∧ (cliSearch fl w).block = [] ∧ (cliSearch fl w).histAfter = none := by
  have hv : ∃ m, Validate.validateLimit fl.limit = .error m := by
    unfold Validate.validateLimit
    rcases h with h | h
    · exact ⟨0, by simp [h]⟩
    · have h1 : ¬ fl.limit < 0 := by
        have : (0 : Int) ≤ Validate.maxLimit := by decide
        omega
      have h2 : ¬ fl.limit = 0 := by
        have : (0 : Int) ≤ Validate.maxLimit := by decide
        omega
      exact ⟨Validate.maxLimit, by simp [h1, h2, h]⟩
  obtain ⟨m, hm⟩ := hv
  unfold cliSearch
  cases w.vquery with
  | error e => simp
  | ok q => simp [hm]

/-- Clause "never more than the limit in force".  Hypothesis: the engine returns at most `Limit` results for the option
    record the CLI builds (property C01 for `SearchUniversal`; re-checked on every run).  The recovery path needs no
    hypothesis: the CLI cuts it itself. -/
theorem limit (fl : Flags) (w : World S) {q : Bytes} {valid : Int}
    (hq : w.vquery = .ok q) (hl : Validate.validateLimit fl.limit = .ok valid)
    (hEngine : ((w.engine (cliOpts fl (limitInForce valid) w.boosts)).length : Int) ≤ limitInForce valid) :
    ((cliSearch fl w).results.length : Int) ≤ limitInForce valid := by
  have hpos := limitInForce_pos valid
  have hans : ((answer fl w (limitInForce valid)).length : Int) ≤ limitInForce valid := by
    unfold answer
    simp only []
    split
    · split
      · exact hEngine
      · have := recoveryAnswer_length w (cliOpts fl (limitInForce valid) w.boosts) (by show 0 ≤ limitInForce valid; omega)
        exact this
    · exact hEngine
  unfold cliSearch
  simp only [hq, hl]
  split
  · simp; omega
  · split
    · simp; omega
    · simpa [Search.sortDesc, List.length_mergeSort] using hans

/-! ## the printed results are the engine's answer, in rank order -/

/-- Clause "prints exactly the engine's results in rank order".  For every accepted run the printed list IS `answer`: the
    engine's answer if that is non-empty, otherwise the recovery answer filtered by the platform gate and cut to the limit.
    Hypotheses (explicit): both answers are sorted by score, non-increasing — C01 proves it for the engine; every recovery
    strategy gives all its results the same score.  Under them the CLI's stable re-sort is the identity. -/
theorem prints_engine (fl : Flags) (w : World S) {q : Bytes} {valid : Int}
    (hq : w.vquery = .ok q) (hl : Validate.validateLimit fl.limit = .ok valid) (hload : w.loadOk = true)
    (hEng : SortedDesc (w.engine (cliOpts fl (limitInForce valid) w.boosts)))
    (hRec : ∀ rs, w.recovery = some rs → SortedDesc rs) :
    (cliSearch fl w).results = answer fl w (limitInForce valid) := by
  have hsorted : SortedDesc (answer fl w (limitInForce valid)) := by
    unfold answer
    simp only []
    split
    · split
      · exact hEng
      · cases hr : w.recovery with
        | none => simp [recoveryAnswer, hr, SortedDesc]
        | some rs => exact (hRec rs hr).sublist (recoveryAnswer_sublist w _ rs hr)
    · exact hEng
  unfold cliSearch
  simp only [hq, hl, hload]
  split
  · rename_i he
    simp at he
  · split
    · rename_i he
      simp only [List.isEmpty_iff] at he
      simp [he]
    · simp [sortDesc_of_sorted hsorted]

/-- the same, spelled out on ids -/
theorem prints_engine_ids (fl : Flags) (w : World S) {q : Bytes} {valid : Int}
    (hq : w.vquery = .ok q) (hl : Validate.validateLimit fl.limit = .ok valid) (hload : w.loadOk = true)
    (hEng : SortedDesc (w.engine (cliOpts fl (limitInForce valid) w.boosts)))
    (hRec : ∀ rs, w.recovery = some rs → SortedDesc rs) :
    let o := cliOpts fl (limitInForce valid) w.boosts
    (w.engine o ≠ [] → (cliSearch fl w).results.map (·.1) = (w.engine o).map (·.1)) ∧
    (w.engine o = [] → ∀ rs, w.recovery = some rs →
      (cliSearch fl w).results.map (·.1) = (((rs.filter (fun r => w.gate o r.1)).take (limitInForce valid).toNat).map (·.1))) := by
  intro o
  rw [prints_engine fl w hq hl hload hEng hRec]
  have hpos := limitInForce_pos valid
  constructor
  · intro hne
    have : (w.engine o).isEmpty = false := by simpa using hne
    simp [answer, o, this]
  · intro he rs hr
    have h0 : (0 : Int) ≤ (cliOpts fl (limitInForce valid) w.boosts : Search.Opts S).limit := by
      show 0 ≤ limitInForce valid; omega
    have hra := recoveryAnswer_eq w (cliOpts fl (limitInForce valid) w.boosts) rs hr h0
    have hlim : (cliOpts fl (limitInForce valid) w.boosts : Search.Opts S).limit = limitInForce valid := rfl
    simp only [answer]
    rw [show w.engine (cliOpts fl (limitInForce valid) w.boosts) = [] from he, hra, hlim]
    simp only [List.isEmpty_nil, ↓reduceIte]
    split
    · rename_i hemp
      simp only [List.isEmpty_iff] at hemp
      simp [o, hemp]
    · rfl

/-- the result block is the rendering of `answer` in the format in force (same hypotheses as `prints_engine`) -/
theorem block_of_answer (fl : Flags) (w : World S) {q : Bytes} {valid : Int}
    (hq : w.vquery = .ok q) (hl : Validate.validateLimit fl.limit = .ok valid) (hload : w.loadOk = true)
    (hs : SortedDesc (answer fl w (limitInForce valid))) (hne : (answer fl w (limitInForce valid)).isEmpty = false) :
    (cliSearch fl w).block = (renderBlock fl w (formatOf fl.format) (answer fl w (limitInForce valid))).1 ∧
    (cliSearch fl w).stage = .printed := by
  unfold cliSearch
  simp [hq, hl, hload, hne, sortDesc_of_sorted hs]

/-! ## JSON -/

/-- Clause "with --format json the result block is a JSON array with one object per result": the items handed to the encoder
    are, result by result and in printed order, exactly `expectedMembers` — command, description always; category when
    non-empty; keywords, platforms (when non-empty) and score (when non-zero) only with --verbose; the block is the encoder's
    rendering of those items (`encodeItems`: `[`, one indented object per item, `]`, newline).  Proved by evaluating the
    regenerated `jsonSteps` / `jsonFields`, so a dropped `omitempty` or a field filled without `-v` breaks it. -/
theorem json_shape [ScoreLaws S] (fl : Flags) (w : World S) (hf : formatOf fl.format = .json) :
    (cliSearch fl w).jsonItems.map (objFields Gen.Cli.jsonFields)
      = (cliSearch fl w).results.map (fun r => expectedMembers fl.verbose (w.docs r.1) r.2) ∧
    (cliSearch fl w).jsonItems.length = (cliSearch fl w).results.length ∧
    ((cliSearch fl w).stage = .printed → (cliSearch fl w).block = encodeItems w.F (cliSearch fl w).jsonItems) := by
  have key : ∀ rs : List (Nat × S), (renderBlock fl w .json rs).2.map (objFields Gen.Cli.jsonFields)
      = rs.map (fun r => expectedMembers fl.verbose (w.docs r.1) r.2) := by
    intro rs
    simp only [renderBlock, stepsOf, render_json_items, List.map_map]
    apply List.map_congr_left
    intro r _
    exact objFields_theItem _ _ _ isZeroScore_zero
  have hlen : ∀ rs : List (Nat × S), (renderBlock fl w .json rs).2.length = rs.length := by
    intro rs
    simp [renderBlock, stepsOf, render_json_items]
  unfold cliSearch
  cases w.vquery with
  | error e => simp
  | ok q =>
    simp only []
    cases Validate.validateLimit fl.limit with
    | error m => simp
    | ok valid =>
      simp only []
      split
      · simp
      · split
        · simp
        · simp only [hf]
          exact ⟨key _, hlen _, fun _ => rfl⟩

/-- member names per verbosity: without --verbose an object has `command`, `description` and, when the entry has a category,
    `category` — nothing else; with --verbose the optional members appear in the fixed order of the struct -/
theorem json_members (verbose : Bool) (d : Doc) (s : S) :
    (verbose = false → (expectedMembers verbose d s).map (·.1) = ["command", "description"] ++ (if d.niche.isEmpty then [] else ["category"])) ∧
    ((expectedMembers verbose d s).map (·.1)).Sublist ["command", "description", "keywords", "category", "platforms", "score"] ∧
    (expectedMembers verbose d s).take 2 = [("command", .bytes d.command), ("description", .bytes d.description)] := by
  refine ⟨?_, ?_, ?_⟩
  · intro hv
    subst hv
    cases h : d.niche.isEmpty <;> simp [expectedMembers, h]
  · cases verbose <;> cases h1 : d.keywords.isEmpty <;> cases h2 : d.niche.isEmpty <;> cases h3 : d.platform.isEmpty <;>
      cases h4 : isZeroScore s <;> simp [expectedMembers, h1, h2, h3, h4]
  · simp [expectedMembers]

/-! ## no escape sequences without colour -/

/-- Clause "with --no-color or NO_COLOR the output contains no terminal escape sequences", for the result block.
    Hypotheses (explicit): no database field of a PRINTED result contains ESC (the list and table formats print fields raw:
    an entry whose text carries an escape sequence is shown with it); the number / string formatters of the standard library
    emit none.  Everything else — every literal of every format string in the three branches, the colour variables, the
    decimal numbers, the padding, the JSON punctuation and member names — is shown ESC-free from the regenerated steps. -/
theorem no_escapes (fl : Flags) (w : World S)
    (hnc : fl.noColor = true ∨ w.envNoColor = true)
    (hF : FmtClean w.F)
    (hdb : ∀ r ∈ (cliSearch fl w).results, DocClean (w.docs r.1)) :
    ESC ∉ (cliSearch fl w).block := by
  have hno : noColorInForce fl w = true := by
    unfold noColorInForce
    rcases hnc with h | h <;> simp [h]
  have henv : ∀ n, EnvClean (renderEnv fl w n) := by
    intro n
    refine ⟨?_, by simp [renderEnv], by simp [renderEnv, DocClean, Clean], hF⟩
    intro kv hkv
    simp only [renderEnv, effColors, hno, ↓reduceIte, List.mem_map] at hkv
    obtain ⟨x, _, rfl⟩ := hkv
    exact clean_nil
  have key : ∀ (fmt : Format) (rs : List (Nat × S)), (∀ r ∈ rs, DocClean (w.docs r.1)) → ESC ∉ (renderBlock fl w fmt rs).1 := by
    intro fmt rs hd
    cases fmt with
    | json => exact encodeItems_clean hF _
    | list => exact clean_flatten (render_clean (henv _) listSteps_clean w.docs rs hd)
    | table => exact clean_flatten (render_clean (henv _) tableSteps_clean w.docs rs hd)
  revert hdb
  unfold cliSearch
  cases w.vquery with
  | error e => simp
  | ok q =>
    simp only []
    cases Validate.validateLimit fl.limit with
    | error m => simp
    | ok valid =>
      simp only []
      split
      · simp
      · split
        · simp
        · intro hdb
          exact key _ _ hdb

/-! ## history -/

/-- Clause "each search leaves exactly one corresponding newest entry in the history".  A run that gets past validation, the
    limit check and loading makes exactly one `AddEntry` — with the VALIDATED query and the number of printed results — on the
    history as loaded (`0 < maxSize`: C16 `cli_max_positive` / `load_maxSize_pos`), on the nothing-found path too.  Afterwards
    the newest entry is that entry, and either an equal last query was replaced (length unchanged) or the entry was appended and
    the log cut to its last `maxSize` entries (it grew by one when it was not full). -/
theorem history_one (fl : Flags) (w : World S) {q : Bytes} {valid : Int}
    (hq : w.vquery = .ok q) (hl : Validate.validateLimit fl.limit = .ok valid) (hload : w.loadOk = true)
    (hm : 0 < w.hist.maxSize) :
    ∃ e h', (cliSearch fl w).histAdd = some e ∧ e.query = q ∧ e.results = ((cliSearch fl w).results.length : Int) ∧
      (cliSearch fl w).histAfter = some (.ok h') ∧ h'.maxSize = w.hist.maxSize ∧ h'.entries.getLast? = some e ∧
      ((∃ l, w.hist.entries.getLast? = some l ∧ l.query = q ∧ h'.entries = w.hist.entries.dropLast ++ [e]) ∨
       ((∀ l, w.hist.entries.getLast? = some l → l.query ≠ q) ∧
          h'.entries = History.lastN w.hist.maxSize.toNat (w.hist.entries ++ [e]) ∧
          (w.hist.entries.length < w.hist.maxSize.toNat → h'.entries = w.hist.entries ++ [e]))) := by
  have hm1 : 1 ≤ w.hist.maxSize.toNat := by omega
  -- the shape of the state after one add
  have shape : ∀ e : History.Entry, e.query = q →
      ∃ h', History.add w.hist e = .ok h' ∧ h'.maxSize = w.hist.maxSize ∧ h'.entries.getLast? = some e ∧
      ((∃ l, w.hist.entries.getLast? = some l ∧ l.query = q ∧ h'.entries = w.hist.entries.dropLast ++ [e]) ∨
       ((∀ l, w.hist.entries.getLast? = some l → l.query ≠ q) ∧
          h'.entries = History.lastN w.hist.maxSize.toNat (w.hist.entries ++ [e]) ∧
          (w.hist.entries.length < w.hist.maxSize.toNat → h'.entries = w.hist.entries ++ [e]))) := by
    intro e he
    refine ⟨_, History.add_eq hm e, rfl, History.addEntries_getLast? _ hm1 _ _, ?_⟩
    simp only [History.addEntries]
    cases hlast : w.hist.entries.getLast? with
    | none =>
      right
      refine ⟨by simp, rfl, fun hlt => History.lastN_of_le (by simp; omega)⟩
    | some l =>
      by_cases hql : l.query = e.query
      · left
        exact ⟨l, rfl, by rw [hql, he], by simp [hql]⟩
      · right
        refine ⟨?_, by simp [hql], fun hlt => by simp only [hql, ↓reduceIte]; exact History.lastN_of_le (by simp; omega)⟩
        intro l' hl'
        cases hl'
        rw [← he]; exact hql
  unfold cliSearch
  simp only [hq, hl, hload]
  split
  · rename_i he; simp at he
  · split
    · rename_i hemp
      obtain ⟨h', h1, h2, h3, h4⟩ := shape ⟨q, w.now, (answer fl w (limitInForce valid)).length, w.ctxDesc, w.duration⟩ rfl
      simp only [List.isEmpty_iff] at hemp
      exact ⟨_, h', rfl, rfl, by simp [hemp], by rw [h1], h2, h3, h4⟩
    · obtain ⟨h', h1, h2, h3, h4⟩ := shape ⟨q, w.now, (answer fl w (limitInForce valid)).length, w.ctxDesc, w.duration⟩ rfl
      exact ⟨_, h', rfl, rfl, by simp [Search.sortDesc, List.length_mergeSort], by rw [h1], h2, h3, h4⟩

/-- nothing is recorded when validation, the limit check or loading stops the command -/
theorem history_untouched (fl : Flags) (w : World S)
    (h : (∃ e, w.vquery = .error e) ∨ (∃ m, Validate.validateLimit fl.limit = .error m) ∨ w.loadOk = false) :
    (cliSearch fl w).histAdd = none ∧ (cliSearch fl w).histAfter = none ∧ (cliSearch fl w).results = [] ∧ (cliSearch fl w).block = [] := by
  unfold cliSearch
  cases hq : w.vquery with
  | error e => simp
  | ok q =>
    simp only []
    cases hl : Validate.validateLimit fl.limit with
    | error m => simp
    | ok valid =>
      simp only []
      rcases h with ⟨e, he⟩ | ⟨m, hm⟩ | hld
      · rw [hq] at he; cases he
      · rw [hl] at hm; cases hm
      · simp [hld]

/-! ## non-vacuity: a concrete run over the integers -/
section examples

private instance : ScoreOps Int where
  zero := 0
  one := 1
  add := (· + ·)
  sub := (· - ·)
  mul := (· * ·)
  div := (· / ·)
  lt a b := decide (a < b)
  ofNat n := n
  ofQ q := q.num / q.den

private def exDocs : Nat → Doc
  | 0 => { command := bs "ls -la", description := bs "List files", niche := bs "files", keywords := [bs "list"], platform := [bs "linux"] }
  | 1 => { command := bs "tar czf a.tgz dir", description := bs "Compress a directory" }
  | _ => { command := bs "dir", description := bs "List files (windows)", platform := [bs "windows"] }

private def exF : Fmt Int :=
  { fmtFloat := fun _ s => intDec s ++ bs ".0", jsonStr := fun b => [0x22] ++ b.filter (· != ESC) ++ [0x22], jsonNum := fun s => intDec s }

/-- engine answers two results for limit ≥ 2 -/
private def exWorld (eng : List (Nat × Int)) (rcv : Option (List (Nat × Int))) (hist : List History.Entry) : World Int where
  vquery := .ok (bs "list files")
  engine := fun o => eng.take o.limit.toNat
  recovery := rcv
  gate := fun o d => o.allPlatforms || d != 2
  hist := { entries := hist, maxSize := Gen.Cli.historyMax }
  docs := exDocs
  F := exF

private def exEngine : World Int := exWorld [(1, 7), (0, 3)] none [⟨bs "older", 0, 1, [], 0⟩]
private def exRecovery : World Int := exWorld [] (some [(0, 1), (2, 1), (1, 1)]) [⟨bs "list files", 0, 9, [], 0⟩]

private theorem exEngine_rec : ∀ rs, exEngine.recovery = some rs → SortedDesc rs := by
  intro rs h; simp [exEngine, exWorld] at h
private theorem exRecovery_rec : ∀ rs, exRecovery.recovery = some rs → SortedDesc rs := by
  intro rs h; simp only [exRecovery, exWorld, Option.some.injEq] at h; subst h; decide
private theorem exLimit0 : Validate.validateLimit 0 = .ok 5 := by decide
private theorem exLimit1 : Validate.validateLimit 1 = .ok 1 := by decide

-- the engine path: both results, in the engine's order; the history grows by one
example : ((cliSearch {} exEngine).results.map (·.1) = [1, 0]) := by
  rw [prints_engine {} exEngine rfl exLimit0 rfl (by decide) exEngine_rec]; decide
example : (cliSearch {} exEngine).stage = .printed ∧ (cliSearch {} exEngine).usesEscapes = true := by decide
example : ((cliSearch { limit := 1 } exEngine).results.map (·.1) = [1]) := by
  rw [prints_engine { limit := 1 } exEngine rfl exLimit1 rfl (by decide) exEngine_rec]; decide
example : ∃ h, (cliSearch {} exEngine).histAfter = some (.ok h) ∧ h.entries.map (·.query) = [bs "older", bs "list files"] ∧
    h.entries.map (·.results) = [1, 2] := ⟨_, rfl, by decide, by decide⟩
-- the recovery path: the windows entry is dropped by the gate, the rest cut to --limit 1; an equal last query is replaced
example : (cliSearch { limit := 1 } exRecovery).results.map (·.1) = [0] := by
  rw [prints_engine { limit := 1 } exRecovery rfl exLimit1 rfl (by decide) exRecovery_rec]; decide
example : (cliSearch {} exRecovery).results.map (·.1) = [0, 1] := by
  rw [prints_engine {} exRecovery rfl exLimit0 rfl (by decide) exRecovery_rec]; decide
example : (cliSearch { allPlatforms := true } exRecovery).results.map (·.1) = [0, 2, 1] := by
  rw [prints_engine { allPlatforms := true } exRecovery rfl exLimit0 rfl (by decide) exRecovery_rec]; decide
example : ∃ h, (cliSearch {} exRecovery).histAfter = some (.ok h) ∧ h.entries.map (·.results) = [2] := ⟨_, rfl, by decide⟩
-- rejected limit: nothing printed, nothing recorded
example : (cliSearch { limit := 101 } exEngine).stage = .limitRejected ∧ (cliSearch { limit := -1 } exEngine).histAfter = none := by decide
-- JSON: one object per result; members per verbosity (through `json_shape`, whose right-hand side is closed)
example : (expectedMembers false (exDocs 1) (7 : Int)).map (·.1) = ["command", "description"] ∧
    (expectedMembers false (exDocs 0) (3 : Int)).map (·.1) = ["command", "description", "category"] ∧
    (expectedMembers true (exDocs 1) (7 : Int)).map (·.1) = ["command", "description", "score"] ∧
    (expectedMembers true (exDocs 0) (3 : Int)).map (·.1) = ["command", "description", "keywords", "category", "platforms", "score"] := by decide
-- colour: escapes with colour on, none with --no-color or NO_COLOR, never in JSON
example : ESC ∈ (cliSearch {} exEngine).block := by
  rw [(block_of_answer {} exEngine rfl exLimit0 rfl (by decide) (by decide)).1]; decide
example : ESC ∉ (cliSearch { noColor := true } exEngine).block := by
  rw [(block_of_answer { noColor := true } exEngine rfl exLimit0 rfl (by decide) (by decide)).1]; decide
example : ESC ∉ (cliSearch { format := bs "json" } exEngine).block := by
  rw [(block_of_answer { format := bs "json" } exEngine rfl exLimit0 rfl (by decide) (by decide)).1]; decide
-- the hypothesis of `no_escapes` is needed: an entry whose command carries an escape sequence is printed raw by the list format
example : ESC ∈ (cliSearch { noColor := true } { exEngine with docs := fun _ => { command := [ESC, 0x5b, 0x6d] } }).block := by
  rw [(block_of_answer { noColor := true } { exEngine with docs := fun _ => { command := [ESC, 0x5b, 0x6d] } } rfl exLimit0 rfl (by decide) (by decide)).1]; decide
-- the hypothesis of `prints_engine` is needed: an unsorted answer is re-ordered by the CLI
example : ¬ SortedDesc ((exWorld [(0, 3), (1, 7)] none []).engine (cliOpts {} 5 [])) := by decide
-- the flag-table condition does fail on a clashing table (the pre-fix `save`)
example : noShorthandClash
    [⟨"rootCmd", "wtf", "", [], [⟨"platform", "p", "stringSlice"⟩], [], true⟩,
     ⟨"saveCmd", "save", "rootCmd", [⟨"platforms", "p", "stringSlice"⟩], [], [], true⟩]
    ⟨"saveCmd", "save", "rootCmd", [⟨"platforms", "p", "stringSlice"⟩], [], [], true⟩ = false := by decide

end examples

end Wtf.C17
