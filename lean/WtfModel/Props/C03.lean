import WtfModel.Proofs.C03Search
import WtfModel.Proofs.C03State
import WtfModel.Proofs.C03Lower
import WtfModel.Gen.C03
import WtfModel.Gen.Bm25

/-!
  C03 — the inverted index answers exactly like an exhaustive scan of the commands, also after
  merge / replace / append.

  Property theorems only (lemmas: Proofs/C03Index, C03Scan, C03Terms, C03Search, C03State).
  Everything is stated for *all* databases (any field contents, duplicates, empty fields, any bytes),
  all queries, all option records (per-term boosts included), all values of the parameters (`Tuning`:
  idf, BM25F parameters, host platform, Unicode tables, …) and over an *arbitrary* score type: no
  algebraic law is used, every score equation below is syntactic (same operations in the same order),
  so it holds verbatim for IEEE floats.

  What the theorems are about: the *indexed texts* of a command (`Cmd.cmdText`, `descText`, `keysText`,
  `tagsText` = the cached lower-case field when non-empty, else the raw field; keywords and tags joined
  by single spaces), tokenised by `tokenize`.  `tfOf c t`, `containsTerm c t`, `dfOf db t`,
  `scanPostings db t`, `docLens c` are defined from those token lists alone (Model/Index.lean, "scan
  specification") and never mention the index.  The link "indexed text = lower-cased raw field" is
  `loaded_caches_wf` + `indexed_tokens_ascii` (see there for the exact non-ASCII boundary).
-/
namespace Wtf.C03
open Wtf.Text Wtf.Index Wtf.Filters Wtf.Search Wtf.ScoreOps

variable {S : Type} [ScoreOps S]

/-! ## 0. regenerated code facts the statements below rest on -/

/-- The literals and code shapes of /repo, re-extracted on every run, are the ones the model uses:
    term cap 10, protected prefix 4, minimal token length 2, `minIDF = 0`, and index *and* re-ranker
    are (re)built by the lazy rebuild, by UpdateDatabase, by LoadDatabase and by the merge. -/
theorem code_facts :
    defaultTermCap = Gen.C03.termCap ∧ preserveCount = Gen.C03.preserve ∧ Gen.C03.minTokenLen = 2 ∧
    Gen.Bm25.minIDF = ⟨0, 1⟩ ∧
    Gen.C03.lazyRebuildCondition = true ∧ Gen.C03.lazyRebuildBoth = true ∧ Gen.C03.updateRebuildsBoth = true ∧
    Gen.C03.loadBuildsBoth = true ∧ Gen.C03.mergeBuildsBoth = true ∧ Gen.C03.mergeMainThenPersonal = true := by
  decide

/-! ## 1. the index is the scan -/

/-- Postings of a term = exactly the documents containing it in some field, in document order, each
    with its true per-field term frequencies (absent from the map iff no document contains it). -/
theorem postings (db : Db) (t : Token) :
    look (build db).postings t = if (scanPostings db t).isEmpty then none else some (scanPostings db t) :=
  (buildSpec_build db).postings t

/-- What `scanPostings` is: read at document `k` it has an entry iff command `k` contains the term,
    carrying the counts of the term in the four token lists; ids are strictly increasing. -/
theorem postings_meaning (db : Db) (t : Token) :
    (∀ k, (scanPostings db t).find? (·.doc == k) =
        match db[k]? with
        | some c => if containsTerm c t then some { doc := k, tf := tfOf c t } else none
        | none => none) ∧
    ((scanPostings db t).map (·.doc)).Pairwise (· < ·) ∧
    (scanPostings db t).length = dfOf db t :=
  ⟨find_scanPostings db t, scanPostingsAux_sorted 0 db t, scanPostings_length db t⟩

/-- Document frequency = number of documents containing the term (counted once per document). -/
theorem df (db : Db) (t : Token) :
    look (build db).df t = if dfOf db t = 0 then none else some (dfOf db t) :=
  (buildSpec_build db).df t

/-- Field lengths are attached to the right document: entry `i` is the four token counts of command `i`
    (counted after stop-word removal: `docLens` is defined from `tokenize`). -/
theorem lens (db : Db) : (build db).lens = db.map docLens := (buildSpec_build db).lens

theorem n (db : Db) : (build db).n = db.length := (buildSpec_build db).n

/-- The totals the average field lengths are computed from (`avg = float64(total) / float64(N)`,
    `avgOf`) are the plain sums of the per-document field lengths. -/
theorem totals (db : Db) :
    sumLens (build db).lens =
      { cmd := (db.map (fun c => c.cmdTokens.length)).sum, desc := (db.map (fun c => c.descTokens.length)).sum,
        keys := (db.map (fun c => c.keysTokens.length)).sum, tags := (db.map (fun c => c.tagsTokens.length)).sum } := by
  rw [lens, sumLens_spec]
  simp only [List.map_map]
  rfl

/-! ## 2. scores computed through the index = scores recomputed from the texts -/

/-- NLP-off path.  The score map built by calculateInitialScores through the index is, as a list
    (same entries, same order, the same arithmetic expression in every entry), the scan score map
    `scanScores`, which is defined without the index:
    * document `d` has an entry iff it exists, passes the platform / pipeline gate and contains a live
      query term (`scan_entry_iff`);
    * the value is the left fold over `terms`, in order and with multiplicity, of
      `acc ↦ add acc (mul (mul idf boost) (termBM25F params N totals (docLens c) (tfOf c t)))` over the
      terms the document contains, starting from `add zero x` (`scanStep`, `scanContrib`).
    The `idf < minIDF` gate of the code is part of the specification (`termLive`); with the shipped
    `minIDF = 0` it never fires (`scores_minIdfOff`). -/
theorem scores_eq_scan (T : Tuning S) (db : Db) (o : Opts S) (terms : List Token) :
    initialScores T db (build db) o none terms = scanScores T db o terms :=
  initialScores_eq_scanScores T db (build db) (buildSpec_build db) o terms

/-- The same, entry by entry, for any per-term boost table (also the NLP one). -/
theorem scores_lookup (T : Tuning S) (db : Db) (o : Opts S) (pq : Option (NlpOut S)) (terms : List Token) (d : Nat) :
    List.lookup d (initialScores T db (build db) o pq terms) =
      match db[d]? with
      | some c => if passes T.ri T.host o.filter c then scanScore T db (termBoosts o pq) terms c else none
      | none => none :=
  lookup_initialScores T db (build db) (buildSpec_build db) o pq terms d

theorem scan_entry_iff (T : Tuning S) (db : Db) (o : Opts S) (terms : List Token) (d : Nat) :
    (scanEntry T db o terms d).isSome = true ↔
      ∃ c, db[d]? = some c ∧ passes T.ri T.host o.filter c = true ∧
        ∃ t ∈ terms, containsTerm c t = true ∧ termLive T db t = true :=
  scanEntry_isSome T db o terms d

/-- the `idf < minIDF` gate never fires.  Discharged for the real parameters by: `minIDF = 0`
    (`code_facts`, regenerated) and `bm25IDF(N, df) = log((N - df + 0.5)/(df + 0.5) + 1) ≥ 0` for
    `df ≤ N`; the harness monitor `idf-below-minidf` checks it on every value the real code produces. -/
def MinIdfOff (T : Tuning S) : Prop := ∀ n df, lt (T.idf n df) T.params.minIDF = false

/-- With the gate off the scan score is the plain BM25F sum over the contained terms. -/
theorem scores_minIdfOff (T : Tuning S) (hmin : MinIdfOff T) (db : Db) (tb : List (Bytes × S)) (c : Cmd)
    (acc : Option S) (t : Token) :
    scanStep T db tb c acc t =
      if containsTerm c t then some (add (acc.getD zero) (scanContrib T db tb c t)) else acc := by
  unfold scanStep termLive; rw [hmin]; simp

/-! ## 3. what a search returns (the property's first sentence) -/

/-- With NLP expansion (and the typo fallback) off and a limit that does not cut, the commands
    returned are exactly the filter-eligible commands one of whose four fields contains at least one
    of the query's used content words. -/
theorem candidates_exact (T : Tuning S) (db : Db) (q : Bytes) (o : Opts S)
    (hn : o.useNLP = false) (hf : o.useFuzzy = false) (hlim : db.length ≤ effLimit o) (hmin : MinIdfOff T) :
    ∃ res, search T db q o = .ok res ∧ (res.map (·.1)).Nodup ∧
      ∀ d, d ∈ res.map (·.1) ↔
        ∃ c, db[d]? = some c ∧ passes T.ri T.host o.filter c = true ∧
          ∃ t ∈ selectTopTerms T (build db) (tokenize (T.normQ q)) (effCap o), containsTerm c t = true := by
  obtain ⟨res, h1, _, h3, h4⟩ := search_lexical_spec T db q o hn hf
  refine ⟨res, h1, h3, ?_⟩
  intro d
  rw [h4 hlim d, scanEntry_isSome]
  constructor
  · rintro ⟨c, hc, hp, t, ht, hct, _⟩
    exact ⟨c, hc, hp, t, ht, hct⟩
  · rintro ⟨c, hc, hp, t, ht, hct⟩
    exact ⟨c, hc, hp, t, ht, hct, by simp [termLive, hmin _ _]⟩

/-- The same without assuming anything about idf: the `idf < minIDF` gate stays in the statement. -/
theorem candidates_exact_general (T : Tuning S) (db : Db) (q : Bytes) (o : Opts S)
    (hn : o.useNLP = false) (hf : o.useFuzzy = false) (hlim : db.length ≤ effLimit o) :
    ∃ res, search T db q o = .ok res ∧
      ∀ d, d ∈ res.map (·.1) ↔
        ∃ c, db[d]? = some c ∧ passes T.ri T.host o.filter c = true ∧
          ∃ t ∈ selectTopTerms T (build db) (tokenize (T.normQ q)) (effCap o),
            containsTerm c t = true ∧ termLive T db t = true := by
  obtain ⟨res, h1, _, _, h4⟩ := search_lexical_spec T db q o hn hf
  exact ⟨res, h1, fun d => by rw [h4 hlim d, scanEntry_isSome]; rfl⟩

/-- Every score a lexical search returns (any limit) is the scan score of that command — the
    field-weighted BM25F sum recomputed from the command's texts — multiplied by the pipeline boost
    when the command is a pipeline command and a positive boost is requested (`pipeAdj`). -/
theorem result_scores (T : Tuning S) (db : Db) (q : Bytes) (o : Opts S)
    (hn : o.useNLP = false) (hf : o.useFuzzy = false) :
    ∃ res, search T db q o = .ok res ∧
      ∀ d s, (d, s) ∈ res → ∃ c s0, db[d]? = some c ∧ passes T.ri T.host o.filter c = true ∧
        scanScore T db o.boosts (selectTopTerms T (build db) (tokenize (T.normQ q)) (effCap o)) c = some s0 ∧
        s = pipeAdj T o c s0 := by
  obtain ⟨res, h1, h2, _, _⟩ := search_lexical_spec T db q o hn hf
  refine ⟨res, h1, ?_⟩
  intro d s hds
  obtain ⟨c, s0, hc, he, hs⟩ := h2 d s hds
  refine ⟨c, s0, hc, ?_, ?_, hs⟩
  · unfold scanEntry at he
    rw [hc] at he
    by_cases hp : passes T.ri T.host o.filter c = true
    · exact hp
    · simp [hp] at he
  · unfold scanEntry at he
    rw [hc] at he
    by_cases hp : passes T.ri T.host o.filter c = true
    · simpa [hp, usedTerms] using he
    · simp [hp] at he

/-! ## 4. which content words are used -/

/-- A query of at most `cap` content words is used completely … -/
theorem terms_small (T : Tuning S) (idx : Index) (nq : Bytes) (o : Opts S)
    (h : (tokenize nq).length ≤ effCap o) : selectTopTerms T idx (tokenize nq) (effCap o) = tokenize nq :=
  selectTopTerms_small T idx _ _ h

omit [ScoreOps S] in
/-- … and by default `cap` is ten. -/
theorem default_cap (o : Opts S) (h : o.topTermsCap ≤ 0) : effCap o = 10 := by
  unfold effCap defaultTermCap Gen.SearchParams.defaultTermCap; simp [h]

/-- For longer queries each of the first four content words is still used (a word that repeats an
    earlier one is used once; a word absent from the index is kept too) … -/
theorem terms_first_four (T : Tuning S) (idx : Index) (nq : Bytes) (o : Opts S) :
    ∀ t ∈ (tokenize nq).take 4, t ∈ selectTopTerms T idx (tokenize nq) (effCap o) :=
  selectTopTerms_first_four T idx _ _

/-- … nothing but words of the query is used, and at most `max cap 4` of them (the protected prefix
    wins over a requested cap below four). -/
theorem terms_bound (T : Tuning S) (idx : Index) (nq : Bytes) (o : Opts S) :
    (∀ t ∈ selectTopTerms T idx (tokenize nq) (effCap o), t ∈ tokenize nq) ∧
    (selectTopTerms T idx (tokenize nq) (effCap o)).length ≤ max (effCap o) 4 := by
  refine ⟨selectTopTerms_subset T idx _ _, selectTopTerms_length T idx _ _ ?_⟩
  unfold effCap defaultTermCap Gen.SearchParams.defaultTermCap
  split
  · omega
  · rename_i h; omega

/-! ## 5. the index and the re-ranker never lag behind the commands -/

omit [ScoreOps S] in
/-- In every state reachable from an empty database through any history of
    load / load-with-personal / UpdateDatabase / direct growth / search operations, the lazy rebuild
    at the top of SearchUniversal leaves: index = `build (current commands)` and re-ranker built from
    the current commands. -/
theorem fresh (ri : RuneInfo) (ops : List (Op S)) (hops : ∀ op ∈ ops, op.InScope) :
    let s := DbState.run ri DbState.init ops
    s.refresh = DbState.built s.cmds :=
  DbState.refresh_of_inv (DbState.inv_run ri DbState.inv_init ops hops)

/-- Hence every search issued after such a history answers exactly like the same search on a database
    freshly built from the same commands (NLP on or off, any options). -/
theorem search_fresh (T : Tuning S) (mk : List Cmd → Bytes → List (Nat × S)) (ops : List (Op S))
    (hops : ∀ op ∈ ops, op.InScope) (q : Bytes) (o : Opts S) :
    let s := DbState.run T.ri DbState.init ops
    DbState.answer T mk s q o = search { T with tfidf := DbState.rankerOf mk (some s.cmds) } s.cmds q o :=
  DbState.answer_of_inv T mk (DbState.inv_run T.ri DbState.inv_init ops hops) q o

omit [ScoreOps S] in
/-- The commands of a loaded / merged database have well-formed lower-case caches. -/
theorem loaded_caches_wf (ri : RuneInfo) (s : DbState) :
    (∀ raw, ∀ c ∈ (DbState.step (S := S) ri s (.load raw)).cmds, WFCache ri c) ∧
    (∀ m p, ∀ c ∈ (DbState.step (S := S) ri s (.loadWithPersonal m p)).cmds, WFCache ri c) :=
  ⟨fun raw => wfCache_step_load ri s raw, fun m p => wfCache_step_loadWithPersonal ri s m p⟩

/-- Lower-casing does not change the tokens of a text — for every byte string (valid UTF-8 or not)
    in which no non-ASCII code point is lower-cased to an ASCII one.  In Go's tables exactly two code
    points are: U+212A KELVIN SIGN (→ `k`) and U+0130 (→ `i`); the harness op `foldscan` re-derives
    that list from the toolchain over all 1,114,112 code points on every run.  At those two the
    statement is false (Boundary 2 below). -/
theorem tokenize_toLower (ri : RuneInfo) (s : Bytes)
    (h : ∀ r ∈ Utf8.runes s, 128 ≤ r → 128 ≤ ri.lower r) : tokenize (GoStr.toLower ri s) = tokenize s :=
  Wtf.Search.tokenize_toLower ri s h

/-- Keywords / tags never glue: the tokens of `strings.Join(xs, " ")` are the tokens of the elements. -/
theorem tokenize_joinSp (xs : List Bytes) : tokenize (joinSp xs) = (xs.map tokenize).flatten :=
  Wtf.Search.tokenize_joinSp xs

/-- With well-formed caches, for commands free of the two exceptional code points, what the engine
    indexes is the tokenisation of the raw command line and description and, element by element, of the
    keywords and tags: "contains a content word" in the theorems above then speaks about the raw texts. -/
theorem indexed_tokens (ri : RuneInfo) (c : Cmd) (hwf : WFCache ri c) (hn : NoAsciiFold ri c) :
    c.cmdTokens = tokenize c.command ∧ c.descTokens = tokenize c.description ∧
    c.keysTokens = (c.keywords.map tokenize).flatten ∧ c.tagsTokens = (c.tags.map tokenize).flatten :=
  Wtf.Search.indexed_tokens ri c hwf hn

/-- The ASCII special case in the joined form. -/
theorem indexed_tokens_ascii (ri : RuneInfo) (c : Cmd) (hwf : WFCache ri c) (ha : AsciiCmd c) :
    c.cmdTokens = tokenize c.command ∧ c.descTokens = tokenize c.description ∧
    c.keysTokens = tokenize (joinSp c.keywords) ∧ c.tagsTokens = tokenize (joinSp c.tags) :=
  Wtf.Search.indexed_tokens_ascii ri c hwf ha

/-! ## 6. non-vacuity, and the two documented boundaries -/

section examples

/-- a tiny concrete score type for the examples (no law is needed by any theorem above) -/
@[reducible] private def natOps : ScoreOps Nat :=
  { zero := 0, one := 1, add := (· + ·), sub := (· - ·), mul := (· * ·), div := (· / ·),
    lt := fun a b => decide (a < b), ofNat := id, ofQ := fun q => q.num.toNat / q.den }
attribute [local instance] natOps

private def bs (s : String) : Bytes := Bytes.ofString s

private def mkCmd (cmd desc : String) (kw tg plat : List String) : Cmd :=
  populate {} { command := bs cmd, description := bs desc, keywords := kw.map bs, tags := tg.map bs, niche := [],
                platform := plat.map bs, pipeline := false, commandLower := [], descriptionLower := [],
                keywordsLower := [], tagsLower := [] }

private def db3 : Db :=
  [ mkCmd "tar -czf archive.tar.gz dir" "Compress a directory of files" ["compress", "archive"] ["files"] [],
    mkCmd "ls -la" "List all files" ["list", "files"] [] [],
    mkCmd "mytool ps" "List running containers" ["list"] ["containers"] ["windows"] ]

private def T0 : Tuning Nat :=
  { params := { k1 := 1, bCmd := 0, bDesc := 0, bKeys := 0, bTags := 0, wCmd := 3, wDesc := 1, wKeys := 2, wTags := 1, minIDF := 0 }
    idf := fun n df => n - df + 1, host := bs "linux", ri := {}, normQ := lowerAscii,
    nlp := fun _ => { intentBoost := fun _ => 1, cascade := fun _ => 1 }, tfidf := none, fuzzySort := id }

private def o0 : Opts Nat := { limit := 10, pipelineBoost := 0 }

private def ids (r : Except Fuzzy.Panic (List (Nat × Nat))) : List Nat :=
  match r with | .ok l => l.map (·.1) | .error _ => [999]

-- the index of the 3-document database: "files" occurs in the tags of #0 (and its description) and in
-- description + keywords of #1; "list" in #1 and #2; the stop word "of" and the 1-letter "a" nowhere
example : look (build db3).postings (bs "files") =
    some [{ doc := 0, tf := { desc := 1, tags := 1 } }, { doc := 1, tf := { desc := 1, keys := 1 } }] := by decide +kernel
example : look (build db3).df (bs "list") = some 2 ∧ look (build db3).df (bs "of") = none ∧
    look (build db3).df (bs "a") = none := by decide +kernel
example : (build db3).lens = [{ cmd := 6, desc := 3, keys := 2, tags := 1 }, { cmd := 2, desc := 3, keys := 2, tags := 0 },
    { cmd := 2, desc := 3, keys := 1, tags := 1 }] := by decide +kernel
-- hypotheses of `candidates_exact` are satisfiable together, and the answer is the expected one:
-- #2 contains "list" but is a windows-only command on a linux host
example : o0.useNLP = false ∧ o0.useFuzzy = false ∧ db3.length ≤ effLimit o0 ∧ MinIdfOff T0 :=
  ⟨rfl, rfl, by decide, fun _ _ => rfl⟩
example : search T0 db3 (bs "List the FILES") o0 = .ok [(1, 8), (0, 4)] := by
  rw [search_lexical_eq T0 db3 _ o0 rfl rfl]
  have h : collect T0 db3 o0 none (initialScores T0 db3 (build db3) o0 none (usedTerms T0 db3 (bs "List the FILES") o0)) =
      [(0, 4), (1, 8)] := by decide +kernel
  rw [h]
  simp [sortDesc, List.mergeSort, List.MergeSort.Internal.splitInTwo, ScoreOps.lt, effLimit, o0]
example : scanScores T0 db3 o0 [bs "list", bs "files"] = initialScores T0 db3 (build db3) o0 none [bs "list", bs "files"] ∧
    (scanScores T0 db3 o0 [bs "list", bs "files"]).map (·.1) = [0, 1] := by decide +kernel
-- a history inside the property's scope
example : ∀ op ∈ ([.load db3, .growDirect db3, .search (bs "x") o0, .update db3] : List (Op Nat)), op.InScope := by
  intro op h; simp at h; rcases h with rfl | rfl | rfl | rfl <;> trivial

/-- **Boundary 1 (documented non-theorem).**  Replacing `db.Commands` behind the engine's back by a
    list of the *same length* is not detected by `uIndex.N != len(db.Commands)`: the model (like the
    code) keeps answering from the old index.  This operation is not among the property's operations
    (load / merge / UpdateDatabase / growth), which is why `fresh` excludes `replaceDirect`. -/
example :
    let s := DbState.run (S := Nat) {} DbState.init [.load [mkCmd "aa bb" "" [] [] []], .replaceDirect [mkCmd "cc dd" "" [] [] []]]
    ids (DbState.answer T0 (fun _ _ => []) s (bs "cc") o0) = [] ∧
    ids (search T0 s.cmds (bs "cc") o0) = [0] := by decide +kernel

-- `NoAsciiFold` is satisfiable: a table without ASCII-folding entries (here: the empty one) meets it for every command
example (c : Cmd) : NoAsciiFold {} c := by
  intro s _ r _ hr
  have : ¬ r < 128 := by omega
  simp [RuneInfo.lower, RuneInfo.find, this]; exact hr

/-- **Boundary 2 (documented non-theorem).**  `tokenize_toLower` / `indexed_tokens` do not extend to all texts:
    Go lower-cases U+212A KELVIN SIGN to the ASCII letter `k`, so the cached field tokenises to
    `["kb"]` while the raw field (where the sign is a separator and `b` is too short) has no token. -/
example :
    let ri : RuneInfo := { table := [{ cp := 0x212A, lower := 0x6B, foldRep := 0x4B, isLower := false, isUpper := true,
                                       isSpace := false, isLetNum := true }] }
    tokenize (GoStr.toLower ri [0xE2, 0x84, 0xAA, 0x62]) = [[0x6B, 0x62]] ∧ tokenize [0xE2, 0x84, 0xAA, 0x62] = [] := by
  decide +kernel

end examples

end Wtf.C03
