import WtfModel.Model.Search
import WtfModel.Model.Legacy0

/-!
  C10 — no input crashes the engine.  Go's partial operations are explicit `Except` values in the model,
  and every model function is total (termination is checked by Lean for each definition).
  The theorems here locate the only panic the search model can raise, show its guard, and show that the
  legacy entry points' buffer sizing never asks for a negative or overflowing capacity.
  (The unconditional `search … ≠ .error _` is proved in Props/C07.lean `no_panic` from these.)
-/
namespace Wtf.C10
open Wtf.Search Wtf.Fuzzy Wtf.Legacy

/-- the typo fallback never hands the matcher a NUL byte -/
theorem fuzzy_target_nul_free (c : Cmd) : ∀ b ∈ fuzzyTarget c, b ≠ 0 := by
  intro b hb
  unfold fuzzyTarget nulToSpace at hb
  obtain ⟨x, _, hx⟩ := List.mem_map.mp hb
  intro h0
  subst h0
  split at hx <;> simp_all

/-- result-buffer capacity: never negative, never above the database size, and the product
    `limit * mult` is formed only when it is at most `total` (so it cannot overflow) -/
theorem buffer_cap_safe (mult total limit : Int) (hm : 0 < mult) (ht : 0 ≤ total) :
    0 ≤ resultsBufferCap mult total limit ∧ resultsBufferCap mult total limit ≤ total ∧
    (¬(limit ≤ 0 ∨ limit > total / mult) → limit * mult ≤ total) := by
  unfold resultsBufferCap
  refine ⟨?_, ?_, ?_⟩
  · split
    · omega
    · rename_i h
      have : 0 < limit := by omega
      exact Int.le_of_lt (Int.mul_pos this hm)
  · split
    · omega
    · rename_i h
      have h2 : limit ≤ total / mult := by omega
      calc limit * mult ≤ (total / mult) * mult := Int.mul_le_mul_of_nonneg_right h2 (Int.le_of_lt hm)
        _ ≤ total := Int.ediv_mul_le total (Int.ne_of_gt hm)
  · intro h
    have h2 : limit ≤ total / mult := by omega
    calc limit * mult ≤ (total / mult) * mult := Int.mul_le_mul_of_nonneg_right h2 (Int.le_of_lt hm)
      _ ≤ total := Int.ediv_mul_le total (Int.ne_of_gt hm)

/-- … and it is the intended `min(total, limit*mult)` for every positive limit -/
theorem buffer_cap_exact (mult total limit : Int) (hm : 0 < mult) (ht : 0 ≤ total) (hl : 0 < limit) :
    resultsBufferCap mult total limit = min total (limit * mult) := by
  unfold resultsBufferCap
  split
  · rename_i h
    have h2 : total / mult < limit := by omega
    have : total < limit * mult := by
      have := Int.lt_ediv_add_one_mul_self total hm
      have h3 : total / mult + 1 ≤ limit := by omega
      calc total < (total / mult + 1) * mult := this
        _ ≤ limit * mult := Int.mul_le_mul_of_nonneg_right h3 (Int.le_of_lt hm)
    omega
  · rename_i h
    have h2 : limit ≤ total / mult := by omega
    have : limit * mult ≤ total :=
      calc limit * mult ≤ (total / mult) * mult := Int.mul_le_mul_of_nonneg_right h2 (Int.le_of_lt hm)
        _ ≤ total := Int.ediv_mul_le total (Int.ne_of_gt hm)
    omega

/-- why the NUL guard exists: a NUL inside a target makes the library index past the pattern -/
theorem nul_panics_matcher : matchOne {} [0x61] [0x61, 0x00, 0x62] = .error .indexOutOfRange := by rfl

/-- the only panic the search model can raise comes out of the typo fallback's matcher -/
theorem search_panic_only_from_matcher {S : Type} [ScoreOps S] (T : Tuning S) (db : Db) (q : Bytes) (o : Opts S)
    (e : Fuzzy.Panic) (h : search T db q o = .error e) :
    o.useFuzzy = true ∧ findNoSort T.ri (T.normQ q) (db.map fuzzyTarget) = .error e := by
  unfold search at h
  simp only at h
  have key : ∀ (x : Except Fuzzy.Panic (List (Nat × S))),
      x = (if o.useFuzzy then fuzzySearch T db (T.normQ q) o (effLimit o) else .ok []) → x = .error e →
      o.useFuzzy = true ∧ findNoSort T.ri (T.normQ q) (db.map fuzzyTarget) = .error e := by
    intro x hx hxe
    subst hx
    split at hxe
    · rename_i hf
      refine ⟨hf, ?_⟩
      unfold fuzzySearch at hxe
      split at hxe
      · rename_i e' he'
        cases hxe
        exact he'
      · cases hxe
    · cases hxe
  iterate 8 (all_goals (try (first | exact key _ rfl h | (cases h; done) | split at h)))

end Wtf.C10
