import WtfModel.Props.C01
import WtfModel.Model.Modelled
import WtfModel.Proofs.LegacyEntry
import WtfModel.Proofs.ExampleScore

/-!
  C01, continued — the legacy entry points of internal/database/search.go with the legacy scorer
  `calculateScore` MODELLED (Model/LegacyScore.lean, Model/LegacyEntry.lean) instead of uninterpreted:

    SearchWithPipelineOptions (`wtf pipeline`)     `legacy_pipeline_modelled`
    SearchWithOptions                             `search_with_options`
    combineAndDeduplicateResults                   `combine_results`, `combine_exact_first`
    SearchWithFuzzy                               `search_with_fuzzy`
    SearchWithNLP                                  `search_with_nlp_off`, `search_with_nlp_shared_partial`,
                                                   `search_with_nlp_temporary_partial`, `search_with_nlp_duplicate`
    GetSuggestions                                 `suggestions`, `suggestion_words_deterministic`
    calculateScore                                 `legacy_score_nonneg`, `legacy_score_can_be_negative`

  Scope.  C01 quantifies over "every public search entry point the CLI or the cache layer uses": of the
  functions above that is SearchWithPipelineOptions (cli/pipeline.go) and GetSuggestions (cli/search.go).
  SearchWithOptions, SearchWithFuzzy and SearchWithNLP are exported but called by nothing outside search.go;
  they are modelled and proved as far as the clauses hold, and where they do not the full statement stays
  visible with a witness:

  * FULL (does not hold): `∀ …, searchWithNLP … = .ok r → (r.map (·.1)).Nodup`.  On a database value without
    shared TF-IDF searcher (`db.tfidf == nil`: built without LoadDatabase) the results of the temporary
    searcher and of the fallback search are appended without de-duplication: `search_with_nlp_duplicate`
    (replayed on the real code: entries [tar | ls -la | zip], query "tar" → positions [0, 0, 2]).
    Proved instead: all five clauses on the shared-searcher branch (`…_shared_partial`), the other four on
    the temporary branch (`…_temporary_partial`).  Out of the property's scope (lead's decision); the
    harness counts it under `out-of-scope:SearchWithNLP-no-searcher-duplicate`.
  * SearchWithOptions / the exact half of SearchWithFuzzy never read Platforms / NoCrossPlatform /
    AllPlatforms / PipelineOnly: only the host gate is claimed for them (Props/C04b.lean).

  Negative context boosts: `calculateScore` itself CAN be negative (`legacy_score_can_be_negative`), but no
  negative, zero or NaN score is ever returned: every entry point appends a result only after `score > 0`
  (`…_pos` conjuncts below, no hypothesis on the boosts).  Non-negativity of `calculateScore` needs exactly:
  every context boost ≥ 0 and `finiteScore` keeps non-negative values non-negative (`legacy_score_nonneg`).

  "Finite": no content in an ordered field.  On the floats the per-word category factors multiply without
  bound; since the repair F28 `finiteScore` saturates +Inf at math.MaxFloat64 after the last multiplication
  on each path (model: the parameter `fin`, the IEEE function in the driver).  The `overflow` stream of the
  `legacy2` domain (hundreds of repetitions of "zip"/"tar") checks that on the real code and on the model.
-/
namespace Wtf.C01
open Wtf.Search Wtf.Legacy Wtf.LegacyScore Wtf.LegacyEntry ScoreOps ScoreLaws

/-! ### regenerated literals and defaults (re-checked by the kernel on every run) -/

/-- every literal of the legacy scorer and every value of the category rule table is non-negative; the
    default limits are positive (so no slice expression is reached with a non-positive bound) -/
theorem legacy_literals :
    (Gen.LegacyScore.categoryRules.all (fun r => rulesNonneg r.2.1 && decide (QNonneg r.2.2)) = true) ∧
    QNonneg Gen.LegacyScore.cmdExact ∧ QNonneg Gen.LegacyScore.cmdPrefix ∧ QNonneg Gen.LegacyScore.cmdWord ∧
    QNonneg Gen.LegacyScore.cmdContains ∧ QNonneg Gen.LegacyScore.domainScore ∧ QNonneg Gen.LegacyScore.keywordExact ∧
    QNonneg Gen.LegacyScore.keywordPartial ∧ QNonneg Gen.LegacyScore.descWord ∧ QNonneg Gen.LegacyScore.descPartial ∧
    QNonneg Gen.LegacyScore.tagExact ∧ QNonneg Gen.LegacyScore.tagPartial ∧ QNonneg Gen.LegacyScore.directBonus ∧
    QNonneg Gen.LegacyScore.commandBonus ∧ QNonneg Gen.LegacyScore.nicheFactor ∧ QNonneg Gen.LegacyScore.crossPlatformPenalty ∧
    QNonneg Gen.LegacyScore.fuzzyDiscount ∧ QNonneg Gen.LegacyScore.similarityScale ∧ QNonneg Gen.LegacyScore.fallbackPriority ∧
    0 < Gen.LegacyScore.optionsDefaultLimit ∧ 0 < Gen.LegacyScore.pipelineDefaultLimit ∧
    0 < Gen.LegacyScore.fuzzyDefaultLimit ∧ 0 < Gen.LegacyScore.nlpDefaultLimit ∧ 0 < Gen.LegacyScore.suggestDefaultMax ∧
    0 < Gen.LegacyScore.exactMultiplier ∧
    Gen.LegacyScore.fuzzyBaseA = Gen.Constants.FuzzyNormalizationBase ∧ Gen.LegacyScore.fuzzyBaseB = Gen.Constants.FuzzyNormalizationBase ∧
    Gen.LegacyScore.pipelineDefaultLimit = Gen.Constants.DefaultSearchLimit := by decide

/-- the limits in force: the requested one, or the regenerated default when none / a non-positive one is given -/
theorem legacy_limits_in_force (limit : Int) :
    (limit ≤ 0 → optionsLimit limit = Gen.LegacyScore.optionsDefaultLimit ∧ pipelineLimit limit = Gen.LegacyScore.pipelineDefaultLimit ∧
      fuzzyLimit limit = Gen.LegacyScore.fuzzyDefaultLimit ∧ nlpLimit limit = Gen.LegacyScore.nlpDefaultLimit ∧
      suggestMax limit = Gen.LegacyScore.suggestDefaultMax) ∧
    (0 < limit → optionsLimit limit = limit ∧ pipelineLimit limit = limit ∧ fuzzyLimit limit = limit ∧ nlpLimit limit = limit ∧
      suggestMax limit = limit) := by
  unfold optionsLimit pipelineLimit fuzzyLimit nlpLimit suggestMax
  constructor
  · intro h; simp [h]
  · intro h
    have : ¬ limit ≤ 0 := by omega
    simp [this]

variable {S : Type} [ScoreOps S] [ScoreLaws S]

/-! ### calculateScore -/

/-- **calculateScore ≥ 0** for every command and query when every context boost is ≥ 0 and `finiteScore`
    keeps non-negative values non-negative.  (Both hold for the IEEE `finiteScore`; the boosts are the caller's.) -/
theorem legacy_score_nonneg {fin : S → S} (hfin : FinOK fin) (ri : RuneInfo) (boosts : List (Bytes × S))
    (hb : BoostsNonneg boosts) (c : Cmd) (q : Bytes) :
    Nonneg (calculateScore fin ri boosts c (queryWords ri q)) :=
  calculateScore_nonneg hfin ri hb c _

/-- the summands and factors are non-negative whatever the boosts: calculateWordScore and the category product -/
theorem legacy_score_parts_nonneg (ri : RuneInfo) (w : Bytes) (c : Cmd) (words : List Bytes) :
    Nonneg (wordScore ri w c : S) ∧ Nonneg (categoryBoost ri c words : S) :=
  ⟨wordScore_nonneg ri w c, categoryBoost_nonneg ri c words⟩

/-- … and with a negative boost it is negative: command `tar`, query "tar", boost −1 for "tar" gives −162
    (the value the real `calculateScore` returns, harness tag `legacy2.score-negative`) -/
theorem legacy_score_can_be_negative :
    calculateScore (S := Q) (fun x => x) {} [(Filters.bs "tar", ⟨-1, 1⟩)] (Example.mk "tar" "archive files" [])
      (queryWords {} (Filters.bs "tar")) = ⟨-810, 5⟩ := by decide +kernel

/-! ### SearchWithPipelineOptions with the modelled scorer (what `wtf pipeline` runs) -/

/-- **C01, SearchWithPipelineOptions**, scorer modelled: the five clauses and strict positivity of every
    returned score — for every `finiteScore`, every boost (negative, zero, huge), no hypothesis. -/
theorem legacy_pipeline_modelled (fin : S → S) (ri : RuneInfo) (db : Db) (q : Bytes) (o : Opts S) :
    let r := searchPipeline fin ri db q o
    r.length ≤ (pipelineLimit o.limit).toNat ∧ (∀ x ∈ r, x.1 < db.length) ∧ (r.map (·.1)).Nodup ∧
    r.Pairwise (fun a b => lt a.2 b.2 = false) ∧ (∀ x ∈ r, Nonneg x.2) ∧ (∀ x ∈ r, Pos x.2) :=
  let p := searchPipeline_post fin ri db q o
  ⟨p.bounded, p.real, p.nodup, p.sorted, p.nonneg, searchPipeline_pos fin ri db q o⟩

/-! ### SearchWithOptions -/

/-- **C01, SearchWithOptions**: the five clauses and strict positivity, no hypothesis. -/
theorem search_with_options (fin : S → S) (ri : RuneInfo) (host : Bytes) (db : Db) (q : Bytes) (limit : Int)
    (boosts : List (Bytes × S)) :
    let r := searchWithOptions fin ri host db q limit boosts
    r.length ≤ (optionsLimit limit).toNat ∧ (∀ x ∈ r, x.1 < db.length) ∧ (r.map (·.1)).Nodup ∧
    r.Pairwise (fun a b => lt a.2 b.2 = false) ∧ (∀ x ∈ r, Nonneg x.2) ∧ (∀ x ∈ r, Pos x.2) :=
  let p := searchWithOptions_post fin ri host db q limit boosts
  ⟨p.bounded, p.real, p.nodup, p.sorted, p.nonneg, searchWithOptions_pos fin ri host db q limit boosts⟩

/-! ### combineAndDeduplicateResults and SearchWithFuzzy -/

/-- **combineAndDeduplicateResults**: for any two lists of valid positions with non-negative scores the
    result has at most `limit` entries, valid positions, no position twice (indeed no command/description
    text twice), non-increasing non-negative scores. -/
theorem combine_results (db : Db) (exact fuzzy : List (Nat × S)) (limit : Nat)
    (he : ∀ x ∈ exact, x.1 < db.length ∧ Nonneg x.2) (hf : ∀ x ∈ fuzzy, x.1 < db.length ∧ Nonneg x.2) :
    let r := combine db exact fuzzy limit
    r.length ≤ limit ∧ (∀ x ∈ r, x.1 < db.length) ∧ (r.map (·.1)).Nodup ∧
    r.Pairwise (fun a b => lt a.2 b.2 = false) ∧ (∀ x ∈ r, Nonneg x.2) ∧
    ((combinedList db exact fuzzy).map (fun x => dedupKey db x.1)).Nodup :=
  let p := combine_post db exact fuzzy limit he hf
  ⟨p.bounded, p.real, p.nodup, p.sorted, p.nonneg, combinedList_keys_nodup db exact fuzzy⟩

/-- "exact results first": `combined` is the kept exact results followed by the kept typo results, and after
    the stable sort an exact result still precedes every typo result that does not score strictly higher. -/
theorem combine_exact_first (db : Db) (exact fuzzy : List (Nat × S)) :
    combinedList db exact fuzzy = exactPart db exact ++ typoPart db exact fuzzy ∧
    ((exactPart db exact).map (·.1)).Sublist (exact.map (·.1)) ∧ (∀ x ∈ exactPart db exact, x ∈ exact) ∧
    ∀ a ∈ exactPart db exact, ∀ b ∈ typoPart db exact fuzzy, lt a.2 b.2 = false →
      [a, b].Sublist (sortDesc (·.2) (combinedList db exact fuzzy)) :=
  ⟨rfl, exactPart_ids_sublist db exact, exactPart_sub db exact,
   fun a ha b hb h => LegacyEntry.combine_exact_first db exact fuzzy a b ha hb h⟩

/-- **C01, SearchWithFuzzy**: the five clauses with the limit in force on all three exits (good exact
    results / combined with the typo results / exact results only), for all parameter values. -/
theorem search_with_fuzzy (fin : S → S) (T : Tuning S) (db : Db) (q : Bytes) (o : Opts S) (r : List (Nat × S))
    (h : searchWithFuzzy fin T db q o = .ok r) :
    r.length ≤ (fuzzyLimit o.limit).toNat ∧ (∀ x ∈ r, x.1 < db.length) ∧ (r.map (·.1)).Nodup ∧
    r.Pairwise (fun a b => lt a.2 b.2 = false) ∧ (∀ x ∈ r, Nonneg x.2) :=
  let p := searchWithFuzzy_post fin T db q o r h
  ⟨p.bounded, p.real, p.nodup, p.sorted, p.nonneg⟩

/-! ### SearchWithNLP -/

omit [ScoreLaws S] in
/-- with `UseNLP` off it is SearchWithFuzzy -/
theorem search_with_nlp_off (fin : S → S) (T : Tuning S) (tmp : Bytes → List (Nat × S)) (db : Db) (q : Bytes) (o : Opts S)
    (h : o.useNLP = false) : searchWithNLP fin T tmp db q o = searchWithFuzzy fin T db q o := by
  unfold searchWithNLP; simp [h]

/-- **C01, SearchWithNLP, shared-searcher branch** (`_partial`: the full statement over both branches fails,
    see the header): all five clauses.  Hypothesis: the ranking is duplicate-free, best first, non-negative —
    `tfidf_model_rank_ok` proves that for the model of `TFIDFSearcher.Search`. -/
theorem search_with_nlp_shared_partial (fin : S → S) (T : Tuning S) (tmp : Bytes → List (Nat × S)) (db : Db) (q : Bytes)
    (o : Opts S) (hu : o.useNLP = true) (rank : Bytes → List (Nat × S)) (hs : T.tfidf = some rank) (hr : RankOK (rank q))
    (r : List (Nat × S)) (h : searchWithNLP fin T tmp db q o = .ok r) :
    r.length ≤ (nlpLimit o.limit).toNat ∧ (∀ x ∈ r, x.1 < db.length) ∧ (r.map (·.1)).Nodup ∧
    r.Pairwise (fun a b => lt a.2 b.2 = false) ∧ (∀ x ∈ r, Nonneg x.2) := by
  unfold searchWithNLP at h
  simp only [hu, Bool.not_true, Bool.false_eq_true, ↓reduceIte, hs, Except.ok.injEq] at h
  subst h
  let p := nlpShared_post db rank q (nlpLimit o.limit) hr
  exact ⟨p.bounded, p.real, p.nodup, p.sorted, p.nonneg⟩

/-- the model of the TF-IDF searcher satisfies `RankOK` for every non-negative similarity threshold -/
theorem tfidf_model_rank_ok (ri : RuneInfo) (sqrt : S → S) (minSim : S) (hm : Nonneg minSim) (idx : Tfidf.Index S)
    (q : Bytes) (limit : Nat) : RankOK (Tfidf.search ri sqrt minSim idx q limit) :=
  tfidf_search_rankOK ri sqrt minSim hm idx q limit

/-- **C01, SearchWithNLP, temporary-searcher branch** (`_partial`): bounded, valid positions, non-increasing,
    non-negative — NOT duplicate-free (`search_with_nlp_duplicate`).  Hypotheses: the temporary ranking names
    valid positions with non-negative similarities, `calculateIntentBoost ≥ 0` (monitored: oracle-negative-factor). -/
theorem search_with_nlp_temporary_partial (fin : S → S) (T : Tuning S) (tmp : Bytes → List (Nat × S)) (db : Db) (q : Bytes)
    (o : Opts S) (hu : o.useNLP = true) (hs : T.tfidf = none)
    (htmp : ∀ x ∈ tmp q, x.1 < db.length ∧ Nonneg x.2) (hib : ∀ d, Nonneg ((T.nlp q).intentBoost d))
    (r : List (Nat × S)) (h : searchWithNLP fin T tmp db q o = .ok r) :
    r.length ≤ (nlpLimit o.limit).toNat ∧ (∀ x ∈ r, x.1 < db.length) ∧
    r.Pairwise (fun a b => lt a.2 b.2 = false) ∧ (∀ x ∈ r, Nonneg x.2) := by
  unfold searchWithNLP at h
  simp only [hu, Bool.not_true, Bool.false_eq_true, ↓reduceIte, hs] at h
  exact nlpTemporary_partial fin T tmp db q o _ r htmp hib h

/-! ### SearchUniversal with every modelled layer plugged in -/

/-- **C01, SearchUniversal, end to end over the modelled layers**: the five clauses hold for every database, query and
    option set as soon as (1) `idf n df ≥ 0` for `df ≤ n` — a fact about `math.Log` of a number ≥ 1, proved for the
    real-valued formula (`idf_formula_nonneg`) and monitored on the floats; (2) the fuzzy library's sort returns a sorted
    permutation of its input (checked per case by the driver); (3) the similarity threshold is non-negative (the code's is
    0.01).  No hypothesis about the NLP analysis, the NLP factors, the TF-IDF ranking or the BM25F parameters is left. -/
theorem universal_modelled (idf : Nat → Nat → S) (host : Bytes) (ri : RuneInfo) (normQ : Bytes → Bytes)
    (fuzzySort : List (Nat × Int) → List (Nat × Int)) (sqrt : S → S) (minSim : S) (idx? : Option (Tfidf.Index S)) (db : Db)
    (hidf : ∀ n df, df ≤ n → lt (idf n df) (zero : S) = false)
    (hfz : ∀ ms, (fuzzySort ms).Perm ms ∧ (fuzzySort ms).Pairwise (fun a b => a.2 ≥ b.2))
    (hmin : Nonneg minSim)
    (q : Bytes) (o : Opts S) (r : List (Nat × S))
    (h : search (modelledTuning idf host ri normQ fuzzySort sqrt minSim idx? db) db q o = .ok r) :
    r.length ≤ effLimit o ∧ (∀ x ∈ r, x.1 < db.length) ∧ (r.map (·.1)).Nodup ∧
    r.Pairwise (fun a b => lt a.2 b.2 = false) ∧ (∀ x ∈ r, Nonneg x.2) := by
  have hR : TuningWFRest (modelledTuning idf host ri normQ fuzzySort sqrt minSim idx? db) := by
    refine ⟨genParams_wf, ?_, ?_, ?_⟩
    · intro n df hle; exact hidf n df hle
    · intro rank hr nq x hx
      cases idx? with
      | none => simp [modelledTuning] at hr
      | some idx =>
        simp only [modelledTuning, Option.map_some, Option.some.injEq] at hr
        subst hr
        exact (tfidf_search_rankOK ri sqrt minSim hmin idx nq db.length).2.2 x hx
    · intro ms; exact hfz ms
  exact universal_modelled_nlp _ db rfl hR q o r h

/-! ### GetSuggestions -/

omit [ScoreOps S] [ScoreLaws S] in
/-- **GetSuggestions**: at most `max` suggestions (the default when `max ≤ 0`), each one a word of the
    candidate list; no suggestion twice when the candidate list has no word twice and the library's sort
    permutes its matches. -/
theorem suggestions (T : Tuning S) (db : Db) (q : Bytes) (m : Int) (r : List Bytes) (h : getSuggestions T db q m = .ok r) :
    r.length ≤ (suggestMax m).toNat ∧ (∀ w ∈ r, w ∈ suggestionWords T.ri db) ∧
    (FuzzySortOK T → (suggestionWords T.ri db).Nodup → r.Nodup) :=
  ⟨getSuggestions_length T db q m r h, getSuggestions_mem T db q m r h,
   fun hF hw => getSuggestions_nodup T hF db q m r hw h⟩

/-- **the candidate list is deterministic**: `sort.Strings` of the keys of `wordSet` is ascending in Go's string
    order, duplicate-free, depends only on WHICH words were inserted, and every enumeration of the key set
    (Go: map iteration order) sorts to it; after the NUL replacement it is still duplicate-free provided no
    inserted word contains a space (strings.Fields / Trim / ToLower never produce one). -/
theorem suggestion_words_deterministic (ri : RuneInfo) (db : Db) :
    (Tfidf.sortWords (Tfidf.dedup (wordInsertions ri db))).Pairwise (fun a b => Metrics.bytesLe a b = true) ∧
    (Tfidf.sortWords (Tfidf.dedup (wordInsertions ri db))).Nodup ∧
    (∀ l', (∀ w, w ∈ l' ↔ w ∈ wordInsertions ri db) →
      Tfidf.sortWords (Tfidf.dedup l') = Tfidf.sortWords (Tfidf.dedup (wordInsertions ri db))) ∧
    (∀ σ : List Bytes, σ.Nodup → (∀ w, w ∈ σ ↔ w ∈ wordInsertions ri db) →
      Tfidf.sortWords σ = Tfidf.sortWords (Tfidf.dedup (wordInsertions ri db))) ∧
    (SpaceFree ri db → (suggestionWords ri db).Nodup) :=
  ⟨(sortedWords_spec _).1, (sortedWords_spec _).2.1, fun l' h => sortedWords_set_only l' _ h,
   fun σ hσ hm => sortedWords_any_enumeration _ σ hσ hm, suggestionWords_nodup ri db⟩

/-! ### witnesses and non-vacuity (kernel-evaluated on the core-only fraction type `Q`) -/
section examples
open Wtf.Example Wtf.Filters

private def dbL : Db := [mk "tar" "archive files" [], mk "ls -la" "list directory" [], mk "zip" "zip things" [],
  mk "ipconfig /all" "show adapters" ["windows"], mk "git log | head" "show history" ["windows"]]

private def oL : Opts Q := { pipelineBoost := ⟨2, 1⟩ }

private def idQ : Q → Q := fun x => x

/-- parameters of the witness: the NLP layer returns the query word itself as enhanced keyword, intent boost 1;
    the temporary TF-IDF searcher ranks entry 0 with similarity 1/2 -/
private def TW : Tuning Q :=
  { Example.tuning with nlp := fun _ => { enhanced := [bs "tar"], intentBoost := fun _ => ⟨1, 1⟩, cascade := fun _ => ⟨1, 1⟩ } }

private def tmpW : Bytes → List (Nat × Q) := fun _ => [(0, ⟨1, 2⟩)]

/-- **the full duplicate-freeness of SearchWithNLP fails** on the branch without shared searcher: entry 0 is
    returned twice (once by the temporary searcher, once by the fallback search). -/
theorem search_with_nlp_duplicate :
    ∃ r, searchWithNLP idQ TW tmpW dbL (bs "tar") { oL with useNLP := true, limit := 5 } = .ok r ∧
      (r.map (·.1)).Perm [0, 0] ∧ ¬ (r.map (·.1)).Nodup := by
  -- the list before the final stable sort, evaluated by the kernel: entry 0 from the temporary searcher, entry 0 from the fallback
  have hu : ((nlpTemporaryUnsorted idQ TW tmpW dbL (bs "tar") { oL with useNLP := true, limit := 5 } 5).toOption.map
      (fun l => (l.map (·.1), decide (l.length ≤ 5)))) = some ([0, 0], true) := by decide +kernel
  have he : searchWithNLP idQ TW tmpW dbL (bs "tar") { oL with useNLP := true, limit := 5 } =
      nlpTemporary idQ TW tmpW dbL (bs "tar") { oL with useNLP := true, limit := 5 } 5 := rfl
  rw [he, nlpTemporary_eq]
  cases hl : nlpTemporaryUnsorted idQ TW tmpW dbL (bs "tar") { oL with useNLP := true, limit := 5 } 5 with
  | error e => rw [hl] at hu; simp [Except.toOption] at hu
  | ok l =>
    rw [hl] at hu
    simp only [Except.toOption, Option.map_some, Option.some.injEq, Prod.mk.injEq, decide_eq_true_eq] at hu
    have hp := ids_perm_of_short l 5 hu.2
    rw [hu.1] at hp
    exact ⟨_, rfl, hp, fun hn => by have := hp.nodup_iff.mp hn; simp at this⟩

-- SearchWithOptions: "zip" finds the command `zip` (exact command match, category factor 3, direct-match bonus)
example : (searchWithOptions idQ {} (bs "linux") dbL (bs "zip") 0 []).map (·.1) = [2] := by decide +kernel
-- … the host gate drops the windows-only `ipconfig`, keeps the windows-tagged cross-platform tool `git` (penalised)
example : (searchWithOptions idQ {} (bs "linux") dbL (bs "show") 0 []).map (·.1) = [4] := by decide +kernel
-- pipeline search: only the pipeline command survives `PipelineOnly`
example : (searchPipeline idQ {} dbL (bs "show") { oL with pipelineOnly := true }).map (·.1) = [4] := by decide +kernel
-- a negative boost makes the only candidate's score negative: nothing is returned
example : searchWithOptions idQ {} (bs "linux") dbL (bs "tar") 0 [(bs "tar", ⟨-1, 1⟩)] = [] := by decide +kernel
-- SearchWithFuzzy, typo query: the exact half finds nothing, the typo half finds `zip things`
example : ((searchWithFuzzy idQ Example.tuning dbL (bs "zp thngs") { oL with useFuzzy := true }).toOption.map (·.map (·.1))) = some [2] := by
  decide +kernel
-- GetSuggestions: candidates are sorted words of more than two bytes that are not common words
example : suggestionWords {} dbL = [bs "/all", bs "adapters", bs "archive", bs "git", bs "head", bs "history", bs "ipconfig",
    bs "list", bs "log", bs "show", bs "tar", bs "things", bs "zip"] := by decide +kernel
example : (getSuggestions Example.tuning dbL (bs "histry") 3).toOption = some [bs "history"] := by decide +kernel

end examples

/-! non-vacuity of `universal_modelled` (S := ℚ): a concrete idf, a real stable sort, the TF-IDF model over a crude
    integer square root and a constant log table - its hypotheses are satisfiable and the search it speaks about returns
    something -/
section examples_modelled_end_to_end

local instance : ScoreOps ℚ := fieldScoreOps ℚ
local instance : ScoreLaws ℚ := fieldScoreLaws ℚ

private def dbE : Db := [Example.mk "ls -la" "list files" [], Example.mk "tar czf x" "compress directory" [],
  Example.mk "cat x | grep y" "search text" [] true]
private def idfE : Nat → Nat → ℚ := fun n df => if df ≤ n then ((n - df : Nat) + 1 : ℚ) / ((df : ℚ) + 1) else 0
private def sortE : List (Nat × Int) → List (Nat × Int) := fun ms => ms.mergeSort (fun a b => decide (a.2 ≥ b.2))
private def idxE : Tfidf.Index ℚ := Tfidf.build {} (fun _ _ => 1) (fun x => x) dbE
private def TE : Tuning ℚ := modelledTuning idfE (Filters.bs "linux") {} (fun q => q) sortE (fun x => x) (1 / 100) (some idxE) dbE

private theorem hidfE : ∀ n df, df ≤ n → ScoreOps.lt (idfE n df) (ScoreOps.zero : ℚ) = false := by
  intro n df h
  show decide (idfE n df < 0) = false
  simp only [idfE, h, ↓reduceIte, decide_eq_false_iff_not, not_lt]
  positivity

private theorem hsortE : ∀ ms, (sortE ms).Perm ms ∧ (sortE ms).Pairwise (fun a b => a.2 ≥ b.2) := by
  intro ms
  refine ⟨List.mergeSort_perm _ _, ?_⟩
  have := List.pairwise_mergeSort (le := fun (a b : Nat × Int) => decide (a.2 ≥ b.2))
    (by intro a b c h1 h2; simp only [decide_eq_true_eq] at *; omega)
    (by intro a b; simp only [Bool.or_eq_true, decide_eq_true_eq]; omega) ms
  exact this.imp (by intro a b h; simpa using h)

example : ∀ q o r, search TE dbE q o = .ok r →
    r.length ≤ effLimit o ∧ (∀ x ∈ r, x.1 < dbE.length) ∧ (r.map (·.1)).Nodup ∧ (∀ x ∈ r, Nonneg x.2) :=
  fun q o r h =>
    let p := universal_modelled idfE (Filters.bs "linux") {} (fun q => q) sortE (fun x => x) (1 / 100) (some idxE) dbE hidfE hsortE
      (by show decide ((1 / 100 : ℚ) < 0) = false; simp) q o r h
    ⟨p.1, p.2.1, p.2.2.1, p.2.2.2.2⟩

end examples_modelled_end_to_end

end Wtf.C01
