import WtfModel.Props.C12
import WtfModel.Proofs.LruCode
/-
  C12 (also the LRU layer under C05 and C11) — the model these theorems are about is the source's control flow.

  `Gen/LruCode.lean` holds the bodies of Get, Put, Delete, Clear, CleanupExpired, Size and evictOldest of
  internal/cache/lru_cache.go, translated statement by statement on every run into the statement language of
  `Model/LruProg.lean` (xlate/x_lrucode.go; the translator also asserts the body of removeElement and that no other method
  stores to the cache's fields).  Running the translated programs is the hand-written model, for every state, time and
  argument (`step_regenerated`), hence for every history (`run_regenerated`), hence every C12 theorem speaks about the
  translated programs (`bounded_regenerated` spells one out).  Stats and Keys only read fields and stay as written.
-/
namespace Wtf.C12
open Wtf.Lru Wtf.LruProg

variable {κ ν : Type} [DecidableEq κ]

/-- one operation, executed by the translated method body -/
def stepGen (s : State κ ν) (now : Int) : Op κ ν → State κ ν × Out κ ν
  | .get k => call Gen.LruCode.get s { now := now, key := some k }
  | .put k v => call Gen.LruCode.put s { now := now, key := some k, value := some v }
  | .delete k => call Gen.LruCode.delete s { now := now, key := some k }
  | .clear => call Gen.LruCode.clear s { now := now }
  | .cleanup => call Gen.LruCode.cleanupExpired s { now := now }
  | .size => call Gen.LruCode.size s { now := now }
  | .stats => (s, .stats s.hits s.misses s.evictions s.entries.length s.cap)
  | .keys => (s, .keys (s.entries.map (·.key)))

def runGen (s : State κ ν) : List (Int × Op κ ν) → State κ ν × List (Out κ ν)
  | [] => (s, [])
  | (now, op) :: rest =>
    let r := stepGen s now op
    let r' := runGen r.1 rest
    (r'.1, r.2 :: r'.2)

/-- every operation of the model is the translated method body, run on the same state -/
theorem step_regenerated (s : State κ ν) (now : Int) (op : Op κ ν) : stepGen s now op = Lru.step s now op := by
  have h := LruProg.step_regenerated s now
  cases op with
  | get k => exact (h.1 k).symm
  | put k v => exact (h.2.1 k v).symm
  | delete k => exact (h.2.2.1 k).symm
  | clear => exact h.2.2.2.1.symm
  | cleanup => exact h.2.2.2.2.1.symm
  | size => exact h.2.2.2.2.2.symm
  | stats => rfl
  | keys => rfl

/-- … hence every history -/
theorem run_regenerated (s : State κ ν) (hist : List (Int × Op κ ν)) : runGen s hist = Lru.run s hist := by
  induction hist generalizing s with
  | nil => rfl
  | cons x rest ih =>
    obtain ⟨now, op⟩ := x
    simp only [runGen, Lru.run, step_regenerated, ih]

/-- the translated body of evictOldest is what the call statement in Put means -/
theorem evictOldest_regenerated (s : State κ ν) (now : Int) :
    (call Gen.LruCode.evictOldest s ({ now := now } : Args κ ν)).1 = evictOldestSem s := LruProg.evictOldest_eq s now

/-- `bounded`, stated about the translated programs: after any history executed by them the cache holds at most its
    capacity and no key twice -/
theorem bounded_regenerated (cap ttl : Int) (hist : List (Int × Op κ ν)) :
    let s := (runGen (init D cap ttl : State κ ν) hist).1
    s.cap = effCap D cap ∧ 0 < s.cap ∧ s.entries.length ≤ s.cap ∧ (s.entries.map (·.key)).Nodup := by
  rw [run_regenerated]
  exact bounded cap ttl hist

/-- non-vacuity: the translated Put on a full cache of capacity 1 evicts -/
example : (runGen (init D 1 0 : State Nat Nat) [(0, .put 1 10), (1, .put 2 20), (2, .size)]).2 = [.unit, .unit, .nat 1] := by
  rfl

end Wtf.C12
