import WtfModel.Proofs.AtomicWrite
import WtfModel.Gen.AtomicWrite

/-!
  C09 — an interrupted or failed write never damages the notebook or the history.

  Property theorems only.  They are stated over the program REGENERATED from the body of
  utils.WriteFileAtomic (`Gen.AtomicWrite.writeFileAtomic`), for every file system, every new content,
  every target path `p` and every temp path `t ≠ p`, and over `outcomes`: every way a run can end
  (killed before / inside / after any call - inside a write at ANY byte offset -, any call failing after
  any short write, clean-up calls killed or failing).

  Outside the model (assumed of the kernel): a failed or killed `write` leaves a prefix of its data;
  every other call is all-or-nothing; `rename` within one directory is atomic.  Durability across power
  loss (directory fsync) is not claimed.
-/
namespace Wtf.C09
open Wtf.AtomicWrite

set_option linter.unusedSectionVars false
variable {π : Type} [DecidableEq π]

abbrev genProg (t p : π) (new : Bytes) : Prog π := instantiate Wtf.Gen.AtomicWrite.writeFileAtomic t p new

/-- The code has the shape the theorems are about: CreateTemp → Write → Chmod → Sync → Close → Rename,
    every error tested, Close+Remove (then Remove alone) on the error paths. -/
theorem shape (t p : π) (new : Bytes) : genProg t p new = atomicProg t p new := rfl

/-- Both writers go through WriteFileAtomic and make no direct write; the temp file lives in the
    target's directory (so the rename stays inside one file system). -/
theorem call_sites :
    Wtf.Gen.AtomicWrite.notebookUsesAtomic = true ∧ Wtf.Gen.AtomicWrite.notebookDirectWrites = [] ∧
    Wtf.Gen.AtomicWrite.historyUsesAtomic = true ∧ Wtf.Gen.AtomicWrite.historyDirectWrites = [] ∧
    Wtf.Gen.AtomicWrite.tempInTargetDir = true := by decide

/-! splitting the program: everything before the rename avoids `p` -/

private def pre (t : π) (new : Bytes) : Prog π :=
  [ ⟨.createTemp t, true, []⟩,
    ⟨.write t new, true, [.close t, .unlink t]⟩,
    ⟨.chmod t, true, [.close t, .unlink t]⟩,
    ⟨.fsync t, true, [.close t, .unlink t]⟩,
    ⟨.close t, true, [.unlink t]⟩ ]

private def last (t p : π) : Prog π := [ ⟨.rename t p, true, [.unlink t]⟩ ]

private theorem split (t p : π) (new : Bytes) : atomicProg t p new = pre t new ++ last t p := rfl

private theorem pre_checked (t : π) (new : Bytes) : AllChecked (pre t new) := by
  intro s hs; simp [pre] at hs; rcases hs with rfl | rfl | rfl | rfl | rfl <;> rfl

private theorem pre_avoids (t q : π) (new : Bytes) (h : t ≠ q) : Avoids q (pre t new) := by
  intro s hs; simp [pre] at hs
  rcases hs with rfl | rfl | rfl | rfl | rfl <;> simp [touches, h]

private theorem pre_run_t (fs : Fs π) (t : π) (new : Bytes) :
    read (runAll fs ((pre t new).map (·.op))) t = some new := by
  simp [pre, runAll, apply, read_put_same]

private theorem pre_run_frame (fs : Fs π) (t q : π) (new : Bytes) (h : t ≠ q) :
    read (runAll fs ((pre t new).map (·.op))) q = read fs q := by
  simp [pre, runAll, apply, read_put_same, read_put_ne _ _ h]

/-- what a run of the last step (the rename) can end in, from a state where the temp holds `new` -/
private theorem last_cases (f : Fs π) (t p : π) (new : Bytes) (h : t ≠ p) (ht : read f t = some new)
    (r : Result π) (hr : r ∈ outcomes f false (last t p)) :
    (read r.fs p = read f p ∧ r.out ≠ .success) ∨
    (read r.fs p = some new ∧ r.out = .success ∧ r.failed = false ∧ read r.fs t = none) := by
  simp only [last, outcomes, partials, failStates, List.map_nil, List.nil_append, List.flatMap_cons,
    List.flatMap_nil, List.append_nil, ↓reduceIte, List.mem_cons, List.mem_append] at hr
  rcases hr with rfl | hr | rfl | hr
  · left; simp
  · left
    have := cleanupRuns_spec p [.unlink t] f (by simp [touches, h]) r hr
    exact ⟨this.1, this.2.1⟩
  · right
    have hpt : p ≠ t := fun e => h e.symm
    simp [apply, ht, read_put_same, read_put_ne _ _ hpt, read_remove_same]
  · simp at hr

/-- **Atomicity.**  However the run ends, the target holds its complete previous content (or is still
    missing) or the complete new content. -/
theorem atomic (fs : Fs π) (t p : π) (new : Bytes) (h : t ≠ p) :
    ∀ r ∈ outcomes fs false (genProg t p new), read r.fs p = read fs p ∨ read r.fs p = some new := by
  intro r hr
  rw [shape, split] at hr
  rcases mem_outcomes_append _ _ fs false (pre_checked t new) r hr with ⟨h1, _⟩ | h2
  · left; exact outcomes_frame p _ fs false (pre_avoids t p new h) r h1
  · rcases last_cases _ t p new h (pre_run_t fs t new) r h2 with ⟨h3, _⟩ | ⟨h3, _⟩
    · left; rw [h3, pre_run_frame fs t p new h]
    · right; exact h3

/-- The same for the kill-only reading of the call sequence (the form the strace-derived check uses):
    stopping before/after any call or inside the write at any byte offset. -/
theorem atomic_crash (fs : Fs π) (t p : π) (new : Bytes) (h : t ≠ p) :
    ∀ f ∈ crashStates fs ((genProg t p new).map (·.op)), read f p = read fs p ∨ read f p = some new := by
  intro f hf
  obtain ⟨r, hr, rfl⟩ := crashStates_sub_outcomes _ fs false f hf
  exact atomic fs t p new h r hr

/-- **The program shape matters.**  For the in-place program (open with O_TRUNC, write, close - what
    os.WriteFile does) there are cut points after which the file is neither old nor new: killed inside
    the write, and also when the write *fails* and the error is duly reported. -/
theorem inplace_unsafe :
    ∃ (fs : Fs Nat) (new : Bytes) (r : Result Nat), r ∈ outcomes fs false (inplaceProg 0 new) ∧
      r.out = .killed ∧ read r.fs 0 ≠ read fs 0 ∧ read r.fs 0 ≠ some new :=
  ⟨[(0, [1, 2])], [3, 4], ⟨[(0, [3])], .killed, false⟩, by decide⟩

theorem inplace_unsafe_reported :
    ∃ (fs : Fs Nat) (new : Bytes) (r : Result Nat), r ∈ outcomes fs false (inplaceProg 0 new) ∧
      r.out = .reportedError ∧ read r.fs 0 ≠ read fs 0 ∧ read r.fs 0 ≠ some new :=
  ⟨[(0, [1, 2])], [3, 4], ⟨[(0, [3])], .reportedError, true⟩, by decide⟩

/-- **Failure is reported, and then nothing changed.**  A run in which some call failed never ends in
    success (it ends in `reportedError`, or the process was killed during clean-up), and the target is
    exactly what it was. -/
theorem reports (fs : Fs π) (t p : π) (new : Bytes) (h : t ≠ p) :
    ∀ r ∈ outcomes fs false (genProg t p new), r.failed = true →
      r.out ≠ .success ∧ read r.fs p = read fs p := by
  intro r hr hf
  rw [shape, split] at hr
  rcases mem_outcomes_append _ _ fs false (pre_checked t new) r hr with ⟨h1, h1'⟩ | h2
  · exact ⟨h1', outcomes_frame p _ fs false (pre_avoids t p new h) r h1⟩
  · rcases last_cases _ t p new h (pre_run_t fs t new) r h2 with ⟨h3, h4⟩ | ⟨_, _, h5, _⟩
    · exact ⟨h4, by rw [h3, pre_run_frame fs t p new h]⟩
    · rw [h5] at hf; exact absurd hf (by simp)

/-- an error is reported only when the target is untouched -/
theorem reported_error_means_unchanged (fs : Fs π) (t p : π) (new : Bytes) (h : t ≠ p) :
    ∀ r ∈ outcomes fs false (genProg t p new), r.out = .reportedError → read r.fs p = read fs p := by
  intro r hr ho
  rw [shape, split] at hr
  rcases mem_outcomes_append _ _ fs false (pre_checked t new) r hr with ⟨h1, _⟩ | h2
  · exact outcomes_frame p _ fs false (pre_avoids t p new h) r h1
  · rcases last_cases _ t p new h (pre_run_t fs t new) r h2 with ⟨h3, _⟩ | ⟨_, h4, _⟩
    · rw [h3, pre_run_frame fs t p new h]
    · rw [h4] at ho; exact absurd ho (by simp)

/-- **No success without effect.**  If the run went on to report success, the target holds the complete
    new content and no call failed. -/
theorem no_success_without_effect (fs : Fs π) (t p : π) (new : Bytes) (h : t ≠ p) :
    ∀ r ∈ outcomes fs false (genProg t p new), r.out = .success →
      read r.fs p = some new ∧ r.failed = false := by
  intro r hr ho
  rw [shape, split] at hr
  rcases mem_outcomes_append _ _ fs false (pre_checked t new) r hr with ⟨_, h1⟩ | h2
  · exact absurd ho h1
  · rcases last_cases _ t p new h (pre_run_t fs t new) r h2 with ⟨_, h4⟩ | ⟨h3, _, h5, _⟩
    · exact absurd ho h4
    · exact ⟨h3, h5⟩

/-- **Everything saved earlier stays loadable.**  `loads` is any predicate on file contents (the YAML /
    JSON decoder succeeding and yielding the earlier entries): if the previous content and the new
    content satisfy it, so does the content after any outcome.  (A target that was missing stays missing
    or becomes the new content; loaders treat a missing file as empty.) -/
theorem earlier_loadable (loads : Bytes → Prop) (fs : Fs π) (t p : π) (new : Bytes) (h : t ≠ p)
    (hold : ∀ old, read fs p = some old → loads old) (hnew : loads new) :
    ∀ r ∈ outcomes fs false (genProg t p new),
      (read fs p = none → read r.fs p = none ∨ read r.fs p = some new) ∧
      (∀ b, read r.fs p = some b → loads b) := by
  intro r hr
  rcases atomic fs t p new h r hr with h1 | h1
  · exact ⟨fun hn => Or.inl (by rw [h1, hn]), fun b hb => hold b (by rw [← h1, hb])⟩
  · exact ⟨fun _ => Or.inr h1, fun b hb => by rw [h1] at hb; cases hb; exact hnew⟩

/-- **What may be left behind.**  Nothing but the target and the temp file is ever touched; after a
    reported success the temp name is gone.  (After a kill, or when the clean-up's own unlink fails, a
    stray temp file with a prefix of the data can remain - `temp_garbage_possible`.) -/
theorem temp_left_behind (fs : Fs π) (t p : π) (new : Bytes) (h : t ≠ p) :
    ∀ r ∈ outcomes fs false (genProg t p new),
      (∀ q, q ≠ t → q ≠ p → read r.fs q = read fs q) ∧ (r.out = .success → read r.fs t = none) := by
  intro r hr
  constructor
  · intro q hqt hqp
    have hav : Avoids q (atomicProg t p new) := by
      intro s hs; simp [atomicProg] at hs
      have h1 : t ≠ q := fun e => hqt e.symm
      have h2 : p ≠ q := fun e => hqp e.symm
      rcases hs with rfl | rfl | rfl | rfl | rfl | rfl <;> simp [touches, h1, h2]
    rw [shape] at hr
    exact outcomes_frame q _ fs false hav r hr
  · intro ho
    rw [shape, split] at hr
    rcases mem_outcomes_append _ _ fs false (pre_checked t new) r hr with ⟨_, h1⟩ | h2
    · exact absurd ho h1
    · rcases last_cases _ t p new h (pre_run_t fs t new) r h2 with ⟨_, h4⟩ | ⟨_, _, _, h6⟩
      · exact absurd ho h4
      · exact h6

theorem temp_garbage_possible :
    ∃ (fs : Fs Nat) (new : Bytes) (r : Result Nat), r ∈ outcomes fs false (genProg 1 0 new) ∧
      r.out = .killed ∧ read fs 1 = none ∧ read r.fs 1 = some [3] :=
  ⟨[(0, [1, 2])], [3, 4], ⟨[(1, [3]), (0, [1, 2])], .killed, false⟩, by decide⟩

/-- The temp file never has the target's name: its name is the target's base name followed by the
    regenerated, non-empty infix and the random part. -/
theorem temp_name_ne_target (base rnd : List Char) :
    base ++ Wtf.Gen.AtomicWrite.tempInfix.toList ++ rnd ≠ base := by
  intro h
  have hl := congrArg List.length h
  have : 0 < Wtf.Gen.AtomicWrite.tempInfix.toList.length := by decide
  simp only [List.length_append] at hl
  omega

/-! ### Non-vacuity: the outcome set is rich, and both alternatives of `atomic` occur -/

example : (outcomes ([(0, [1, 2])] : Fs Nat) false (genProg 1 0 [3, 4])).length = 52 := by decide

/-- old content survives a kill inside the write (temp holds a prefix) -/
example : (⟨[(1, [3]), (0, [1, 2])], .killed, false⟩ : Result Nat) ∈ outcomes [(0, [1, 2])] false (genProg 1 0 [3, 4]) := by decide
/-- the successful run installs the new content and removes the temp name -/
example : (⟨[(0, [3, 4])], .success, false⟩ : Result Nat) ∈ outcomes [(0, [1, 2])] false (genProg 1 0 [3, 4]) := by decide
/-- a failed write is reported and cleaned up -/
example : (⟨[(0, [1, 2])], .reportedError, true⟩ : Result Nat) ∈ outcomes [(0, [1, 2])] false (genProg 1 0 [3, 4]) := by decide
/-- a missing target stays missing when the rename fails -/
example : ∃ r ∈ outcomes ([] : Fs Nat) false (genProg 1 0 [3, 4]), r.out = .reportedError ∧ read r.fs 0 = none := by decide
/-- the planned-fault run used by the correspondence is one of the outcomes -/
example (fs : Fs π) (t p : π) (new : Bytes) (i k : Nat) (hk : PlanOk (genProg t p new) i k) :
    runPlan fs false (genProg t p new) (some (i, k)) ∈ outcomes fs false (genProg t p new) :=
  runPlan_mem _ fs false i k hk

end Wtf.C09
