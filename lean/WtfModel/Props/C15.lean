import WtfModel.Proofs.RetryStored

/-!
  C15 — loading always ends with a usable database, without futile retries.

  Property theorems only.  The statements named without suffix are about `Retry.recover raw f backup`,
  the model of `recovery.NewDatabaseRecovery(raw).LoadDatabaseWithFallback(main, personal)`, and quantify
  over EVERY retry configuration `raw : RawCfg` (attempts, base delay, cap: any integers; factor: any
  rational, ±Inf or NaN), every state of the backup file, and either every pair of (main, notebook) file
  states (`static`) or every *sequence* of load attempts `f : Nat → Attempt` (which covers files that change
  between attempts).  No hypothesis on the configuration is needed since NewDatabaseRecovery sanitises it
  (`Retry.sanitize`, shape asserted by the translator).

  The decision table of NewDatabaseErrorWithContext, the predicates and types used by shouldRetry, the
  order of the fallback ladder, the embedded / minimal command lists and DefaultRetryConfig are
  regenerated from /repo into `Gen.Recovery` on every run; the theorems are re-checked against them.

  The `unsanitised_*` theorems at the end are about the step functions applied to a configuration that
  did NOT pass through `sanitize`: they record why each clamp is needed.

  Assumptions of the model (not of the theorems): the database paths do not themselves contain one of the
  decision table's needles; float64 rounding in calculateDelay is not modelled (ℚ, then truncation; overflow
  of the power to +Inf is modelled at the threshold 2^1024).
-/
namespace Wtf.C15
open Wtf.Retry Wtf.Gen

/-! ### regenerated data -/

theorem embedded_nonempty : Recovery.embeddedCommands ≠ [] := by decide

theorem minimal_nonempty : Recovery.minimalCommands ≠ [] := by decide

/-- `DefaultRetryConfig()` (what the CLI uses) is left untouched by the sanitisation -/
theorem default_config_ok :
    defaultCfg.maxAttempts = defaultRaw.maxAttempts ∧ defaultCfg.base = defaultRaw.base ∧
    defaultCfg.max = defaultRaw.max ∧ RawFactor.fin (match defaultCfg.factor with | .fin q => q | .posInf => 0) = defaultRaw.factor := by
  decide

/-- a sensible configuration is honoured as given -/
theorem sanitize_keeps_sane (raw : RawCfg) (q : Rat) (h1 : 1 ≤ raw.maxAttempts) (h2 : 0 ≤ raw.base) (h3 : 0 ≤ raw.max)
    (h4 : raw.factor = .fin q) (h5 : 1 ≤ q) :
    sanitize raw = { maxAttempts := raw.maxAttempts, base := raw.base, max := raw.max, factor := .fin q } := by
  have a : ¬ raw.maxAttempts < 1 := by omega
  have b : ¬ raw.base < 0 := by omega
  have c : ¬ raw.max < 0 := by omega
  simp [sanitize, a, b, c, h4, h5]

/-- every stored configuration permits an attempt and has non-negative, non-shrinking waits -/
theorem sanitize_sane (raw : RawCfg) : (sanitize raw).Sane := Retry.sanitize_sane raw

/-- whatever the backup file looks like, the ladder stops at a built-in, non-empty database -/
theorem fallback_builtin (backup : FileState) :
    ∃ c db, climb backup Recovery.ladder = some (c, db) ∧ db ≠ [] ∧
      ((c = .embedded ∧ db = Recovery.embeddedCommands) ∨ (c = .minimal ∧ db = Recovery.minimalCommands)) :=
  Stored.fallback_builtin backup

/-! ### "ends with a searchable database and no error" -/

/-- For EVERY configuration, every sequence of load attempts and every backup state: no error, a
    database, and it is either what a load attempt returned (`real`) or a non-empty built-in list. -/
theorem total (raw : RawCfg) (f : Nat → Attempt) (backup : FileState) :
    let r := recover raw f backup
    r.err = none ∧ ∃ db, r.db = some db ∧
      ((r.cls = .real ∧ f r.attempts = .ok db) ∨
       (db ≠ [] ∧ ((r.cls = .embedded ∧ db = Recovery.embeddedCommands) ∨ (r.cls = .minimal ∧ db = Recovery.minimalCommands)))) :=
  Stored.total (sanitize raw) (sanitize_sane raw).1 f backup

/-! ### "the real one whenever the main file loads and the notebook loads or is merely absent,
        a built-in fallback otherwise" -/

/-- main file loads, notebook loads: main entries followed by notebook entries, first attempt -/
theorem real (raw : RawCfg) (m p : List Cmd) (backup : FileState) :
    let r := recover raw (static (.good m) (.good p)) backup
    r.cls = .real ∧ r.db = some (m ++ p) ∧ r.err = none ∧ r.attempts = 1 ∧ r.delays = [] :=
  Stored.real (sanitize raw) (sanitize_sane raw).1 m p backup

/-- main file loads, notebook absent: the main entries, first attempt -/
theorem real_notebook_absent (raw : RawCfg) (m : List Cmd) (backup : FileState) :
    let r := recover raw (static (.good m) .missing) backup
    r.cls = .real ∧ r.db = some m ∧ r.err = none ∧ r.attempts = 1 ∧ r.delays = [] :=
  Stored.real_notebook_absent (sanitize raw) (sanitize_sane raw).1 m backup

/-- … and in no other case: if the answer is the real database then the main file loaded and the
    notebook loaded or was absent (so every other fault combination ends in the built-in fallback). -/
theorem real_only_if (raw : RawCfg) (main personal backup : FileState) :
    let r := recover raw (static main personal) backup
    r.cls = .real →
      ∃ m, main = .good m ∧ ((∃ p, personal = .good p ∧ r.db = some (m ++ p)) ∨ (personal = .missing ∧ r.db = some m)) :=
  Stored.real_only_if (sanitize raw) (sanitize_sane raw).1 main personal backup

/-! ### "a missing or permission-denied file is tried once" -/

/-- main file missing or unreadable: one attempt, no sleep, built-in fallback — whatever the notebook -/
theorem once (raw : RawCfg) (main personal backup : FileState) (h : main.hopeless) :
    let r := recover raw (static main personal) backup
    r.attempts = 1 ∧ r.delays = [] ∧ r.cls ≠ .real ∧ r.err = none :=
  Stored.once (sanitize raw) (sanitize_sane raw).1 main personal backup h

/-- the notebook beside a good main file: missing is tolerated (`real_notebook_absent`);
    permission-denied is an error that is not retried either -/
theorem once_notebook_denied (raw : RawCfg) (m : List Cmd) (backup : FileState) :
    let r := recover raw (static (.good m) .denied) backup
    r.attempts = 1 ∧ r.delays = [] ∧ r.cls ≠ .real ∧ r.err = none :=
  Stored.once_notebook_denied (sanitize raw) (sanitize_sane raw).1 m backup

/-! ### "any other failure at most the configured number of times" -/

/-- the number of attempts permitted: the configured one, or 1 if that is not positive -/
def permitted (raw : RawCfg) : Nat := if raw.maxAttempts < 1 then 1 else raw.maxAttempts.toNat

theorem permitted_eq (raw : RawCfg) : (sanitize raw).maxAttempts.toNat = permitted raw := by
  simp only [sanitize, permitted]; split <;> simp

/-- at least one and never more attempts than configured — every sequence of attempts, every configuration -/
theorem at_most (raw : RawCfg) (f : Nat → Attempt) (backup : FileState) :
    1 ≤ (recover raw f backup).attempts ∧ (recover raw f backup).attempts ≤ permitted raw := by
  rw [← permitted_eq]
  refine ⟨?_, Stored.at_most (sanitize raw) f backup⟩
  have h1 := (sanitize_sane raw).1
  obtain ⟨k, hk⟩ : ∃ k, (sanitize raw).maxAttempts.toNat = k + 1 := ⟨(sanitize raw).maxAttempts.toNat - 1, by omega⟩
  have := retryLoop_attempts_ge (sanitize raw) f k 1 none
  have key : (recover raw f backup).attempts = (loadWithRetry (sanitize raw) f).attempts := by
    simp only [recover, loadWithFallback]
    split <;> (try split) <;> simp
  rw [key]; simp only [loadWithRetry, hk]; exact this

/-- a directory, a malformed file or any other read error (main file, or notebook beside a good main
    file) that persists is tried exactly the permitted number of times -/
theorem exactly_max (raw : RawCfg) (main personal backup : FileState)
    (h : main.retryable ∨ (∃ m, main = .good m) ∧ personal.retryable) :
    (recover raw (static main personal) backup).attempts = permitted raw := by
  rw [← permitted_eq]; exact Stored.exactly_max (sanitize raw) main personal backup h

/-! ### "with waits that never decrease and never exceed the configured maximum" -/

/-- For EVERY configuration: the sleeps are exactly calculateDelay(1), …, calculateDelay(attempts−1);
    they never decrease, are never negative and never exceed the configured maximum (0 if that is negative). -/
theorem delays (raw : RawCfg) (f : Nat → Attempt) (backup : FileState) :
    let r := recover raw f backup
    r.delays = (List.range' 1 (r.attempts - 1)).map (delayNs (sanitize raw)) ∧
    r.delays.Pairwise (· ≤ ·) ∧ (∀ d ∈ r.delays, 0 ≤ d ∧ d ≤ max raw.max 0) ∧ r.delays.length = r.attempts - 1 := by
  intro r
  obtain ⟨h1, h2, h3⟩ := Stored.delays (sanitize raw) (sanitize_sane raw) f backup
  refine ⟨(Stored.delays_exact (sanitize raw) f backup).1, h1, ?_, h3⟩
  intro d hd
  have := h2 d hd
  have hm : (sanitize raw).max = max raw.max 0 := by
    simp only [sanitize]; split <;> omega
  rw [← hm]; exact this

/-! ### transient faults -/

/-- The files are broken in a retryable way for the first `k` attempts (`k` below the permitted number)
    and fine at attempt `k+1`: the real database is returned after exactly `k+1` attempts and `k` sleeps. -/
theorem transient (raw : RawCfg) (k : Nat) (hk : k < permitted raw)
    (mainAt personalAt : Nat → FileState) (m p : List Cmd) (backup : FileState)
    (hbad : ∀ n, 1 ≤ n → n ≤ k → (mainAt n).retryable ∨ (∃ m', mainAt n = .good m') ∧ (personalAt n).retryable)
    (hgood : mainAt (k + 1) = .good m)
    (hp : personalAt (k + 1) = .good p ∨ (personalAt (k + 1) = .missing ∧ p = [])) :
    let r := recover raw (dynamic mainAt personalAt) backup
    r.cls = .real ∧ r.db = some (m ++ p) ∧ r.err = none ∧ r.attempts = k + 1 ∧ r.delays.length = k := by
  have h1 := (sanitize_sane raw).1
  have := permitted_eq raw
  exact Stored.transient (sanitize raw) k (by omega) mainAt personalAt m p backup hbad hgood hp

/-! ### why the clamps in NewDatabaseRecovery are needed: the step functions on a configuration that
        did not pass through `sanitize` -/

/-- `MaxAttempts ≤ 0` stored unsanitised: no attempt is made and the caller receives a nil database with
    a nil error. -/
theorem unsanitised_nonpositive_max_attempts (cfg : Cfg) (h : cfg.maxAttempts ≤ 0) (f : Nat → Attempt) (backup : FileState) :
    let r := loadWithFallback cfg f backup
    r.db = none ∧ r.err = none ∧ r.attempts = 0 ∧ r.cls = .nildb := by
  have : cfg.maxAttempts.toNat = 0 := by omega
  simp [loadWithFallback, loadWithRetry, this, retryLoop]

/-- `BackoffFactor < 1` stored unsanitised (base, cap ≥ 0): the waits decrease -/
theorem unsanitised_factor_below_one :
    ∃ cfg : Cfg, 0 ≤ cfg.base ∧ 0 ≤ cfg.max ∧ cfg.factor = .fin (mkRat 1 2) ∧ 1 ≤ cfg.maxAttempts ∧
      (loadWithFallback cfg (static .malformed .missing) .missing).delays = [1000, 500] :=
  ⟨{ maxAttempts := 3, base := 1000, max := 5000, factor := .fin (mkRat 1 2) }, by decide, by decide, rfl, by decide, by decide +kernel⟩

/-- `BaseDelay < 0` stored unsanitised (factor ≥ 1): the (negative) waits decrease -/
theorem unsanitised_negative_base :
    ∃ cfg : Cfg, cfg.base < 0 ∧ 0 ≤ cfg.max ∧ cfg.factor = .fin 2 ∧ 1 ≤ cfg.maxAttempts ∧
      (loadWithFallback cfg (static .malformed .missing) .missing).delays = [-1000, -2000] :=
  ⟨{ maxAttempts := 3, base := -1000, max := 5000, factor := .fin 2 }, by decide, by decide, rfl, by decide, by decide +kernel⟩

/-- the same three configurations through NewDatabaseRecovery: one attempt at least, waits 1000, 1000 / 0, 0 -/
theorem sanitised_examples :
    (recover { maxAttempts := 0, base := 0, max := 0, factor := .nan } (static .malformed .missing) .missing).attempts = 1 ∧
    (recover { maxAttempts := 3, base := 1000, max := 5000, factor := .fin (mkRat 1 2) } (static .malformed .missing) .missing).delays = [1000, 1000] ∧
    (recover { maxAttempts := 3, base := -1000, max := 5000, factor := .fin 2 } (static .malformed .missing) .missing).delays = [0, 0] ∧
    -- zero base delay with a factor whose square overflows float64: 0, then the cap (NaN guard)
    (recover { maxAttempts := 4, base := 0, max := 3000, factor := .fin (10 ^ 200) } (static .malformed .missing) .missing).delays = [0, 0, 3000] := by
  refine ⟨by decide +kernel, by decide +kernel, by decide +kernel, by decide +kernel⟩

/-! ### non-vacuity -/

/-- the default configuration on a malformed main file: three attempts, waits 100 ms and 200 ms,
    the embedded database, no error -/
example :
    let r := recover defaultRaw (static .malformed (.good ["x"])) (.good ["b"])
    r.attempts = 3 ∧ r.delays = [100000000, 200000000] ∧ r.cls = .embedded ∧ r.err = none ∧
      r.db = some Recovery.embeddedCommands := by decide +kernel

/-- a missing main file under the default configuration: one attempt -/
example : (recover defaultRaw (static .missing .missing) .missing).attempts = 1 := by decide +kernel

/-- hypotheses of `transient` are satisfiable: malformed once, then good -/
example :
    (recover defaultRaw (dynamic (fun n => if n ≤ 1 then .malformed else .good ["a"]) (fun _ => .good ["n"])) .missing).db
      = some ["a", "n"] := by decide +kernel

end Wtf.C15
