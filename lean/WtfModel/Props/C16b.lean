import WtfModel.Props.C16
import WtfModel.Proofs.HistoryJsonLaws

/-!
  C16, second part — the save / load clauses WITHOUT an assumption about the codec.

  `Props/C16.lean` states "saving and loading gives back the same entries" over an abstract codec that
  satisfies `Codec.LawsOn`.  Here the codec is the executable one of `Model/HistoryJson.lean`
  (`goCodec`: the JSON reader / writer, string escaping and RFC 3339 text that the driver runs against
  the real encoding/json on every check), and `goCodec_lawsOn` PROVES the laws for it:

  * strings: `unquote (quote b) = b` exactly for valid UTF-8 (`validUtf8_iff`: the fixed points of
    encoding/json's sanitising are the valid texts, said without reference to the codec);
  * instants: `parseTime (fmtTime t) = some t` for calendar instants of the years 1 .. 9999;
  * documents: the parser reads back every document `Save` writes (`parse_print_wf`, for all nesting
    depths and lengths; fuel of `parse` shown sufficient), integers in Go's `int` range.

  What is still trusted for these clauses: that `goCodec` is what encoding/json and time.Time do (the
  `hist` correspondence domains compare bytes written and values read on every run).
-/
namespace Wtf.C16
open Wtf.History Wtf.History.Json

/-- limits a process can hold: positive and within Go's `int` -/
def Q64 (k : Int) : Prop := 0 < k ∧ k ≤ 9223372036854775807

theorem q64_int64 (k : Int) (h : Q64 k) : Int64 k := ⟨by unfold Q64 at h; omega, h.2⟩

/-- the source's default limit fits (regenerated) -/
theorem new_default_fits : Wtf.Gen.History.newDefault ≤ 9223372036854775807 := by decide

theorem new_q64 (m : Int) (hm : m ≤ 9223372036854775807) : Q64 (new P m).maxSize := by
  refine ⟨new_maxSize_pos gen_params_ok m, ?_⟩
  rw [new_maxSize]
  split
  · exact new_default_fits
  · exact hm

/-- **Save then load gives back the same entries — for the modelled encoding/json, nothing assumed.**
    For any receiver `r` and any state `s` whose strings are valid UTF-8, whose instants are calendar
    instants and whose integers fit Go's `int`: loading the bytes `Save` writes for `s` yields exactly `s`. -/
theorem roundtrip_go (r s : State) (hm : Q64 s.maxSize)
    (hv : ∀ e ∈ s.entries, validUtf8 e.query = true ∧ validUtf8 e.context = true ∧ OkTime e.ts ∧
      Int64 e.results ∧ Int64 e.duration) :
    load goCodec P r (some (saveBytes goCodec s)) = (s, none) :=
  load_saveBytes goCodec goCodec_lawsOn P r s hm.1 (q64_int64 _ hm) hv

/-- A string that is NOT valid UTF-8 does not survive (encoding/json substitutes U+FFFD): the validity
    hypothesis of `roundtrip_go` is exactly what is needed. -/
theorem invalid_string_changes (b : Bytes) (h : validUtf8 b = false) : unquote (quote b) ≠ b := by
  intro he
  rw [valid_of_unquote_quote b he] at h
  exact Bool.noConfusion h

private theorem ops_ok (ops : List (Op Bytes)) (htool : ∀ op ∈ ops, op.isTool = true)
    (hre : ∀ m', Op.restart m' ∈ ops → m' ≤ 9223372036854775807) : ∀ op ∈ ops, op.Ok P Q64 := by
  intro op ho
  cases op with
  | setFile f => have := htool _ ho; simp [Op.isTool] at this
  | restart m' => exact new_q64 m' (hre m' ho)
  | add q r c d dt => trivial
  | save => trivial
  | load => trivial
  | clear => trivial

/-- **Bounded, ordered, most recent — with the modelled codec.**  As `bounded_ordered`, for histories of
    adds / saves / loads / clears / new processes whose recorded strings are valid UTF-8, whose instants are
    representable and whose integers (results, duration, requested sizes) fit Go's `int`. -/
theorem bounded_ordered_go (m t0 : Int) (ops : List (Op Bytes)) (hm : m ≤ 9223372036854775807)
    (htool : ∀ op ∈ ops, op.isTool = true) (hre : ∀ m', Op.restart m' ∈ ops → m' ≤ 9223372036854775807)
    (hvalid : OpsValid (fun b => validUtf8 b = true) OkTime Int64 t0 ops) :
    ∃ y, run goCodec P (init P m t0) ops = .ok y ∧
      0 < y.h.maxSize ∧
      (y.h.entries.length : Int) ≤ y.h.maxSize ∧
      y.h.entries.Pairwise (fun a b => a.ts ≤ b.ts) ∧
      y.h.entries.map Entry.core = lastN y.h.maxSize.toNat (specRun ⟨[], none, t0⟩ ops).log := by
  have hq := new_q64 m hm
  obtain ⟨y, hy, hi⟩ := run_inv goCodec goCodec_lawsOn P (Q := Q64) (fun _ h => h.1) q64_int64 ops
    (init_inv goCodec P m t0 hq hq.1) (ops_ok ops htool hre) hvalid
  exact ⟨y, hy, hi.max.1, hi.bounded, hi.chrono.1, hi.refines⟩

/-- **Save / load inside histories — with the modelled codec.**  In every state such a history reaches,
    `save` followed by `load` changes nothing, and a new process of any requested size that loads the saved
    file holds exactly the same entries under the same limit. -/
theorem roundtrip_history_go (m t0 : Int) (ops : List (Op Bytes)) (hm : m ≤ 9223372036854775807)
    (htool : ∀ op ∈ ops, op.isTool = true) (hre : ∀ m', Op.restart m' ∈ ops → m' ≤ 9223372036854775807)
    (hvalid : OpsValid (fun b => validUtf8 b = true) OkTime Int64 t0 ops) :
    ∃ y, run goCodec P (init P m t0) ops = .ok y ∧
      (∀ r : State, load goCodec P r (some (saveBytes goCodec y.h)) = (y.h, none)) ∧
      step goCodec P { y with file := some (saveBytes goCodec y.h) } .load =
        .ok { y with file := some (saveBytes goCodec y.h) } := by
  have hq := new_q64 m hm
  obtain ⟨y, hy, hi⟩ := run_inv goCodec goCodec_lawsOn P (Q := Q64) (fun _ h => h.1) q64_int64 ops
    (init_inv goCodec P m t0 hq hq.1) (ops_ok ops htool hre) hvalid
  have hrt : ∀ r : State, load goCodec P r (some (saveBytes goCodec y.h)) = (y.h, none) :=
    fun r => load_saveBytes goCodec goCodec_lawsOn P r y.h hi.max.1 (q64_int64 _ hi.max) hi.validE
  refine ⟨y, hy, hrt, ?_⟩
  simp only [step, hrt y.h]

/-! ### Non-vacuity: the hypotheses are met by an ordinary history -/

private def tEx : Int := (pack 2024 5 17 10 30 0 0 : Int) - (zeroPacked : Int)

example : OkTime tEx := ⟨2024, 5, 17, 10, 30, 0, 0, by decide⟩
example : OkTime (tEx + 1) := ⟨2024, 5, 17, 10, 30, 0, 1, by decide⟩

/-- "lös" (with a two-byte rune) and "ls" are valid; a lone continuation byte is not -/
example : validUtf8 [108, 0xC3, 0xB6, 115] = true ∧ validUtf8 [108, 115] = true ∧ validUtf8 [0x80] = false :=
  ⟨(validUtf8_iff _).mpr (by decide), (validUtf8_iff _).mpr (by decide),
   Bool.eq_false_iff.mpr (fun h => absurd ((validUtf8_iff _).mp h) (by decide))⟩

example : OpsValid (F := Bytes) (fun b => validUtf8 b = true) OkTime Int64 tEx
    [.add [108, 0xC3, 0xB6, 115] 3 [] 0 1, .save, .restart 50, .load] :=
  ⟨⟨(validUtf8_iff _).mpr (by decide), (validUtf8_iff _).mpr (by decide), ⟨2024, 5, 17, 10, 30, 0, 1, by decide⟩,
    ⟨by decide, by decide⟩, ⟨by decide, by decide⟩⟩, trivial, trivial, trivial, trivial⟩

end Wtf.C16
