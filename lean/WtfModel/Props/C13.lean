import WtfModel.Proofs.C13Main
import WtfModel.Proofs.C13Context
import WtfModel.Proofs.ScoreField
import WtfModel.Proofs.Boosts

/-!
  C13 — project context only re-ranks, in favour of commands that mention it.
  Property theorems only (helper lemmas live in Proofs/C13*.lean).

  Engine half: `search` is the model of `SearchUniversal` (validated bit for bit against the real code
  by the `search` correspondence domain, also on the paired stream `c13`).  Statements hold for every
  score type satisfying `ScoreLaws` (every linearly ordered field: `Proofs/ScoreField.lean`), every
  database, query, option record (NLP on or off, fuzzy on or off, every limit unless stated), every
  boost map and every value of the parameters `T` subject to the named hypotheses.
-/
namespace Wtf.C13
open Wtf.Text Wtf.Index Wtf.Filters Wtf.Search ScoreOps ScoreLaws

section engine
variable {S : Type} [ScoreOps S]

/-- ids of an answer -/
def ids (r : List (Nat × S)) : List Nat := r.map (·.1)

/-- score of document `d` in an answer -/
def scoreOf (r : List (Nat × S)) (d : Nat) : Option S := (r.find? (·.1 == d)).map (·.2)

theorem scoreOf_mem {r : List (Nat × S)} {d : Nat} {s : S} (h : scoreOf r d = some s) : (d, s) ∈ r := by
  unfold scoreOf at h
  cases hf : r.find? (·.1 == d) with
  | none => simp [hf] at h
  | some p =>
    simp only [hf, Option.map_some, Option.some.injEq] at h
    have h1 := List.find?_some hf
    have h2 := List.mem_of_find?_eq_some hf
    have : p.1 = d := by simpa using h1
    obtain ⟨d', s'⟩ := p
    simp only at this h
    subst this h
    exact h2

/-- **Context boosts never add or remove a candidate.**  With a limit that does not cut
    (`|db| ≤ limit`, the way the property compares the sets), the answers of the same request under any
    two boost maps `B`, `B'` (in particular `B' = []`: no context) list the same documents — as
    multisets, hence as sets —, and one run fails (the typo matcher's index panic, C10) exactly when the
    other does, with the same error.  NLP on or off, fuzzy fallback on or off. -/
theorem same_candidates (T : Tuning S) (db : Db) (q : Bytes) (o : Opts S) (B B' : List (Bytes × S))
    (hlim : db.length ≤ effLimit o) :
    (∀ e, search T db q (withBoosts o B) = .error e ↔ search T db q (withBoosts o B') = .error e) ∧
    (∀ rB r0, search T db q (withBoosts o B) = .ok rB → search T db q (withBoosts o B') = .ok r0 →
      (ids rB).Perm (ids r0) ∧ ∀ d, d ∈ ids rB ↔ d ∈ ids r0) := by
  rcases search_two_runs T db q o B B' with h | ⟨h1, h2⟩
  · rw [h]
    refine ⟨fun _ => Iff.rfl, ?_⟩
    intro rB r0 e1 e2
    rw [e1] at e2; cases e2
    exact ⟨List.Perm.refl _, fun _ => Iff.rfl⟩
  · rw [h1, h2]
    refine ⟨fun e => ⟨fun h => (by cases h), fun h => (by cases h)⟩, ?_⟩
    intro rB r0 e1 e2
    cases e1; cases e2
    have p := finish_same_ids T db q o B B' hlim
    exact ⟨p, fun d => p.mem_iff⟩

/-- The candidate keys themselves (before any truncation) never depend on the boosts, at every limit. -/
theorem candidates_indep_boosts (T : Tuning S) (db : Db) (q : Bytes) (o : Opts S) (B B' : List (Bytes × S)) :
    ids (scoresOf T db q (withBoosts o B)) = ids (scoresOf T db q (withBoosts o B')) :=
  scoresOf_keys T db q o B B'

variable [ScoreLaws S]

/-- **Boosting never lowers a score.**  If every factor in `B` is ≥ 1, every document returned both with
    and without the boosts (any limit, NLP on or off) has a score with boosts that is not below its score
    without.  Hypotheses: BM25F parameters sane (`genParams_sane` discharges it for the regenerated
    `defaultParams()`), and the per-document NLP factors are non-negative (`calculateIntentBoost` and the
    cascading boost are products/sums of positive constants; the `search` correspondence feeds and the
    C13 monitor checks the real values). -/
theorem monotone (T : Tuning S) (db : Db) (q : Bytes) (o : Opts S) (hP : ParamsSane T.params)
    (hib : ∀ nq d, Nonneg ((T.nlp nq).intentBoost d)) (hcb : ∀ nq d, Nonneg ((T.nlp nq).cascade d))
    (B : List (Bytes × S)) (hB : ∀ p ∈ B, ge p.2 one)
    {rB r0 : List (Nat × S)} (h1 : search T db q (withBoosts o B) = .ok rB) (h2 : search T db q (withBoosts o []) = .ok r0)
    {d : Nat} {sB s0 : S} (hdB : scoreOf rB d = some sB) (hd0 : scoreOf r0 d = some s0) : ge sB s0 := by
  rcases search_two_runs T db q o B [] with h | ⟨e1, e2⟩
  · rw [h, h2] at h1; cases h1
    rw [hdB] at hd0; cases hd0
    exact ge_refl _
  · rw [e1] at h1; rw [e2] at h2; cases h1; cases h2
    exact finish_monotone T db q o hP hib hcb B hB (scoreOf_mem hdB) (scoreOf_mem hd0)

/-- the clause as the property words it: a command that contains a boosted query word is not ranked lower
    in score (a corollary: *no* returned command is) -/
theorem monotone_containing (T : Tuning S) (db : Db) (q : Bytes) (o : Opts S) (hP : ParamsSane T.params)
    (hib : ∀ nq d, Nonneg ((T.nlp nq).intentBoost d)) (hcb : ∀ nq d, Nonneg ((T.nlp nq).cascade d))
    (B : List (Bytes × S)) (hB : ∀ p ∈ B, ge p.2 one)
    {rB r0 : List (Nat × S)} (h1 : search T db q (withBoosts o B) = .ok rB) (h2 : search T db q (withBoosts o []) = .ok r0)
    {d : Nat} {c : Cmd} (_hc : db[d]? = some c) {w : Token} (_hw : w ∈ B.map (·.1)) (_hq : w ∈ queryTerms T db q o)
    (_hcw : containsTerm c w = true)
    {sB s0 : S} (hdB : scoreOf rB d = some sB) (hd0 : scoreOf r0 d = some s0) : ge sB s0 :=
  monotone T db q o hP hib hcb B hB h1 h2 hdB hd0

end engine

section engine2
variable {S : Type} [ScoreOps S]

/-- **Boosting a word never changes the score of a command that does not contain it.**  If no boosted
    word that is among the query's terms occurs in the indexed text (command, description, keywords,
    tags) of document `d`, then `d`'s score with the boosts equals its score without — syntactically the
    same computation, no hypothesis on factors or parameters, NLP on or off (a boosted word that is also
    an NLP action/target changes only the weight of *its own* postings). -/
theorem untouched (T : Tuning S) (db : Db) (q : Bytes) (o : Opts S) (B : List (Bytes × S))
    {rB r0 : List (Nat × S)} (h1 : search T db q (withBoosts o B) = .ok rB) (h2 : search T db q (withBoosts o []) = .ok r0)
    {d : Nat} (hd : ∀ w ∈ B.map (·.1), w ∈ queryTerms T db q o → ∀ c, db[d]? = some c → containsTerm c w = false)
    {sB s0 : S} (hdB : scoreOf rB d = some sB) (hd0 : scoreOf r0 d = some s0) : sB = s0 := by
  rcases search_two_runs T db q o B [] with h | ⟨e1, e2⟩
  · rw [h, h2] at h1; cases h1
    rw [hdB] at hd0; cases hd0
    rfl
  · rw [e1] at h1; rw [e2] at h2; cases h1; cases h2
    exact finish_untouched T db q o B
      (fun t ht hk => no_posting_of_not_contains db d t (hd t hk ht)) (scoreOf_mem hdB) (scoreOf_mem hd0)

end engine2

/-! ### non-vacuity of the engine clauses: a concrete database over ℚ -/
section example_engine

local instance : ScoreOps ℚ := fieldScoreOps ℚ
local instance : ScoreLaws ℚ := fieldScoreLaws ℚ

private def bs (s : String) : Bytes := Bytes.ofString s
private def mk (c d : String) : Cmd :=
  { command := bs c, description := bs d, keywords := [], tags := [], niche := [], platform := [], pipeline := false,
    commandLower := bs c, descriptionLower := bs d, keywordsLower := [], tagsLower := [] }
/-- three commands; the query is "git archive"; the context boosts the word "git" by 2 -/
private def exDb : Db := [mk "git archive" "git archive", mk "git commit" "record changes", mk "tar archive" "compress files"]
/-- fixed parameter values for the example (those of the source when it was written): the example is a witness over the
    model and must not depend on the regenerated constants, so that re-tuning `defaultParams()` leaves it alone -/
private def exP : Params ℚ :=
  { k1 := ofQ ⟨6, 5⟩, bCmd := ofQ ⟨3, 4⟩, bDesc := ofQ ⟨3, 4⟩, bKeys := ofQ ⟨7, 10⟩, bTags := ofQ ⟨7, 10⟩,
    wCmd := ofQ ⟨7, 2⟩, wDesc := ofQ ⟨1, 1⟩, wKeys := ofQ ⟨2, 1⟩, wTags := ofQ ⟨6, 5⟩, minIDF := ofQ ⟨0, 1⟩ }
private theorem exP_sane : ParamsSane exP where
  k1 := ofQ_nonneg _ (by decide) (by decide)
  wCmd := ofQ_pos _ (by decide) (by decide)
  wDesc := ofQ_pos _ (by decide) (by decide)
  wKeys := ofQ_pos _ (by decide) (by decide)
  wTags := ofQ_pos _ (by decide) (by decide)
  bCmd0 := ofQ_nonneg _ (by decide) (by decide)
  bDesc0 := ofQ_nonneg _ (by decide) (by decide)
  bKeys0 := ofQ_nonneg _ (by decide) (by decide)
  bTags0 := ofQ_nonneg _ (by decide) (by decide)
  bCmd1 := ofQ_le_one _ (by decide) (by decide)
  bDesc1 := ofQ_le_one _ (by decide) (by decide)
  bKeys1 := ofQ_le_one _ (by decide) (by decide)
  bTags1 := ofQ_le_one _ (by decide) (by decide)
  minIDF := ofQ_nonneg _ (by decide) (by decide)
private def exT : Tuning ℚ where
  params := exP
  idf := fun n df => (((n - df : Nat) : ℚ) + 1) / ((df : ℚ) + 1)
  host := bs "linux"
  ri := {}
  normQ := id
  nlp := fun _ => { intentBoost := fun _ => 1, cascade := fun _ => 1 }
  tfidf := none
  fuzzySort := id
private def exO : Opts ℚ := { limit := 10, pipelineBoost := 0 }
private def exB : List (Bytes × ℚ) := [(bs "git", 2)]
private def exQ : Bytes := bs "git archive"

/-- the answer with the boost … -/
theorem example_with : search exT exDb exQ (withBoosts exO exB) = .ok [(0, 248/47), (1, 308/141), (2, 154/141)] :=
  search_nlpOff_of_sorted exT exDb exQ (withBoosts exO exB) rfl [(0, 248/47), (1, 308/141), (2, 154/141)]
    (by decide +kernel) (by decide +kernel) (by decide +kernel) (by decide +kernel)

/-- … and without: same three candidates; "git commit" (contains the boosted word) strictly higher with the
    boost, "tar archive" (does not contain it) unchanged -/
theorem example_without : search exT exDb exQ (withBoosts exO []) = .ok [(0, 496/141), (1, 154/141), (2, 154/141)] :=
  search_nlpOff_of_sorted exT exDb exQ (withBoosts exO []) rfl [(0, 496/141), (1, 154/141), (2, 154/141)]
    (by decide +kernel) (by decide +kernel) (by decide +kernel) (by decide +kernel)

example : (308 : ℚ)/141 > 154/141 := by decide +kernel

private theorem one_nn : Nonneg (1 : ℚ) := by decide +kernel

/-- the hypotheses of `monotone` and `untouched` are satisfiable together: instantiated on the example -/
example : ParamsSane exT.params ∧ (∀ nq d, Nonneg ((exT.nlp nq).intentBoost d)) ∧ (∀ nq d, Nonneg ((exT.nlp nq).cascade d)) ∧
    (∀ p ∈ exB, ge p.2 (one : ℚ)) ∧ exDb.length ≤ effLimit exO ∧
    (∀ w ∈ exB.map (·.1), w ∈ queryTerms exT exDb exQ exO → ∀ c, exDb[2]? = some c → containsTerm c w = false) := by
  refine ⟨exP_sane, ?_, ?_, ?_, by decide, ?_⟩
  · intro _ _; exact one_nn
  · intro _ _; exact one_nn
  · decide +kernel
  · intro w hw _ c hc
    have hw' : w = bs "git" := by simpa [exB] using hw
    have hc' : c = mk "tar archive" "compress files" := by
      have : exDb[2]? = some (mk "tar archive" "compress files") := rfl
      rw [this] at hc; cases hc; rfl
    subst hw' hc'
    decide +kernel

example : ge ((308 : ℚ)/141) (154/141) :=
  monotone exT exDb exQ exO exP_sane (fun _ _ => one_nn) (fun _ _ => one_nn) exB (by decide +kernel)
    example_with example_without (d := 1) (by decide +kernel) (by decide +kernel)

end example_engine

/-! ## Analyzer half

  `Context.analyze ri listing pkg mkText` is the model of `AnalyzeDirectory` on a readable directory
  whose entries are `listing` (validated against the real analyzer on generated directories by the
  `context` correspondence domain); it evaluates the rule table `Gen.Context.rules` regenerated from the
  `check*` functions on every run, so the statements below are re-checked against the current source.
-/
section analyzer
open Wtf.Context

/-- table fact (re-checked by `decide` on every regeneration): no marker rule appends the fallback type -/
theorem generic_fresh : GenericFresh Gen.Context.rules Gen.Context.genericType := by decide

/-- **Each project type is reported at most once**, for every listing (any combination and
    repetition of names) and any package.json / Makefile contents. -/
theorem types_nodup (ri : RuneInfo) (listing : List Bytes) (pkg : Option (List Bytes)) (mkText : Bytes → Option Bytes) :
    (analyze ri listing pkg mkText).types.Nodup :=
  analyzeWith_types_nodup _ _ ri listing pkg mkText

/-- **'generic' exactly when nothing is recognised**: the reported types are `[generic]` iff no rule of
    the regenerated table fires on any listed name … -/
theorem generic_iff (ri : RuneInfo) (listing : List Bytes) (pkg : Option (List Bytes)) (mkText : Bytes → Option Bytes) :
    (analyze ri listing pkg mkText).types = [Gen.Context.genericType] ↔
      ∀ name ∈ listing, Quiet Gen.Context.rules name :=
  analyzeWith_generic_iff _ _ ri listing pkg mkText generic_fresh

/-- … and 'generic' never appears together with another type; the list is never empty. -/
theorem generic_alone (ri : RuneInfo) (listing : List Bytes) (pkg : Option (List Bytes)) (mkText : Bytes → Option Bytes) :
    (Gen.Context.genericType ∈ (analyze ri listing pkg mkText).types →
      (analyze ri listing pkg mkText).types = [Gen.Context.genericType]) ∧
    (analyze ri listing pkg mkText).types ≠ [] := by
  refine ⟨analyzeWith_generic_alone _ _ ri listing pkg mkText generic_fresh, ?_⟩
  unfold analyze
  rw [analyzeWith_types]
  split
  · simp
  · rename_i h; simpa [List.isEmpty_iff] using h

/-- table fact: every entry of `projectBoosts` and the two literals for scripts / make targets are ≥ 1
    (a finite rational is finite: "finite" needs no separate clause) -/
theorem table_boosts_ge_one :
    (∀ e ∈ Gen.Context.projectBoosts, ∀ kv ∈ e.2, Q.geOne kv.2 = true) ∧
    Q.geOne Gen.Context.scriptBoost = true ∧ Q.geOne Gen.Context.targetBoost = true := by decide

/-- **Only boosts of at least 1**: every value `GetContextBoosts` can return, for every context (any
    types, script names, make targets), is an exact rational `q` with `1 ≤ q`. -/
theorem boosts_ok (ctx : Ctx) : ∀ p ∈ contextBoosts ctx, (p.2.den : Int) ≤ p.2.num ∧ 0 < p.2.den := by
  have h := contextBoostsWith_all (fun q => Q.geOne q = true) Gen.Context.projectBoosts Gen.Context.scriptBoost
    Gen.Context.targetBoost table_boosts_ge_one.1 table_boosts_ge_one.2.1 table_boosts_ge_one.2.2 ctx
  intro p hp
  have := h p hp
  simpa [Q.geOne] using this

/-- the boost map handed to the engine, in the engine's score type -/
def engineBoosts {S : Type} [ScoreOps S] (ctx : Ctx) : List (Bytes × S) := (contextBoosts ctx).map (fun p => (p.1, ofQ p.2))

/-- the two halves meet: the boosts of any detected context satisfy the hypothesis of `monotone` -/
theorem boosts_ok_scores {S : Type} [ScoreOps S] [ScoreLaws S] (ctx : Ctx) : ∀ p ∈ (engineBoosts ctx : List (Bytes × S)), ge p.2 one := by
  intro p hp
  unfold engineBoosts at hp
  obtain ⟨p0, hp0, rfl⟩ := List.mem_map.mp hp
  have := boosts_ok ctx p0 hp0
  exact ofQ_ge_one p0.2 this.1 this.2

/-- hence: the context detected in *any* directory never lowers the score of any returned command -/
theorem detected_context_never_lowers {S : Type} [ScoreOps S] [ScoreLaws S] (T : Tuning S) (db : Db) (q : Bytes) (o : Opts S)
    (hP : ParamsSane T.params) (hib : ∀ nq d, Nonneg ((T.nlp nq).intentBoost d)) (hcb : ∀ nq d, Nonneg ((T.nlp nq).cascade d))
    (ri : RuneInfo) (listing : List Bytes) (pkg : Option (List Bytes)) (mkText : Bytes → Option Bytes)
    {rB r0 : List (Nat × S)}
    (h1 : search T db q (withBoosts o (engineBoosts (analyze ri listing pkg mkText))) = .ok rB)
    (h2 : search T db q (withBoosts o []) = .ok r0)
    {d : Nat} {sB s0 : S} (hdB : scoreOf rB d = some sB) (hd0 : scoreOf r0 d = some s0) : ge sB s0 :=
  monotone T db q o hP hib hcb _ (boosts_ok_scores _) h1 h2 hdB hd0

/-- **Detection is a function of the listing**: `analyze` is a (total, terminating) Lean function of the
    names and the two files' contents, and what the code computes — `analyze` of the names in
    `os.ReadDir`'s order, sorted bytewise — depends only on the *set* (multiset) of entries. -/
theorem function_of_entries (ri : RuneInfo) {l1 l2 : List Bytes} (hp : l1.Perm l2) (pkg : Option (List Bytes))
    (mkText : Bytes → Option Bytes) : analyzeDir ri l1 pkg mkText = analyzeDir ri l2 pkg mkText := by
  unfold analyzeDir; rw [sortNames_perm_eq hp]

/-- The reported types as a *set* do not depend on the order in which the names are processed, nor on
    the contents of package.json / Makefile … -/
theorem listing_order (ri ri' : RuneInfo) {l1 l2 : List Bytes} (hp : l1.Perm l2) (pkg pkg' : Option (List Bytes))
    (mkText mkText' : Bytes → Option Bytes) (t : String) :
    t ∈ (analyze ri l1 pkg mkText).types ↔ t ∈ (analyze ri' l2 pkg' mkText').types := by
  unfold analyze
  rw [analyzeWith_types_indep _ _ ri l1 pkg mkText pkg' mkText' ri']
  exact analyzeWith_types_perm _ _ ri' hp pkg' mkText' t

/-- … but their *order*, and with it which value wins for a word two project types boost, does depend
    on it (so the canonical `os.ReadDir` order is part of the function): Dockerfile before go.mod gives
    `build ↦ 1.5` (go overrides docker), the other order gives `build ↦ 1.3`. -/
theorem order_matters :
    (analyze {} [Bytes.ofString "Dockerfile", Bytes.ofString "go.mod"] none (fun _ => none)).types = ["docker", "go"] ∧
    (analyze {} [Bytes.ofString "go.mod", Bytes.ofString "Dockerfile"] none (fun _ => none)).types = ["go", "docker"] ∧
    (Bytes.ofString "build", (⟨3, 2⟩ : Q)) ∈ contextBoosts (analyze {} [Bytes.ofString "Dockerfile", Bytes.ofString "go.mod"] none (fun _ => none)) ∧
    (Bytes.ofString "build", (⟨13, 10⟩ : Q)) ∈ contextBoosts (analyze {} [Bytes.ofString "go.mod", Bytes.ofString "Dockerfile"] none (fun _ => none)) := by
  decide +kernel

/-! non-vacuity -/
example : (analyze {} [Bytes.ofString "Dockerfile", Bytes.ofString "README.md", Bytes.ofString "docker-compose.yml"] none (fun _ => none)).types
    = ["docker"] := by decide +kernel
example : (analyze {} [Bytes.ofString "README.md", Bytes.ofString "Dockerfile.bak"] none (fun _ => none)).types = ["generic"] := by decide +kernel
example : Quiet Gen.Context.rules (Bytes.ofString "Dockerfile.bak") := by decide +kernel
example : ¬ Quiet Gen.Context.rules (Bytes.ofString "deploy-k8s.yaml") := by decide +kernel
example : makeTargetsOf {} (Bytes.ofString "all: build\nA=b:c\n.PHONY: all\n# c: d\n\tgo build: x\nbuild :\n") =
    [Bytes.ofString "all", Bytes.ofString "go build", Bytes.ofString "build"] := by decide +kernel

end analyzer

end Wtf.C13

/-! ### The NLP layer is modelled: `monotone` without hypotheses about the NLP factors

  `Boosts.nlpOut ri db nq` is the model of the NLP analysis and of `calculateIntentBoost` / `calculateBoostForCommand`
  (Model/Boosts.lean; literals regenerated into `Gen/Boosts.lean` on every run, validated bit for bit by the `boosts`
  correspondence domain, and the search driver runs with it).  Its factors are proved positive / at least 1
  (`Proofs/Boosts.lean`), which discharges `hib` and `hcb`. -/
namespace Wtf.C13
open Wtf.Text Wtf.Index Wtf.Filters Wtf.Search ScoreOps ScoreLaws

section engine_modelled
variable {S : Type} [ScoreOps S] [ScoreLaws S]

/-- the two factor hypotheses of `monotone` hold for every parameter set whose NLP layer is the modelled one -/
theorem modelled_nlp_factors_nonneg (T : Tuning S) (db : Db) (hnlp : T.nlp = Boosts.nlpOut T.ri db) :
    (∀ nq d, Nonneg ((T.nlp nq).intentBoost d)) ∧ (∀ nq d, Nonneg ((T.nlp nq).cascade d)) := by
  constructor
  · intro nq d; rw [hnlp]; exact (Boosts.nlpOut_factorsNonneg T.ri db nq d).1
  · intro nq d; rw [hnlp]; exact (Boosts.nlpOut_factorsNonneg T.ri db nq d).2

/-- **Boosting never lowers a score, with the modelled NLP layer**: only the BM25F parameters (discharged for the source by
    `genParams_sane`) and the factors of the boost map (`≥ 1`: `boosts_ok_scores`) are assumed -/
theorem monotone_modelled_nlp (T : Tuning S) (db : Db) (hnlp : T.nlp = Boosts.nlpOut T.ri db) (q : Bytes) (o : Opts S)
    (hP : ParamsSane T.params) (B : List (Bytes × S)) (hB : ∀ p ∈ B, ge p.2 one)
    {rB r0 : List (Nat × S)} (h1 : search T db q (withBoosts o B) = .ok rB) (h2 : search T db q (withBoosts o []) = .ok r0)
    {d : Nat} {sB s0 : S} (hdB : scoreOf rB d = some sB) (hd0 : scoreOf r0 d = some s0) : ge sB s0 :=
  monotone T db q o hP (modelled_nlp_factors_nonneg T db hnlp).1 (modelled_nlp_factors_nonneg T db hnlp).2 B hB h1 h2 hdB hd0

/-- the clause as the property words it, with the modelled NLP layer -/
theorem monotone_containing_modelled_nlp (T : Tuning S) (db : Db) (hnlp : T.nlp = Boosts.nlpOut T.ri db) (q : Bytes) (o : Opts S)
    (hP : ParamsSane T.params) (B : List (Bytes × S)) (hB : ∀ p ∈ B, ge p.2 one)
    {rB r0 : List (Nat × S)} (h1 : search T db q (withBoosts o B) = .ok rB) (h2 : search T db q (withBoosts o []) = .ok r0)
    {d : Nat} {c : Cmd} (hc : db[d]? = some c) {w : Token} (hw : w ∈ B.map (·.1)) (hq : w ∈ queryTerms T db q o)
    (hcw : containsTerm c w = true)
    {sB s0 : S} (hdB : scoreOf rB d = some sB) (hd0 : scoreOf r0 d = some s0) : ge sB s0 :=
  monotone_containing T db q o hP (modelled_nlp_factors_nonneg T db hnlp).1 (modelled_nlp_factors_nonneg T db hnlp).2 B hB h1 h2
    hc hw hq hcw hdB hd0

/-- the context detected in *any* directory never lowers the score of any returned command, with the modelled NLP layer -/
theorem detected_context_never_lowers_modelled_nlp (T : Tuning S) (db : Db) (hnlp : T.nlp = Boosts.nlpOut T.ri db) (q : Bytes)
    (o : Opts S) (hP : ParamsSane T.params)
    (ri : RuneInfo) (listing : List Bytes) (pkg : Option (List Bytes)) (mkText : Bytes → Option Bytes)
    {rB r0 : List (Nat × S)}
    (h1 : search T db q (withBoosts o (engineBoosts (Wtf.Context.analyze ri listing pkg mkText))) = .ok rB)
    (h2 : search T db q (withBoosts o []) = .ok r0)
    {d : Nat} {sB s0 : S} (hdB : scoreOf rB d = some sB) (hd0 : scoreOf r0 d = some s0) : ge sB s0 :=
  monotone_modelled_nlp T db hnlp q o hP _ (boosts_ok_scores _) h1 h2 hdB hd0

end engine_modelled

end Wtf.C13
