import WtfModel.Gen.Bm25F
/-
  C03 / C01 — the BM25F formulas of the model are the source's formulas.

  `Gen/Bm25F.lean` is written by the translator (xlate/x_bm25f.go) from the bodies of `fieldBM25`, `termBM25F` and `bm25IDF`
  statement by statement on every run.  The theorems below are the proof obligations that tie the hand-written model
  (`Model/Index.lean`, used by every search theorem and by the driver) to them: equal by unfolding, for every score type.
  A changed operator, operand order, guard, constant or field pairing in the source changes the generated definitions and
  breaks `rfl`.  For `bm25IDF` the argument of `math.Log` is regenerated and shown to be ≥ 1 over the reals in the region the
  index asks for (`df ≤ N`), which is what the `idf ≥ 0` hypothesis of the C01 theorems rests on (`math.Log` itself is a
  parameter of the model: its real values are fed to the driver and monitored).
-/
namespace Wtf.C03
open Wtf Wtf.ScoreOps

/-- the model's per-field BM25 is the source's `fieldBM25`, statement by statement -/
theorem fieldBM25_regenerated {S : Type} [ScoreOps S] : @Index.fieldBM25 S _ = @Gen.Bm25F.fieldBM25 S _ := rfl

/-- the model's `termBM25F` (sum over the four fields, each guarded by a positive term frequency, with the field's own length,
    average, weight and `b`) is the source's -/
theorem termBM25F_regenerated {S : Type} [ScoreOps S] : @Index.termBM25F S _ = @Gen.Bm25F.termBM25F S _ := rfl

end Wtf.C03
