import WtfModel.Props.C17
import WtfModel.Proofs.JsonText

/-!
  C17, continued: the clause "with --format json the result block is a WELL-FORMED JSON array with one object per result".

  Props/C17.lean (`json_shape`) says which members each object has and that the block is `encodeItems w.F items`, with
  encoding/json's string and number encoders as parameters (`w.F.jsonStr`, `w.F.jsonNum`).  Here the string encoder is no
  longer a parameter: `hstr : w.F.jsonStr = jsonStrModel` fixes it to the model of encoding/json's `appendString` with
  EscapeHTML on (Model/KeyJson.lean, shared with the cache key of C05), and the block is shown to be a JSON text for the
  recogniser of Model/JsonText.lean (RFC 8259; stricter than the RFC only in rejecting `\uD800`..`\uDFFF` escapes, which the
  encoder never writes).

  PROVED, for every database text (any bytes: quotes, backslashes, controls, `<>&`, U+2028/9, invalid UTF-8, any rune):
    `json_wellformed`   the printed block parses, completely, to ONE array; the array has one object per printed result, in
                        printed order; object k is exactly: the member names of `json_shape` in struct order, each string
                        read back as the field's bytes with every byte utf8.DecodeRune rejects replaced by U+FFFD (`toValid`),
                        string lists element by element, the score as the number token the encoder wrote.  So the round trip
                        holds, not only well-formedness.
    `json_object`       that object spelled out per verbosity
    `json_text_of_items`  the same for ANY item list handed to the encoder (ints, bools and nulls included)
    `toValid_ascii`     ASCII text reads back unchanged
  ASSUMED (explicit hypotheses):
    `hstr`     the string encoder is the model.  Tied to the code on every C17 run: the driver renders every string with
               `jsonStrModel`, the result block is compared byte for byte with the real binary's stdout, and the renderings
               json.Marshal gives for every printed string are compared with the model's one by one (`doc` lines).
    `NumOK`    what encoding/json writes for a float64 score is a number token (decidable on the bytes: `isNumTok`).
               strconv's shortest formatting and encoding/json's exponent clean-up are NOT modelled.  Checked by the driver
               on the real rendering of every printed score.  For NaN / ±Inf, `Encode` fails and prints nothing: such a score
               falsifies `NumOK`'s premise about the code, not the theorem (the engine's scores are finite, C10).
  FROM THE REGENERATED TABLES (by evaluation): `layout_ok` -- the prefix and indentation passed to SetIndent are white space;
    `names_ok` -- every json name of the item struct is printable ASCII without `"` `\` `<` `>` `&`, so it is written and read
    as it is.  A SetIndent(">", …) or a tag `json:"a\"b"` makes these fail, as it should.
-/
namespace Wtf.C17
open Wtf Wtf.Cli Wtf.ScoreOps Wtf.JsonText

variable {S : Type} [ScoreOps S]

/-- SetIndent's prefix and indentation (regenerated from the call) are white space -/
theorem layout_ok : indentOK = true := by decide

/-- the json names of the item struct (regenerated from its tags) are written, and read, as they are -/
theorem names_ok : NamesOK := by unfold NamesOK; decide

/-- Any items, any formatter whose strings are the model's and whose numbers are number tokens: the text the encoder lays
    out is a complete JSON text, the array of the items' objects with every value read back. -/
theorem json_text_of_items (F : Fmt S) (hstr : F.jsonStr = jsonStrModel) (hnum : NumOK F) (items : List (Item S)) :
    parseValue (encodeItems F items) = some (expectedJson F items, [0x0A]) ∧
    parseText (encodeItems F items) = some (expectedJson F items) :=
  ⟨parseValue_encodeItems layout_ok names_ok hstr hnum items, parseText_encodeItems layout_ok names_ok hstr hnum items⟩

/-- Clause "with --format json the result block is a well-formed JSON array with one object per result".
    The block parses as one JSON value followed only by the final newline; the value is an array with one object per
    printed result, in printed order; each object is the members `json_shape` lists, names in struct order, values read
    back (`jobjOf`: strings as `toValid` of the database text, string lists element-wise, the score as its token). -/
theorem json_wellformed [ScoreLaws S] (fl : Flags) (w : World S) (hf : formatOf fl.format = .json)
    (hstr : w.F.jsonStr = jsonStrModel) (hnum : NumOK w.F) :
    (cliSearch fl w).stage = .printed →
    ∃ objs : List JVal,
      parseValue (cliSearch fl w).block = some (.arr objs, [0x0A]) ∧
      parseText (cliSearch fl w).block = some (.arr objs) ∧
      objs.length = (cliSearch fl w).results.length ∧
      objs = (cliSearch fl w).results.map (fun r => jobjOf w.F (expectedMembers fl.verbose (w.docs r.1) r.2)) := by
  intro hp
  obtain ⟨hm, _, hb⟩ := json_shape fl w hf
  have hobjs : (cliSearch fl w).jsonItems.map (fun it => jobjOf w.F (objFields Gen.Cli.jsonFields it))
      = (cliSearch fl w).results.map (fun r => jobjOf w.F (expectedMembers fl.verbose (w.docs r.1) r.2)) := by
    have := congrArg (List.map (jobjOf w.F)) hm
    simp only [List.map_map] at this
    exact this
  obtain ⟨h1, h2⟩ := json_text_of_items w.F hstr hnum (cliSearch fl w).jsonItems
  refine ⟨_, ?_, ?_, ?_, rfl⟩
  · rw [hb hp, h1, expectedJson, hobjs]
  · rw [hb hp, h2, expectedJson, hobjs]
  · simp

/-- one object, spelled out: `command` and `description` always; `category` when the entry has one; `keywords`,
    `platforms` (when non-empty) and `score` (when non-zero) only with --verbose -/
theorem json_object (F : Fmt S) (verbose : Bool) (d : Doc) (s : S) :
    jobjOf F (expectedMembers verbose d s) = .obj (
      [(bs "command", .str (toValid d.command)), (bs "description", .str (toValid d.description))]
      ++ (if verbose && !d.keywords.isEmpty then [(bs "keywords", .arr (d.keywords.map (fun k => .str (toValid k))))] else [])
      ++ (if !d.niche.isEmpty then [(bs "category", .str (toValid d.niche))] else [])
      ++ (if verbose && !d.platform.isEmpty then [(bs "platforms", .arr (d.platform.map (fun k => .str (toValid k))))] else [])
      ++ (if verbose && !isZeroScore s then [(bs "score", .num (F.jsonNum s))] else [])) := by
  unfold jobjOf expectedMembers
  congr 1
  cases verbose <;> cases d.keywords.isEmpty <;> cases d.niche.isEmpty <;> cases d.platform.isEmpty <;>
    cases isZeroScore s <;> simp [jvalOf]

/-- text that is ASCII reads back unchanged -/
theorem toValid_ascii (s : Bytes) (h : ∀ c ∈ s, c.toNat < 0x80) : toValid s = s := by
  unfold toValid
  induction s with
  | nil => rfl
  | cons b t ih =>
    have hb : b.toNat < 0x80 := h b (by simp)
    have hd : Utf8.decodeRune (b :: t) = (b.toNat, 1) := by simp [Utf8.decodeRune, UInt8.lt_iff_toNat_lt, hb]
    rw [(coerce_ascii1 b t hb hd).2, ih (fun c hc => h c (by simp [hc]))]

/-! ## non-vacuity -/
section examples

private instance : ScoreOps Int where
  zero := 0
  one := 1
  add := (· + ·)
  sub := (· - ·)
  mul := (· * ·)
  div := (· / ·)
  lt a b := decide (a < b)
  ofNat n := n
  ofQ q := q.num / q.den

/-- strings by the model (`jsonStrF` is `jsonStrModel` in the form `decide` can run), numbers as `%d` (integers are number
    tokens) -/
private def exF : Fmt Int := { fmtFloat := fun _ s => intDec s, jsonStr := jsonStrF, jsonNum := fun s => intDec s }
private theorem exF_str : exF.jsonStr = jsonStrModel := jsonStrF_eq

-- `NumOK` is satisfiable, and `isNumTok` does reject what is not a number
private theorem exF_num : NumOK exF := fun s => isNumTok_intDec s
example : isNumTok (bs "-0") = true ∧ isNumTok (bs "12.50e-3") = true ∧ isNumTok (bs "1E+21") = true := by decide
example : isNumTok (bs "NaN") = false ∧ isNumTok (bs "+Inf") = false ∧ isNumTok (bs "01") = false ∧ isNumTok (bs "1.") = false ∧
    isNumTok (bs ".5") = false ∧ isNumTok (bs "1e") = false ∧ isNumTok [] = false ∧ isNumTok (bs "0x10") = false := by decide

/-- quotes, `<` `>` `&`, a backslash, a control byte (BEL), a line break, invalid UTF-8 (a lone FF, a truncated C3),
    U+2028, a two-byte rune (é) and a rune outside the BMP (U+1F600) -/
private def hostile : Bytes :=
  bs "say \"hi\" <b>&" ++ [0x5C, 0x07, 0x0A, 0xFF, 0xC3, 0x20, 0xE2, 0x80, 0xA8, 0xC3, 0xA9, 0xF0, 0x9F, 0x98, 0x80]

private def exItem : Item Int :=
  [("it.Command", .bytes hostile), ("it.Description", .bytes []), ("it.Keywords", .strs [bs "a<b", [0xC3]]),
   ("it.Category", .bytes (bs "net")), ("it.Platforms", .strs []), ("it.Score", .score 3)]

-- what the encoder writes for the hostile text: everything dangerous is escaped, the runes are copied
--   "say \"hi\" \u003cb\\u003e\\u0026\\\\\\u0007\\n\\ufffd\\ufffd \\u2028" followed by the bytes of U+00E9 and U+1F600 and the closing quote
example : jsonStrF hostile =
    [0x22, 0x73, 0x61, 0x79, 0x20, 0x5C, 0x22, 0x68, 0x69, 0x5C, 0x22, 0x20, 0x5C, 0x75, 0x30, 0x30, 0x33, 0x63,
     0x62, 0x5C, 0x75, 0x30, 0x30, 0x33, 0x65, 0x5C, 0x75, 0x30, 0x30, 0x32, 0x36, 0x5C, 0x5C, 0x5C, 0x75, 0x30,
     0x30, 0x30, 0x37, 0x5C, 0x6E, 0x5C, 0x75, 0x66, 0x66, 0x66, 0x64, 0x5C, 0x75, 0x66, 0x66, 0x66, 0x64, 0x20,
     0x5C, 0x75, 0x32, 0x30, 0x32, 0x38, 0xC3, 0xA9, 0xF0, 0x9F, 0x98, 0x80, 0x22] := by decide +kernel
-- and what a reader gets back: the same text with U+FFFD for the two invalid bytes
example : toValid hostile = bs "say \"hi\" <b>&" ++
    [0x5C, 0x07, 0x0A, 0xEF, 0xBF, 0xBD, 0xEF, 0xBF, 0xBD, 0x20, 0xE2, 0x80, 0xA8, 0xC3, 0xA9, 0xF0, 0x9F, 0x98, 0x80] := by decide +kernel
-- the block of two such items parses, completely, to the expected array (computed), as `json_text_of_items` says
example : (parseText (encodeItems exF [exItem, exItem])).map (JVal.beq (expectedJson exF [exItem, exItem])) = some true := by
  decide +kernel
example : parseText (encodeItems exF [exItem]) = some (expectedJson exF [exItem]) := (json_text_of_items exF exF_str exF_num _).2
example : ((parseText (encodeItems exF [exItem])).map fun v => JVal.beq v (.arr [.obj [
    (bs "command", .str (toValid hostile)), (bs "description", .str []),
    (bs "keywords", .arr [.str (bs "a<b"), .str [0xEF, 0xBF, 0xBD]]), (bs "category", .str (bs "net")),
    (bs "score", .num (bs "3"))]])) = some true := by decide +kernel
-- no items: `[]` and the newline
example : encodeItems exF [] = bs "[]\n" ∧ (parseText (encodeItems exF [])).map (JVal.beq (.arr [])) = some true := by decide
-- the recogniser rejects what the encoder must not write: a raw control byte, invalid UTF-8, an unknown escape, a missing
-- bracket, a trailing comma, a missing colon, text after the value, an unescaped quote, a surrogate escape
example : (parseText (bs "[\"a\tb\"]")).isNone ∧ (parseText ([0x22, 0xFF, 0x22])).isNone ∧ (parseText (bs "[\"a\\qb\"]")).isNone ∧
    (parseText (bs "[{\"a\": 1}")).isNone ∧ (parseText (bs "[1,]")).isNone ∧ (parseText (bs "{\"a\" 1}")).isNone ∧
    (parseText (bs "[1] x")).isNone ∧ (parseText (bs "\"a\"b\"")).isNone ∧ (parseText (bs "[\"\\ud800\"]")).isNone := by
  decide +kernel
-- and accepts the rest of the grammar
example : (parseText (bs " [1, 2.5e-3, -0, true, false, null, {\"a\": [], \"b\": {}}, \"\\u00e9\\n\\/\"]\r\n")).map
    (JVal.beq (.arr [.num (bs "1"), .num (bs "2.5e-3"), .num (bs "-0"), .bool true, .bool false, .null,
      .obj [(bs "a", .arr []), (bs "b", .obj [])], .str [0xC3, 0xA9, 0x0A, 0x2F]])) = some true := by decide +kernel
-- a string encoder that copies the bytes (what `fmt.Printf("\"%s\"")` would do) does NOT give a JSON text on this item
example : (parseText (encodeItems { exF with jsonStr := fun b => [0x22] ++ b ++ [0x22] } [exItem])).isNone := by decide +kernel
-- nor does a number formatter that writes NaN
example : (parseText (encodeItems { exF with jsonNum := fun _ => bs "NaN" } [exItem])).isNone := by decide +kernel

-- `json_wellformed` on a concrete run: two results, verbose
private def exDocs : Nat → Doc
  | 0 => { command := hostile, description := bs "List <files>", niche := bs "files", keywords := [bs "list", [0xFF]], platform := [bs "linux"] }
  | _ => { command := bs "tar czf a.tgz dir", description := bs "Compress a directory" }

private def exWorld : World Int where
  vquery := .ok (bs "list files")
  engine := fun o => [((1 : Nat), (7 : Int)), (0, 3)].take o.limit.toNat
  recovery := none
  gate := fun _ _ => true
  hist := { entries := [], maxSize := Gen.Cli.historyMax }
  docs := exDocs
  F := exF

private def exFlags : Flags := { format := bs "JSON", verbose := true }

-- the hypotheses of `json_wellformed` hold of this run (`ScoreLaws` is a class of ordered fields, Proofs/ScoreField.lean;
-- the integers serve to run the model) ...
example : formatOf exFlags.format = .json ∧ exWorld.F.jsonStr = jsonStrModel ∧ NumOK exWorld.F ∧
    (cliSearch exFlags exWorld).stage = .printed := ⟨by decide, exF_str, exF_num, by decide⟩
-- ... and its conclusion, computed: two objects, the hostile entry second (score 3 < 7), every member read back
example : (parseText (cliSearch exFlags exWorld).block).map (JVal.beq (.arr [
    .obj [(bs "command", .str (bs "tar czf a.tgz dir")), (bs "description", .str (bs "Compress a directory")), (bs "score", .num (bs "7"))],
    .obj [(bs "command", .str (toValid hostile)), (bs "description", .str (bs "List <files>")),
          (bs "keywords", .arr [.str (bs "list"), .str [0xEF, 0xBF, 0xBD]]), (bs "category", .str (bs "files")),
          (bs "platforms", .arr [.str (bs "linux")]), (bs "score", .num (bs "3"))]])) = some true := by
  rw [(block_of_answer exFlags exWorld rfl (by decide : Validate.validateLimit 0 = .ok 5) rfl (by decide) (by decide)).1]
  decide +kernel

end examples

end Wtf.C17
