import WtfModel.Proofs.ConcLru
import WtfModel.Gen.Lru

/-!
  C11 — concurrent searches are race-free and answer as if alone.

  What is proved here, and over what:

  * `discipline`, `lru_ops_atomic`, `search_writes_nothing` are statements about the CURRENT SOURCE: they
    are decided by evaluation on `Gen.LockFacts`, which the translator regenerates from /repo on every
    run (lock taken, fields read / written / accessed atomically per lock phase, helper calls, the
    closure of the operations C11 quantifies over, the shared-state write set of a search).
  * `mutex`, `linearizable`, `linearizable_lru`, `cached_hits_agree`, `search_alone`, `counter_*`
    are statements about the small-step MODEL of Model/Conc.lean, for every number of threads, every
    program and every interleaving.
  * NOT modelled: the Go memory model and scheduler (a critical section is a load step and a store
    step; instruction-level data-race freedom of the code rests on the lock discipline above plus
    the race-detector runs of the check, which are support, not proof); container/list, sync.RWMutex
    and sync/atomic are taken at their documented semantics.

  Scope.  C11 quantifies over SearchUniversal / cached search / monitored search / InvalidateCache /
  CleanupExpiredCache / GetCacheStats (+ the performance report) and Get / Put / Delete / Size / Stats
  (+ Keys / CleanupExpired / Clear / Capacity) on one LRU cache.  `Enable` (Manager, SearchCache,
  PerformanceMonitor) and `Collector.Reset` are NOT among them; they write plain fields that the
  operations above read without a lock.  That is recorded explicitly in
  `discipline_exceptions_documented` (and listed at run time by Audit/C11Exceptions.lean).
-/
namespace Wtf.C11
open Wtf.Conc Wtf.ConcLru Wtf.Lru Wtf.LockDiscipline
open Wtf.Gen.LockFacts (methods dbGuardFound dbUnguardedWrites dbGuardedWrites)

/-! ## 1. Lock discipline of the current source -/

/-- Every method of the cache / metrics types that is reachable from the operations C11 quantifies
    over obeys the discipline (`UnitOK`): its lock protocol is regular (lock at top level, unlock
    deferred or on every path, nothing inside loops), every ordinary store to receiver state -- direct,
    through `list.MoveToFront/PushFront/Remove/Init`, `delete`, map stores, or through pointers read
    out of the receiver, in the method itself or in the lock-free helpers it calls -- happens under the
    exclusive lock, code that holds no lock reads only fields no operation in scope writes, and fields
    accessed through sync/atomic are accessed in no other way. -/
theorem discipline : Disciplined methods true ∧ violations methods true = [] := by
  constructor <;> decide

/-- The five mutating LRU operations take the exclusive lock; every LRU operation takes the lock,
    and is ONE critical section (exactly one locked phase: it never releases and re-acquires). -/
theorem lru_ops_atomic :
    (∀ n ∈ ["Get", "Put", "Delete", "Clear", "CleanupExpired"], lockOf methods "LRUCache" n = .exclusive) ∧
    (∀ n ∈ lruMethods, lockOf methods "LRUCache" n ≠ .none ∧
        (find methods "LRUCache" n).map lockedPhases = some 1 ∧
        (find methods "LRUCache" n).map (·.irregular) = some []) := by
  constructor <;> decide

/-- plain fields that some method OUTSIDE the scope of C11 writes while operations inside the scope
    read them without a lock -/
def documentedUnsynchronised : List (String × String) :=
  [("Manager", "enabled"), ("SearchCache", "enabled"), ("PerformanceMonitor", "enabled"),
   ("Collector", "counters"), ("Collector", "gauges"), ("Collector", "histograms"),
   ("Collector", "timers"), ("Collector", "startTime")]

/- The full-strength statement over ALL methods, `Disciplined methods false`, is FALSE on the current
   source (`example : ¬ Disciplined methods false := by decide` checks; it is not kept as a theorem
   because repairing `Enable` would then break this file).  The failing (method, rule, field) triples
   are printed by Audit/C11Exceptions.lean on every run and copied into the evidence file. -/

/-- Every failure of the discipline outside the scope of C11 concerns one of the documented fields (`Enable` writes the plain bool
    `enabled` that `Get`/`Put`/`IsEnabled`/`Record…` read without a lock; `Collector.Reset` replaces
    the registry maps whose headers `Counter`/`Gauge`/`Histogram`/`Timer` read before locking). -/
theorem discipline_exceptions_documented :
    ∀ v ∈ violations methods false, (v.typ, v.field) ∈ documentedUnsynchronised := by decide

/-! ## 2. The lock model -/

/-- In every reachable state, a thread that holds the lock exclusively excludes every other holder
    (no hypothesis on the specification). -/
theorem mutex {σ ι ο : Type} (S : Spec σ ι ο) (s0 : σ) (progs : List (List ι)) (sched : List Nat)
    (t u : Nat) (htu : t ≠ u) :
    let s := exec S (init s0 progs) sched
    holdsExcl S (s.threads t) → ¬ holdsAny (s.threads u) := by
  intro s ht
  exact inv_mutex (inv_exec (inv_init S s0 progs) sched) t u htu ht

/-- ... and the lock word agrees with the threads: the writer field names the exclusive holder, the
    reader list the shared holders, and they are never both non-empty. -/
theorem lock_state {σ ι ο : Type} (S : Spec σ ι ο) (s0 : σ) (progs : List (List ι)) (sched : List Nat) :
    let s := exec S (init s0 progs) sched
    (∀ t, holdsExcl S (s.threads t) ↔ s.lock.writer = some t) ∧
    (∀ t, holdsShared S (s.threads t) ↔ t ∈ s.lock.readers) ∧
    (s.lock.writer ≠ none → s.lock.readers = []) := by
  intro s
  have h := inv_exec (inv_init S s0 progs) sched
  exact ⟨h.wr, h.rd, h.wr_rd⟩

/-! ## 3. Linearizability -/

/-- GENERIC.  For every sequential specification `step`, every assignment of lock modes under which
    shared-mode operations do not change the object (`ReadersPure`: the discipline), every number of
    threads, every program and every interleaving: whenever no operation is pending, the history of
    completed operations has a sequential witness `w` --
      the same operations (a permutation),
      consistent with real time (if A returned before B was invoked, A is not after B),
      a legal run of `step` from the initial object with exactly the observed outputs --
    and the object is in the state that run ends in.  The linearization point is the commit step of
    the critical section. -/
theorem linearizable {σ ι ο : Type} (S : Spec σ ι ο) (hp : ReadersPure S) (s0 : σ)
    (progs : List (List ι)) (sched : List Nat) :
    let s := exec S (init s0 progs) sched
    Quiescent s →
    ∃ w, IsLinearization S.step s0 s.hist w ∧ (runSeq S.step s0 (w.map (·.op))).1 = s.obj := by
  intro s hq
  exact ⟨_, inv_linearization hp (inv_exec (inv_init S s0 progs) sched) hq⟩

section LRU
variable {κ ν : Type} [DecidableEq κ]

/-- The discipline on the model side, discharged from the regenerated lock facts: every LRU operation
    for which the Go method takes only the shared lock leaves the model state unchanged.  (If `Get`
    took `RLock`, `lruMode (.get k)` would be `shared` and this would be false: `get` moves the entry.) -/
theorem lru_readers_pure : ReadersPure (lruSpec (κ := κ) (ν := ν)) := by
  intro ⟨now, op⟩ s h
  have hx := lru_ops_atomic.1
  cases op with
  | get k => exact absurd h (by simp [lruSpec, lruMode, lruMethod, modeOfLock, hx "Get" (by simp)])
  | put k v => exact absurd h (by simp [lruSpec, lruMode, lruMethod, modeOfLock, hx "Put" (by simp)])
  | delete k => exact absurd h (by simp [lruSpec, lruMode, lruMethod, modeOfLock, hx "Delete" (by simp)])
  | clear => exact absurd h (by simp [lruSpec, lruMode, lruMethod, modeOfLock, hx "Clear" (by simp)])
  | cleanup => exact absurd h (by simp [lruSpec, lruMode, lruMethod, modeOfLock, hx "CleanupExpired" (by simp)])
  | size => rfl
  | stats => rfl
  | keys => rfl

/-- THE LRU CACHE.  With the lock modes of the current source (`Gen.LockFacts`), for every requested
    capacity and lifetime, every clock reading inside the critical sections, every program and every
    interleaving: a complete history of Get / Put / Delete / Clear / CleanupExpired / Size / Stats /
    Keys is linearizable with respect to the sequential model `Wtf.Lru.step` of C12 (`Lru.run` is its
    fold), and the cache ends in the state of that sequential run. -/
theorem linearizable_lru (cap ttl : Int) (progs : List (List (Int × Op κ ν))) (sched : List Nat) :
    let s0 : State κ ν := Lru.init Wtf.Gen.Lru.defaultCapacity cap ttl
    let s := exec lruSpec (init s0 progs) sched
    Quiescent s →
    ∃ w : List (Rec (Int × Op κ ν) (Out κ ν)),
      w.Perm s.hist ∧
      w.Pairwise (fun a b => ¬ b.res < a.inv) ∧
      (Lru.run s0 (w.map (·.op))).2 = w.map (·.out) ∧
      (Lru.run s0 (w.map (·.op))).1 = s.obj := by
  intro s0 s hq
  obtain ⟨w, hw, hfin⟩ := linearizable lruSpec lru_readers_pure s0 progs sched hq
  refine ⟨w, hw.perm, hw.realtime, ?_, ?_⟩
  · rw [← runSeq_eq_run]; exact hw.legal
  · rw [← runSeq_eq_run]; exact hfin

/-- The cached search "answers as if alone" as far as the cache is concerned: if every completed `Put k v`
    stored `v = f k` (the search result the key stands for -- that the key determines the answer is
    C05), then in every complete concurrent history every `Get k` that hit returned `f k`. -/
theorem cached_hits_agree (f : κ → ν) (cap ttl : Int) (progs : List (List (Int × Op κ ν))) (sched : List Nat) :
    let s0 : State κ ν := Lru.init Wtf.Gen.Lru.defaultCapacity cap ttl
    let s := exec lruSpec (init s0 progs) sched
    Quiescent s → (∀ r ∈ s.hist, PutsAgree f r.op.2) →
    ∀ r ∈ s.hist, ∀ k v, r.op.2 = .get k → r.out = .val (some v) → v = f k := by
  intro s0 s hq hputs r hr k v hk hv
  obtain ⟨w, hperm, _, hleg, _⟩ := linearizable_lru cap ttl progs sched hq
  have hrw : r ∈ w := hperm.symm.subset hr
  have hz : ∀ (l : List (Rec (Int × Op κ ν) (Out κ ν))), r ∈ l → (r.op, r.out) ∈ (l.map (·.op)).zip (l.map (·.out)) := by
    intro l
    induction l with
    | nil => intro h; cases h
    | cons x xs ih =>
      intro h
      simp only [List.map_cons, List.zip_cons_cons, List.mem_cons]
      rcases List.mem_cons.mp h with rfl | h'
      · exact Or.inl rfl
      · exact Or.inr (ih h')
  have hmem := hz w hrw
  rw [← hleg] at hmem
  have hinit : ValOK f s0 := by intro e he; simp [s0, Lru.init] at he
  have hp' : ∀ x ∈ w.map (·.op), PutsAgree f x.2 := by
    intro x hx
    obtain ⟨r', hr', rfl⟩ := List.mem_map.mp hx
    exact hputs r' (hperm.subset hr')
  exact run_gets_agree f hinit (w.map (·.op)) hp' (r.op, r.out) hmem k v hk hv

/-- The executable checker run by the driver domain `linearize` accepts exactly the linearizable
    histories (for any sequential specification; the driver uses `Lru.step` with `keys` sorted). -/
theorem checker_correct {σ ι ο : Type} [DecidableEq ο] (step : σ → ι → σ × ο) (s0 : σ) (h : List (Rec ι ο)) :
    linearizable? step s0 h = true ↔ Linearizable step s0 h :=
  linearizable?_iff step s0 h

end LRU

/-! ## 4. Searches on a loaded database -/

/-- THE CURRENT SOURCE: `SearchUniversal` starts with `if db.uIndex == nil || db.uIndex.N != len(db.Commands)
    { rebuild }`, and outside that block no function reachable from it stores to memory reachable from
    a `Database` (fields, index, TF-IDF tables, commands, embeddings) or to a package-level variable.
    On a loaded database (`uIndex ≠ nil ∧ N = len`) the guard is false, so a search writes nothing
    that another search can read. -/
theorem search_writes_nothing : dbGuardFound = true ∧ dbUnguardedWrites = [] ∧ dbGuardedWrites ≠ [] := by
  decide

/-- THE MODEL: readers that take no lock and read the database piecemeal (chunk by chunk, arbitrarily
    interleaved with each other and with every other operation).  If the other operations do not write
    the database (`hwr`, which is what `search_writes_nothing` says of the code on a loaded database),
    then after ANY schedule reader `t` holds exactly the chunks it would have read running alone:
    `readAlone db₀ n` for its own number `n` of steps.  Its answer, a function of those chunks, is
    therefore the one it returns when run alone, whatever the interleaving. -/
theorem search_alone {δ α ω : Type} (chunk : δ → Nat → α) (wr : ω → δ → δ) (hwr : ∀ w d, wr w d = d)
    (db0 : δ) (sched : List (RAct ω)) (t : Nat) :
    (rexec chunk wr ⟨db0, fun _ => []⟩ sched).got t = readAlone chunk db0 (countReads t sched) ∧
    (rexec chunk wr ⟨db0, fun _ => []⟩ sched).db = db0 := by
  have h := rexec_alone chunk wr hwr ⟨db0, fun _ => []⟩ (by intro t; rfl) sched
  refine ⟨?_, h.1⟩
  have := h.2 t
  simpa using this

/-- The hypothesis is needed: with a search that lazily writes shared scratch state (`wr` not the
    identity) a reader can see a mixture no solitary run produces. -/
theorem search_torn_if_written :
    ∃ (chunk : Nat → Nat → Nat) (wr : Unit → Nat → Nat) (sched : List (RAct Unit)),
      ∀ k, (rexec chunk wr ⟨0, fun _ => []⟩ sched).got 0 ≠ readAlone chunk 0 k := by
  refine ⟨fun db _ => db, fun _ d => d + 1, [.read 0, .other (), .read 0], ?_⟩
  intro k
  match k with
  | 0 => decide
  | 1 => decide
  | 2 => decide
  | k + 3 =>
    intro h
    have := congrArg List.length h
    simp [rexec, rstep, readAlone_length] at this

/-! ## 5. Counters -/

/-- Atomic adds lose nothing, at any moment: value + what is still to be added = the total, for every
    interleaving (not only at the end). -/
theorem counter_no_loss (v0 : Int) (progs : List (List Int)) (sched : List Nat) :
    let c := (AtomicCounter.mk v0 progs).exec sched
    c.val + sumAll c.progs = v0 + sumAll progs :=
  AtomicCounter.exec_total _ _

/-- When all threads are done the counter equals the sum of all deltas ... -/
theorem counter_total (progs : List (List Int)) (sched : List Nat) :
    let c := (AtomicCounter.mk 0 progs).exec sched
    c.done → c.val = sumAll progs := by
  intro c hd
  have h : c.val + sumAll c.progs = 0 + sumAll progs := AtomicCounter.exec_total (AtomicCounter.mk 0 progs) sched
  rw [sumAll_done hd] at h
  omega

/-- ... in particular, with `Inc` only, the number of `Inc` calls. -/
theorem counter_total_inc (progs : List (List Int)) (hinc : ∀ p ∈ progs, ∀ d ∈ p, d = 1) (sched : List Nat) :
    let c := (AtomicCounter.mk 0 progs).exec sched
    c.done → c.val = ((progs.map List.length).sum : Nat) := by
  intro c hd
  rw [← sumAll_ones hinc]
  exact counter_total progs sched hd

/-- Without atomics (`c.value++` = load; store) an increment is lost under some interleaving. -/
theorem counter_lossy :
    ∃ (threads : List RacyThread) (sched : List Nat),
      let c := (RacyCounter.mk 0 threads).exec sched
      c.done ∧ c.val = 1 ∧ (threads.map (fun t => t.prog.sum)).sum = 2 := by
  refine ⟨[⟨[1], none⟩, ⟨[1], none⟩], [0, 1, 0, 1], ?_⟩
  decide

/-! ## 6. Non-vacuity -/

/-- Two threads, overlapping operations on a capacity-1 cache: thread 0 puts `a` while thread 1 puts
    `b` (evicting one of them) and then both read.  The schedule below interleaves the critical
    sections' surroundings; the run ends quiescent with four completed, overlapping operations. -/
def demoProgs : List (List (Int × Op Nat Nat)) :=
  [[(0, .put 1 10), (0, .get 1)], [(0, .put 2 20), (0, .size)]]

def demoSched : List Nat :=
  [0, 1, 0, 0, 1, 0, 0, 1, 1, 0, 1, 1, 1, 0, 0, 0, 1, 1, 0, 0, 0, 1, 1, 1, 1, 1]

def demo : Sys (State Nat Nat) (Int × Op Nat Nat) (Out Nat Nat) :=
  exec lruSpec (init (Lru.init Wtf.Gen.Lru.defaultCapacity 1 0) demoProgs) demoSched

example : demo.hist.length = 4 ∧ (demo.threads 0).prog = [] ∧ (demo.threads 1).prog = [] := by decide

/-- the two puts overlap in real time, and the reader of key 1 misses because the later put evicted it -/
example : demo.hist.map (fun r => (r.tid, r.inv, r.res)) = [(0, 0, 3), (1, 1, 5), (0, 6, 9), (1, 7, 11)] ∧
    demo.hist.map (·.out) = [.unit, .unit, .val none, .nat 1] ∧
    demo.trace.map (fun e => (e.tid, e.lin)) = [(0, 2), (1, 4), (0, 8), (1, 10)] := by decide

/-- the demo run is quiescent (so `linearizable_lru` applies to it non-vacuously) -/
example : Quiescent demo := by
  intro t
  match t with
  | 0 => rfl
  | 1 => rfl
  | t + 2 => rfl

example : linearizable? (lruSpec (κ := Nat) (ν := Nat)).step (Lru.init Wtf.Gen.Lru.defaultCapacity 1 0) demo.hist = true := by
  decide

/-- the checker rejects: a put that returned strictly before a get of the same key was invoked, cache
    large enough, no expiry -- yet the get missed -/
example : linearizable? (lruSpec (κ := Nat) (ν := Nat)).step (Lru.init Wtf.Gen.Lru.defaultCapacity 2 0)
    [⟨0, (0, .put 1 10), .unit, 0, 1⟩, ⟨1, (0, .get 1), .val none, 2, 3⟩] = false := by decide

/-- the same two operations overlapping: the miss is explained by ordering the get first -/
example : linearizable? (lruSpec (κ := Nat) (ν := Nat)).step (Lru.init Wtf.Gen.Lru.defaultCapacity 2 0)
    [⟨0, (0, .put 1 10), .unit, 0, 3⟩, ⟨1, (0, .get 1), .val none, 1, 2⟩] = true := by decide

/-- atomic counter: 3 threads, any order, nothing lost -/
example : ((AtomicCounter.mk 0 [[1, 1], [1], [1, 1, 1]]).exec [2, 0, 2, 1, 0, 2]).val = 6 := by decide

end Wtf.C11
