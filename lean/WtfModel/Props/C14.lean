import WtfModel.Proofs.Validate

/-!
  C14 — accepted queries are clean; validation is stable and decisive.

  Property theorems only (lemmas: Proofs/ValidateUtf8.lean, ValidateText.lean, Validate.lean).  `validate`
  and `validateLimit` are the models of `validation.ValidateQuery` / `ValidateLimit` in
  Model/Validate.lean.  All statements quantify over every byte string `q : Bytes = List UInt8`
  (well-formed UTF-8 or not) and every integer.

  Vocabulary: `decodeGo q` are the runes Go's `range` yields (an invalid byte is one rune, value U+FFFD);
  `chars q` their values; `runeCount` = `utf8.RuneCountInString`; `validUTF8` = `utf8.ValidString`;
  `encodeGo cs` is the Go string holding code points `cs`; `isSpace` / `isControl` = `unicode.IsSpace` /
  `unicode.IsControl` (tables compared with the toolchain over all code points on every run);
  `isShellMeta` is membership in the property's list `< > | & ; $`;
  `stripCtl` is the text after the control strip (U+000A and U+0009 are exempted by the code; a byte that
  is not valid UTF-8 is written as the one byte `Gen.Validate.invalidRepl` = `'?'`).

  History (finding K01, repaired): the strip used to be `strings.Map`, which wrote U+FFFD — three bytes — for
  every invalid byte; 334 × `FF` was accepted, came back 1002 bytes long and was rejected by a second
  validation.  `idem` is now unconditional, `clean_bytes` too; `idem_old_witness` keeps the old input.
-/
namespace Wtf.C14
open Wtf Wtf.Validate

/-- What the theorems below need from the regenerated facts (`Gen.Constants`, `Gen.Validate`): the length
    limit is 1000, the largest limit 100, the default limit lies in 1..100, the rejected class is exactly
    the property's six metacharacters, every control character exempted from the strip is white space
    (so it cannot survive `Fields`), and the byte written for an invalid byte is a single ASCII byte that is
    neither white space, nor a control character, nor a metacharacter (like U+FFFD, the value Go gives an
    invalid byte, so that replacing does not change any test the function makes). -/
theorem gen_facts_ok :
    maxQueryLength = 1000 ∧ maxLimit = 100 ∧ 1 ≤ defaultLimit ∧ defaultLimit ≤ 100 ∧
    (∀ c, isMeta c = isShellMeta c) ∧
    Wtf.Gen.Validate.keptControls.all isSpace = true ∧
    (Wtf.Gen.Validate.invalidRepl < 0x80 ∧ isSpace Wtf.Gen.Validate.invalidRepl = false ∧
      isControl Wtf.Gen.Validate.invalidRepl = false ∧ isShellMeta Wtf.Gen.Validate.invalidRepl = false) :=
  ⟨by decide, by decide, by decide, by decide, isMeta_eq_shell, by decide, by decide, by decide, by decide, by decide⟩

/-! ## Acceptance -/

/-- A query is accepted exactly when it is at most 1000 bytes long, contains none of the metacharacter
    bytes, and the text left by the control strip is not blank. -/
theorem accept_iff (q : Bytes) :
    (∃ r, validate q = .ok r) ↔
      q.length ≤ 1000 ∧ (∀ b ∈ q, isShellMeta b.toNat = false) ∧
      (∃ c ∈ stripCtl (decodeGo q), isSpace c = false) := by
  rw [validate_isOk_iff, maxQueryLength_eq, ← meta_bytes_iff]
  simp only [isMeta_eq_shell]
  constructor
  · rintro ⟨h1, h2, ru, hru, hk, hs⟩
    rw [← kept_out] at hk; rw [← isSpace_out] at hs
    exact ⟨h1, h2, ru.out, mem_stripCtl.mpr ⟨hk, ru, hru, rfl⟩, hs⟩
  · rintro ⟨h1, h2, c, hc, hs⟩
    obtain ⟨hk, ru, hru, rfl⟩ := mem_stripCtl.mp hc
    rw [kept_out] at hk; rw [isSpace_out] at hs
    exact ⟨h1, h2, ru, hru, hk, hs⟩

/-- The same with *all* control characters removed (the code keeps newline and tab, which are white space
    and therefore irrelevant for blankness): some character is neither a control character nor white space.
    Characters are those of the *input* as Go decodes it (an invalid byte is the character U+FFFD). -/
theorem accept_iff_all_controls (q : Bytes) :
    (∃ r, validate q = .ok r) ↔
      q.length ≤ 1000 ∧ (∀ b ∈ q, isShellMeta b.toNat = false) ∧
      (∃ c ∈ chars q, isControl c = false ∧ isSpace c = false) := by
  rw [accept_iff]
  refine and_congr_right fun _ => and_congr_right fun _ => ?_
  constructor
  · rintro ⟨c, hc, hs⟩
    obtain ⟨hk, ru, hru, rfl⟩ := mem_stripCtl.mp hc
    rw [kept_out] at hk; rw [isSpace_out] at hs
    exact ⟨ru.val, List.mem_map.mpr ⟨ru, hru, rfl⟩, not_control_of_kept_nonspace hk hs, hs⟩
  · rintro ⟨c, hc, hctl, hs⟩
    obtain ⟨ru, hru, rfl⟩ := List.mem_map.mp hc
    rw [← isControl_out] at hctl; rw [← isSpace_out] at hs
    exact ⟨ru.out, mem_stripCtl.mpr ⟨kept_of_not_control hctl, ru, hru, rfl⟩, hs⟩

/-! ## Accepted queries are clean -/

/-- An accepted query comes back as non-empty well-formed UTF-8 without control characters, without
    metacharacters (as characters and as bytes), with no white space other than single U+0020 between
    words (none at either end, no two adjacent), and with at most as many characters (runes, as Go counts
    them: an invalid byte is one character) as the input had. -/
theorem clean {q r : Bytes} (h : validate q = .ok r) :
    validUTF8 r ∧ r ≠ [] ∧
    (∀ c ∈ chars r, isControl c = false ∧ isShellMeta c = false ∧ (isSpace c = true → c = 0x20)) ∧
    (∀ b ∈ r, isShellMeta b.toNat = false) ∧
    noEdgeSpace (chars r) ∧ noAdjSpace (chars r) ∧
    runeCount r ≤ runeCount q := by
  obtain ⟨_, _, h3, h4, rfl⟩ := (validate_ok_iff q r).mp h
  have hc := clean_outOf_go h3 h4
  have hd : decodeGo (encodeGo (outOf (decodeGo q))) = (outOf (decodeGo q)).map .cp := decode_encode _ hc.scal
  have hch : chars (encodeGo (outOf (decodeGo q))) = outOf (decodeGo q) := by
    unfold chars; rw [hd]; simp [Rune.val, Function.comp_def]
  have hmeta : ∀ c ∈ outOf (decodeGo q), isShellMeta c = false := fun c hc' => by
    rw [← isMeta_eq_shell]; exact hc.noMeta c hc'
  refine ⟨?_, ?_, ?_, ?_, ?_, ?_, ?_⟩
  · intro ru hru
    rw [hd] at hru
    obtain ⟨c, _, rfl⟩ := List.mem_map.mp hru
    rfl
  · intro he
    have := congrArg List.length he
    rw [length_encodeGo, encodeAll_length] at this
    have hne := hc.ne_nil
    cases ho : outOf (decodeGo q) with
    | nil => exact hne ho
    | cons c l =>
      rw [ho, weight_cons] at this
      have := byteLen_pos c
      simp at *; omega
  · intro c hc'
    rw [hch] at hc'
    exact ⟨hc.noCtl c hc', hmeta c hc', hc.spaces c hc'⟩
  · have := (meta_bytes_iff (encodeGo (outOf (decodeGo q)))).mpr (by
      intro ru hru
      rw [hd] at hru
      obtain ⟨c, hc', rfl⟩ := List.mem_map.mp hru
      exact hc.noMeta c hc')
    intro b hb
    rw [← isMeta_eq_shell]; exact this b hb
  · rw [hch]; exact hc.noEdge
  · rw [hch]; exact hc.noAdj
  · unfold runeCount
    rw [hd, List.length_map]
    exact length_outOf_le _

/-- Bytes: the result is never longer than the input (in particular never longer than 1000 bytes).  "No more
    characters than it had" therefore holds for both readings of "character": runes (`clean`) and bytes. -/
theorem clean_bytes {q r : Bytes} (h : validate q = .ok r) : r.length ≤ q.length ∧ r.length ≤ 1000 := by
  obtain ⟨_, hl, _, _, rfl⟩ := (validate_ok_iff q r).mp h
  have := bytes_outOf_le_go q
  rw [maxQueryLength_eq] at hl
  exact ⟨this, by omega⟩

/-- What comes back, exactly: the characters of the input without the control characters (other than newline
    and tab), each invalid byte replaced by `'?'`, split at white space and joined with single spaces. -/
theorem result_chars {q r : Bytes} (h : validate q = .ok r) :
    chars r = joinSp (fields (stripCtl (decodeGo q))) ∧ r = encodeGo (chars r) := by
  obtain ⟨_, _, h3, h4, rfl⟩ := (validate_ok_iff q r).mp h
  have hc := clean_outOf_go h3 h4
  have hd : decodeGo (encodeGo (outOf (decodeGo q))) = (outOf (decodeGo q)).map .cp := decode_encode _ hc.scal
  have hch : chars (encodeGo (outOf (decodeGo q))) = outOf (decodeGo q) := by
    unfold chars; rw [hd]; simp [Rune.val, Function.comp_def]
  rw [hch]
  exact ⟨outOf_eq _, rfl⟩

/-! ## Validating an already validated query -/

/-- Validating an already validated query returns it unchanged — for every byte string. -/
theorem idem {q r : Bytes} (h : validate q = .ok r) : validate r = .ok r := by
  have hl := (clean_bytes h).2
  obtain ⟨_, _, h3, h4, rfl⟩ := (validate_ok_iff q r).mp h
  have hc := clean_outOf_go h3 h4
  rw [validate_clean hc, maxQueryLength_eq, if_neg (by omega)]

/-- Every accepted result is a fixed point, and the fixed points are exactly the accepted results. -/
theorem idem_iff (r : Bytes) : validate r = .ok r ↔ ∃ q, validate q = .ok r :=
  ⟨fun h => ⟨r, h⟩, fun ⟨_, h⟩ => idem h⟩

/-- The input that refuted idempotence before the repair of K01 — 334 bytes `FF`, then answered with
    334 × U+FFFD = 1002 bytes — is accepted, comes back as 334 bytes `'?'`, and that text is a fixed point.
    The same holds at the length limit (1000 invalid bytes).  The check runs the first input on the real
    code on every run (monitor class `idem-invalid-utf8-expansion`). -/
theorem idem_old_witness :
    validate idemWitness = .ok (List.replicate 334 0x3F) ∧
    validate (List.replicate 334 0x3F) = .ok (List.replicate 334 0x3F) ∧
    validate (List.replicate 1000 0xFF) = .ok (List.replicate 1000 0x3F) ∧
    validate (List.replicate 1000 0x3F) = .ok (List.replicate 1000 0x3F) := by
  have h1 := validate_replicate_FF 334 (by omega) (by rw [maxQueryLength_eq]; omega)
  have h2 := validate_replicate_FF 1000 (by omega) (by rw [maxQueryLength_eq]; omega)
  exact ⟨h1, idem h1, h2, idem h2⟩

/-! ## Padding (used by C20) -/

/-- Leading and trailing white space (any of the 25 white-space characters, in any number) does not change
    the outcome, unless it pushes the raw byte length over the limit: stated without side conditions. -/
theorem pad_exact (s₁ s₂ : List Nat) (h₁ : ∀ c ∈ s₁, isSpace c = true) (h₂ : ∀ c ∈ s₂, isSpace c = true) (q : Bytes) :
    validate (encodeGo s₁ ++ q ++ encodeGo s₂) =
      if blank (decodeGo q) = true then .error .empty
      else if (encodeGo s₁ ++ q ++ encodeGo s₂).length > 1000 then .error .toolong
      else validate q := by
  obtain ⟨hs, hb⟩ := sanitize_pad s₁ s₂ h₁ h₂ (decodeGo q)
  rw [← decodeGo_pad s₁ s₂ h₁ h₂ q] at hs hb
  unfold validate
  simp only [hb, hs, maxQueryLength_eq]
  split
  · rfl
  · split
    · rfl
    · rename_i hl
      have : ¬ q.length > 1000 := by
        simp only [List.length_append] at hl; omega
      rw [if_neg this]

/-- The form C20 uses: padding that keeps the query within the length limit does not change the result. -/
theorem pad (s₁ s₂ : List Nat) (h₁ : ∀ c ∈ s₁, isSpace c = true) (h₂ : ∀ c ∈ s₂, isSpace c = true) (q : Bytes)
    (hlen : (encodeGo s₁ ++ q ++ encodeGo s₂).length ≤ 1000) :
    validate (encodeGo s₁ ++ q ++ encodeGo s₂) = validate q := by
  rw [pad_exact s₁ s₂ h₁ h₂ q]
  split
  · rename_i hb
    unfold validate
    simp [hb]
  · rw [if_neg (by omega)]

/-- An inner run of white space that contains at least one character surviving the control strip (any
    white space other than VT, FF, CR, NEL in the current tree) acts like a single plain space.  (A run made
    only of white-space characters that the control strip removes joins its neighbours instead, see the
    examples at the end.) -/
theorem pad_inner (s : List Nat) (hs : ∀ c ∈ s, isSpace c = true) (hk : ∃ c ∈ s, kept c = true) (a b : Bytes)
    (hlen : (a ++ encodeGo s ++ b).length ≤ 1000) :
    validate (a ++ encodeGo s ++ b) = validate (a ++ [0x20] ++ b) := by
  have hne : s ≠ [] := by obtain ⟨c, hc, _⟩ := hk; intro h; rw [h] at hc; simp at hc
  obtain ⟨h1, h2⟩ := sanitize_inner s hs hk (decodeGo a) (decodeGo b)
  have d1 := decodeGo_inner s hs hne a b
  have d2 := decodeGo_inner [0x20] (by intro c hc; simp at hc; subst hc; exact isSpace_sp) (by simp) a b
  rw [encodeGo_sp] at d2
  have d2' : decodeGo (a ++ [0x20] ++ b) = decodeGo a ++ [Rune.cp 0x20] ++ decodeGo b := by simpa using d2
  rw [← d1, ← d2'] at h1 h2
  have hl1 : 1 ≤ (encodeGo s).length := by
    rw [length_encodeGo, encodeAll_length]
    cases s with
    | nil => exact absurd rfl hne
    | cons c s => rw [weight_cons]; have := byteLen_pos c; omega
  have hl2 : ¬ (a ++ [0x20] ++ b).length > maxQueryLength := by
    rw [maxQueryLength_eq]; simp only [List.length_append, List.length_cons, List.length_nil] at *; omega
  have hl3 : ¬ (a ++ encodeGo s ++ b).length > maxQueryLength := by rw [maxQueryLength_eq]; omega
  unfold validate
  simp only [h1, h2, if_neg hl2, if_neg hl3]

/-! ## Limits -/

/-- An accepted limit is between 1 and 100; 0 means the default; any other accepted value is returned
    as given. -/
theorem limit {n m : Int} (h : validateLimit n = .ok m) :
    1 ≤ m ∧ m ≤ 100 ∧ (n = 0 → m = defaultLimit) ∧ (n ≠ 0 → m = n) := by
  have hd : 1 ≤ defaultLimit ∧ defaultLimit ≤ 100 := by decide
  unfold validateLimit at h
  rw [maxLimit_eq] at h
  split at h
  · cases h
  · split at h
    · injection h with h; subst h; rename_i h0; exact ⟨hd.1, hd.2, fun _ => rfl, fun hn => absurd h0 hn⟩
    · split at h
      · cases h
      · injection h with h; subst h
        refine ⟨by omega, by omega, fun h0 => by omega, fun _ => rfl⟩

/-- exactly the limits 0..100 are accepted; negative limits are answered with (0, error), limits above
    100 with (100, error) -/
theorem limit_accept_iff (n : Int) :
    ((∃ m, validateLimit n = .ok m) ↔ 0 ≤ n ∧ n ≤ 100) ∧
    (n < 0 → validateLimit n = .error 0) ∧ (100 < n → validateLimit n = .error 100) ∧
    validateLimit 0 = .ok defaultLimit := by
  unfold validateLimit
  rw [maxLimit_eq]
  refine ⟨?_, ?_, ?_, by decide⟩
  · constructor
    · rintro ⟨m, h⟩
      split at h
      · cases h
      · split at h
        · omega
        · split at h
          · cases h
          · omega
    · rintro ⟨h0, h1⟩
      rw [if_neg (by omega)]
      split
      · exact ⟨_, rfl⟩
      · rw [if_neg (by omega)]; exact ⟨_, rfl⟩
  · intro h; rw [if_pos h]
  · intro h; rw [if_neg (by omega), if_neg (by omega), if_pos h]

/-! ## Non-vacuity -/

-- acceptance, cleaning, trimming, collapsing: "  ls \t -la\n" ↦ "ls -la"
example : validate [0x20, 0x20, 0x6C, 0x73, 0x20, 0x09, 0x20, 0x2D, 0x6C, 0x61, 0x0A] = .ok [0x6C, 0x73, 0x20, 0x2D, 0x6C, 0x61] := by decide
-- control characters are removed, even when that joins words: "a\x00b\x7fc" ↦ "abc"
example : validate [0x61, 0x00, 0x62, 0x7F, 0x63] = .ok [0x61, 0x62, 0x63] := by decide
-- NBSP (C2 A0) and U+3000 (E3 80 80) are separators: ↦ "a b"
example : validate [0x61, 0xC2, 0xA0, 0xE3, 0x80, 0x80, 0x62] = .ok [0x61, 0x20, 0x62] := by decide
-- each rejection reason occurs; the metacharacter test sees through control characters ("a\x00|b")
example : validate [0x20, 0x09, 0x0A] = .error .empty := by decide
example : validate [0x00, 0x7F] = .error .empty := by decide
example : validate [0x61, 0x00, 0x7C, 0x62] = .error .badchars := by decide
example : ∃ q : Bytes, q.length = 1001 ∧ validate q = .error .toolong := by
  refine ⟨0x61 :: List.replicate 1000 0x61, by rw [List.length_cons, List.length_replicate],
    validate_error_toolong ?_ (by rw [maxQueryLength_eq, List.length_cons, List.length_replicate]; omega)⟩
  generalize List.replicate 1000 (0x61 : UInt8) = t
  have h : decodeGo (0x61 :: t) = .cp 0x61 :: decodeGo t := by
    unfold decodeGo; rw [List.map_cons, decodeNat_cons]; simp [decode1]
  rw [h]
  have : isSpace 0x61 = false := by decide
  simp [blank, Rune.isBad, Rune.val, this]
-- invalid bytes are accepted and become '?' (one byte each); an overlong "space" C0 A0 is two invalid bytes, not
-- a space; a genuine U+FFFD (EF BF BD) is left alone
example : validate [0x61, 0xFF] = .ok [0x61, 0x3F] := by decide
example : validate [0xC0, 0xA0] = .ok [0x3F, 0x3F] := by decide
example : validate [0xEF, 0xBF, 0xBD, 0xFF] = .ok [0xEF, 0xBF, 0xBD, 0x3F] := by decide
-- why the invalid byte is not simply copied: the bytes around a removed control character must not join.
-- "a" C2 01 80 "b" (C2 and 80 invalid on their own, C2 80 = U+0080 is a control character) ↦ "a??b", a fixed point;
-- C2 01 A0 (C2 A0 = U+00A0 is white space) is accepted, as the property demands (U+FFFD U+FFFD is not blank) ↦ "??"
example : validate [0x61, 0xC2, 0x01, 0x80, 0x62] = .ok [0x61, 0x3F, 0x3F, 0x62] := by decide
example : validate [0x61, 0x3F, 0x3F, 0x62] = .ok [0x61, 0x3F, 0x3F, 0x62] := by decide
example : validate [0xC2, 0x01, 0xA0] = .ok [0x3F, 0x3F] := by decide
example : validate [0x61, 0xE2, 0x01, 0x80, 0x01, 0xA8, 0x62] = .ok [0x61, 0x3F, 0x3F, 0x3F, 0x62] := by decide
-- invalid bytes alone are not blank, with white space and controls around them: " \x00\xff\t" ↦ "?"
example : validate [0x20, 0x00, 0xFF, 0x09] = .ok [0x3F] := by decide
-- the hypotheses of pad / pad_inner are satisfiable and the conclusions are not trivial
example : validate (encodeGo [0x3000, 0x0D] ++ [0x6C, 0x73] ++ encodeGo [0x85, 0x20]) = .ok [0x6C, 0x73] := by decide
example : validate ([0x61] ++ encodeGo [0x0D, 0x2028] ++ [0x62]) = .ok [0x61, 0x20, 0x62] := by decide
-- ... and the side condition of pad_inner is needed: a white-space character that the control strip removes
-- joins its neighbours (with the exemption list [\n, \t] of the current tree "a\rb" ↦ "ab"); stated for any such character:
example (c : Nat) (hs : isSpace c = true) (hk : kept c = false) :
    stripCtl (decodeGo ([0x61] ++ encodeGo [c] ++ [0x62])) = [0x61, 0x62] := by
  rw [decodeGo_inner [c] (by intro x hx; simp at hx; subst hx; exact hs) (by simp)]
  have k1 : kept 0x61 = true := by decide
  have k2 : kept 0x62 = true := by decide
  simp [stripCtl_eq, decodeGo, decodeNat, decodeSkip, decode1, Rune.out, hk, k1, k2]
-- idempotence: "ls -la" is a fixed point; so is the result of an input with invalid bytes and controls
example : validate [0x6C, 0x73, 0x20, 0x2D, 0x6C, 0x61] = .ok [0x6C, 0x73, 0x20, 0x2D, 0x6C, 0x61] := by decide
example : validate [0x3F] = .ok [0x3F] := by decide
-- limits
example : validateLimit 0 = .ok defaultLimit ∧ validateLimit 1 = .ok 1 ∧ validateLimit 100 = .ok 100 ∧
    validateLimit 101 = .error 100 ∧ validateLimit (-1) = .error 0 := by decide

end Wtf.C14
