import WtfModel.Props.C02
import WtfModel.Props.C07c

/-!
  C02, continued — "commands whose scores tie are ordered by a fixed rule, never by chance", for the typo fallback.

  The fallback's order is that of `fuzzy.Find`, which sorts with `sort.Stable` and a `Less` that is not a strict order
  (`Score >=`): the documented contract of `sort.Stable` then says nothing about ties.  With the algorithm modelled
  (`Model/GoSort.lean`) the rule can be stated and proved: best library score first, equal library scores in reverse
  database order — and that order is the ONLY permutation of the matches with this property, so nothing else (block size,
  merge strategy, toolchain version, the run) can influence which tied command survives the limit.
  `Props/C02.lean` keeps the weaker statement (`search_function`: the model has no schedule argument).
-/
namespace Wtf.C02
open Wtf.Search

/-- **the fallback orders ties by a fixed rule**: the answer of a search that was answered by the typo fallback is the
    normalised image of (command index, library score) pairs listed by score, best first, and within a score by
    index, highest first -/
theorem fallback_ties_fixed_rule {S : Type} [ScoreOps S] (T : Tuning S) (hs : T.fuzzySort = GoSort.fuzzyStable) (db : Db)
    (q : Bytes) (o : Opts S) (r : List (Nat × S))
    (hoff : search T db q { o with useFuzzy := false } = .ok [])
    (hon : search T db q { o with useFuzzy := true } = .ok r) :
    ∃ ms : List (Nat × Int), r = ms.map (fun m => (m.1, normalizeFuzzy m.2)) ∧
      ms.Pairwise (fun a b => a.2 > b.2 ∨ (a.2 = b.2 ∧ a.1 > b.1)) :=
  Wtf.C07.fallback_tie_order T hs db q o r hoff hon

/-- **the library's sort is determined by its input**: on matches in index order it returns the unique permutation
    ordered by (score descending, index descending) -/
theorem fuzzy_order_unique (ms : List (Nat × Int)) (h : (ms.map (·.1)).Pairwise (· < ·)) (l : List (Nat × Int))
    (hp : l.Perm ms) (hl : l.Pairwise (fun a b => a.2 > b.2 ∨ (a.2 = b.2 ∧ a.1 > b.1))) : l = GoSort.fuzzyStable ms :=
  GoSort.fuzzyStable_unique ms h l hp hl

/-- non-vacuity: three matches with one score come out last index first -/
example : GoSort.fuzzyStable [(0, -3), (4, -3), (7, -3), (9, 2)] = [(9, 2), (7, -3), (4, -3), (0, -3)] := by decide

end Wtf.C02
