import WtfModel.Props.C05
import WtfModel.Props.C05b
#print axioms Wtf.C05.key_covers_reads
#print axioms Wtf.C05.code_shape
#print axioms Wtf.C05.proj_sound
#print axioms Wtf.C05.query_norm_sound
#print axioms Wtf.C05.finite_marshalOK
#print axioms Wtf.C05.no_sharing
#print axioms Wtf.C05.inv
#print axioms Wtf.C05.transparent
#print axioms Wtf.C05.update_clears
#print axioms Wtf.C05.disabled_bypasses
#print axioms Wtf.C05.switches_agree
#print axioms Wtf.C05.old_fallback_breaks_transparency
#print axioms Wtf.C05.key_names_ok
#print axioms Wtf.C05.key_text_injective
#print axioms Wtf.C05.key_families_disjoint
#print axioms Wtf.C05.enc_separates
#print axioms Wtf.C05.enc_separates_finite
#print axioms Wtf.C05.transparent_keyed
#print axioms Wtf.C05.transparent_keyed_finite
#print axioms Wtf.C05.no_sharing_keyed
#print axioms Wtf.C05.no_sharing_keyed_finite
#print axioms Wtf.C05.norm_valid_model
