import WtfModel.Props.C20
#print axioms Wtf.C20.search_normal_form
#print axioms Wtf.C20.toLower_caseVariant
#print axioms Wtf.C20.case_insensitive
#print axioms Wtf.C20.padding_insensitive
#print axioms Wtf.C20.same_key_component
