import WtfModel.Props.C04
#print axioms Wtf.C04.passes_iff
#print axioms Wtf.C04.platform
#print axioms Wtf.C04.pipeline
#print axioms Wtf.C04.fuzzy_path
#print axioms Wtf.C04.legacy_pipeline
#print axioms Wtf.C04.cli_recovery
#print axioms Wtf.C04.cached
#print axioms Wtf.C04.table_linux
#print axioms Wtf.C04.table_macos
#print axioms Wtf.C04.table_windows
#print axioms Wtf.C04.table_several
#print axioms Wtf.C04.table_cross
#print axioms Wtf.C04.table_pipeline
