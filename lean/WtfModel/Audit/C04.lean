import WtfModel.Props.C04b
#print axioms Wtf.C04.passes_iff
#print axioms Wtf.C04.platform
#print axioms Wtf.C04.pipeline
#print axioms Wtf.C04.fuzzy_path
#print axioms Wtf.C04.legacy_pipeline
#print axioms Wtf.C04.cli_recovery
#print axioms Wtf.C04.cached
#print axioms Wtf.C04.table_linux
#print axioms Wtf.C04.table_macos
#print axioms Wtf.C04.table_windows
#print axioms Wtf.C04.table_several
#print axioms Wtf.C04.table_cross
#print axioms Wtf.C04.table_pipeline
#print axioms Wtf.C04.hostOnly_is_default
#print axioms Wtf.C04.legacy_pipeline_modelled
#print axioms Wtf.C04.search_with_options_platform
#print axioms Wtf.C04.search_with_fuzzy_platform
