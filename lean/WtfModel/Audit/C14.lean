import WtfModel.Props.C14
#print axioms Wtf.C14.gen_facts_ok
#print axioms Wtf.C14.accept_iff
#print axioms Wtf.C14.accept_iff_all_controls
#print axioms Wtf.C14.clean
#print axioms Wtf.C14.clean_bytes
#print axioms Wtf.C14.result_chars
#print axioms Wtf.C14.idem
#print axioms Wtf.C14.idem_iff
#print axioms Wtf.C14.idem_old_witness
#print axioms Wtf.C14.pad_exact
#print axioms Wtf.C14.pad
#print axioms Wtf.C14.pad_inner
#print axioms Wtf.C14.limit
#print axioms Wtf.C14.limit_accept_iff
