import WtfModel.Props.C11
#print axioms Wtf.C11.discipline
#print axioms Wtf.C11.lru_ops_atomic
#print axioms Wtf.C11.discipline_exceptions_documented
#print axioms Wtf.C11.mutex
#print axioms Wtf.C11.lock_state
#print axioms Wtf.C11.linearizable
#print axioms Wtf.C11.lru_readers_pure
#print axioms Wtf.C11.linearizable_lru
#print axioms Wtf.C11.cached_hits_agree
#print axioms Wtf.C11.checker_correct
#print axioms Wtf.C11.search_writes_nothing
#print axioms Wtf.C11.search_alone
#print axioms Wtf.C11.search_torn_if_written
#print axioms Wtf.C11.counter_no_loss
#print axioms Wtf.C11.counter_total
#print axioms Wtf.C11.counter_total_inc
#print axioms Wtf.C11.counter_lossy
