import WtfModel.Props.C16
#print axioms Wtf.C16.gen_params_ok
#print axioms Wtf.C16.cli_max_positive
#print axioms Wtf.C16.bounded_ordered
#print axioms Wtf.C16.immediate_dup
#print axioms Wtf.C16.add_new_appends
#print axioms Wtf.C16.roundtrip
#print axioms Wtf.C16.roundtrip_history
#print axioms Wtf.C16.recent
#print axioms Wtf.C16.recent_head
#print axioms Wtf.C16.top_sum
#print axioms Wtf.C16.top_any_schedule
#print axioms Wtf.C16.stats
#print axioms Wtf.C16.add_no_panic
#print axioms Wtf.C16.add_no_panic_after_any_file
#print axioms Wtf.C16.raw_negative_max_panics
#print axioms Wtf.C16.raw_zero_max_drops
#print axioms Wtf.C16.unguarded_load_lets_file_break_add
