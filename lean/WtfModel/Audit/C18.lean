import WtfModel.Props.C18
#print axioms Wtf.C18.key_sched_indep
#print axioms Wtf.C18.key_tags_perm
#print axioms Wtf.C18.same_series
#print axioms Wtf.C18.events_land_in_one_series
#print axioms Wtf.C18.counter
#print axioms Wtf.C18.hist_count_sum
#print axioms Wtf.C18.buckets_sorted
#print axioms Wtf.C18.percentile_mono
#print axioms Wtf.C18.percentile_mono_default
#print axioms Wtf.C18.monitor_totals
#print axioms Wtf.C18.searches_total_sum
#print axioms Wtf.C18.counter_total_concurrent
#print axioms Wtf.C18.observe_serialised
