import WtfModel.Props.C09
#print axioms Wtf.C09.shape
#print axioms Wtf.C09.call_sites
#print axioms Wtf.C09.atomic
#print axioms Wtf.C09.atomic_crash
#print axioms Wtf.C09.inplace_unsafe
#print axioms Wtf.C09.inplace_unsafe_reported
#print axioms Wtf.C09.reports
#print axioms Wtf.C09.reported_error_means_unchanged
#print axioms Wtf.C09.no_success_without_effect
#print axioms Wtf.C09.earlier_loadable
#print axioms Wtf.C09.temp_left_behind
#print axioms Wtf.C09.temp_garbage_possible
#print axioms Wtf.C09.temp_name_ne_target
