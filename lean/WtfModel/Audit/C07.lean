import WtfModel.Props.C07b
import WtfModel.Props.C07c
#print axioms Wtf.C07.no_override
#print axioms Wtf.C07.fallback_only_when_nothing
#print axioms Wtf.C07.accepts_iff_subseq
#print axioms Wtf.C07.refinement
#print axioms Wtf.C07.target_nul_free
#print axioms Wtf.C07.eqFold_laws
#print axioms Wtf.C07.no_panic
#print axioms Wtf.C07.genuine
#print axioms Wtf.C07.best_first
#print axioms Wtf.C07.best_first_normalised
#print axioms Wtf.C07.complete
#print axioms Wtf.C07.empty_query_no_fallback
#print axioms Wtf.C07.normMono
#print axioms Wtf.C07.best_first_reported
#print axioms Wtf.C07.sortOK_of_goStable
#print axioms Wtf.C07.sortOK_modelledTuning
#print axioms Wtf.C07.genuine_sorted
#print axioms Wtf.C07.best_first_sorted
#print axioms Wtf.C07.best_first_reported_sorted
#print axioms Wtf.C07.complete_sorted
#print axioms Wtf.C07.fallback_tie_order
#print axioms Wtf.C07.fuzzy_sort_closed_form
