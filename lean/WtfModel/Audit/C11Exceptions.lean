import WtfModel.Model.LockDiscipline
/-! Prints the lock-discipline failures OUTSIDE the scope of C11 (documented exceptions) and, for
    completeness, those inside it (must be none).  Parsed by lib/props/c11.py into the evidence. -/
open Wtf.LockDiscipline Wtf.Gen.LockFacts
#eval IO.println ("C11-IN-SCOPE " ++ toString ((violations methods true).map (fun v => s!"{v.typ}.{v.method}:{v.rule}:{v.field}")))
#eval IO.println ("C11-ALL " ++ toString ((violations methods false).map (fun v => s!"{v.typ}.{v.method}:{v.rule}:{v.field}")))
