import WtfModel.Props.C02
import WtfModel.Props.C02b
#print axioms Wtf.C02.sites_clean
#print axioms Wtf.C02.no_other_nondeterminism
#print axioms Wtf.C02.sorts_stable
#print axioms Wtf.C02.sorted_enumeration_unique
#print axioms Wtf.C02.sort_ints_sched_indep
#print axioms Wtf.C02.collect_sched_indep
#print axioms Wtf.C02.search_function
#print axioms Wtf.C02.fallback_ties_fixed_rule
#print axioms Wtf.C02.fuzzy_order_unique
