import WtfModel.Props.C10
import WtfModel.Props.C07
#print axioms Wtf.C10.fuzzy_target_nul_free
#print axioms Wtf.C10.buffer_cap_safe
#print axioms Wtf.C10.buffer_cap_exact
#print axioms Wtf.C10.nul_panics_matcher
#print axioms Wtf.C10.search_panic_only_from_matcher
-- the unconditional panic-freedom of the search model (proved with the matcher analysis of C07)
#print axioms Wtf.C07.no_panic
#print axioms Wtf.C07.accepts_iff_subseq
