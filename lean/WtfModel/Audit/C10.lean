import WtfModel.Props.C10
#print axioms Wtf.C10.fuzzy_target_nul_free
#print axioms Wtf.C10.buffer_cap_safe
#print axioms Wtf.C10.buffer_cap_exact
#print axioms Wtf.C10.nul_panics_matcher
#print axioms Wtf.C10.search_panic_only_from_matcher
