import WtfModel.Props.C01
#print axioms Wtf.C01.params_match
#print axioms Wtf.C01.default_limits_pos
#print axioms Wtf.C01.universal
#print axioms Wtf.C01.limit_in_force
#print axioms Wtf.C01.source_params_sane
#print axioms Wtf.C01.idf_formula_nonneg
#print axioms Wtf.C01.fuzzy_scores_unit_interval
#print axioms Wtf.C01.error_only_in_typo_matcher
#print axioms Wtf.C01.nonempty_of_match
#print axioms Wtf.C01.factor_stage_preserves
#print axioms Wtf.C01.legacy_pipeline
#print axioms Wtf.C01.legacy_limit_in_force
#print axioms Wtf.C01.cli
#print axioms Wtf.C01.cli_limit_pos
#print axioms Wtf.C01.recovery_raw
