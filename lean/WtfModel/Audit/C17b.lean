import WtfModel.Props.C17b
#print axioms Wtf.C17.layout_ok
#print axioms Wtf.C17.names_ok
#print axioms Wtf.C17.json_text_of_items
#print axioms Wtf.C17.json_wellformed
#print axioms Wtf.C17.json_object
#print axioms Wtf.C17.toValid_ascii
