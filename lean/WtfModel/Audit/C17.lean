import WtfModel.Props.C17
import WtfModel.Props.C17b
#print axioms Wtf.C17.starts
#print axioms Wtf.C17.spec_recognised
#print axioms Wtf.C17.limit_in_force_pos
#print axioms Wtf.C17.rejects_bad_limit
#print axioms Wtf.C17.limit
#print axioms Wtf.C17.prints_engine
#print axioms Wtf.C17.prints_engine_ids
#print axioms Wtf.C17.block_of_answer
#print axioms Wtf.C17.json_shape
#print axioms Wtf.C17.json_members
#print axioms Wtf.C17.no_escapes
#print axioms Wtf.C17.history_one
#print axioms Wtf.C17.history_untouched
-- Props/C17b.lean (the JSON block is a JSON text); the same lines are in Audit/C17b.lean
#print axioms Wtf.C17.layout_ok
#print axioms Wtf.C17.names_ok
#print axioms Wtf.C17.json_text_of_items
#print axioms Wtf.C17.json_wellformed
#print axioms Wtf.C17.json_object
#print axioms Wtf.C17.toValid_ascii
