import WtfModel.Props.C19
#print axioms Wtf.C19.gen_facts
#print axioms Wtf.C19.absent
#print axioms Wtf.C19.absent_files
#print axioms Wtf.C19.raises_bounded
#print axioms Wtf.C19.boost_is_stage
#print axioms Wtf.C19.keeps_ordered
#print axioms Wtf.C19.cos_symm
#print axioms Wtf.C19.cos_symm_field
#print axioms Wtf.C19.cos_range
#print axioms Wtf.C19.cos_range_real
#print axioms Wtf.C19.clamp_range
#print axioms Wtf.C19.cos_zero
#print axioms Wtf.C19.parse_total
#print axioms Wtf.C19.alloc_bound
#print axioms Wtf.C19.count_bound
#print axioms Wtf.C19.embed_no_panic
