import WtfModel.Props.C12
import WtfModel.Props.C12b
#print axioms Wtf.C12.default_capacity_pos
#print axioms Wtf.C12.bounded
#print axioms Wtf.C12.effCap_spec
#print axioms Wtf.C12.reachable_inv
#print axioms Wtf.C12.victim
#print axioms Wtf.C12.no_eviction_unless_full
#print axioms Wtf.C12.latest_and_fresh
#print axioms Wtf.C12.sweep_only_expired
#print axioms Wtf.C12.stats_hits_misses
#print axioms Wtf.C12.stats_evictions_size
#print axioms Wtf.C12.step_regenerated
#print axioms Wtf.C12.run_regenerated
#print axioms Wtf.C12.evictOldest_regenerated
#print axioms Wtf.C12.bounded_regenerated
