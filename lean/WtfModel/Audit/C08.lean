import WtfModel.Props.C08
#print axioms Wtf.C08.wiring
#print axioms Wtf.C08.entry_of_save
#print axioms Wtf.C08.entry_of_save_pipeline
#print axioms Wtf.C08.faithful
#print axioms Wtf.C08.failed_unchanged
#print axioms Wtf.C08.succeeds_of_roundtrip
#print axioms Wtf.C08.neighbours
#print axioms Wtf.C08.no_dup
#print axioms Wtf.C08.history
#print axioms Wtf.C08.history_contract
#print axioms Wtf.C08.merged_order
#print axioms Wtf.C08.searchable
#print axioms Wtf.C08.starts
#print axioms Wtf.C08.shorthands_disjoint
#print axioms Wtf.C08.reads_registered
