import WtfModel.Model.AtomicWrite
/-! Helper lemmas for C09 (file-replacement protocols). -/
namespace Wtf.AtomicWrite

variable {π : Type} [DecidableEq π]

/-! ### reading after remove / put -/

theorem remove_cons (e : π × Bytes) (r : Fs π) (p : π) :
    remove (e :: r) p = if e.1 = p then remove r p else e :: remove r p := by
  by_cases h : e.1 = p <;> simp [remove, h]

theorem read_cons (q : π) (b : Bytes) (r : Fs π) (p : π) :
    read ((q, b) :: r) p = if q = p then some b else read r p := rfl

theorem read_remove_same (fs : Fs π) (p : π) : read (remove fs p) p = none := by
  induction fs with
  | nil => rfl
  | cons e r ih =>
    obtain ⟨q, b⟩ := e
    rw [remove_cons]
    by_cases h : q = p
    · simp only [h, ↓reduceIte]; exact ih
    · simp only [h, ↓reduceIte, read_cons]; exact ih

theorem read_remove_ne (fs : Fs π) {q p : π} (h : q ≠ p) : read (remove fs q) p = read fs p := by
  induction fs with
  | nil => rfl
  | cons e r ih =>
    obtain ⟨a, b⟩ := e
    rw [remove_cons]
    by_cases ha : a = q
    · subst ha
      simp only [↓reduceIte, read_cons, h]; exact ih
    · by_cases hp : a = p
      · subst hp; simp only [ha, ↓reduceIte, read_cons]
      · simp only [ha, ↓reduceIte, read_cons, hp]; exact ih

theorem read_put_same (fs : Fs π) (p : π) (b : Bytes) : read (put fs p b) p = some b := by
  simp [put, read]

theorem read_put_ne (fs : Fs π) {q p : π} (b : Bytes) (h : q ≠ p) : read (put fs q b) p = read fs p := by
  simp [put, read, h]; exact read_remove_ne fs h

/-! ### calls that do not touch `p` leave it alone -/

theorem apply_frame (fs : Fs π) (p : π) (op : SysOp π) (h : touches p op = false) :
    read (apply fs op) p = read fs p := by
  cases op with
  | createTemp t => simp [touches] at h; simp [apply, read_put_ne _ _ h]
  | openTrunc q => simp [touches] at h; simp [apply, read_put_ne _ _ h]
  | write q d =>
    simp [touches] at h
    simp only [apply]
    split
    · exact read_put_ne _ _ h
    · rfl
  | chmod _ => rfl
  | fsync _ => rfl
  | close _ => rfl
  | rename a b =>
    simp [touches] at h
    simp only [apply]
    split
    · rw [read_put_ne _ _ h.2, read_remove_ne _ h.1]
    · rfl
  | unlink q => simp [touches] at h; simp [apply, read_remove_ne _ h]

theorem cuts_frame (fs : Fs π) (p q : π) (d : Bytes) (h : q ≠ p) :
    ∀ f ∈ cuts fs q d, read f p = read fs p := by
  intro f hf
  simp only [cuts, List.mem_map] at hf
  obtain ⟨k, _, rfl⟩ := hf
  exact apply_frame fs p _ (by simp [touches, h])

theorem partials_frame (fs : Fs π) (p : π) (op : SysOp π) (h : touches p op = false) :
    ∀ f ∈ partials fs op, read f p = read fs p := by
  cases op <;> simp [partials]
  case write q d => simp [touches] at h; exact cuts_frame fs p q d h

theorem failStates_frame (fs : Fs π) (p : π) (op : SysOp π) (h : touches p op = false) :
    ∀ f ∈ failStates fs op, read f p = read fs p := by
  cases op <;> simp [failStates]
  case write q d => simp [touches] at h; exact cuts_frame fs p q d h

/-- a failed call other than `write` changes nothing at all -/
theorem failStates_nonwrite (fs : Fs π) (op : SysOp π) (h : ∀ q d, op ≠ .write q d) :
    failStates fs op = [fs] := by
  cases op <;> simp [failStates]
  case write q d => exact absurd rfl (h q d)

theorem cleanupRuns_spec (p : π) (cs : List (SysOp π)) :
    ∀ (fs : Fs π), (∀ c ∈ cs, touches p c = false) →
      ∀ r ∈ cleanupRuns fs cs, read r.fs p = read fs p ∧ r.out ≠ .success ∧ r.failed = true := by
  induction cs with
  | nil => intro fs _ r hr; simp [cleanupRuns] at hr; subst hr; simp
  | cons c cs ih =>
    intro fs h r hr
    simp only [cleanupRuns, List.mem_cons, List.mem_append] at hr
    have hc := h c (by simp)
    have hcs : ∀ c' ∈ cs, touches p c' = false := fun c' hc' => h c' (by simp [hc'])
    rcases hr with rfl | hr | hr
    · simp
    · have := ih (apply fs c) hcs r hr
      rw [apply_frame fs p c hc] at this
      exact this
    · exact ih fs hcs r hr

/-- the clean-up never reports success and always records the failure, whatever it touches -/
theorem cleanupRuns_out (cs : List (SysOp π)) :
    ∀ (fs : Fs π), ∀ r ∈ cleanupRuns fs cs, r.out ≠ .success ∧ r.failed = true := by
  induction cs with
  | nil => intro fs r hr; simp [cleanupRuns] at hr; subst hr; simp
  | cons c cs ih =>
    intro fs r hr
    simp only [cleanupRuns, List.mem_cons, List.mem_append] at hr
    rcases hr with rfl | hr | hr
    · simp
    · exact ih _ r hr
    · exact ih _ r hr

/-- program none of whose calls (main or clean-up) touches `p` -/
def Avoids (p : π) (prog : Prog π) : Prop :=
  ∀ s ∈ prog, touches p s.op = false ∧ ∀ c ∈ s.cleanup, touches p c = false

def AllChecked (prog : Prog π) : Prop := ∀ s ∈ prog, s.checked = true

theorem outcomes_frame (p : π) (prog : Prog π) :
    ∀ (fs : Fs π) (failed : Bool), Avoids p prog → ∀ r ∈ outcomes fs failed prog, read r.fs p = read fs p := by
  induction prog with
  | nil => intro fs failed _ r hr; simp [outcomes] at hr; subst hr; rfl
  | cons s rest ih =>
    intro fs failed hav r hr
    have hs := hav s (by simp)
    have hrest : Avoids p rest := fun s' hs' => hav s' (by simp [hs'])
    simp only [outcomes, List.mem_cons, List.mem_append, List.mem_map, List.mem_flatMap] at hr
    rcases hr with rfl | ⟨f, hf, rfl⟩ | ⟨f1, hf1, hr⟩ | hr
    · rfl
    · exact partials_frame fs p s.op hs.1 f hf
    · have h1 := failStates_frame fs p s.op hs.1 f1 hf1
      split at hr
      · rw [← h1]; exact (cleanupRuns_spec p s.cleanup f1 hs.2 r hr).1
      · rw [← h1]; exact ih f1 true hrest r hr
    · rw [← apply_frame fs p s.op hs.1]; exact ih _ failed hrest r hr

/-! ### outcome bookkeeping for fully checked programs -/

theorem outcomes_checked (prog : Prog π) :
    ∀ (fs : Fs π) (failed : Bool), AllChecked prog → ∀ r ∈ outcomes fs failed prog,
      (r.out = .success → r.fs = runAll fs (prog.map (·.op)) ∧ r.failed = failed) ∧
      (r.failed = true → failed = false → r.out ≠ .success) := by
  induction prog with
  | nil => intro fs failed _ r hr; simp [outcomes] at hr; subst hr; simp [runAll]
  | cons s rest ih =>
    intro fs failed hall r hr
    have hs : s.checked = true := hall s (by simp)
    have hrest : AllChecked rest := fun s' hs' => hall s' (by simp [hs'])
    simp only [outcomes, List.mem_cons, List.mem_append, List.mem_map, List.mem_flatMap] at hr
    rcases hr with rfl | ⟨f, _, rfl⟩ | ⟨f1, _, hr⟩ | hr
    · simp
    · simp
    · simp only [hs, ↓reduceIte] at hr
      have := cleanupRuns_out s.cleanup f1 r hr
      exact ⟨fun h => absurd h this.1, fun _ _ => this.1⟩
    · have := ih (apply fs s.op) failed hrest r hr
      simpa [runAll] using this

/-- splitting a run of `pre ++ post`: it ends inside `pre` (not successfully), or `pre` succeeded and it
    is a run of `post` from there -/
theorem mem_outcomes_append (pre post : Prog π) :
    ∀ (fs : Fs π) (failed : Bool), AllChecked pre → ∀ r ∈ outcomes fs failed (pre ++ post),
      (r ∈ outcomes fs failed pre ∧ r.out ≠ .success) ∨
      r ∈ outcomes (runAll fs (pre.map (·.op))) failed post := by
  induction pre with
  | nil => intro fs failed _ r hr; right; simpa [runAll] using hr
  | cons s rest ih =>
    intro fs failed hall r hr
    have hs : s.checked = true := hall s (by simp)
    have hrest : AllChecked rest := fun s' hs' => hall s' (by simp [hs'])
    simp only [List.cons_append, outcomes, List.mem_cons, List.mem_append, List.mem_map, List.mem_flatMap] at hr
    rcases hr with rfl | ⟨f, hf, rfl⟩ | ⟨f1, hf1, hr⟩ | hr
    · left; simp [outcomes]
    · left
      refine ⟨?_, by simp⟩
      simp only [outcomes, List.mem_cons, List.mem_append, List.mem_map]
      right; left; exact ⟨f, hf, rfl⟩
    · left
      simp only [hs, ↓reduceIte] at hr
      refine ⟨?_, (cleanupRuns_out _ _ r hr).1⟩
      simp only [outcomes, List.mem_cons, List.mem_append, List.mem_flatMap]
      right; right; left
      exact ⟨f1, hf1, by simpa [hs] using hr⟩
    · rcases ih (apply fs s.op) failed hrest r hr with ⟨h1, h2⟩ | h
      · left
        refine ⟨?_, h2⟩
        simp only [outcomes, List.mem_cons, List.mem_append]
        right; right; right; exact h1
      · right; simpa [runAll] using h

/-! ### kill-only semantics is included in `outcomes` -/

theorem crashStates_sub_outcomes (prog : Prog π) :
    ∀ (fs : Fs π) (failed : Bool), ∀ f ∈ crashStates fs (prog.map (·.op)),
      ∃ r ∈ outcomes fs failed prog, r.fs = f := by
  induction prog with
  | nil => intro fs failed f hf; simp [crashStates] at hf; subst hf; exact ⟨⟨f, .success, failed⟩, by simp [outcomes], rfl⟩
  | cons s rest ih =>
    intro fs failed f hf
    simp only [List.map_cons, crashStates, List.mem_cons, List.mem_append] at hf
    rcases hf with rfl | hf | hf
    · exact ⟨⟨f, .killed, failed⟩, by simp [outcomes], rfl⟩
    · refine ⟨⟨f, .killed, failed⟩, ?_, rfl⟩
      simp only [outcomes, List.mem_cons, List.mem_append, List.mem_map]
      right; left; exact ⟨f, hf, rfl⟩
    · obtain ⟨r, hr, rfl⟩ := ih (apply fs s.op) failed f hf
      refine ⟨r, ?_, rfl⟩
      simp only [outcomes, List.mem_cons, List.mem_append]
      right; right; right; exact hr

theorem crashPoints_states (ops : List (SysOp π)) :
    ∀ (fs : Fs π) (i : Nat), (crashPoints fs i ops).map (·.2.2) = crashStates fs ops := by
  induction ops with
  | nil => intro fs i; rfl
  | cons op rest ih =>
    intro fs i
    simp only [crashPoints, crashStates, List.map_cons, List.map_append, ih]
    cases op <;> simp [partials, cuts]

/-! ### the planned-fault run is one of the outcomes -/

theorem failAt_mem_failStates (fs : Fs π) (op : SysOp π) (k : Nat)
    (hk : ∀ q d, op = .write q d → k ≤ d.length) : failAt fs k op ∈ failStates fs op := by
  cases op <;> simp [failAt, failStates]
  case write q d =>
    simp only [cuts, List.mem_map, List.mem_range]
    exact ⟨k, by have := hk q d rfl; omega, rfl⟩

theorem cleanup_full_mem (cs : List (SysOp π)) :
    ∀ (fs : Fs π), (⟨runAll fs cs, .reportedError, true⟩ : Result π) ∈ cleanupRuns fs cs := by
  induction cs with
  | nil => intro fs; simp [cleanupRuns, runAll]
  | cons c cs ih =>
    intro fs
    simp only [cleanupRuns, List.mem_cons, List.mem_append]
    right; left
    simpa [runAll] using ih (apply fs c)

theorem runPlan_none_mem (prog : Prog π) :
    ∀ (fs : Fs π) (failed : Bool), runPlan fs failed prog none ∈ outcomes fs failed prog := by
  induction prog with
  | nil => intro fs failed; simp [runPlan, outcomes]
  | cons s rest ih =>
    intro fs failed
    simp only [runPlan, outcomes, List.mem_cons, List.mem_append]
    right; right; right; exact ih _ _

/-- index `i` names a write ⇒ the cut `k` is within its data -/
def PlanOk : Prog π → Nat → Nat → Prop
  | [], _, _ => True
  | s :: _, 0, k => ∀ q d, s.op = .write q d → k ≤ d.length
  | _ :: rest, i + 1, k => PlanOk rest i k

theorem runPlan_mem (prog : Prog π) :
    ∀ (fs : Fs π) (failed : Bool) (i k : Nat), PlanOk prog i k →
      runPlan fs failed prog (some (i, k)) ∈ outcomes fs failed prog := by
  induction prog with
  | nil => intro fs failed i k _; simp [runPlan, outcomes]
  | cons s rest ih =>
    intro fs failed i k hp
    cases i with
    | zero =>
      simp only [PlanOk] at hp
      simp only [runPlan, outcomes, List.mem_cons, List.mem_append, List.mem_flatMap]
      right; right; left
      refine ⟨failAt fs k s.op, failAt_mem_failStates fs s.op k hp, ?_⟩
      by_cases hc : s.checked = true
      · simp only [hc, ↓reduceIte]; exact cleanup_full_mem _ _
      · simp only [hc]; exact runPlan_none_mem _ _ _
    | succ i =>
      simp only [PlanOk] at hp
      simp only [runPlan, outcomes, List.mem_cons, List.mem_append]
      right; right; right
      exact ih _ _ i k hp

end Wtf.AtomicWrite
