import WtfModel.Proofs.C01Index
import WtfModel.Proofs.C01Fuzzy
/-
  C01 for the model of SearchUniversal: assembly of the per-stage lemmas.  Core Lean only.
-/
namespace Wtf.Search
open Text Index Filters ScoreOps ScoreLaws

variable {S : Type} [ScoreOps S]

/-- The five clauses of C01 for an answer `r` over a database of `n` entries with limit `lim`
    (ids are positions in the database; "finite" has no content in an ordered field). -/
structure Post (n lim : Nat) (r : List (Nat × S)) : Prop where
  bounded : r.length ≤ lim
  real : ∀ x ∈ r, x.1 < n
  nodup : (r.map (·.1)).Nodup
  sorted : r.Pairwise (fun a b => lt a.2 b.2 = false)
  nonneg : ∀ x ∈ r, lt x.2 (zero : S) = false

theorem post_nil (n lim : Nat) : Post n lim ([] : List (Nat × S)) :=
  ⟨by simp, by simp, by simp, by simp, by simp⟩

/-! ### ids: every stage yields a duplicate-free list of valid positions -/

def IdsOK (n : Nat) (r : List (Nat × S)) : Prop := (r.map (·.1)).Nodup ∧ ∀ x ∈ r, x.1 < n

omit [ScoreOps S] in
theorem idsOK_of_perm_sublist {n : Nat} {r r' : List (Nat × S)} {l : List Nat} (h : IdsOK n r)
    (hl : l.Sublist (r.map (·.1))) (hp : (r'.map (·.1)).Perm l) : IdsOK n r' := by
  refine ⟨hp.nodup_iff.mpr (hl.nodup h.1), ?_⟩
  intro x hx
  have h1 : x.1 ∈ r'.map (·.1) := List.mem_map_of_mem hx
  have h2 : x.1 ∈ r.map (·.1) := hl.subset (hp.mem_iff.mp h1)
  rw [List.mem_map] at h2
  obtain ⟨y, hy, he⟩ := h2
  rw [← he]; exact h.2 y hy

theorem idsOK_sortDesc {n : Nat} {r : List (Nat × S)} (h : IdsOK n r) : IdsOK n (sortDesc (·.2) r) :=
  idsOK_of_perm_sublist h (List.Sublist.refl _) (sortDesc_map_perm _ _ _)

omit [ScoreOps S] in
theorem idsOK_take {n : Nat} {r : List (Nat × S)} (h : IdsOK n r) (k : Nat) : IdsOK n (r.take k) :=
  idsOK_of_perm_sublist h ((List.take_sublist k r).map _) (List.Perm.refl _)

theorem idsOK_rerank (T : Tuning S) (nq : Bytes) (limit : Nat) {n : Nat} {r : List (Nat × S)} (h : IdsOK n r) :
    IdsOK n (rerank T nq limit r) := by
  obtain ⟨l, hl, hp⟩ := rerank_ids_sublist T nq limit r
  exact idsOK_of_perm_sublist h hl hp

theorem idsOK_cascade (nl : NlpOut S) {n : Nat} {r : List (Nat × S)} (h : IdsOK n r) :
    IdsOK n (cascadeStage nl r) :=
  idsOK_of_perm_sublist h (List.Sublist.refl _) (cascade_ids_perm nl r)

omit [ScoreOps S] in
theorem eligible_lt {T : Tuning S} {db : Db} {o : Opts S} {d : Nat} (h : Eligible T db o d) : d < db.length := by
  obtain ⟨c, hc, _⟩ := h
  exact (List.getElem?_eq_some_iff.mp hc).1

theorem idsOK_collect (T : Tuning S) (db : Db) (o : Opts S) (pq : Option (NlpOut S)) (m : List (Nat × S))
    (h : ScoresInv T db o m) : IdsOK db.length (collect T db o pq m) := by
  have hids := collect_ids T db o pq m (fun k hk => let ⟨c, hc, _⟩ := h.2 k hk; ⟨c, hc⟩)
  refine ⟨by rw [hids]; exact keysSorted_nodup h.1, ?_⟩
  intro x hx
  have : x.1 ∈ (collect T db o pq m).map (·.1) := List.mem_map_of_mem hx
  rw [hids] at this
  exact eligible_lt (h.2 _ this)

/-! ### the hypotheses on the parameters -/

/-- `idf(N, df) ≥ 0` whenever `df ≤ N`.  Discharged by `math.Log` of a number ≥ 1:
    `(N-df+½)/(df+½)+1 ≥ 1` for `df ≤ N`; proved for the real-valued formula in `Proofs/C01Idf.lean`
    (`bm25_idf_real_nonneg`), checked on the real floats by the monitor (`oracle-negative-factor`). -/
def IdfNonneg (T : Tuning S) : Prop := ∀ n df, df ≤ n → lt (T.idf n df) (zero : S) = false

/-- Everything the C01 theorems assume about the parameters of the model. -/
structure TuningWF [ScoreLaws S] (T : Tuning S) : Prop where
  /-- BM25F parameters sane; `genParams_wf` discharges it for the regenerated `defaultParams()` -/
  params : ParamsWF T.params
  idf : IdfNonneg T
  /-- `calculateIntentBoost` / `calculateBoostForCommand` are products / sums of positive constants;
      monitored on the real values of every generated case (`oracle-negative-factor`) -/
  nlp : ∀ q, (T.nlp q).FactorsNonneg
  /-- TF-IDF cosine similarities are non-negative (same monitor) -/
  tfidf : TfidfNonneg T
  fuzzySort : FuzzySortOK T

/-! ### typo fallback -/

theorem fuzzySearch_post [ScoreLaws S] (T : Tuning S) (hF : FuzzySortOK T) (db : Db) (nq : Bytes) (o : Opts S)
    (limit : Nat) (r : List (Nat × S)) (h : fuzzySearch T db nq o limit = .ok r) : Post db.length limit r := by
  unfold fuzzySearch at h
  split at h
  · cases h
  · rename_i ms hms
    simp only [Except.ok.injEq] at h
    obtain ⟨hinc, _⟩ := findNoSort_spec _ _ _ _ hms
    obtain ⟨hperm, hsorted⟩ := hF ms
    obtain ⟨sub, hsub, helig, heq, _⟩ := fuzzyCollect_spec T db o (limit * fuzzyMult) (T.fuzzySort ms) []
    simp only [List.reverse_nil, List.nil_append] at heq
    rw [heq] at h
    subst h
    have hnodup_ms : (ms.map (·.1)).Nodup := hinc.imp (fun hab => Nat.ne_of_lt hab)
    have hnodup_sub : (sub.map (·.1)).Nodup :=
      (hsub.map (·.1)).nodup ((hperm.map (·.1)).nodup_iff.mpr hnodup_ms)
    have hids : ((sub.map (fun x => (x.1, (normalizeFuzzy x.2 : S)))).map (·.1)) = sub.map (·.1) := by
      rw [List.map_map]; rfl
    refine ⟨?_, ?_, ?_, ?_, ?_⟩
    · exact (List.length_take_le _ _)
    · intro x hx
      have hx := List.mem_of_mem_take hx
      rw [List.mem_map] at hx
      obtain ⟨y, hy, rfl⟩ := hx
      exact eligible_lt (helig y hy)
    · have : (List.take limit (sub.map (fun x => (x.1, (normalizeFuzzy x.2 : S))))).map (·.1) =
          (sub.map (·.1)).take limit := by rw [List.map_take, hids]
      rw [this]
      exact (List.take_sublist _ _).nodup hnodup_sub
    · apply List.Pairwise.sublist (List.take_sublist _ _)
      rw [List.pairwise_map]
      exact (hsorted.sublist hsub).imp (fun hab => normalizeFuzzy_mono hab)
    · intro x hx
      have hx := List.mem_of_mem_take hx
      rw [List.mem_map] at hx
      obtain ⟨y, _, rfl⟩ := hx
      exact normalizeFuzzy_nonneg _

/-- typo-fallback answers additionally have scores `≤ 1` (clamp in performFuzzySearch) -/
theorem fuzzySearch_le_one [ScoreLaws S] (T : Tuning S) (db : Db) (nq : Bytes) (o : Opts S)
    (limit : Nat) (r : List (Nat × S)) (h : fuzzySearch T db nq o limit = .ok r) :
    ∀ x ∈ r, lt (one : S) x.2 = false := by
  unfold fuzzySearch at h
  split at h
  · cases h
  · rename_i ms hms
    simp only [Except.ok.injEq] at h
    obtain ⟨sub, _, _, heq, _⟩ := fuzzyCollect_spec T db o (limit * fuzzyMult) (T.fuzzySort ms) []
    simp only [List.reverse_nil, List.nil_append] at heq
    rw [heq] at h
    subst h
    intro x hx
    have hx := List.mem_of_mem_take hx
    rw [List.mem_map] at hx
    obtain ⟨y, _, rfl⟩ := hx
    exact normalizeFuzzy_le_one _

/-! ### lexical path -/

/-- the optional stages of `applyPostScoringBoosts` -/
def rerankOpt (T : Tuning S) (o : Opts S) (nq : Bytes) (limit : Nat) (r0 : List (Nat × S)) : List (Nat × S) :=
  if o.useNLP then rerank T nq limit r0 else r0

def cascadeOpt (pq : Option (NlpOut S)) (r1 : List (Nat × S)) : List (Nat × S) :=
  match pq with | some n => cascadeStage n r1 | none => r1

/-- the stages after score accumulation, as `search` composes them -/
def lexicalTail (T : Tuning S) (db : Db) (o : Opts S) (nq : Bytes) (pq : Option (NlpOut S)) (limit : Nat)
    (scores : List (Nat × S)) : List (Nat × S) :=
  (cascadeOpt pq (rerankOpt T o nq limit (sortDesc (·.2) (collect T db o pq scores)))).take limit

theorem lexicalTail_post [ScoreLaws S] (T : Tuning S) (db : Db) (o : Opts S) (nq : Bytes) (pq : Option (NlpOut S))
    (limit : Nat) (scores : List (Nat × S))
    (hpq : ∀ n, pq = some n → n.FactorsNonneg) (hT : TfidfNonneg T)
    (hinv : ScoresInv T db o scores) (hnn : AllNonneg scores) :
    Post db.length limit (lexicalTail T db o nq pq limit scores) := by
  unfold lexicalTail
  -- r0
  have i0 : IdsOK db.length (sortDesc (·.2) (collect T db o pq scores)) := idsOK_sortDesc (idsOK_collect T db o pq scores hinv)
  have n0 : AllNonneg (sortDesc (·.2) (collect T db o pq scores)) :=
    allNonneg_sortDesc (collect_nonneg T db o pq hpq scores hnn)
  have s0 := sortDesc_sorted (S := S) (·.2) (collect T db o pq scores)
  generalize sortDesc (·.2) (collect T db o pq scores) = r0 at i0 n0 s0
  -- r1
  have i1 : IdsOK db.length (rerankOpt T o nq limit r0) := by
    unfold rerankOpt
    split
    · exact idsOK_rerank T nq limit i0
    · exact i0
  have n1 : AllNonneg (rerankOpt T o nq limit r0) := by
    unfold rerankOpt
    split
    · exact rerank_nonneg T hT nq limit r0 n0
    · exact n0
  have s1 : (rerankOpt T o nq limit r0).Pairwise (fun a b => lt a.2 b.2 = false) := by
    unfold rerankOpt
    split
    · unfold rerank
      split
      · exact s0
      · exact sortDesc_sorted (S := S) (fun x : Nat × S => x.2) _
    · exact s0
  generalize rerankOpt T o nq limit r0 = r1 at i1 n1 s1
  -- r2
  have i2 : IdsOK db.length (cascadeOpt pq r1) := by
    unfold cascadeOpt
    split
    · exact idsOK_cascade _ i1
    · exact i1
  have n2 : AllNonneg (cascadeOpt pq r1) := by
    cases pq with
    | none => exact n1
    | some n => exact cascade_nonneg n (hpq n rfl) r1 n1
  have s2 : (cascadeOpt pq r1).Pairwise (fun a b => lt a.2 b.2 = false) := by
    unfold cascadeOpt
    split
    · unfold cascadeStage
      split
      · exact s1
      · exact sortDesc_sorted (S := S) (fun x : Nat × S => x.2) _
    · exact s1
  generalize cascadeOpt pq r1 = r2 at i2 n2 s2
  have i3 := idsOK_take i2 limit
  exact ⟨List.length_take_le _ _, i3.2, i3.1, s2.sublist (List.take_sublist _ _), allNonneg_take n2 limit⟩

/-- a matched document is returned: on the lexical path the answer has `min limit (min window #scored)`
    entries; in particular it is non-empty when something scored (`effLimit` is never 0) -/
theorem lexicalTail_ne_nil (T : Tuning S) (db : Db) (o : Opts S) (nq : Bytes) (pq : Option (NlpOut S))
    (limit : Nat) (hl : 0 < limit) (scores : List (Nat × S)) (hinv : ScoresInv T db o scores) (hne : scores ≠ []) :
    lexicalTail T db o nq pq limit scores ≠ [] := by
  unfold lexicalTail
  have hlen0 : (sortDesc (·.2) (collect T db o pq scores)).length = scores.length := by
    have hids := collect_ids T db o pq scores (fun k hk => let ⟨c, hc, _⟩ := hinv.2 k hk; ⟨c, hc⟩)
    rw [length_sortDesc]
    have := congrArg List.length hids
    simpa using this
  have hpos : 0 < scores.length := List.length_pos_iff.mpr hne
  have l0 : 0 < (sortDesc (·.2) (collect T db o pq scores)).length := by omega
  generalize sortDesc (·.2) (collect T db o pq scores) = r0 at l0
  have l1 : 0 < (rerankOpt T o nq limit r0).length := by
    unfold rerankOpt
    split
    · unfold rerank
      split
      · exact l0
      · simp only [length_sortDesc, List.length_map, List.length_take]
        have : 0 < max (limit * rerankMult) rerankMin := by
          have : 0 < rerankMin := by decide
          omega
        omega
    · exact l0
  generalize rerankOpt T o nq limit r0 = r1 at l1
  have l2 : 0 < (cascadeOpt pq r1).length := by
    unfold cascadeOpt
    split
    · unfold cascadeStage
      split
      · exact l1
      · simpa using l1
    · exact l1
  generalize cascadeOpt pq r1 = r2 at l2
  intro h
  have := congrArg List.length h
  simp only [List.length_take, List.length_nil] at this
  omega

/-! ### SearchUniversal -/

/-- the NLP analysis in force (`pq`), the query terms after NLP enhancement, the accumulated scores and
    the typo fallback, as `search` computes them -/
def pqOf (T : Tuning S) (q : Bytes) (o : Opts S) : Option (NlpOut S) :=
  if o.useNLP then some (T.nlp (T.normQ q)) else none

def termsOf (T : Tuning S) (q : Bytes) (o : Opts S) : List Token :=
  match pqOf T q o with
  | some n => enhanceTerms (tokenize (T.normQ q)) n.enhanced
  | none => tokenize (T.normQ q)

def scoresOf (T : Tuning S) (db : Db) (q : Bytes) (o : Opts S) : List (Nat × S) :=
  initialScores T db (build db) o (pqOf T q o) (selectTopTerms T (build db) (termsOf T q o) (effCap o))

def fallbackOf (T : Tuning S) (db : Db) (q : Bytes) (o : Opts S) : Except Fuzzy.Panic (List (Nat × S)) :=
  if o.useFuzzy then fuzzySearch T db (T.normQ q) o (effLimit o) else .ok []

theorem search_eq (T : Tuning S) (db : Db) (q : Bytes) (o : Opts S) :
    search T db q o =
      if (termsOf T q o).isEmpty then fallbackOf T db q o
      else if (scoresOf T db q o).isEmpty then fallbackOf T db q o
      else .ok (lexicalTail T db o (T.normQ q) (pqOf T q o) (effLimit o) (scoresOf T db q o)) := by
  unfold search lexicalTail termsOf scoresOf fallbackOf pqOf cascadeOpt rerankOpt
  rfl

omit [ScoreOps S] in
theorem effLimit_pos (o : Opts S) : 0 < effLimit o := by
  unfold effLimit
  split
  · decide
  · omega

omit [ScoreOps S] in
theorem effLimit_spec (o : Opts S) :
    (o.limit ≤ 0 → effLimit o = defaultLimit) ∧ (0 < o.limit → (effLimit o : Int) = o.limit) := by
  unfold effLimit
  constructor
  · intro h; simp [h]
  · intro h
    have : ¬ o.limit ≤ 0 := by omega
    simp only [this, ↓reduceIte]
    omega

/-- C01 for the model of `SearchUniversal`, every path. -/
theorem search_post [ScoreLaws S] (T : Tuning S) (hT : TuningWF T) (db : Db) (q : Bytes) (o : Opts S)
    (r : List (Nat × S)) (h : search T db q o = .ok r) : Post db.length (effLimit o) r := by
  rw [search_eq] at h
  have hfb : ∀ r, fallbackOf T db q o = .ok r → Post db.length (effLimit o) r := by
    intro r hr
    unfold fallbackOf at hr
    split at hr
    · exact fuzzySearch_post T hT.fuzzySort db _ o _ r hr
    · simp only [Except.ok.injEq] at hr; subst hr; exact post_nil _ _
  split at h
  · exact hfb r h
  · split at h
    · exact hfb r h
    · simp only [Except.ok.injEq] at h
      subst h
      apply lexicalTail_post
      · intro n hn
        unfold pqOf at hn
        split at hn
        · simp only [Option.some.injEq] at hn; subst hn; exact hT.nlp _
        · cases hn
      · exact hT.tfidf
      · exact initialScores_inv _ _ _ _ _ _
      · exact initialScores_nonneg T hT.params db (build db) (dfLeN_build db)
          (fun df hdf => hT.idf _ df hdf) o _ _

/-- the model of `SearchUniversal` can only fail inside the typo matcher (Go: index out of range in
    sahilm/fuzzy); that this cannot happen for the NUL-free targets it is given is C10's theorem -/
theorem search_error_only_fuzzy (T : Tuning S) (db : Db) (q : Bytes) (o : Opts S) (e : Fuzzy.Panic)
    (h : search T db q o = .error e) :
    o.useFuzzy = true ∧ Fuzzy.findNoSort T.ri (T.normQ q) (db.map fuzzyTarget) = .error e := by
  rw [search_eq] at h
  have hfb : fallbackOf T db q o = .error e →
      o.useFuzzy = true ∧ Fuzzy.findNoSort T.ri (T.normQ q) (db.map fuzzyTarget) = .error e := by
    intro hr
    unfold fallbackOf at hr
    split at hr
    · rename_i hu
      refine ⟨hu, ?_⟩
      unfold fuzzySearch at hr
      split at hr
      · rename_i e' he
        cases hr; exact he
      · cases hr
    · cases hr
  split at h
  · exact hfb h
  · split at h
    · exact hfb h
    · cases h

/-- whenever some document scored, the answer is not empty -/
theorem search_ne_nil_of_scored (T : Tuning S) (db : Db) (q : Bytes) (o : Opts S) (r : List (Nat × S))
    (h : search T db q o = .ok r) (hterms : (termsOf T q o).isEmpty = false)
    (hsc : (scoresOf T db q o).isEmpty = false) : r ≠ [] := by
  rw [search_eq] at h
  simp only [hterms, hsc, Bool.false_eq_true, ↓reduceIte, Except.ok.injEq] at h
  subst h
  apply lexicalTail_ne_nil _ _ _ _ _ _ (effLimit_pos o) _ (initialScores_inv _ _ _ _ _ _)
  intro he
  unfold scoresOf at hsc
  rw [he] at hsc
  simp at hsc

end Wtf.Search
