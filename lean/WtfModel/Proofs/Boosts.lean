import WtfModel.Model.Boosts
import WtfModel.Proofs.C01Score
/-
  The modelled per-document NLP factors satisfy what C01 / C13 assume about them (core Lean only):

    for every analysis, document and rune table   intentBoost > 0    (calculateIntentBoost: a product of positive literals)
                                                  cascadeBoost ≥ 1   (calculateBoostForCommand: 1 + non-negative terms)

  hence `(Boosts.nlpOut ri db nq).FactorsNonneg` for every database and query.

  The literals are data regenerated from the source, so the statements are proved for every `Spec` that passes the
  decidable check `Spec.WF` (every multiplicative literal > 0, the initial cascade value ≥ 1, every additive literal ≥ 0),
  and `genSpec_wf` evaluates that check on the current `Gen/Boosts.lean` - a source edit that makes a factor zero or
  negative makes `genSpec_wf` fail to compile, nothing else.
-/
namespace Wtf.Boosts
open Text ScoreOps ScoreLaws Boost
open Nlp (Analysis)

/-! ### the well-formedness check on the regenerated rules -/

def qPos (q : Q) : Bool := decide (0 < q.num) && decide (0 < q.den)
def qNonneg (q : Q) : Bool := decide (0 ≤ q.num) && decide (0 < q.den)
def qGeOne (q : Q) : Bool := decide ((q.den : Int) ≤ q.num) && decide (0 < q.den)

/-- every literal a statement can return, assign or multiply by is positive -/
def factorsPos : Stmt → Bool
  | .skip => true
  | .retBoost => true
  | .ret q => qPos q
  | .set q => qPos q
  | .mul q => qPos q
  | .ite _ t e => factorsPos t && factorsPos e
  | .loop _ b => factorsPos b
  | .seq a b => factorsPos a && factorsPos b

def termWF : CTerm → Bool
  | .hint q => qNonneg q
  | .term _ q => qNonneg q
  | .context q => qNonneg q
  | .intent => true

def Spec.WF (sp : Spec) : Bool :=
  qPos sp.intentInit && sp.intentSwitch.all (fun p => factorsPos p.2) && qPos sp.intentDefault &&
  factorsPos sp.actionBoosts && factorsPos sp.targetBoosts &&
  qGeOne sp.cascadeInit && sp.cascadeTerms.all termWF &&
  qNonneg sp.hintMiss && qNonneg sp.termMiss && qNonneg sp.contextMiss &&
  qNonneg sp.intentNoEntry && qNonneg sp.intentHit && qNonneg sp.intentMiss

/-- the rules regenerated from the current source pass the check -/
theorem genSpec_wf : genSpec.WF = true := by decide

variable {S : Type} [ScoreOps S] [ScoreLaws S]

theorem ofQ_pos' {q : Q} (h : qPos q = true) : Pos (ofQ q : S) := by
  simp only [qPos, Bool.and_eq_true, decide_eq_true_eq] at h
  exact ofQ_pos q h.1 h.2

theorem ofQ_nonneg' {q : Q} (h : qNonneg q = true) : Nonneg (ofQ q : S) := by
  simp only [qNonneg, Bool.and_eq_true, decide_eq_true_eq] at h
  exact ofQ_nonneg q h.1 h.2

theorem ofQ_ge_one' {q : Q} (h : qGeOne q = true) : ge (ofQ q : S) one := by
  simp only [qGeOne, Bool.and_eq_true, decide_eq_true_eq] at h
  exact ofQ_ge_one q h.1 h.2

/-! ### calculateIntentBoost is positive -/

/-- the value carried by an outcome (the running `boost` or the returned value) is positive -/
def Out.IsPos : Out S → Prop
  | .cont b => Pos b
  | .done v => Pos v

omit [ScoreLaws S] in
theorem iter_pos (body : Bytes → S → Out S) (hb : ∀ a b, Pos b → (body a b).IsPos) :
    ∀ (l : List Bytes) (b : S), Pos b → (iter body l b).IsPos := by
  intro l
  induction l with
  | nil => intro b hb0; exact hb0
  | cons a rest ih =>
    intro b hb0
    have h1 := hb a b hb0
    unfold iter
    cases hr : body a b with
    | cont b' =>
      rw [hr] at h1
      exact ih b' h1
    | done v =>
      rw [hr] at h1
      exact h1

theorem exec_pos (e : Env) : ∀ (st : Stmt) (v : Bytes) (b : S), factorsPos st = true → Pos b → (exec e st v b).IsPos := by
  intro st
  induction st with
  | skip => intro v b _ hb; exact hb
  | ret q => intro v b h _; exact ofQ_pos' h
  | retBoost => intro v b _ hb; exact hb
  | set q => intro v b h _; exact ofQ_pos' h
  | mul q => intro v b h hb; exact mul_pos _ _ hb (ofQ_pos' h)
  | ite c t f iht ihf =>
    intro v b h hb
    simp only [factorsPos, Bool.and_eq_true] at h
    unfold exec
    split
    · exact iht v b h.1 hb
    · exact ihf v b h.2 hb
  | loop src body ih =>
    intro v b h hb
    simp only [factorsPos] at h
    unfold exec
    exact iter_pos _ (fun a b' hb' => ih a b' h hb') _ b hb
  | seq a c iha ihc =>
    intro v b h hb
    simp only [factorsPos, Bool.and_eq_true] at h
    have h1 := iha v b h.1 hb
    unfold exec
    cases hr : exec e a v b with
    | cont b' =>
      rw [hr] at h1
      exact ihc v b' h.2 h1
    | done r =>
      rw [hr] at h1
      exact h1

theorem runFn_pos (e : Env) (st : Stmt) (h : factorsPos st = true) : Pos (runFn e st : S) := by
  have h1 := exec_pos (S := S) e st [] one h one_pos
  unfold runFn
  cases hr : exec e st [] (one : S) with
  | cont b => rw [hr] at h1; exact h1
  | done v => rw [hr] at h1; exact h1

theorem applyIntent_pos (sp : Spec) (hsw : sp.intentSwitch.all (fun p => factorsPos p.2) = true) (hd : qPos sp.intentDefault = true)
    (e : Env) (intent : Bytes) : Pos (applyIntent sp e intent : S) := by
  unfold applyIntent
  split
  · rename_i p hp
    have hm := List.mem_of_find?_eq_some hp
    exact runFn_pos e p.2 (List.all_eq_true.mp hsw p hm)
  · exact ofQ_pos' hd

/-- **calculateIntentBoost > 0** for every well-formed rule set, rune table, command and analysis -/
theorem intentBoostWith_pos (sp : Spec) (h : sp.WF = true) (ri : RuneInfo) (c : Cmd) (a : Analysis) :
    Pos (intentBoostWith sp ri c a : S) := by
  simp only [Spec.WF, Bool.and_eq_true] at h
  obtain ⟨⟨⟨⟨⟨⟨⟨⟨⟨⟨⟨⟨h1, h2⟩, h3⟩, h4⟩, h5⟩, _⟩, _⟩, _⟩, _⟩, _⟩, _⟩, _⟩, _⟩ := h
  unfold intentBoostWith
  exact mul_pos _ _ (mul_pos _ _ (mul_pos _ _ (ofQ_pos' h1) (applyIntent_pos sp h2 h3 _ _)) (runFn_pos _ _ h4)) (runFn_pos _ _ h5)

/-! ### calculateBoostForCommand is at least 1 -/

theorem ite_nonneg {c : Bool} {p q : Q} (hp : qNonneg p = true) (hq : qNonneg q = true) :
    Nonneg (if c then (ofQ p : S) else ofQ q) := by
  cases c
  · exact ofQ_nonneg' hq
  · exact ofQ_nonneg' hp

theorem evalTerm_nonneg (sp : Spec) (hh : qNonneg sp.hintMiss = true) (ht : qNonneg sp.termMiss = true)
    (hc : qNonneg sp.contextMiss = true) (hn : qNonneg sp.intentNoEntry = true) (hi : qNonneg sp.intentHit = true)
    (hm : qNonneg sp.intentMiss = true) (ri : RuneInfo) (c : Cmd) (text : Bytes) (x : Ctx) (t : CTerm) (hw : termWF t = true) :
    Nonneg (evalTerm sp ri c text x t : S) := by
  cases t with
  | hint q => simp only [evalTerm, calcHint]; exact ite_nonneg hw hh
  | term l q => simp only [evalTerm, calcTerm]; exact ite_nonneg hw ht
  | context q => simp only [evalTerm, calcContext]; exact ite_nonneg hw hc
  | intent =>
    simp only [evalTerm, getIntent]
    split
    · exact ofQ_nonneg' hn
    · exact ite_nonneg hi hm

theorem foldl_add_ge_one (f : CTerm → S) : ∀ (ts : List CTerm) (b : S), (∀ t ∈ ts, Nonneg (f t)) → ge b one →
    ge (ts.foldl (fun b t => add b (f t)) b) one := by
  intro ts
  induction ts with
  | nil => intro b _ hb; exact hb
  | cons t rest ih =>
    intro b hf hb
    rw [List.foldl_cons]
    apply ih
    · intro t' ht'; exact hf t' (List.mem_cons_of_mem _ ht')
    · exact le_trans _ _ _ (le_add_of_nonneg_right b (f t) (hf t List.mem_cons_self)) hb

/-- **calculateBoostForCommand ≥ 1** for every well-formed rule set, rune table, command and boost context -/
theorem cascadeBoostWith_ge_one (sp : Spec) (h : sp.WF = true) (ri : RuneInfo) (c : Cmd) (x : Ctx) :
    ge (cascadeBoostWith sp ri c x : S) one := by
  simp only [Spec.WF, Bool.and_eq_true] at h
  obtain ⟨⟨⟨⟨⟨⟨⟨⟨⟨⟨⟨⟨_, _⟩, _⟩, _⟩, _⟩, h6⟩, h7⟩, h8⟩, h9⟩, h10⟩, h11⟩, h12⟩, h13⟩ := h
  unfold cascadeBoostWith
  apply foldl_add_ge_one
  · intro t ht
    exact evalTerm_nonneg sp h8 h9 h10 h11 h12 h13 ri c _ x t (List.all_eq_true.mp h7 t ht)
  · exact ofQ_ge_one' h6

theorem nonneg_of_ge_one {a : S} (h : ge a one) : Nonneg a := le_trans _ _ _ h one_nonneg

/-! ### the assembled NLP output -/

theorem nlpOutWith_factors (sp : Spec) (h : sp.WF = true) (ri : RuneInfo) (db : Db) (nq : Bytes) (d : Nat) :
    Pos ((nlpOutWith (S := S) sp ri db nq).intentBoost d) ∧ ge ((nlpOutWith (S := S) sp ri db nq).cascade d) one := by
  unfold nlpOutWith
  constructor
  · show Pos (match db[d]? with | some c => intentBoostWith sp ri c _ | none => one)
    split
    · exact intentBoostWith_pos sp h ri _ _
    · exact one_pos
  · show ge (match db[d]? with | some c => cascadeBoostWith sp ri c _ | none => one) one
    split
    · exact cascadeBoostWith_ge_one sp h ri _ _
    · exact lt_irrefl _

/-- calculateIntentBoost of the current source is positive -/
theorem intentBoost_pos (ri : RuneInfo) (c : Cmd) (a : Analysis) : Pos (intentBoost ri c a : S) :=
  intentBoostWith_pos genSpec genSpec_wf ri c a

/-- calculateBoostForCommand of the current source is at least 1 -/
theorem cascadeBoost_ge_one (ri : RuneInfo) (c : Cmd) (a : Analysis) (enhanced : List Bytes) :
    ge (cascadeBoost ri c a enhanced : S) one :=
  cascadeBoostWith_ge_one genSpec genSpec_wf ri c _

theorem nlpOut_intentBoost_pos (ri : RuneInfo) (db : Db) (nq : Bytes) (d : Nat) : Pos ((nlpOut (S := S) ri db nq).intentBoost d) :=
  (nlpOutWith_factors genSpec genSpec_wf ri db nq d).1

theorem nlpOut_cascade_ge_one (ri : RuneInfo) (db : Db) (nq : Bytes) (d : Nat) : ge ((nlpOut (S := S) ri db nq).cascade d) one :=
  (nlpOutWith_factors genSpec genSpec_wf ri db nq d).2

/-- **the hypothesis C01 / C13 make about the NLP factors holds for the modelled NLP layer** -/
theorem nlpOut_factorsNonneg (ri : RuneInfo) (db : Db) (nq : Bytes) : (nlpOut (S := S) ri db nq).FactorsNonneg :=
  fun d => ⟨pos_nonneg (nlpOut_intentBoost_pos ri db nq d), nonneg_of_ge_one (nlpOut_cascade_ge_one ri db nq d)⟩

end Wtf.Boosts
