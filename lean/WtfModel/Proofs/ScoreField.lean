import WtfModel.Proofs.ScoreLaws
import Mathlib.Algebra.Order.Field.Basic
import Mathlib.Tactic.Positivity
import Mathlib.Tactic.Linarith

/-
  Every linearly ordered field is a model of `ScoreLaws` (so the ranking theorems hold over ℚ, ℝ, …).
  Mathlib is used here only.
-/
namespace Wtf

section
variable (K : Type) [Field K] [LinearOrder K] [IsStrictOrderedRing K]

/-- the canonical `ScoreOps` of an ordered field -/
@[reducible] def fieldScoreOps : ScoreOps K where
  zero := 0
  one := 1
  add := (· + ·)
  sub := (· - ·)
  mul := (· * ·)
  div := (· / ·)
  lt a b := decide (a < b)
  ofNat n := (n : K)
  ofQ q := (q.num : K) / (q.den : K)

theorem fieldScoreLaws : @ScoreLaws K (fieldScoreOps K) := by
  let _ := fieldScoreOps K
  constructor
  all_goals simp only [ScoreOps.lt, ScoreOps.zero, ScoreOps.one, ScoreOps.add, ScoreOps.sub, ScoreOps.mul,
    ScoreOps.div, ScoreOps.ofNat, ScoreOps.ofQ, decide_eq_true_eq, decide_eq_false_iff_not, not_lt]
  · intro a; exact le_refl a
  · intro a b c; exact lt_trans
  · intro a b c h1 h2; exact le_trans h2 h1
  · intro a b h; exact le_of_lt h
  · exact zero_lt_one
  · intro a b ha hb; exact add_nonneg ha hb
  · intro a b ha hb; exact add_pos_of_nonneg_of_pos ha hb
  · intro a b ha hb; exact add_pos_of_pos_of_nonneg ha hb
  · intro a; exact zero_add a
  · intro a b ha hb; exact mul_nonneg ha hb
  · intro a b ha hb; exact mul_pos ha hb
  · intro a b ha hb; exact div_nonneg ha (le_of_lt hb)
  · intro a b ha hb; exact div_pos ha hb
  · intro a b h; exact sub_nonneg.mpr h
  · intro n; exact Nat.cast_nonneg n
  · intro n hn; exact Nat.cast_pos.mpr hn
  · intro m n h; exact Nat.cast_le.mpr h
  · intro q hn hd
    exact div_nonneg (by exact_mod_cast hn) (Nat.cast_nonneg _)
  · intro q hn hd
    exact div_pos (Int.cast_pos.mpr hn) (Nat.cast_pos.mpr hd)
  · intro q h hd
    have hd' : (0 : K) < (q.den : K) := Nat.cast_pos.mpr hd
    rw [div_le_one hd']
    have : ((q.num : Int) : K) ≤ ((q.den : Int) : K) := Int.cast_le.mpr h
    simpa using this
  · intro a b c h hc; exact mul_le_mul_of_nonneg_right h hc
  · intro a b c h hc; exact mul_le_mul_of_nonneg_left h hc
  · intro a b c h; linarith
  · intro a b c h; linarith
  · intro a; exact mul_one a
  · intro a; exact one_mul a
  · intro a b c h hc; exact div_le_div_of_nonneg_right h (le_of_lt hc)
  · intro a h; simpa using h
  · intro q h hd
    have hd' : (0 : K) < (q.den : K) := Nat.cast_pos.mpr hd
    rw [le_div_iff₀ hd', one_mul]
    have : ((q.den : Int) : K) ≤ ((q.num : Int) : K) := Int.cast_le.mpr h
    simpa using this
  · intro a b c h; exact sub_le_sub_left h c
  · intro a b h; exact le_add_of_nonneg_right h

end

/-- ℚ in particular -/
example : @ScoreLaws ℚ (fieldScoreOps ℚ) := fieldScoreLaws ℚ

end Wtf
