import WtfModel.Proofs.SearchPaths
/-
  Helper lemmas for C04: every result of `search`, on every path, is a document that exists and passed
  the gate (`Eligible`); the fuzzy path's share of that.  Core Lean only.
-/
namespace Wtf.Search
open Text Index Filters ScoreOps ScoreLaws

variable {S : Type} [ScoreOps S]

/-- **every path**: whatever `search` returns — lexical, NLP, typo fallback or nothing — consists of
    documents that exist and passed the platform / pipeline gate -/
theorem search_eligible (T : Tuning S) (db : Db) (q : Bytes) (o : Opts S) {r : List (Nat × S)}
    (h : search T db q o = .ok r) : ∀ x ∈ r, Eligible T db o x.1 := by
  rw [search_eq] at h
  cases hl : lexical T db q o with
  | some r' =>
    rw [hl] at h
    simp only [orElse] at h
    injection h with h
    subst h
    exact lexical_eligible T db q o hl
  | none =>
    rw [hl] at h
    simp only [orElse, fallback] at h
    split at h
    · exact fuzzySearch_eligible T db _ o _ h
    · injection h with h
      subst h
      intro x hx
      cases hx

/-! ### the CLI's recovery answer (cli/search.go: `database.FilterResults(recoveredResults, searchOptions)`) -/

/-- database.FilterResults: keep the results whose command passes the gate (results are (document, score)
    pairs in the model; a result that is no document of the database is dropped, as `r.Command != nil`) -/
def filterResults {S : Type} (ri : RuneInfo) (host : Bytes) (o : FilterOpts) (db : Db) (rs : List (Nat × S)) :
    List (Nat × S) :=
  rs.filter (fun x => match db[x.1]? with | some c => passes ri host o c | none => false)

theorem filterResults_mem {S : Type} (ri : RuneInfo) (host : Bytes) (o : FilterOpts) (db : Db) (rs : List (Nat × S)) :
    ∀ x ∈ filterResults ri host o db rs, ∃ c, db[x.1]? = some c ∧ passes ri host o c = true := by
  intro x hx
  simp only [filterResults, List.mem_filter] at hx
  cases hc : db[x.1]? with
  | none => rw [hc] at hx; simp at hx
  | some c => rw [hc] at hx; exact ⟨c, rfl, hx.2⟩

/-! ### a local transliteration of SearchWithPipelineOptions' loop (see Props/C04.lean `legacy_pipeline`) -/

/-- the legacy gate: `if options.PipelineOnly && !isPipelineCommand(cmd) { continue }` -/
def legacyGate (ri : RuneInfo) (pipelineOnly : Bool) (c : Cmd) : Bool := !(pipelineOnly && !isPipeline ri c)

/-- the loop: gate, score (`none` = score ≤ 0, not appended), append `(position, score)` -/
def legacyCandidates {S : Type} (ri : RuneInfo) (pipelineOnly : Bool) (score : Cmd → Option S) :
    Nat → Db → List (Nat × S)
  | _, [] => []
  | i, c :: rest =>
    if legacyGate ri pipelineOnly c then
      match score c with
      | some s => (i, s) :: legacyCandidates ri pipelineOnly score (i + 1) rest
      | none => legacyCandidates ri pipelineOnly score (i + 1) rest
    else legacyCandidates ri pipelineOnly score (i + 1) rest

theorem legacyCandidates_mem {S : Type} (ri : RuneInfo) (po : Bool) (score : Cmd → Option S) (i : Nat) (db : Db) :
    ∀ x ∈ legacyCandidates ri po score i db, ∃ c, i ≤ x.1 ∧ db[x.1 - i]? = some c ∧ legacyGate ri po c = true := by
  induction db generalizing i with
  | nil => intro x hx; cases hx
  | cons c rest ih =>
    intro x hx
    have step : x ∈ legacyCandidates ri po score (i + 1) rest →
        ∃ c', i ≤ x.1 ∧ (c :: rest)[x.1 - i]? = some c' ∧ legacyGate ri po c' = true := by
      intro h
      obtain ⟨c', hle, hc', hg⟩ := ih (i + 1) x h
      refine ⟨c', by omega, ?_, hg⟩
      have : x.1 - i = (x.1 - (i + 1)) + 1 := by omega
      rw [this, List.getElem?_cons_succ]
      exact hc'
    unfold legacyCandidates at hx
    split at hx
    · rename_i hg
      split at hx
      · simp only [List.mem_cons] at hx
        rcases hx with hx | hx
        · subst hx
          exact ⟨c, Nat.le_refl _, by simp, hg⟩
        · exact step hx
      · exact step hx
    · exact step hx

end Wtf.Search
