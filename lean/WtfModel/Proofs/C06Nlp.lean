import WtfModel.Model.Nlp
/-
  Lemmas about the NLP analysis model (Model/Nlp.lean) for C06: removeDuplicates, the shape of the expanded
  keyword list, where keywords come from.  Core Lean only.  Everything holds for every `Tables` value and every
  hint function.
-/
namespace Wtf.Nlp
open Text

/-! ### removeDuplicates -/

theorem mem_dedupAux {l seen : List Bytes} {x : Bytes} : x ∈ dedupAux l seen ↔ x ∈ l ∧ x ∉ seen := by
  induction l generalizing seen with
  | nil => simp [dedupAux]
  | cons a rest ih =>
    simp only [dedupAux]
    split
    · rename_i h
      have ha : a ∈ seen := by simpa using h
      rw [ih]
      constructor
      · rintro ⟨h1, h2⟩; exact ⟨List.mem_cons_of_mem _ h1, h2⟩
      · rintro ⟨h1, h2⟩
        refine ⟨?_, h2⟩
        cases List.mem_cons.mp h1 with
        | inl e => subst e; exact absurd ha h2
        | inr e => exact e
    · rename_i h
      have ha : a ∉ seen := by simpa using h
      simp only [List.mem_cons, ih]
      constructor
      · rintro (e | ⟨h1, h2⟩)
        · subst e; exact ⟨Or.inl rfl, ha⟩
        · exact ⟨Or.inr h1, fun hx => h2 (Or.inr hx)⟩
      · rintro ⟨h1 | h1, h2⟩
        · exact Or.inl h1
        · by_cases e : x = a
          · exact Or.inl e
          · exact Or.inr ⟨h1, fun hx => hx.elim e h2⟩

theorem mem_dedup {l : List Bytes} {x : Bytes} : x ∈ dedup l ↔ x ∈ l := by
  simp [dedup, mem_dedupAux]

theorem nodup_dedupAux (l seen : List Bytes) : (dedupAux l seen).Nodup := by
  induction l generalizing seen with
  | nil => simp [dedupAux]
  | cons a rest ih =>
    simp only [dedupAux]
    split
    · exact ih seen
    · refine List.nodup_cons.mpr ⟨?_, ih _⟩
      intro h
      have := (mem_dedupAux.mp h).2
      exact this (List.mem_cons_self ..)

theorem nodup_dedup (l : List Bytes) : (dedup l).Nodup := nodup_dedupAux l []

theorem dedupAux_sublist (l seen : List Bytes) : (dedupAux l seen).Sublist l := by
  induction l generalizing seen with
  | nil => simp [dedupAux]
  | cons a rest ih =>
    simp only [dedupAux]
    split
    · exact (ih seen).cons a
    · exact (ih _).cons_cons a

theorem dedup_sublist (l : List Bytes) : (dedup l).Sublist l := dedupAux_sublist l []

theorem dedupAux_of_nodup {l seen : List Bytes} (hn : l.Nodup) (hd : ∀ x ∈ l, x ∉ seen) : dedupAux l seen = l := by
  induction l generalizing seen with
  | nil => rfl
  | cons a rest ih =>
    have ha : a ∉ seen := hd a (List.mem_cons_self ..)
    have hn' := List.nodup_cons.mp hn
    simp only [dedupAux]
    have : seen.contains a = false := by simpa using ha
    simp only [this, Bool.false_eq_true, ↓reduceIte, List.cons.injEq, true_and]
    apply ih hn'.2
    intro x hx hx'
    cases List.mem_cons.mp hx' with
    | inl e => subst e; exact hn'.1 hx
    | inr e => exact hd x (List.mem_cons_of_mem _ hx) e

theorem dedup_of_nodup {l : List Bytes} (hn : l.Nodup) : dedup l = l :=
  dedupAux_of_nodup hn (by simp)

/-- de-duplicating `a ++ b` starts with the de-duplication of `a` -/
theorem dedupAux_append_prefix (a b seen : List Bytes) : dedupAux a seen <+: dedupAux (a ++ b) seen := by
  induction a generalizing seen with
  | nil => exact List.nil_prefix
  | cons x rest ih =>
    simp only [List.cons_append, dedupAux]
    split
    · exact ih seen
    · exact List.prefix_cons_inj x |>.mpr (ih _)

theorem dedup_append_prefix (a b : List Bytes) : dedup a <+: dedup (a ++ b) := dedupAux_append_prefix a b []

/-- a duplicate-free list survives as the prefix of the de-duplication of anything that starts with it -/
theorem prefix_dedup_append {a : List Bytes} (hn : a.Nodup) (b : List Bytes) : a <+: dedup (a ++ b) := by
  have := dedup_append_prefix a b
  rwa [dedup_of_nodup hn] at this

/-! ### the expanded list -/

/-- GetEnhancedKeywords only ever appends to the keyword list -/
theorem enhancedRaw_eq (Tb : Tables) (hints : Analysis → List Bytes) (a : Analysis) :
    ∃ r, enhancedRaw Tb hints a = a.keywords ++ r := by
  unfold enhancedRaw
  simp only
  split <;> split <;> exact ⟨_, by simp only [List.append_assoc]; rfl⟩

theorem keywords_prefix_enhanced (Tb : Tables) (hints : Analysis → List Bytes) (a : Analysis)
    (hn : a.keywords.Nodup) : a.keywords <+: enhancedKeywords Tb hints a := by
  obtain ⟨r, hr⟩ := enhancedRaw_eq Tb hints a
  unfold enhancedKeywords
  rw [hr]
  exact prefix_dedup_append hn r

theorem processQuery_keywords (Tb : Tables) (ri : RuneInfo) (q : Bytes) :
    (processQuery Tb ri q).keywords = dedup (rawKeywords Tb q) := rfl

theorem processQuery_keywords_nodup (Tb : Tables) (ri : RuneInfo) (q : Bytes) :
    (processQuery Tb ri q).keywords.Nodup := nodup_dedup _

/-! ### where keywords come from -/

theorem mem_wordKeywords {Tb : Tables} {w k : Bytes} (h : k ∈ wordKeywords Tb w) :
    isStop Tb w = false ∧ assoc Tb.actions w = none ∧
      (k = w ∨ (assoc Tb.targets w = none ∧ ∃ rest, assoc Tb.synonyms w = some (k :: rest))) := by
  unfold wordKeywords at h
  split at h
  · simp at h
  · rename_i hs
    have hs' : isStop Tb w = false := by simpa using hs
    split at h
    · simp at h
    · rename_i ha
      refine ⟨hs', ha, ?_⟩
      split at h
      · left; simpa using h
      · rename_i ht
        cases List.mem_cons.mp h with
        | inl e => exact Or.inl e
        | inr e =>
          right
          refine ⟨ht, ?_⟩
          unfold firstSynonym at e
          split at e
          · rename_i s rest hsyn
            have : k = s := by simpa using e
            subst this
            exact ⟨rest, hsyn⟩
          · simp at e

theorem self_mem_wordKeywords {Tb : Tables} {w : Bytes} (hs : isStop Tb w = false) (ha : assoc Tb.actions w = none) :
    w ∈ wordKeywords Tb w := by
  unfold wordKeywords
  simp only [hs, Bool.false_eq_true, ↓reduceIte, ha]
  split <;> simp

/-- the content words of the query that the loop keeps as keywords: not a stop word, not an action word -/
def userKeywordWords (Tb : Tables) (q : Bytes) : List Bytes :=
  (words q).filter (fun w => !isStop Tb w && (assoc Tb.actions w).isNone)

theorem flatMap_eq_filter {α : Type} (f : α → List α) (p : α → Bool) (l : List α)
    (h : ∀ w ∈ l, f w = if p w then [w] else []) : l.flatMap f = l.filter p := by
  induction l with
  | nil => rfl
  | cons a rest ih =>
    have ha := h a (List.mem_cons_self ..)
    have ih' := ih (fun w hw => h w (List.mem_cons_of_mem _ hw))
    simp only [List.flatMap_cons, ha, ih', List.filter_cons]
    split <;> simp

end Wtf.Nlp
