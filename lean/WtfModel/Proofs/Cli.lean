import WtfModel.Model.Cli
import WtfModel.Proofs.History
import WtfModel.Proofs.ScoreLaws
/-
  Helper lemmas for C17 (core Lean only): sorting a sorted answer, the recovery cut, ESC-freeness of everything
  the step interpreter prints, the JSON items of the regenerated `jsonSteps`.
-/
set_option linter.unusedSectionVars false
namespace Wtf.Cli
open Wtf.Gen.Cli (Expr Step JsonField)
open ScoreOps

variable {S : Type} [ScoreOps S]

/-! ### answers -/

/-- sorted by score, non-increasing (what `sort.SliceStable(results, Score[i] > Score[j])` establishes) -/
def SortedDesc (l : List (Nat × S)) : Prop := l.Pairwise (fun a b => lt a.2 b.2 = false)

instance (l : List (Nat × S)) : Decidable (SortedDesc l) := inferInstanceAs (Decidable (l.Pairwise _))

theorem sortDesc_of_sorted {l : List (Nat × S)} (h : SortedDesc l) : Search.sortDesc (·.2) l = l := by
  unfold Search.sortDesc
  apply List.mergeSort_of_pairwise
  exact h.imp (by intro a b hab; simp [hab])

theorem SortedDesc.sublist {l l' : List (Nat × S)} (h : SortedDesc l) (hs : l'.Sublist l) : SortedDesc l' :=
  List.Pairwise.sublist hs h

theorem recoveryAnswer_eq (w : World S) (o : Search.Opts S) (rs : List (Nat × S)) (hr : w.recovery = some rs) (hl : 0 ≤ o.limit) :
    recoveryAnswer w o = (rs.filter (fun r => w.gate o r.1)).take o.limit.toNat := by
  unfold recoveryAnswer
  rw [hr]
  simp only []
  split
  · rfl
  · rename_i h
    rw [List.take_of_length_le]
    omega

theorem recoveryAnswer_sublist (w : World S) (o : Search.Opts S) (rs : List (Nat × S)) (hr : w.recovery = some rs) :
    (recoveryAnswer w o).Sublist rs := by
  unfold recoveryAnswer
  rw [hr]
  simp only []
  split
  · exact (List.take_sublist _ _).trans List.filter_sublist
  · exact List.filter_sublist

theorem recoveryAnswer_length (w : World S) (o : Search.Opts S) (hl : 0 ≤ o.limit) :
    ((recoveryAnswer w o).length : Int) ≤ o.limit := by
  unfold recoveryAnswer
  cases hr : w.recovery with
  | none => simpa using hl
  | some rs =>
    simp only []
    split
    · rename_i h
      rw [List.length_take]
      omega
    · omega

theorem limitInForce_pos (valid : Int) : 0 < limitInForce valid := by
  unfold limitInForce
  split
  · assumption
  · decide

/-! ### ESC-free bytes -/

def Clean (b : Bytes) : Prop := ESC ∉ b

theorem clean_nil : Clean [] := by simp [Clean]

theorem clean_append {a b : Bytes} (ha : Clean a) (hb : Clean b) : Clean (a ++ b) := by
  simp only [Clean, List.mem_append, not_or] at *
  exact ⟨ha, hb⟩

theorem clean_cons {c : UInt8} {b : Bytes} (hc : c ≠ ESC) (hb : Clean b) : Clean (c :: b) := by
  simp only [Clean, List.mem_cons, not_or] at *
  exact ⟨fun h => hc h.symm, hb⟩

theorem clean_flatten {l : List Bytes} (h : ∀ c ∈ l, Clean c) : Clean l.flatten := by
  simp only [Clean, List.mem_flatten, not_exists, not_and] at *
  intro c hc
  exact h c hc

theorem clean_take {b : Bytes} (n : Nat) (h : Clean b) : Clean (b.take n) :=
  fun hm => h (List.mem_of_mem_take hm)

theorem clean_replicate {n : Nat} {c : UInt8} (hc : c ≠ ESC) : Clean (List.replicate n c) := by
  simp only [Clean, List.mem_replicate, not_and]
  intro _ h
  exact hc h.symm

theorem clean_of_contains {b : Bytes} (h : b.contains ESC = false) : Clean b := by
  simpa [Clean] using h

theorem clean_joinBytes {sep : Bytes} (hs : Clean sep) : ∀ {l : List Bytes}, (∀ x ∈ l, Clean x) → Clean (joinBytes sep l)
  | [], _ => clean_nil
  | [x], h => by simpa [joinBytes] using h x (by simp)
  | x :: y :: rest, h => by
    show Clean (x ++ sep ++ joinBytes sep (y :: rest))
    exact clean_append (clean_append (h x (by simp)) hs) (clean_joinBytes hs (fun z hz => h z (by simp [hz])))
  termination_by l => l.length

theorem clean_badText : Clean badText := by
  show ESC ∉ badText
  decide

theorem natDecAux_clean : ∀ (fuel n : Nat) (acc : Bytes), Clean acc → Clean (natDecAux fuel n acc)
  | 0, _, _, h => by simpa [natDecAux] using h
  | fuel + 1, n, acc, h => by
    have hd : UInt8.ofNat (48 + n % 10) ≠ ESC := by
      have h10 : n % 10 < 10 := Nat.mod_lt _ (by decide)
      intro heq
      have := congrArg UInt8.toNat heq
      simp [ESC, UInt8.toNat_ofNat'] at this
      omega
    simp only [natDecAux]
    split
    · exact clean_cons hd h
    · exact natDecAux_clean fuel (n / 10) _ (clean_cons hd h)

theorem natDec_clean (n : Nat) : Clean (natDec n) := natDecAux_clean _ _ _ clean_nil

theorem intDec_clean (n : Int) : Clean (intDec n) := by
  unfold intDec
  split
  · exact clean_cons (by decide) (natDec_clean _)
  · exact natDec_clean _

theorem pad_clean (v : Verb) {b : Bytes} (h : Clean b) : Clean (pad v b) := by
  unfold pad
  simp only []
  split
  · exact clean_append h (clean_replicate (by decide))
  · exact clean_append (clean_replicate (by decide)) h

/-- the formatters print no ESC (strconv prints digits, sign, point, `NaN`, `Inf`; encoding/json escapes every
    control character as `\u00XX`) -/
structure FmtClean (F : Fmt S) : Prop where
  float : ∀ p s, Clean (F.fmtFloat p s)
  str : ∀ b, Clean (F.jsonStr b)
  num : ∀ s, Clean (F.jsonNum s)

def ValClean : Val S → Prop
  | .bytes b => Clean b
  | .strs l => ∀ x ∈ l, Clean x
  | _ => True

theorem fmtOne_clean {F : Fmt S} (hF : FmtClean F) (v : Verb) {x : Val S} (hx : ValClean x) : Clean (fmtOne F v x) := by
  cases x with
  | bytes b => simp only [fmtOne]; split; exact pad_clean v hx; exact clean_badText
  | int n => simp only [fmtOne]; split; exact pad_clean v (intDec_clean n); exact clean_badText
  | score s => simp only [fmtOne]; split; exact pad_clean v (hF.float _ _); exact clean_badText
  | strs l => exact clean_badText
  | bool b => exact clean_badText
  | sliceLen n => exact clean_badText
  | bad => exact clean_badText

def pieceCleanB : FPiece → Bool
  | .lit b => !b.contains ESC
  | .verb _ => true

/-- every literal run of the format string is ESC-free (decidable: evaluated on the regenerated formats) -/
def fmtCleanB (f : Bytes) : Bool := (parseFmt f).all pieceCleanB

theorem sprintfPieces_clean {F : Fmt S} (hF : FmtClean F) :
    ∀ (ps : List FPiece) (args : List (Val S)), ps.all pieceCleanB = true → (∀ a ∈ args, ValClean a) →
      ∀ c ∈ sprintfPieces F ps args, Clean c
  | [], [], _, _ => by simp [sprintfPieces]
  | [], _ :: _, _, _ => by
    intro c hc
    simp only [sprintfPieces, List.mem_singleton] at hc
    subst hc; exact clean_badText
  | .lit b :: ps, args, hp, ha => by
    intro c hc
    simp only [List.all_cons, Bool.and_eq_true] at hp
    simp only [sprintfPieces, List.mem_cons] at hc
    rcases hc with rfl | hc
    · have := hp.1
      simp only [pieceCleanB, Bool.not_eq_true'] at this
      exact clean_of_contains this
    · exact sprintfPieces_clean hF ps args hp.2 ha c hc
  | .verb _ :: ps, [], hp, ha => by
    intro c hc
    simp only [List.all_cons, Bool.and_eq_true] at hp
    simp only [sprintfPieces, List.mem_cons] at hc
    rcases hc with rfl | hc
    · exact clean_badText
    · exact sprintfPieces_clean hF ps [] hp.2 ha c hc
  | .verb v :: ps, a :: args, hp, ha => by
    intro c hc
    simp only [List.all_cons, Bool.and_eq_true] at hp
    simp only [sprintfPieces, List.mem_cons] at hc
    rcases hc with rfl | hc
    · exact fmtOne_clean hF v (ha a (by simp))
    · exact sprintfPieces_clean hF ps args hp.2 (fun x hx => ha x (by simp [hx])) c hc

theorem sprintf_clean {F : Fmt S} (hF : FmtClean F) {f : Bytes} (hf : fmtCleanB f = true) {args : List (Val S)}
    (ha : ∀ a ∈ args, ValClean a) : Clean (sprintf F f args) :=
  clean_flatten (sprintfPieces_clean hF _ _ hf ha)

/-! ### expressions and steps print only clean bytes -/

def exprCleanB : Expr → Bool
  | .lit b => !b.contains ESC
  | .join e sep => exprCleanB e && !sep.contains ESC
  | .sprintf f e => exprCleanB e && fmtCleanB f
  | .len e | .pfx e _ | .not e => exprCleanB e
  | .add a b | .appendAll a b | .gt a b | .ne a b | .and a b => exprCleanB a && exprCleanB b
  | _ => true

def stepCleanB : Step → Bool
  | .print _ gs f args => gs.all exprCleanB && fmtCleanB f && args.all exprCleanB
  | .assign _ gs _ v => gs.all exprCleanB && exprCleanB v
  | .emit _ gs => gs.all exprCleanB

def DocClean (d : Doc) : Prop :=
  Clean d.command ∧ Clean d.description ∧ Clean d.niche ∧ (∀ x ∈ d.keywords, Clean x) ∧ (∀ x ∈ d.platform, Clean x)

structure EnvClean (env : REnv S) : Prop where
  colors : ∀ kv ∈ env.colors, Clean kv.2
  locals : ∀ kv ∈ env.locals, ValClean kv.2
  doc : DocClean env.doc
  F : FmtClean env.F

theorem lookup_prop {α : Type} {P : α → Prop} (k : String) : ∀ (l : List (String × α)), (∀ kv ∈ l, P kv.2) → ∀ v, lookup k l = some v → P v
  | [], _, v, h => by simp [lookup] at h
  | (k', v') :: rest, hl, v, h => by
    simp only [lookup] at h
    split at h
    · cases h; exact hl (k', v') (by simp)
    · exact lookup_prop k rest (fun kv hkv => hl kv (by simp [hkv])) v h

theorem setKey_prop {α : Type} {P : α → Prop} (k : String) (v : α) (hv : P v) :
    ∀ (l : List (String × α)), (∀ kv ∈ l, P kv.2) → ∀ kv ∈ setKey k v l, P kv.2
  | [], _ => by simp [setKey, hv]
  | (k', v') :: rest, hl => by
    simp only [setKey]
    split
    · intro kv hkv
      simp only [List.mem_cons] at hkv
      rcases hkv with rfl | hkv
      · exact hv
      · exact hl kv (by simp [hkv])
    · intro kv hkv
      simp only [List.mem_cons] at hkv
      rcases hkv with rfl | hkv
      · exact hl (k', v') (by simp)
      · exact setKey_prop k v hv rest (fun x hx => hl x (by simp [hx])) kv hkv

theorem zeroOf_clean (t : String) : ValClean (zeroOf S t) := by
  unfold zeroOf
  repeat' split
  all_goals simp [ValClean, Clean]

theorem selVal_clean {env : REnv S} (h : EnvClean env) (p : String) : ValClean (selVal env p) := by
  unfold selVal
  obtain ⟨h1, h2, h3, h4, h5⟩ := h.doc
  repeat' split
  all_goals first
    | exact h1 | exact h2 | exact h3 | exact h4 | exact h5 | trivial
    | exact lookup_prop (P := ValClean) _ _ h.locals _ (by assumption)
    | exact zeroOf_clean _

theorem varVal_clean {env : REnv S} (h : EnvClean env) (n : String) : ValClean (varVal env n) := by
  unfold varVal
  repeat' split
  all_goals first
    | trivial
    | exact lookup_prop (P := ValClean) _ _ h.locals _ (by assumption)
    | exact lookup_prop (P := fun (c : Bytes) => Clean c) _ _ h.colors _ (by assumption)

theorem eval_clean {env : REnv S} (h : EnvClean env) : ∀ (e : Expr), exprCleanB e = true → ValClean (eval env e)
  | .lit b, he => by
    simp only [exprCleanB, Bool.not_eq_true'] at he
    exact clean_of_contains he
  | .var n, _ => varVal_clean h n
  | .sel p, _ => selVal_clean h p
  | .int _, _ => trivial
  | .nil, _ => by simp [eval, ValClean]
  | .len e, _ => by
    simp only [eval]
    split <;> trivial
  | .add a b, he => by
    simp only [exprCleanB, Bool.and_eq_true] at he
    have ha := eval_clean h a he.1
    have hb := eval_clean h b he.2
    simp only [eval]
    split
    · trivial
    · rename_i x y hx hy
      rw [hx] at ha; rw [hy] at hb
      exact clean_append ha hb
    · trivial
  | .pfx e hi, he => by
    have ha := eval_clean h e he
    simp only [eval]
    split
    · rename_i b hb
      rw [hb] at ha
      split
      · exact clean_take _ ha
      · trivial
    · trivial
  | .join e sep, he => by
    simp only [exprCleanB, Bool.and_eq_true, Bool.not_eq_true'] at he
    have ha := eval_clean h e he.1
    simp only [eval]
    split
    · rename_i l hl
      rw [hl] at ha
      exact clean_joinBytes (clean_of_contains he.2) ha
    · trivial
  | .sprintf f e, he => by
    simp only [exprCleanB, Bool.and_eq_true] at he
    have ha := eval_clean h e he.1
    simp only [eval]
    exact sprintf_clean h.F he.2 (by intro a hm; simp only [List.mem_singleton] at hm; subst hm; exact ha)
  | .appendAll a b, he => by
    simp only [exprCleanB, Bool.and_eq_true] at he
    have ha := eval_clean h a he.1
    have hb := eval_clean h b he.2
    simp only [eval]
    split
    · rename_i x y hx hy
      rw [hx] at ha; rw [hy] at hb
      intro z hz
      simp only [List.mem_append] at hz
      rcases hz with hz | hz
      · exact ha z hz
      · exact hb z hz
    · trivial
  | .gt a b, _ => by
    simp only [eval]
    split <;> trivial
  | .ne a b, _ => by
    simp only [eval]
    split <;> trivial
  | .not a, _ => by
    simp only [eval]
    split <;> trivial
  | .and a b, _ => by
    simp only [eval]
    split
    · trivial
    · split <;> trivial
    · trivial
  | .unknown _, _ => trivial

structure StClean (st : RState S) : Prop where
  out : ∀ c ∈ st.out, Clean c
  locals : ∀ kv ∈ st.locals, ValClean kv.2

theorem runStep_clean {env : REnv S} (h : EnvClean env) {st : RState S} (hs : StClean st) (s : Step) (hc : stepCleanB s = true) :
    StClean (runStep env st s) := by
  have he : EnvClean { env with locals := st.locals } := ⟨h.colors, hs.locals, h.doc, h.F⟩
  cases s with
  | print l gs f args =>
    simp only [stepCleanB, Bool.and_eq_true, List.all_eq_true] at hc
    simp only [runStep]
    split
    · refine ⟨?_, hs.locals⟩
      intro c hm
      simp only [List.mem_append, List.mem_singleton] at hm
      rcases hm with hm | rfl
      · exact hs.out c hm
      · apply sprintf_clean h.F hc.1.2
        intro a ha
        simp only [List.mem_map] at ha
        obtain ⟨e, hem, rfl⟩ := ha
        exact eval_clean he e (hc.2 e hem)
    · exact hs
  | assign l gs t v =>
    simp only [stepCleanB, Bool.and_eq_true] at hc
    simp only [runStep]
    split
    · exact ⟨hs.out, setKey_prop (P := ValClean) t _ (eval_clean he v hc.2) _ hs.locals⟩
    · exact hs
  | emit l gs =>
    simp only [runStep]
    split
    · exact ⟨hs.out, hs.locals⟩
    · exact hs

theorem runSteps_clean {env : REnv S} (h : EnvClean env) : ∀ (steps : List Step) {st : RState S}, StClean st →
    steps.all stepCleanB = true → StClean (runSteps env st steps)
  | [], _, hs, _ => by simpa [runSteps] using hs
  | s :: rest, st, hs, hc => by
    simp only [List.all_cons, Bool.and_eq_true] at hc
    simp only [runSteps, List.foldl_cons]
    exact runSteps_clean h rest (runStep_clean h hs s hc.1) hc.2

theorem all_of_sublist {α : Type} {p : α → Bool} {l l' : List α} (hs : l'.Sublist l) (h : l.all p = true) : l'.all p = true := by
  simp only [List.all_eq_true] at *
  exact fun x hx => h x (hs.subset hx)

theorem preSteps_sublist (steps : List Step) : (preSteps steps).Sublist steps := List.takeWhile_sublist _
theorem loopSteps_sublist (steps : List Step) : (loopSteps steps).Sublist steps :=
  (List.takeWhile_sublist _).trans (List.dropWhile_sublist _)
theorem postSteps_sublist (steps : List Step) : (postSteps steps).Sublist steps :=
  (List.dropWhile_sublist _).trans (List.dropWhile_sublist _)

theorem iterate_clean {env : REnv S} (hc : ∀ kv ∈ env.colors, Clean kv.2) (hF : FmtClean env.F) (hel : ∀ kv ∈ env.locals, ValClean kv.2)
    {locals : List (String × Val S)} (hl : ∀ kv ∈ locals, ValClean kv.2) {steps : List Step} (hs : steps.all stepCleanB = true) (docs : Nat → Doc) :
    ∀ (i : Nat) (rs : List (Nat × S)), (∀ r ∈ rs, DocClean (docs r.1)) → ∀ st ∈ iterate env locals steps docs i rs, ∀ c ∈ st.out, Clean c
  | _, [], _ => by simp [iterate]
  | i, r :: rs, hd => by
    intro st hst
    simp only [iterate, List.mem_cons] at hst
    rcases hst with rfl | hst
    · have he : EnvClean { env with idx := i, doc := docs r.1, score := r.2 } := ⟨hc, hel, hd r (by simp), hF⟩
      exact (runSteps_clean (st := { locals := locals }) he (loopSteps steps) ⟨by simp, hl⟩ (all_of_sublist (loopSteps_sublist steps) hs)).out
    · exact iterate_clean hc hF hel hl hs docs (i + 1) rs (fun x hx => hd x (by simp [hx])) st hst

theorem render_clean {env : REnv S} (he : EnvClean env)
    {steps : List Step} (hs : steps.all stepCleanB = true) (docs : Nat → Doc) (rs : List (Nat × S)) (hd : ∀ r ∈ rs, DocClean (docs r.1)) :
    ∀ c ∈ (render env steps docs rs).chunks, Clean c := by
  have hpre := runSteps_clean (st := {}) he (preSteps steps) ⟨by simp, by simp⟩ (all_of_sublist (preSteps_sublist steps) hs)
  have hpost := runSteps_clean (st := { locals := (runSteps env {} (preSteps steps)).locals }) he (postSteps steps)
    ⟨by simp, hpre.locals⟩ (all_of_sublist (postSteps_sublist steps) hs)
  intro c hm
  simp only [render, List.mem_append, List.mem_flatMap] at hm
  rcases hm with (hm | ⟨st, hst, hm⟩) | hm
  · exact hpre.out c hm
  · exact iterate_clean he.colors he.F he.locals hpre.locals hs docs 0 rs hd st hst c hm
  · exact hpost.out c hm

/-! ### the JSON items built by the regenerated `jsonSteps` -/

/-- members of the JSON object printed for one result: (name, value), in order -/
def expectedMembers (verbose : Bool) (d : Doc) (s : S) : List (String × Val S) :=
  [("command", .bytes d.command), ("description", .bytes d.description)]
  ++ (if verbose && !d.keywords.isEmpty then [("keywords", .strs d.keywords)] else [])
  ++ (if !d.niche.isEmpty then [("category", .bytes d.niche)] else [])
  ++ (if verbose && !d.platform.isEmpty then [("platforms", .strs d.platform)] else [])
  ++ (if verbose && !isZeroScore s then [("score", .score s)] else [])

/-- the variables in scope when `out = append(out, it)` runs, as the regenerated `jsonSteps` leave them -/
def theItem (verbose : Bool) (d : Doc) (s : S) : Item S :=
  if verbose then
    [("it.Command", .bytes d.command), ("it.Description", .bytes d.description), ("it.Keywords", .strs ([] ++ d.keywords)),
     ("it.Category", .bytes d.niche), ("it.Platforms", .strs ([] ++ d.platform)), ("it.Score", .score s)]
  else
    [("it.Command", .bytes d.command), ("it.Description", .bytes d.description), ("it.Keywords", .strs []),
     ("it.Category", .bytes d.niche), ("it.Platforms", .strs [])]

theorem pre_json : preSteps Gen.Cli.jsonSteps = [] := rfl
theorem post_json : postSteps Gen.Cli.jsonSteps = [] := rfl

/-- one loop iteration of the JSON branch appends exactly one item (evaluation of the regenerated steps) -/
theorem jsonIter_items (env : REnv S) (docs : Nat → Doc) (i : Nat) (r : Nat × S) :
    (runIter env [] Gen.Cli.jsonSteps docs i r).items = [theItem env.verbose (docs r.1) r.2] := by
  obtain ⟨colors, verbose, count, F, locals, idx, doc, score⟩ := env
  cases verbose <;> rfl

theorem iterate_items_json (env : REnv S) (docs : Nat → Doc) : ∀ (i : Nat) (rs : List (Nat × S)),
    (iterate env [] Gen.Cli.jsonSteps docs i rs).flatMap (·.items) = rs.map (fun r => theItem env.verbose (docs r.1) r.2)
  | _, [] => by simp [iterate]
  | i, r :: rs => by
    simp only [iterate, List.flatMap_cons, List.map_cons, jsonIter_items, iterate_items_json env docs (i + 1) rs]
    rfl

theorem render_json_items (env : REnv S) (docs : Nat → Doc) (rs : List (Nat × S)) :
    (render env Gen.Cli.jsonSteps docs rs).items = rs.map (fun r => theItem env.verbose (docs r.1) r.2) := by
  simp only [render, pre_json, post_json, runSteps, List.foldl_nil, List.nil_append, List.append_nil]
  exact iterate_items_json env docs 0 rs

theorem isZeroScore_zero [ScoreLaws S] : isZeroScore (zero : S) = true := by
  simp [isZeroScore, ScoreLaws.lt_irrefl]

theorem objFields_theItem (verbose : Bool) (d : Doc) (s : S) (hz0 : isZeroScore (zero : S) = true) :
    objFields Gen.Cli.jsonFields (theItem verbose d s) = expectedMembers verbose d s := by
  obtain ⟨c, de, n, ks, ps⟩ := d
  cases verbose
  all_goals
    simp only [objFields, Gen.Cli.jsonFields, List.flatMap_cons, List.flatMap_nil, itemField, theItem, Bool.false_eq_true, ↓reduceIte]
    simp only [lookup, String.reduceBEq, Bool.false_eq_true, ↓reduceIte, zeroOf]
    cases hz : isZeroScore s <;> cases ks <;> cases n <;> cases ps <;>
      simp [isEmptyVal, expectedMembers, hz, hz0]

/-! ### the JSON text is ESC-free whatever the fields contain -/

theorem nl_clean (depth : Nat) : Clean (nl depth) := by
  unfold nl
  refine clean_cons (by decide) (clean_append (by show ESC ∉ Gen.Cli.jsonPrefix; decide) (clean_flatten ?_))
  intro c hc
  simp only [List.mem_replicate] at hc
  rw [hc.2]
  show ESC ∉ Gen.Cli.jsonIndent
  decide

theorem encSeq_clean {op cl : UInt8} (ho : op ≠ ESC) (hc : cl ≠ ESC) (depth : Nat) {elems : List Bytes} (h : ∀ e ∈ elems, Clean e) :
    Clean (encSeq op cl depth elems) := by
  unfold encSeq
  split
  · exact clean_cons ho (clean_cons hc clean_nil)
  · exact clean_append (clean_append (clean_append (clean_cons ho clean_nil) (nl_clean _))
      (clean_joinBytes (clean_cons (by decide) (nl_clean _)) h)) (nl_clean _) |> fun x => clean_append x (clean_cons hc clean_nil)

theorem encVal_clean {F : Fmt S} (hF : FmtClean F) (depth : Nat) (v : Val S) : Clean (encVal F depth v) := by
  cases v with
  | bytes b => exact hF.str b
  | score s => exact hF.num s
  | strs l =>
    apply encSeq_clean (by decide) (by decide)
    intro e he
    simp only [List.mem_map] at he
    obtain ⟨x, _, rfl⟩ := he
    exact hF.str x
  | int n => exact intDec_clean n
  | bool b =>
    cases b
    · show ESC ∉ bs "false"; decide
    · show ESC ∉ bs "true"; decide
  | sliceLen n => show ESC ∉ bs "null"; decide
  | bad => show ESC ∉ bs "null"; decide

theorem objFields_names (fields : List JsonField) (it : Item S) :
    ∀ kv ∈ objFields fields it, ∃ f ∈ fields, kv.1 = f.jsonName := by
  intro kv hkv
  simp only [objFields, List.mem_flatMap] at hkv
  obtain ⟨f, hf, hm⟩ := hkv
  split at hm
  · simp at hm
  · simp only [List.mem_singleton] at hm
    exact ⟨f, hf, by rw [hm]⟩

theorem jsonNames_clean : ∀ f ∈ Gen.Cli.jsonFields, ESC ∉ bs f.jsonName := by decide

theorem encodeItems_clean {F : Fmt S} (hF : FmtClean F) (items : List (Item S)) : Clean (encodeItems F items) := by
  unfold encodeItems
  refine clean_append (encSeq_clean (by decide) (by decide) 0 ?_) (clean_cons (by decide) clean_nil)
  intro e he
  simp only [List.mem_map] at he
  obtain ⟨it, _, rfl⟩ := he
  unfold encObj
  apply encSeq_clean (by decide) (by decide)
  intro m hm
  simp only [List.mem_map] at hm
  obtain ⟨kv, hkv, rfl⟩ := hm
  obtain ⟨f, hf, hname⟩ := objFields_names _ _ kv hkv
  have hn : Clean (bs kv.1) := by rw [hname]; exact jsonNames_clean f hf
  have hq : Clean ([0x22] : Bytes) := by show ESC ∉ _; decide
  have hsep : Clean ([0x22, 0x3a, 0x20] : Bytes) := by show ESC ∉ _; decide
  exact clean_append (clean_append (clean_append hq hn) hsep) (encVal_clean hF _ _)

/-- every format-string literal, every literal argument and every separator of the regenerated list / table branches is
    ESC-free (evaluated on `Gen.Cli`) -/
theorem listSteps_clean : Gen.Cli.listSteps.all stepCleanB = true := by decide
theorem tableSteps_clean : Gen.Cli.tableSteps.all stepCleanB = true := by decide

end Wtf.Cli
