import WtfModel.Proofs.C13Order
/-
  C13, engine half, part 2: the score map of two runs that differ only in the per-term weights
  (`MapRel`), and what every later stage of the pipeline does to the score of one document
  (`postScore`): a function of the document, its initial score and the number of candidates that
  does not read the context boosts.  Core Lean only.
-/
namespace Wtf.C13
open Wtf.Text Wtf.Index Wtf.Filters Wtf.Search ScoreOps ScoreLaws

variable {S : Type} [ScoreOps S]

/-! ### two score maps with the same keys, related entry by entry -/

inductive MapRel (E : Nat → S → S → Prop) : List (Nat × S) → List (Nat × S) → Prop
  | nil : MapRel E [] []
  | cons {d : Nat} {s1 s2 : S} {m1 m2 : List (Nat × S)} :
      E d s1 s2 → MapRel E m1 m2 → MapRel E ((d, s1) :: m1) ((d, s2) :: m2)

/-- how one accumulation step acts on related entries: `X d x1 x2` relates the two summands -/
structure Step (E X : Nat → S → S → Prop) : Prop where
  step : ∀ d s1 s2 x1 x2, E d s1 s2 → X d x1 x2 → E d (add s1 x1) (add s2 x2)
  init : ∀ d x1 x2, X d x1 x2 → E d (add zero x1) (add zero x2)

theorem MapRel.keys {E : Nat → S → S → Prop} {m1 m2 : List (Nat × S)} (h : MapRel E m1 m2) :
    m1.map (·.1) = m2.map (·.1) := by
  induction h with
  | nil => rfl
  | cons _ _ ih => simp [ih]

theorem MapRel.length {E : Nat → S → S → Prop} {m1 m2 : List (Nat × S)} (h : MapRel E m1 m2) :
    m1.length = m2.length := by
  have := congrArg List.length h.keys
  simpa using this

theorem MapRel.lookup {E : Nat → S → S → Prop} {m1 m2 : List (Nat × S)} (h : MapRel E m1 m2)
    (hnd : (m1.map (·.1)).Nodup) {d : Nat} {s1 s2 : S} (h1 : (d, s1) ∈ m1) (h2 : (d, s2) ∈ m2) : E d s1 s2 := by
  induction h with
  | nil => cases h1
  | @cons d' a b m1 m2 he hr ih =>
    simp only [List.map_cons, List.nodup_cons] at hnd
    simp only [List.mem_cons, Prod.mk.injEq] at h1 h2
    rcases h1 with ⟨hd, hs⟩ | h1
    · subst hd hs
      rcases h2 with ⟨_, hs⟩ | h2
      · subst hs; exact he
      · exfalso
        apply hnd.1
        rw [hr.keys]
        exact List.mem_map_of_mem (f := (·.1)) h2
    · rcases h2 with ⟨hd, hs⟩ | h2
      · exfalso
        subst hd
        exact hnd.1 (List.mem_map_of_mem (f := (·.1)) h1)
      · exact ih hnd.2 h1 h2

theorem addScore_rel {E X : Nat → S → S → Prop} (st : Step E X) {m1 m2 : List (Nat × S)} (h : MapRel E m1 m2)
    (d : Nat) {x1 x2 : S} (hx : X d x1 x2) : MapRel E (addScore m1 d x1) (addScore m2 d x2) := by
  induction h with
  | nil => exact .cons (st.init d x1 x2 hx) .nil
  | @cons d' a b m1 m2 he hr ih =>
    simp only [addScore]
    by_cases h1 : (d' == d) = true
    · have : d' = d := by simpa using h1
      subst this
      simp only [h1, ↓reduceIte]
      exact .cons (st.step _ _ _ _ _ he hx) hr
    · simp only [h1, Bool.false_eq_true, ↓reduceIte]
      by_cases h2 : d < d'
      · simp only [h2, ↓reduceIte]
        exact .cons (st.init d x1 x2 hx) (.cons he hr)
      · simp only [h2, ↓reduceIte]
        exact .cons he ih

/-- BM25F contribution of one posting (the factor of the summand that does not depend on the weights) -/
def bmOf (T : Tuning S) (idx : Index) (tot : DocLens) (p : Posting) : S :=
  termBM25F T.params idx.n tot (idx.lens.getD p.doc {}) p.tf

theorem processPostings_rel {E X : Nat → S → S → Prop} (st : Step E X) (T : Tuning S) (db : Db) (idx : Index)
    (tot : DocLens) (o1 o2 : Opts S) (hf : o1.filter = o2.filter) (w1 w2 : S) (ps : List Posting)
    (hx : ∀ p ∈ ps, X p.doc (mul w1 (bmOf T idx tot p)) (mul w2 (bmOf T idx tot p)))
    {m1 m2 : List (Nat × S)} (h : MapRel E m1 m2) :
    MapRel E (processPostings T db idx tot o1 w1 ps m1) (processPostings T db idx tot o2 w2 ps m2) := by
  unfold processPostings
  induction ps generalizing m1 m2 with
  | nil => exact h
  | cons p rest ih =>
    simp only [List.foldl_cons]
    apply ih (fun q hq => hx q (by simp [hq]))
    rw [hf]
    cases hc : db[p.doc]? with
    | none => exact h
    | some c =>
      simp only
      cases hp : passes T.ri T.host o2.filter c with
      | false => simpa using h
      | true =>
        simp only [↓reduceIte]
        exact addScore_rel st h p.doc (hx p (by simp))

/-- `initialScores` of two runs that differ only in the boost table -/
theorem initialScores_rel {E X : Nat → S → S → Prop} (st : Step E X) (T : Tuning S) (db : Db) (idx : Index)
    (o1 o2 : Opts S) (hf : o1.filter = o2.filter) (pq : Option (NlpOut S)) (terms : List Token)
    (hx : ∀ t ∈ terms, ∀ ps, look idx.postings t = some ps → ∀ p ∈ ps,
      lt (T.idf idx.n ((look idx.df t).getD 0)) T.params.minIDF = false →
      X p.doc (mul (mul (T.idf idx.n ((look idx.df t).getD 0)) (boostOf (termBoosts o1 pq) t)) (bmOf T idx (sumLens idx.lens) p))
              (mul (mul (T.idf idx.n ((look idx.df t).getD 0)) (boostOf (termBoosts o2 pq) t)) (bmOf T idx (sumLens idx.lens) p))) :
    MapRel E (initialScores T db idx o1 pq terms) (initialScores T db idx o2 pq terms) := by
  unfold initialScores
  simp only
  generalize termBoosts o1 pq = tb1 at hx ⊢
  generalize termBoosts o2 pq = tb2 at hx ⊢
  suffices h : ∀ (m1 m2 : List (Nat × S)), MapRel E m1 m2 →
      MapRel E
        (terms.foldl (fun sc t =>
          match look idx.postings t with
          | none => sc
          | some ps =>
            if lt (T.idf idx.n ((look idx.df t).getD 0)) T.params.minIDF then sc
            else processPostings T db idx (sumLens idx.lens) o1 (mul (T.idf idx.n ((look idx.df t).getD 0)) (boostOf tb1 t)) ps sc) m1)
        (terms.foldl (fun sc t =>
          match look idx.postings t with
          | none => sc
          | some ps =>
            if lt (T.idf idx.n ((look idx.df t).getD 0)) T.params.minIDF then sc
            else processPostings T db idx (sumLens idx.lens) o2 (mul (T.idf idx.n ((look idx.df t).getD 0)) (boostOf tb2 t)) ps sc) m2)
    from h [] [] .nil
  induction terms with
  | nil => intro m1 m2 h; exact h
  | cons t rest ih =>
    intro m1 m2 h
    simp only [List.foldl_cons]
    apply ih (fun t' ht' => hx t' (by simp [ht']))
    cases hps : look idx.postings t with
    | none => exact h
    | some ps =>
      simp only
      cases hlt : lt (T.idf idx.n ((look idx.df t).getD 0)) T.params.minIDF with
      | true => simpa using h
      | false =>
        simp only [Bool.false_eq_true, ↓reduceIte]
        exact processPostings_rel st T db idx _ o1 o2 hf _ _ ps (fun p hp => hx t (by simp) ps hps p hp hlt) h

/-- the three instances -/
theorem step_true : Step (S := S) (fun _ _ _ => True) (fun _ _ _ => True) := ⟨fun _ _ _ _ _ _ _ => trivial, fun _ _ _ _ => trivial⟩

theorem step_ge [ScoreLaws S] : Step (S := S) (fun _ a b => ge a b) (fun _ a b => ge a b) :=
  ⟨fun _ _ _ _ _ h1 h2 => add_mono h1 h2, fun _ _ _ h => add_mono (ge_refl _) h⟩

theorem step_eqAt (d0 : Nat) : Step (S := S) (fun d a b => d = d0 → a = b) (fun d a b => d = d0 → a = b) :=
  ⟨fun _ _ _ _ _ h1 h2 hd => by rw [h1 hd, h2 hd], fun _ _ _ h hd => by rw [h hd]⟩

/-- **candidates do not depend on the boosts**: the keys of the score map are decided by postings and
    the gate only -/
theorem initialScores_keys_indep_boosts (T : Tuning S) (db : Db) (idx : Index) (o : Opts S) (B B' : List (Bytes × S))
    (pq : Option (NlpOut S)) (terms : List Token) :
    (initialScores T db idx { o with boosts := B } pq terms).map (·.1) =
    (initialScores T db idx { o with boosts := B' } pq terms).map (·.1) :=
  (initialScores_rel step_true T db idx { o with boosts := B } { o with boosts := B' } rfl pq terms
    (fun _ _ _ _ _ _ _ => trivial)).keys

/-! ### the later stages, per document -/

/-- collectResults' effect on one score -/
def collectScore (T : Tuning S) (o : Opts S) (pq : Option (NlpOut S)) (d : Nat) (c : Cmd) (s : S) : S :=
  let s1 := match pq with
    | none => s
    | some n =>
      let s' := mul s (n.intentBoost d)
      let docText := c.commandLower ++ (0x20 :: c.descriptionLower)
      if containsAnyLocal docText n.actions && containsAnyLocal docText n.targets then mul s' (ofQ coocFactor) else s'
  if isPipeline T.ri c && lt zero o.pipelineBoost then mul s1 o.pipelineBoost else s1

theorem mem_collect {T : Tuning S} {db : Db} {o : Opts S} {pq : Option (NlpOut S)} {m : List (Nat × S)} {d : Nat} {s : S} :
    (d, s) ∈ collect T db o pq m ↔ ∃ s0 c, (d, s0) ∈ m ∧ db[d]? = some c ∧ s = collectScore T o pq d c s0 := by
  unfold collect
  simp only [List.mem_filterMap]
  constructor
  · rintro ⟨⟨d', s0⟩, hm, hf⟩
    simp only at hf
    cases hc : db[d']? with
    | none => simp [hc] at hf
    | some c =>
      simp only [hc, Option.some.injEq, Prod.mk.injEq] at hf
      obtain ⟨hd, hs⟩ := hf
      subst hd
      exact ⟨s0, c, hm, hc, hs.symm⟩
  · rintro ⟨s0, c, hm, hc, hs⟩
    refine ⟨(d, s0), hm, ?_⟩
    simp only [hc, Option.some.injEq, Prod.mk.injEq, true_and]
    exact hs.symm

/-- the ids `collect` keeps: the keys that are documents — independent of scores and boosts -/
theorem collect_ids' (T : Tuning S) (db : Db) (o : Opts S) (pq : Option (NlpOut S)) (m : List (Nat × S)) :
    (collect T db o pq m).map (·.1) = (m.map (·.1)).filter (fun d => db[d]?.isSome) := by
  unfold collect
  induction m with
  | nil => rfl
  | cons a rest ih =>
    obtain ⟨d, s⟩ := a
    cases hc : db[d]? with
    | none =>
      simp only [List.filterMap_cons, hc, List.map_cons, List.filter_cons, Option.isSome_none, Bool.false_eq_true, ↓reduceIte]
      exact ih
    | some c =>
      simp only [List.filterMap_cons, hc, List.map_cons, List.filter_cons, Option.isSome_some, ↓reduceIte]
      rw [ih]

/-- rerankWithNLP's effect on one score inside a window of `k` candidates -/
def rerankScore (T : Tuning S) (nq : Bytes) (k : Nat) (d : Nat) (s : S) : S :=
  match T.tfidf with
  | none => s
  | some rank =>
    match ((rank nq).take k).find? (·.1 == d) with
    | some (_, sim) => add s (mul (mul sim (ofQ rerankAlpha)) (ofQ rerankScale))
    | none => s

def winLen (limit n : Nat) : Nat := min (max (limit * rerankMult) rerankMin) n

theorem mem_rerank {T : Tuning S} {nq : Bytes} {limit : Nat} {r : List (Nat × S)} {d : Nat} {s : S}
    (h : (d, s) ∈ rerank T nq limit r) :
    ∃ s', (d, s') ∈ r ∧ s = rerankScore T nq (winLen limit r.length) d s' := by
  unfold rerank at h
  unfold rerankScore winLen
  cases ht : T.tfidf with
  | none =>
    rw [ht] at h
    exact ⟨s, h, rfl⟩
  | some rank =>
    rw [ht] at h
    simp only [mem_sortDesc, List.mem_map, List.length_take] at h
    obtain ⟨⟨d', s'⟩, hm, he⟩ := h
    have hmem := List.mem_of_mem_take hm
    simp only at he
    split at he
    · rename_i sim hf
      simp only [Prod.mk.injEq] at he
      obtain ⟨hd, hs⟩ := he
      subst hd
      refine ⟨s', hmem, ?_⟩
      simp only [hf]
      exact hs.symm
    · rename_i hf
      simp only [Prod.mk.injEq] at he
      obtain ⟨hd, hs⟩ := he
      subst hd
      refine ⟨s', hmem, ?_⟩
      simp only [hf]
      exact hs.symm

theorem mem_cascade {n : NlpOut S} {r : List (Nat × S)} {d : Nat} {s : S} (h : (d, s) ∈ cascadeStage n r) :
    ∃ s', (d, s') ∈ r ∧ s = mul s' (n.cascade d) := by
  unfold cascadeStage at h
  split at h
  · rename_i he
    have : r = [] := by simpa using he
    subst this; cases h
  · simp only [mem_sortDesc, List.mem_map] at h
    obtain ⟨⟨d', s'⟩, hm, he⟩ := h
    simp only [Prod.mk.injEq] at he
    obtain ⟨hd, hs⟩ := he
    subst hd
    exact ⟨s', hm, hs.symm⟩

/-- everything after `calculateInitialScores`, for one document: a function of the document, its
    initial score and the window length.  It reads `o.useNLP`, `o.pipelineBoost` and nothing else of `o`. -/
def postScore (T : Tuning S) (o : Opts S) (nq : Bytes) (pq : Option (NlpOut S)) (k : Nat) (d : Nat) (c : Cmd) (s0 : S) : S :=
  let s1 := collectScore T o pq d c s0
  let s2 := if o.useNLP then rerankScore T nq k d s1 else s1
  match pq with
  | some n => mul s2 (n.cascade d)
  | none => s2

/-- the stages of `search` after the score map is known -/
def finish (T : Tuning S) (db : Db) (nq : Bytes) (o : Opts S) (pq : Option (NlpOut S)) (scores : List (Nat × S)) :
    List (Nat × S) :=
  let r0 := sortDesc (·.2) (collect T db o pq scores)
  let r1 := if o.useNLP then rerank T nq (effLimit o) r0 else r0
  let r2 := match pq with | some n => cascadeStage n r1 | none => r1
  r2.take (effLimit o)

theorem mem_finish {T : Tuning S} {db : Db} {nq : Bytes} {o : Opts S} {pq : Option (NlpOut S)} {scores : List (Nat × S)}
    {d : Nat} {s : S} (h : (d, s) ∈ finish T db nq o pq scores) :
    ∃ s0 c, (d, s0) ∈ scores ∧ db[d]? = some c ∧
      s = postScore T o nq pq (winLen (effLimit o) (collect T db o pq scores).length) d c s0 := by
  unfold finish at h
  simp only at h
  have h := List.mem_of_mem_take h
  unfold postScore
  cases hpq : pq with
  | none =>
    subst hpq
    simp only at h ⊢
    cases hn : o.useNLP with
    | false =>
      simp only [hn, Bool.false_eq_true, ↓reduceIte, mem_sortDesc] at h ⊢
      obtain ⟨s0, c, hm, hc, hs⟩ := mem_collect.mp h
      exact ⟨s0, c, hm, hc, hs⟩
    | true =>
      simp only [hn, ↓reduceIte] at h ⊢
      obtain ⟨s1, hm1, hs1⟩ := mem_rerank h
      rw [mem_sortDesc] at hm1
      obtain ⟨s0, c, hm, hc, hs⟩ := mem_collect.mp hm1
      refine ⟨s0, c, hm, hc, ?_⟩
      rw [hs1, hs, length_sortDesc]
  | some n =>
    subst hpq
    simp only at h ⊢
    obtain ⟨s2, hm2, hs2⟩ := mem_cascade h
    cases hn : o.useNLP with
    | false =>
      simp only [hn, Bool.false_eq_true, ↓reduceIte, mem_sortDesc] at hm2 ⊢
      obtain ⟨s0, c, hm, hc, hs⟩ := mem_collect.mp hm2
      refine ⟨s0, c, hm, hc, ?_⟩
      rw [hs2, hs]
    | true =>
      simp only [hn, ↓reduceIte] at hm2 ⊢
      obtain ⟨s1, hm1, hs1⟩ := mem_rerank hm2
      rw [mem_sortDesc] at hm1
      obtain ⟨s0, c, hm, hc, hs⟩ := mem_collect.mp hm1
      refine ⟨s0, c, hm, hc, ?_⟩
      rw [hs2, hs1, hs, length_sortDesc]

/-! ### `search`, re-bracketed -/

def pqOf (T : Tuning S) (o : Opts S) (nq : Bytes) : Option (NlpOut S) := if o.useNLP then some (T.nlp nq) else none

/-- the query terms after NLP enhancement and term selection (the `terms` of `SearchUniversal`) -/
def queryTerms (T : Tuning S) (db : Db) (q : Bytes) (o : Opts S) : List Token :=
  let nq := T.normQ q
  let terms1 := match pqOf T o nq with | some n => enhanceTerms (tokenize nq) n.enhanced | none => tokenize nq
  selectTopTerms T (build db) terms1 (effCap o)

def terms1Of (T : Tuning S) (q : Bytes) (o : Opts S) : List Token :=
  match pqOf T o (T.normQ q) with | some n => enhanceTerms (tokenize (T.normQ q)) n.enhanced | none => tokenize (T.normQ q)

def fallbackOf (T : Tuning S) (db : Db) (q : Bytes) (o : Opts S) : Except Fuzzy.Panic (List (Nat × S)) :=
  if o.useFuzzy then fuzzySearch T db (T.normQ q) o (effLimit o) else .ok []

def scoresOf (T : Tuning S) (db : Db) (q : Bytes) (o : Opts S) : List (Nat × S) :=
  initialScores T db (build db) o (pqOf T o (T.normQ q)) (queryTerms T db q o)

theorem search_eq (T : Tuning S) (db : Db) (q : Bytes) (o : Opts S) :
    search T db q o =
      if (terms1Of T q o).isEmpty then fallbackOf T db q o
      else if (scoresOf T db q o).isEmpty then fallbackOf T db q o
      else .ok (finish T db (T.normQ q) o (pqOf T o (T.normQ q)) (scoresOf T db q o)) := by
  rfl

/-- the typo fallback does not read the boosts -/
theorem fuzzyCollect_congr (T : Tuning S) (db : Db) (o1 o2 : Opts S) (hf : o1.filter = o2.filter)
    (ht : o1.fuzzyThreshold = o2.fuzzyThreshold) (cap : Nat) (l : List (Nat × Int)) (acc : List (Nat × S)) :
    fuzzyCollect T db o1 cap l acc = fuzzyCollect T db o2 cap l acc := by
  induction l generalizing acc with
  | nil => simp [fuzzyCollect]
  | cons a rest ih =>
    obtain ⟨i, sc⟩ := a
    simp only [fuzzyCollect, hf, ht, ih]

theorem fallbackOf_indep (T : Tuning S) (db : Db) (q : Bytes) (o : Opts S) (B B' : List (Bytes × S)) :
    fallbackOf T db q { o with boosts := B } = fallbackOf T db q { o with boosts := B' } := by
  unfold fallbackOf fuzzySearch
  simp only
  have : ∀ cap l, fuzzyCollect T db { o with boosts := B } cap l [] = fuzzyCollect T db { o with boosts := B' } cap l [] :=
    fun cap l => fuzzyCollect_congr T db { o with boosts := B } { o with boosts := B' } rfl rfl cap l []
  simp only [this]
  rfl

end Wtf.C13
