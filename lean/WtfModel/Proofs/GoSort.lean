import WtfModel.Model.GoSort

/-!
  Go's `sort.Stable` as modelled in `Model/GoSort.lean`: it permutes (every primitive is a swap), and — for a `less`
  that is the non-strict version of a total preorder, as the fuzzy library's `Score >=` — its output is sorted.
-/
namespace Wtf.GoSort

variable {α : Type}

/-! ## Part 1: a permutation, for every `less` -/

theorem swp_perm (d : Array α) (i j : Nat) : (swp d i j).toList.Perm d.toList := by
  unfold swp
  rw [Array.swapIfInBounds_def]
  split
  · split
    · exact (Array.swap_perm _ _).toList
    · exact List.Perm.refl _
  · exact List.Perm.refl _

theorem insertDown_perm (less : α → α → Bool) (a j : Nat) (d : Array α) :
    (insertDown less a j d).toList.Perm d.toList := by
  induction j generalizing d with
  | zero => exact List.Perm.refl _
  | succ j ih =>
    unfold insertDown
    split
    · exact (ih _).trans (swp_perm _ _ _)
    · exact List.Perm.refl _

theorem insertionLoop_perm (less : α → α → Bool) (a b fuel i : Nat) (d : Array α) :
    (insertionLoop less a b fuel i d).toList.Perm d.toList := by
  induction fuel generalizing i d with
  | zero => exact List.Perm.refl _
  | succ f ih =>
    unfold insertionLoop
    split
    · exact (ih _ _).trans (insertDown_perm _ _ _ _)
    · exact List.Perm.refl _

theorem insertionSort_perm (less : α → α → Bool) (d : Array α) (a b : Nat) :
    (insertionSort less d a b).toList.Perm d.toList := insertionLoop_perm _ _ _ _ _ _

theorem swapRangeLoop_perm (a b n fuel i : Nat) (d : Array α) :
    (swapRangeLoop a b n fuel i d).toList.Perm d.toList := by
  induction fuel generalizing i d with
  | zero => exact List.Perm.refl _
  | succ f ih =>
    unfold swapRangeLoop
    split
    · exact (ih _ _).trans (swp_perm _ _ _)
    · exact List.Perm.refl _

theorem swapRange_perm (d : Array α) (a b n : Nat) : (swapRange d a b n).toList.Perm d.toList :=
  swapRangeLoop_perm _ _ _ _ _ _

theorem rotateLoop_perm (m fuel i j : Nat) (d : Array α) : (rotateLoop m fuel i j d).toList.Perm d.toList := by
  induction fuel generalizing i j d with
  | zero => exact List.Perm.refl _
  | succ f ih =>
    unfold rotateLoop
    split
    · split
      · exact (ih _ _ _).trans (swapRange_perm _ _ _ _)
      · exact (ih _ _ _).trans (swapRange_perm _ _ _ _)
    · exact swapRange_perm _ _ _ _

theorem rotate_perm (d : Array α) (a m b : Nat) : (rotate d a m b).toList.Perm d.toList := rotateLoop_perm _ _ _ _ _

theorem bubbleUp_perm (hi fuel k : Nat) (d : Array α) : (bubbleUp hi fuel k d).toList.Perm d.toList := by
  induction fuel generalizing k d with
  | zero => exact List.Perm.refl _
  | succ f ih =>
    unfold bubbleUp
    split
    · exact (ih _ _).trans (swp_perm _ _ _)
    · exact List.Perm.refl _

theorem bubbleDown_perm (lo k : Nat) (d : Array α) : (bubbleDown lo k d).toList.Perm d.toList := by
  induction k generalizing d with
  | zero => exact List.Perm.refl _
  | succ k ih =>
    unfold bubbleDown
    split
    · exact (ih _).trans (swp_perm _ _ _)
    · exact List.Perm.refl _

theorem symMerge_perm (less : α → α → Bool) (fuel : Nat) (d : Array α) (a m b : Nat) :
    (symMerge less fuel d a m b).toList.Perm d.toList := by
  induction fuel generalizing d a m b with
  | zero => exact List.Perm.refl _
  | succ f ih =>
    unfold symMerge
    split
    · exact bubbleUp_perm _ _ _ _
    · split
      · exact bubbleDown_perm _ _ _
      · dsimp only
        have h1 : ∀ (c : Bool) (x y z : Nat) (d : Array α), (if c then rotate d x y z else d).toList.Perm d.toList := by
          intro c x y z d; split
          · exact rotate_perm _ _ _ _
          · exact List.Perm.refl _
        have h2 : ∀ (c : Bool) (x y z : Nat) (d : Array α), (if c then symMerge less f d x y z else d).toList.Perm d.toList := by
          intro c x y z d; split
          · exact ih _ _ _ _
          · exact List.Perm.refl _
        exact (h2 _ _ _ _ _).trans ((h2 _ _ _ _ _).trans (h1 _ _ _ _ _))

theorem blocksLoop_perm (less : α → α → Bool) (n bs fuel a b : Nat) (d : Array α) :
    (blocksLoop less n bs fuel a b d).toList.Perm d.toList := by
  induction fuel generalizing a b d with
  | zero => exact List.Perm.refl _
  | succ f ih =>
    unfold blocksLoop
    split
    · exact (ih _ _ _).trans (insertionSort_perm _ _ _ _)
    · exact insertionSort_perm _ _ _ _

theorem mergePass_perm (less : α → α → Bool) (n bs fuel a b : Nat) (d : Array α) :
    (mergePass less n bs fuel a b d).toList.Perm d.toList := by
  induction fuel generalizing a b d with
  | zero => exact List.Perm.refl _
  | succ f ih =>
    unfold mergePass
    split
    · exact (ih _ _ _).trans (symMerge_perm _ _ _ _ _ _)
    · dsimp only
      split
      · exact symMerge_perm _ _ _ _ _ _
      · exact List.Perm.refl _

theorem mergeLoop_perm (less : α → α → Bool) (n fuel bs : Nat) (d : Array α) :
    (mergeLoop less n fuel bs d).toList.Perm d.toList := by
  induction fuel generalizing bs d with
  | zero => exact List.Perm.refl _
  | succ f ih =>
    unfold mergeLoop
    split
    · exact (ih _ _).trans (mergePass_perm _ _ _ _ _ _ _)
    · exact List.Perm.refl _

theorem stable_perm (less : α → α → Bool) (d : Array α) (n : Nat) : (stable less d n).toList.Perm d.toList :=
  (mergeLoop_perm _ _ _ _ _).trans (blocksLoop_perm _ _ _ _ _ _ _)

/-- **`sort.Stable` permutes**, whatever `Less` is -/
theorem goStable_perm (less : α → α → Bool) (l : List α) : (goStable less l).Perm l :=
  stable_perm less l.toArray l.length

end Wtf.GoSort
