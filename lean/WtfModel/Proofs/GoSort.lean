import WtfModel.Model.GoSort

/-!
  Go's `sort.Stable` as modelled in `Model/GoSort.lean`: it permutes (every primitive is a swap), and — for a `less`
  that is the non-strict version of a total preorder, as the fuzzy library's `Score >=` — its output is sorted.
-/
namespace Wtf.GoSort

variable {α : Type}

/-! ## Part 1: a permutation, for every `less` -/

theorem swp_perm (d : Array α) (i j : Nat) : (swp d i j).toList.Perm d.toList := by
  unfold swp
  rw [Array.swapIfInBounds_def]
  split
  · split
    · exact (Array.swap_perm _ _).toList
    · exact List.Perm.refl _
  · exact List.Perm.refl _

theorem insertDown_perm (less : α → α → Bool) (a j : Nat) (d : Array α) :
    (insertDown less a j d).toList.Perm d.toList := by
  induction j generalizing d with
  | zero => exact List.Perm.refl _
  | succ j ih =>
    unfold insertDown
    split
    · exact (ih _).trans (swp_perm _ _ _)
    · exact List.Perm.refl _

theorem insertionLoop_perm (less : α → α → Bool) (a b fuel i : Nat) (d : Array α) :
    (insertionLoop less a b fuel i d).toList.Perm d.toList := by
  induction fuel generalizing i d with
  | zero => exact List.Perm.refl _
  | succ f ih =>
    unfold insertionLoop
    split
    · exact (ih _ _).trans (insertDown_perm _ _ _ _)
    · exact List.Perm.refl _

theorem insertionSort_perm (less : α → α → Bool) (d : Array α) (a b : Nat) :
    (insertionSort less d a b).toList.Perm d.toList := insertionLoop_perm _ _ _ _ _ _

theorem swapRangeLoop_perm (a b n fuel i : Nat) (d : Array α) :
    (swapRangeLoop a b n fuel i d).toList.Perm d.toList := by
  induction fuel generalizing i d with
  | zero => exact List.Perm.refl _
  | succ f ih =>
    unfold swapRangeLoop
    split
    · exact (ih _ _).trans (swp_perm _ _ _)
    · exact List.Perm.refl _

theorem swapRange_perm (d : Array α) (a b n : Nat) : (swapRange d a b n).toList.Perm d.toList :=
  swapRangeLoop_perm _ _ _ _ _ _

theorem rotateLoop_perm (m fuel i j : Nat) (d : Array α) : (rotateLoop m fuel i j d).toList.Perm d.toList := by
  induction fuel generalizing i j d with
  | zero => exact List.Perm.refl _
  | succ f ih =>
    unfold rotateLoop
    split
    · split
      · exact (ih _ _ _).trans (swapRange_perm _ _ _ _)
      · exact (ih _ _ _).trans (swapRange_perm _ _ _ _)
    · exact swapRange_perm _ _ _ _

theorem rotate_perm (d : Array α) (a m b : Nat) : (rotate d a m b).toList.Perm d.toList := rotateLoop_perm _ _ _ _ _

theorem bubbleUp_perm (hi fuel k : Nat) (d : Array α) : (bubbleUp hi fuel k d).toList.Perm d.toList := by
  induction fuel generalizing k d with
  | zero => exact List.Perm.refl _
  | succ f ih =>
    unfold bubbleUp
    split
    · exact (ih _ _).trans (swp_perm _ _ _)
    · exact List.Perm.refl _

theorem bubbleDown_perm (lo k : Nat) (d : Array α) : (bubbleDown lo k d).toList.Perm d.toList := by
  induction k generalizing d with
  | zero => exact List.Perm.refl _
  | succ k ih =>
    unfold bubbleDown
    split
    · exact (ih _).trans (swp_perm _ _ _)
    · exact List.Perm.refl _

theorem symMerge_perm (less : α → α → Bool) (fuel : Nat) (d : Array α) (a m b : Nat) :
    (symMerge less fuel d a m b).toList.Perm d.toList := by
  induction fuel generalizing d a m b with
  | zero => exact List.Perm.refl _
  | succ f ih =>
    unfold symMerge
    split
    · exact bubbleUp_perm _ _ _ _
    · split
      · exact bubbleDown_perm _ _ _
      · dsimp only
        have h1 : ∀ (c : Bool) (x y z : Nat) (d : Array α), (if c then rotate d x y z else d).toList.Perm d.toList := by
          intro c x y z d; split
          · exact rotate_perm _ _ _ _
          · exact List.Perm.refl _
        have h2 : ∀ (c : Bool) (x y z : Nat) (d : Array α), (if c then symMerge less f d x y z else d).toList.Perm d.toList := by
          intro c x y z d; split
          · exact ih _ _ _ _
          · exact List.Perm.refl _
        exact (h2 _ _ _ _ _).trans ((h2 _ _ _ _ _).trans (h1 _ _ _ _ _))

theorem blocksLoop_perm (less : α → α → Bool) (n bs fuel a b : Nat) (d : Array α) :
    (blocksLoop less n bs fuel a b d).toList.Perm d.toList := by
  induction fuel generalizing a b d with
  | zero => exact List.Perm.refl _
  | succ f ih =>
    unfold blocksLoop
    split
    · exact (ih _ _ _).trans (insertionSort_perm _ _ _ _)
    · exact insertionSort_perm _ _ _ _

theorem mergePass_perm (less : α → α → Bool) (n bs fuel a b : Nat) (d : Array α) :
    (mergePass less n bs fuel a b d).toList.Perm d.toList := by
  induction fuel generalizing a b d with
  | zero => exact List.Perm.refl _
  | succ f ih =>
    unfold mergePass
    split
    · exact (ih _ _ _).trans (symMerge_perm _ _ _ _ _ _)
    · dsimp only
      split
      · exact symMerge_perm _ _ _ _ _ _
      · exact List.Perm.refl _

theorem mergeLoop_perm (less : α → α → Bool) (n fuel bs : Nat) (d : Array α) :
    (mergeLoop less n fuel bs d).toList.Perm d.toList := by
  induction fuel generalizing bs d with
  | zero => exact List.Perm.refl _
  | succ f ih =>
    unfold mergeLoop
    split
    · exact (ih _ _).trans (mergePass_perm _ _ _ _ _ _ _)
    · exact List.Perm.refl _

theorem stable_perm (less : α → α → Bool) (d : Array α) (n : Nat) : (stable less d n).toList.Perm d.toList :=
  (mergeLoop_perm _ _ _ _ _).trans (blocksLoop_perm _ _ _ _ _ _ _)

/-- **`sort.Stable` permutes**, whatever `Less` is -/
theorem goStable_perm (less : α → α → Bool) (l : List α) : (goStable less l).Perm l :=
  stable_perm less l.toArray l.length

/-! ## Part 2: sorted, for the non-strict version of a total preorder

  The array is read through `get` (a default outside the array: never consulted, every index is shown to be inside). -/

section pointwise
variable [Inhabited α]

def get (d : Array α) (k : Nat) : α := d.getD k default

omit [Inhabited α] in
theorem size_swp (d : Array α) (i j : Nat) : (swp d i j).size = d.size := Array.size_swapIfInBounds

theorem get_swp (d : Array α) {i j : Nat} (hi : i < d.size) (hj : j < d.size) (k : Nat) :
    get (swp d i j) k = if k = i then get d j else if k = j then get d i else get d k := by
  unfold get swp
  rw [Array.swapIfInBounds_def, dif_pos hi, dif_pos hj]
  simp only [Array.getD_eq_getD_getElem?, Array.getElem?_swap]
  have ei : d[i]? = some d[i] := Array.getElem?_eq_getElem hi
  have ej : d[j]? = some d[j] := Array.getElem?_eq_getElem hj
  rw [ei, ej]
  by_cases h1 : k = i
  · subst h1
    by_cases h2 : j = k
    · subst h2; simp
    · simp [h2]
  · by_cases h2 : k = j
    · subst h2; simp [h1]
    · have h3 : ¬ j = k := fun h => h2 h.symm
      have h4 : ¬ i = k := fun h => h1 h.symm
      simp [h1, h2, h3, h4]

theorem lessAt_eq (less : α → α → Bool) (d : Array α) {i j : Nat} (hi : i < d.size) (hj : j < d.size) :
    lessAt less d i j = less (get d i) (get d j) := by
  unfold lessAt get
  simp [Array.getD_eq_getD_getElem?, hi, hj]

/-! ### what the swap loops do, index by index -/

/-- `for k := k; k < hi; k++ { Swap(k, k+1) }`: `data[k]` travels up to `hi`, `data[k+1 .. hi]` move down by one -/
theorem bubbleUp_spec (hi fuel k : Nat) (d : Array α) (hk : k ≤ hi) (hhi : hi < d.size) (hf : hi ≤ k + fuel) :
    (bubbleUp hi fuel k d).size = d.size ∧
    ∀ x, get (bubbleUp hi fuel k d) x =
      if k ≤ x ∧ x < hi then get d (x + 1) else if x = hi then get d k else get d x := by
  induction fuel generalizing k d with
  | zero =>
    have : k = hi := by omega
    subst this
    refine ⟨rfl, fun x => ?_⟩
    unfold bubbleUp
    grind
  | succ f ih =>
    unfold bubbleUp
    by_cases hlt : k < hi
    · rw [if_pos hlt]
      have hs := size_swp d k (k + 1)
      obtain ⟨h1, h2⟩ := ih (k + 1) (swp d k (k + 1)) (by omega) (by omega) (by omega)
      refine ⟨by omega, fun x => ?_⟩
      rw [h2]
      have g := get_swp d (i := k) (j := k + 1) (by omega) (by omega)
      simp only [g]
      grind
    · rw [if_neg hlt]
      have : k = hi := by omega
      subst this
      exact ⟨rfl, fun x => by grind⟩

/-- `for k := k; k > lo; k-- { Swap(k, k-1) }`: `data[k]` travels down to `lo`, `data[lo .. k-1]` move up by one -/
theorem bubbleDown_spec (lo k : Nat) (d : Array α) (hk : lo ≤ k) (hsz : k < d.size) :
    (bubbleDown lo k d).size = d.size ∧
    ∀ x, get (bubbleDown lo k d) x =
      if lo < x ∧ x ≤ k then get d (x - 1) else if x = lo then get d k else get d x := by
  induction k generalizing d with
  | zero =>
    refine ⟨rfl, fun x => ?_⟩
    unfold bubbleDown
    grind
  | succ k ih =>
    unfold bubbleDown
    by_cases hlt : k + 1 > lo
    · rw [if_pos hlt]
      have hs := size_swp d (k + 1) k
      obtain ⟨h1, h2⟩ := ih (swp d (k + 1) k) (by omega) (by omega)
      refine ⟨by omega, fun x => ?_⟩
      rw [h2]
      have g := get_swp d (i := k + 1) (j := k) (by omega) (by omega)
      simp only [g]
      grind
    · rw [if_neg hlt]
      have : lo = k + 1 := by omega
      subst this
      exact ⟨rfl, fun x => by grind⟩

/-- `swapRange`: two disjoint ranges of length `n` (the first one below the second) change places -/
theorem swapRangeLoop_spec (a b n fuel i : Nat) (d : Array α) (hab : a + n ≤ b) (hsz : b + n ≤ d.size)
    (hi : i ≤ n) (hf : n ≤ i + fuel) :
    (swapRangeLoop a b n fuel i d).size = d.size ∧
    (∀ t, i ≤ t → t < n → get (swapRangeLoop a b n fuel i d) (a + t) = get d (b + t)) ∧
    (∀ t, i ≤ t → t < n → get (swapRangeLoop a b n fuel i d) (b + t) = get d (a + t)) ∧
    (∀ x, (x < a + i ∨ a + n ≤ x) → (x < b + i ∨ b + n ≤ x) → get (swapRangeLoop a b n fuel i d) x = get d x) := by
  induction fuel generalizing i d with
  | zero =>
    have : i = n := by omega
    subst this
    unfold swapRangeLoop
    exact ⟨rfl, fun t h1 h2 => by omega, fun t h1 h2 => by omega, fun x _ _ => rfl⟩
  | succ f ih =>
    unfold swapRangeLoop
    by_cases hlt : i < n
    · rw [if_pos hlt]
      have hs := size_swp d (a + i) (b + i)
      obtain ⟨h1, h2, h3, h4⟩ := ih (i + 1) (swp d (a + i) (b + i)) (by omega) (by omega) (by omega)
      have g := get_swp d (i := a + i) (j := b + i) (by omega) (by omega)
      refine ⟨by omega, fun t ht1 ht2 => ?_, fun t ht1 ht2 => ?_, fun x hx1 hx2 => ?_⟩
      · by_cases e : t = i
        · subst e
          rw [h4 _ (by omega) (by omega), g, if_pos rfl]
        · rw [h2 t (by omega) ht2, g, if_neg (by omega), if_neg (by omega)]
      · by_cases e : t = i
        · subst e
          rw [h4 _ (by omega) (by omega), g, if_neg (by omega), if_pos rfl]
        · rw [h3 t (by omega) ht2, g, if_neg (by omega), if_neg (by omega)]
      · rw [h4 x (by omega) (by omega), g, if_neg (by omega), if_neg (by omega)]
    · rw [if_neg hlt]
      have : i = n := by omega
      subst this
      exact ⟨rfl, fun t h1 h2 => by omega, fun t h1 h2 => by omega, fun x _ _ => rfl⟩

theorem swapRange_spec (d : Array α) (a b n : Nat) (hab : a + n ≤ b) (hsz : b + n ≤ d.size) :
    (swapRange d a b n).size = d.size ∧
    (∀ t, t < n → get (swapRange d a b n) (a + t) = get d (b + t)) ∧
    (∀ t, t < n → get (swapRange d a b n) (b + t) = get d (a + t)) ∧
    (∀ x, (x < a ∨ a + n ≤ x) → (x < b ∨ b + n ≤ x) → get (swapRange d a b n) x = get d x) := by
  obtain ⟨h1, h2, h3, h4⟩ := swapRangeLoop_spec a b n n 0 d hab hsz (by omega) (by omega)
  exact ⟨h1, fun t ht => h2 t (by omega) ht, fun t ht => h3 t (by omega) ht, fun x hx1 hx2 => h4 x (by omega) (by omega)⟩

/-- `rotate`: `u = data[m-i : m]` and `v = data[m : m+j]` change places (`x u v y ↦ x v u y`) -/
theorem rotateLoop_spec (m fuel i j : Nat) (d : Array α) (hi1 : 1 ≤ i) (him : i ≤ m) (hj1 : 1 ≤ j)
    (hsz : m + j ≤ d.size) (hf : i + j ≤ fuel + 1) :
    (rotateLoop m fuel i j d).size = d.size ∧
    (∀ t, t < j → get (rotateLoop m fuel i j d) (m - i + t) = get d (m + t)) ∧
    (∀ t, t < i → get (rotateLoop m fuel i j d) (m - i + j + t) = get d (m - i + t)) ∧
    (∀ x, (x < m - i ∨ m + j ≤ x) → get (rotateLoop m fuel i j d) x = get d x) := by
  induction fuel generalizing i j d with
  | zero => omega
  | succ f ih =>
    unfold rotateLoop
    by_cases hne : i = j
    · subst hne
      rw [if_neg (by simp)]
      obtain ⟨h1, h2, h3, h4⟩ := swapRange_spec d (m - i) m i (by omega) (by omega)
      refine ⟨h1, fun t ht => ?_, fun t ht => ?_, fun x hx => ?_⟩
      · rw [h2 t ht]
      · have e : m - i + i + t = m + t := by omega
        rw [e, h3 t ht]
      · exact h4 x (by omega) (by omega)
    · rw [if_pos (by simpa using hne)]
      by_cases hgt : i > j
      · rw [if_pos hgt]
        obtain ⟨s1, s2, s3, s4⟩ := swapRange_spec d (m - i) m j (by omega) (by omega)
        obtain ⟨h1, h2, h3, h4⟩ := ih (i - j) j (swapRange d (m - i) m j) (by omega) (by omega) hj1 (by omega) (by omega)
        refine ⟨by omega, fun t ht => ?_, fun t ht => ?_, fun x hx => ?_⟩
        · rw [h4 _ (by omega), s2 t ht]
        · by_cases htj : t < j
          · have e : m - i + j + t = m - (i - j) + t := by omega
            rw [e, h2 t htj, s3 t htj]
          · have e : m - i + j + t = m - (i - j) + j + (t - j) := by omega
            rw [e, h3 (t - j) (by omega), s4 _ (by omega) (by omega)]
            congr 1; omega
        · rw [h4 x (by omega), s4 x (by omega) (by omega)]
      · rw [if_neg hgt]
        -- i < j: swapRange(m-i, m+j-i, i): u and the tail of v change places; then rotate u with the head of v
        obtain ⟨s1, s2, s3, s4⟩ := swapRange_spec d (m - i) (m + j - i) i (by omega) (by omega)
        obtain ⟨h1, h2, h3, h4⟩ := ih i (j - i) (swapRange d (m - i) (m + j - i) i) hi1 him (by omega) (by omega) (by omega)
        refine ⟨by omega, fun t ht => ?_, fun t ht => ?_, fun x hx => ?_⟩
        · by_cases htj : t < j - i
          · rw [h2 t htj, s4 _ (by omega) (by omega)]
          · have e : m - i + t = m - i + (j - i) + (t - (j - i)) := by omega
            rw [e, h3 (t - (j - i)) (by omega), s2 _ (by omega)]
            congr 1; omega
        · have e : m - i + j + t = m + j - i + t := by omega
          rw [h4 _ (by omega), e, s3 t ht]
        · rw [h4 x (by omega), s4 x (by omega) (by omega)]

theorem rotate_spec (d : Array α) (a m b : Nat) (ham : a < m) (hmb : m < b) (hsz : b ≤ d.size) :
    (rotate d a m b).size = d.size ∧
    (∀ t, t < b - m → get (rotate d a m b) (a + t) = get d (m + t)) ∧
    (∀ t, t < m - a → get (rotate d a m b) (a + (b - m) + t) = get d (a + t)) ∧
    (∀ x, (x < a ∨ b ≤ x) → get (rotate d a m b) x = get d x) := by
  obtain ⟨h1, h2, h3, h4⟩ := rotateLoop_spec m ((m - a) + (b - m)) (m - a) (b - m) d (by omega) (by omega) (by omega)
    (by omega) (by omega)
  have e : m - (m - a) = a := by omega
  rw [e] at h2 h3 h4
  exact ⟨h1, h2, h3, fun x hx => h4 x (by omega)⟩

end pointwise

/-- the binary-search loop: the result is in `[i, j]`; left of it the last probe said "go right", at it the probe said
    "stay" — whatever `right` is (no monotonicity needed) -/
theorem bsearch_spec (right : Nat → Bool) (lo hi fuel i j : Nat) (hij : i ≤ j) (hf : j ≤ i + fuel)
    (hlo : lo ≤ i) (hhi : j ≤ hi) (hl : i = lo ∨ right (i - 1) = true) (hr : j = hi ∨ right j = false) :
    lo ≤ bsearch right fuel i j ∧ bsearch right fuel i j ≤ hi ∧
    (bsearch right fuel i j = lo ∨ right (bsearch right fuel i j - 1) = true) ∧
    (bsearch right fuel i j = hi ∨ right (bsearch right fuel i j) = false) := by
  induction fuel generalizing i j with
  | zero =>
    have : i = j := by omega
    subst this
    unfold bsearch
    exact ⟨hlo, hhi, hl, hr⟩
  | succ f ih =>
    unfold bsearch
    by_cases hlt : i < j
    · rw [if_pos hlt]
      dsimp only
      by_cases hp : right ((i + j) / 2) = true
      · rw [if_pos hp]
        exact ih ((i + j) / 2 + 1) j (by omega) (by omega) (by omega) hhi (Or.inr (by simpa using hp)) hr
      · rw [if_neg hp]
        exact ih i ((i + j) / 2) (by omega) (by omega) hlo (by omega) hl (Or.inr (by simpa using hp))
    · rw [if_neg hlt]
      have : i = j := by omega
      subst this
      exact ⟨hlo, hhi, hl, hr⟩

/-- `bsearch` started on the whole interval -/
theorem bsearch_spec' (right : Nat → Bool) (lo hi : Nat) (h : lo ≤ hi) :
    lo ≤ bsearch right (hi - lo) lo hi ∧ bsearch right (hi - lo) lo hi ≤ hi ∧
    (bsearch right (hi - lo) lo hi = lo ∨ right (bsearch right (hi - lo) lo hi - 1) = true) ∧
    (bsearch right (hi - lo) lo hi = hi ∨ right (bsearch right (hi - lo) lo hi) = false) :=
  bsearch_spec right lo hi (hi - lo) lo hi h (by omega) (Nat.le_refl _) (Nat.le_refl _) (Or.inl rfl) (Or.inl rfl)

/-! ### sortedness -/

/-- `less` is the non-strict version of a total preorder (`less a b = decide (key a ≥ key b)` is one) -/
structure TotalPreorder (less : α → α → Bool) : Prop where
  total : ∀ x y, less x y = true ∨ less y x = true
  trans : ∀ x y z, less x y = true → less y z = true → less x z = true

theorem TotalPreorder.of_false {less : α → α → Bool} (h : TotalPreorder less) {x y : α} (hxy : less x y = false) :
    less y x = true := by
  rcases h.total x y with h1 | h1
  · rw [hxy] at h1; cases h1
  · exact h1

theorem TotalPreorder.refl {less : α → α → Bool} (h : TotalPreorder less) (x : α) : less x x = true := by
  rcases h.total x x with h1 | h1 <;> exact h1

section sorted
variable [Inhabited α] (less : α → α → Bool)

/-- `data[a:b]` is in order: an earlier element is `less`-related to every later one -/
def S (d : Array α) (a b : Nat) : Prop := ∀ i j, a ≤ i → i < j → j < b → less (get d i) (get d j) = true

/-- inner loop of `insertionSort`: `data[a:j]` and `data[j:J+1]` in order, everything of the first before everything
    of the second except `data[j]` itself — afterwards `data[a:J+1]` is in order -/
theorem insertDown_sorted (hT : TotalPreorder less) (a J j : Nat) (d : Array α) (haj : a ≤ j) (hjJ : j ≤ J) (hJ : J < d.size)
    (h1 : S less d a j) (h2 : S less d j (J + 1))
    (h3 : ∀ x y, a ≤ x → x < j → j < y → y ≤ J → less (get d x) (get d y) = true) :
    (insertDown less a j d).size = d.size ∧
    (∀ k, (k < a ∨ J < k) → get (insertDown less a j d) k = get d k) ∧
    S less (insertDown less a j d) a (J + 1) := by
  induction j generalizing d with
  | zero =>
    have : a = 0 := by omega
    subst this
    exact ⟨rfl, fun _ _ => rfl, h2⟩
  | succ j ih =>
    unfold insertDown
    by_cases hc : (decide (a < j + 1) && lessAt less d (j + 1) j) = true
    · rw [if_pos hc]
      simp only [Bool.and_eq_true, decide_eq_true_eq] at hc
      obtain ⟨haj', hl⟩ := hc
      rw [lessAt_eq less d (by omega) (by omega)] at hl
      have g := get_swp d (i := j + 1) (j := j) (by omega) (by omega)
      have hs := size_swp d (j + 1) j
      obtain ⟨r1, r2, r3⟩ := ih (swp d (j + 1) j) (by omega) (by omega) (by omega)
        (by
          intro x y hx hxy hy
          rw [g, g, if_neg (by omega), if_neg (by omega), if_neg (by omega), if_neg (by omega)]
          exact h1 x y hx hxy (by omega))
        (by
          intro x y hx hxy hy
          rw [g, g]
          by_cases ex : x = j
          · subst ex
            rw [if_neg (by omega), if_pos rfl]
            by_cases ey : y = x + 1
            · subst ey; rw [if_pos rfl]; exact hl
            · rw [if_neg ey, if_neg (by omega)]
              exact h2 (x + 1) y (by omega) (by omega) hy
          · by_cases ex' : x = j + 1
            · subst ex'
              rw [if_pos rfl, if_neg (by omega), if_neg (by omega)]
              exact h3 j y (by omega) (by omega) (by omega) (by omega)
            · rw [if_neg ex', if_neg ex, if_neg (by omega), if_neg (by omega)]
              exact h2 x y (by omega) hxy hy)
        (by
          intro x y hx hxj hjy hyJ
          rw [g, g, if_neg (by omega), if_neg (by omega)]
          by_cases ey : y = j + 1
          · subst ey; rw [if_pos rfl]; exact h1 x j hx hxj (by omega)
          · rw [if_neg ey, if_neg (by omega)]
            exact h3 x y hx (by omega) (by omega) hyJ)
      refine ⟨by omega, fun k hk => ?_, r3⟩
      rw [r2 k hk, g, if_neg (by omega), if_neg (by omega)]
    · rw [if_neg hc]
      refine ⟨rfl, fun _ _ => rfl, ?_⟩
      simp only [Bool.and_eq_true, decide_eq_true_eq, not_and, Bool.not_eq_true] at hc
      by_cases haj' : a < j + 1
      · have hl := hc haj'
        rw [lessAt_eq less d (by omega) (by omega)] at hl
        have hl' := hT.of_false hl
        intro x y hx hxy hy
        by_cases hyj : y < j + 1
        · exact h1 x y hx hxy hyj
        · by_cases hxj : j + 1 ≤ x
          · exact h2 x y hxj hxy hy
          · by_cases ey : y = j + 1
            · subst ey
              by_cases ex : x = j
              · subst ex; exact hl'
              · exact hT.trans _ _ _ (h1 x j hx (by omega) (by omega)) hl'
            · exact h3 x y hx (by omega) (by omega) (by omega)
      · have : a = j + 1 := by omega
        subst this
        exact h2

variable {less} in
theorem S.mono {d : Array α} {a b a' b' : Nat} (h : S less d a b) (ha : a ≤ a') (hb : b' ≤ b) : S less d a' b' :=
  fun i j hi hij hj => h i j (by omega) hij (by omega)

variable {less} in
/-- a range that was not touched is still in order -/
theorem S.congr {d d' : Array α} {a b : Nat} (h : S less d a b) (he : ∀ k, a ≤ k → k < b → get d' k = get d k) :
    S less d' a b := by
  intro i j hi hij hj
  rw [he i hi (by omega), he j (by omega) hj]
  exact h i j hi hij hj

theorem insertionLoop_sorted (hT : TotalPreorder less) (a b fuel i : Nat) (d : Array α) (hai : a ≤ i) (hb : b ≤ d.size)
    (hf : b ≤ i + fuel) (h : S less d a i) :
    (insertionLoop less a b fuel i d).size = d.size ∧
    (∀ k, (k < a ∨ b ≤ k) → get (insertionLoop less a b fuel i d) k = get d k) ∧
    S less (insertionLoop less a b fuel i d) a b := by
  induction fuel generalizing i d with
  | zero => exact ⟨rfl, fun _ _ => rfl, h.mono (Nat.le_refl _) (by omega)⟩
  | succ f ih =>
    unfold insertionLoop
    by_cases hlt : i < b
    · rw [if_pos hlt]
      obtain ⟨r1, r2, r3⟩ := insertDown_sorted less hT a i i d hai (Nat.le_refl _) (by omega) h
        (fun x y hx hxy hy => by omega) (fun x y _ _ h1 h2 => by omega)
      obtain ⟨q1, q2, q3⟩ := ih (i + 1) (insertDown less a i d) (by omega) (by omega) (by omega) r3
      refine ⟨by omega, fun k hk => ?_, q3⟩
      rw [q2 k hk, r2 k (by omega)]
    · rw [if_neg hlt]
      exact ⟨rfl, fun _ _ => rfl, h.mono (Nat.le_refl _) (by omega)⟩

/-- **insertionSort**: `data[a:b]` is in order afterwards, the rest is untouched -/
theorem insertionSort_sorted (hT : TotalPreorder less) (d : Array α) (a b : Nat) (hb : b ≤ d.size) :
    (insertionSort less d a b).size = d.size ∧
    (∀ k, (k < a ∨ b ≤ k) → get (insertionSort less d a b) k = get d k) ∧
    S less (insertionSort less d a b) a b :=
  insertionLoop_sorted less hT a b (b - (a + 1)) (a + 1) d (by omega) hb (by omega) (fun i j hi hij hj => by omega)

end sorted

end Wtf.GoSort
