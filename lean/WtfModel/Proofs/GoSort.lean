import WtfModel.Model.GoSort

/-!
  Go's `sort.Stable` as modelled in `Model/GoSort.lean`: it permutes (every primitive is a swap), and — for a `less`
  that is the non-strict version of a total preorder, as the fuzzy library's `Score >=` — its output is sorted.
-/
namespace Wtf.GoSort

variable {α : Type}

/-! ## Part 1: a permutation, for every `less` -/

theorem swp_perm (d : Array α) (i j : Nat) : (swp d i j).toList.Perm d.toList := by
  unfold swp
  rw [Array.swapIfInBounds_def]
  split
  · split
    · exact (Array.swap_perm _ _).toList
    · exact List.Perm.refl _
  · exact List.Perm.refl _

theorem insertDown_perm (less : α → α → Bool) (a j : Nat) (d : Array α) :
    (insertDown less a j d).toList.Perm d.toList := by
  induction j generalizing d with
  | zero => exact List.Perm.refl _
  | succ j ih =>
    unfold insertDown
    split
    · exact (ih _).trans (swp_perm _ _ _)
    · exact List.Perm.refl _

theorem insertionLoop_perm (less : α → α → Bool) (a b fuel i : Nat) (d : Array α) :
    (insertionLoop less a b fuel i d).toList.Perm d.toList := by
  induction fuel generalizing i d with
  | zero => exact List.Perm.refl _
  | succ f ih =>
    unfold insertionLoop
    split
    · exact (ih _ _).trans (insertDown_perm _ _ _ _)
    · exact List.Perm.refl _

theorem insertionSort_perm (less : α → α → Bool) (d : Array α) (a b : Nat) :
    (insertionSort less d a b).toList.Perm d.toList := insertionLoop_perm _ _ _ _ _ _

theorem swapRangeLoop_perm (a b n fuel i : Nat) (d : Array α) :
    (swapRangeLoop a b n fuel i d).toList.Perm d.toList := by
  induction fuel generalizing i d with
  | zero => exact List.Perm.refl _
  | succ f ih =>
    unfold swapRangeLoop
    split
    · exact (ih _ _).trans (swp_perm _ _ _)
    · exact List.Perm.refl _

theorem swapRange_perm (d : Array α) (a b n : Nat) : (swapRange d a b n).toList.Perm d.toList :=
  swapRangeLoop_perm _ _ _ _ _ _

theorem rotateLoop_perm (m fuel i j : Nat) (d : Array α) : (rotateLoop m fuel i j d).toList.Perm d.toList := by
  induction fuel generalizing i j d with
  | zero => exact List.Perm.refl _
  | succ f ih =>
    unfold rotateLoop
    split
    · split
      · exact (ih _ _ _).trans (swapRange_perm _ _ _ _)
      · exact (ih _ _ _).trans (swapRange_perm _ _ _ _)
    · exact swapRange_perm _ _ _ _

theorem rotate_perm (d : Array α) (a m b : Nat) : (rotate d a m b).toList.Perm d.toList := rotateLoop_perm _ _ _ _ _

theorem bubbleUp_perm (hi fuel k : Nat) (d : Array α) : (bubbleUp hi fuel k d).toList.Perm d.toList := by
  induction fuel generalizing k d with
  | zero => exact List.Perm.refl _
  | succ f ih =>
    unfold bubbleUp
    split
    · exact (ih _ _).trans (swp_perm _ _ _)
    · exact List.Perm.refl _

theorem bubbleDown_perm (lo k : Nat) (d : Array α) : (bubbleDown lo k d).toList.Perm d.toList := by
  induction k generalizing d with
  | zero => exact List.Perm.refl _
  | succ k ih =>
    unfold bubbleDown
    split
    · exact (ih _).trans (swp_perm _ _ _)
    · exact List.Perm.refl _

theorem symMerge_perm (less : α → α → Bool) (fuel : Nat) (d : Array α) (a m b : Nat) :
    (symMerge less fuel d a m b).toList.Perm d.toList := by
  induction fuel generalizing d a m b with
  | zero => exact List.Perm.refl _
  | succ f ih =>
    unfold symMerge
    split
    · exact bubbleUp_perm _ _ _ _
    · split
      · exact bubbleDown_perm _ _ _
      · dsimp only
        have h1 : ∀ (c : Bool) (x y z : Nat) (d : Array α), (if c then rotate d x y z else d).toList.Perm d.toList := by
          intro c x y z d; split
          · exact rotate_perm _ _ _ _
          · exact List.Perm.refl _
        have h2 : ∀ (c : Bool) (x y z : Nat) (d : Array α), (if c then symMerge less f d x y z else d).toList.Perm d.toList := by
          intro c x y z d; split
          · exact ih _ _ _ _
          · exact List.Perm.refl _
        exact (h2 _ _ _ _ _).trans ((h2 _ _ _ _ _).trans (h1 _ _ _ _ _))

theorem blocksLoop_perm (less : α → α → Bool) (n bs fuel a b : Nat) (d : Array α) :
    (blocksLoop less n bs fuel a b d).toList.Perm d.toList := by
  induction fuel generalizing a b d with
  | zero => exact List.Perm.refl _
  | succ f ih =>
    unfold blocksLoop
    split
    · exact (ih _ _ _).trans (insertionSort_perm _ _ _ _)
    · exact insertionSort_perm _ _ _ _

theorem mergePass_perm (less : α → α → Bool) (n bs fuel a b : Nat) (d : Array α) :
    (mergePass less n bs fuel a b d).toList.Perm d.toList := by
  induction fuel generalizing a b d with
  | zero => exact List.Perm.refl _
  | succ f ih =>
    unfold mergePass
    split
    · exact (ih _ _ _).trans (symMerge_perm _ _ _ _ _ _)
    · dsimp only
      split
      · exact symMerge_perm _ _ _ _ _ _
      · exact List.Perm.refl _

theorem mergeLoop_perm (less : α → α → Bool) (n fuel bs : Nat) (d : Array α) :
    (mergeLoop less n fuel bs d).toList.Perm d.toList := by
  induction fuel generalizing bs d with
  | zero => exact List.Perm.refl _
  | succ f ih =>
    unfold mergeLoop
    split
    · exact (ih _ _).trans (mergePass_perm _ _ _ _ _ _ _)
    · exact List.Perm.refl _

theorem stable_perm (less : α → α → Bool) (d : Array α) (n : Nat) : (stable less d n).toList.Perm d.toList :=
  (mergeLoop_perm _ _ _ _ _).trans (blocksLoop_perm _ _ _ _ _ _ _)

/-- **`sort.Stable` permutes**, whatever `Less` is -/
theorem goStable_perm (less : α → α → Bool) (l : List α) : (goStable less l).Perm l :=
  stable_perm less l.toArray l.length

/-! ## Part 2: sorted, for the non-strict version of a total preorder

  The array is read through `get` (a default outside the array: never consulted, every index is shown to be inside). -/

section pointwise
variable [Inhabited α]

def get (d : Array α) (k : Nat) : α := d.getD k default

omit [Inhabited α] in
theorem size_swp (d : Array α) (i j : Nat) : (swp d i j).size = d.size := Array.size_swapIfInBounds

theorem get_swp (d : Array α) {i j : Nat} (hi : i < d.size) (hj : j < d.size) (k : Nat) :
    get (swp d i j) k = if k = i then get d j else if k = j then get d i else get d k := by
  unfold get swp
  rw [Array.swapIfInBounds_def, dif_pos hi, dif_pos hj]
  simp only [Array.getD_eq_getD_getElem?, Array.getElem?_swap]
  have ei : d[i]? = some d[i] := Array.getElem?_eq_getElem hi
  have ej : d[j]? = some d[j] := Array.getElem?_eq_getElem hj
  rw [ei, ej]
  by_cases h1 : k = i
  · subst h1
    by_cases h2 : j = k
    · subst h2; simp
    · simp [h2]
  · by_cases h2 : k = j
    · subst h2; simp [h1]
    · have h3 : ¬ j = k := fun h => h2 h.symm
      have h4 : ¬ i = k := fun h => h1 h.symm
      simp [h1, h2, h3, h4]

theorem lessAt_eq (less : α → α → Bool) (d : Array α) {i j : Nat} (hi : i < d.size) (hj : j < d.size) :
    lessAt less d i j = less (get d i) (get d j) := by
  unfold lessAt get
  simp [Array.getD_eq_getD_getElem?, hi, hj]

/-! ### what the swap loops do, index by index -/

/-- `for k := k; k < hi; k++ { Swap(k, k+1) }`: `data[k]` travels up to `hi`, `data[k+1 .. hi]` move down by one -/
theorem bubbleUp_spec (hi fuel k : Nat) (d : Array α) (hk : k ≤ hi) (hhi : hi < d.size) (hf : hi ≤ k + fuel) :
    (bubbleUp hi fuel k d).size = d.size ∧
    ∀ x, get (bubbleUp hi fuel k d) x =
      if k ≤ x ∧ x < hi then get d (x + 1) else if x = hi then get d k else get d x := by
  induction fuel generalizing k d with
  | zero =>
    have : k = hi := by omega
    subst this
    refine ⟨rfl, fun x => ?_⟩
    unfold bubbleUp
    grind
  | succ f ih =>
    unfold bubbleUp
    by_cases hlt : k < hi
    · rw [if_pos hlt]
      have hs := size_swp d k (k + 1)
      obtain ⟨h1, h2⟩ := ih (k + 1) (swp d k (k + 1)) (by omega) (by omega) (by omega)
      refine ⟨by omega, fun x => ?_⟩
      rw [h2]
      have g := get_swp d (i := k) (j := k + 1) (by omega) (by omega)
      simp only [g]
      grind
    · rw [if_neg hlt]
      have : k = hi := by omega
      subst this
      exact ⟨rfl, fun x => by grind⟩

/-- `for k := k; k > lo; k-- { Swap(k, k-1) }`: `data[k]` travels down to `lo`, `data[lo .. k-1]` move up by one -/
theorem bubbleDown_spec (lo k : Nat) (d : Array α) (hk : lo ≤ k) (hsz : k < d.size) :
    (bubbleDown lo k d).size = d.size ∧
    ∀ x, get (bubbleDown lo k d) x =
      if lo < x ∧ x ≤ k then get d (x - 1) else if x = lo then get d k else get d x := by
  induction k generalizing d with
  | zero =>
    refine ⟨rfl, fun x => ?_⟩
    unfold bubbleDown
    grind
  | succ k ih =>
    unfold bubbleDown
    by_cases hlt : k + 1 > lo
    · rw [if_pos hlt]
      have hs := size_swp d (k + 1) k
      obtain ⟨h1, h2⟩ := ih (swp d (k + 1) k) (by omega) (by omega)
      refine ⟨by omega, fun x => ?_⟩
      rw [h2]
      have g := get_swp d (i := k + 1) (j := k) (by omega) (by omega)
      simp only [g]
      grind
    · rw [if_neg hlt]
      have : lo = k + 1 := by omega
      subst this
      exact ⟨rfl, fun x => by grind⟩

/-- `swapRange`: two disjoint ranges of length `n` (the first one below the second) change places -/
theorem swapRangeLoop_spec (a b n fuel i : Nat) (d : Array α) (hab : a + n ≤ b) (hsz : b + n ≤ d.size)
    (hi : i ≤ n) (hf : n ≤ i + fuel) :
    (swapRangeLoop a b n fuel i d).size = d.size ∧
    (∀ t, i ≤ t → t < n → get (swapRangeLoop a b n fuel i d) (a + t) = get d (b + t)) ∧
    (∀ t, i ≤ t → t < n → get (swapRangeLoop a b n fuel i d) (b + t) = get d (a + t)) ∧
    (∀ x, (x < a + i ∨ a + n ≤ x) → (x < b + i ∨ b + n ≤ x) → get (swapRangeLoop a b n fuel i d) x = get d x) := by
  induction fuel generalizing i d with
  | zero =>
    have : i = n := by omega
    subst this
    unfold swapRangeLoop
    exact ⟨rfl, fun t h1 h2 => by omega, fun t h1 h2 => by omega, fun x _ _ => rfl⟩
  | succ f ih =>
    unfold swapRangeLoop
    by_cases hlt : i < n
    · rw [if_pos hlt]
      have hs := size_swp d (a + i) (b + i)
      obtain ⟨h1, h2, h3, h4⟩ := ih (i + 1) (swp d (a + i) (b + i)) (by omega) (by omega) (by omega)
      have g := get_swp d (i := a + i) (j := b + i) (by omega) (by omega)
      refine ⟨by omega, fun t ht1 ht2 => ?_, fun t ht1 ht2 => ?_, fun x hx1 hx2 => ?_⟩
      · by_cases e : t = i
        · subst e
          rw [h4 _ (by omega) (by omega), g, if_pos rfl]
        · rw [h2 t (by omega) ht2, g, if_neg (by omega), if_neg (by omega)]
      · by_cases e : t = i
        · subst e
          rw [h4 _ (by omega) (by omega), g, if_neg (by omega), if_pos rfl]
        · rw [h3 t (by omega) ht2, g, if_neg (by omega), if_neg (by omega)]
      · rw [h4 x (by omega) (by omega), g, if_neg (by omega), if_neg (by omega)]
    · rw [if_neg hlt]
      have : i = n := by omega
      subst this
      exact ⟨rfl, fun t h1 h2 => by omega, fun t h1 h2 => by omega, fun x _ _ => rfl⟩

theorem swapRange_spec (d : Array α) (a b n : Nat) (hab : a + n ≤ b) (hsz : b + n ≤ d.size) :
    (swapRange d a b n).size = d.size ∧
    (∀ t, t < n → get (swapRange d a b n) (a + t) = get d (b + t)) ∧
    (∀ t, t < n → get (swapRange d a b n) (b + t) = get d (a + t)) ∧
    (∀ x, (x < a ∨ a + n ≤ x) → (x < b ∨ b + n ≤ x) → get (swapRange d a b n) x = get d x) := by
  obtain ⟨h1, h2, h3, h4⟩ := swapRangeLoop_spec a b n n 0 d hab hsz (by omega) (by omega)
  exact ⟨h1, fun t ht => h2 t (by omega) ht, fun t ht => h3 t (by omega) ht, fun x hx1 hx2 => h4 x (by omega) (by omega)⟩

/-- `rotate`: `u = data[m-i : m]` and `v = data[m : m+j]` change places (`x u v y ↦ x v u y`) -/
theorem rotateLoop_spec (m fuel i j : Nat) (d : Array α) (hi1 : 1 ≤ i) (him : i ≤ m) (hj1 : 1 ≤ j)
    (hsz : m + j ≤ d.size) (hf : i + j ≤ fuel + 1) :
    (rotateLoop m fuel i j d).size = d.size ∧
    (∀ t, t < j → get (rotateLoop m fuel i j d) (m - i + t) = get d (m + t)) ∧
    (∀ t, t < i → get (rotateLoop m fuel i j d) (m - i + j + t) = get d (m - i + t)) ∧
    (∀ x, (x < m - i ∨ m + j ≤ x) → get (rotateLoop m fuel i j d) x = get d x) := by
  induction fuel generalizing i j d with
  | zero => omega
  | succ f ih =>
    unfold rotateLoop
    by_cases hne : i = j
    · subst hne
      rw [if_neg (by simp)]
      obtain ⟨h1, h2, h3, h4⟩ := swapRange_spec d (m - i) m i (by omega) (by omega)
      refine ⟨h1, fun t ht => ?_, fun t ht => ?_, fun x hx => ?_⟩
      · rw [h2 t ht]
      · have e : m - i + i + t = m + t := by omega
        rw [e, h3 t ht]
      · exact h4 x (by omega) (by omega)
    · rw [if_pos (by simpa using hne)]
      by_cases hgt : i > j
      · rw [if_pos hgt]
        obtain ⟨s1, s2, s3, s4⟩ := swapRange_spec d (m - i) m j (by omega) (by omega)
        obtain ⟨h1, h2, h3, h4⟩ := ih (i - j) j (swapRange d (m - i) m j) (by omega) (by omega) hj1 (by omega) (by omega)
        refine ⟨by omega, fun t ht => ?_, fun t ht => ?_, fun x hx => ?_⟩
        · rw [h4 _ (by omega), s2 t ht]
        · by_cases htj : t < j
          · have e : m - i + j + t = m - (i - j) + t := by omega
            rw [e, h2 t htj, s3 t htj]
          · have e : m - i + j + t = m - (i - j) + j + (t - j) := by omega
            rw [e, h3 (t - j) (by omega), s4 _ (by omega) (by omega)]
            congr 1; omega
        · rw [h4 x (by omega), s4 x (by omega) (by omega)]
      · rw [if_neg hgt]
        -- i < j: swapRange(m-i, m+j-i, i): u and the tail of v change places; then rotate u with the head of v
        obtain ⟨s1, s2, s3, s4⟩ := swapRange_spec d (m - i) (m + j - i) i (by omega) (by omega)
        obtain ⟨h1, h2, h3, h4⟩ := ih i (j - i) (swapRange d (m - i) (m + j - i) i) hi1 him (by omega) (by omega) (by omega)
        refine ⟨by omega, fun t ht => ?_, fun t ht => ?_, fun x hx => ?_⟩
        · by_cases htj : t < j - i
          · rw [h2 t htj, s4 _ (by omega) (by omega)]
          · have e : m - i + t = m - i + (j - i) + (t - (j - i)) := by omega
            rw [e, h3 (t - (j - i)) (by omega), s2 _ (by omega)]
            congr 1; omega
        · have e : m - i + j + t = m + j - i + t := by omega
          rw [h4 _ (by omega), e, s3 t ht]
        · rw [h4 x (by omega), s4 x (by omega) (by omega)]

theorem rotate_spec (d : Array α) (a m b : Nat) (ham : a < m) (hmb : m < b) (hsz : b ≤ d.size) :
    (rotate d a m b).size = d.size ∧
    (∀ t, t < b - m → get (rotate d a m b) (a + t) = get d (m + t)) ∧
    (∀ t, t < m - a → get (rotate d a m b) (a + (b - m) + t) = get d (a + t)) ∧
    (∀ x, (x < a ∨ b ≤ x) → get (rotate d a m b) x = get d x) := by
  obtain ⟨h1, h2, h3, h4⟩ := rotateLoop_spec m ((m - a) + (b - m)) (m - a) (b - m) d (by omega) (by omega) (by omega)
    (by omega) (by omega)
  have e : m - (m - a) = a := by omega
  rw [e] at h2 h3 h4
  exact ⟨h1, h2, h3, fun x hx => h4 x (by omega)⟩

end pointwise

/-- the binary-search loop: the result is in `[i, j]`; left of it the last probe said "go right", at it the probe said
    "stay" — whatever `right` is (no monotonicity needed) -/
theorem bsearch_spec (right : Nat → Bool) (lo hi fuel i j : Nat) (hij : i ≤ j) (hf : j ≤ i + fuel)
    (hlo : lo ≤ i) (hhi : j ≤ hi) (hl : i = lo ∨ right (i - 1) = true) (hr : j = hi ∨ right j = false) :
    lo ≤ bsearch right fuel i j ∧ bsearch right fuel i j ≤ hi ∧
    (bsearch right fuel i j = lo ∨ right (bsearch right fuel i j - 1) = true) ∧
    (bsearch right fuel i j = hi ∨ right (bsearch right fuel i j) = false) := by
  induction fuel generalizing i j with
  | zero =>
    have : i = j := by omega
    subst this
    unfold bsearch
    exact ⟨hlo, hhi, hl, hr⟩
  | succ f ih =>
    unfold bsearch
    by_cases hlt : i < j
    · rw [if_pos hlt]
      dsimp only
      by_cases hp : right ((i + j) / 2) = true
      · rw [if_pos hp]
        exact ih ((i + j) / 2 + 1) j (by omega) (by omega) (by omega) hhi (Or.inr (by simpa using hp)) hr
      · rw [if_neg hp]
        exact ih i ((i + j) / 2) (by omega) (by omega) hlo (by omega) hl (Or.inr (by simpa using hp))
    · rw [if_neg hlt]
      have : i = j := by omega
      subst this
      exact ⟨hlo, hhi, hl, hr⟩

/-- `bsearch` started on the whole interval -/
theorem bsearch_spec' (right : Nat → Bool) (lo hi : Nat) (h : lo ≤ hi) :
    lo ≤ bsearch right (hi - lo) lo hi ∧ bsearch right (hi - lo) lo hi ≤ hi ∧
    (bsearch right (hi - lo) lo hi = lo ∨ right (bsearch right (hi - lo) lo hi - 1) = true) ∧
    (bsearch right (hi - lo) lo hi = hi ∨ right (bsearch right (hi - lo) lo hi) = false) :=
  bsearch_spec right lo hi (hi - lo) lo hi h (by omega) (Nat.le_refl _) (Nat.le_refl _) (Or.inl rfl) (Or.inl rfl)

/-! ### sortedness -/

/-- `less` is the non-strict version of a total preorder (`less a b = decide (key a ≥ key b)` is one) -/
structure TotalPreorder (less : α → α → Bool) : Prop where
  total : ∀ x y, less x y = true ∨ less y x = true
  trans : ∀ x y z, less x y = true → less y z = true → less x z = true

theorem TotalPreorder.of_false {less : α → α → Bool} (h : TotalPreorder less) {x y : α} (hxy : less x y = false) :
    less y x = true := by
  rcases h.total x y with h1 | h1
  · rw [hxy] at h1; cases h1
  · exact h1

theorem TotalPreorder.refl {less : α → α → Bool} (h : TotalPreorder less) (x : α) : less x x = true := by
  rcases h.total x x with h1 | h1 <;> exact h1

section sorted
variable [Inhabited α] (less : α → α → Bool)

/-- `data[a:b]` is in order: an earlier element is `less`-related to every later one -/
def S (d : Array α) (a b : Nat) : Prop := ∀ i j, a ≤ i → i < j → j < b → less (get d i) (get d j) = true

/-- inner loop of `insertionSort`: `data[a:j]` and `data[j:J+1]` in order, everything of the first before everything
    of the second except `data[j]` itself — afterwards `data[a:J+1]` is in order -/
theorem insertDown_sorted (hT : TotalPreorder less) (a J j : Nat) (d : Array α) (haj : a ≤ j) (hjJ : j ≤ J) (hJ : J < d.size)
    (h1 : S less d a j) (h2 : S less d j (J + 1))
    (h3 : ∀ x y, a ≤ x → x < j → j < y → y ≤ J → less (get d x) (get d y) = true) :
    (insertDown less a j d).size = d.size ∧
    (∀ k, (k < a ∨ J < k) → get (insertDown less a j d) k = get d k) ∧
    S less (insertDown less a j d) a (J + 1) := by
  induction j generalizing d with
  | zero =>
    have : a = 0 := by omega
    subst this
    exact ⟨rfl, fun _ _ => rfl, h2⟩
  | succ j ih =>
    unfold insertDown
    by_cases hc : (decide (a < j + 1) && lessAt less d (j + 1) j) = true
    · rw [if_pos hc]
      simp only [Bool.and_eq_true, decide_eq_true_eq] at hc
      obtain ⟨haj', hl⟩ := hc
      rw [lessAt_eq less d (by omega) (by omega)] at hl
      have g := get_swp d (i := j + 1) (j := j) (by omega) (by omega)
      have hs := size_swp d (j + 1) j
      obtain ⟨r1, r2, r3⟩ := ih (swp d (j + 1) j) (by omega) (by omega) (by omega)
        (by
          intro x y hx hxy hy
          rw [g, g, if_neg (by omega), if_neg (by omega), if_neg (by omega), if_neg (by omega)]
          exact h1 x y hx hxy (by omega))
        (by
          intro x y hx hxy hy
          rw [g, g]
          by_cases ex : x = j
          · subst ex
            rw [if_neg (by omega), if_pos rfl]
            by_cases ey : y = x + 1
            · subst ey; rw [if_pos rfl]; exact hl
            · rw [if_neg ey, if_neg (by omega)]
              exact h2 (x + 1) y (by omega) (by omega) hy
          · by_cases ex' : x = j + 1
            · subst ex'
              rw [if_pos rfl, if_neg (by omega), if_neg (by omega)]
              exact h3 j y (by omega) (by omega) (by omega) (by omega)
            · rw [if_neg ex', if_neg ex, if_neg (by omega), if_neg (by omega)]
              exact h2 x y (by omega) hxy hy)
        (by
          intro x y hx hxj hjy hyJ
          rw [g, g, if_neg (by omega), if_neg (by omega)]
          by_cases ey : y = j + 1
          · subst ey; rw [if_pos rfl]; exact h1 x j hx hxj (by omega)
          · rw [if_neg ey, if_neg (by omega)]
            exact h3 x y hx (by omega) (by omega) hyJ)
      refine ⟨by omega, fun k hk => ?_, r3⟩
      rw [r2 k hk, g, if_neg (by omega), if_neg (by omega)]
    · rw [if_neg hc]
      refine ⟨rfl, fun _ _ => rfl, ?_⟩
      simp only [Bool.and_eq_true, decide_eq_true_eq, not_and, Bool.not_eq_true] at hc
      by_cases haj' : a < j + 1
      · have hl := hc haj'
        rw [lessAt_eq less d (by omega) (by omega)] at hl
        have hl' := hT.of_false hl
        intro x y hx hxy hy
        by_cases hyj : y < j + 1
        · exact h1 x y hx hxy hyj
        · by_cases hxj : j + 1 ≤ x
          · exact h2 x y hxj hxy hy
          · by_cases ey : y = j + 1
            · subst ey
              by_cases ex : x = j
              · subst ex; exact hl'
              · exact hT.trans _ _ _ (h1 x j hx (by omega) (by omega)) hl'
            · exact h3 x y hx (by omega) (by omega) (by omega)
      · have : a = j + 1 := by omega
        subst this
        exact h2

variable {less} in
theorem S.mono {d : Array α} {a b a' b' : Nat} (h : S less d a b) (ha : a ≤ a') (hb : b' ≤ b) : S less d a' b' :=
  fun i j hi hij hj => h i j (by omega) hij (by omega)

variable {less} in
/-- a range that was not touched is still in order -/
theorem S.congr {d d' : Array α} {a b : Nat} (h : S less d a b) (he : ∀ k, a ≤ k → k < b → get d' k = get d k) :
    S less d' a b := by
  intro i j hi hij hj
  rw [he i hi (by omega), he j (by omega) hj]
  exact h i j hi hij hj

theorem insertionLoop_sorted (hT : TotalPreorder less) (a b fuel i : Nat) (d : Array α) (hai : a ≤ i) (hb : b ≤ d.size)
    (hf : b ≤ i + fuel) (h : S less d a i) :
    (insertionLoop less a b fuel i d).size = d.size ∧
    (∀ k, (k < a ∨ b ≤ k) → get (insertionLoop less a b fuel i d) k = get d k) ∧
    S less (insertionLoop less a b fuel i d) a b := by
  induction fuel generalizing i d with
  | zero => exact ⟨rfl, fun _ _ => rfl, h.mono (Nat.le_refl _) (by omega)⟩
  | succ f ih =>
    unfold insertionLoop
    by_cases hlt : i < b
    · rw [if_pos hlt]
      obtain ⟨r1, r2, r3⟩ := insertDown_sorted less hT a i i d hai (Nat.le_refl _) (by omega) h
        (fun x y hx hxy hy => by omega) (fun x y _ _ h1 h2 => by omega)
      obtain ⟨q1, q2, q3⟩ := ih (i + 1) (insertDown less a i d) (by omega) (by omega) (by omega) r3
      refine ⟨by omega, fun k hk => ?_, q3⟩
      rw [q2 k hk, r2 k (by omega)]
    · rw [if_neg hlt]
      exact ⟨rfl, fun _ _ => rfl, h.mono (Nat.le_refl _) (by omega)⟩

/-- **insertionSort**: `data[a:b]` is in order afterwards, the rest is untouched -/
theorem insertionSort_sorted (hT : TotalPreorder less) (d : Array α) (a b : Nat) (hb : b ≤ d.size) :
    (insertionSort less d a b).size = d.size ∧
    (∀ k, (k < a ∨ b ≤ k) → get (insertionSort less d a b) k = get d k) ∧
    S less (insertionSort less d a b) a b :=
  insertionLoop_sorted less hT a b (b - (a + 1)) (a + 1) d (by omega) hb (by omega) (fun i j hi hij hj => by omega)

/-! ### symMerge -/

/-- `d'` differs from `d` only inside `[a, b)`, and what is inside came from inside -/
structure Frame (d d' : Array α) (a b : Nat) : Prop where
  size : d'.size = d.size
  out : ∀ k, (k < a ∨ b ≤ k) → get d' k = get d k
  mem : ∀ k, a ≤ k → k < b → ∃ k', a ≤ k' ∧ k' < b ∧ get d' k = get d k'

theorem Frame.refl (d : Array α) (a b : Nat) : Frame d d a b :=
  ⟨rfl, fun _ _ => rfl, fun k h1 h2 => ⟨k, h1, h2, rfl⟩⟩

theorem Frame.mono {d d' : Array α} {a b a' b' : Nat} (h : Frame d d' a b) (ha : a' ≤ a) (hb : b ≤ b') : Frame d d' a' b' := by
  refine ⟨h.size, fun k hk => h.out k (by omega), fun k h1 h2 => ?_⟩
  by_cases hin : a ≤ k ∧ k < b
  · obtain ⟨k', e1, e2, e3⟩ := h.mem k hin.1 hin.2
    exact ⟨k', by omega, by omega, e3⟩
  · exact ⟨k, h1, h2, h.out k (by omega)⟩

theorem Frame.trans {d d' d'' : Array α} {a b : Nat} (h : Frame d d' a b) (h' : Frame d' d'' a b) : Frame d d'' a b := by
  refine ⟨h'.size.trans h.size, fun k hk => (h'.out k hk).trans (h.out k hk), fun k h1 h2 => ?_⟩
  obtain ⟨k1, e1, e2, e3⟩ := h'.mem k h1 h2
  obtain ⟨k2, f1, f2, f3⟩ := h.mem k1 e1 e2
  exact ⟨k2, f1, f2, e3.trans f3⟩

/-- first special case of `symMerge` (`m - a == 1`): `data[a]` is inserted into the ordered `data[a+1:b]` before the
    first element that is not `less` than it -/
theorem insertFirst_sorted (hT : TotalPreorder less) (d : Array α) (a b i : Nat) (hai : a + 1 ≤ i) (hib : i ≤ b)
    (hb : b ≤ d.size) (h2 : S less d (a + 1) b)
    (hl : i = a + 1 ∨ less (get d (i - 1)) (get d a) = true) (hr : i = b ∨ less (get d i) (get d a) = false) :
    Frame d (bubbleUp (i - 1) (i - 1 - a) a d) a b ∧ S less (bubbleUp (i - 1) (i - 1 - a) a d) a b := by
  obtain ⟨sz, sp⟩ := bubbleUp_spec (i - 1) (i - 1 - a) a d (by omega) (by omega) (by omega)
  have F1 : ∀ h, a + 1 ≤ h → h < i → less (get d h) (get d a) = true := by
    intro h h1 h2'
    rcases hl with hl | hl
    · omega
    · by_cases e : h = i - 1
      · subst e; exact hl
      · exact hT.trans _ _ _ (h2 h (i - 1) h1 (by omega) (by omega)) hl
  have F2 : ∀ y, i ≤ y → y < b → less (get d a) (get d y) = true := by
    intro y h1 h2'
    rcases hr with hr | hr
    · omega
    · have := hT.of_false hr
      by_cases e : y = i
      · subst e; exact this
      · exact hT.trans _ _ _ this (h2 i y (by omega) (by omega) h2')
  have U1 : ∀ x, a ≤ x → x < i - 1 → get (bubbleUp (i - 1) (i - 1 - a) a d) x = get d (x + 1) :=
    fun x h1 h2 => by rw [sp, if_pos ⟨h1, h2⟩]
  have U2 : get (bubbleUp (i - 1) (i - 1 - a) a d) (i - 1) = get d a := by rw [sp, if_neg (by omega), if_pos rfl]
  have U3 : ∀ x, (x < a ∨ i - 1 < x) → get (bubbleUp (i - 1) (i - 1 - a) a d) x = get d x :=
    fun x h => by rw [sp, if_neg (by omega), if_neg (by omega)]
  constructor
  · refine ⟨sz, fun k hk => U3 k (by omega), fun k h1 h2' => ?_⟩
    by_cases c1 : k < i - 1
    · exact ⟨k + 1, by omega, by omega, U1 k h1 c1⟩
    · by_cases c2 : k = i - 1
      · subst c2; exact ⟨a, by omega, by omega, U2⟩
      · exact ⟨k, h1, h2', U3 k (by omega)⟩
  · intro x y hx hxy hy
    by_cases cx : x < i - 1
    · rw [U1 x hx cx]
      by_cases cy : y < i - 1
      · rw [U1 y (by omega) cy]; exact h2 (x + 1) (y + 1) (by omega) (by omega) (by omega)
      · by_cases cy' : y = i - 1
        · subst cy'; rw [U2]; exact F1 (x + 1) (by omega) (by omega)
        · rw [U3 y (by omega)]; exact h2 (x + 1) y (by omega) (by omega) hy
    · rw [U3 y (by omega)]
      by_cases cx' : x = i - 1
      · subst cx'; rw [U2]; exact F2 y (by omega) hy
      · rw [U3 x (by omega)]; exact h2 x y (by omega) hxy hy

/-- second special case of `symMerge` (`b - m == 1`): `data[m]` is inserted into the ordered `data[a:m]` before the
    first element it is `less` than -/
theorem insertLast_sorted (hT : TotalPreorder less) (d : Array α) (a m i : Nat) (hai : a ≤ i) (him : i ≤ m)
    (hm : m < d.size) (h1 : S less d a m)
    (hl : i = a ∨ less (get d m) (get d (i - 1)) = false) (hr : i = m ∨ less (get d m) (get d i) = true) :
    Frame d (bubbleDown i m d) a (m + 1) ∧ S less (bubbleDown i m d) a (m + 1) := by
  obtain ⟨sz, sp⟩ := bubbleDown_spec i m d him hm
  have F1 : ∀ h, a ≤ h → h < i → less (get d h) (get d m) = true := by
    intro h h1' h2
    rcases hl with hl | hl
    · omega
    · have := hT.of_false hl
      by_cases e : h = i - 1
      · subst e; exact this
      · exact hT.trans _ _ _ (h1 h (i - 1) h1' (by omega) (by omega)) this
  have F2 : ∀ h, i ≤ h → h < m → less (get d m) (get d h) = true := by
    intro h h1' h2
    rcases hr with hr | hr
    · omega
    · by_cases e : h = i
      · subst e; exact hr
      · exact hT.trans _ _ _ hr (h1 i h hai (by omega) h2)
  have U1 : ∀ x, i < x → x ≤ m → get (bubbleDown i m d) x = get d (x - 1) :=
    fun x h1 h2 => by rw [sp, if_pos ⟨h1, h2⟩]
  have U2 : get (bubbleDown i m d) i = get d m := by rw [sp, if_neg (by omega), if_pos rfl]
  have U3 : ∀ x, (x < i ∨ m < x) → get (bubbleDown i m d) x = get d x :=
    fun x h => by rw [sp, if_neg (by omega), if_neg (by omega)]
  constructor
  · refine ⟨sz, fun k hk => U3 k (by omega), fun k h1' h2 => ?_⟩
    by_cases c1 : i < k
    · exact ⟨k - 1, by omega, by omega, U1 k c1 (by omega)⟩
    · by_cases c2 : k = i
      · subst c2; exact ⟨m, by omega, by omega, U2⟩
      · exact ⟨k, h1', h2, U3 k (by omega)⟩
  · intro x y hx hxy hy
    by_cases cx : x < i
    · rw [U3 x (Or.inl cx)]
      by_cases cy : y < i
      · rw [U3 y (Or.inl cy)]; exact h1 x y hx hxy (by omega)
      · by_cases cy' : y = i
        · subst cy'; rw [U2]; exact F1 x hx cx
        · rw [U1 y (by omega) (by omega)]; exact h1 x (y - 1) hx (by omega) (by omega)
    · rw [U1 y (by omega) (by omega)]
      by_cases cx' : x = i
      · subst cx'; rw [U2]; exact F2 (y - 1) (by omega) (by omega)
      · rw [U1 x (by omega) (by omega)]; exact h1 (x - 1) (y - 1) (by omega) (by omega) (by omega)

/-- the rotation step of `symMerge` (skipped when one of the two blocks is empty), index by index:
    `data[start:m]` and `data[m:e]` change places, where `start + (e - m) = mid` -/
theorem rotIf_spec (d : Array α) (start m e mid : Nat) (hsm : start ≤ m) (hme : m ≤ e) (he : e ≤ d.size)
    (hmid : start + (e - m) = mid) :
    (if (decide (start < m) && decide (m < e)) = true then rotate d start m e else d).size = d.size ∧
    (∀ x, start ≤ x → x < mid →
      get (if (decide (start < m) && decide (m < e)) = true then rotate d start m e else d) x = get d (x - start + m)) ∧
    (∀ x, mid ≤ x → x < e →
      get (if (decide (start < m) && decide (m < e)) = true then rotate d start m e else d) x = get d (x - mid + start)) ∧
    (∀ x, (x < start ∨ e ≤ x) →
      get (if (decide (start < m) && decide (m < e)) = true then rotate d start m e else d) x = get d x) := by
  by_cases hrot : start < m ∧ m < e
  · rw [if_pos (by simpa using hrot)]
    obtain ⟨r0, r1, r2, r3⟩ := rotate_spec d start m e hrot.1 hrot.2 he
    refine ⟨r0, fun x h1 h2 => ?_, fun x h1 h2 => ?_, r3⟩
    · have := r1 (x - start) (by omega)
      rw [show start + (x - start) = x by omega] at this
      rw [this]; congr 1; omega
    · have := r2 (x - mid) (by omega)
      rw [show start + (e - m) + (x - mid) = x by omega] at this
      rw [this]; congr 1; omega
  · rw [if_neg (by simpa using hrot)]
    refine ⟨rfl, fun x h1 h2 => ?_, fun x h1 h2 => ?_, fun _ _ => rfl⟩
    · congr 1; omega
    · congr 1; omega

/-- after the rotation step: four ordered runs `[a,start) [start,mid) [mid,e) [e,b)`, and everything in the first half
    `[a,mid)` is `less`-before everything in the second half `[mid,b)` -/
theorem symMerge_split (hT : TotalPreorder less) (d d1 : Array α) (a m b start e mid : Nat)
    (h1 : S less d a m) (h2 : S less d m b)
    (hs1 : a ≤ start) (hsm : start ≤ m) (hme : m ≤ e) (heb : e ≤ b) (hmid : start + (e - m) = mid)
    (hl : (start = a ∨ e = b) ∨ less (get d e) (get d (start - 1)) = false)
    (hr : (start = m ∨ e = m) ∨ less (get d (e - 1)) (get d start) = true)
    (A0 : d1.size = d.size)
    (A1 : ∀ x, start ≤ x → x < mid → get d1 x = get d (x - start + m))
    (A2 : ∀ x, mid ≤ x → x < e → get d1 x = get d (x - mid + start))
    (A3 : ∀ x, (x < start ∨ e ≤ x) → get d1 x = get d x) :
    Frame d d1 a b ∧ S less d1 a start ∧ S less d1 start mid ∧ S less d1 mid e ∧ S less d1 e b ∧
    (∀ x y, a ≤ x → x < mid → mid ≤ y → y < b → less (get d1 x) (get d1 y) = true) := by
  refine ⟨⟨A0, fun k hk => A3 k (by omega), fun k k1 k2 => ?_⟩, ?_, ?_, ?_, ?_, ?_⟩
  · by_cases c1 : k < start
    · exact ⟨k, k1, k2, A3 k (Or.inl c1)⟩
    · by_cases c2 : k < mid
      · exact ⟨k - start + m, by omega, by omega, A1 k (by omega) c2⟩
      · by_cases c3 : k < e
        · exact ⟨k - mid + start, by omega, by omega, A2 k (by omega) c3⟩
        · exact ⟨k, k1, k2, A3 k (by omega)⟩
  · intro x y hx hxy hy
    rw [A3 x (by omega), A3 y (by omega)]
    exact h1 x y hx hxy (by omega)
  · intro x y hx hxy hy
    rw [A1 x hx (by omega), A1 y (by omega) hy]
    exact h2 _ _ (by omega) (by omega) (by omega)
  · intro x y hx hxy hy
    rw [A2 x hx (by omega), A2 y (by omega) hy]
    exact h1 _ _ (by omega) (by omega) (by omega)
  · intro x y hx hxy hy
    rw [A3 x (by omega), A3 y (by omega)]
    exact h2 x y (by omega) hxy hy
  · intro x y hx hxm hmy hy
    by_cases cx : x < start
    · rw [A3 x (Or.inl cx)]
      by_cases cy : y < e
      · rw [A2 y hmy cy]
        exact h1 _ _ hx (by omega) (by omega)
      · rw [A3 y (by omega)]
        rcases hl with hl | hl
        · omega
        · have h0 := hT.of_false hl
          have ha : less (get d x) (get d (start - 1)) = true := by
            by_cases ex : x = start - 1
            · subst ex; exact hT.refl _
            · exact h1 _ _ hx (by omega) (by omega)
          have hb' : less (get d e) (get d y) = true := by
            by_cases ey : y = e
            · subst ey; exact hT.refl _
            · exact h2 _ _ hme (by omega) hy
          exact hT.trans _ _ _ (hT.trans _ _ _ ha h0) hb'
    · rw [A1 x (by omega) hxm]
      by_cases cy : y < e
      · rw [A2 y hmy cy]
        rcases hr with hr | hr
        · omega
        · have ha : less (get d (x - start + m)) (get d (e - 1)) = true := by
            by_cases ex : x - start + m = e - 1
            · rw [ex]; exact hT.refl _
            · exact h2 _ _ (by omega) (by omega) (by omega)
          have hb' : less (get d start) (get d (y - mid + start)) = true := by
            by_cases ey : y - mid + start = start
            · rw [ey]; exact hT.refl _
            · exact h1 _ _ hs1 (by omega) (by omega)
          exact hT.trans _ _ _ (hT.trans _ _ _ ha hr) hb'
      · rw [A3 y (by omega)]
        exact h2 _ _ (by omega) (by omega) hy

/-- the two halves merged separately give the whole range in order -/
theorem symMerge_join (d1 d2 d3 : Array α) (a mid b : Nat) (hamid : a ≤ mid) (hmidb : mid ≤ b)
    (f12 : Frame d1 d2 a mid) (f23 : Frame d2 d3 mid b) (s2 : S less d2 a mid) (s3 : S less d3 mid b)
    (hx : ∀ x y, a ≤ x → x < mid → mid ≤ y → y < b → less (get d1 x) (get d1 y) = true) :
    Frame d1 d3 a b ∧ S less d3 a b := by
  refine ⟨(f12.mono (Nat.le_refl _) hmidb).trans (f23.mono hamid (Nat.le_refl _)), ?_⟩
  intro x y h1 hxy h2
  by_cases cy : y < mid
  · rw [f23.out x (by omega), f23.out y (by omega)]
    exact s2 x y h1 hxy cy
  · by_cases cx : mid ≤ x
    · exact s3 x y cx hxy h2
    · rw [f23.out x (by omega)]
      obtain ⟨x', e1, e2, e3⟩ := f12.mem x h1 (by omega)
      obtain ⟨y', g1, g2, g3⟩ := f23.mem y (by omega) h2
      rw [e3, g3, f12.out y' (by omega)]
      exact hx x' y' e1 e2 g1 g2

/-- the general case of `symMerge`, given the position `start` the binary search found and the statement for the
    recursive calls -/
theorem symMerge_general (hT : TotalPreorder less) (f : Nat)
    (ih : ∀ (d : Array α) (a m b : Nat), a < m → m < b → b ≤ d.size → b - a ≤ f → S less d a m → S less d m b →
      Frame d (symMerge less f d a m b) a b ∧ S less (symMerge less f d a m b) a b)
    (d : Array α) (a m b mid start : Nat) (hb : b ≤ d.size) (hf : b - a ≤ f + 1)
    (hmid1 : 2 * mid ≤ a + b) (hmid2 : a + b < 2 * mid + 2) (hab : a + 2 ≤ b)
    (h1 : S less d a m) (h2 : S less d m b)
    (hs1 : a ≤ start) (hsm : start ≤ m) (hsmid : start ≤ mid) (he : mid + m - start ≤ b)
    (hl : (start = a ∨ mid + m - start = b) ∨ less (get d (mid + m - start)) (get d (start - 1)) = false)
    (hr : (start = m ∨ mid + m - start = m) ∨ less (get d (mid + m - start - 1)) (get d start) = true) :
    let e := mid + m - start
    let d1 := if (decide (start < m) && decide (m < e)) = true then rotate d start m e else d
    let d2 := if (decide (a < start) && decide (start < mid)) = true then symMerge less f d1 a start mid else d1
    let d3 := if (decide (mid < e) && decide (e < b)) = true then symMerge less f d2 mid e b else d2
    Frame d d3 a b ∧ S less d3 a b := by
  intro e d1 d2 d3
  have hme : m ≤ e := by omega
  have hmid : start + (e - m) = mid := by omega
  obtain ⟨A0, A1, A2, A3⟩ : d1.size = d.size ∧ (∀ x, start ≤ x → x < mid → get d1 x = get d (x - start + m)) ∧
      (∀ x, mid ≤ x → x < e → get d1 x = get d (x - mid + start)) ∧ (∀ x, (x < start ∨ e ≤ x) → get d1 x = get d x) :=
    rotIf_spec d start m e mid hsm hme (by omega) hmid
  obtain ⟨F01, S1, S2, S3, S4, X⟩ := symMerge_split less hT d d1 a m b start e mid h1 h2 hs1 hsm hme he hmid hl hr A0 A1 A2 A3
  have P2 : Frame d1 d2 a mid ∧ S less d2 a mid := by
    by_cases c : a < start ∧ start < mid
    · have e2 : d2 = symMerge less f d1 a start mid := if_pos (by simpa using c)
      rw [e2]
      exact ih d1 a start mid c.1 c.2 (by omega) (by omega) S1 S2
    · have e2 : d2 = d1 := if_neg (by simpa using c)
      rw [e2]
      refine ⟨Frame.refl _ _ _, ?_⟩
      by_cases c' : a = start
      · rw [c']; exact S2
      · have : start = mid := by omega
        rw [← this]; exact S1
  obtain ⟨F12, T2⟩ := P2
  have S3' : S less d2 mid e := S3.congr (fun k k1 _ => F12.out k (by omega))
  have S4' : S less d2 e b := S4.congr (fun k k1 _ => F12.out k (by omega))
  have P3 : Frame d2 d3 mid b ∧ S less d3 mid b := by
    by_cases c : mid < e ∧ e < b
    · have e3 : d3 = symMerge less f d2 mid e b := if_pos (by simpa using c)
      rw [e3]
      exact ih d2 mid e b c.1 c.2 (by have := F12.size; omega) (by omega) S3' S4'
    · have e3 : d3 = d2 := if_neg (by simpa using c)
      rw [e3]
      refine ⟨Frame.refl _ _ _, ?_⟩
      by_cases c' : e = mid
      · rw [← c']; exact S4'
      · have : e = b := by omega
        rw [← this]; exact S3'
  obtain ⟨F23, T3⟩ := P3
  obtain ⟨F13, T⟩ := symMerge_join less d1 d2 d3 a mid b (by omega) (by omega) F12 F23 T2 T3 X
  exact ⟨F01.trans F13, T⟩

/-- **symMerge**: two adjacent ordered runs `data[a:m]`, `data[m:b]` become one ordered run `data[a:b]`; nothing
    outside `[a, b)` is touched and nothing crosses its border -/
theorem symMerge_sorted (hT : TotalPreorder less) (fuel : Nat) (d : Array α) (a m b : Nat) (ham : a < m) (hmb : m < b)
    (hb : b ≤ d.size) (hf : b - a ≤ fuel) (h1 : S less d a m) (h2 : S less d m b) :
    Frame d (symMerge less fuel d a m b) a b ∧ S less (symMerge less fuel d a m b) a b := by
  induction fuel generalizing d a m b with
  | zero => omega
  | succ f ih =>
    unfold symMerge
    by_cases c1 : m - a = 1
    · rw [if_pos (by simpa using c1)]
      have hm : m = a + 1 := by omega
      subst hm
      obtain ⟨b1, b2, b3, b4⟩ := bsearch_spec' (fun h => lessAt less d h a) (a + 1) b (by omega)
      dsimp only at b3 b4 ⊢
      refine insertFirst_sorted less hT d a b _ b1 b2 hb h2 ?_ ?_
      · rcases b3 with b3 | b3
        · exact Or.inl b3
        · rw [lessAt_eq less d (by omega) (by omega)] at b3; exact Or.inr b3
      · rcases b4 with b4 | b4
        · exact Or.inl b4
        · by_cases hbb : bsearch (fun h => lessAt less d h a) (b - (a + 1)) (a + 1) b = b
          · exact Or.inl hbb
          · rw [lessAt_eq less d (by omega) (by omega)] at b4; exact Or.inr b4
    · rw [if_neg (by simpa using c1)]
      by_cases c2 : b - m = 1
      · rw [if_pos (by simpa using c2)]
        have hbm : b = m + 1 := by omega
        subst hbm
        obtain ⟨b1, b2, b3, b4⟩ := bsearch_spec' (fun h => !lessAt less d m h) a m (by omega)
        dsimp only at b3 b4 ⊢
        refine insertLast_sorted less hT d a m _ b1 b2 (by omega) h1 ?_ ?_
        · rcases b3 with b3 | b3
          · exact Or.inl b3
          · rw [lessAt_eq less d (by omega) (by omega)] at b3; exact Or.inr (by simpa using b3)
        · rcases b4 with b4 | b4
          · exact Or.inl b4
          · rw [lessAt_eq less d (by omega) (by omega)] at b4; exact Or.inr (by simpa using b4)
      · rw [if_neg (by simpa using c2)]
        dsimp only
        generalize hmid : (a + b) / 2 = mid
        have hmid1 : 2 * mid ≤ a + b := by omega
        have hmid2 : a + b < 2 * mid + 2 := by omega
        -- whichever interval the search runs on
        have fin : ∀ lo hi, (lo = a ∨ (lo = mid + m - b ∧ b ≤ mid + m)) → (hi = m ∨ hi = mid) → a ≤ lo → lo ≤ hi →
            hi ≤ m → hi ≤ mid → mid + m - b ≤ lo →
            ∀ start, start = bsearch (fun c => !lessAt less d (mid + m - 1 - c) c) (hi - lo) lo hi →
            let e := mid + m - start
            let d1 := if (decide (start < m) && decide (m < e)) = true then rotate d start m e else d
            let d2 := if (decide (a < start) && decide (start < mid)) = true then symMerge less f d1 a start mid else d1
            let d3 := if (decide (mid < e) && decide (e < b)) = true then symMerge less f d2 mid e b else d2
            Frame d d3 a b ∧ S less d3 a b := by
          intro lo hi hlo hhi g1 g2 g3 g4 g5 start hst
          obtain ⟨b1, b2, b3, b4⟩ := bsearch_spec' (fun c => !lessAt less d (mid + m - 1 - c) c) lo hi g2
          rw [← hst] at b1 b2 b3 b4
          refine symMerge_general less hT f ih d a m b mid start hb hf hmid1 hmid2 (by omega) h1 h2 (by omega) (by omega)
            (by omega) (by omega) ?_ ?_
          · by_cases q : start = a ∨ mid + m - start = b
            · exact Or.inl q
            · rcases b3 with b3 | b3
              · exact Or.inl (by omega)
              · rw [lessAt_eq less d (by omega) (by omega)] at b3
                rw [show mid + m - 1 - (start - 1) = mid + m - start by omega] at b3
                exact Or.inr (by simpa using b3)
          · by_cases q : start = m ∨ mid + m - start = m
            · exact Or.inl q
            · rcases b4 with b4 | b4
              · exact Or.inl (by omega)
              · rw [lessAt_eq less d (by omega) (by omega)] at b4
                rw [show mid + m - 1 - start = mid + m - start - 1 by omega] at b4
                exact Or.inr (by simpa using b4)
        by_cases hgt : m > mid
        · simp only [hgt, ↓reduceIte]
          exact fin (mid + m - b) mid (Or.inr ⟨rfl, by omega⟩) (Or.inr rfl) (by omega) (by omega) (by omega) (by omega)
            (by omega) _ rfl
        · simp only [hgt, ↓reduceIte]
          exact fin a m (Or.inl rfl) (Or.inl rfl) (by omega) (by omega) (by omega) (by omega) (by omega) _ rfl

/-! ### stable -/

/-- from position `s` on, `data[:n]` consists of ordered blocks of length `bs` (the last one possibly shorter) -/
inductive Blocks (d : Array α) (bs n : Nat) : Nat → Prop
  | last (s : Nat) : n ≤ s + bs → S less d s n → Blocks d bs n s
  | cons (s : Nat) : s + bs ≤ n → S less d s (s + bs) → Blocks d bs n (s + bs) → Blocks d bs n s

variable {less} in
theorem Blocks.congr {d d' : Array α} {bs n s : Nat} (h : Blocks less d bs n s) (he : ∀ k, s ≤ k → get d' k = get d k) :
    Blocks less d' bs n s := by
  induction h with
  | last s h1 h2 => exact .last s h1 (h2.congr (fun k k1 _ => he k k1))
  | cons s h1 h2 _ ih => exact .cons s h1 (h2.congr (fun k k1 _ => he k k1)) (ih (fun k hk => he k (by omega)))

variable {less} in
theorem Blocks.uncons {d : Array α} {bs n s : Nat} (h : Blocks less d bs n s) (hs : s + bs ≤ n) :
    S less d s (s + bs) ∧ Blocks less d bs n (s + bs) := by
  cases h with
  | last _ h1 h2 =>
    have : n = s + bs := by omega
    subst this
    exact ⟨h2, .last _ (by omega) (fun i j _ _ _ => by omega)⟩
  | cons _ h1 h2 h3 => exact ⟨h2, h3⟩

variable {less} in
theorem Blocks.final {d : Array α} {bs n s : Nat} (h : Blocks less d bs n s) (hs : n ≤ s + bs) : S less d s n := by
  cases h with
  | last _ h1 h2 => exact h2
  | cons _ h1 h2 h3 =>
    have : n = s + bs := by omega
    subst this
    exact h2

/-- first phase of `stable`: insertion sort block by block -/
theorem blocksLoop_sorted (hT : TotalPreorder less) (n bs fuel a b : Nat) (d : Array α) (hbs : 1 ≤ bs) (hab : b = a + bs)
    (hn : n ≤ d.size) (hf1 : 1 ≤ fuel) (hf : n + 2 ≤ b + fuel) :
    (blocksLoop less n bs fuel a b d).size = d.size ∧
    (∀ k, k < a → get (blocksLoop less n bs fuel a b d) k = get d k) ∧
    Blocks less (blocksLoop less n bs fuel a b d) bs n a := by
  induction fuel generalizing a b d with
  | zero => omega
  | succ f ih =>
    unfold blocksLoop
    by_cases hle : b ≤ n
    · rw [if_pos hle]
      obtain ⟨r1, r2, r3⟩ := insertionSort_sorted less hT d a b (by omega)
      obtain ⟨q1, q2, q3⟩ := ih b (b + bs) (insertionSort less d a b) rfl (by omega) (by omega) (by omega)
      refine ⟨by omega, fun k hk => ?_, ?_⟩
      · rw [q2 k (by omega), r2 k (Or.inl hk)]
      · subst hab
        exact .cons a hle (r3.congr (fun k _ k2 => q2 k k2)) q3
    · rw [if_neg hle]
      obtain ⟨r1, r2, r3⟩ := insertionSort_sorted less hT d a n hn
      exact ⟨r1, fun k hk => r2 k (Or.inl hk), .last a (by omega) r3⟩

/-- one merge pass: ordered blocks of length `bs` become ordered blocks of length `2 * bs` -/
theorem mergePass_sorted (hT : TotalPreorder less) (n bs fuel a b : Nat) (d : Array α) (hbs : 1 ≤ bs) (hab : b = a + 2 * bs)
    (hn : n ≤ d.size) (hf1 : 1 ≤ fuel) (hf : n + 2 ≤ b + fuel) (h : Blocks less d bs n a) :
    (mergePass less n bs fuel a b d).size = d.size ∧
    (∀ k, k < a → get (mergePass less n bs fuel a b d) k = get d k) ∧
    Blocks less (mergePass less n bs fuel a b d) (2 * bs) n a := by
  induction fuel generalizing a b d with
  | zero => omega
  | succ f ih =>
    unfold mergePass
    by_cases hle : b ≤ n
    · rw [if_pos hle]
      obtain ⟨u1, u2⟩ := h.uncons (by omega)
      obtain ⟨u3, u4⟩ := u2.uncons (by omega)
      have e : a + bs + bs = b := by omega
      rw [e] at u3 u4
      obtain ⟨F, T⟩ := symMerge_sorted less hT (b - a) d a (a + bs) b (by omega) (by omega) (by omega) (Nat.le_refl _) u1 u3
      obtain ⟨q1, q2, q3⟩ := ih b (b + 2 * bs) (symMerge less (b - a) d a (a + bs) b) rfl (by have := F.size; omega)
        (by omega) (by omega) (u4.congr (fun k hk => F.out k (Or.inr hk)))
      refine ⟨by have := F.size; omega, fun k hk => ?_, ?_⟩
      · rw [q2 k (by omega), F.out k (Or.inl hk)]
      · subst hab
        exact .cons a hle (T.congr (fun k _ k2 => q2 k k2)) q3
    · rw [if_neg hle]
      dsimp only
      by_cases hm : a + bs < n
      · rw [if_pos hm]
        obtain ⟨u1, u2⟩ := h.uncons (by omega)
        have u3 := u2.final (by omega)
        obtain ⟨F, T⟩ := symMerge_sorted less hT (n - a) d a (a + bs) n (by omega) hm hn (Nat.le_refl _) u1 u3
        exact ⟨F.size, fun k hk => F.out k (Or.inl hk), .last a (by omega) T⟩
      · rw [if_neg hm]
        exact ⟨rfl, fun _ _ => rfl, .last a (by omega) (h.final (by omega))⟩

/-- the merge passes: block length doubles until one block covers everything -/
theorem mergeLoop_sorted (hT : TotalPreorder less) (n fuel bs : Nat) (d : Array α) (hbs : 1 ≤ bs) (hn : n ≤ d.size)
    (hf : n ≤ bs + fuel) (h : Blocks less d bs n 0) :
    S less (mergeLoop less n fuel bs d) 0 n := by
  induction fuel generalizing bs d with
  | zero => exact h.final (by omega)
  | succ f ih =>
    unfold mergeLoop
    by_cases hlt : bs < n
    · rw [if_pos hlt]
      obtain ⟨q1, _, q3⟩ := mergePass_sorted less hT n bs n 0 (2 * bs) d hbs (by omega) hn (by omega) (by omega) h
      rw [Nat.mul_comm bs 2]
      exact ih (2 * bs) _ (by omega) (by omega) (by omega) q3
    · rw [if_neg hlt]
      exact h.final (by omega)

/-- **stable** leaves `data[:n]` in order -/
theorem stable_sorted (hT : TotalPreorder less) (d : Array α) (n : Nat) (hn : n ≤ d.size) :
    S less (stable less d n) 0 n := by
  by_cases h0 : n = 0
  · subst h0; exact fun i j _ _ _ => by omega
  · unfold stable
    obtain ⟨r1, _, r3⟩ := blocksLoop_sorted less hT n blockSize n 0 blockSize d (by decide) (by omega) hn (by omega)
      (by unfold blockSize; omega)
    exact mergeLoop_sorted less hT n n blockSize _ (by decide) (by omega) (by unfold blockSize; omega) r3

end sorted

theorem get_of_lt [Inhabited α] (d : Array α) (k : Nat) (hk : k < d.size) : get d k = d[k] := by
  unfold get
  rw [Array.getD_eq_getD_getElem?, Array.getElem?_eq_getElem hk]
  rfl

theorem pairwise_of_S [Inhabited α] (less : α → α → Bool) (d : Array α) (h : S less d 0 d.size) :
    d.toList.Pairwise (fun a b => less a b = true) := by
  rw [List.pairwise_iff_getElem]
  intro i j hi hj hij
  have hi' : i < d.size := by simpa using hi
  have hj' : j < d.size := by simpa using hj
  have := h i j (by omega) hij hj'
  rw [get_of_lt d i hi', get_of_lt d j hj'] at this
  simpa using this

/-- **`sort.Stable` sorts** when `Less` is the non-strict version of a total preorder: every earlier element of the
    output is `less`-related to every later one -/
theorem goStable_sorted (less : α → α → Bool) (hT : TotalPreorder less) (l : List α) :
    (goStable less l).Pairwise (fun a b => less a b = true) := by
  cases l with
  | nil =>
    have := goStable_perm less ([] : List α)
    rw [List.perm_nil.mp this]
    exact List.Pairwise.nil
  | cons x xs =>
    haveI : Inhabited α := ⟨x⟩
    have hp := (goStable_perm less (x :: xs)).length_eq
    have hs := stable_sorted less hT (x :: xs).toArray (x :: xs).length (by simp)
    unfold goStable at hp ⊢
    have hsz : (stable less (x :: xs).toArray (x :: xs).length).size = (x :: xs).length := by
      simpa using hp
    exact pairwise_of_S less _ (hs.mono (Nat.le_refl 0) (Nat.le_of_eq hsz))

theorem fuzzyLess_totalPreorder : TotalPreorder (fun a b : Nat × Int => decide (a.2 ≥ b.2)) := by
  constructor
  · intro x y
    simp only [ge_iff_le, decide_eq_true_eq]
    omega
  · intro x y z
    simp only [ge_iff_le, decide_eq_true_eq]
    omega

/-- the fuzzy library's final sort permutes its matches -/
theorem fuzzyStable_perm (ms : List (Nat × Int)) : (fuzzyStable ms).Perm ms := goStable_perm _ ms

/-- **the fuzzy library's final sort sorts**: although its `Less` (`Score >=`) is not a strict order, the result of
    Go's `sort.Stable` is ordered by non-increasing score -/
theorem fuzzyStable_sorted (ms : List (Nat × Int)) : (fuzzyStable ms).Pairwise (fun a b => a.2 ≥ b.2) := by
  have := goStable_sorted _ fuzzyLess_totalPreorder ms
  exact this.imp (fun h => by simpa using h)

end Wtf.GoSort
