import WtfModel.Model.Search
import WtfModel.Proofs.ScoreLaws
/-
  Spine lemmas about the search pipeline shared by the C01/C03/C04/C07/C13 proofs:
  sorting, the score map, and how every later stage treats document ids.  Core Lean only.
-/
namespace Wtf.Search
open Text Index Filters ScoreOps ScoreLaws

variable {S : Type} [ScoreOps S]

/-! ### sortDesc -/
section sort
variable {α : Type} (key : α → S)

theorem sortDesc_perm (l : List α) : (sortDesc key l).Perm l := List.mergeSort_perm _ _

@[simp] theorem mem_sortDesc {a : α} {l : List α} : a ∈ sortDesc key l ↔ a ∈ l := List.mem_mergeSort

@[simp] theorem length_sortDesc (l : List α) : (sortDesc key l).length = l.length := List.length_mergeSort _

/-- the output is non-increasing in the key -/
theorem sortDesc_sorted [ScoreLaws S] (l : List α) :
    (sortDesc key l).Pairwise (fun a b => lt (key a) (key b) = false) := by
  have h := List.pairwise_mergeSort (le := fun a b => !(lt (key a) (key b)))
    (by intro a b c h1 h2
        simp only [Bool.not_eq_true', Bool.not_eq_eq_eq_not, Bool.not_true] at h1 h2 ⊢
        exact ScoreLaws.le_trans _ _ _ h1 h2)
    (by intro a b
        cases h : lt (key a) (key b) with
        | false => simp
        | true => simp [ScoreLaws.lt_asymm _ _ h]) l
  exact h.imp (by intro a b hab; simpa using hab)

theorem sortDesc_map_perm {β : Type} (f : α → β) (l : List α) : ((sortDesc key l).map f).Perm (l.map f) :=
  (sortDesc_perm key l).map f

theorem sortDesc_nodup_map {β : Type} (f : α → β) {l : List α} (h : (l.map f).Nodup) :
    ((sortDesc key l).map f).Nodup := (sortDesc_map_perm key f l).nodup_iff.mpr h

end sort

/-! ### the score map (addScore) -/

/-- keys strictly increasing -/
def KeysSorted (m : List (Nat × S)) : Prop := (m.map (·.1)).Pairwise (· < ·)

theorem keysSorted_nodup {m : List (Nat × S)} (h : KeysSorted m) : (m.map (·.1)).Nodup :=
  h.imp (fun hab => Nat.ne_of_lt hab)

theorem mem_keys_addScore (m : List (Nat × S)) (d : Nat) (x : S) (k : Nat) :
    k ∈ (addScore m d x).map (·.1) ↔ k = d ∨ k ∈ m.map (·.1) := by
  induction m with
  | nil => simp [addScore]
  | cons a rest ih =>
    obtain ⟨d', s⟩ := a
    simp only [addScore]
    split
    · rename_i h
      have : d' = d := by simpa using h
      subst this
      simp
    · split
      · simp
      · simp only [List.map_cons, List.mem_cons, ih]
        constructor
        · rintro (h | h | h) <;> simp [h]
        · rintro (h | h | h) <;> simp [h]

theorem keysSorted_addScore {m : List (Nat × S)} (h : KeysSorted m) (d : Nat) (x : S) :
    KeysSorted (addScore m d x) := by
  induction m with
  | nil => simp [addScore, KeysSorted]
  | cons a rest ih =>
    obtain ⟨d', s⟩ := a
    simp only [KeysSorted, List.map_cons, List.pairwise_cons] at h
    simp only [addScore]
    split
    · simpa [KeysSorted] using h
    · rename_i hne
      have hne' : d' ≠ d := by simpa using hne
      split
      · rename_i hlt
        simp only [KeysSorted, List.map_cons, List.pairwise_cons]
        refine ⟨?_, h⟩
        intro k hk
        simp only [List.mem_cons] at hk
        cases hk with
        | inl hk => omega
        | inr hk => have := h.1 k hk; omega
      · rename_i hnlt
        simp only [KeysSorted, List.map_cons, List.pairwise_cons]
        refine ⟨?_, ih h.2⟩
        intro k hk
        rw [mem_keys_addScore] at hk
        cases hk with
        | inl hk => omega
        | inr hk => exact h.1 k hk

end Wtf.Search

namespace Wtf.Search
open Text Index Filters ScoreOps ScoreLaws

variable {S : Type} [ScoreOps S]

/-! ### eligibility invariant of the score map -/

/-- document `d` exists in `db` and passes the platform / pipeline gate -/
def Eligible (T : Tuning S) (db : Db) (o : Opts S) (d : Nat) : Prop :=
  ∃ c, db[d]? = some c ∧ passes T.ri T.host o.filter c = true

def ScoresInv (T : Tuning S) (db : Db) (o : Opts S) (m : List (Nat × S)) : Prop :=
  KeysSorted m ∧ ∀ k ∈ m.map (·.1), Eligible T db o k

theorem scoresInv_nil (T : Tuning S) (db : Db) (o : Opts S) : ScoresInv T db o [] := by
  simp [ScoresInv, KeysSorted]

theorem processPostings_inv (T : Tuning S) (db : Db) (idx : Index) (tot : DocLens) (o : Opts S) (w : S)
    (ps : List Posting) (m : List (Nat × S)) (h : ScoresInv T db o m) :
    ScoresInv T db o (processPostings T db idx tot o w ps m) := by
  unfold processPostings
  induction ps generalizing m with
  | nil => exact h
  | cons p rest ih =>
    simp only [List.foldl_cons]
    apply ih
    split
    · exact h
    · rename_i c hc
      split
      · rename_i hp
        refine ⟨keysSorted_addScore h.1 _ _, ?_⟩
        intro k hk
        rw [mem_keys_addScore] at hk
        cases hk with
        | inl hk => subst hk; exact ⟨c, hc, hp⟩
        | inr hk => exact h.2 k hk
      · exact h

theorem initialScores_inv (T : Tuning S) (db : Db) (idx : Index) (o : Opts S) (pq : Option (NlpOut S))
    (terms : List Token) : ScoresInv T db o (initialScores T db idx o pq terms) := by
  unfold initialScores
  generalize termBoosts o pq = tb
  generalize sumLens idx.lens = tot
  suffices h : ∀ (m : List (Nat × S)), ScoresInv T db o m →
      ScoresInv T db o (terms.foldl (fun sc t =>
        match look idx.postings t with
        | none => sc
        | some ps =>
          let idf := T.idf idx.n ((look idx.df t).getD 0)
          if lt idf T.params.minIDF then sc
          else processPostings T db idx tot o (mul idf (boostOf tb t)) ps sc) m) from h [] (scoresInv_nil T db o)
  induction terms with
  | nil => intro m hm; exact hm
  | cons t rest ih =>
    intro m hm
    simp only [List.foldl_cons]
    apply ih
    split
    · exact hm
    · split
      · exact hm
      · exact processPostings_inv T db idx tot o _ _ m hm

/-! ### how the later stages treat ids: each is a sub-multiset of the collected candidates -/

/-- the ids of `collect` are exactly the keys of the score map when every key is a valid document -/
theorem collect_ids (T : Tuning S) (db : Db) (o : Opts S) (pq : Option (NlpOut S)) (m : List (Nat × S))
    (h : ∀ k ∈ m.map (·.1), ∃ c, db[k]? = some c) : (collect T db o pq m).map (·.1) = m.map (·.1) := by
  unfold collect
  induction m with
  | nil => rfl
  | cons a rest ih =>
    obtain ⟨d, s⟩ := a
    obtain ⟨c, hc⟩ := h d (by simp)
    have ih' := ih (fun k hk => h k (by simp [hk]))
    simp only [List.filterMap_cons, hc, List.map_cons]
    rw [ih']

theorem rerank_ids_sublist (T : Tuning S) (nq : Bytes) (limit : Nat) (r : List (Nat × S)) :
    ∃ l, l.Sublist (r.map (·.1)) ∧ ((rerank T nq limit r).map (·.1)).Perm l := by
  unfold rerank
  split
  · exact ⟨_, List.Sublist.refl _, List.Perm.refl _⟩
  · refine ⟨(r.take (max (limit * rerankMult) rerankMin)).map (·.1), (List.take_sublist _ _).map _, ?_⟩
    refine (sortDesc_map_perm _ _ _).trans ?_
    rw [List.map_map]
    apply List.Perm.of_eq
    apply List.map_congr_left
    intro x _
    obtain ⟨d, s⟩ := x
    simp only [Function.comp]
    split <;> rfl

theorem cascade_ids_perm (n : NlpOut S) (r : List (Nat × S)) :
    ((cascadeStage n r).map (·.1)).Perm (r.map (·.1)) := by
  unfold cascadeStage
  split
  · exact List.Perm.refl _
  · refine (sortDesc_map_perm _ _ _).trans ?_
    rw [List.map_map]
    exact List.Perm.of_eq (List.map_congr_left (fun x _ => rfl))

end Wtf.Search
