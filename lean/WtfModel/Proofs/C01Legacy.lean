import WtfModel.Model.Legacy
import WtfModel.Proofs.C01Search
/-
  C01 for the legacy pipeline search, the recovery searches and the CLI step.  Core Lean only.
-/
namespace Wtf.Legacy
open Text Filters ScoreOps ScoreLaws GoStr Search

variable {S : Type} [ScoreOps S]

/-- strictly increasing positions in `[i, i+len)` -/
def IncFrom (i len : Nat) (r : List (Nat × S)) : Prop :=
  (r.map (·.1)).Pairwise (· < ·) ∧ ∀ x ∈ r, i ≤ x.1 ∧ x.1 < i + len

omit [ScoreOps S] in
theorem incFrom_nil (i len : Nat) : IncFrom i len ([] : List (Nat × S)) := by simp [IncFrom]

omit [ScoreOps S] in
theorem incFrom_skip {i len : Nat} {r : List (Nat × S)} (h : IncFrom (i + 1) len r) : IncFrom i (len + 1) r := by
  refine ⟨h.1, fun x hx => ?_⟩
  have := h.2 x hx; omega

omit [ScoreOps S] in
theorem incFrom_cons {i len : Nat} {r : List (Nat × S)} (s : S) (h : IncFrom (i + 1) len r) :
    IncFrom i (len + 1) ((i, s) :: r) := by
  constructor
  · simp only [List.map_cons, List.pairwise_cons]
    refine ⟨?_, h.1⟩
    intro k hk
    rw [List.mem_map] at hk
    obtain ⟨x, hx, rfl⟩ := hk
    have := h.2 x hx; omega
  · intro x hx
    simp only [List.mem_cons] at hx
    cases hx with
    | inl hx => subst hx; simp only; omega
    | inr hx => have := h.2 x hx; omega

omit [ScoreOps S] in
theorem idsOK_of_incFrom {n : Nat} {r : List (Nat × S)} (h : IncFrom 0 n r) : IdsOK n r :=
  ⟨h.1.imp (fun hab => Nat.ne_of_lt hab), fun x hx => by have := h.2 x hx; omega⟩

/-! ### SearchWithPipelineOptions -/

theorem pipelineScan_spec (ri : RuneInfo) (score : Nat → S) (po : Bool) (pb : S) (db : Db) (i : Nat) :
    IncFrom i db.length (pipelineScan ri score po pb i db) ∧
    ∀ x ∈ pipelineScan ri score po pb i db, lt (zero : S) x.2 = true := by
  induction db generalizing i with
  | nil => simp [pipelineScan, IncFrom]
  | cons c rest ih =>
    obtain ⟨h1, h2⟩ := ih (i + 1)
    simp only [pipelineScan, List.length_cons]
    split
    · exact ⟨incFrom_skip h1, h2⟩
    · generalize (if (isPipeline ri c && lt zero pb) = true then mul (score i) pb else score i) = s
      split
      · rename_i hpos
        refine ⟨incFrom_cons _ h1, ?_⟩
        intro x hx
        simp only [List.mem_cons] at hx
        cases hx with
        | inl hx => subst hx; exact hpos
        | inr hx => exact h2 x hx
      · exact ⟨incFrom_skip h1, h2⟩

theorem sortAndLimit_post [ScoreLaws S] {n : Nat} {r : List (Nat × S)} (hi : IdsOK n r) (hn : AllNonneg r) (limit : Nat) :
    Post n limit (sortAndLimit r limit) := by
  unfold sortAndLimit
  have i1 := idsOK_take (idsOK_sortDesc hi) limit
  exact ⟨List.length_take_le _ _, i1.2, i1.1,
    (sortDesc_sorted (S := S) (fun x : Nat × S => x.2) r).sublist (List.take_sublist _ _),
    allNonneg_take (allNonneg_sortDesc hn) limit⟩

theorem searchLegacyPipeline_post [ScoreLaws S] (ri : RuneInfo) (score : Nat → S) (db : Db) (o : Opts S) :
    Post db.length (legacyLimit o.limit) (searchLegacyPipeline ri score db o) := by
  unfold searchLegacyPipeline
  obtain ⟨h1, h2⟩ := pipelineScan_spec ri score o.pipelineOnly o.pipelineBoost db 0
  exact sortAndLimit_post (idsOK_of_incFrom h1) (fun x hx => pos_nonneg (h2 x hx)) _

/-- every answer of the legacy pipeline search has a strictly positive score (`if score > 0`) -/
theorem searchLegacyPipeline_pos (ri : RuneInfo) (score : Nat → S) (db : Db) (o : Opts S) :
    ∀ x ∈ searchLegacyPipeline ri score db o, lt (zero : S) x.2 = true := by
  intro x hx
  unfold searchLegacyPipeline sortAndLimit at hx
  have hx := (mem_sortDesc _).mp (List.mem_of_mem_take hx)
  exact (pipelineScan_spec ri score o.pipelineOnly o.pipelineBoost db 0).2 x hx

/-! ### recovery searches -/

omit [ScoreOps S] in
theorem scan_spec (p : Cmd → Bool) (s : S) (db : Db) (i : Nat) :
    IncFrom i db.length (scan p s i db) ∧ ∀ x ∈ scan p s i db, x.2 = s := by
  induction db generalizing i with
  | nil => simp [scan, IncFrom]
  | cons c rest ih =>
    obtain ⟨h1, h2⟩ := ih (i + 1)
    simp only [scan, List.length_cons]
    split
    · refine ⟨incFrom_cons _ h1, ?_⟩
      intro x hx
      simp only [List.mem_cons] at hx
      cases hx with
      | inl hx => subst hx; rfl
      | inr hx => exact h2 x hx
    · exact ⟨incFrom_skip h1, h2⟩

/-- a recovered answer: positions strictly increasing and valid, one constant non-negative score -/
def ScanLike [ScoreLaws S] (n : Nat) (r : List (Nat × S)) : Prop :=
  IncFrom 0 n r ∧ ∃ s : S, Nonneg s ∧ ∀ x ∈ r, x.2 = s

theorem recover_scanLike [ScoreLaws S] (ri : RuneInfo) (db : Db) (q : Bytes) :
    ScanLike db.length (recover (S := S) ri db q) := by
  have nil : ScanLike (S := S) db.length [] := ⟨incFrom_nil _ _, zero, zero_nonneg, by simp⟩
  unfold recover
  simp only
  split
  · obtain ⟨h1, h2⟩ := scan_spec (S := S) (fun c => containsB c.commandLower (toLower ri q)) (ofQ basicScore) db 0
    exact ⟨h1, _, ofQ_nonneg _ (by decide) (by decide), h2⟩
  · split
    · unfold singleWordSearch
      split
      · exact nil
      · rename_i w _ _
        obtain ⟨h1, h2⟩ := scan_spec (S := S) (fun c => containsB c.commandLower w || containsB c.descriptionLower w)
          (ofQ singleWordScore) db 0
        exact ⟨h1, _, ofQ_nonneg _ (by decide) (by decide), h2⟩
    · unfold partialMatchSearch
      obtain ⟨h1, h2⟩ := scan_spec (S := S) (fun c => (fields ri (toLower ri q)).any (fun w => decide (2 ≤ w.length) &&
        (containsB c.commandLower w || containsB c.descriptionLower w))) (ofQ partialScore) db 0
      exact ⟨h1, _, ofQ_nonneg _ (by decide) (by decide), h2⟩

omit [ScoreOps S] in
theorem incFrom_sublist {i len : Nat} {r r' : List (Nat × S)} (h : IncFrom i len r) (hs : r'.Sublist r) : IncFrom i len r' :=
  ⟨h.1.sublist (hs.map _), fun x hx => h.2 x (hs.subset hx)⟩

theorem scanLike_sublist [ScoreLaws S] {n : Nat} {r r' : List (Nat × S)} (h : ScanLike n r) (hs : r'.Sublist r) :
    ScanLike n r' := by
  obtain ⟨hinc, s, hs0, hall⟩ := h
  exact ⟨incFrom_sublist hinc hs, s, hs0, fun x hx => hall x (hs.subset hx)⟩

theorem filterResults_scanLike [ScoreLaws S] (T : Tuning S) (db : Db) (o : Opts S) {n : Nat} {r : List (Nat × S)}
    (h : ScanLike n r) : ScanLike n (filterResults T db o r) :=
  scanLike_sublist h List.filter_sublist

theorem scanLike_post [ScoreLaws S] {n : Nat} {r : List (Nat × S)} (h : ScanLike n r) (k : Nat) :
    Post n k (r.take k) := by
  obtain ⟨hinc, s, hs, hall⟩ := h
  have i1 := idsOK_take (idsOK_of_incFrom hinc) k
  refine ⟨List.length_take_le _ _, i1.2, i1.1, ?_, ?_⟩
  · apply List.Pairwise.sublist (List.take_sublist _ _)
    rw [List.pairwise_iff_forall_sublist]
    intro a b hab
    have ha : a ∈ r := hab.subset (by simp)
    have hb : b ∈ r := hab.subset (by simp)
    rw [hall a ha, hall b hb]; exact lt_irrefl _
  · intro x hx
    rw [hall x (List.mem_of_mem_take hx)]; exact hs

/-! ### the CLI step -/

theorem truncate_post [ScoreLaws S] {n : Nat} {rc r : List (Nat × S)} (h : ScanLike n rc) (limit : Int)
    (ht : truncate rc limit = .ok r) : Post n limit.toNat r ∨ (r = rc ∧ (rc.length : Int) ≤ limit) := by
  unfold truncate at ht
  split at ht
  · split at ht
    · cases ht
    · simp only [Except.ok.injEq] at ht; subst ht; exact .inl (scanLike_post h _)
  · rename_i hle
    simp only [Except.ok.injEq] at ht; subst ht; exact .inr ⟨rfl, by omega⟩

theorem cliResults_post [ScoreLaws S] (T : Tuning S) (hT : TuningWF T) (db : Db) (q : Bytes) (o : Opts S)
    (hl : 0 < o.limit) (r : List (Nat × S)) (h : cliResults T db q o = .ok r) :
    Post db.length (effLimit o) r := by
  unfold cliResults at h
  split at h
  · cases h
  · rename_i r0 hs
    have hp0 := search_post T hT db q o r0 hs
    split at h
    · simp only [Except.ok.injEq] at h; subst h; exact hp0
    · simp only at h
      split at h
      · have hsl := filterResults_scanLike T db o (recover_scanLike (S := S) T.ri db q)
        have heff : effLimit o = o.limit.toNat := by
          unfold effLimit
          have : ¬ o.limit ≤ 0 := by omega
          simp [this]
        rcases truncate_post hsl o.limit h with hp | ⟨he, hlen⟩
        · rw [heff]; exact hp
        · subst he
          have := scanLike_post hsl (effLimit o)
          rw [List.take_of_length_le (by rw [heff]; omega)] at this
          exact this
      · simp only [Except.ok.injEq] at h; subst h; exact hp0

/-- the recovered list is cut with a Go slice expression: no panic for the limits the CLI passes -/
theorem cliResults_no_slice_panic (T : Tuning S) (db : Db) (q : Bytes) (o : Opts S) (hl : 0 ≤ o.limit) :
    cliResults T db q o ≠ .error .sliceBounds := by
  unfold cliResults
  split
  · intro h; cases h
  · split
    · intro h; cases h
    · simp only
      split
      · unfold truncate
        split
        · have : ¬ o.limit < 0 := by omega
          simp [this]
        · intro h; cases h
      · intro h; cases h

theorem cliLimit_pos (cd flag l : Int) (hcd : 0 < cd) (h : cliLimit cd flag = some l) : 0 < l := by
  unfold cliLimit at h
  split at h
  · cases h
  · simp only [Option.some.injEq] at h
    subst h
    generalize (if (flag == 0) = true then Gen.Constants.DefaultSearchLimit else flag) = v
    split
    · assumption
    · exact hcd

end Wtf.Legacy
