import WtfModel.Proofs.SearchBasic
/-
  The two-exit structure of `search` (SearchUniversal): a *lexical* answer (BM25F over the index, with the
  NLP stages when enabled) or — on exactly the two "nothing" exits (no terms / no scored document) —
  the typo fallback when it is enabled, otherwise the empty answer.  Plus: every id of a lexical answer
  is a key of the score map, and what `fuzzyCollect` can append.  Core Lean only.
  Used by C04 (filters on every path) and C07 (fallback only when nothing matches).
-/
namespace Wtf.Search
open Text Index Filters ScoreOps ScoreLaws

/-- the lexical answer if there is one, else the fallback -/
def orElse {α ε : Type} (l : Option α) (fb : Except ε α) : Except ε α :=
  match l with
  | some r => .ok r
  | none => fb

theorem ite_ite_eq_orElse {α ε : Type} (c d : Prop) [Decidable c] [Decidable d] (A : Except ε α) (X : α) :
    (if c then A else if d then A else .ok X) =
      orElse (if c then none else if d then none else some X) A := by
  by_cases hc : c <;> by_cases hd : d <;> simp [hc, hd, orElse]

theorem ite_ite_some {α : Type} (c d : Prop) [Decidable c] [Decidable d] (X r : α)
    (h : (if c then none else if d then none else some X) = some r) : ¬c ∧ ¬d ∧ X = r := by
  by_cases hc : c <;> by_cases hd : d <;> simp [hc, hd] at h ⊢
  exact h

variable {S : Type} [ScoreOps S]

/-- the lexical / NLP answer, `none` on the two "nothing" exits of SearchUniversal -/
def lexical (T : Tuning S) (db : Db) (q : Bytes) (o : Opts S) : Option (List (Nat × S)) :=
  let idx := build db
  let limit := effLimit o
  let nq := T.normQ q
  let terms0 := tokenize nq
  let pq : Option (NlpOut S) := if o.useNLP then some (T.nlp nq) else none
  let terms1 := match pq with | some n => enhanceTerms terms0 n.enhanced | none => terms0
  if terms1.isEmpty then none else
  let terms := selectTopTerms T idx terms1 (effCap o)
  let scores := initialScores T db idx o pq terms
  if scores.isEmpty then none else
  let r0 := sortDesc (·.2) (collect T db o pq scores)
  let r1 := if o.useNLP then rerank T nq limit r0 else r0
  let r2 := match pq with | some n => cascadeStage n r1 | none => r1
  some (r2.take limit)

/-- what SearchUniversal returns on the "nothing" exits -/
def fallback (T : Tuning S) (db : Db) (q : Bytes) (o : Opts S) : Except Fuzzy.Panic (List (Nat × S)) :=
  if o.useFuzzy then fuzzySearch T db (T.normQ q) o (effLimit o) else .ok []

/-- `search` = the lexical answer if there is one, else the fallback -/
theorem search_eq (T : Tuning S) (db : Db) (q : Bytes) (o : Opts S) :
    search T db q o = orElse (lexical T db q o) (fallback T db q o) :=
  ite_ite_eq_orElse _ _ _ _

/-- the lexical answer does not look at `useFuzzy` -/
theorem lexical_useFuzzy (T : Tuning S) (db : Db) (q : Bytes) (o : Opts S) (b : Bool) :
    lexical T db q { o with useFuzzy := b } = lexical T db q o := rfl

/-! ### ids of a lexical answer are keys of the score map -/

theorem rerank_ids_subset (T : Tuning S) (nq : Bytes) (limit : Nat) (r : List (Nat × S)) {d : Nat}
    (h : d ∈ (rerank T nq limit r).map (·.1)) : d ∈ r.map (·.1) := by
  obtain ⟨l, hsub, hperm⟩ := rerank_ids_sublist T nq limit r
  exact hsub.subset (hperm.mem_iff.mp h)

theorem cascade_ids_subset (n : NlpOut S) (r : List (Nat × S)) {d : Nat}
    (h : d ∈ (cascadeStage n r).map (·.1)) : d ∈ r.map (·.1) :=
  (cascade_ids_perm n r).mem_iff.mp h

/-- the post-scoring stages only drop or reorder: every id of their output is a key of the score map -/
theorem stages_ids (T : Tuning S) (db : Db) (o : Opts S) (pq : Option (NlpOut S)) (nq : Bytes) (limit : Nat)
    (scores : List (Nat × S)) (hinv : ScoresInv T db o scores) (x : Nat × S)
    (hx : x ∈ (match pq with
      | some n => cascadeStage n (if o.useNLP then rerank T nq limit (sortDesc (·.2) (collect T db o pq scores))
                                  else sortDesc (·.2) (collect T db o pq scores))
      | none => (if o.useNLP then rerank T nq limit (sortDesc (·.2) (collect T db o pq scores))
                                  else sortDesc (·.2) (collect T db o pq scores))).take limit) :
    x.1 ∈ scores.map (·.1) := by
  have hcol : (collect T db o pq scores).map (·.1) = scores.map (·.1) :=
    collect_ids T db o pq scores (fun k hk => let ⟨c, hc, _⟩ := hinv.2 k hk; ⟨c, hc⟩)
  have key : x.1 ∈ (sortDesc (·.2) (collect T db o pq scores)).map (·.1) → x.1 ∈ scores.map (·.1) := by
    intro h0
    have := (sortDesc_map_perm (fun y : Nat × S => y.2) (·.1) (collect T db o pq scores)).mem_iff.mp h0
    rwa [hcol] at this
  have hx1 := List.mem_map_of_mem (f := fun y : Nat × S => y.1) hx
  rw [List.map_take] at hx1
  have hx2 := List.mem_of_mem_take hx1
  apply key
  cases pq with
  | none =>
    simp only at hx2
    split at hx2
    · exact rerank_ids_subset _ _ _ _ hx2
    · exact hx2
  | some n =>
    simp only at hx2
    have hx3 := cascade_ids_subset _ _ hx2
    split at hx3
    · exact rerank_ids_subset _ _ _ _ hx3
    · exact hx3

/-- every document of a lexical answer exists and passed the platform / pipeline gate -/
theorem lexical_eligible (T : Tuning S) (db : Db) (q : Bytes) (o : Opts S) {r : List (Nat × S)}
    (h : lexical T db q o = some r) : ∀ x ∈ r, Eligible T db o x.1 := by
  obtain ⟨_, _, hr⟩ := ite_ite_some _ _ _ _ h
  subst hr
  intro x hx
  have hinv := initialScores_inv T db (build db) o (if o.useNLP then some (T.nlp (T.normQ q)) else none)
    (selectTopTerms T (build db)
      (match (if o.useNLP then some (T.nlp (T.normQ q)) else none : Option (NlpOut S)) with
        | some n => enhanceTerms (tokenize (T.normQ q)) n.enhanced
        | none => tokenize (T.normQ q)) (effCap o))
  exact hinv.2 _ (stages_ids T db o _ (T.normQ q) (effLimit o) _ hinv x hx)

/-- a lexical answer is never empty-handed by accident: it exists only if some document was scored -/
theorem lexical_none_or (T : Tuning S) (db : Db) (q : Bytes) (o : Opts S) :
    lexical T db q o = none ∨ ∃ r, lexical T db q o = some r := by
  cases lexical T db q o with
  | none => exact Or.inl rfl
  | some r => exact Or.inr ⟨r, rfl⟩

/-! ### the typo fallback: what `fuzzyCollect` appends -/

/-- an entry appended by `fuzzyCollect` for match `(i, sc)` of the library -/
def FuzzyEntry (T : Tuning S) (db : Db) (o : Opts S) (ms : List (Nat × Int)) (x : Nat × S) : Prop :=
  ∃ sc, (x.1, sc) ∈ ms ∧ Eligible T db o x.1 ∧ (o.fuzzyThreshold ≠ 0 → o.fuzzyThreshold ≤ sc) ∧
    x.2 = normalizeFuzzy sc

theorem fuzzyCollect_mem (T : Tuning S) (db : Db) (o : Opts S) (cap : Nat) (ms : List (Nat × Int))
    (acc : List (Nat × S)) : ∀ x ∈ fuzzyCollect T db o cap ms acc, x ∈ acc ∨ FuzzyEntry T db o ms x := by
  induction ms generalizing acc with
  | nil => intro x hx; simp only [fuzzyCollect, List.mem_reverse] at hx; exact Or.inl hx
  | cons m rest ih =>
    obtain ⟨i, sc⟩ := m
    intro x hx
    have lift : (x ∈ acc ∨ FuzzyEntry T db o rest x) → (x ∈ acc ∨ FuzzyEntry T db o ((i, sc) :: rest) x) := by
      rintro (h | ⟨s, hs, he⟩)
      · exact Or.inl h
      · exact Or.inr ⟨s, List.mem_cons_of_mem _ hs, he⟩
    unfold fuzzyCollect at hx
    split at hx
    · simp at hx; exact Or.inl hx
    · split at hx
      · exact lift (ih acc x hx)
      · rename_i c hc
        split at hx
        · exact lift (ih acc x hx)
        · rename_i hp
          split at hx
          · exact lift (ih acc x hx)
          · rename_i hthr
            rcases ih _ x hx with h | h
            · simp only [List.mem_cons] at h
              rcases h with h | h
              · refine Or.inr ⟨sc, ?_, ⟨c, ?_, ?_⟩, ?_, ?_⟩
                · simp [h]
                · simpa [h] using hc
                · simpa using hp
                · intro h0
                  have hb : (o.fuzzyThreshold != 0) = true := by simpa using h0
                  simp only [hb, Bool.true_and, decide_eq_true_eq] at hthr
                  omega
                · simp [h]
              · exact Or.inl h
            · exact lift (Or.inr h)

/-- every result of the typo fallback exists in the database and passed the gate -/
theorem fuzzySearch_entries (T : Tuning S) (db : Db) (nq : Bytes) (o : Opts S) (limit : Nat)
    {r : List (Nat × S)} (h : fuzzySearch T db nq o limit = .ok r) :
    ∃ ms, Fuzzy.findNoSort T.ri nq (db.map fuzzyTarget) = .ok ms ∧
      r = (fuzzyCollect T db o (limit * fuzzyMult) (T.fuzzySort ms) []).take limit ∧
      ∀ x ∈ r, FuzzyEntry T db o (T.fuzzySort ms) x := by
  unfold fuzzySearch at h
  split at h
  · cases h
  · rename_i ms hms
    injection h with h
    refine ⟨ms, hms, h.symm, ?_⟩
    intro x hx
    rw [← h] at hx
    rcases fuzzyCollect_mem T db o _ _ [] x (List.mem_of_mem_take hx) with h0 | h0
    · cases h0
    · exact h0

theorem fuzzySearch_eligible (T : Tuning S) (db : Db) (nq : Bytes) (o : Opts S) (limit : Nat)
    {r : List (Nat × S)} (h : fuzzySearch T db nq o limit = .ok r) : ∀ x ∈ r, Eligible T db o x.1 := by
  obtain ⟨ms, _, _, hall⟩ := fuzzySearch_entries T db nq o limit h
  intro x hx
  obtain ⟨_, _, he, _⟩ := hall x hx
  exact he

end Wtf.Search
