import WtfModel.Model.LegacyEntry
import WtfModel.Proofs.C01Fuzzy
/-
  Gate lemmas for the modelled legacy entry points (Model/LegacyEntry.lean) that C04 needs: which commands
  the loops of SearchWithPipelineOptions / SearchWithOptions can append, what combineAndDeduplicateResults
  keeps, and the gate of the typo half.  Kept free of the C01 proof files so that both Props/C01b.lean and
  Props/C04b.lean can import it.  Core Lean only.
-/
namespace Wtf.LegacyEntry
open Text GoStr ScoreOps ScoreLaws Filters Search Legacy LegacyScore

variable {S : Type} [ScoreOps S]

/-! ### the scan over `db.Commands` -/

omit [ScoreOps S] in
theorem scanWith_mem (f : Cmd → Option S) (db : Db) (i : Nat) :
    ∀ x ∈ scanWith f i db, i ≤ x.1 ∧ ∃ c, db[x.1 - i]? = some c ∧ f c = some x.2 := by
  induction db generalizing i with
  | nil => simp [scanWith]
  | cons c rest ih =>
    have tail : ∀ x ∈ scanWith f (i + 1) rest, i ≤ x.1 ∧ ∃ c', (c :: rest)[x.1 - i]? = some c' ∧ f c' = some x.2 := by
      intro x hx
      obtain ⟨hge, c', hc', hf⟩ := ih (i + 1) x hx
      refine ⟨by omega, c', ?_, hf⟩
      have : x.1 - i = (x.1 - (i + 1)) + 1 := by omega
      rw [this, List.getElem?_cons_succ]; exact hc'
    simp only [scanWith]
    split
    · rename_i s hs
      intro x hx
      simp only [List.mem_cons] at hx
      cases hx with
      | inl hx => subst hx; exact ⟨Nat.le_refl _, c, by simp, hs⟩
      | inr hx => exact tail x hx
    · exact tail

omit [ScoreOps S] in
theorem scanWith_mem_zero (f : Cmd → Option S) (db : Db) :
    ∀ x ∈ scanWith f 0 db, ∃ c, db[x.1]? = some c ∧ f c = some x.2 := by
  intro x hx
  simpa using (scanWith_mem f db 0 x hx).2

theorem mem_sortAndLimit {l : List (Nat × S)} {n : Nat} {x : Nat × S} (h : x ∈ sortAndLimit l n) : x ∈ l :=
  (mem_sortDesc _).mp (List.mem_of_mem_take h)

/-! ### SearchWithPipelineOptions (modelled scorer) -/

/-- the score SearchWithPipelineOptions tests against 0 -/
def pipelineValue (fin : S → S) (ri : RuneInfo) (boosts : List (Bytes × S)) (words : List Bytes) (pb : S) (c : Cmd) : S :=
  if isPipeline ri c && lt zero pb then fin (mul (calculateScore fin ri boosts c words) pb)
  else calculateScore fin ri boosts c words

theorem pipelineScore_eq (fin : S → S) (ri : RuneInfo) (boosts : List (Bytes × S)) (words : List Bytes) (po : Bool)
    (pb : S) (c : Cmd) : pipelineScore fin ri boosts words po pb c =
      if po && !isPipeline ri c then none
      else if lt zero (pipelineValue fin ri boosts words pb c) then some (pipelineValue fin ri boosts words pb c) else none := rfl

theorem pipelineScore_some {fin : S → S} {ri : RuneInfo} {boosts : List (Bytes × S)} {words : List Bytes} {po : Bool}
    {pb : S} {c : Cmd} {s : S} (h : pipelineScore fin ri boosts words po pb c = some s) :
    lt (zero : S) s = true ∧ (po = true → isPipeline ri c = true) := by
  rw [pipelineScore_eq] at h
  split at h
  · cases h
  · rename_i hg
    split at h
    · rename_i hpos
      simp only [Option.some.injEq] at h
      subst h
      refine ⟨hpos, fun hpo => ?_⟩
      cases hp : isPipeline ri c with
      | true => rfl
      | false => simp [hpo, hp] at hg
    · cases h

/-- C04, pipeline clause -/
theorem searchPipeline_gate (fin : S → S) (ri : RuneInfo) (db : Db) (q : Bytes) (o : Opts S) (hpo : o.pipelineOnly = true) :
    ∀ x ∈ searchPipeline fin ri db q o, ∃ c, db[x.1]? = some c ∧ isPipeline ri c = true := by
  intro x hx
  obtain ⟨c, hc, hf⟩ := scanWith_mem_zero _ db x (mem_sortAndLimit hx)
  exact ⟨c, hc, (pipelineScore_some hf).2 hpo⟩

/-! ### SearchWithOptions -/

/-- the filter switches SearchWithOptions implements: the host, nothing requested, cross-platform entries allowed -/
def hostOnly : FilterOpts := { allPlatforms := false, platforms := [], noCross := false, pipelineOnly := false }

def platformValue (fin : S → S) (ri : RuneInfo) (boosts : List (Bytes × S)) (words : List Bytes) (c : Cmd) : S :=
  mul (calculateScore fin ri boosts c words) (ofQ Gen.LegacyScore.crossPlatformPenalty)

theorem platformScore_eq (fin : S → S) (ri : RuneInfo) (host : Bytes) (boosts : List (Bytes × S)) (words : List Bytes) (c : Cmd) :
    platformScore fin ri host boosts words c =
      if !c.platform.isEmpty && !hostDeclared ri host c then
        (if crossTool ri c.command then
          (if lt zero (platformValue fin ri boosts words c) then some (platformValue fin ri boosts words c) else none)
         else none)
      else if lt zero (calculateScore fin ri boosts c words) then some (calculateScore fin ri boosts c words) else none := rfl

theorem platformScore_some {fin : S → S} {ri : RuneInfo} {host : Bytes} {boosts : List (Bytes × S)} {words : List Bytes}
    {c : Cmd} {s : S} (h : platformScore fin ri host boosts words c = some s) :
    lt (zero : S) s = true ∧ (c.platform.isEmpty = true ∨ hostDeclared ri host c = true ∨ crossTool ri c.command = true) := by
  rw [platformScore_eq] at h
  split at h
  · split at h
    · rename_i hct
      split at h
      · rename_i hpos
        simp only [Option.some.injEq] at h
        subst h
        exact ⟨hpos, .inr (.inr hct)⟩
      · cases h
    · cases h
  · rename_i hg
    split at h
    · rename_i hpos
      simp only [Option.some.injEq] at h
      subst h
      refine ⟨hpos, ?_⟩
      cases he : c.platform.isEmpty with
      | true => exact .inl rfl
      | false =>
        cases hd : hostDeclared ri host c with
        | true => exact .inr (.inl rfl)
        | false => simp [he, hd] at hg
    · cases h
/-- what the loop of (db).calculateCommandScore accepts is accepted by the engine's gate `platformOK`
    for the host with no platform request -/
theorem platformOK_of_admitted (ri : RuneInfo) (host : Bytes) (c : Cmd)
    (h : c.platform.isEmpty = true ∨ hostDeclared ri host c = true ∨ crossTool ri c.command = true) :
    platformOK ri host hostOnly c = true := by
  unfold platformOK hostOnly
  simp only [Bool.not_false, Bool.true_and, inForce, List.isEmpty_nil, ↓reduceIte, Bool.false_or]
  split
  · rename_i hne
    rcases h with h | h | h
    · simp [h] at hne
    · -- some tag is the cross tag or folds to the host
      unfold hostDeclared at h
      rw [List.any_eq_true] at h
      obtain ⟨p, hp, hpp⟩ := h
      cases hct : isCrossTag ri p with
      | true =>
        have : (c.platform.any (isCrossTag ri)) = true := List.any_eq_true.mpr ⟨p, hp, hct⟩
        simp [this]
      | false =>
        have heq : equalFold ri p host = true := by simpa [hct] using hpp
        have : (c.platform.any (fun p => !isCrossTag ri p && declares ri [host] p)) = true := by
          rw [List.any_eq_true]
          refine ⟨p, hp, ?_⟩
          simp [hct, declares, heq]
        simp [this]
    · simp [h]
  · rfl

/-- C04, platform clause for the host: every result passes the engine's platform gate -/
theorem searchWithOptions_platform (fin : S → S) (ri : RuneInfo) (host : Bytes) (db : Db) (q : Bytes) (limit : Int)
    (boosts : List (Bytes × S)) :
    ∀ x ∈ searchWithOptions fin ri host db q limit boosts, ∃ c, db[x.1]? = some c ∧ platformOK ri host hostOnly c = true := by
  intro x hx
  obtain ⟨c, hc, hf⟩ := scanWith_mem_zero _ db x (mem_sortAndLimit hx)
  exact ⟨c, hc, platformOK_of_admitted ri host c (platformScore_some hf).2⟩

/-! ### combineAndDeduplicateResults -/

omit [ScoreOps S] in
theorem dedupLoop_spec (db : Db) (f : S → S) : ∀ (l : List (Nat × S)) (seen : List Bytes),
    ((dedupLoop db f seen l).1.map (·.1)).Sublist (l.map (·.1)) ∧
    (∀ x ∈ (dedupLoop db f seen l).1, dedupKey db x.1 ∉ seen) ∧
    ((dedupLoop db f seen l).1.map (fun x => dedupKey db x.1)).Nodup ∧
    (∀ k, k ∈ (dedupLoop db f seen l).2 ↔ (k ∈ seen ∨ k ∈ (dedupLoop db f seen l).1.map (fun x => dedupKey db x.1))) ∧
    (∀ x ∈ (dedupLoop db f seen l).1, ∃ y ∈ l, x = (y.1, f y.2))
  | [], seen => by simp [dedupLoop]
  | r :: rest, seen => by
    simp only [dedupLoop]
    split
    · obtain ⟨h1, h2, h3, h4, h5⟩ := dedupLoop_spec db f rest seen
      refine ⟨?_, h2, h3, h4, ?_⟩
      · simp only [List.map_cons]; exact h1.cons _
      · intro x hx
        obtain ⟨y, hy, he⟩ := h5 x hx
        exact ⟨y, List.mem_cons_of_mem _ hy, he⟩
    · rename_i hns
      have hk : dedupKey db r.1 ∉ seen := by
        intro hm
        exact hns (List.contains_iff_mem.mpr hm)
      obtain ⟨h1, h2, h3, h4, h5⟩ := dedupLoop_spec db f rest (dedupKey db r.1 :: seen)
      refine ⟨?_, ?_, ?_, ?_, ?_⟩
      · simp only [List.map_cons]; exact h1.cons_cons _
      · intro x hx
        simp only [List.mem_cons] at hx
        cases hx with
        | inl hx => subst hx; exact hk
        | inr hx => exact fun hm => h2 x hx (List.mem_cons_of_mem _ hm)
      · simp only [List.map_cons, List.nodup_cons]
        refine ⟨?_, h3⟩
        intro hm
        rw [List.mem_map] at hm
        obtain ⟨x, hx, he⟩ := hm
        exact h2 x hx (by rw [he]; exact List.mem_cons_self)
      · intro k
        rw [h4 k]
        simp only [List.mem_cons, List.map_cons]
        constructor
        · rintro ((h | h) | h)
          · exact .inr (.inl h)
          · exact .inl h
          · exact .inr (.inr h)
        · rintro (h | h | h)
          · exact .inl (.inr h)
          · exact .inl (.inl h)
          · exact .inr h
      · intro x hx
        simp only [List.mem_cons] at hx
        cases hx with
        | inl hx => exact ⟨r, List.mem_cons_self, hx⟩
        | inr hx =>
          obtain ⟨y, hy, he⟩ := h5 x hx
          exact ⟨y, List.mem_cons_of_mem _ hy, he⟩

/-- the two parts of `combined`: what is kept of the exact results, then what is kept of the typo results -/
def exactPart (db : Db) (exact : List (Nat × S)) : List (Nat × S) := (dedupLoop db (fun s => s) [] exact).1

def typoPart (db : Db) (exact fuzzy : List (Nat × S)) : List (Nat × S) :=
  (dedupLoop db (fun s => mul s (ofQ Gen.LegacyScore.fuzzyDiscount)) (dedupLoop db (fun s => s) [] exact).2 fuzzy).1

theorem combinedList_eq (db : Db) (exact fuzzy : List (Nat × S)) :
    combinedList db exact fuzzy = exactPart db exact ++ typoPart db exact fuzzy := rfl

omit [ScoreOps S] in
theorem exactPart_sub (db : Db) (exact : List (Nat × S)) : ∀ x ∈ exactPart db exact, x ∈ exact := by
  intro x hx
  obtain ⟨y, hy, he⟩ := (dedupLoop_spec db (fun s : S => s) exact []).2.2.2.2 x hx
  rw [he]; exact hy

theorem typoPart_sub (db : Db) (exact fuzzy : List (Nat × S)) :
    ∀ x ∈ typoPart db exact fuzzy, ∃ y ∈ fuzzy, x = (y.1, mul y.2 (ofQ Gen.LegacyScore.fuzzyDiscount)) :=
  (dedupLoop_spec db _ fuzzy _).2.2.2.2

omit [ScoreOps S] in
theorem exactPart_ids_sublist (db : Db) (exact : List (Nat × S)) :
    ((exactPart db exact).map (·.1)).Sublist (exact.map (·.1)) := (dedupLoop_spec db (fun s : S => s) exact []).1

/-- C04 for the typo half of SearchWithFuzzy: every typo match passes the gate of the caller's options -/
theorem performFuzzy_eligible (T : Tuning S) (db : Db) (q : Bytes) (o : Opts S) (limit : Int) (r : List (Nat × S))
    (h : performFuzzy T db q o limit = .ok r) : ∀ x ∈ r, Eligible T db o x.1 := by
  unfold performFuzzy at h
  split at h
  · cases h
  · simp only [Except.ok.injEq] at h
    obtain ⟨sub, _, helig, heq, _⟩ := fuzzyCollect_spec T db o (wrap64 (limit * (fuzzyMult : Int))).toNat (T.fuzzySort _) []
    simp only [List.reverse_nil, List.nil_append] at heq
    rw [heq] at h
    subst h
    intro x hx
    rw [List.mem_map] at hx
    obtain ⟨y, hy, rfl⟩ := hx
    exact helig y hy


end Wtf.LegacyEntry
