/-
  C16, the executable JSON codec of the history file (`Model/HistoryJson.lean`, the `Codec` instance the
  driver runs against encoding/json): the predicates under which its laws are THEOREMS instead of
  assumptions.  Definitions only; the proofs are in `Proofs/HistoryJsonStr.lean` (string literals),
  `Proofs/HistoryJsonTime.lean` (digits, RFC 3339 text) and `Proofs/HistoryJsonParse.lean` (parser).
  Core Lean only.
-/
import WtfModel.Model.HistoryJson
namespace Wtf.History.Json
open Wtf.History

/-- Valid UTF-8, said without reference to quote / unquote: the text splits into sequences that
    `utf8Len` (Go's `utf8.DecodeRune` acceptance: shortest form, no surrogates, at most U+10FFFF) accepts. -/
def validUtf8 : Bytes → Bool
  | [] => true
  | a :: r =>
    if _h : utf8Len (a :: r) = 0 then false
    else validUtf8 ((a :: r).drop (utf8Len (a :: r)))
termination_by b => b.length
decreasing_by
  simp only [List.length_drop, List.length_cons]
  omega

/-- A string-literal body the scanner reads to its end: no quote, no control byte, a backslash only in
    front of one of the RFC's escapes. -/
def litOK : Bytes → Bool
  | [] => true
  | a :: r =>
    if a == 34 || a < 32 then false
    else if a == 92 then
      match r with
      | [] => false
      | e :: r1 =>
        if e == 117 then
          match r1 with
          | h1 :: h2 :: h3 :: h4 :: r2 => isHex h1 && isHex h2 && isHex h3 && isHex h4 && litOK r2
          | _ => false
        else (e == 34 || e == 92 || e == 47 || e == 98 || e == 102 || e == 110 || e == 114 || e == 116) && litOK r1
    else litOK r

/-- The documents the printer is claimed to be read back from: no `badnum`, integers in the int64 range,
    literal bodies the scanner accepts, member names that survive quote / unquote. -/
inductive WFJ : JVal → Prop
  | null : WFJ .null
  | bool (b : Bool) : WFJ (.bool b)
  | int (i : Int) : -9223372036854775808 ≤ i → i ≤ 9223372036854775807 → WFJ (.int i)
  | str (raw : Bytes) : litOK raw = true → WFJ (.str raw)
  | arr (xs : List JVal) : (∀ x, x ∈ xs → WFJ x) → WFJ (.arr xs)
  | obj (kvs : List (Bytes × JVal)) : (∀ kv, kv ∈ kvs → unquote (quote kv.1) = kv.1) → (∀ kv, kv ∈ kvs → WFJ kv.2) →
      WFJ (.obj kvs)

/-- What the parser proof needs to know about the decimal printer (`natDigits n = toString n`). -/
structure DigitFacts : Prop where
  all_digits : ∀ n, (natDigits n).all isDigit = true
  nonempty : ∀ n, natDigits n ≠ []
  value : ∀ n, natOfDigits (natDigits n) = n
  no_leading_zero : ∀ n, 1 < (natDigits n).length → (natDigits n).head? ≠ some 48

/-- Time keys of real instants the history can hold: packed decimal fields of a calendar date in the
    years 1 .. 9999 (the range in which `time.Time.MarshalJSON` succeeds). -/
def OkTime (t : Int) : Prop :=
  ∃ y mo d h mi s ns : Nat, 1 ≤ y ∧ y ≤ 9999 ∧ 1 ≤ mo ∧ mo ≤ 12 ∧ 1 ≤ d ∧ d ≤ daysIn y mo ∧ h ≤ 23 ∧ mi ≤ 59 ∧
    s ≤ 59 ∧ ns < 1000000000 ∧ t = (pack y mo d h mi s ns : Int) - (zeroPacked : Int)

end Wtf.History.Json
