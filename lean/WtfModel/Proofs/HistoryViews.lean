import WtfModel.Model.History

/-! C16: lemmas about the views (recent / top / stats). -/
namespace Wtf.History

/-! ### dedupFirst -/

section
variable {α : Type} [DecidableEq α]

theorem mem_dedupFirst {x : α} {xs : List α} : x ∈ dedupFirst xs ↔ x ∈ xs := by
  induction xs with
  | nil => simp [dedupFirst]
  | cons y ys ih =>
    simp only [dedupFirst, List.mem_cons, List.mem_filter, ih, ne_eq, decide_not, Bool.not_eq_eq_eq_not,
      Bool.not_true, decide_eq_false_iff_not]
    by_cases h : x = y <;> simp [h]

theorem dedupFirst_nodup (xs : List α) : (dedupFirst xs).Nodup := by
  induction xs with
  | nil => simp [dedupFirst]
  | cons y ys ih =>
    simp only [dedupFirst, List.nodup_cons]
    refine ⟨?_, List.Pairwise.filter _ ih⟩
    intro h
    simp [List.mem_filter] at h

theorem dedupFirst_sublist (xs : List α) : (dedupFirst xs).Sublist xs := by
  induction xs with
  | nil => simp [dedupFirst]
  | cons y ys ih =>
    simp only [dedupFirst]
    exact ((List.filter_sublist).trans ih).cons_cons y

theorem dedupFirst_length_le (xs : List α) : (dedupFirst xs).length ≤ xs.length :=
  (dedupFirst_sublist xs).length_le

theorem dedupFirst_head? (xs : List α) : (dedupFirst xs).head? = xs.head? := by
  cases xs <;> simp [dedupFirst]

end

/-! ### recent -/

theorem recentLoop_eq (lim : Nat) (qs acc : List Bytes) (hlen : acc.length ≤ lim) :
    recentLoop lim qs acc = (acc ++ (dedupFirst qs).filter (fun q => decide (q ∉ acc))).take lim := by
  induction qs generalizing acc with
  | nil => simp [recentLoop, dedupFirst, List.take_of_length_le hlen]
  | cons q qs ih =>
    unfold recentLoop
    by_cases hlt : acc.length < lim
    · simp only [hlt, ↓reduceIte]
      by_cases hq : q ∈ acc
      · simp only [hq, ↓reduceIte]
        rw [ih acc hlen]
        congr 2
        simp only [dedupFirst, List.filter_cons, hq, not_true_eq_false, decide_false, Bool.false_eq_true,
          ↓reduceIte, List.filter_filter]
        apply List.filter_congr
        intro x _
        by_cases hx : x ∈ acc
        · simp [hx]
        · have : x ≠ q := fun h => hx (h ▸ hq)
          simp [hx, this]
      · simp only [hq, ↓reduceIte]
        rw [ih (acc ++ [q]) (by simp; omega)]
        congr 1
        simp only [dedupFirst, List.filter_cons, hq, not_false_eq_true, decide_true, ↓reduceIte,
          List.filter_filter, List.append_assoc, List.singleton_append]
        congr 2
        apply List.filter_congr
        intro x _
        by_cases hx : x ∈ acc <;> by_cases hxq : x = q <;> simp [hx, hxq]
    · simp only [hlt, ↓reduceIte]
      have : acc.length = lim := by omega
      rw [List.take_left' this]

theorem recent_eq (s : State) (n : Int) :
    recent s n = (dedupFirst (s.entries.reverse.map (·.query))).take (effLimit n) := by
  unfold recent
  rw [recentLoop_eq _ _ [] (by simp)]
  simp only [List.nil_append]
  congr 1
  apply List.filter_eq_self.mpr
  intro a _; simp

theorem effLimit_pos (n : Int) : 1 ≤ effLimit n := by
  unfold effLimit Gen.History.recentDefault
  split <;> omega

/-! ### frequency table -/

theorem sum_map_add {α : Type} (f g : α → Nat) (xs : List α) :
    (xs.map (fun x => f x + g x)).sum = (xs.map f).sum + (xs.map g).sum := by
  induction xs with
  | nil => simp
  | cons x xs ih => simp only [List.map_cons, List.sum_cons, ih]; omega

theorem sum_map_zero {α : Type} (xs : List α) : (xs.map (fun _ => 0)).sum = 0 := by
  induction xs with
  | nil => simp
  | cons x xs ih => simp [ih]

theorem sum_indicator_nodup (q : Bytes) (qs : List Bytes) (hn : qs.Nodup) (hm : q ∈ qs) :
    (qs.map (fun x => if q = x then 1 else 0)).sum = 1 := by
  induction qs with
  | nil => simp at hm
  | cons y ys ih =>
    rw [List.nodup_cons] at hn
    simp only [List.map_cons, List.sum_cons]
    by_cases h : q = y
    · subst h
      have : (ys.map (fun x => if q = x then 1 else 0)).sum = 0 := by
        have hz : ∀ x ∈ ys, (if q = x then 1 else 0) = 0 := by
          intro x hx
          have : q ≠ x := fun h => hn.1 (h ▸ hx)
          simp [this]
        rw [List.map_congr_left hz]
        exact sum_map_zero ys
      simp [this]
    · have hm' : q ∈ ys := by
        rcases List.mem_cons.mp hm with h' | h'
        · exact absurd h' h
        · exact h'
      simp [h, ih hn.2 hm']

theorem countOf_cons (q : Bytes) (e : Entry) (es : List Entry) :
    countOf q (e :: es) = (if e.query = q then 1 else 0) + countOf q es := by
  unfold countOf
  by_cases h : e.query = q <;> simp [h]; omega

/-- the frequencies of any duplicate-free list of queries that covers the entries add up to the number of entries -/
theorem sum_countOf (qs : List Bytes) (hn : qs.Nodup) (es : List Entry) (hc : ∀ e ∈ es, e.query ∈ qs) :
    (qs.map (fun q => countOf q es)).sum = es.length := by
  induction es with
  | nil => simp only [countOf, List.filter_nil, List.length_nil]; exact sum_map_zero qs
  | cons e es ih =>
    have h1 : (qs.map (fun q => countOf q (e :: es))) =
        qs.map (fun q => (if e.query = q then 1 else 0) + countOf q es) := by
      apply List.map_congr_left; intro q _; exact countOf_cons q e es
    rw [h1, sum_map_add, ih (fun x hx => hc x (by simp [hx])), sum_indicator_nodup _ _ hn (hc e (by simp))]
    simp; omega

theorem mem_distinctQueries {q : Bytes} {es : List Entry} : q ∈ distinctQueries es ↔ ∃ e ∈ es, e.query = q := by
  simp [distinctQueries, mem_dedupFirst]

theorem countOf_pos {q : Bytes} {es : List Entry} (h : ∃ e ∈ es, e.query = q) : 0 < countOf q es := by
  obtain ⟨e, he, hq⟩ := h
  unfold countOf
  apply List.length_pos_iff.mpr
  intro h0
  have : e ∈ es.filter (fun e => decide (e.query = q)) := by simp [List.mem_filter, he, hq]
  rw [h0] at this; simp at this

theorem freqTable_queries (es : List Entry) : (freqTable es).map (·.query) = distinctQueries es := by
  simp [freqTable, List.map_map, Function.comp_def]

theorem freqTable_counts (es : List Entry) : (freqTable es).map (·.count) = (distinctQueries es).map (fun q => countOf q es) := by
  simp [freqTable, List.map_map, Function.comp_def]

theorem freqTable_sum (es : List Entry) : ((freqTable es).map (·.count)).sum = es.length := by
  rw [freqTable_counts]
  exact sum_countOf _ (dedupFirst_nodup _) es (fun e he => mem_distinctQueries.mpr ⟨e, he, rfl⟩)

theorem mem_freqTable {qf : QF} {es : List Entry} (h : qf ∈ freqTable es) :
    qf.count = countOf qf.query es ∧ qf.lastUsed = lastSeen qf.query es ∧ (∃ e ∈ es, e.query = qf.query) := by
  simp only [freqTable, List.mem_map] at h
  obtain ⟨q, hq, rfl⟩ := h
  exact ⟨rfl, rfl, mem_distinctQueries.mp hq⟩

/-! ### insertion sort -/

section
variable {α : Type} (lt : α → α → Bool)

theorem insertBy_perm (x : α) (ys : List α) : (insertBy lt x ys).Perm (x :: ys) := by
  induction ys with
  | nil => simp [insertBy]
  | cons y ys ih =>
    unfold insertBy
    split
    · exact ((List.Perm.cons y ih).trans (List.Perm.swap x y ys))
    · exact List.Perm.refl _

theorem sortBy_perm (xs : List α) : (sortBy lt xs).Perm xs := by
  induction xs with
  | nil => simp [sortBy]
  | cons x xs ih =>
    have : sortBy lt (x :: xs) = insertBy lt x (sortBy lt xs) := rfl
    rw [this]
    exact (insertBy_perm lt x _).trans (List.Perm.cons x ih)

/-- `a` may stand before `b` -/
def NotAfter (a b : α) : Prop := lt b a = false

theorem insertBy_sorted (hasym : ∀ a b, lt a b = true → lt b a = false)
    (htrans : ∀ a b c, lt b a = false → lt c b = false → lt c a = false)
    (x : α) (ys : List α) (h : ys.Pairwise (NotAfter lt)) : (insertBy lt x ys).Pairwise (NotAfter lt) := by
  induction ys with
  | nil => simp [insertBy]
  | cons y ys ih =>
    rw [List.pairwise_cons] at h
    unfold insertBy
    by_cases hyx : lt y x = true
    · simp only [hyx, ↓reduceIte, List.pairwise_cons]
      refine ⟨?_, ih h.2⟩
      intro z hz
      have hz' : z ∈ x :: ys := (List.Perm.mem_iff (insertBy_perm lt x ys)).mp hz
      rcases List.mem_cons.mp hz' with h' | h'
      · subst h'; exact hasym _ _ hyx
      · exact h.1 z h'
    · have hyx' : lt y x = false := by simpa using hyx
      simp only [hyx', Bool.false_eq_true, ↓reduceIte, List.pairwise_cons]
      refine ⟨?_, h.1, h.2⟩
      intro z hz
      rcases List.mem_cons.mp hz with hz | hz
      · subst hz; exact hyx'
      · exact htrans x y z hyx' (h.1 z hz)

theorem sortBy_sorted (hasym : ∀ a b, lt a b = true → lt b a = false)
    (htrans : ∀ a b c, lt b a = false → lt c b = false → lt c a = false)
    (xs : List α) : (sortBy lt xs).Pairwise (NotAfter lt) := by
  induction xs with
  | nil => simp [sortBy]
  | cons x xs ih =>
    have : sortBy lt (x :: xs) = insertBy lt x (sortBy lt xs) := rfl
    rw [this]
    exact insertBy_sorted lt hasym htrans x _ ih

end

theorem qfBefore_true_iff (a b : QF) :
    qfBefore a b = true ↔ (b.count < a.count ∨ (a.count = b.count ∧ b.lastUsed < a.lastUsed)) := by
  unfold qfBefore
  by_cases hc : a.count = b.count
  · simp [hc]
  · simp [hc]

theorem qfBefore_false_iff (a b : QF) :
    qfBefore b a = false ↔ (b.count < a.count ∨ (b.count = a.count ∧ b.lastUsed ≤ a.lastUsed)) := by
  unfold qfBefore
  by_cases hc : b.count = a.count
  · simp [hc]
  · simp [hc]; omega

theorem qfBefore_asym (a b : QF) (h : qfBefore a b = true) : qfBefore b a = false := by
  rw [qfBefore_true_iff] at h
  rw [qfBefore_false_iff]
  omega

theorem qfBefore_trans (a b c : QF) (h1 : qfBefore b a = false) (h2 : qfBefore c b = false) : qfBefore c a = false := by
  rw [qfBefore_false_iff] at *
  omega

/-- What `GetTopQueries` may return, whatever order the map iteration and the unstable sort produce:
    the first `lim` elements of SOME arrangement of the frequency table that is sorted by
    (frequency, then recency). -/
def TopSpec (es : List Entry) (lim : Nat) (r : List QF) : Prop :=
  ∃ l : List QF, l.Perm (freqTable es) ∧ l.Pairwise (fun a b => qfBefore b a = false) ∧ r = l.take lim

theorem top_topSpec (s : State) (n : Int) : TopSpec s.entries (effLimitTop n) (top s n) :=
  ⟨sortBy qfBefore (freqTable s.entries), sortBy_perm _ _, sortBy_sorted qfBefore qfBefore_asym qfBefore_trans _, rfl⟩

theorem topSpec_props {es : List Entry} {lim : Nat} {r : List QF} (h : TopSpec es lim r) :
    (∀ qf ∈ r, qf.count = countOf qf.query es ∧ 0 < qf.count ∧ ∃ e ∈ es, e.query = qf.query) ∧
    (r.map (·.query)).Nodup ∧
    r.Pairwise (fun a b => b.count ≤ a.count) ∧
    r.length = min lim (distinctQueries es).length ∧
    (∀ e ∈ es, e.query ∉ r.map (·.query) → ∀ qf ∈ r, countOf e.query es ≤ qf.count) ∧
    ((distinctQueries es).length ≤ lim →
      (r.map (·.count)).sum = es.length ∧ ∀ e ∈ es, e.query ∈ r.map (·.query)) := by
  obtain ⟨l, hp, hs, rfl⟩ := h
  have hmem : ∀ qf ∈ l, qf ∈ freqTable es := fun qf hq => (hp.mem_iff).mp hq
  have hlen : l.length = (distinctQueries es).length := by
    rw [hp.length_eq, ← freqTable_queries, List.length_map]
  have hnod : (l.map (·.query)).Nodup := by
    rw [(hp.map (·.query)).nodup_iff, freqTable_queries]; exact dedupFirst_nodup _
  have hsorted : l.Pairwise (fun a b => b.count ≤ a.count) := by
    apply hs.imp
    intro a b hab
    rw [qfBefore_false_iff] at hab; omega
  refine ⟨?_, ?_, ?_, ?_, ?_, ?_⟩
  · intro qf hq
    have := mem_freqTable (hmem qf (List.mem_of_mem_take hq))
    exact ⟨this.1, this.1 ▸ countOf_pos this.2.2, this.2.2⟩
  · exact List.Nodup.sublist ((List.take_sublist _ _).map _) hnod
  · exact hsorted.sublist (List.take_sublist _ _)
  · rw [List.length_take, hlen]
  · intro e he hnot qf hq
    -- e's row is in `l` but not in the first `lim`: it comes after every taken row
    have hrow : (⟨e.query, countOf e.query es, lastSeen e.query es⟩ : QF) ∈ l := by
      rw [hp.mem_iff]
      simp only [freqTable, List.mem_map]
      exact ⟨e.query, mem_distinctQueries.mpr ⟨e, he, rfl⟩, rfl⟩
    rw [← List.take_append_drop lim l] at hrow hsorted
    rw [List.mem_append] at hrow
    rcases hrow with hr | hr
    · exact absurd (List.mem_map_of_mem (f := (·.query)) hr) hnot
    · rw [List.pairwise_append] at hsorted
      exact hsorted.2.2 qf hq _ hr
  · intro hle
    have htake : l.take lim = l := List.take_of_length_le (by omega)
    rw [htake]
    refine ⟨?_, ?_⟩
    · rw [(hp.map (·.count)).sum_nat, freqTable_sum]
    · intro e he
      rw [(hp.map (·.query)).mem_iff, freqTable_queries]
      exact mem_distinctQueries.mpr ⟨e, he, rfl⟩

/-! ### stats -/

theorem stats_total_unique (s : State) :
    (stats s).total = s.entries.length ∧ (stats s).unique = (distinctQueries s.entries).length := by
  unfold stats
  cases h : s.entries with
  | nil => simp [distinctQueries, dedupFirst]
  | cons e es => simp

theorem stats_oldest_newest (s : State) (a b : Entry) (ha : s.entries.head? = some a) (hb : s.entries.getLast? = some b) :
    (stats s).oldest = a.ts ∧ (stats s).newest = b.ts := by
  unfold stats
  cases h : s.entries with
  | nil => rw [h] at ha; simp at ha
  | cons e es =>
    rw [h] at ha hb
    simp only [List.head?_cons, Option.some.injEq] at ha
    subst ha
    simp [hb]

end Wtf.History
