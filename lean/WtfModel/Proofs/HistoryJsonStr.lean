/-
  C16, string literals of the executable JSON codec (`Model/HistoryJson.lean`): what `quote` writes is a
  literal body the scanner accepts (`litOK_quote`), and `unquote ∘ quote` is `sanitize` (every byte that
  does not start a sequence `utf8Len` accepts becomes U+FFFD, accepted sequences are copied), hence the
  texts it leaves unchanged are exactly the `validUtf8` ones (`unquote_quote_of_valid`,
  `valid_of_unquote_quote`, `validUtf8_iff`).  Core Lean only.
-/
import WtfModel.Proofs.HistoryJsonDefs
namespace Wtf.History.Json

theorem hexVal_hexDigitB_fin : ∀ n : Fin 16, hexVal (hexDigitB n.val) = n.val ∧ isHex (hexDigitB n.val) = true := by decide
theorem hexVal_hexDigitB (n : Nat) (h : n < 16) : hexVal (hexDigitB n) = n := (hexVal_hexDigitB_fin ⟨n, h⟩).1
theorem isHex_hexDigitB (n : Nat) (h : n < 16) : isHex (hexDigitB n) = true := (hexVal_hexDigitB_fin ⟨n, h⟩).2
theorem hexVal_48 : hexVal 48 = 0 := by decide
theorem isHex_48 : isHex 48 = true := by decide

theorem litOK_plain (a : UInt8) (r : Bytes) (h1 : a ≠ 34) (h2 : ¬ a < 32) (h3 : a ≠ 92) :
    litOK (a :: r) = litOK r := by
  rw [litOK.eq_def]; simp [h1, h2, h3]

theorem litOK_esc (e : UInt8) (r : Bytes) (h : e = 34 ∨ e = 92) :
    litOK (92 :: e :: r) = litOK r := by
  rw [litOK.eq_def]; rcases h with h | h <;> subst h <;> simp

theorem litOK_u (h1 h2 h3 h4 : UInt8) (r : Bytes) :
    litOK (92 :: 117 :: h1 :: h2 :: h3 :: h4 :: r) = (isHex h1 && isHex h2 && isHex h3 && isHex h4 && litOK r) := by
  rw [litOK.eq_def]; simp

theorem litOK_quote (b : Bytes) : litOK (quote b) = true := by
  induction b with
  | nil => simp [quote, litOK]
  | cons c r ih =>
    unfold quote
    split
    · simp [litOK_esc, ih]
    · split
      · simp [litOK_esc, ih]
      · split
        · rename_i h
          have h1 : c.toNat / 16 < 16 := by have := c.toNat_lt; omega
          have h2 : c.toNat % 16 < 16 := by omega
          simp [litOK_u, ih, isHex_48, isHex_hexDigitB _ h1, isHex_hexDigitB _ h2]
        · rename_i h1 h2 h3
          simp at h1 h2
          rw [litOK_plain _ _ h1 h3 h2, ih]

theorem quote_hi (b : UInt8) (r : Bytes) (h : 0x80 ≤ b) : quote (b :: r) = b :: quote r := by
  have h1 : (b == 34) = false := by simp; grind
  have h2 : (b == 92) = false := by simp; grind
  have h3 : ¬ b < 32 := by grind
  simp [quote, h1, h2, h3]

theorem quote_cases (r : Bytes) :
    r = [] ∨ (∃ b r', r = b :: r' ∧ 0x80 ≤ b ∧ quote r = b :: quote r') ∨
      (∃ b r' c t, r = b :: r' ∧ b < 0x80 ∧ quote r = c :: t ∧ c < 0x80) := by
  cases r with
  | nil => exact Or.inl rfl
  | cons b r' =>
    right
    by_cases hb : 0x80 ≤ b
    · exact Or.inl ⟨b, r', rfl, hb, quote_hi b r' hb⟩
    · right
      refine ⟨b, r', ?_⟩
      unfold quote
      split
      · exact ⟨92, _, rfl, by grind, rfl, by decide⟩
      · split
        · exact ⟨92, _, rfl, by grind, rfl, by decide⟩
        · split
          · exact ⟨92, _, rfl, by grind, rfl, by decide⟩
          · exact ⟨b, _, rfl, by grind, rfl, by grind⟩

theorem utf8Len_quote (a : UInt8) (r : Bytes) (ha : ¬ a < 0x80) :
    utf8Len (a :: quote r) = utf8Len (a :: r) := by
  rcases quote_cases r with rfl | ⟨b, r1, rfl, hb, hq⟩ | ⟨b, r1, c, t, rfl, hb, hq, hc⟩
  · rfl
  · rw [hq]
    rcases quote_cases r1 with rfl | ⟨b2, r2, rfl, hb2, hq2⟩ | ⟨b2, r2, c, t, rfl, hb2, hq2, hc⟩
    · rfl
    · rw [hq2]
      rcases quote_cases r2 with rfl | ⟨b3, r3, rfl, hb3, hq3⟩ | ⟨b3, r3, c, t, rfl, hb3, hq3, hc⟩
      · rfl
      · rw [hq3]; simp [utf8Len]
      · rw [hq3]; simp [utf8Len, isCont]; grind
    · rw [hq2]; simp [utf8Len, isCont]; grind
  · rw [hq]; simp [utf8Len, isCont]; grind

theorem utf8Len_shape (a : UInt8) (r : Bytes) (ha : ¬ a < 0x80) (h : utf8Len (a :: r) ≠ 0) :
    (∃ b r', r = b :: r' ∧ 0x80 ≤ b ∧ utf8Len (a :: r) = 2) ∨
    (∃ b c r', r = b :: c :: r' ∧ 0x80 ≤ b ∧ 0x80 ≤ c ∧ utf8Len (a :: r) = 3) ∨
    (∃ b c d r', r = b :: c :: d :: r' ∧ 0x80 ≤ b ∧ 0x80 ≤ c ∧ 0x80 ≤ d ∧ utf8Len (a :: r) = 4) := by
  match r with
  | [] => simp [utf8Len, ha] at h
  | [b] =>
    simp [utf8Len, ha, isCont] at h ⊢
    grind
  | [b, c] =>
    simp [utf8Len, ha, isCont] at h ⊢
    grind
  | b :: c :: d :: r' =>
    simp [utf8Len, ha, isCont] at h ⊢
    grind

theorem unquoteAux_nil (fuel : Nat) : unquoteAux fuel [] = [] := by
  cases fuel <;> rfl

theorem unquoteAux_esc (fuel : Nat) (e : UInt8) (r : Bytes) (h : e = 34 ∨ e = 92) :
    unquoteAux (fuel + 1) (92 :: e :: r) = e :: unquoteAux fuel r := by
  rw [unquoteAux.eq_def]; rcases h with h | h <;> subst h <;> simp

theorem unquoteAux_u (fuel : Nat) (h1 h2 h3 h4 : UInt8) (r : Bytes)
    (hu : ¬ (0xD800 ≤ hex4 h1 h2 h3 h4 ∧ hex4 h1 h2 h3 h4 ≤ 0xDFFF)) :
    unquoteAux (fuel + 1) (92 :: 117 :: h1 :: h2 :: h3 :: h4 :: r) =
      encodeRune (hex4 h1 h2 h3 h4) ++ unquoteAux fuel r := by
  rw [unquoteAux.eq_def]; simp only [beq_self_eq_true, if_true]; rw [if_neg hu]

theorem unquoteAux_raw (fuel : Nat) (a : UInt8) (r : Bytes) (h : a ≠ 92) :
    unquoteAux (fuel + 1) (a :: r) =
      if utf8Len (a :: r) = 0 then replacement ++ unquoteAux fuel r
      else (a :: r).take (utf8Len (a :: r)) ++ unquoteAux fuel ((a :: r).drop (utf8Len (a :: r))) := by
  rw [unquoteAux.eq_def]; simp [h]

theorem unquoteAux_ctl (fuel : Nat) (c : UInt8) (r : Bytes) (h : c < 32) :
    unquoteAux (fuel + 1) (92 :: 117 :: 48 :: 48 :: hexDigitB (c.toNat / 16) :: hexDigitB (c.toNat % 16) :: r) =
      c :: unquoteAux fuel r := by
  have hlt : c.toNat < 32 := by simpa [UInt8.lt_iff_toNat_lt] using h
  have e : hex4 48 48 (hexDigitB (c.toNat / 16)) (hexDigitB (c.toNat % 16)) = c.toNat := by
    unfold hex4
    rw [hexVal_48, hexVal_hexDigitB _ (by omega), hexVal_hexDigitB _ (by omega)]
    omega
  rw [unquoteAux_u _ _ _ _ _ _ (by rw [e]; omega), e]
  have : encodeRune c.toNat = [c] := by
    unfold encodeRune
    rw [if_pos (by omega)]; simp
  rw [this]; rfl


theorem quote_take_drop (a : UInt8) (r : Bytes) (ha : ¬ a < 0x80) (h : utf8Len (a :: r) ≠ 0) :
    (a :: quote r).take (utf8Len (a :: r)) = (a :: r).take (utf8Len (a :: r)) ∧
    (a :: quote r).drop (utf8Len (a :: r)) = quote ((a :: r).drop (utf8Len (a :: r))) := by
  rcases utf8Len_shape a r ha h with ⟨b, r', rfl, hb, e⟩ | ⟨b, c, r', rfl, hb, hc, e⟩ |
    ⟨b, c, d, r', rfl, hb, hc, hd, e⟩
  · rw [e]; simp [quote_hi, hb]
  · rw [e]; simp [quote_hi, hb, hc]
  · rw [e]; simp [quote_hi, hb, hc, hd]

/-- what `unquote ∘ quote` does, said directly on the text: every byte that does not start a valid
    sequence becomes U+FFFD, valid sequences are copied -/
def sanitize : Bytes → Bytes
  | [] => []
  | a :: r =>
    if _h : utf8Len (a :: r) = 0 then replacement ++ sanitize r
    else (a :: r).take (utf8Len (a :: r)) ++ sanitize ((a :: r).drop (utf8Len (a :: r)))
termination_by b => b.length
decreasing_by
  · simp
  · simp only [List.length_drop, List.length_cons]
    omega

theorem utf8Len_ascii (a : UInt8) (r : Bytes) (h : a < 0x80) : utf8Len (a :: r) = 1 := by
  simp [utf8Len, h]

theorem unquoteAux_quote : ∀ (n : Nat) (b : Bytes), b.length ≤ n → ∀ fuel, b.length ≤ fuel →
    unquoteAux fuel (quote b) = sanitize b := by
  intro n
  induction n with
  | zero =>
    intro b hb fuel _
    have : b = [] := List.eq_nil_of_length_eq_zero (by omega)
    subst this
    simp [quote, unquoteAux_nil, sanitize]
  | succ n ih =>
    intro b hb fuel hf
    match b, fuel with
    | [], fuel => simp [quote, unquoteAux_nil, sanitize]
    | a :: r, 0 => simp at hf
    | a :: r, fuel + 1 =>
      simp only [List.length_cons, Nat.add_le_add_iff_right] at hb hf
      by_cases ha : a < 0x80
      · have hs : sanitize (a :: r) = a :: sanitize r := by
          rw [sanitize]; simp [utf8Len_ascii a r ha]
        rw [hs]
        unfold quote
        split
        · rename_i h; simp at h; subst h
          rw [unquoteAux_esc _ _ _ (Or.inl rfl), ih r hb fuel hf]
        · split
          · rename_i h; simp at h; subst h
            rw [unquoteAux_esc _ _ _ (Or.inr rfl), ih r hb fuel hf]
          · split
            · rename_i h
              simp only [List.cons_append, List.nil_append]
              rw [unquoteAux_ctl _ _ _ h, ih r hb fuel hf]
            · rename_i h1 h2 h3
              simp at h2
              rw [unquoteAux_raw _ _ _ h2]
              simp [utf8Len_ascii a _ ha, ih r hb fuel hf]
      · have h80 : 0x80 ≤ a := by grind
        have h92 : a ≠ 92 := by grind
        rw [quote_hi a r h80, unquoteAux_raw _ _ _ h92, utf8Len_quote a r ha, sanitize]
        by_cases h0 : utf8Len (a :: r) = 0
        · simp only [h0, if_true, dite_true]; rw [ih r hb fuel hf]
        · obtain ⟨e1, e2⟩ := quote_take_drop a r ha h0
          simp only [h0, if_false, dite_false]
          rw [e1, e2, ih _ _ fuel _]
          · simp only [List.length_drop, List.length_cons]; omega
          · simp only [List.length_drop, List.length_cons]; omega


theorem length_le_quote (b : Bytes) : b.length ≤ (quote b).length := by
  induction b with
  | nil => simp
  | cons c r ih =>
    unfold quote
    split
    · simp; omega
    · split
      · simp; omega
      · split <;> (simp; omega)

theorem unquote_quote_eq_sanitize (b : Bytes) : unquote (quote b) = sanitize b :=
  unquoteAux_quote b.length b (Nat.le_refl _) _ (length_le_quote b)

theorem sanitize_of_valid (b : Bytes) (h : validUtf8 b = true) : sanitize b = b := by
  fun_induction validUtf8 b with
  | case1 => simp [sanitize]
  | case2 a r h0 => simp at h
  | case3 a r h0 ih =>
    rw [sanitize]
    simp only [h0, dite_false]
    rw [ih h, List.take_append_drop]

theorem length_le_sanitize (b : Bytes) : b.length ≤ (sanitize b).length := by
  fun_induction sanitize b with
  | case1 => simp
  | case2 a r h0 ih => simp [replacement]; omega
  | case3 a r h0 ih =>
    simp only [List.length_append, List.length_take, List.length_drop] at *
    omega

theorem valid_of_sanitize (b : Bytes) (h : sanitize b = b) : validUtf8 b = true := by
  fun_induction sanitize b with
  | case1 => simp [validUtf8]
  | case2 a r h0 ih =>
    have := congrArg List.length h
    have := length_le_sanitize r
    simp [replacement] at *
    omega
  | case3 a r h0 ih =>
    rw [validUtf8]
    simp only [h0, dite_false]
    apply ih
    have e := List.take_append_drop (utf8Len (a :: r)) (a :: r)
    exact List.append_cancel_left (h.trans e.symm)

theorem unquote_quote_of_valid (b : Bytes) (h : validUtf8 b = true) : unquote (quote b) = b := by
  rw [unquote_quote_eq_sanitize, sanitize_of_valid b h]

theorem valid_of_unquote_quote (b : Bytes) (h : unquote (quote b) = b) : validUtf8 b = true :=
  valid_of_sanitize b (by rw [← unquote_quote_eq_sanitize]; exact h)

theorem validUtf8_iff (b : Bytes) : validUtf8 b = true ↔ unquote (quote b) = b :=
  ⟨unquote_quote_of_valid b, valid_of_unquote_quote b⟩

end Wtf.History.Json
