import WtfModel.Basic.Utf8
/-
  Decoding a NUL-free byte string never yields the rune 0 (Go: `for _, r := range s` produces U+0000 only
  from a 0x00 byte: every multi-byte form decodes to a code point ≥ 0x80 and invalid bytes to U+FFFD).
  Needed by C07 / C10: the typo matcher treats rune 0 as "end of text".  Core Lean only.
-/
namespace Wtf.Utf8

theorem ite_pair_ne_zero (cond : Bool) (a n : Nat) (h : cond = true → a ≠ 0) :
    (if cond = true then (a, n) else (runeError, 1)).1 ≠ 0 := by
  cases cond with
  | false => simp [runeError]
  | true => simpa using h rfl

theorem decodeRune_ne_zero (bs : Bytes) (hne : bs ≠ []) (hnz : ∀ b ∈ bs, b ≠ 0) : (decodeRune bs).1 ≠ 0 := by
  cases bs with
  | nil => exact absurd rfl hne
  | cons b0 rest =>
    have hb0 : b0.toNat ≠ 0 := by
      intro h
      apply hnz b0 (by simp)
      exact UInt8.toNat_inj.mp (by simpa using h)
    simp only [decodeRune]
    split
    · exact hb0
    · rename_i h1
      have g1 : ¬ b0.toNat < 0x80 := by simpa [UInt8.lt_iff_toNat_lt] using h1
      split
      · decide
      · rename_i h2
        have g2 : ¬ b0.toNat < 0xC2 := by simpa [UInt8.lt_iff_toNat_lt] using h2
        split
        · rename_i h3
          have g3 : b0.toNat < 0xE0 := by simpa [UInt8.lt_iff_toNat_lt] using h3
          cases rest with
          | nil => simp [runeError]
          | cons b1 _ =>
            simp only
            apply ite_pair_ne_zero
            intro _; omega
        · rename_i h3
          have g3 : ¬ b0.toNat < 0xE0 := by simpa [UInt8.lt_iff_toNat_lt] using h3
          split
          · rename_i h4
            have g4 : b0.toNat < 0xF0 := by simpa [UInt8.lt_iff_toNat_lt] using h4
            match rest with
            | [] => simp [runeError]
            | [_] => simp [runeError]
            | b1 :: b2 :: _ =>
              simp only
              apply ite_pair_ne_zero
              intro hc
              simp only [Bool.and_eq_true, decide_eq_true_eq] at hc
              obtain ⟨⟨hlo, hhi⟩, _⟩ := hc
              have hhi' : b1.toNat ≤ 191 := by
                have := UInt8.le_iff_toNat_le.mp hhi
                split at this <;> simp at this <;> omega
              by_cases he : b0 = 0xE0
              · have hE : b0.toNat = 0xE0 := by rw [he]; rfl
                have : (0xA0 : UInt8) ≤ b1 := by simpa [he] using hlo
                have : 0xA0 ≤ b1.toNat := by simpa [UInt8.le_iff_toNat_le] using this
                have hb1 := b1.toNat_lt
                omega
              · have : b0.toNat ≠ 0xE0 := by
                  intro h; apply he; exact UInt8.toNat_inj.mp (by simpa using h)
                omega
          · rename_i h4
            have g4 : ¬ b0.toNat < 0xF0 := by simpa [UInt8.lt_iff_toNat_lt] using h4
            split
            · rename_i h5
              have g5 : b0.toNat < 0xF5 := by simpa [UInt8.lt_iff_toNat_lt] using h5
              match rest with
              | [] => simp [runeError]
              | [_] => simp [runeError]
              | [_, _] => simp [runeError]
              | b1 :: b2 :: b3 :: _ =>
                simp only
                apply ite_pair_ne_zero
                intro hc
                simp only [Bool.and_eq_true, decide_eq_true_eq] at hc
                obtain ⟨⟨⟨hlo, hhi⟩, _⟩, _⟩ := hc
                have hhi' : b1.toNat ≤ 191 := by
                  have := UInt8.le_iff_toNat_le.mp hhi
                  split at this <;> simp at this <;> omega
                by_cases he : b0 = 0xF0
                · have hE : b0.toNat = 0xF0 := by rw [he]; rfl
                  have : (0x90 : UInt8) ≤ b1 := by simpa [he] using hlo
                  have : 0x90 ≤ b1.toNat := by simpa [UInt8.le_iff_toNat_le] using this
                  have hb1 := b1.toNat_lt
                  omega
                · have : b0.toNat ≠ 0xF0 := by
                    intro h; apply he; exact UInt8.toNat_inj.mp (by simpa using h)
                  omega
            · decide

theorem decodeAux_ne_zero : ∀ (fuel off : Nat) (bs : Bytes), (∀ b ∈ bs, b ≠ 0) →
    ∀ x ∈ decodeAux fuel off bs, x.1 ≠ 0 := by
  intro fuel
  induction fuel with
  | zero => intro off bs _ x hx; simp [decodeAux] at hx
  | succ n ih =>
    intro off bs hnz x hx
    cases bs with
    | nil => simp [decodeAux] at hx
    | cons b0 rest =>
      simp only [decodeAux, List.mem_cons] at hx
      rcases hx with hx | hx
      · rw [hx]
        exact decodeRune_ne_zero (b0 :: rest) (by simp) hnz
      · exact ih _ _ (fun b hb => hnz b (List.mem_of_mem_drop hb)) x hx

/-- `[]rune(s)` of a NUL-free string contains no rune 0 -/
theorem runes_ne_zero (bs : Bytes) (hnz : ∀ b ∈ bs, b ≠ 0) : ∀ c ∈ runes bs, c ≠ 0 := by
  intro c hc
  simp only [runes, decode, List.mem_map] at hc
  obtain ⟨x, hx, rfl⟩ := hc
  exact decodeAux_ne_zero _ _ _ hnz x hx

end Wtf.Utf8
