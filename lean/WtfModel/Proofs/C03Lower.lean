import WtfModel.Proofs.C03State
/-
  C03, part 6: `tokenize (strings.ToLower s) = tokenize s` for every byte string none of whose code
  points is a non-ASCII one that Go lower-cases to ASCII (in Go's tables: exactly U+212A and U+0130).
  Byte-level reasoning over the UTF-8 decoder of Basic/Utf8.lean.  Core Lean only.
-/
namespace Wtf.Search
open Text Utf8 GoStr

theorem isCont_iff (b : UInt8) : isCont b = true ↔ 128 ≤ b.toNat ∧ b.toNat ≤ 191 := by
  unfold isCont
  simp [UInt8.le_iff_toNat_le]

/-- a non-ASCII lead byte: the decoder consumes 1–4 bytes, all non-ASCII, and yields a non-ASCII rune -/
theorem decodeRune_nonascii (b0 : UInt8) (rest : Bytes) (h : 128 ≤ b0.toNat) :
    1 ≤ (decodeRune (b0 :: rest)).2 ∧ (decodeRune (b0 :: rest)).2 ≤ (b0 :: rest).length ∧
    128 ≤ (decodeRune (b0 :: rest)).1 ∧ ∀ b ∈ (b0 :: rest).take (decodeRune (b0 :: rest)).2, 128 ≤ b.toNat := by
  unfold decodeRune
  have h0 : ¬ b0 < 0x80 := by simp [UInt8.lt_iff_toNat_lt]; omega
  simp only [h0, ↓reduceIte]
  split
  · simp [runeError, h]
  · split
    · cases rest with
      | nil => simp [runeError, h]
      | cons b1 r1 =>
        simp only
        split
        · rename_i hc h2 h1
          rw [isCont_iff] at h1
          simp [UInt8.lt_iff_toNat_lt] at hc h2
          refine ⟨by simp, by simp, ?_, ?_⟩
          · simp; omega
          · intro b hb; simp at hb; rcases hb with rfl | rfl <;> omega
        · simp [runeError, h]
    · split
      · match rest with
        | [] => simp [runeError, h]
        | [_] => simp [runeError, h]
        | b1 :: b2 :: r2 =>
          simp only
          have hlo : 128 ≤ (if b0 == 0xE0 then (0xA0 : UInt8) else 0x80).toNat ∧
              (b0.toNat = 224 → (if b0 == 0xE0 then (0xA0 : UInt8) else 0x80).toNat = 160) := by
            by_cases he : b0 = 0xE0
            · subst he; simp
            · have : b0.toNat ≠ 224 := fun e => he (UInt8.toNat_inj.mp (by simpa using e))
              simp [he, this]
          generalize (if b0 == 0xE0 then (0xA0 : UInt8) else 0x80) = lo at hlo ⊢
          have hhib : (if b0 == 0xED then (0x9F : UInt8) else 0xBF).toNat ≤ 191 := by split <;> simp
          generalize (if b0 == 0xED then (0x9F : UInt8) else 0xBF) = hi at hhib ⊢
          split
          · rename_i hc1 hc2 hc3 hcond
            simp only [Bool.and_eq_true, decide_eq_true_eq, isCont_iff, UInt8.le_iff_toNat_le] at hcond
            simp [UInt8.lt_iff_toNat_lt] at hc1 hc2 hc3
            obtain ⟨⟨hl, hhi⟩, h2⟩ := hcond
            have hr : 128 ≤ b0.toNat % 16 * 4096 + b1.toNat % 64 * 64 + b2.toNat % 64 := by
              by_cases he : b0.toNat = 224
              · have := hlo.2 he; omega
              · omega
            refine ⟨by simp, by simp, by simpa using hr, ?_⟩
            intro b hb; simp at hb; rcases hb with rfl | rfl | rfl <;> omega
          · simp [runeError, h]
      · split
        · match rest with
          | [] => simp [runeError, h]
          | [_] => simp [runeError, h]
          | [_, _] => simp [runeError, h]
          | b1 :: b2 :: b3 :: r3 =>
            simp only
            have hlo : 128 ≤ (if b0 == 0xF0 then (0x90 : UInt8) else 0x80).toNat ∧
                (b0.toNat = 240 → (if b0 == 0xF0 then (0x90 : UInt8) else 0x80).toNat = 144) := by
              by_cases he : b0 = 0xF0
              · subst he; simp
              · have : b0.toNat ≠ 240 := fun e => he (UInt8.toNat_inj.mp (by simpa using e))
                simp [he, this]
            generalize (if b0 == 0xF0 then (0x90 : UInt8) else 0x80) = lo at hlo ⊢
            have hhib : (if b0 == 0xF4 then (0x8F : UInt8) else 0xBF).toNat ≤ 191 := by split <;> simp
            generalize (if b0 == 0xF4 then (0x8F : UInt8) else 0xBF) = hi at hhib ⊢
            split
            · rename_i hc1 hc2 hc3 hc4 hcond
              simp only [Bool.and_eq_true, decide_eq_true_eq, isCont_iff, UInt8.le_iff_toNat_le] at hcond
              simp [UInt8.lt_iff_toNat_lt] at hc1 hc2 hc3 hc4
              obtain ⟨⟨⟨hl, hhi⟩, h2⟩, h3⟩ := hcond
              have hr : 128 ≤ b0.toNat % 8 * 262144 + b1.toNat % 64 * 4096 + b2.toNat % 64 * 64 + b3.toNat % 64 := by
                by_cases he : b0.toNat = 240
                · have := hlo.2 he; omega
                · omega
              refine ⟨by simp, by simp, by simpa using hr, ?_⟩
              intro b hb; simp at hb; rcases hb with rfl | rfl | rfl | rfl <;> omega
            · simp [runeError, h]
        · simp [runeError, h]

theorem decodeRune_ascii (b0 : UInt8) (rest : Bytes) (h : b0.toNat < 128) :
    decodeRune (b0 :: rest) = (b0.toNat, 1) := by
  unfold decodeRune
  have h0 : b0 < 0x80 := by simp [UInt8.lt_iff_toNat_lt]; omega
  simp [h0]

theorem encodeRune_ascii (r : Nat) (h : r < 128) : encodeRune r = [UInt8.ofNat r] := by
  unfold encodeRune
  have h1 : ¬ (55296 ≤ r) := by omega
  have h2 : ¬ (r > 1114111) := by omega
  simp [h1, h2, h]

theorem toNat_ofNat_lt (n : Nat) (h : n < 256) : (UInt8.ofNat n).toNat = n := by
  simp; omega

/-- a non-ASCII rune encodes to 2–4 bytes, all non-ASCII -/
theorem encodeRune_nonascii (r : Nat) (h : 128 ≤ r) :
    encodeRune r ≠ [] ∧ ∀ b ∈ encodeRune r, 128 ≤ b.toNat := by
  unfold encodeRune
  generalize hr' : (if (0xD800 ≤ r && r ≤ 0xDFFF) || r > 0x10FFFF then runeError else r) = r'
  have hge : 128 ≤ r' := by
    rw [← hr']
    split
    · simp [runeError]
    · exact h
  have hle : r' ≤ 0x10FFFF := by
    rw [← hr']
    split
    · simp [runeError]
    · rename_i hc; simp at hc; omega
  have h0 : ¬ r' < 128 := by omega
  simp only [h0, ↓reduceIte]
  split
  · refine ⟨by simp, ?_⟩
    intro b hb
    simp only [List.mem_cons, List.not_mem_nil, or_false] at hb
    rcases hb with rfl | rfl
    · rw [toNat_ofNat_lt] <;> omega
    · rw [toNat_ofNat_lt] <;> omega
  · split
    · refine ⟨by simp, ?_⟩
      intro b hb
      simp only [List.mem_cons, List.not_mem_nil, or_false] at hb
      rcases hb with rfl | rfl | rfl
      · rw [toNat_ofNat_lt] <;> omega
      · rw [toNat_ofNat_lt] <;> omega
      · rw [toNat_ofNat_lt] <;> omega
    · refine ⟨by simp, ?_⟩
      intro b hb
      simp only [List.mem_cons, List.not_mem_nil, or_false] at hb
      rcases hb with rfl | rfl | rfl | rfl
      · rw [toNat_ofNat_lt] <;> omega
      · rw [toNat_ofNat_lt] <;> omega
      · rw [toNat_ofNat_lt] <;> omega
      · rw [toNat_ofNat_lt] <;> omega

theorem nonalnum_of_ge (b : UInt8) (h : 128 ≤ b.toNat) : isAlnumB b = false := by
  have h0 : ∀ n : Fin 256, 128 ≤ n.val → isAlnumB (UInt8.ofNat n.val) = false := by decide +kernel
  simpa using h0 ⟨b.toNat, UInt8.toNat_lt b⟩ h

theorem lower_ascii_byte (ri : RuneInfo) (b : UInt8) (h : b.toNat < 128) :
    encodeRune (ri.lower b.toNat) = [lowerB b] := by
  have h0 : ∀ n : Fin 256, n.val < 128 →
      UInt8.ofNat (if (0x41 ≤ n.val && n.val ≤ 0x5A) = true then n.val + 0x20 else n.val) = lowerB (UInt8.ofNat n.val) ∧
      (if (0x41 ≤ n.val && n.val ≤ 0x5A) = true then n.val + 0x20 else n.val) < 128 := by decide +kernel
  have := h0 ⟨b.toNat, UInt8.toNat_lt b⟩ h
  unfold RuneInfo.lower
  simp only [h, ↓reduceIte]
  rw [encodeRune_ascii _ this.2]
  simpa using this.1

/-- a non-empty block of non-alphanumeric bytes acts as one separator -/
theorem runsAux_sep_block (xs rest cur : Bytes) (hne : xs ≠ []) (hall : ∀ b ∈ xs, isAlnumB b = false) :
    runsAux (xs ++ rest) cur = (if cur.isEmpty then [] else [cur.reverse]) ++ runsAux rest [] := by
  induction xs generalizing cur with
  | nil => exact absurd rfl hne
  | cons x ys ih =>
    have hx : isAlnumB x = false := hall x (by simp)
    simp only [List.cons_append, runsAux, hx, Bool.false_eq_true, ↓reduceIte]
    by_cases hy : ys = []
    · subst hy
      by_cases hc : cur.isEmpty <;> simp [hc]
    · have ih' := ih [] hy (fun b hb => hall b (by simp [hb]))
      simp only [List.isEmpty_nil, ↓reduceIte, List.nil_append] at ih'
      by_cases hc : cur.isEmpty <;> simp [hc, ih']

theorem take_append_drop_lt {α : Type} (l : List α) (w : Nat) : l = l.take w ++ l.drop w := (List.take_append_drop w l).symm

/-- the byte-level heart: re-encoding the lower-cased runes does not change the token runs, as long
    as no non-ASCII rune is lower-cased to an ASCII one -/
theorem runsAux_toLower (ri : RuneInfo) (fuel off : Nat) (bs cur : Bytes) (hlen : bs.length ≤ fuel)
    (hri : ∀ x ∈ decodeAux fuel off bs, 128 ≤ x.1 → 128 ≤ ri.lower x.1) :
    runsAux (((decodeAux fuel off bs).map (fun (x : Nat × Nat × Nat) => encodeRune (ri.lower x.1))).flatten) cur =
      runsAux bs cur := by
  induction fuel generalizing off bs cur with
  | zero =>
    have : bs = [] := by cases bs <;> simp_all
    subst this; simp [decodeAux]
  | succ fuel ih =>
    cases bs with
    | nil => simp [decodeAux]
    | cons b0 rest =>
      simp only [List.length_cons] at hlen
      by_cases hb : b0.toNat < 128
      · -- an ASCII byte is its own rune
        have hd : decodeAux (fuel + 1) off (b0 :: rest) = (b0.toNat, off, 1) :: decodeAux fuel (off + 1) rest := by
          simp [decodeAux, decodeRune_ascii b0 rest hb]
        rw [hd] at hri ⊢
        simp only [List.map_cons, List.flatten_cons, lower_ascii_byte ri b0 hb, List.singleton_append]
        have ih' := fun cur' => ih (off + 1) rest cur' (by omega) (fun x hx => hri x (by simp [hx]))
        simp only [runsAux, isAlnumB_lowerB, lowerB_lowerB]
        split
        · exact ih' _
        · split
          · exact ih' _
          · rw [ih']
      · -- a non-ASCII lead byte: 1-4 non-ASCII bytes in, 2-4 non-ASCII bytes out
        have hb' : 128 ≤ b0.toNat := by omega
        obtain ⟨hw1, hw2, hr, hbytes⟩ := decodeRune_nonascii b0 rest hb'
        generalize hdr : decodeRune (b0 :: rest) = dr at hw1 hw2 hr hbytes
        obtain ⟨r, w⟩ := dr
        simp only at hw1 hw2 hr hbytes
        have hw0 : (w == 0) = false := by simp; omega
        have hd : decodeAux (fuel + 1) off (b0 :: rest) = (r, off, w) :: decodeAux fuel (off + w) ((b0 :: rest).drop w) := by
          simp [decodeAux, hdr, hw0]
        rw [hd] at hri ⊢
        have hlow : 128 ≤ ri.lower r := hri (r, off, w) (by simp) hr
        obtain ⟨hne, hall⟩ := encodeRune_nonascii (ri.lower r) hlow
        simp only [List.map_cons, List.flatten_cons]
        rw [runsAux_sep_block _ _ cur hne (fun b hb => nonalnum_of_ge b (hall b hb))]
        have hsplit : b0 :: rest = (b0 :: rest).take w ++ (b0 :: rest).drop w := (List.take_append_drop w _).symm
        have htne : (b0 :: rest).take w ≠ [] := by
          cases w with
          | zero => omega
          | succ w' => simp
        conv => rhs; rw [hsplit]
        rw [runsAux_sep_block _ _ cur htne (fun b hb => nonalnum_of_ge b (hbytes b hb))]
        congr 1
        apply ih
        · simp only [List.length_drop, List.length_cons]; omega
        · intro x hx; exact hri x (by simp [hx])

/-- **`tokenize (strings.ToLower s) = tokenize s`** for every byte string `s` (valid UTF-8 or not)
    none of whose non-ASCII code points is lower-cased to an ASCII one.  In Go's Unicode tables the
    only such code points are U+212A (→ `k`) and U+0130 (→ `i`): the driver domain `c03` checks that
    list against the toolchain over all 1,114,112 code points. -/
theorem tokenize_toLower (ri : RuneInfo) (s : Bytes)
    (h : ∀ r ∈ runes s, 128 ≤ r → 128 ≤ ri.lower r) : tokenize (toLower ri s) = tokenize s := by
  unfold toLower
  split
  · exact tokenize_lowerAscii s
  · unfold tokenize runs decode
    have := runsAux_toLower ri s.length 0 s [] (Nat.le_refl _) (by
      intro x hx hx1
      exact h x.1 (by unfold runes decode; exact List.mem_map_of_mem hx) hx1)
    have hm : (decodeAux s.length 0 s).map (fun (x : Nat × Nat × Nat) => encodeRune (ri.lower x.1)) =
        (decodeAux s.length 0 s).map (fun x => match x with | (r, _, _) => encodeRune (ri.lower r)) := by
      apply List.map_congr_left; intro x _; obtain ⟨r, o, w⟩ := x; rfl
    rw [hm] at this
    rw [this]

/-! ### keywords and tags: elements never glue -/

theorem runsAux_append_sep (x rest cur : Bytes) (sep : UInt8) (hs : isAlnumB sep = false) :
    runsAux (x ++ sep :: rest) cur = runsAux x cur ++ runsAux rest [] := by
  induction x generalizing cur with
  | nil =>
    simp only [List.nil_append, runsAux, hs, Bool.false_eq_true, ↓reduceIte]
    by_cases hc : cur.isEmpty <;> simp [hc]
  | cons b bs ih =>
    simp only [List.cons_append, runsAux]
    split
    · exact ih _
    · split
      · exact ih _
      · rw [ih]; rfl

theorem tokenize_append_sp (x rest : Bytes) : tokenize (x ++ 0x20 :: rest) = tokenize x ++ tokenize rest := by
  unfold tokenize runs
  rw [runsAux_append_sep x rest [] 0x20 (by decide), List.filter_append]

/-- tokens of `strings.Join(xs, " ")` = tokens of the elements, one element after the other -/
theorem tokenize_joinSp (xs : List Bytes) : tokenize (joinSp xs) = (xs.map tokenize).flatten := by
  induction xs with
  | nil => rfl
  | cons x rest ih =>
    cases rest with
    | nil => simp [joinSp]
    | cons y r =>
      simp only [joinSp, List.map_cons, List.flatten_cons] at ih ⊢
      rw [tokenize_append_sp, ih]

/-- no field of the command contains a non-ASCII code point that `ri` lower-cases to ASCII -/
def NoAsciiFold (ri : RuneInfo) (c : Cmd) : Prop :=
  ∀ s, (s = c.command ∨ s = c.description ∨ s ∈ c.keywords ∨ s ∈ c.tags) →
    ∀ r ∈ runes s, 128 ≤ r → 128 ≤ ri.lower r

theorem tokenize_text_of_wf (ri : RuneInfo) (raw low : Bytes) (hw : low = [] ∨ low = toLower ri raw)
    (h : ∀ r ∈ runes raw, 128 ≤ r → 128 ≤ ri.lower r) :
    tokenize (if low.isEmpty then raw else low) = tokenize raw := by
  cases hw with
  | inl e => simp [e]
  | inr e =>
    split
    · rfl
    · rw [e]; exact tokenize_toLower ri raw h

theorem tokenize_list_of_wf (ri : RuneInfo) (raw low : List Bytes) (hw : low = [] ∨ low = raw.map (toLower ri))
    (h : ∀ s ∈ raw, ∀ r ∈ runes s, 128 ≤ r → 128 ≤ ri.lower r) :
    tokenize (if !low.isEmpty then joinSp low else if !raw.isEmpty then joinSp raw else []) =
      (raw.map tokenize).flatten := by
  have hraw : tokenize (if !raw.isEmpty then joinSp raw else []) = (raw.map tokenize).flatten := by
    cases raw with
    | nil => rfl
    | cons a b => simp [tokenize_joinSp]
  cases hw with
  | inl e => subst e; simpa using hraw
  | inr e =>
    by_cases hr : raw = []
    · subst hr; subst e; rfl
    · have : low.isEmpty = false := by rw [e]; simp [hr]
      simp only [this, Bool.not_false, ↓reduceIte]
      rw [e, tokenize_joinSp, List.map_map]
      congr 1
      apply List.map_congr_left
      intro s hs
      exact tokenize_toLower ri s (h s hs)

/-- Under `WFCache`, for commands without the two exceptional code points, what the engine indexes
    is the tokenisation of the raw fields: command line, description, and — element by element —
    keywords and tags (elements never glue, never split differently). -/
theorem indexed_tokens (ri : RuneInfo) (c : Cmd) (hwf : WFCache ri c) (hn : NoAsciiFold ri c) :
    c.cmdTokens = tokenize c.command ∧ c.descTokens = tokenize c.description ∧
    c.keysTokens = (c.keywords.map tokenize).flatten ∧ c.tagsTokens = (c.tags.map tokenize).flatten := by
  refine ⟨?_, ?_, ?_, ?_⟩
  · exact tokenize_text_of_wf ri _ _ hwf.command (hn _ (Or.inl rfl))
  · exact tokenize_text_of_wf ri _ _ hwf.description (hn _ (Or.inr (Or.inl rfl)))
  · exact tokenize_list_of_wf ri _ _ hwf.keywords (fun s hs => hn s (Or.inr (Or.inr (Or.inl hs))))
  · exact tokenize_list_of_wf ri _ _ hwf.tags (fun s hs => hn s (Or.inr (Or.inr (Or.inr hs))))

end Wtf.Search
