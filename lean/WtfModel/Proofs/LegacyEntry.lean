import WtfModel.Proofs.LegacyScore
import WtfModel.Proofs.LegacyGate
import WtfModel.Proofs.C01Legacy
import WtfModel.Proofs.Metrics
/-
  C01 / C04 lemmas for the modelled legacy entry points (Model/LegacyEntry.lean): SearchWithPipelineOptions,
  SearchWithOptions, combineAndDeduplicateResults, SearchWithFuzzy, SearchWithNLP, GetSuggestions.
  Core Lean only.
-/
namespace Wtf.LegacyEntry
open Text GoStr ScoreOps ScoreLaws Filters Search Legacy LegacyScore

variable {S : Type} [ScoreOps S]

/-! ### the scan over `db.Commands` -/

omit [ScoreOps S] in
theorem scanWith_spec (f : Cmd → Option S) (db : Db) (i : Nat) :
    IncFrom i db.length (scanWith f i db) ∧
    ∀ x ∈ scanWith f i db, ∃ c, db[x.1 - i]? = some c ∧ f c = some x.2 := by
  induction db generalizing i with
  | nil => simp [scanWith, IncFrom]
  | cons c rest ih =>
    obtain ⟨h1, h2⟩ := ih (i + 1)
    have tail : ∀ x ∈ scanWith f (i + 1) rest, ∃ c', (c :: rest)[x.1 - i]? = some c' ∧ f c' = some x.2 := by
      intro x hx
      obtain ⟨c', hc', hf⟩ := h2 x hx
      have hge := (h1.2 x hx).1
      refine ⟨c', ?_, hf⟩
      have : x.1 - i = (x.1 - (i + 1)) + 1 := by omega
      rw [this, List.getElem?_cons_succ]; exact hc'
    simp only [scanWith, List.length_cons]
    split
    · rename_i s hs
      refine ⟨incFrom_cons _ h1, ?_⟩
      intro x hx
      simp only [List.mem_cons] at hx
      cases hx with
      | inl hx => subst hx; exact ⟨c, by simp, hs⟩
      | inr hx => exact tail x hx
    · exact ⟨incFrom_skip h1, tail⟩

omit [ScoreOps S] in
theorem scanWith_zero (f : Cmd → Option S) (db : Db) :
    IncFrom 0 db.length (scanWith f 0 db) ∧ ∀ x ∈ scanWith f 0 db, ∃ c, db[x.1]? = some c ∧ f c = some x.2 := by
  obtain ⟨h1, h2⟩ := scanWith_spec f db 0
  exact ⟨h1, fun x hx => by simpa using h2 x hx⟩

omit [ScoreOps S] in
theorem post_take [ScoreOps S] {n k : Nat} {l : List (Nat × S)} (h : Post n k l) (m : Nat) : Post n m (l.take m) :=
  ⟨List.length_take_le _ _, fun x hx => h.real x (List.mem_of_mem_take hx),
   ((List.take_sublist m l).map _).nodup h.nodup, h.sorted.sublist (List.take_sublist _ _),
   fun x hx => h.nonneg x (List.mem_of_mem_take hx)⟩

theorem searchPipeline_post [ScoreLaws S] (fin : S → S) (ri : RuneInfo) (db : Db) (q : Bytes) (o : Opts S) :
    Post db.length (pipelineLimit o.limit).toNat (searchPipeline fin ri db q o) := by
  unfold searchPipeline
  obtain ⟨h1, h2⟩ := scanWith_zero (pipelineScore fin ri o.boosts (queryWords ri q) o.pipelineOnly o.pipelineBoost) db
  refine sortAndLimit_post (idsOK_of_incFrom h1) ?_ _
  intro x hx
  obtain ⟨c, _, hf⟩ := h2 x hx
  exact pos_nonneg (pipelineScore_some hf).1

/-- every returned score is strictly positive, whatever the boosts (the `score > 0` admission test) -/
theorem searchPipeline_pos (fin : S → S) (ri : RuneInfo) (db : Db) (q : Bytes) (o : Opts S) :
    ∀ x ∈ searchPipeline fin ri db q o, lt (zero : S) x.2 = true := by
  intro x hx
  obtain ⟨c, _, hf⟩ := (scanWith_zero _ db).2 x (mem_sortAndLimit hx)
  exact (pipelineScore_some hf).1

theorem searchWithOptions_post [ScoreLaws S] (fin : S → S) (ri : RuneInfo) (host : Bytes) (db : Db) (q : Bytes) (limit : Int)
    (boosts : List (Bytes × S)) :
    Post db.length (optionsLimit limit).toNat (searchWithOptions fin ri host db q limit boosts) := by
  unfold searchWithOptions
  obtain ⟨h1, h2⟩ := scanWith_zero (platformScore fin ri host boosts (queryWords ri q)) db
  refine sortAndLimit_post (idsOK_of_incFrom h1) ?_ _
  intro x hx
  obtain ⟨c, _, hf⟩ := h2 x hx
  exact pos_nonneg (platformScore_some hf).1

theorem searchWithOptions_pos (fin : S → S) (ri : RuneInfo) (host : Bytes) (db : Db) (q : Bytes) (limit : Int)
    (boosts : List (Bytes × S)) :
    ∀ x ∈ searchWithOptions fin ri host db q limit boosts, lt (zero : S) x.2 = true := by
  intro x hx
  obtain ⟨c, _, hf⟩ := (scanWith_zero _ db).2 x (mem_sortAndLimit hx)
  exact (platformScore_some hf).1

/-- no key — hence no entry — twice in `combined` -/
theorem combinedList_keys_nodup (db : Db) (exact fuzzy : List (Nat × S)) :
    ((combinedList db exact fuzzy).map (fun x => dedupKey db x.1)).Nodup := by
  rw [combinedList_eq, List.map_append, List.nodup_append]
  obtain ⟨_, _, e3, e4, _⟩ := dedupLoop_spec db (fun s : S => s) exact []
  obtain ⟨_, f2, f3, _, _⟩ := dedupLoop_spec db (fun s : S => mul s (ofQ Gen.LegacyScore.fuzzyDiscount)) fuzzy
    (dedupLoop db (fun s => s) [] exact).2
  refine ⟨e3, f3, ?_⟩
  intro a ha b hb hab
  subst hab
  rw [List.mem_map] at hb
  obtain ⟨y, hy, he⟩ := hb
  apply f2 y hy
  rw [he, e4]
  exact .inr ha

theorem combinedList_ids_nodup (db : Db) (exact fuzzy : List (Nat × S)) :
    ((combinedList db exact fuzzy).map (·.1)).Nodup := by
  have h := combinedList_keys_nodup db exact fuzzy
  unfold List.Nodup at h ⊢
  rw [List.pairwise_map] at h ⊢
  exact h.imp (fun hab he => hab (by rw [he]))

/-- combineAndDeduplicateResults: the five clauses, for any two lists of valid positions with non-negative scores -/
theorem combine_post [ScoreLaws S] (db : Db) {n : Nat} (exact fuzzy : List (Nat × S)) (limit : Nat)
    (he : ∀ x ∈ exact, x.1 < n ∧ Nonneg x.2) (hf : ∀ x ∈ fuzzy, x.1 < n ∧ Nonneg x.2) :
    Post n limit (combine db exact fuzzy limit) := by
  have hmem : ∀ x ∈ combinedList db exact fuzzy, x.1 < n ∧ Nonneg x.2 := by
    intro x hx
    rw [combinedList_eq, List.mem_append] at hx
    cases hx with
    | inl hx => exact he x (exactPart_sub db exact x hx)
    | inr hx =>
      obtain ⟨y, hy, rfl⟩ := typoPart_sub db exact fuzzy x hx
      exact ⟨(hf y hy).1, mul_nonneg _ _ (hf y hy).2 (ofQ_nonneg' literals_nonneg.2.2.2.2.2.2.2.2.2.2.2.2.2.2.2.2.2.2.2.2.1)⟩
  exact sortAndLimit_post ⟨combinedList_ids_nodup db exact fuzzy, fun x hx => (hmem x hx).1⟩ (fun x hx => (hmem x hx).2) limit

/-- "exact results first": an exact result precedes every typo result whose (discounted) score is not
    strictly higher — `sort.SliceStable` keeps the order in which `combined` was filled -/
theorem combine_exact_first [ScoreLaws S] (db : Db) (exact fuzzy : List (Nat × S)) (a b : Nat × S)
    (ha : a ∈ exactPart db exact) (hb : b ∈ typoPart db exact fuzzy) (hge : lt a.2 b.2 = false) :
    [a, b].Sublist (sortDesc (·.2) (combinedList db exact fuzzy)) := by
  unfold sortDesc
  apply List.pair_sublist_mergeSort
  · intro x y z h1 h2
    simp only [Bool.not_eq_eq_eq_not, Bool.not_true] at h1 h2 ⊢
    exact ScoreLaws.le_trans _ _ _ h1 h2
  · intro x y
    cases h : lt x.2 y.2 with
    | false => simp
    | true => simp [ScoreLaws.lt_asymm _ _ h]
  · simp [hge]
  · rw [combinedList_eq]
    have h1 : [a].Sublist (exactPart db exact) := List.singleton_sublist.mpr ha
    have h2 : [b].Sublist (typoPart db exact fuzzy) := List.singleton_sublist.mpr hb
    exact h1.append h2

/-! ### SearchWithFuzzy -/

theorem performFuzzy_spec [ScoreLaws S] (T : Tuning S) (db : Db) (q : Bytes) (o : Opts S) (limit : Int) (r : List (Nat × S))
    (h : performFuzzy T db q o limit = .ok r) : ∀ x ∈ r, x.1 < db.length ∧ Nonneg x.2 := by
  unfold performFuzzy at h
  split at h
  · cases h
  · simp only [Except.ok.injEq] at h
    obtain ⟨sub, _, helig, heq, _⟩ := fuzzyCollect_spec T db o (wrap64 (limit * (fuzzyMult : Int))).toNat (T.fuzzySort _) []
    simp only [List.reverse_nil, List.nil_append] at heq
    rw [heq] at h
    subst h
    intro x hx
    rw [List.mem_map] at hx
    obtain ⟨y, hy, rfl⟩ := hx
    exact ⟨eligible_lt (helig y hy), normalizeFuzzy_nonneg _⟩

/-- **SearchWithFuzzy**: the five clauses with the limit in force, on every one of its three exits;
    no hypothesis on the parameters (the de-duplication is by key and the last step is a stable sort). -/
theorem searchWithFuzzy_post [ScoreLaws S] (fin : S → S) (T : Tuning S) (db : Db) (q : Bytes) (o : Opts S)
    (r : List (Nat × S)) (h : searchWithFuzzy fin T db q o = .ok r) :
    Post db.length (fuzzyLimit o.limit).toNat r := by
  have hex := searchWithOptions_post fin T.ri T.host db q (exactLimit (fuzzyLimit o.limit)) o.boosts
  unfold searchWithFuzzy at h
  simp only at h
  split at h
  · simp only [Except.ok.injEq] at h; subst h; exact post_take hex _
  · split at h
    · split at h
      · cases h
      · rename_i fz hfz
        simp only [Except.ok.injEq] at h
        subst h
        exact combine_post db _ fz _ (fun x hx => ⟨hex.real x hx, hex.nonneg x hx⟩) (performFuzzy_spec T db q _ _ fz hfz)
    · simp only [Except.ok.injEq] at h; subst h; exact post_take hex _

/-! ### SearchWithNLP -/

/-- what the shared-searcher branch relies on: `TFIDFSearcher.Search` returns each command at most once,
    best similarity first (sort.SliceStable, translator assertion legacyscore:tfidf-search-tail), with
    non-negative similarities (only similarities > 0.01 are kept).  `Tfidf.search_rankOK` proves it for
    the model of the searcher. -/
def RankOK (l : List (Nat × S)) : Prop :=
  (l.map (·.1)).Nodup ∧ l.Pairwise (fun a b => lt a.2 b.2 = false) ∧ ∀ x ∈ l, Nonneg x.2

theorem nlpShared_post [ScoreLaws S] (db : Db) (rank : Bytes → List (Nat × S)) (q : Bytes) (limit : Int)
    (hr : RankOK (rank q)) : Post db.length limit.toNat (nlpShared db rank q limit) := by
  obtain ⟨hn, hs, hnn⟩ := hr
  unfold nlpShared
  apply post_take (k := ((((rank q).take (candidateLimit limit).toNat).filter (fun x => decide (x.1 < db.length))).map
    (fun x => (x.1, mul x.2 (ofQ Gen.LegacyScore.similarityScale)))).length)
  have hsub : (((rank q).take (candidateLimit limit).toNat).filter (fun x => decide (x.1 < db.length))).Sublist (rank q) :=
    List.filter_sublist.trans (List.take_sublist _ _)
  have hc : Nonneg (ofQ Gen.LegacyScore.similarityScale : S) :=
    ofQ_nonneg' literals_nonneg.2.2.2.2.2.2.2.2.2.2.2.2.2.2.2.2.2.2.2.2.2.1
  refine ⟨Nat.le_refl _, ?_, ?_, ?_, ?_⟩
  · intro x hx
    rw [List.mem_map] at hx
    obtain ⟨y, hy, rfl⟩ := hx
    simpa using (List.mem_filter.mp hy).2
  · rw [List.map_map]
    exact (hsub.map (·.1)).nodup hn
  · rw [List.pairwise_map]
    exact (hs.sublist hsub).imp (fun hab => mul_le_mul_right _ _ _ hab hc)
  · intro x hx
    rw [List.mem_map] at hx
    obtain ⟨y, hy, rfl⟩ := hx
    exact mul_nonneg _ _ (hnn y (hsub.subset hy)) hc

omit [ScoreOps S] in
theorem rankOK_nil [ScoreOps S] : RankOK ([] : List (Nat × S)) := ⟨by simp, by simp, by simp⟩

/-- the hypothesis of `nlpShared_post` holds for the model of `TFIDFSearcher.Search` (Model/Tfidf.lean) with any
    non-negative similarity threshold (the code's is 0.01), whatever `sqrt` and the idf table are -/
theorem tfidf_search_rankOK [ScoreLaws S] (ri : RuneInfo) (sqrt : S → S) (minSim : S) (hm : Nonneg minSim)
    (idx : Tfidf.Index S) (q : Bytes) (limit : Nat) : RankOK (Tfidf.search ri sqrt minSim idx q limit) := by
  unfold Tfidf.search
  simp only
  split
  · exact rankOK_nil
  · split
    · exact rankOK_nil
    · generalize hf : (fun d => if lt minSim (Tfidf.cosine _ _ (idx.vecs.getD d []) (idx.norms.getD d zero)) = true
          then some (d, Tfidf.cosine _ _ (idx.vecs.getD d []) (idx.norms.getD d zero)) else none : Nat → Option (Nat × S)) = f
      have hfst : ∀ d x, f d = some x → x.1 = d ∧ lt minSim x.2 = true := by
        intro d x hx
        rw [← hf] at hx
        simp only at hx
        split at hx
        · rename_i hlt
          simp only [Option.some.injEq] at hx
          subst hx
          exact ⟨rfl, hlt⟩
        · cases hx
      have hids : (((List.range idx.n).filterMap f).map (·.1)).Nodup := by
        unfold List.Nodup
        rw [List.pairwise_map]
        apply List.Pairwise.filterMap f _ (List.nodup_range (n := idx.n))
        intro a a' hne b hb b' hb' heq
        exact hne (by rw [← (hfst a b hb).1, ← (hfst a' b' hb').1, heq])
      have hsorted := sortDesc_sorted (S := S) (fun x : Nat × S => x.2) ((List.range idx.n).filterMap f)
      refine ⟨?_, ?_, ?_⟩
      · exact ((List.take_sublist _ _).map _).nodup ((sortDesc_map_perm (fun x : Nat × S => x.2) (·.1) _).nodup_iff.mpr hids)
      · exact hsorted.sublist (List.take_sublist _ _)
      · intro x hx
        have hx := (mem_sortDesc (S := S) (fun x : Nat × S => x.2)).mp (List.mem_of_mem_take hx)
        rw [List.mem_filterMap] at hx
        obtain ⟨d, _, hd⟩ := hx
        have hlt := (hfst d x hd).2
        exact ScoreLaws.le_trans _ _ _ (lt_asymm _ _ hlt) hm

/-- The branch without shared searcher: everything but "no entry twice" (the TF-IDF results and the
    fallback results are appended without de-duplication — witness in Props/C01b.lean). -/
theorem nlpTemporary_partial [ScoreLaws S] (fin : S → S) (T : Tuning S) (tmp : Bytes → List (Nat × S)) (db : Db) (q : Bytes)
    (o : Opts S) (limit : Int) (r : List (Nat × S))
    (htmp : ∀ x ∈ tmp q, x.1 < db.length ∧ Nonneg x.2) (hib : ∀ d, Nonneg ((T.nlp q).intentBoost d))
    (h : nlpTemporary fin T tmp db q o limit = .ok r) :
    r.length ≤ limit.toNat ∧ (∀ x ∈ r, x.1 < db.length) ∧ r.Pairwise (fun a b => lt a.2 b.2 = false) ∧
    (∀ x ∈ r, Nonneg x.2) := by
  unfold nlpTemporary at h
  simp only at h
  split at h
  · cases h
  · rename_i fbr hfb
    simp only [Except.ok.injEq] at h
    subst h
    have hres : ∀ x ∈ ((tmp q).take (candidateLimit limit).toNat).map (fun x => (x.1, mul x.2 (ofQ tfidfScoreScale))),
        x.1 < db.length ∧ Nonneg x.2 := by
      intro x hx
      rw [List.mem_map] at hx
      obtain ⟨y, hy, rfl⟩ := hx
      have := htmp y (List.mem_of_mem_take hy)
      exact ⟨this.1, mul_nonneg _ _ this.2 (ofQ_nonneg _ (by decide) (by decide))⟩
    have hfbr : ∀ x ∈ fbr, x.1 < db.length ∧ Nonneg x.2 := by
      split at hfb
      · unfold nlpFallback at hfb
        simp only at hfb
        split at hfb
        · cases hfb
        · rename_i fb hsf
          simp only [Except.ok.injEq] at hfb
          subst hfb
          have hp := searchWithFuzzy_post fin T db _ _ fb hsf
          intro x hx
          rw [List.mem_map] at hx
          obtain ⟨y, hy, rfl⟩ := hx
          exact ⟨hp.real y hy, mul_nonneg _ _ (hp.nonneg y hy)
            (mul_nonneg _ _ (hib _) (ofQ_nonneg' literals_nonneg.2.2.2.2.2.2.2.2.2.2.2.2.2.2.2.2.2.2.2.2.2.2))⟩
      · simp only [Except.ok.injEq] at hfb
        subst hfb
        intro x hx; cases hx
    have hall : ∀ x ∈ ((tmp q).take (candidateLimit limit).toNat).map (fun x => (x.1, mul x.2 (ofQ tfidfScoreScale))) ++ fbr,
        x.1 < db.length ∧ Nonneg x.2 := by
      intro x hx
      rw [List.mem_append] at hx
      cases hx with
      | inl hx => exact hres x hx
      | inr hx => exact hfbr x hx
    refine ⟨List.length_take_le _ _, ?_, ?_, ?_⟩
    · intro x hx
      exact (hall x ((mem_sortDesc _).mp (List.mem_of_mem_take hx))).1
    · exact (sortDesc_sorted (S := S) (fun x : Nat × S => x.2) _).sublist (List.take_sublist _ _)
    · intro x hx
      exact (hall x ((mem_sortDesc _).mp (List.mem_of_mem_take hx))).2

/-- `results` of the temporary branch just before the final `sort.SliceStable` -/
def nlpTemporaryUnsorted (fin : S → S) (T : Tuning S) (tmp : Bytes → List (Nat × S)) (db : Db) (q : Bytes) (o : Opts S)
    (limit : Int) : Except Fuzzy.Panic (List (Nat × S)) :=
  let res := ((tmp q).take (candidateLimit limit).toNat).map (fun x => (x.1, mul x.2 (ofQ tfidfScoreScale)))
  let fb : Except Fuzzy.Panic (List (Nat × S)) :=
    if (res.length : Int) < limit then nlpFallback fin T db q o (limit - res.length) else .ok []
  match fb with
  | .error e => .error e
  | .ok fbr => .ok (res ++ fbr)

theorem nlpTemporary_eq (fin : S → S) (T : Tuning S) (tmp : Bytes → List (Nat × S)) (db : Db) (q : Bytes) (o : Opts S)
    (limit : Int) : nlpTemporary fin T tmp db q o limit =
      match nlpTemporaryUnsorted fin T tmp db q o limit with
      | .error e => .error e
      | .ok l => .ok ((sortDesc (·.2) l).take limit.toNat) := by
  unfold nlpTemporary nlpTemporaryUnsorted
  simp only
  split <;> simp_all

/-- a sorted-and-cut list that was not longer than the cut has the ids of the unsorted one -/
theorem ids_perm_of_short (l : List (Nat × S)) (n : Nat) (h : l.length ≤ n) :
    (((sortDesc (·.2) l).take n).map (·.1)).Perm (l.map (·.1)) := by
  rw [List.take_of_length_le (by rw [length_sortDesc]; exact h)]
  exact sortDesc_map_perm _ _ _

/-! ### GetSuggestions -/

omit [ScoreOps S] in
theorem getSuggestions_length (T : Tuning S) (db : Db) (q : Bytes) (m : Int) (r : List Bytes)
    (h : getSuggestions T db q m = .ok r) : r.length ≤ (suggestMax m).toNat := by
  unfold getSuggestions at h
  simp only at h
  split at h
  · cases h
  · simp only [Except.ok.injEq] at h
    subst h
    exact Nat.le_trans (List.length_filterMap_le _ _) (List.length_take_le _ _)

omit [ScoreOps S] in
theorem getSuggestions_mem (T : Tuning S) (db : Db) (q : Bytes) (m : Int) (r : List Bytes)
    (h : getSuggestions T db q m = .ok r) : ∀ w ∈ r, w ∈ suggestionWords T.ri db := by
  unfold getSuggestions at h
  simp only at h
  split at h
  · cases h
  · simp only [Except.ok.injEq] at h
    subst h
    intro w hw
    rw [List.mem_filterMap] at hw
    obtain ⟨a, _, ha⟩ := hw
    split at ha
    · exact List.mem_of_getElem? ha
    · cases ha

omit [ScoreOps S] in
/-- no suggestion twice, given that the candidate list has no word twice (`suggestionWords_nodup`) and that
    the library's sort permutes the matches (`FuzzySortOK`) -/
theorem getSuggestions_nodup (T : Tuning S) (hF : FuzzySortOK T) (db : Db) (q : Bytes) (m : Int) (r : List Bytes)
    (hw : (suggestionWords T.ri db).Nodup) (h : getSuggestions T db q m = .ok r) : r.Nodup := by
  unfold getSuggestions at h
  simp only at h
  split at h
  · cases h
  · rename_i ms hms
    simp only [Except.ok.injEq] at h
    subst h
    obtain ⟨hinc, _⟩ := findNoSort_spec _ _ _ _ hms
    have hms : (ms.map (·.1)).Nodup := hinc.imp (fun hab => Nat.ne_of_lt hab)
    have hnd : ((T.fuzzySort ms).map (·.1)).Nodup := ((hF ms).1.map (·.1)).nodup_iff.mpr hms
    have hnd' : (((T.fuzzySort ms).take (suggestMax m).toNat).map (·.1)).Nodup :=
      ((List.take_sublist _ _).map _).nodup hnd
    unfold List.Nodup at hnd' ⊢
    rw [List.pairwise_map] at hnd'
    apply List.Pairwise.filterMap _ _ hnd'
    intro a a' hne b hb b' hb' heq
    subst heq
    split at hb
    · split at hb'
      · have hlt : a.1 < (suggestionWords T.ri db).length := (List.getElem?_eq_some_iff.mp hb).1
        exact hne ((List.getElem?_inj hlt hw).mp (hb.trans hb'.symm))
      · cases hb'
    · cases hb

/-! ### the candidate words: a sorted duplicate-free list that depends only on the SET of words -/

theorem mem_dedup_foldl (l acc : List Bytes) (w : Bytes) :
    w ∈ l.foldl (fun acc w => if acc.contains w then acc else acc ++ [w]) acc ↔ w ∈ acc ∨ w ∈ l := by
  induction l generalizing acc with
  | nil => simp
  | cons x xs ih =>
    simp only [List.foldl_cons]
    rw [ih]
    split
    · rename_i hc
      have : x ∈ acc := List.contains_iff_mem.mp hc
      constructor
      · rintro (h | h)
        · exact .inl h
        · exact .inr (List.mem_cons_of_mem _ h)
      · rintro (h | h)
        · exact .inl h
        · simp only [List.mem_cons] at h
          cases h with
          | inl h => subst h; exact .inl this
          | inr h => exact .inr h
    · simp only [List.mem_append, List.mem_cons, List.not_mem_nil, or_false]
      constructor
      · rintro ((h | h) | h)
        · exact .inl h
        · exact .inr (.inl h)
        · exact .inr (.inr h)
      · rintro (h | h | h)
        · exact .inl (.inl h)
        · exact .inl (.inr h)
        · exact .inr h

theorem nodup_dedup_foldl (l acc : List Bytes) (h : acc.Nodup) :
    (l.foldl (fun acc w => if acc.contains w then acc else acc ++ [w]) acc).Nodup := by
  induction l generalizing acc with
  | nil => exact h
  | cons x xs ih =>
    simp only [List.foldl_cons]
    apply ih
    split
    · exact h
    · rename_i hc
      rw [List.nodup_append]
      refine ⟨h, by simp, ?_⟩
      intro a ha b hb hab
      simp only [List.mem_singleton] at hb
      subst hb; subst hab
      exact hc (List.contains_iff_mem.mpr ha)

theorem mem_dedup (l : List Bytes) (w : Bytes) : w ∈ Tfidf.dedup l ↔ w ∈ l := by
  unfold Tfidf.dedup
  rw [mem_dedup_foldl]; simp

theorem nodup_dedup (l : List Bytes) : (Tfidf.dedup l).Nodup := nodup_dedup_foldl l [] (by simp)

theorem tfidf_bytesLe_eq : ∀ a b : Bytes, Tfidf.bytesLe a b = Metrics.bytesLe a b := by
  have key : ∀ a b : Bytes, Tfidf.bytesLt b a = !Metrics.bytesLe a b := by
    intro a
    induction a with
    | nil => intro b; cases b <;> simp [Tfidf.bytesLt, Metrics.bytesLe]
    | cons x xs ih =>
      intro b
      cases b with
      | nil => simp [Tfidf.bytesLt, Metrics.bytesLe]
      | cons y ys =>
        simp only [Tfidf.bytesLt, Metrics.bytesLe]
        by_cases h1 : y < x
        · have h1' : y.toNat < x.toNat := UInt8.lt_iff_toNat_lt.mp h1
          have h2' : ¬ x.toNat < y.toNat := by omega
          simp [h1, h1', h2']
        · by_cases h2 : x < y
          · have h2' : x.toNat < y.toNat := UInt8.lt_iff_toNat_lt.mp h2
            simp [h1, h2, h2']
          · have h1' : ¬ y.toNat < x.toNat := fun h => h1 (UInt8.lt_iff_toNat_lt.mpr h)
            have h2' : ¬ x.toNat < y.toNat := fun h => h2 (UInt8.lt_iff_toNat_lt.mpr h)
            simp [h1, h2, h1', h2', ih]
  intro a b
  unfold Tfidf.bytesLe
  rw [key]; simp

theorem sortWords_eq (l : List Bytes) : Tfidf.sortWords l = Metrics.sortBy Metrics.bytesLe l := by
  unfold Tfidf.sortWords
  induction l with
  | nil => rfl
  | cons x xs ih =>
    simp only [List.foldr_cons, Metrics.sortBy]
    rw [ih]
    generalize Metrics.sortBy Metrics.bytesLe xs = s
    induction s with
    | nil => rfl
    | cons y ys ih2 => simp only [Tfidf.insertSorted, Metrics.insertBy, tfidf_bytesLe_eq, ih2]

/-- `sort.Strings` of the set's keys: ascending in Go's string order, no word twice -/
theorem sortedWords_spec (l : List Bytes) :
    (Tfidf.sortWords (Tfidf.dedup l)).Pairwise (fun a b => Metrics.bytesLe a b = true) ∧
    (Tfidf.sortWords (Tfidf.dedup l)).Nodup ∧ ∀ w, w ∈ Tfidf.sortWords (Tfidf.dedup l) ↔ w ∈ l := by
  rw [sortWords_eq]
  refine ⟨Metrics.sortBy_sorted _ Metrics.bytesLe_total Metrics.bytesLe_trans _, ?_, ?_⟩
  · exact (Metrics.sortBy_perm _ _).nodup_iff.mpr (nodup_dedup l)
  · intro w
    rw [(Metrics.sortBy_perm _ _).mem_iff, mem_dedup]

/-- **determinism of the candidate list**: it depends only on which words were inserted into `wordSet`,
    not on the order (Go: map iteration order) in which they are enumerated -/
theorem sortedWords_set_only (l₁ l₂ : List Bytes) (h : ∀ w, w ∈ l₁ ↔ w ∈ l₂) :
    Tfidf.sortWords (Tfidf.dedup l₁) = Tfidf.sortWords (Tfidf.dedup l₂) := by
  rw [sortWords_eq, sortWords_eq]
  apply Metrics.sortBy_perm_eq _ Metrics.bytesLe_total Metrics.bytesLe_trans Metrics.bytesLe_antisymm
  rw [List.perm_ext_iff_of_nodup (nodup_dedup l₁) (nodup_dedup l₂)]
  intro w
  rw [mem_dedup, mem_dedup]; exact h w

/-- any enumeration of the key set (a duplicate-free list with the same members) sorts to the model's list -/
theorem sortedWords_any_enumeration (l σ : List Bytes) (hσ : σ.Nodup) (hm : ∀ w, w ∈ σ ↔ w ∈ l) :
    Tfidf.sortWords σ = Tfidf.sortWords (Tfidf.dedup l) := by
  rw [sortWords_eq, sortWords_eq]
  apply Metrics.sortBy_perm_eq _ Metrics.bytesLe_total Metrics.bytesLe_trans Metrics.bytesLe_antisymm
  rw [List.perm_ext_iff_of_nodup hσ (nodup_dedup l)]
  intro w
  rw [mem_dedup]; exact hm w

/-- replacing NUL by a space is injective on words that contain no space -/
theorem nulToSpace_inj {a b : Bytes} (ha : (0x20 : UInt8) ∉ a) (hb : (0x20 : UInt8) ∉ b)
    (h : nulToSpace a = nulToSpace b) : a = b := by
  induction a generalizing b with
  | nil => cases b with
    | nil => rfl
    | cons y ys => simp [nulToSpace] at h
  | cons x xs ih =>
    cases b with
    | nil => simp [nulToSpace] at h
    | cons y ys =>
      simp only [nulToSpace, List.map_cons, List.cons.injEq] at h
      simp only [List.mem_cons, not_or] at ha hb
      have hxy : x = y := by
        by_cases hx : x = 0
        · by_cases hy : y = 0
          · rw [hx, hy]
          · simp only [hx, beq_self_eq_true, ↓reduceIte, beq_iff_eq, hy] at h
            exact absurd h.1 hb.1
        · by_cases hy : y = 0
          · simp only [beq_iff_eq, hx, ↓reduceIte, hy, beq_self_eq_true] at h
            exact absurd h.1.symm ha.1
          · simpa [hx, hy] using h.1
      rw [hxy, ih ha.2 hb.2 (by simpa [nulToSpace] using h.2)]

/-- strings.Fields never yields a field with a space, strings.Trim takes a sub-string and strings.ToLower maps
    no rune to U+0020: stated as a predicate on the inserted words (monitored on the real values). -/
def SpaceFree (ri : RuneInfo) (db : Db) : Prop := ∀ w ∈ wordInsertions ri db, (0x20 : UInt8) ∉ w

theorem suggestionWords_nodup (ri : RuneInfo) (db : Db) (h : SpaceFree ri db) : (suggestionWords ri db).Nodup := by
  unfold suggestionWords
  obtain ⟨_, hnd, hmem⟩ := sortedWords_spec (wordInsertions ri db)
  unfold List.Nodup at hnd ⊢
  rw [List.pairwise_iff_forall_sublist] at hnd
  rw [List.pairwise_map, List.pairwise_iff_forall_sublist]
  intro a b hab heq
  have ha : a ∈ Tfidf.sortWords (Tfidf.dedup (wordInsertions ri db)) := hab.subset (by simp)
  have hb : b ∈ Tfidf.sortWords (Tfidf.dedup (wordInsertions ri db)) := hab.subset (by simp)
  exact hnd hab (nulToSpace_inj (h a ((hmem a).mp ha)) (h b ((hmem b).mp hb)) heq)

end Wtf.LegacyEntry
