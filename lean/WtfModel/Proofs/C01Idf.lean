import WtfModel.Proofs.C01Search
import WtfModel.Proofs.ScoreField
import Mathlib.Analysis.SpecialFunctions.Log.Basic
/-
  C01: the idf hypothesis (`IdfNonneg`) holds for the formula in `bm25IDF`
      math.Log((N - df + 0.5)/(df + 0.5) + 1)
  read over ℝ, whenever `df ≤ N` — which is the only region the index ever asks for (`dfLeN_build`).
  Mathlib is used here only.
-/
namespace Wtf.Search

/-- `bm25IDF` over the reals -/
noncomputable def realIdf (n df : Nat) : ℝ := Real.log (((n : ℝ) - (df : ℝ) + 1 / 2) / ((df : ℝ) + 1 / 2) + 1)

theorem bm25_idf_real_nonneg (n df : Nat) (h : df ≤ n) : 0 ≤ realIdf n df := by
  unfold realIdf
  apply Real.log_nonneg
  have h1 : (0 : ℝ) ≤ (n : ℝ) - (df : ℝ) := sub_nonneg.mpr (Nat.cast_le.mpr h)
  have h2 : (0 : ℝ) ≤ ((n : ℝ) - (df : ℝ) + 1 / 2) / ((df : ℝ) + 1 / 2) := by positivity
  linarith

/-- … and it is strictly positive there (so a matching term always contributes) -/
theorem bm25_idf_real_pos (n df : Nat) (h : df ≤ n) : 0 < realIdf n df := by
  unfold realIdf
  apply Real.log_pos
  have h1 : (0 : ℝ) ≤ (n : ℝ) - (df : ℝ) := sub_nonneg.mpr (Nat.cast_le.mpr h)
  have h2 : (0 : ℝ) < ((n : ℝ) - (df : ℝ) + 1 / 2) / ((df : ℝ) + 1 / 2) := by positivity
  linarith

/-- outside that region the formula *can* be negative (why the hypothesis is restricted to `df ≤ N`) -/
theorem bm25_idf_real_neg_outside : realIdf 0 2 < 0 := by
  unfold realIdf
  apply Real.log_neg
  · norm_num
  · norm_num

/-- the model's idf hypothesis is met by the real-valued BM25 idf, for any other parameter values -/
theorem idfNonneg_real (T : @Tuning ℝ) (h : T.idf = realIdf) : @IdfNonneg ℝ (fieldScoreOps ℝ) T := by
  intro n df hle
  rw [h]
  have := bm25_idf_real_nonneg n df hle
  show decide (realIdf n df < 0) = false
  simpa using this

end Wtf.Search
