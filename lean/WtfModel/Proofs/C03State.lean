import WtfModel.Model.DbState
import WtfModel.Proofs.C03Index
/-
  C03, part 4: freshness of index and re-ranker over histories of load / merge / replace / append
  operations (state machine in Model/DbState.lean).  Core Lean only.
-/
namespace Wtf.Search
open Text Index Filters ScoreOps GoStr

variable {S : Type} [ScoreOps S]

theorem searchWith_build (T : Tuning S) (db : Db) (q : Bytes) (o : Opts S) :
    searchWith T db (build db) q o = search T db q o := rfl

/-- the operations the property speaks about: load, merge, UpdateDatabase, growth, search -/
def Op.InScope : Op S → Prop
  | .replaceDirect _ => False
  | _ => True

namespace DbState

/-- every state reachable through in-scope operations: either nothing was built yet, or index and
    re-ranker were both built from a prefix `src` of the current commands (the rest was appended
    behind the engine's back since) -/
def Inv (s : DbState) : Prop :=
  s.idx = none ∨ ∃ src extra, s.idx = some (build src) ∧ s.rr = some src ∧ s.cmds = src ++ extra

theorem inv_init : Inv init := Or.inl rfl

theorem inv_built (cmds : List Cmd) : Inv (built cmds) := Or.inr ⟨cmds, [], rfl, rfl, by simp [built]⟩

/-- the lazy rebuild brings every such state to the freshly built one -/
theorem refresh_of_inv {s : DbState} (h : Inv s) : s.refresh = built s.cmds := by
  unfold refresh needsRebuild
  cases h with
  | inl h => simp [h]
  | inr h =>
    obtain ⟨src, extra, hi, hr, hc⟩ := h
    simp only [hi, (buildSpec_build src).n, hc, List.length_append]
    by_cases he : extra = []
    · subst he
      obtain ⟨cmds, idx, rr⟩ := s
      simp only at hi hr hc
      subst hi hr hc
      simp [built]
    · have : extra.length ≠ 0 := by simpa using he
      have hne : (src.length != src.length + extra.length) = true := by simp; omega
      simp [hne]

theorem inv_refresh {s : DbState} (h : Inv s) : Inv s.refresh := by
  rw [refresh_of_inv h]; exact inv_built _

omit [ScoreOps S] in
theorem inv_step (ri : RuneInfo) {s : DbState} (h : Inv s) (op : Op S) (hop : op.InScope) : Inv (step ri s op) := by
  cases op with
  | load raw => exact inv_built _
  | loadWithPersonal m p => cases p <;> exact inv_built _
  | update cs => exact inv_built _
  | growDirect more =>
    cases h with
    | inl h => exact Or.inl h
    | inr h =>
      obtain ⟨src, extra, hi, hr, hc⟩ := h
      exact Or.inr ⟨src, extra ++ more, hi, hr, by simp [step, hc]⟩
  | replaceDirect cs => exact False.elim hop
  | search q o => exact inv_refresh h

omit [ScoreOps S] in
theorem inv_run (ri : RuneInfo) {s : DbState} (h : Inv s) (ops : List (Op S)) (hops : ∀ op ∈ ops, op.InScope) :
    Inv (run ri s ops) := by
  unfold run
  induction ops generalizing s with
  | nil => exact h
  | cons op rest ih =>
    simp only [List.foldl_cons]
    exact ih (inv_step ri h op (hops op (by simp))) (fun o ho => hops o (by simp [ho]))

theorem refresh_idx (s : DbState) : s.refresh.idx.isSome = true := by
  unfold refresh needsRebuild
  cases h : s.idx with
  | none => simp [built]
  | some i => by_cases hn : (i.n != s.cmds.length) = true <;> simp [hn, h, built]

/-- the answer given in an invariant state is the answer of a database freshly built from the
    current commands (index = `build cmds`, re-ranker built from `cmds`) -/
theorem answer_of_inv (T : Tuning S) (mk : List Cmd → Bytes → List (Nat × S)) {s : DbState} (h : Inv s)
    (q : Bytes) (o : Opts S) :
    answer T mk s q o = search { T with tfidf := rankerOf mk (some s.cmds) } s.cmds q o := by
  unfold answer
  simp only [refresh_of_inv h, built]
  rfl

end DbState

/-! ### the cached lower-case fields -/

/-- each cached lower-case field is empty or the Go lower-casing of its raw field -/
structure WFCache (ri : RuneInfo) (c : Cmd) : Prop where
  command : c.commandLower = [] ∨ c.commandLower = toLower ri c.command
  description : c.descriptionLower = [] ∨ c.descriptionLower = toLower ri c.description
  keywords : c.keywordsLower = [] ∨ c.keywordsLower = c.keywords.map (toLower ri)
  tags : c.tagsLower = [] ∨ c.tagsLower = c.tags.map (toLower ri)

theorem wfCache_populate (ri : RuneInfo) (c : Cmd) : WFCache ri (populate ri c) :=
  ⟨Or.inr rfl, Or.inr rfl, Or.inr rfl, Or.inr rfl⟩

omit [ScoreOps S] in
/-- every command of a loaded / merged database has well-formed caches -/
theorem wfCache_step_load (ri : RuneInfo) (s : DbState) (raw : List Cmd) :
    ∀ c ∈ (DbState.step (S := S) ri s (.load raw)).cmds, WFCache ri c := by
  intro c hc
  simp only [DbState.step, DbState.built, List.mem_map] at hc
  obtain ⟨c0, _, rfl⟩ := hc
  exact wfCache_populate ri c0

omit [ScoreOps S] in
theorem wfCache_step_loadWithPersonal (ri : RuneInfo) (s : DbState) (m : List Cmd) (p : Option (List Cmd)) :
    ∀ c ∈ (DbState.step (S := S) ri s (.loadWithPersonal m p)).cmds, WFCache ri c := by
  intro c hc
  cases p with
  | none =>
    simp only [DbState.step, DbState.built, List.mem_map] at hc
    obtain ⟨c0, _, rfl⟩ := hc
    exact wfCache_populate ri c0
  | some p =>
    simp only [DbState.step, DbState.built, List.mem_append, List.mem_map] at hc
    rcases hc with ⟨c0, _, rfl⟩ | ⟨c0, _, rfl⟩ <;> exact wfCache_populate ri c0

/-! ASCII texts: the indexed tokens are the tokens of the raw field. -/

theorem isAlnumB_lowerB (b : UInt8) : isAlnumB (lowerB b) = isAlnumB b := by
  have h : ∀ n : Fin 256, isAlnumB (lowerB (UInt8.ofNat n.val)) = isAlnumB (UInt8.ofNat n.val) := by decide +kernel
  simpa using h ⟨b.toNat, UInt8.toNat_lt b⟩

theorem lowerB_lowerB (b : UInt8) : lowerB (lowerB b) = lowerB b := by
  have h : ∀ n : Fin 256, lowerB (lowerB (UInt8.ofNat n.val)) = lowerB (UInt8.ofNat n.val) := by decide +kernel
  simpa using h ⟨b.toNat, UInt8.toNat_lt b⟩

theorem runsAux_lowerAscii (s cur : Bytes) : runsAux (lowerAscii s) cur = runsAux s cur := by
  induction s generalizing cur with
  | nil => rfl
  | cons b rest ih =>
    simp only [lowerAscii, List.map_cons, runsAux, isAlnumB_lowerB, lowerB_lowerB]
    simp only [lowerAscii] at ih
    split
    · exact ih _
    · split
      · exact ih _
      · rw [ih]

/-- lower-casing an ASCII text does not change its tokens -/
theorem tokenize_lowerAscii (s : Bytes) : tokenize (lowerAscii s) = tokenize s := by
  unfold tokenize runs; rw [runsAux_lowerAscii]

theorem tokenize_toLower_ascii (ri : RuneInfo) (s : Bytes) (h : isAsciiStr s = true) :
    tokenize (toLower ri s) = tokenize s := by
  unfold toLower; simp only [h, ↓reduceIte]; exact tokenize_lowerAscii s

theorem joinSp_map_lowerAscii (xs : List Bytes) : joinSp (xs.map lowerAscii) = lowerAscii (joinSp xs) := by
  induction xs with
  | nil => rfl
  | cons x rest ih =>
    cases rest with
    | nil => rfl
    | cons y r =>
      simp only [List.map_cons, joinSp] at ih ⊢
      rw [ih]
      simp [lowerAscii, lowerB, isUpperB]

/-- all four raw fields are ASCII -/
def AsciiCmd (c : Cmd) : Prop :=
  isAsciiStr c.command = true ∧ isAsciiStr c.description = true ∧
  (∀ k ∈ c.keywords, isAsciiStr k = true) ∧ (∀ k ∈ c.tags, isAsciiStr k = true)

theorem map_toLower_ascii (ri : RuneInfo) (xs : List Bytes) (h : ∀ k ∈ xs, isAsciiStr k = true) :
    xs.map (toLower ri) = xs.map lowerAscii := by
  apply List.map_congr_left
  intro k hk
  unfold toLower; simp [h k hk]

theorem joinSp_nil_iff_tokens (xs : List Bytes) (h : xs = []) : tokenize (joinSp xs) = [] := by
  subst h; rfl

/-- Under `WFCache`, for ASCII texts, what the engine indexes is the tokenisation of the raw fields
    (keywords and tags joined by single spaces).  For non-ASCII text this link is *not* a theorem of
    the byte-level model in general: `strings.ToLower` maps U+212A (KELVIN SIGN) to `k` and U+0130 to
    `i̇`, turning a separator into a letter (see the `example` in Props/C03.lean); it holds for every
    text without those two code points, which the correspondence runs exercise (DESIGN.md §4). -/
theorem indexed_tokens_ascii (ri : RuneInfo) (c : Cmd) (hwf : WFCache ri c) (ha : AsciiCmd c) :
    c.cmdTokens = tokenize c.command ∧ c.descTokens = tokenize c.description ∧
    c.keysTokens = tokenize (joinSp c.keywords) ∧ c.tagsTokens = tokenize (joinSp c.tags) := by
  obtain ⟨h1, h2, h3, h4⟩ := ha
  refine ⟨?_, ?_, ?_, ?_⟩
  · unfold Cmd.cmdTokens Cmd.cmdText
    cases hwf.command with
    | inl h => simp [h]
    | inr h =>
      split
      · rfl
      · rw [h]; exact tokenize_toLower_ascii ri _ h1
  · unfold Cmd.descTokens Cmd.descText
    cases hwf.description with
    | inl h => simp [h]
    | inr h =>
      split
      · rfl
      · rw [h]; exact tokenize_toLower_ascii ri _ h2
  · unfold Cmd.keysTokens Cmd.keysText
    cases hwf.keywords with
    | inl h =>
      simp only [h, List.isEmpty_nil, Bool.not_true, Bool.false_eq_true, ↓reduceIte]
      split
      · rfl
      · rename_i hk
        have : c.keywords = [] := by simpa using hk
        rw [this]; rfl
    | inr h =>
      rw [h, map_toLower_ascii ri _ h3]
      by_cases hk : c.keywords = []
      · simp [hk]; rfl
      · have : (c.keywords.map lowerAscii).isEmpty = false := by simp [hk]
        simp only [this, Bool.not_false, ↓reduceIte, joinSp_map_lowerAscii, tokenize_lowerAscii]
  · unfold Cmd.tagsTokens Cmd.tagsText
    cases hwf.tags with
    | inl h =>
      simp only [h, List.isEmpty_nil, Bool.not_true, Bool.false_eq_true, ↓reduceIte]
      split
      · rfl
      · rename_i hk
        have : c.tags = [] := by simpa using hk
        rw [this]; rfl
    | inr h =>
      rw [h, map_toLower_ascii ri _ h4]
      by_cases hk : c.tags = []
      · simp [hk]; rfl
      · have : (c.tags.map lowerAscii).isEmpty = false := by simp [hk]
        simp only [this, Bool.not_false, ↓reduceIte, joinSp_map_lowerAscii, tokenize_lowerAscii]

end Wtf.Search
