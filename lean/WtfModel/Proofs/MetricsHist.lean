import WtfModel.Model.Metrics

/-!
  C18 helper lemmas, histogram part: bucket bookkeeping, the percentile loop, and the instance of the
  model over the rationals (`Rat` is in core Lean) used for the monotonicity theorem.
-/
namespace Wtf.Metrics

/-! ## bucket bookkeeping -/

section Buckets
variable {α : Type} [Num α]

theorem bump_length : ∀ (bs : List α) (cs : List Nat) (v : α), (bump bs cs v).length = cs.length
  | _ :: _, [], _ => by simp [bump]
  | [], [], _ => by simp [bump]
  | [], _ :: _, _ => by simp [bump]
  | b :: bs, c :: cs, v => by
    simp only [bump]
    split
    · simp
    · simp [bump_length bs cs v]

/-- an observation lands in exactly one cell (the overflow cell included) -/
theorem bump_sum : ∀ (bs : List α) (cs : List Nat) (v : α), cs.length = bs.length + 1 →
    (bump bs cs v).sum = cs.sum + 1
  | _, [], _, h => by simp at h
  | [], c :: cs, _, _ => by simp [bump]; omega
  | b :: bs, c :: cs, v, h => by
    simp only [bump]
    split
    · simp; omega
    · have := bump_sum bs cs v (by simpa using h)
      simp [this]; omega

/-- what `NewHistogramWithBuckets` establishes and `Observe` keeps -/
structure Hist.WF (h : Hist α) : Prop where
  cells : h.counts.length = h.buckets.length + 1
  total : h.counts.sum = h.count

theorem Hist.new_wf (buckets : List α) : (Hist.new buckets).WF :=
  ⟨by simp [Hist.new], by simp [Hist.new]⟩

theorem Hist.observe_wf {h : Hist α} (w : h.WF) (v : α) : (h.observe v).WF :=
  ⟨by simp [Hist.observe, bump_length, w.cells], by simp [Hist.observe, bump_sum _ _ _ w.cells, w.total]⟩

theorem Hist.observeAll_wf (vs : List α) : ∀ {h : Hist α}, h.WF → (h.observeAll vs).WF := by
  induction vs with
  | nil => intro h w; exact w
  | cons v vs ih => intro h w; exact ih (Hist.observe_wf w v)

theorem Hist.observe_buckets (h : Hist α) (v : α) : (h.observe v).buckets = h.buckets := rfl

theorem Hist.observeAll_spec (vs : List α) : ∀ h : Hist α,
    (h.observeAll vs).count = h.count + vs.length ∧
    (h.observeAll vs).sum = vs.foldl Num.add h.sum ∧
    (h.observeAll vs).buckets = h.buckets := by
  induction vs with
  | nil => intro h; simp [Hist.observeAll]
  | cons v vs ih =>
    intro h
    have := ih (h.observe v)
    simp only [Hist.observeAll, List.foldl_cons, List.length_cons] at this ⊢
    refine ⟨?_, this.2.1, this.2.2⟩
    rw [this.1]; simp [Hist.observe]; omega

end Buckets

/-! ## the percentile loop -/

theorem pctIdx_ge : ∀ (cs : List Nat) (cum t : Int) (i a : Nat), pctIdx cs cum t i = some a → i ≤ a
  | [], _, _, _, _, h => by simp [pctIdx] at h
  | c :: cs, cum, t, i, a, h => by
    simp only [pctIdx] at h
    split at h
    · simp at h; omega
    · have := pctIdx_ge cs _ t _ a h; omega

/-- a larger target is reached no earlier -/
theorem pctIdx_mono : ∀ (cs : List Nat) (cum t t' : Int) (i a b : Nat), t ≤ t' →
    pctIdx cs cum t i = some a → pctIdx cs cum t' i = some b → a ≤ b
  | [], _, _, _, _, _, _, _, h, _ => by simp [pctIdx] at h
  | c :: cs, cum, t, t', i, a, b, htt, h, h' => by
    simp only [pctIdx] at h h'
    by_cases g : cum + (c : Int) ≥ t
    · simp only [g, ↓reduceIte, Option.some.injEq] at h
      by_cases g' : cum + (c : Int) ≥ t'
      · simp only [g', ↓reduceIte, Option.some.injEq] at h'; omega
      · simp only [g', ↓reduceIte] at h'
        have := pctIdx_ge cs _ t' _ b h'; omega
    · have g' : ¬ cum + (c : Int) ≥ t' := by omega
      simp only [g, ↓reduceIte] at h
      simp only [g', ↓reduceIte] at h'
      exact pctIdx_mono cs _ t t' _ a b htt h h'

/-- a target not above the grand total is reached at some cell -/
theorem pctIdx_some : ∀ (cs : List Nat) (cum t : Int) (i : Nat), cs ≠ [] → t ≤ cum + (cs.sum : Int) →
    ∃ a, pctIdx cs cum t i = some a ∧ a < i + cs.length
  | [], _, _, _, h, _ => absurd rfl h
  | c :: cs, cum, t, i, _, ht => by
    simp only [pctIdx]
    by_cases g : cum + (c : Int) ≥ t
    · exact ⟨i, by simp [g]⟩
    · simp only [g, ↓reduceIte]
      have hs : ((c :: cs).sum : Int) = (c : Int) + (cs.sum : Int) := by simp
      cases cs with
      | nil => simp at hs ht; omega
      | cons c' cs' =>
        obtain ⟨a, h1, h2⟩ := pctIdx_some (c' :: cs') (cum + c) t (i + 1) (by simp) (by omega)
        exact ⟨a, h1, by simp only [List.length_cons] at h2 ⊢; omega⟩

/-! ## the model over the rationals -/

/-- Go's `int64(x)` on a real number: truncation toward zero -/
def truncZ (x : Rat) : Int := if 0 ≤ x then x.floor else -((-x).floor)

instance instNumRat : Num Rat where
  zero := 0
  add := (· + ·)
  le := fun a b => decide (a ≤ b)
  target := fun n p => truncZ ((n : Rat) * p / 100)

theorem hundred_inv_nonneg : (0 : Rat) ≤ (100 : Rat)⁻¹ :=
  Rat.le_of_lt (Rat.inv_pos.mpr (by decide))

theorem scaled_nonneg (n : Nat) {p : Rat} (hp : 0 ≤ p) : 0 ≤ (n : Rat) * p / 100 := by
  rw [Rat.div_def]
  exact Rat.mul_nonneg (Rat.mul_nonneg Rat.natCast_nonneg hp) hundred_inv_nonneg

theorem scaled_mono (n : Nat) {p p' : Rat} (h : p ≤ p') : (n : Rat) * p / 100 ≤ (n : Rat) * p' / 100 := by
  rw [Rat.div_def, Rat.div_def]
  exact Rat.mul_le_mul_of_nonneg_right (Rat.mul_le_mul_of_nonneg_left h Rat.natCast_nonneg) hundred_inv_nonneg

/-- on the claimed domain the truncation is the floor of a non-negative number -/
theorem target_eq_floor (n : Nat) {p : Rat} (hp : 0 ≤ p) :
    (Num.target n p : Int) = ((n : Rat) * p / 100).floor := by
  show truncZ _ = _
  simp [truncZ, scaled_nonneg n hp]

theorem target_mono (n : Nat) {p p' : Rat} (hp : 0 ≤ p) (h : p ≤ p') :
    (Num.target n p : Int) ≤ Num.target n p' := by
  rw [target_eq_floor n hp, target_eq_floor n (Rat.le_trans hp h)]
  exact Rat.floor_monotone (scaled_mono n h)

theorem target_le_count (n : Nat) {p : Rat} (hp : 0 ≤ p) (h : p ≤ 100) : (Num.target n p : Int) ≤ n := by
  rw [target_eq_floor n hp]
  have h1 : (n : Rat) * p / 100 ≤ (n : Rat) * 100 / 100 := scaled_mono n h
  rw [Rat.mul_div_cancel (by decide)] at h1
  have := Rat.floor_monotone h1
  rw [← Rat.intCast_natCast, Rat.floor_intCast] at this
  exact this

/-! ## reported value per cell -/

theorem bucketAt_mono {buckets : List Rat} (hs : buckets.Pairwise (· ≤ ·)) (hne : buckets ≠ [])
    {i j : Nat} (hij : i ≤ j) (_hj : j < buckets.length + 1) :
    ∃ x y, bucketAt buckets i = some x ∧ bucketAt buckets j = some y ∧ x ≤ y := by
  have hlen : 0 < buckets.length := List.length_pos_iff.mpr hne
  have hpw := List.pairwise_iff_getElem.mp hs
  have hlast : buckets.getLast? = some (buckets[buckets.length - 1]'(by omega)) := by
    rw [List.getLast?_eq_getElem?]; exact List.getElem?_eq_getElem (by omega)
  -- monotone access by index
  have hmono : ∀ (a b : Nat) (ha : a < buckets.length) (hb : b < buckets.length), a ≤ b → buckets[a] ≤ buckets[b] := by
    intro a b ha hb hab
    rcases Nat.lt_or_eq_of_le hab with h | h
    · exact hpw a b ha hb h
    · subst h; exact Rat.le_refl
  by_cases hjl : j < buckets.length
  · have hil : i < buckets.length := by omega
    refine ⟨buckets[i], buckets[j], ?_, ?_, hmono i j hil hjl hij⟩
    · simp [bucketAt, hil]
    · simp [bucketAt, hjl]
  · by_cases hil : i < buckets.length
    · refine ⟨buckets[i], buckets[buckets.length - 1]'(by omega), ?_, ?_, hmono i _ hil (by omega) (by omega)⟩
      · simp [bucketAt, hil]
      · simp [bucketAt, hjl, hlast]
    · refine ⟨buckets[buckets.length - 1]'(by omega), buckets[buckets.length - 1]'(by omega), ?_, ?_, Rat.le_refl⟩
      · simp [bucketAt, hil, hlast]
      · simp [bucketAt, hjl, hlast]

/-- `Percentile` is monotone in the integer target as long as the larger target does not exceed the
    number of observations -/
theorem percentileAt_mono {h : Hist Rat} (w : h.WF) (hs : h.buckets.Pairwise (· ≤ ·)) (hne : h.buckets ≠ [])
    {t t' : Int} (htt : t ≤ t') (ht' : t' ≤ h.count) :
    ∃ x y, h.percentileAt t = some x ∧ h.percentileAt t' = some y ∧ x ≤ y := by
  unfold Hist.percentileAt
  by_cases hc : h.count = 0
  · exact ⟨Num.zero, Num.zero, by simp [hc], by simp [hc], Rat.le_refl⟩
  · simp only [hc, ↓reduceIte]
    have hcs : h.counts ≠ [] := by
      intro e; have := w.cells; rw [e] at this; simp at this
    have hsum : (h.counts.sum : Int) = h.count := by rw [w.total]
    obtain ⟨a, ha, ha'⟩ := pctIdx_some h.counts 0 t 0 hcs (by omega)
    obtain ⟨b, hb, hb'⟩ := pctIdx_some h.counts 0 t' 0 hcs (by omega)
    have hab := pctIdx_mono h.counts 0 t t' 0 a b htt ha hb
    rw [ha, hb]
    exact bucketAt_mono hs hne hab (by have := w.cells; omega)

/-! ## the regenerated bucket table as rationals -/

def qToRat (q : Q) : Rat := (q.num : Rat) / (q.den : Rat)

/-- strict order of two exact literals by cross-multiplication (denominators must be positive) -/
def qLt (a b : Q) : Bool := decide (0 < a.den) && decide (0 < b.den) && decide (a.num * (b.den : Int) < b.num * (a.den : Int))

/-- decidable check that a table of exact literals is strictly increasing -/
def qSorted : List Q → Bool
  | [] => true
  | a :: rest => rest.all (qLt a) && qSorted rest

theorem qToRat_lt {a b : Q} (h : qLt a b = true) : qToRat a < qToRat b := by
  simp only [qLt, Bool.and_eq_true, decide_eq_true_eq] at h
  obtain ⟨⟨ha, hb⟩, hlt⟩ := h
  have ha' : (0 : Rat) < (a.den : Rat) := Rat.natCast_pos.mpr ha
  have hb' : (0 : Rat) < (b.den : Rat) := Rat.natCast_pos.mpr hb
  unfold qToRat
  rw [Rat.div_lt_iff ha', Rat.div_def, Rat.mul_assoc, Rat.mul_comm _ (a.den : Rat), ← Rat.mul_assoc, ← Rat.div_def,
    Rat.lt_div_iff hb']
  have : ((a.num * (b.den : Int) : Int) : Rat) < ((b.num * (a.den : Int) : Int) : Rat) := Rat.intCast_lt_intCast.mpr hlt
  simpa [Rat.intCast_mul, Rat.intCast_natCast] using this

theorem qSorted_pairwise : ∀ l : List Q, qSorted l = true → (l.map qToRat).Pairwise (· < ·)
  | [], _ => List.Pairwise.nil
  | a :: rest, h => by
    simp only [qSorted, Bool.and_eq_true, List.all_eq_true] at h
    simp only [List.map_cons, List.pairwise_cons, List.mem_map]
    refine ⟨?_, qSorted_pairwise rest h.2⟩
    rintro _ ⟨b, hb, rfl⟩
    exact qToRat_lt (h.1 b hb)

end Wtf.Metrics
