import WtfModel.Model.CacheLayer
import WtfModel.Proofs.LruHist

/-! Helper lemmas for the cache-layer model (C05).  Core Lean only. -/

namespace Wtf.Lru
set_option linter.unusedSectionVars false
variable {κ ν : Type} [DecidableEq κ]

/-- a lookup never invents or alters a (key, value) pair -/
theorem get_kv (s : State κ ν) (now : Int) (k : κ) :
    ∀ e' ∈ (get s now k).1.entries, ∃ e ∈ s.entries, e'.key = e.key ∧ e'.val = e.val := by
  intro e' he'
  unfold get at he'
  split at he'
  · exact ⟨e', he', rfl, rfl⟩
  · rename_i e0 he0
    split at he'
    · exact ⟨e', (mem_remove.mp he').1, rfl, rfl⟩
    · simp only [List.mem_cons] at he'
      cases he' with
      | inl h => subst h; exact ⟨e0, (find?_some he0).1, rfl, rfl⟩
      | inr h => exact ⟨e', (mem_remove.mp h).1, rfl, rfl⟩

/-- after a store every pair is the stored one or an old one -/
theorem put_kv (s : State κ ν) (now : Int) (k : κ) (v : ν) :
    ∀ e' ∈ (put s now k v).entries, (e'.key = k ∧ e'.val = v) ∨ ∃ e ∈ s.entries, e'.key = e.key ∧ e'.val = e.val := by
  intro e' he'
  unfold put at he'
  split at he'
  · rename_i e0 he0
    simp only [List.mem_cons] at he'
    cases he' with
    | inl h => subst h; exact .inl ⟨(find?_some he0).2, rfl⟩
    | inr h => exact .inr ⟨e', (mem_remove.mp h).1, rfl, rfl⟩
  · have key : ∀ x ∈ (({ key := k, val := v, created := now, stored := now, used := s.tick } : Entry κ ν) :: s.entries),
        (x.key = k ∧ x.val = v) ∨ ∃ e ∈ s.entries, x.key = e.key ∧ x.val = e.val := by
      intro x hx
      simp only [List.mem_cons] at hx
      cases hx with
      | inl h => subst h; exact .inl ⟨rfl, rfl⟩
      | inr h => exact .inr ⟨x, h, rfl, rfl⟩
    simp only at he'
    split at he'
    · exact key e' (mem_dropLast he')
    · exact key e' he'

theorem cleanup_sub (s : State κ ν) (now : Int) : ∀ e ∈ (cleanup s now).1.entries, e ∈ s.entries := by
  intro e he
  obtain ⟨r, hr, _⟩ := cleanup_spec s now
  rw [hr]
  exact List.mem_append_left _ he

end Wtf.Lru

namespace Wtf.CacheLayer
open Wtf
set_option linter.unusedSectionVars false

variable {Db Ans κ : Type} [DecidableEq κ]

/-! ### The key: which requests it identifies -/

/-- The identification `≈` on option values that the key text makes: same JSON rendering, or both "empty" in
    the sense of `omitempty` (0, false, ±0.0, "", nil / empty slice or map), or -- in the Go-syntax text used
    when a NaN / Inf is present -- equal up to the payload and sign of NaNs. -/
def Equiv (utf8 : Bytes → Bytes) (v v' : Val) : Prop :=
  v.json utf8 = v'.json utf8 ∨ (v.isEmpty = true ∧ v'.isEmpty = true) ∨ v.goView = v'.goView

/-- The engine's answer depends on the options only through the fields in `reads`, up to `≈`.
    (Justified outside Lean: `reads` is the regenerated set of `options.X` selectors under SearchUniversal, and
    the engine treats the `≈`-identified values alike -- `len(x) == 0`, `range`, `> 0` tests; exercised by the
    correspondence runs and the monitor.) -/
def EngineReadsOnly (E : Env Db Ans κ) (reads : List String) : Prop :=
  ∀ db q o o', (∀ f ∈ reads, Equiv E.utf8 (o f) (o' f)) → E.answer db q o = E.answer db q o'

/-- The engine normalises its query on entry exactly as the key does. -/
def EngineNormalises (E : Env Db Ans κ) : Prop :=
  ∀ db q o, E.answer db q o = E.answer db (E.normQ q) o

/-- every field in `reads` is copied by the conversion literal into some key field -/
def covers (sh : Shape) (reads : List String) : Bool :=
  reads.all (fun f => sh.keyFields.any (fun kf => sh.site.lookup kf.1 == some f))

theorem jsonView_equiv {utf8 : Bytes → Bytes} {b : Bool} {v v' : Val}
    (h : jsonView utf8 b v = jsonView utf8 b v') : Equiv utf8 v v' := by
  unfold jsonView at h
  by_cases h1 : (b && v.isEmpty) = true
  · by_cases h2 : (b && v'.isEmpty) = true
    · simp only [Bool.and_eq_true] at h1 h2
      exact .inr (.inl ⟨h1.2, h2.2⟩)
    · simp [h1, h2] at h
  · by_cases h2 : (b && v'.isEmpty) = true
    · simp [h1, h2] at h
    · simp only [h1, h2] at h
      exact .inl (by simpa using h)

theorem proj_sound {utf8 : Bytes → Bytes} {sh : Shape} {reads : List String} (hc : covers sh reads = true)
    {o o' : Opts} (h : proj utf8 sh o = proj utf8 sh o') : ∀ f ∈ reads, Equiv utf8 (o f) (o' f) := by
  intro f hf
  unfold covers at hc
  rw [List.all_eq_true] at hc
  have := hc f hf
  rw [List.any_eq_true] at this
  obtain ⟨kf, hkf, hl⟩ := this
  have hl : sh.site.lookup kf.1 = some f := by simpa using hl
  unfold proj at h
  have h' := (List.map_inj_left.mp h) kf hkf
  simp only [Prod.mk.injEq, true_and, fieldVal, hl] at h'
  exact jsonView_equiv h'

theorem goProj_sound {sh : Shape} {reads : List String} (hc : covers sh reads = true) (utf8 : Bytes → Bytes)
    {o o' : Opts} (h : goProj sh o = goProj sh o') : ∀ f ∈ reads, Equiv utf8 (o f) (o' f) := by
  intro f hf
  unfold covers at hc
  rw [List.all_eq_true] at hc
  have := hc f hf
  rw [List.any_eq_true] at this
  obtain ⟨kf, hkf, hl⟩ := this
  have hl : sh.site.lookup kf.1 = some f := by simpa using hl
  unfold goProj at h
  have h' := (List.map_inj_left.mp h) kf hkf
  simp only [Prod.mk.injEq, true_and, fieldVal, hl] at h'
  exact .inr (.inr h')

/-- equal keys: equal normalised queries, and option records that agree on every read field up to `≈` -/
theorem keyOf_eq {E : Env Db Ans κ} {sh : Shape} {reads : List String} (hc : covers sh reads = true)
    {q q' : Query} {o o' : Opts} (h : keyOf E sh q o = keyOf E sh q' o') :
    E.normQ q = E.normQ q' ∧ ∀ f ∈ reads, Equiv E.utf8 (o f) (o' f) := by
  unfold keyOf at h
  split at h <;> split at h
  · injection h with h1 h2
    exact ⟨h1, proj_sound hc h2⟩
  · cases h
  · cases h
  · injection h with h1 h2
    exact ⟨h1, goProj_sound hc E.utf8 h2⟩

/-- Requests with the same key have the same answer. -/
theorem key_sound {E : Env Db Ans κ} {sh : Shape} {reads : List String}
    (hc : covers sh reads = true) (hr : EngineReadsOnly E reads) (hn : EngineNormalises E)
    {q q' : Query} {o o' : Opts}
    (h : keyOf E sh q o = keyOf E sh q' o') (db : Db) : E.answer db q o = E.answer db q' o' := by
  obtain ⟨h1, h2⟩ := keyOf_eq hc h
  rw [hn db q o, h1, ← hn db q' o]
  exact hr db q' o o' h2

/-! ### The invariant -/

/-- every cached pair is (key of some request, the engine's answer to that request on the current database) -/
def Inv (E : Env Db Ans κ) (sh : Shape) (s : State κ Db Ans) : Prop :=
  ∀ e ∈ s.lru.entries, ∃ q o, e.key = E.enc (keyOf E sh q o) ∧ e.val = E.answer s.db q o

theorem scGet_frame (s : State κ Db Ans) (k : κ) :
    (scGet s k).1.db = s.db ∧ (scGet s k).1.mgrEnabled = s.mgrEnabled ∧
    (scGet s k).1.cacheEnabled = s.cacheEnabled ∧ (scGet s k).1.now = s.now := by
  unfold scGet
  split <;> exact ⟨rfl, rfl, rfl, rfl⟩

theorem scGet_inv {E : Env Db Ans κ} {sh : Shape} {s : State κ Db Ans} (h : Inv E sh s) (k : κ) :
    Inv E sh (scGet s k).1 := by
  unfold scGet
  split
  · exact h
  · intro e he
    obtain ⟨e0, he0, hk, hv⟩ := Lru.get_kv s.lru s.now k e he
    obtain ⟨q, o, h1, h2⟩ := h e0 he0
    exact ⟨q, o, hk ▸ h1, hv ▸ h2⟩

theorem scGet_some {E : Env Db Ans κ} {sh : Shape} {s : State κ Db Ans} (h : Inv E sh s) {k : κ} {v : Ans}
    (hv : (scGet s k).2 = some v) : ∃ q o, k = E.enc (keyOf E sh q o) ∧ v = E.answer s.db q o := by
  unfold scGet at hv
  split at hv
  · cases hv
  · obtain ⟨e, he, hk, hval, _⟩ := Lru.get_some hv
    obtain ⟨q, o, h1, h2⟩ := h e he
    exact ⟨q, o, hk ▸ h1, hval ▸ h2⟩

theorem scPut_frame (E : Env Db Ans κ) (s : State κ Db Ans) (k : κ) (a : Ans) :
    (scPut E s k a).db = s.db ∧ (scPut E s k a).mgrEnabled = s.mgrEnabled ∧
    (scPut E s k a).cacheEnabled = s.cacheEnabled ∧ (scPut E s k a).now = s.now := by
  unfold scPut
  split <;> exact ⟨rfl, rfl, rfl, rfl⟩

theorem scPut_inv {E : Env Db Ans κ} {sh : Shape} {s : State κ Db Ans} (h : Inv E sh s) (q : Query) (o : Opts) :
    Inv E sh (scPut E s (E.enc (keyOf E sh q o)) (E.answer s.db q o)) := by
  unfold scPut
  split
  · exact h
  · intro e he
    cases Lru.put_kv s.lru s.now _ _ e he with
    | inl hh => exact ⟨q, o, hh.1, hh.2⟩
    | inr hh =>
      obtain ⟨e0, he0, hk, hv⟩ := hh
      obtain ⟨q0, o0, h1, h2⟩ := h e0 he0
      exact ⟨q0, o0, hk ▸ h1, hv ▸ h2⟩

theorem search_frame (E : Env Db Ans κ) (sh : Shape) (s : State κ Db Ans) (q : Query) (o : Opts) :
    (search E sh s q o).1.db = s.db ∧ (search E sh s q o).1.mgrEnabled = s.mgrEnabled ∧
    (search E sh s q o).1.cacheEnabled = s.cacheEnabled ∧ (search E sh s q o).1.now = s.now := by
  unfold search searchK
  split
  · exact ⟨rfl, rfl, rfl, rfl⟩
  · have hg := scGet_frame s (E.enc (keyOf E sh q o))
    simp only
    split
    · exact hg
    · split
      · exact hg
      · have hp := scPut_frame E (scGet s (E.enc (keyOf E sh q o))).1 (E.enc (keyOf E sh q o))
          (E.answer (scGet s (E.enc (keyOf E sh q o))).1.db q o)
        exact ⟨hp.1.trans hg.1, hp.2.1.trans hg.2.1, hp.2.2.1.trans hg.2.2.1, hp.2.2.2.trans hg.2.2.2⟩

theorem search_inv {E : Env Db Ans κ} {sh : Shape} {s : State κ Db Ans} (h : Inv E sh s) (q : Query) (o : Opts) :
    Inv E sh (search E sh s q o).1 := by
  unfold search searchK
  split
  · exact h
  · have hg := scGet_inv h (E.enc (keyOf E sh q o))
    simp only
    split
    · exact hg
    · split
      · exact hg
      · exact scPut_inv hg q o

/-- What a search returns: the engine's answer on the current database. -/
theorem search_spec {E : Env Db Ans κ} {sh : Shape} {reads : List String}
    (hinj : ∀ a b, E.enc a = E.enc b → a = b)
    (hc : covers sh reads = true) (hr : EngineReadsOnly E reads) (hn : EngineNormalises E)
    {s : State κ Db Ans} (h : Inv E sh s) (q : Query) (o : Opts) :
    (search E sh s q o).2 = E.answer s.db q o := by
  unfold search searchK
  split
  · rfl
  · simp only
    split
    · rename_i v hv
      obtain ⟨q', o', hk, hval⟩ := scGet_some h hv
      rw [hval]
      exact (key_sound hc hr hn (hinj _ _ hk) s.db).symm
    · rw [(scGet_frame s _).1]

theorem monitoredSearch_frame (E : Env Db Ans κ) (shC shM : Shape) (s : State κ Db Ans) (q : Query) (o : Opts) :
    (monitoredSearch E shC shM s q o).1.db = s.db ∧ (monitoredSearch E shC shM s q o).1.mgrEnabled = s.mgrEnabled ∧
    (monitoredSearch E shC shM s q o).1.cacheEnabled = s.cacheEnabled ∧ (monitoredSearch E shC shM s q o).1.now = s.now := by
  unfold monitoredSearch
  have hs := search_frame E shC (scGet s (E.enc (keyOf E shM q o))).1 q o
  have hg := scGet_frame s (E.enc (keyOf E shM q o))
  exact ⟨hs.1.trans hg.1, hs.2.1.trans hg.2.1, hs.2.2.1.trans hg.2.2.1, hs.2.2.2.trans hg.2.2.2⟩

theorem monitoredSearch_inv {E : Env Db Ans κ} {shC shM : Shape} {s : State κ Db Ans} (h : Inv E shC s)
    (q : Query) (o : Opts) : Inv E shC (monitoredSearch E shC shM s q o).1 :=
  search_inv (scGet_inv h _) q o

theorem monitoredSearch_spec {E : Env Db Ans κ} {shC shM : Shape} {reads : List String}
    (hinj : ∀ a b, E.enc a = E.enc b → a = b)
    (hc : covers shC reads = true) (hr : EngineReadsOnly E reads) (hn : EngineNormalises E)
    {s : State κ Db Ans} (h : Inv E shC s) (q : Query) (o : Opts) :
    (monitoredSearch E shC shM s q o).2 = E.answer s.db q o := by
  unfold monitoredSearch
  rw [search_spec hinj hc hr hn (scGet_inv h _) q o, (scGet_frame s _).1]

theorem step_inv {E : Env Db Ans κ} {shC shM : Shape} {s : State κ Db Ans} (h : Inv E shC s) (op : Op Db) :
    Inv E shC (step E shC shM s op).1 := by
  cases op with
  | search q o => exact search_inv h q o
  | monitoredSearch q o => exact monitoredSearch_inv h q o
  | invalidate => intro e he; simp [step, Lru.clear] at he
  | enable b => exact h
  | cleanup =>
    intro e he
    exact h e (Lru.cleanup_sub s.lru s.now e he)
  | update c => intro e he; simp [step, Lru.clear] at he
  | advance dt => exact h

theorem init_inv (E : Env Db Ans κ) (sh : Shape) (d : Nat) (cap ttl : Int) (db : Db) :
    Inv E sh (init d cap ttl db : State κ Db Ans) := by
  intro e he
  simp [init, Lru.init] at he

theorem run_inv {E : Env Db Ans κ} {shC shM : Shape} {s : State κ Db Ans} (h : Inv E shC s) (hist : List (Op Db)) :
    Inv E shC (final E shC shM s hist) := by
  induction hist generalizing s with
  | nil => exact h
  | cons op rest ih => exact ih (step_inv h op)

/-! ### Histories -/

/-- the database in force after a history -/
def dbAfter (db : Db) : List (Op Db) → Db
  | [] => db
  | .update c :: rest => dbAfter c rest
  | .search _ _ :: rest => dbAfter db rest
  | .monitoredSearch _ _ :: rest => dbAfter db rest
  | .invalidate :: rest => dbAfter db rest
  | .enable _ :: rest => dbAfter db rest
  | .cleanup :: rest => dbAfter db rest
  | .advance _ :: rest => dbAfter db rest

theorem step_db (E : Env Db Ans κ) (shC shM : Shape) (s : State κ Db Ans) (op : Op Db) :
    (step E shC shM s op).1.db = dbAfter s.db [op] := by
  cases op with
  | search q o => exact (search_frame E shC s q o).1
  | monitoredSearch q o => exact (monitoredSearch_frame E shC shM s q o).1
  | invalidate => rfl
  | enable b => rfl
  | cleanup => rfl
  | update c => rfl
  | advance dt => rfl

theorem final_db (E : Env Db Ans κ) (shC shM : Shape) (s : State κ Db Ans) (hist : List (Op Db)) :
    (final E shC shM s hist).db = dbAfter s.db hist := by
  induction hist generalizing s with
  | nil => rfl
  | cons op rest ih =>
    have h1 := ih (s := (step E shC shM s op).1)
    have h2 := step_db E shC shM s op
    simp only [final, run] at h1 ⊢
    rw [h1, h2]
    cases op <;> rfl

/-- the manager switch and the cache switch always agree (only `enable` writes them, both at once) -/
theorem step_flags (E : Env Db Ans κ) (shC shM : Shape) (s : State κ Db Ans) (op : Op Db)
    (h : s.mgrEnabled = s.cacheEnabled) : (step E shC shM s op).1.mgrEnabled = (step E shC shM s op).1.cacheEnabled := by
  cases op with
  | search q o => have := search_frame E shC s q o; exact this.2.1.trans (h.trans this.2.2.1.symm)
  | monitoredSearch q o => have := monitoredSearch_frame E shC shM s q o; exact this.2.1.trans (h.trans this.2.2.1.symm)
  | invalidate => exact h
  | enable b => rfl
  | cleanup => exact h
  | update c => exact h
  | advance dt => exact h

theorem final_flags (E : Env Db Ans κ) (shC shM : Shape) (s : State κ Db Ans) (hist : List (Op Db))
    (h : s.mgrEnabled = s.cacheEnabled) :
    (final E shC shM s hist).mgrEnabled = (final E shC shM s hist).cacheEnabled := by
  induction hist generalizing s with
  | nil => exact h
  | cons op rest ih => exact ih (s := (step E shC shM s op).1) (step_flags E shC shM s op h)

/-- the i-th output of a run is the output of the i-th step taken in the state reached by the first i ops -/
theorem run_out (E : Env Db Ans κ) (shC shM : Shape) (s : State κ Db Ans) (hist : List (Op Db)) (i : Nat)
    (op : Op Db) (h : hist[i]? = some op) :
    (run E shC shM s hist).2[i]? = some (step E shC shM (final E shC shM s (hist.take i)) op).2 := by
  induction hist generalizing s i with
  | nil => simp at h
  | cons a rest ih =>
    cases i with
    | zero =>
      simp only [List.getElem?_cons_zero, Option.some.injEq] at h
      subst h
      simp [run, final]
    | succ j =>
      simp only [List.getElem?_cons_succ] at h
      have := ih (s := (step E shC shM s a).1) j h
      simpa [run, final] using this

/-- the Go-syntax view determines emptiness (it only rewrites NaN bit patterns, and no NaN is ±0.0) -/
theorem isEmpty_of_goView {v v' : Val} (h : v.goView = v'.goView) : v.isEmpty = v'.isEmpty := by
  have key : ∀ w : Val, w.goView.isEmpty = w.isEmpty := by
    intro w
    cases w with
    | int i => rfl
    | bool b => rfl
    | float b =>
      simp only [Val.goView, Val.isEmpty, canonNaN]
      split
      · rename_i hn
        have h0 : b ≠ 0 := by intro h; subst h; revert hn; decide
        have h1 : b ≠ 2 ^ 63 := by intro h; subst h; revert hn; decide
        simp [h0, h1]
      · rfl
    | str s => rfl
    | strs l => rfl
    | boosts m => cases m <;> simp [Val.goView, Val.isEmpty]
  rw [← key v, ← key v', h]

theorem Val.json_id (v : Val) : v.json id = v := by
  cases v with
  | int i => rfl
  | bool b => rfl
  | float b => rfl
  | str s => rfl
  | strs l => cases l <;> simp [Val.json]
  | boosts m => cases m <;> simp [Val.json]

end Wtf.CacheLayer
