import WtfModel.Proofs.Metrics
import WtfModel.Proofs.MetricsHist

/-!
  C18 helper lemmas, monitor part: the recording functions of `PerformanceMonitor` as event lists per
  registry, distinctness / injectivity of the keys they use, and the interleaving model.
-/
namespace Wtf.Metrics

variable {α : Type} [Num α]

/-! ## the monitor's record functions as event lists -/

def incEv (cfg : Cfg α) (name : Bytes) (tags : Tags) (σ : List Bytes) : Ev Int :=
  ⟨metricKey cfg.sorts cfg.sp name tags σ, name, tags, (counterStep · .inc)⟩

def obsEv (cfg : Cfg α) (name : Bytes) (tags : Tags) (σ : List Bytes) (v : α) : Ev (Hist α) :=
  ⟨metricKey cfg.sorts cfg.sp name tags σ, name, tags, (·.observe v)⟩

/-- counter events of one monitor call (while enabled) -/
def counterEvs (cfg : Cfg α) : MonOp α → List (Ev Int)
  | .search _ _ hit _ =>
    [incEv cfg nSearchesTotal (searchTags hit) [tCacheHit],
     if hit then incEv cfg nCacheHits [] [] else incEv cfg nCacheMisses [] []]
  | .db o _ s _ σC => [incEv cfg nDbTotal (dbTags o s) σC]
  | .enable _ => []

def timerEvs (cfg : Cfg α) : MonOp α → List (Ev (Hist α))
  | .search d _ hit _ => [obsEv cfg nSearchDuration (searchTags hit) [tCacheHit] d]
  | .db o d s σT _ => [obsEv cfg nDbDuration (dbTags o s) σT d]
  | .enable _ => []

def histEvs (cfg : Cfg α) : MonOp α → List (Ev (Hist α))
  | .search _ _ _ q => [obsEv cfg nQueryLength [] [] q]
  | _ => []

def nextEnabled (en : Bool) : MonOp α → Bool
  | .enable b => b
  | _ => en

/-- the events of a whole history: calls made while the monitor is disabled contribute nothing -/
def evsOf {β : Type} (g : MonOp α → List (Ev β)) : Bool → List (MonOp α) → List (Ev β)
  | _, [] => []
  | en, op :: rest => (if en then g op else []) ++ evsOf g (nextEnabled en op) rest

/-- number of calls satisfying `p` made while the monitor is enabled -/
def countOps (p : MonOp α → Bool) : Bool → List (MonOp α) → Nat
  | _, [] => 0
  | en, op :: rest => (if en && p op then 1 else 0) + countOps p (nextEnabled en op) rest

theorem step_enabled (cfg : Cfg α) (m : Monitor α) (op : MonOp α) :
    (m.step cfg op).enabled = nextEnabled m.enabled op := by
  cases op <;> simp only [Monitor.step, Monitor.recordSearch, Monitor.recordDb, nextEnabled] <;>
    cases h : m.enabled <;> simp [h]

theorem step_counters (cfg : Cfg α) (m : Monitor α) (op : MonOp α) :
    (m.step cfg op).c.counters = applyEvs 0 m.c.counters (if m.enabled then counterEvs cfg op else []) := by
  cases op with
  | search d r hit q =>
    cases h : m.enabled
    · simp [Monitor.step, Monitor.recordSearch, h, applyEvs]
    · cases hit <;>
        simp [Monitor.step, Monitor.recordSearch, h, applyEvs, counterEvs, incEv, Collector.counter,
          Collector.observe, Collector.gaugeSet, Collector.timerObserve]
  | db o d s σT σC =>
    cases h : m.enabled
    · simp [Monitor.step, Monitor.recordDb, h, applyEvs]
    · simp [Monitor.step, Monitor.recordDb, h, applyEvs, counterEvs, incEv, Collector.counter, Collector.timerObserve]
  | enable b => cases h : m.enabled <;> simp [Monitor.step, applyEvs, counterEvs]

theorem step_timers (cfg : Cfg α) (m : Monitor α) (op : MonOp α) :
    (m.step cfg op).c.timers = applyEvs (Hist.new cfg.defaultBuckets) m.c.timers (if m.enabled then timerEvs cfg op else []) := by
  cases op with
  | search d r hit q =>
    cases h : m.enabled
    · simp [Monitor.step, Monitor.recordSearch, h, applyEvs]
    · cases hit <;>
        simp [Monitor.step, Monitor.recordSearch, h, applyEvs, timerEvs, obsEv, Collector.counter,
          Collector.observe, Collector.gaugeSet, Collector.timerObserve]
  | db o d s σT σC =>
    cases h : m.enabled
    · simp [Monitor.step, Monitor.recordDb, h, applyEvs]
    · simp [Monitor.step, Monitor.recordDb, h, applyEvs, timerEvs, obsEv, Collector.counter, Collector.timerObserve]
  | enable b => cases h : m.enabled <;> simp [Monitor.step, applyEvs, timerEvs]

theorem step_hists (cfg : Cfg α) (m : Monitor α) (op : MonOp α) :
    (m.step cfg op).c.hists = applyEvs (Hist.new cfg.defaultBuckets) m.c.hists (if m.enabled then histEvs cfg op else []) := by
  cases op with
  | search d r hit q =>
    cases h : m.enabled
    · simp [Monitor.step, Monitor.recordSearch, h, applyEvs]
    · cases hit <;>
        simp [Monitor.step, Monitor.recordSearch, h, applyEvs, histEvs, obsEv, Collector.counter,
          Collector.observe, Collector.gaugeSet, Collector.timerObserve]
  | db o d s σT σC =>
    cases h : m.enabled
    · simp [Monitor.step, Monitor.recordDb, h, applyEvs]
    · simp [Monitor.step, Monitor.recordDb, h, applyEvs, histEvs, Collector.counter, Collector.timerObserve]
  | enable b => cases h : m.enabled <;> simp [Monitor.step, applyEvs, histEvs]

/-- generic shape of the three `run_*` lemmas -/
theorem run_registry {β : Type} (cfg : Cfg α) (proj : Monitor α → Registry β) (fresh : β)
    (g : MonOp α → List (Ev β))
    (hstep : ∀ (m : Monitor α) (op : MonOp α), proj (m.step cfg op) = applyEvs fresh (proj m) (if m.enabled then g op else []))
    (ops : List (MonOp α)) : ∀ m : Monitor α,
    proj (m.run cfg ops) = applyEvs fresh (proj m) (evsOf g m.enabled ops) := by
  induction ops with
  | nil => intro m; rfl
  | cons op rest ih =>
    intro m
    have := ih (m.step cfg op)
    simp only [Monitor.run, List.foldl_cons] at this ⊢
    rw [this, hstep, step_enabled, evsOf, applyEvs_append]

theorem run_counters (cfg : Cfg α) (ops : List (MonOp α)) (m : Monitor α) :
    (m.run cfg ops).c.counters = applyEvs 0 m.c.counters (evsOf (counterEvs cfg) m.enabled ops) :=
  run_registry cfg (·.c.counters) 0 (counterEvs cfg) (step_counters cfg) ops m

theorem run_timers (cfg : Cfg α) (ops : List (MonOp α)) (m : Monitor α) :
    (m.run cfg ops).c.timers = applyEvs (Hist.new cfg.defaultBuckets) m.c.timers (evsOf (timerEvs cfg) m.enabled ops) :=
  run_registry cfg (·.c.timers) _ (timerEvs cfg) (step_timers cfg) ops m

theorem run_hists (cfg : Cfg α) (ops : List (MonOp α)) (m : Monitor α) :
    (m.run cfg ops).c.hists = applyEvs (Hist.new cfg.defaultBuckets) m.c.hists (evsOf (histEvs cfg) m.enabled ops) :=
  run_registry cfg (·.c.hists) _ (histEvs cfg) (step_hists cfg) ops m

omit [Num α] in
/-- counting the events filed under one key = counting the calls that produce such an event -/
theorem evsOf_filter_length {β : Type} (g : MonOp α → List (Ev β)) (K : Bytes) (p : MonOp α → Bool)
    (V : MonOp α → Prop)
    (hg : ∀ op, V op → ((g op).filter (fun e => decide (e.key = K))).length = if p op then 1 else 0) :
    ∀ (ops : List (MonOp α)) (en : Bool), (∀ op ∈ ops, V op) →
      ((evsOf g en ops).filter (fun e => decide (e.key = K))).length = countOps p en ops := by
  intro ops
  induction ops with
  | nil => intro en _; rfl
  | cons op rest ih =>
    intro en hv
    simp only [evsOf, countOps, List.filter_append, List.length_append]
    rw [ih _ (fun o ho => hv o (List.mem_cons_of_mem _ ho))]
    cases en
    · simp
    · simp [hg op (hv op List.mem_cons_self)]

/-! ## what is filed under a key after a run -/

theorem foldl_inc (l : List (Ev Int)) (hl : ∀ e ∈ l, e.f = (counterStep · .inc)) :
    l.foldl (fun v e => e.f v) 0 = wrap64 l.length := by
  suffices h : ∀ (l : List (Ev Int)) (v : Int), (∀ e ∈ l, e.f = (counterStep · .inc)) → wrap64 v = v →
      l.foldl (fun v e => e.f v) v = wrap64 (v + l.length) by
    have := h l 0 hl (by decide); simpa using this
  intro l
  induction l with
  | nil => intro v _ hv; simpa using hv.symm
  | cons e es ih =>
    intro v hl hv
    have he := hl e List.mem_cons_self
    simp only [List.foldl_cons, he, counterStep, List.length_cons]
    rw [ih _ (fun e' h' => hl e' (List.mem_cons_of_mem _ h')) (wrap64_idem _), wrap64_add_wrap64]
    congr 1; simp only [Int.natCast_add, Int.natCast_one]; omega

theorem foldl_obs (l : List (Ev (Hist α))) (hl : ∀ e ∈ l, ∃ v, e.f = (·.observe v)) :
    ∀ h : Hist α, (l.foldl (fun v e => e.f v) h).count = h.count + l.length := by
  induction l with
  | nil => intro h; rfl
  | cons e es ih =>
    intro h
    obtain ⟨v, hv⟩ := hl e List.mem_cons_self
    simp only [List.foldl_cons, hv, List.length_cons]
    rw [ih (fun e' h' => hl e' (List.mem_cons_of_mem _ h'))]
    simp [Hist.observe]; omega

omit [Num α] in
theorem evsOf_mem {β : Type} (g : MonOp α → List (Ev β)) : ∀ (ops : List (MonOp α)) (en : Bool) (e : Ev β),
    e ∈ evsOf g en ops → ∃ op ∈ ops, e ∈ g op := by
  intro ops
  induction ops with
  | nil => intro en e h; simp [evsOf] at h
  | cons op rest ih =>
    intro en e h
    simp only [evsOf, List.mem_append] at h
    rcases h with h | h
    · cases en
      · simp at h
      · exact ⟨op, List.mem_cons_self, by simpa using h⟩
    · obtain ⟨o, ho, he⟩ := ih _ e h
      exact ⟨o, List.mem_cons_of_mem _ ho, he⟩

omit [Num α] in
theorem counterEvs_inc (cfg : Cfg α) (op : MonOp α) : ∀ e ∈ counterEvs cfg op, e.f = (counterStep · .inc) := by
  intro e he
  cases op with
  | search d r hit q => cases hit <;> simp [counterEvs, incEv] at he <;> rcases he with rfl | rfl <;> rfl
  | db o d s σT σC => simp [counterEvs, incEv] at he; subst he; rfl
  | enable b => simp [counterEvs] at he

theorem timerEvs_obs (cfg : Cfg α) (op : MonOp α) : ∀ e ∈ timerEvs cfg op, ∃ v, e.f = (·.observe v) := by
  intro e he
  cases op with
  | search d r hit q => simp [timerEvs, obsEv] at he; subst he; exact ⟨d, rfl⟩
  | db o d s σT σC => simp [timerEvs, obsEv] at he; subst he; exact ⟨d, rfl⟩
  | enable b => simp [timerEvs] at he

theorem histEvs_obs (cfg : Cfg α) (op : MonOp α) : ∀ e ∈ histEvs cfg op, ∃ v, e.f = (·.observe v) := by
  intro e he
  cases op with
  | search d r hit q => simp [histEvs, obsEv] at he; subst he; exact ⟨q, rfl⟩
  | db o d s σT σC => simp [histEvs] at he
  | enable b => simp [histEvs] at he

/-- value of the counter filed under `K` after a run from a fresh monitor -/
theorem run_counter_value (cfg : Cfg α) (ops : List (MonOp α)) (K : Bytes) :
    valD ((Monitor.new : Monitor α).run cfg ops).c.counters K 0 =
      wrap64 ((evsOf (counterEvs cfg) true ops).filter (fun e => decide (e.key = K))).length := by
  rw [run_counters, valD_applyEvs]
  have : valD (Monitor.new : Monitor α).c.counters K 0 = 0 := rfl
  rw [this]
  apply foldl_inc
  intro e he
  obtain ⟨op, _, h⟩ := evsOf_mem _ _ _ _ (List.mem_filter.mp he).1
  exact counterEvs_inc cfg op e h

theorem run_timer_count (cfg : Cfg α) (ops : List (MonOp α)) (K : Bytes) :
    (valD ((Monitor.new : Monitor α).run cfg ops).c.timers K (Hist.new cfg.defaultBuckets)).count =
      ((evsOf (timerEvs cfg) true ops).filter (fun e => decide (e.key = K))).length := by
  rw [run_timers, valD_applyEvs, foldl_obs]
  · have : valD (Monitor.new : Monitor α).c.timers K (Hist.new cfg.defaultBuckets) = Hist.new cfg.defaultBuckets := rfl
    rw [this]; simp [Hist.new, Monitor.new]
  · intro e he
    obtain ⟨op, _, h⟩ := evsOf_mem _ _ _ _ (List.mem_filter.mp he).1
    exact timerEvs_obs cfg op e h

theorem run_hist_count (cfg : Cfg α) (ops : List (MonOp α)) (K : Bytes) :
    (valD ((Monitor.new : Monitor α).run cfg ops).c.hists K (Hist.new cfg.defaultBuckets)).count =
      ((evsOf (histEvs cfg) true ops).filter (fun e => decide (e.key = K))).length := by
  rw [run_hists, valD_applyEvs, foldl_obs]
  · have : valD (Monitor.new : Monitor α).c.hists K (Hist.new cfg.defaultBuckets) = Hist.new cfg.defaultBuckets := rfl
    rw [this]; simp [Hist.new, Monitor.new]
  · intro e he
    obtain ⟨op, _, h⟩ := evsOf_mem _ _ _ _ (List.mem_filter.mp he).1
    exact histEvs_obs cfg op e h

/-! ## the keys the monitor uses: explicit form, distinctness, injectivity -/

theorem key_notags (sorts : Bool) (sp : Seps) (name : Bytes) : metricKey sorts sp name [] [] = name := rfl

theorem key_onetag (sorts : Bool) (sp : Seps) (name k v : Bytes) :
    metricKey sorts sp name [(k, v)] [k] = name ++ sp.tag ++ k ++ sp.kv ++ v := by
  cases sorts <;> simp [metricKey, render, sortKeys, sortBy, insertBy, tagValue]

theorem sortKeys_db : sortKeys [tOperation, tSuccess] = [tOperation, tSuccess] := by decide

theorem key_db (sp : Seps) (name o : Bytes) (s : Bool) {σ : List Bytes} (hσ : ValidSched (dbTags o s) σ) :
    metricKey true sp name (dbTags o s) σ =
      name ++ sp.tag ++ tOperation ++ sp.kv ++ o ++ sp.tag ++ tSuccess ++ sp.kv ++ boolTag s := by
  have h1 : sortKeys σ = [tOperation, tSuccess] := by
    rw [sortKeys_perm_eq hσ]; exact sortKeys_db
  have h2 : ¬ tOperation = tSuccess := by decide
  simp [metricKey, dbTags, h1, render, tagValue, h2]

theorem boolTag_suffix_ne (u v : Bytes) : u ++ boolTag true ≠ v ++ boolTag false := by
  intro h
  have e1 : boolTag true = [116, 114, 117, 101] := by decide
  have e2 : boolTag false = [102, 97, 108, 115, 101] := by decide
  rw [e1, e2] at h
  have := congrArg List.reverse h
  simp at this

theorem boolTag_inj {a b : Bool} (h : boolTag a = boolTag b) : a = b := by
  cases a <;> cases b <;> first | rfl | (exact absurd h (by decide))

/-- `(operation, success) ↦ key` is injective (whatever the two separators are) -/
theorem key_db_inj (sp : Seps) (name : Bytes) {o o' : Bytes} {s s' : Bool} {σ σ' : List Bytes}
    (hσ : ValidSched (dbTags o s) σ) (hσ' : ValidSched (dbTags o' s') σ')
    (h : metricKey true sp name (dbTags o s) σ = metricKey true sp name (dbTags o' s') σ') : o = o' ∧ s = s' := by
  rw [key_db sp name o s hσ, key_db sp name o' s' hσ'] at h
  simp only [List.append_assoc] at h
  have h := List.append_cancel_left (List.append_cancel_left (List.append_cancel_left (List.append_cancel_left h)))
  have hs : s = s' := by
    cases s <;> cases s'
    · rfl
    · exfalso
      simp only [← List.append_assoc] at h
      exact boolTag_suffix_ne _ _ h.symm
    · exfalso
      simp only [← List.append_assoc] at h
      exact boolTag_suffix_ne _ _ h
    · rfl
  subst hs
  exact ⟨(List.append_inj' h rfl).1, rfl⟩

theorem key_search_inj (sorts : Bool) (sp : Seps) (name : Bytes) {b b' : Bool}
    (h : metricKey sorts sp name (searchTags b) [tCacheHit] = metricKey sorts sp name (searchTags b') [tCacheHit]) :
    b = b' := by
  simp only [searchTags, key_onetag] at h
  exact boolTag_inj (List.append_cancel_left h)

theorem key_ne_of_head (sorts sorts' : Bool) (sp : Seps) {n n' : Bytes} (t t' : Tags) (σ σ' : List Bytes)
    (hn : n ≠ []) (hn' : n' ≠ []) (hh : n.head? ≠ n'.head?) :
    metricKey sorts sp n t σ ≠ metricKey sorts' sp n' t' σ' := by
  intro h
  have := congrArg List.head? h
  rw [metricKey_head _ _ _ _ _ hn, metricKey_head _ _ _ _ _ hn'] at this
  exact hh this

/-! ## interleavings -/

/-- every remaining instruction of every goroutine is `atomic.AddInt64(&v, 1)` -/
def AllAtomicInc (ts : List Thread) : Prop := ∀ t ∈ ts, ∀ i ∈ t.prog, i = Instr.atomicAdd 1

def remaining (ts : List Thread) : Nat := (ts.map (·.prog.length)).sum

theorem stepThreads_atomic : ∀ (ts : List Thread) (shared : Int) (tid : Nat), AllAtomicInc ts →
    AllAtomicInc (stepThreads shared ts tid).2 ∧
    (stepThreads shared ts tid).1 + remaining (stepThreads shared ts tid).2 = shared + remaining ts
  | [], _, _, h => ⟨h, rfl⟩
  | t :: ts, shared, 0, h => by
    have ht := h t List.mem_cons_self
    simp only [stepThreads, execThread]
    cases hp : t.prog with
    | nil =>
      refine ⟨?_, ?_⟩
      · intro t' ht'
        rcases List.mem_cons.mp ht' with rfl | h'
        · exact ht
        · exact h t' (List.mem_cons_of_mem _ h')
      · rfl
    | cons i rest =>
      have hi : i = Instr.atomicAdd 1 := ht i (by simp [hp])
      subst hi
      refine ⟨?_, ?_⟩
      · intro t' ht'
        rcases List.mem_cons.mp ht' with rfl | h'
        · intro j hj; exact ht j (by simp [hp, List.mem_cons_of_mem _ hj])
        · exact h t' (List.mem_cons_of_mem _ h')
      · simp [remaining, hp]; omega
  | t :: ts, shared, tid + 1, h => by
    have ih := stepThreads_atomic ts shared tid (fun t' ht' => h t' (List.mem_cons_of_mem _ ht'))
    simp only [stepThreads]
    refine ⟨?_, ?_⟩
    · intro t' ht'
      rcases List.mem_cons.mp ht' with rfl | h'
      · exact h _ List.mem_cons_self
      · exact ih.1 t' h'
    · have := ih.2
      simp only [remaining, List.map_cons, List.sum_cons] at this ⊢
      omega

theorem run_atomic (sched : List Nat) : ∀ s : Sys, AllAtomicInc s.threads →
    AllAtomicInc (s.run sched).threads ∧
    (s.run sched).shared + remaining (s.run sched).threads = s.shared + remaining s.threads := by
  induction sched with
  | nil => intro s h; exact ⟨h, rfl⟩
  | cons tid rest ih =>
    intro s h
    have hs := stepThreads_atomic s.threads s.shared tid h
    have := ih (s.step tid) hs.1
    simp only [Sys.run, List.foldl_cons] at this ⊢
    refine ⟨this.1, ?_⟩
    rw [this.2]
    exact hs.2

theorem init_atomic (ks : List Nat) : AllAtomicInc (Sys.init true ks).threads ∧
    remaining (Sys.init true ks).threads = ks.sum := by
  induction ks with
  | nil => exact ⟨by intro t ht; simp [Sys.init] at ht, rfl⟩
  | cons k ks ih =>
    refine ⟨?_, ?_⟩
    · intro t ht
      simp only [Sys.init, List.map_cons, List.mem_cons] at ht
      rcases ht with rfl | ht
      · intro i hi
        simp only [incProg, ↓reduceIte, List.mem_replicate] at hi
        exact hi.2
      · exact ih.1 t (by simpa [Sys.init] using ht)
    · have := ih.2
      simp only [Sys.init, remaining, List.map_map, List.map_cons, List.sum_cons, incProg, ↓reduceIte] at this ⊢
      rw [this]; simp

theorem remaining_of_done : ∀ (ts : List Thread), ts.all (·.prog.isEmpty) = true → remaining ts = 0
  | [], _ => rfl
  | t :: ts, h => by
    simp only [List.all_cons, Bool.and_eq_true, List.isEmpty_iff] at h
    have := remaining_of_done ts h.2
    simp only [remaining, List.map_cons, List.sum_cons] at this ⊢
    simp [h.1, this]

end Wtf.Metrics

/-! ## from events per key to calls per identity -/
namespace Wtf.Metrics

variable {α : Type} [Num α]

def isSearch (b : Bool) : MonOp α → Bool
  | .search _ _ hit _ => hit == b
  | _ => false

def isAnySearch : MonOp α → Bool
  | .search _ _ _ _ => true
  | _ => false

def isDb (o : Bytes) (s : Bool) : MonOp α → Bool
  | .db o' _ s' _ _ => decide (o' = o) && (s' == s)
  | _ => false

def isAnyDb : MonOp α → Bool
  | .db _ _ _ _ _ => true
  | _ => false

/-- the two iteration orders of a database call are orders of its two-tag map -/
def ValidOp : MonOp α → Prop
  | .db o _ s σT σC => ValidSched (dbTags o s) σT ∧ ValidSched (dbTags o s) σC
  | _ => True

theorem heads : nSearchesTotal ≠ [] ∧ nCacheHits ≠ [] ∧ nCacheMisses ≠ [] ∧ nDbTotal ≠ [] ∧
    nSearchDuration ≠ [] ∧ nDbDuration ≠ [] ∧
    nSearchesTotal.head? ≠ nCacheHits.head? ∧ nSearchesTotal.head? ≠ nCacheMisses.head? ∧
    nSearchesTotal.head? ≠ nDbTotal.head? ∧ nCacheHits.head? ≠ nDbTotal.head? ∧
    nCacheMisses.head? ≠ nDbTotal.head? ∧ nSearchDuration.head? ≠ nDbDuration.head? ∧
    nCacheHits ≠ nCacheMisses := by decide

section PerOp
variable (cfg : Cfg α)
set_option linter.unusedSectionVars false

theorem filter_len_search (b : Bool) (op : MonOp α) :
    ((counterEvs cfg op).filter (fun e => decide (e.key =
        metricKey cfg.sorts cfg.sp nSearchesTotal (searchTags b) [tCacheHit]))).length =
      if isSearch b op then 1 else 0 := by
  obtain ⟨h1, h2, h3, h4, _, _, g1, g2, g3, _, _, _, _⟩ := heads
  cases op with
  | search d r hit q =>
    have e1 : ∀ x y : Bool, (metricKey cfg.sorts cfg.sp nSearchesTotal (searchTags x) [tCacheHit] =
        metricKey cfg.sorts cfg.sp nSearchesTotal (searchTags y) [tCacheHit]) ↔ x = y :=
      fun x y => ⟨key_search_inj _ _ _, fun h => by rw [h]⟩
    have e2 : ∀ y, ¬ metricKey cfg.sorts cfg.sp nCacheHits [] [] =
        metricKey cfg.sorts cfg.sp nSearchesTotal (searchTags y) [tCacheHit] :=
      fun y => key_ne_of_head _ _ _ _ _ _ _ h2 h1 (fun h => g1 h.symm)
    have e3 : ∀ y, ¬ metricKey cfg.sorts cfg.sp nCacheMisses [] [] =
        metricKey cfg.sorts cfg.sp nSearchesTotal (searchTags y) [tCacheHit] :=
      fun y => key_ne_of_head _ _ _ _ _ _ _ h3 h1 (fun h => g2 h.symm)
    cases hit <;> cases b <;> simp [counterEvs, incEv, isSearch, e1, e2, e3]
  | db o d s σT σC =>
    have e : ¬ metricKey cfg.sorts cfg.sp nDbTotal (dbTags o s) σC =
        metricKey cfg.sorts cfg.sp nSearchesTotal (searchTags b) [tCacheHit] :=
      key_ne_of_head _ _ _ _ _ _ _ h4 h1 (fun h => g3 h.symm)
    simp [counterEvs, incEv, isSearch, e]
  | enable x => simp [counterEvs, isSearch]

theorem filter_len_hits (op : MonOp α) :
    ((counterEvs cfg op).filter (fun e => decide (e.key = nCacheHits))).length =
      if isSearch true op then 1 else 0 := by
  obtain ⟨h1, h2, h3, h4, _, _, g1, g2, g3, g4, g5, _, g6⟩ := heads
  have kn : ∀ n, metricKey cfg.sorts cfg.sp n [] [] = n := fun n => rfl
  cases op with
  | search d r hit q =>
    have e1 : ¬ metricKey cfg.sorts cfg.sp nSearchesTotal (searchTags hit) [tCacheHit] = nCacheHits := by
      rw [← kn nCacheHits]; exact key_ne_of_head _ _ _ _ _ _ _ h1 h2 g1
    cases hit <;> simp [counterEvs, incEv, isSearch, e1, kn, g6.symm]
  | db o d s σT σC =>
    have e : ¬ metricKey cfg.sorts cfg.sp nDbTotal (dbTags o s) σC = nCacheHits := by
      rw [← kn nCacheHits]; exact key_ne_of_head _ _ _ _ _ _ _ h4 h2 (fun h => g4 h.symm)
    simp [counterEvs, incEv, isSearch, e]
  | enable x => simp [counterEvs, isSearch]

theorem filter_len_misses (op : MonOp α) :
    ((counterEvs cfg op).filter (fun e => decide (e.key = nCacheMisses))).length =
      if isSearch false op then 1 else 0 := by
  obtain ⟨h1, h2, h3, h4, _, _, g1, g2, g3, g4, g5, _, g6⟩ := heads
  have kn : ∀ n, metricKey cfg.sorts cfg.sp n [] [] = n := fun n => rfl
  cases op with
  | search d r hit q =>
    have e1 : ¬ metricKey cfg.sorts cfg.sp nSearchesTotal (searchTags hit) [tCacheHit] = nCacheMisses := by
      rw [← kn nCacheMisses]; exact key_ne_of_head _ _ _ _ _ _ _ h1 h3 g2
    cases hit <;> simp [counterEvs, incEv, isSearch, e1, kn, g6]
  | db o d s σT σC =>
    have e : ¬ metricKey cfg.sorts cfg.sp nDbTotal (dbTags o s) σC = nCacheMisses := by
      rw [← kn nCacheMisses]; exact key_ne_of_head _ _ _ _ _ _ _ h4 h3 (fun h => g5 h.symm)
    simp [counterEvs, incEv, isSearch, e]
  | enable x => simp [counterEvs, isSearch]

theorem filter_len_db (hs : cfg.sorts = true) (o : Bytes) (s : Bool) {σ : List Bytes}
    (hσ : ValidSched (dbTags o s) σ) (op : MonOp α) (hv : ValidOp op) :
    ((counterEvs cfg op).filter (fun e => decide (e.key =
        metricKey cfg.sorts cfg.sp nDbTotal (dbTags o s) σ))).length =
      if isDb o s op then 1 else 0 := by
  obtain ⟨h1, h2, h3, h4, _, _, g1, g2, g3, g4, g5, _, _⟩ := heads
  cases op with
  | search d r hit q =>
    have e1 : ¬ metricKey cfg.sorts cfg.sp nSearchesTotal (searchTags hit) [tCacheHit] =
        metricKey cfg.sorts cfg.sp nDbTotal (dbTags o s) σ := key_ne_of_head _ _ _ _ _ _ _ h1 h4 g3
    have e2 : ¬ metricKey cfg.sorts cfg.sp nCacheHits [] [] =
        metricKey cfg.sorts cfg.sp nDbTotal (dbTags o s) σ := key_ne_of_head _ _ _ _ _ _ _ h2 h4 g4
    have e3 : ¬ metricKey cfg.sorts cfg.sp nCacheMisses [] [] =
        metricKey cfg.sorts cfg.sp nDbTotal (dbTags o s) σ := key_ne_of_head _ _ _ _ _ _ _ h3 h4 g5
    cases hit <;> simp [counterEvs, incEv, isDb, e1, e2, e3]
  | db o' d s' σT σC =>
    have e : (metricKey cfg.sorts cfg.sp nDbTotal (dbTags o' s') σC =
        metricKey cfg.sorts cfg.sp nDbTotal (dbTags o s) σ) ↔ (o' = o ∧ s' = s) := by
      rw [hs]
      constructor
      · exact key_db_inj _ _ hv.2 hσ
      · rintro ⟨rfl, rfl⟩
        exact metricKey_sorted_indep _ _ _ (hv.2.trans hσ.symm)
    by_cases hc : o' = o ∧ s' = s
    · obtain ⟨rfl, rfl⟩ := hc
      have hk := e.mpr ⟨rfl, rfl⟩
      simp [counterEvs, incEv, isDb, hk]
    · have hk : ¬ _ := fun h => hc (e.mp h)
      simp [counterEvs, incEv, isDb, hk, hc]
  | enable x => simp [counterEvs, isDb]

theorem filter_len_qlen (op : MonOp α) :
    ((histEvs cfg op).filter (fun e => decide (e.key = nQueryLength))).length =
      if isAnySearch op then 1 else 0 := by
  have kn : ∀ n, metricKey cfg.sorts cfg.sp n [] [] = n := fun n => rfl
  cases op <;> simp [histEvs, obsEv, isAnySearch, kn]

theorem filter_len_search_timer (b : Bool) (op : MonOp α) :
    ((timerEvs cfg op).filter (fun e => decide (e.key =
        metricKey cfg.sorts cfg.sp nSearchDuration (searchTags b) [tCacheHit]))).length =
      if isSearch b op then 1 else 0 := by
  obtain ⟨_, _, _, _, h5, h6, _, _, _, _, _, g, _⟩ := heads
  cases op with
  | search d r hit q =>
    have e1 : ∀ x y : Bool, (metricKey cfg.sorts cfg.sp nSearchDuration (searchTags x) [tCacheHit] =
        metricKey cfg.sorts cfg.sp nSearchDuration (searchTags y) [tCacheHit]) ↔ x = y :=
      fun x y => ⟨key_search_inj _ _ _, fun h => by rw [h]⟩
    cases hit <;> cases b <;> simp [timerEvs, obsEv, isSearch, e1]
  | db o d s σT σC =>
    have e : ¬ metricKey cfg.sorts cfg.sp nDbDuration (dbTags o s) σT =
        metricKey cfg.sorts cfg.sp nSearchDuration (searchTags b) [tCacheHit] :=
      key_ne_of_head _ _ _ _ _ _ _ h6 h5 (fun h => g h.symm)
    simp [timerEvs, obsEv, isSearch, e]
  | enable x => simp [timerEvs, isSearch]

theorem filter_len_db_timer (hs : cfg.sorts = true) (o : Bytes) (s : Bool) {σ : List Bytes}
    (hσ : ValidSched (dbTags o s) σ) (op : MonOp α) (hv : ValidOp op) :
    ((timerEvs cfg op).filter (fun e => decide (e.key =
        metricKey cfg.sorts cfg.sp nDbDuration (dbTags o s) σ))).length =
      if isDb o s op then 1 else 0 := by
  obtain ⟨_, _, _, _, h5, h6, _, _, _, _, _, g, _⟩ := heads
  cases op with
  | search d r hit q =>
    have e1 : ¬ metricKey cfg.sorts cfg.sp nSearchDuration (searchTags hit) [tCacheHit] =
        metricKey cfg.sorts cfg.sp nDbDuration (dbTags o s) σ := key_ne_of_head _ _ _ _ _ _ _ h5 h6 g
    simp [timerEvs, obsEv, isDb, e1]
  | db o' d s' σT σC =>
    have e : (metricKey cfg.sorts cfg.sp nDbDuration (dbTags o' s') σT =
        metricKey cfg.sorts cfg.sp nDbDuration (dbTags o s) σ) ↔ (o' = o ∧ s' = s) := by
      rw [hs]
      constructor
      · exact key_db_inj _ _ hv.1 hσ
      · rintro ⟨rfl, rfl⟩
        exact metricKey_sorted_indep _ _ _ (hv.1.trans hσ.symm)
    by_cases hc : o' = o ∧ s' = s
    · obtain ⟨rfl, rfl⟩ := hc
      have hk := e.mpr ⟨rfl, rfl⟩
      simp [timerEvs, obsEv, isDb, hk]
    · have hk : ¬ _ := fun h => hc (e.mp h)
      simp [timerEvs, obsEv, isDb, hk, hc]
  | enable x => simp [timerEvs, isDb]

end PerOp

omit [Num α] in
theorem countOps_search_split : ∀ (ops : List (MonOp α)) (en : Bool),
    countOps (isSearch true) en ops + countOps (isSearch false) en ops = countOps isAnySearch en ops := by
  intro ops
  induction ops with
  | nil => intro en; rfl
  | cons op rest ih =>
    intro en
    simp only [countOps]
    have := ih (nextEnabled en op)
    cases op with
    | search d r hit q => cases hit <;> cases en <;> simp [isSearch, isAnySearch] <;> omega
    | db o d s σT σC => simp [isSearch, isAnySearch]; omega
    | enable b => simp [isSearch, isAnySearch]; omega

end Wtf.Metrics
