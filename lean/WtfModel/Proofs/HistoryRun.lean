import WtfModel.Proofs.History

/-! C16: the invariant of operation histories (tool-produced and with arbitrary file contents). -/
namespace Wtf.History

section
variable {F : Type} (C : Codec F)

def Op.Valid (valid : Bytes → Prop) : Op F → Prop
  | .add q _ c _ _ => valid q ∧ valid c
  | _ => True

/-- the same at a given clock reading: the instant the entry gets has a text form -/
def Op.ValidAt (valid : Bytes → Prop) (okT okI : Int → Prop) (clock : Int) : Op F → Prop
  | .add q r c d dt => valid q ∧ valid c ∧ okT (clock + dt) ∧ okI r ∧ okI d
  | _ => True

def Op.clockAfter (clock : Int) : Op F → Int
  | .add _ _ _ _ dt => clock + dt
  | _ => clock

/-- every recorded search of the history carries valid strings and gets a representable instant -/
def OpsValid (valid : Bytes → Prop) (okT okI : Int → Prop) : Int → List (Op F) → Prop
  | _, [] => True
  | c, op :: ops => op.ValidAt valid okT okI c ∧ OpsValid valid okT okI (op.clockAfter c) ops

theorem OpsValid.of_forall {valid : Bytes → Prop} (ops : List (Op F)) (c : Int) (h : ∀ op ∈ ops, op.Valid valid) :
    OpsValid valid (fun _ => True) (fun _ => True) c ops := by
  induction ops generalizing c with
  | nil => trivial
  | cons op ops ih =>
    refine ⟨?_, ih _ (fun o ho => h o (by simp [ho]))⟩
    have := h op (by simp)
    cases op <;> simp_all [Op.ValidAt, Op.Valid]

theorem specStep_clock (x : Spec) (op : Op F) : (specStep x op).clock = op.clockAfter x.clock := by
  cases op <;> rfl

/-- what is known about the on-disk file in a tool-produced history: it is what `Save` wrote for some
    earlier state `snap` of this very history -/
def FileInv (valid : Bytes → Prop) (okT okI : Int → Prop) (Q : Int → Prop) (clock : Int) (file : Option F) (saved : Option (List Core)) : Prop :=
  (file = none ∧ saved = none) ∨
  ∃ (snap : State) (L : List Core), file = some (saveBytes C snap) ∧ saved = some L ∧ Q snap.maxSize ∧
    (snap.entries.length : Int) ≤ snap.maxSize ∧ Chrono clock snap.entries ∧ (∀ e ∈ snap.entries, e.Valid valid okT okI) ∧
    snap.entries.map Entry.core = lastN snap.maxSize.toNat L

/-- `Q` is what is known about every limit that occurs (in memory and in the file): at least positivity;
    `(· = M)` when every process asks for the same size. -/
structure Inv (valid : Bytes → Prop) (okT okI : Int → Prop) (Q : Int → Prop) (y : Sys F) (x : Spec) : Prop where
  max : Q y.h.maxSize
  bounded : (y.h.entries.length : Int) ≤ y.h.maxSize
  chrono : Chrono y.clock y.h.entries
  validE : ∀ e ∈ y.h.entries, e.Valid valid okT okI
  refines : y.h.entries.map Entry.core = lastN y.h.maxSize.toNat x.log
  clock : x.clock = y.clock
  file : FileInv C valid okT okI Q y.clock y.file x.saved

/-- operations of tool-produced histories; a new process must ask for a size `Q` accepts -/
def Op.Ok (P : Params) (Q : Int → Prop) : Op F → Prop
  | .setFile _ => False
  | .restart m => Q (new P m).maxSize
  | _ => True

theorem FileInv.mono {valid : Bytes → Prop} {okT okI : Int → Prop} {Q : Int → Prop} {c c' : Int} {file : Option F} {saved : Option (List Core)}
    (h : FileInv C valid okT okI Q c file saved) (hc : c ≤ c') : FileInv C valid okT okI Q c' file saved := by
  rcases h with h | ⟨snap, L, h1, h2, h3, h4, h5, h6, h7⟩
  · exact Or.inl h
  · exact Or.inr ⟨snap, L, h1, h2, h3, h4, h5.mono hc, h6, h7⟩

theorem step_inv {valid : Bytes → Prop} {okT okI : Int → Prop} (L : Codec.LawsOn C valid okT okI) (P : Params) {Q : Int → Prop} (hQ : ∀ k, Q k → 0 < k) (hQI : ∀ k, Q k → okI k)
    {y : Sys F} {x : Spec} (h : Inv C valid okT okI Q y x) (op : Op F) (ht : op.Ok P Q) (hv : op.ValidAt valid okT okI y.clock) :
    ∃ y', step C P y op = .ok y' ∧ Inv C valid okT okI Q y' (specStep x op) := by
  have hpos : 0 < y.h.maxSize := hQ _ h.max
  have hm1 : 1 ≤ y.h.maxSize.toNat := by omega
  cases op with
  | setFile f => exact absurd ht (by simp [Op.Ok])
  | restart m =>
    refine ⟨{ y with h := new P m }, rfl, ?_⟩
    have hp := hQ _ ht
    refine ⟨ht, ?_, ⟨List.Pairwise.nil, by simp [new]⟩, by simp [new], by simp [new, specStep, lastN_nil], h.clock, h.file⟩
    simp only [new, List.length_nil] at hp ⊢
    omega
  | add q r c d dt =>
    have hadd := add_eq hpos (⟨q, y.clock + dt, r, c, d⟩ : Entry)
    refine ⟨{ y with h := { y.h with entries := addEntries y.h.maxSize.toNat y.h.entries ⟨q, y.clock + dt, r, c, d⟩ },
                     clock := y.clock + dt }, ?_, ?_⟩
    · simp only [step, hadd]
    · have hle : y.clock ≤ y.clock + (dt : Int) := by omega
      refine ⟨h.max, ?_, ?_, ?_, ?_, ?_, ?_⟩
      · have := addEntries_length_le hm1 y.h.entries ⟨q, y.clock + dt, r, c, d⟩
        have hb := h.bounded
        simp only []
        omega
      · exact addEntries_chrono h.chrono _ hle
      · intro e he
        have hsub : ∀ e ∈ addEntries y.h.maxSize.toNat y.h.entries ⟨q, y.clock + dt, r, c, d⟩,
            e ∈ y.h.entries ∨ e = ⟨q, y.clock + dt, r, c, d⟩ := by
          intro e he
          unfold addEntries at he
          split at he
          · split at he
            · rw [List.mem_append] at he
              rcases he with he | he
              · exact Or.inl (List.dropLast_subset _ he)
              · exact Or.inr (by simpa using he)
            · have := (lastN_sublist _ _).subset he
              rw [List.mem_append] at this
              rcases this with he | he
              · exact Or.inl he
              · exact Or.inr (by simpa using he)
          · have := (lastN_sublist _ _).subset he
            rw [List.mem_append] at this
            rcases this with he | he
            · exact Or.inl he
            · exact Or.inr (by simpa using he)
        rcases hsub e he with he | he
        · exact h.validE e he
        · subst he; exact hv
      · have := specAdd_refines hm1 h.refines ⟨q, y.clock + dt, r, c, d⟩
        simp only [specStep, h.clock]
        exact this
      · simp [specStep, h.clock]
      · exact (h.file.mono C hle)
  | save =>
    refine ⟨{ y with file := some (saveBytes C y.h) }, rfl, ?_⟩
    refine ⟨h.max, h.bounded, h.chrono, h.validE, h.refines, h.clock, ?_⟩
    exact Or.inr ⟨y.h, x.log, rfl, rfl, h.max, h.bounded, h.chrono, h.validE, h.refines⟩
  | load =>
    refine ⟨{ y with h := (load C P y.h y.file).1 }, rfl, ?_⟩
    rcases h.file with ⟨hf, hs⟩ | ⟨snap, Lg, hf, hs, h3, h4, h5, h6, h7⟩
    · have : (load C P y.h y.file).1 = y.h := by rw [hf]; rfl
      simp only [this, specStep, hs, Option.getD_none]
      exact ⟨h.max, h.bounded, h.chrono, h.validE, h.refines, h.clock, Or.inl ⟨hf, rfl⟩⟩
    · have hl : (load C P y.h y.file).1 = snap := by
        rw [hf, load_saveBytes C L P y.h snap (hQ _ h3) (hQI _ h3) h6]
      simp only [hl, specStep, hs, Option.getD_some]
      exact ⟨h3, h4, h5, h6, h7, h.clock, Or.inr ⟨snap, Lg, hf, rfl, h3, h4, h5, h6, h7⟩⟩
  | clear =>
    refine ⟨{ y with h := clear y.h, file := some (saveBytes C (clear y.h)) }, rfl, ?_⟩
    have hc : Chrono y.clock ([] : List Entry) := ⟨List.Pairwise.nil, by simp⟩
    have hb : (((clear y.h).entries.length : Nat) : Int) ≤ (clear y.h).maxSize := by
      simp only [clear, List.length_nil]; omega
    refine ⟨h.max, hb, hc, by simp [clear], by simp [clear, specStep, lastN_nil], h.clock, ?_⟩
    exact Or.inr ⟨clear y.h, [], rfl, rfl, h.max, hb, hc, by simp [clear], by simp [clear, lastN_nil]⟩

theorem run_inv {valid : Bytes → Prop} {okT okI : Int → Prop} (L : Codec.LawsOn C valid okT okI) (P : Params) {Q : Int → Prop} (hQ : ∀ k, Q k → 0 < k) (hQI : ∀ k, Q k → okI k)
    (ops : List (Op F)) {y : Sys F} {x : Spec} (h : Inv C valid okT okI Q y x)
    (ht : ∀ op ∈ ops, op.Ok P Q) (hv : OpsValid valid okT okI y.clock ops) :
    ∃ y', run C P y ops = .ok y' ∧ Inv C valid okT okI Q y' (specRun x ops) := by
  induction ops generalizing y x with
  | nil => exact ⟨y, rfl, h⟩
  | cons op ops ih =>
    obtain ⟨y1, h1, hi1⟩ := step_inv C L P hQ hQI h op (ht op (by simp)) hv.1
    have hc : y1.clock = op.clockAfter y.clock := by rw [← hi1.clock, specStep_clock, h.clock]
    obtain ⟨y2, h2, hi2⟩ := ih hi1 (fun o ho => ht o (by simp [ho])) (hc ▸ hv.2)
    refine ⟨y2, ?_, ?_⟩
    · simp only [run, h1, h2]
    · simpa [specRun] using hi2

theorem init_inv {valid : Bytes → Prop} {okT okI : Int → Prop} (P : Params) (m t0 : Int) {Q : Int → Prop} (hq : Q (new P m).maxSize)
    (hpos : 0 < (new P m).maxSize) :
    Inv C valid okT okI Q (init P m t0 : Sys F) ⟨[], none, t0⟩ := by
  refine ⟨hq, ?_, ⟨List.Pairwise.nil, by simp [init, new]⟩, by simp [init, new], by simp [init, new, lastN_nil], rfl, Or.inl ⟨rfl, rfl⟩⟩
  simp only [init, new, List.length_nil] at *
  omega

theorem Op.ok_of_isTool {P : Params} (hP : ParamsOk P) (op : Op F) (h : op.isTool = true) :
    op.Ok P (fun k => 0 < k) := by
  cases op with
  | setFile f => simp [Op.isTool] at h
  | restart m => exact new_maxSize_pos hP m
  | add q r c d dt => trivial
  | save => trivial
  | load => trivial
  | clear => trivial

/-! ### arbitrary file contents: the limit stays positive, no add panics (no codec laws needed) -/

theorem step_pos (P : Params) (hP : ParamsOk P) {y : Sys F} (h : 0 < y.h.maxSize) (op : Op F) :
    ∃ y', step C P y op = .ok y' ∧ 0 < y'.h.maxSize := by
  cases op with
  | add q r c d dt =>
    have hadd := add_eq h (⟨q, y.clock + dt, r, c, d⟩ : Entry)
    simp only [step, hadd]
    exact ⟨_, rfl, h⟩
  | save => exact ⟨_, rfl, h⟩
  | load => exact ⟨_, rfl, load_maxSize_pos C hP y.h h y.file⟩
  | clear => exact ⟨_, rfl, h⟩
  | restart m => exact ⟨_, rfl, new_maxSize_pos hP m⟩
  | setFile f => exact ⟨_, rfl, h⟩

theorem run_pos (P : Params) (hP : ParamsOk P) (ops : List (Op F)) {y : Sys F} (h : 0 < y.h.maxSize) :
    ∃ y', run C P y ops = .ok y' ∧ 0 < y'.h.maxSize := by
  induction ops generalizing y with
  | nil => exact ⟨y, rfl, h⟩
  | cons op ops ih =>
    obtain ⟨y1, h1, hp1⟩ := step_pos C P hP h op
    obtain ⟨y2, h2, hp2⟩ := ih hp1
    exact ⟨y2, by simp only [run, h1, h2], hp2⟩

end

end Wtf.History
