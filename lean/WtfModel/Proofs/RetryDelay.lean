import WtfModel.Model.Retry

/-!
  Back-off delays over ℚ (helper lemmas for Props/C15.lean; core Lean only).
-/
namespace Wtf.Retry

theorem pow_le_pow_succ {f : Rat} (hf : 1 ≤ f) (n : Nat) : f ^ n ≤ f ^ (n + 1) := by
  have h0 : (0 : Rat) ≤ f := Rat.le_trans (by decide) hf
  have hp : (0 : Rat) ≤ f ^ n := Rat.pow_nonneg h0
  rw [Rat.pow_succ]
  have := Rat.mul_le_mul_of_nonneg_left hf hp
  simpa [Rat.mul_one] using this

theorem pow_mono {f : Rat} (hf : 1 ≤ f) {m n : Nat} (h : m ≤ n) : f ^ m ≤ f ^ n := by
  induction n with
  | zero => have : m = 0 := by omega
            subst this; exact Rat.le_refl
  | succ n ih =>
    by_cases hm : m = n + 1
    · subst hm; exact Rat.le_refl
    · exact Rat.le_trans (ih (by omega)) (pow_le_pow_succ hf n)

/-- the uncapped delay grows with the attempt number -/
theorem raw_mono {b f : Rat} (hb : 0 ≤ b) (hf : 1 ≤ f) {m n : Nat} (h : m ≤ n) :
    b * f ^ (m - 1) ≤ b * f ^ (n - 1) :=
  Rat.mul_le_mul_of_nonneg_left (pow_mono hf (by omega)) hb

theorem delayQ_le_max (cfg : Cfg) (n : Nat) : delayQ cfg n ≤ (cfg.max : Rat) := by
  unfold delayQ
  simp only
  split
  · exact Rat.le_refl
  · exact Rat.not_lt.mp ‹_›

theorem delayQ_mono (cfg : Cfg) (hb : 0 ≤ cfg.base) (hf : 1 ≤ cfg.factor) {m n : Nat} (h : m ≤ n) :
    delayQ cfg m ≤ delayQ cfg n := by
  have hb' : (0 : Rat) ≤ (cfg.base : Rat) := Rat.intCast_nonneg.mpr hb
  have hr := raw_mono hb' hf h
  unfold delayQ
  simp only
  generalize (cfg.base : Rat) * cfg.factor ^ (m - 1) = x at hr ⊢
  generalize (cfg.base : Rat) * cfg.factor ^ (n - 1) = y at hr ⊢
  split <;> split <;> grind

theorem delayQ_nonneg (cfg : Cfg) (hb : 0 ≤ cfg.base) (hf : 1 ≤ cfg.factor) (hm : 0 ≤ cfg.max) (n : Nat) :
    0 ≤ delayQ cfg n := by
  have hb' : (0 : Rat) ≤ (cfg.base : Rat) := Rat.intCast_nonneg.mpr hb
  have hm' : (0 : Rat) ≤ (cfg.max : Rat) := Rat.intCast_nonneg.mpr hm
  have h0 : (0 : Rat) ≤ cfg.factor := Rat.le_trans (by decide) hf
  unfold delayQ
  simp only
  split
  · exact hm'
  · exact Rat.mul_nonneg hb' (Rat.pow_nonneg h0)

/-! ### truncation toward zero -/

theorem truncQ_mono {a b : Rat} (h : a ≤ b) : truncQ a ≤ truncQ b := by
  unfold truncQ
  split <;> split
  · exact Rat.floor_monotone h
  · rename_i h1 h2
    exact absurd (Rat.le_trans h1 h) h2
  · rename_i h1 h2
    have h1' : a ≤ ((0 : Int) : Rat) := Rat.le_of_lt (Rat.not_le.mp h1)
    have ha : a.ceil ≤ 0 := Rat.ceil_le_iff.mpr h1'
    have hb : (0 : Int) ≤ b.floor := Rat.le_floor_iff.mpr h2
    omega
  · exact Rat.ceil_le_iff.mpr (Rat.le_trans h Rat.le_ceil)

theorem truncQ_le_int {a : Rat} {m : Int} (h : a ≤ (m : Rat)) : truncQ a ≤ m := by
  unfold truncQ
  split
  · have := Rat.le_trans (Rat.floor_le a) h
    exact Rat.intCast_le_intCast.mp this
  · exact Rat.ceil_le_iff.mpr h

theorem truncQ_nonneg {a : Rat} (h : 0 ≤ a) : 0 ≤ truncQ a := by
  unfold truncQ
  simp only [h, ↓reduceIte]
  exact Rat.le_floor_iff.mpr h

theorem delayNs_mono (cfg : Cfg) (hb : 0 ≤ cfg.base) (hf : 1 ≤ cfg.factor) {m n : Nat} (h : m ≤ n) :
    delayNs cfg m ≤ delayNs cfg n := truncQ_mono (delayQ_mono cfg hb hf h)

theorem delayNs_le_max (cfg : Cfg) (n : Nat) : delayNs cfg n ≤ cfg.max := truncQ_le_int (delayQ_le_max cfg n)

theorem delayNs_nonneg (cfg : Cfg) (hb : 0 ≤ cfg.base) (hf : 1 ≤ cfg.factor) (hm : 0 ≤ cfg.max) (n : Nat) :
    0 ≤ delayNs cfg n := truncQ_nonneg (delayQ_nonneg cfg hb hf hm n)

/-- consecutive delays `calculateDelay(a), calculateDelay(a+1), …` never decrease -/
theorem delays_pairwise (cfg : Cfg) (hb : 0 ≤ cfg.base) (hf : 1 ≤ cfg.factor) (a k : Nat) :
    ((List.range' a k).map (delayNs cfg)).Pairwise (· ≤ ·) := by
  rw [List.pairwise_map]
  have := List.pairwise_lt_range' (s := a) (n := k) (step := 1) (by omega)
  exact this.imp (fun h => delayNs_mono cfg hb hf (Nat.le_of_lt h))

end Wtf.Retry
