import WtfModel.Model.Retry

/-!
  Back-off delays (helper lemmas for Props/C15.lean; core Lean only).
-/
namespace Wtf.Retry

theorem pow_le_pow_succ {f : Rat} (hf : 1 ≤ f) (n : Nat) : f ^ n ≤ f ^ (n + 1) := by
  have h0 : (0 : Rat) ≤ f := Rat.le_trans (by decide) hf
  have hp : (0 : Rat) ≤ f ^ n := Rat.pow_nonneg h0
  rw [Rat.pow_succ]
  have := Rat.mul_le_mul_of_nonneg_left hf hp
  simpa [Rat.mul_one] using this

theorem pow_mono {f : Rat} (hf : 1 ≤ f) {m n : Nat} (h : m ≤ n) : f ^ m ≤ f ^ n := by
  induction n with
  | zero => have : m = 0 := by omega
            subst this; exact Rat.le_refl
  | succ n ih =>
    by_cases hm : m = n + 1
    · subst hm; exact Rat.le_refl
    · exact Rat.le_trans (ih (by omega)) (pow_le_pow_succ hf n)

/-- the uncapped delay grows with the attempt number -/
theorem raw_mono {b f : Rat} (hb : 0 ≤ b) (hf : 1 ≤ f) {m n : Nat} (h : m ≤ n) :
    b * f ^ (m - 1) ≤ b * f ^ (n - 1) :=
  Rat.mul_le_mul_of_nonneg_left (pow_mono hf (by omega)) hb

theorem capQ_le_max (cfg : Cfg) (d : Rat) : capQ cfg d ≤ (cfg.max : Rat) := by
  unfold capQ
  split
  · exact Rat.le_refl
  · exact Rat.not_lt.mp ‹_›

theorem capQ_mono (cfg : Cfg) {x y : Rat} (h : x ≤ y) : capQ cfg x ≤ capQ cfg y := by
  unfold capQ
  split <;> split <;> grind

theorem capQ_nonneg (cfg : Cfg) (hm : 0 ≤ cfg.max) {x : Rat} (h : 0 ≤ x) : 0 ≤ capQ cfg x := by
  have hm' : (0 : Rat) ≤ (cfg.max : Rat) := Rat.intCast_nonneg.mpr hm
  unfold capQ
  split
  · exact hm'
  · exact h

/-! ### truncation toward zero -/

theorem truncQ_mono {a b : Rat} (h : a ≤ b) : truncQ a ≤ truncQ b := by
  unfold truncQ
  split <;> split
  · exact Rat.floor_monotone h
  · rename_i h1 h2
    exact absurd (Rat.le_trans h1 h) h2
  · rename_i h1 h2
    have h1' : a ≤ ((0 : Int) : Rat) := Rat.le_of_lt (Rat.not_le.mp h1)
    have ha : a.ceil ≤ 0 := Rat.ceil_le_iff.mpr h1'
    have hb : (0 : Int) ≤ b.floor := Rat.le_floor_iff.mpr h2
    omega
  · exact Rat.ceil_le_iff.mpr (Rat.le_trans h Rat.le_ceil)

theorem truncQ_le_int {a : Rat} {m : Int} (h : a ≤ (m : Rat)) : truncQ a ≤ m := by
  unfold truncQ
  split
  · have := Rat.le_trans (Rat.floor_le a) h
    exact Rat.intCast_le_intCast.mp this
  · exact Rat.ceil_le_iff.mpr h

theorem truncQ_nonneg {a : Rat} (h : 0 ≤ a) : 0 ≤ truncQ a := by
  unfold truncQ
  simp only [h, ↓reduceIte]
  exact Rat.le_floor_iff.mpr h

/-! ### calculateDelay on a sanitised configuration -/

/-- never above the cap — for every stored configuration with a non-negative cap
    (for a negative cap the -Inf corner of an unsanitised configuration is the only exception) -/
theorem delayNs_le_max (cfg : Cfg) (hm : 0 ≤ cfg.max) (n : Nat) : delayNs cfg n ≤ cfg.max := by
  unfold delayNs
  split
  · simp only
    split
    · exact Int.le_refl _
    · exact truncQ_le_int (capQ_le_max cfg _)
  · split
    · exact truncQ_le_int (capQ_le_max cfg _)
    · split
      · omega
      · exact Int.le_refl _

theorem delayNs_nonneg (cfg : Cfg) (hs : cfg.Sane) (n : Nat) : 0 ≤ delayNs cfg n := by
  obtain ⟨_, hb, hm, hf⟩ := hs
  have hb' : (0 : Rat) ≤ (cfg.base : Rat) := Rat.intCast_nonneg.mpr hb
  unfold delayNs
  split
  · rename_i q hq
    rw [hq] at hf
    have h0 : (0 : Rat) ≤ q := Rat.le_trans (by decide) hf
    simp only
    split
    · exact hm
    · exact truncQ_nonneg (capQ_nonneg cfg hm (Rat.mul_nonneg hb' (Rat.pow_nonneg h0)))
  · split
    · exact truncQ_nonneg (capQ_nonneg cfg hm hb')
    · split
      · omega
      · exact hm

theorem delayNs_mono (cfg : Cfg) (hs : cfg.Sane) {m n : Nat} (h : m ≤ n) :
    delayNs cfg m ≤ delayNs cfg n := by
  have hmax := delayNs_le_max cfg hs.2.2.1
  have hnn := delayNs_nonneg cfg hs
  obtain ⟨_, hb, hm, hf⟩ := hs
  have hb' : (0 : Rat) ≤ (cfg.base : Rat) := Rat.intCast_nonneg.mpr hb
  cases hfac : cfg.factor with
  | fin q =>
    rw [hfac] at hf
    simp only at hf
    by_cases hb0 : cfg.base = 0
    · -- zero base delay: 0 until the power overflows float64, the cap afterwards
      by_cases ho : floatOverflow ≤ q ^ (m - 1)
      · have ho' : floatOverflow ≤ q ^ (n - 1) := Rat.le_trans ho (pow_mono hf (by omega))
        simp [delayNs, hfac, hb0, ho, ho']
      · have hm0 : delayNs cfg m = 0 := by
          have hm' : ¬ ((cfg.max : Rat) < 0) := Rat.not_lt.mpr (Rat.intCast_nonneg.mpr hm)
          simp [delayNs, hfac, hb0, ho, capQ, hm', truncQ]
          rfl
        rw [hm0]; exact hnn n
    · have e : ∀ k, delayNs cfg k = truncQ (capQ cfg ((cfg.base : Rat) * q ^ (k - 1))) := by
        intro k; simp [delayNs, hfac, hb0]
      rw [e m, e n]
      exact truncQ_mono (capQ_mono cfg (raw_mono hb' hf h))
  | posInf =>
    have hb0 : ¬ cfg.base < 0 := by omega
    by_cases h1 : n ≤ 1
    · have h2 : m ≤ 1 := by omega
      simp [delayNs, hfac, h1, h2]
    · by_cases h2 : m ≤ 1
      · simp only [delayNs, hfac, h1, h2, hb0, ↓reduceIte]
        exact truncQ_le_int (capQ_le_max cfg _)
      · simp [delayNs, hfac, h1, h2, hb0]

/-- consecutive delays `calculateDelay(a), calculateDelay(a+1), …` never decrease -/
theorem delays_pairwise (cfg : Cfg) (hs : cfg.Sane) (a k : Nat) :
    ((List.range' a k).map (delayNs cfg)).Pairwise (· ≤ ·) := by
  rw [List.pairwise_map]
  have := List.pairwise_lt_range' (s := a) (n := k) (step := 1) (by omega)
  exact this.imp (fun h => delayNs_mono cfg hs (Nat.le_of_lt h))

/-! ### sanitisation -/

theorem sanitize_sane (raw : RawCfg) : (sanitize raw).Sane := by
  refine ⟨?_, ?_, ?_, ?_⟩
  · simp only [sanitize]; split <;> omega
  · simp only [sanitize]; split <;> omega
  · simp only [sanitize]; split <;> omega
  · simp only [sanitize]
    cases raw.factor with
    | fin q => by_cases h : 1 ≤ q <;> simp [h] <;> decide
    | posInf => trivial
    | negInf => decide
    | nan => decide

end Wtf.Retry
