import WtfModel.Proofs.C01Score
/-
  C01: in the index built by `build` every document frequency is at most the number of documents,
  so idf is only evaluated where the BM25 formula is the logarithm of a number ≥ 1.  Core Lean only.
-/
namespace Wtf.Index
open Text

/-! ### association lists -/

theorem look_upd {α : Type} (m : List (Token × α)) (k : Token) (d : α) (f : α → α) (k' : Token) :
    look (upd m k d f) k' = if k = k' then some (f ((look m k).getD d)) else look m k' := by
  induction m with
  | nil =>
    simp only [upd, look]
    by_cases h : k = k'
    · simp [h]
    · simp [h]
  | cons a rest ih =>
    obtain ⟨k0, v⟩ := a
    simp only [upd]
    by_cases h0 : k0 = k
    · subst h0
      simp only [beq_self_eq_true, ↓reduceIte, look]
      by_cases h : k0 = k'
      · simp [h]
      · simp [h]
    · have : (k0 == k) = false := by simpa using h0
      simp only [this, Bool.false_eq_true, ↓reduceIte, look, ih]
      by_cases h : k = k'
      · subst h
        simp [this]
      · simp only [h, ↓reduceIte]

def Keys {α : Type} (m : List (Token × α)) : List Token := m.map (·.1)

theorem keys_upd {α : Type} (m : List (Token × α)) (k : Token) (d : α) (f : α → α) :
    Keys (upd m k d f) = if k ∈ Keys m then Keys m else Keys m ++ [k] := by
  induction m with
  | nil => simp [upd, Keys]
  | cons a rest ih =>
    obtain ⟨k0, v⟩ := a
    simp only [upd]
    by_cases h0 : k0 = k
    · subst h0; simp [Keys]
    · have hb : (k0 == k) = false := by simpa using h0
      have hne : ¬ k = k0 := fun h => h0 h.symm
      simp only [hb, Bool.false_eq_true, ↓reduceIte, Keys, List.map_cons, List.mem_cons, hne, false_or]
      have ih' := ih
      simp only [Keys] at ih'
      rw [ih']
      split
      · rename_i hm; simp [hm]
      · rename_i hm; simp [hm]

theorem keys_nodup_upd {α : Type} {m : List (Token × α)} (h : (Keys m).Nodup) (k : Token) (d : α) (f : α → α) :
    (Keys (upd m k d f)).Nodup := by
  rw [keys_upd]
  split
  · exact h
  · rename_i hk
    rw [List.nodup_append]
    refine ⟨h, by simp, ?_⟩
    intro a ha b hb
    simp only [List.mem_singleton] at hb
    subst hb
    intro hab; subst hab; exact hk ha

theorem keys_nodup_addTokens (m : List (Token × FieldTF)) (h : (Keys m).Nodup) (ts : List Token) (f : Field) :
    (Keys (addTokens m ts f)).Nodup := by
  unfold addTokens
  induction ts generalizing m with
  | nil => exact h
  | cons t rest ih => exact ih _ (keys_nodup_upd h _ _ _)

theorem keys_nodup_docTF (c : Cmd) : (Keys (docTF c)).Nodup := by
  unfold docTF
  apply keys_nodup_addTokens
  apply keys_nodup_addTokens
  apply keys_nodup_addTokens
  apply keys_nodup_addTokens
  simp [Keys]

/-- one pass over a key-duplicate-free term list raises each document frequency by at most one -/
theorem look_dfFold (tf : List (Token × FieldTF)) (h : (Keys tf).Nodup) (df : List (Token × Nat)) (t : Token) :
    look (tf.foldl (fun d (x : Token × FieldTF) => upd d x.1 0 (· + 1)) df) t =
      if t ∈ Keys tf then some ((look df t).getD 0 + 1) else look df t := by
  induction tf generalizing df with
  | nil => simp [Keys]
  | cons a rest ih =>
    obtain ⟨k, v⟩ := a
    simp only [Keys, List.map_cons, List.nodup_cons] at h
    simp only [List.foldl_cons]
    have ih' := ih h.2 (upd df k 0 (· + 1))
    rw [ih']
    simp only [Keys, List.map_cons, List.mem_cons, look_upd]
    by_cases hk : k = t
    · subst hk
      have : ¬ k ∈ List.map (fun x => x.1) rest := h.1
      simp [this]
    · have hk' : ¬ t = k := fun e => hk e.symm
      simp only [hk, hk', ↓reduceIte, false_or]

end Wtf.Index

namespace Wtf.Search
open Text Index

theorem dfLeN_empty : DfLeN ({} : Index) := by
  intro t k h; simp [look] at h

theorem dfLeN_addDoc {idx : Index} (h : DfLeN idx) (c : Cmd) : DfLeN (addDoc idx c) := by
  intro t k hk
  unfold addDoc at hk
  simp only at hk
  have e : (docTF c).foldl (fun d (x : Token × FieldTF) => upd d x.1 0 (· + 1)) idx.df =
           (docTF c).foldl (fun d (x : Token × FieldTF) => match x with | (t, _) => upd d t 0 (· + 1)) idx.df := rfl
  rw [← e, look_dfFold _ (keys_nodup_docTF c)] at hk
  show k ≤ idx.n + 1
  split at hk
  · simp only [Option.some.injEq] at hk
    subst hk
    cases hl : look idx.df t with
    | none => simp
    | some k0 => have := h t k0 hl; simp; omega
  · have := h t k hk; omega

theorem dfLeN_foldl (db : Db) (idx : Index) (h : DfLeN idx) : DfLeN (db.foldl addDoc idx) := by
  induction db generalizing idx with
  | nil => exact h
  | cons c rest ih => exact ih _ (dfLeN_addDoc h c)

/-- `idx.df[t] ≤ idx.N` for the index of any database -/
theorem dfLeN_build (db : Db) : DfLeN (build db) := dfLeN_foldl db {} dfLeN_empty

end Wtf.Search
